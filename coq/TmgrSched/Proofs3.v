(* C12: the recorded pilot state never regresses, every report is absorbed,
   and backfilling binds only to pilots that are eligible w.r.t. the most
   advanced report (oracle clause ok_bf_eligible). *)
From Coq Require Import ZArith List Bool Lia.
From RP Require Import Gen.StatesTables States.Model States.Inst
  TmgrSched.Model TmgrSched.Oracle TmgrSched.Proofs.
Import ListNotations.
Open Scope Z_scope.

(* the state the scheduler has recorded for pilot q (None: nothing recorded) *)
Definition stq (q : Z) (pl : list (Z * pil)) : option pstate := p_state (getp q pl).
Definition SPp (pl pl' : list (Z * pil)) : Prop := forall q, stq q pl' = stq q pl.
Definition MONOp (pl pl' : list (Z * pil)) : Prop := forall q, pval (stq q pl) <= pval (stq q pl').
(* every _assign_pilot snapshot shows the state recorded in pl *)
Definition QA (pl : list (Z * pil)) (ev : list event) : Prop :=
  Forall (fun a => a_state a = stq (a_pid a) pl) (asgs_of ev).

Lemma SPp_refl pl : SPp pl pl.
Proof. intro q. reflexivity. Qed.
Lemma SPp_trans a b c : SPp a b -> SPp b c -> SPp a c.
Proof. intros H1 H2 q. rewrite H2. apply H1. Qed.
Lemma SPp_MONO a b : SPp a b -> MONOp a b.
Proof. intros H q. rewrite H. lia. Qed.
Lemma MONOp_trans a b c : MONOp a b -> MONOp b c -> MONOp a c.
Proof. intros H1 H2 q. specialize (H1 q). specialize (H2 q). lia. Qed.
Lemma QA_SP pl pl' ev : SPp pl pl' -> QA pl ev -> QA pl' ev.
Proof.
  intros Hs Hq. unfold QA in *. rewrite Forall_forall in *. intros a Ha. rewrite Hs. exact (Hq a Ha).
Qed.
Lemma QA_nil pl : QA pl [].
Proof. constructor. Qed.
Lemma QA_app pl a b : QA pl a -> QA pl b -> QA pl (a ++ b).
Proof. unfold QA. rewrite asgs_of_app. intros. apply Forall_app. split; assumption. Qed.
Lemma QA_adv pl k l : QA pl (adv k l).
Proof. unfold adv. destruct l; constructor. Qed.

(* ---------------- the generated pilot state table ---------------- *)
Definition prog_table_ok : bool :=
  forallb (fun cur => forallb (fun tgt =>
     match p_progress cur tgt with
     | inr (n, _) => pvalue n =? Z.max (pvalue cur) (pvalue tgt)
     | inl ValueError => pvalue tgt <=? pvalue cur
     | inl _ => false
     end) pstate_all) pstate_all
  && forallb (fun s => pnone_value <=? pvalue s) pstate_all.

Lemma prog_table_ok_true : prog_table_ok = true.
Proof. vm_compute. reflexivity. Qed.

(* _pilot_state_progress, when it does not raise, yields the more advanced of the two states *)
Lemma p_progress_max cur tgt n l :
  p_progress cur tgt = inr (n, l) -> pvalue n = Z.max (pvalue cur) (pvalue tgt).
Proof.
  intro H. pose proof prog_table_ok_true as T. unfold prog_table_ok in T.
  apply andb_true_iff in T. destruct T as [T _]. rewrite forallb_forall in T.
  specialize (T cur (pstate_all_complete cur)). rewrite forallb_forall in T.
  specialize (T tgt (pstate_all_complete tgt)). rewrite H in T. apply Z.eqb_eq in T. exact T.
Qed.

(* it only ever raises ValueError, and only on a report that is not more advanced *)
Lemma p_progress_err cur tgt e :
  p_progress cur tgt = inl e -> e = ValueError /\ pvalue tgt <= pvalue cur.
Proof.
  intro H. pose proof prog_table_ok_true as T. unfold prog_table_ok in T.
  apply andb_true_iff in T. destruct T as [T _]. rewrite forallb_forall in T.
  specialize (T cur (pstate_all_complete cur)). rewrite forallb_forall in T.
  specialize (T tgt (pstate_all_complete tgt)). rewrite H in T.
  destruct e; try discriminate. apply Z.leb_le in T. split; [reflexivity|exact T].
Qed.

Lemma pnone_le s : pnone_value <= pvalue s.
Proof.
  pose proof prog_table_ok_true as T. unfold prog_table_ok in T.
  apply andb_true_iff in T. destruct T as [_ T]. rewrite forallb_forall in T.
  specialize (T s (pstate_all_complete s)). apply Z.leb_le in T. exact T.
Qed.

Lemma pstate_opt_eqb_some a n : pstate_opt_eqb a (Some n) = true -> a = Some n.
Proof.
  destruct a as [x|]; simpl; [|discriminate]. intro H. apply pstate_beq_spec in H. congruence.
Qed.

(* ---------------- dict updates that keep the recorded states ---------------- *)
Lemma SPp_aset_some pl pid p p' :
  aget pid pl = Some p -> p_state p' = p_state p -> SPp pl (aset pid p' pl).
Proof.
  intros Hg Hs q. unfold stq. rewrite getp_aset. destruct (Z.eqb_spec pid q); [|reflexivity].
  subst. unfold getp. rewrite Hg. exact Hs.
Qed.

Lemma SPp_aset_none pl pid p' :
  aget pid pl = None -> p_state p' = None -> SPp pl (aset pid p' pl).
Proof.
  intros Hg Hs q. unfold stq. rewrite getp_aset. destruct (Z.eqb_spec pid q); [|reflexivity].
  subst. unfold getp. rewrite Hg. exact Hs.
Qed.

Lemma SPp_aset_getp pl pid p' : p_state p' = p_state (getp pid pl) -> SPp pl (aset pid p' pl).
Proof.
  intro Hs. destruct (aget pid pl) as [p|] eqn:Hg.
  - apply (SPp_aset_some _ _ p); [exact Hg|]. rewrite Hs. unfold getp. rewrite Hg. reflexivity.
  - apply SPp_aset_none; [exact Hg|]. rewrite Hs. unfold getp. rewrite Hg. reflexivity.
Qed.

Lemma add_used_SP pid uid cores pl : SPp pl (add_used pid uid cores pl).
Proof. intro q. exact (proj2 (add_used_role pid uid cores pl q)). Qed.

Lemma set_info_SP c pl pid : SPp pl (set_info c pl pid).
Proof. unfold set_info. apply SPp_aset_getp. reflexivity. Qed.

Lemma set_info_fold_SP c : forall pids pl, SPp pl (fold_left (set_info c) pids pl).
Proof.
  induction pids as [|p r IH]; intro pl; simpl; [apply SPp_refl|].
  exact (SPp_trans _ _ _ (set_info_SP c pl p) (IH _)).
Qed.

Lemma add_loop_SP : forall ps pl pl' e, add_loop ps pl = (pl', e) -> SPp pl pl'.
Proof.
  induction ps as [|[[pid st] cores] r IH]; intros pl pl' e H; simpl in H.
  - injection H as <- <-. apply SPp_refl.
  - destruct (aget pid pl) as [p|] eqn:Hg.
    + destruct (role_eqb (p_role p) RAdded).
      * injection H as <- <-. apply SPp_refl.
      * refine (SPp_trans _ _ _ _ (IH _ _ _ H)). apply (SPp_aset_some _ _ p); [exact Hg|reflexivity].
    + refine (SPp_trans _ _ _ _ (IH _ _ _ H)). apply SPp_aset_none; [exact Hg|reflexivity].
Qed.

Lemma rem_loop_SP : forall pids pl pl' e, rem_loop pids pl = (pl', e) -> SPp pl pl'.
Proof.
  induction pids as [|pid r IH]; intros pl pl' e H; simpl in H.
  - injection H as <- <-. apply SPp_refl.
  - destruct (aget pid pl) as [p|] eqn:Hg.
    + destruct (role_eqb (p_role p) RAdded).
      * refine (SPp_trans _ _ _ _ (IH _ _ _ H)). apply (SPp_aset_some _ _ p); [exact Hg|reflexivity].
      * injection H as <- <-. apply SPp_refl.
    + injection H as <- <-. apply SPp_refl.
Qed.

Lemma ut_loop_SP : forall ns pl b pl' b' e, ut_loop ns pl b = (pl', b', e) -> SPp pl pl'.
Proof.
  induction ns as [|[[[uid op] st] cores] r IH]; intros pl b pl' b' e H; cbn [ut_loop] in H.
  - injection H as <- <- <-. apply SPp_refl.
  - destruct op as [pid|]; [|exact (IH _ _ _ _ _ H)].
    destruct (aget pid pl) as [p|] eqn:Hg; [|exact (IH _ _ _ _ _ H)].
    destruct (p_info p) as [i|]; [|exact (IH _ _ _ _ _ H)].
    destruct (memz uid (i_done i)); [exact (IH _ _ _ _ _ H)|].
    destruct (tvalue st <=? tvalue T_AGENT_EXECUTING); [exact (IH _ _ _ _ _ H)|].
    destruct (negb (memz uid (i_tasks i))); [exact (IH _ _ _ _ _ H)|].
    cbn [i_used] in H.
    destruct (i_used i - cores <? 0).
    + injection H as <- <- <-. apply (SPp_aset_some _ _ p); [exact Hg|reflexivity].
    + refine (SPp_trans _ _ _ _ (IH _ _ _ _ _ H)). apply (SPp_aset_some _ _ p); [exact Hg|reflexivity].
Qed.

(* ---------------- _update_pilot_states: monotone, absorbs every report ---------------- *)
Lemma ups_loop_mono : forall ps pl upd pl' upd' e,
  ups_loop ps pl upd = (pl', upd', e) ->
  MONOp pl pl' /\ e = None /\
  (forall pid tgt, In (pid, tgt) ps -> pvalue tgt <= pval (stq pid pl')).
Proof.
  induction ps as [|[pid tgt] r IH]; intros pl upd pl' upd' e H; cbn [ups_loop] in H.
  - injection H as <- <- <-. split; [apply SPp_MONO, SPp_refl|split; [reflexivity|]]. intros ? ? [].
  - set (pl1 := match aget pid pl with Some _ => pl | None => aset pid pil0 pl end) in H.
    assert (H1 : SPp pl pl1).
    { subst pl1. destruct (aget pid pl) eqn:Hg; [apply SPp_refl|].
      apply SPp_aset_none; [exact Hg|reflexivity]. }
    clearbody pl1.
    assert (G : forall n, pval (stq pid pl1) <= pvalue n -> pvalue tgt <= pvalue n ->
              (if pstate_opt_eqb (p_state (getp pid pl1)) (Some n) then ups_loop r pl1 upd
               else ups_loop r (aset pid (mkPil (p_role (getp pid pl1)) (Some n) (p_cores (getp pid pl1))
                                            (p_info (getp pid pl1))) pl1) (upd ++ [pid])) = (pl', upd', e) ->
              MONOp pl pl' /\ e = None /\
              (forall pid0 tgt0, In (pid0, tgt0) ((pid, tgt) :: r) ->
                           pvalue tgt0 <= pval (stq pid0 pl'))).
    { intros n Hn1 Hn2 HH.
      destruct (pstate_opt_eqb (p_state (getp pid pl1)) (Some n)) eqn:Eq.
      - apply pstate_opt_eqb_some in Eq. destruct (IH _ _ _ _ _ HH) as [M [E A]].
        split; [exact (MONOp_trans _ _ _ (SPp_MONO _ _ H1) M)|split; [exact E|]].
        intros p0 t0 [Hin|Hin]; [|exact (A _ _ Hin)].
        injection Hin as <- <-. specialize (M pid). unfold stq in M at 1. rewrite Eq in M.
        cbn [pval] in M. lia.
      - destruct (IH _ _ _ _ _ HH) as [M [E A]].
        set (pl2 := aset pid _ pl1) in *.
        assert (M12 : MONOp pl1 pl2).
        { intro q. unfold stq at 2. subst pl2. rewrite getp_aset.
          destruct (Z.eqb_spec pid q); [subst; cbn [p_state pval]; exact Hn1|]. unfold stq. lia. }
        split; [exact (MONOp_trans _ _ _ (SPp_MONO _ _ H1) (MONOp_trans _ _ _ M12 M))|split; [exact E|]].
        intros p0 t0 [Hin|Hin]; [|exact (A _ _ Hin)].
        injection Hin as <- <-. specialize (M pid). unfold stq in M at 1. subst pl2.
        rewrite getp_aset, Z.eqb_refl in M. cbn [p_state pval] in M. lia. }
    destruct (p_state (getp pid pl1)) as [cur|] eqn:Es.
    + destruct (p_progress cur tgt) as [err|[n l]] eqn:Ep.
      * destruct (p_progress_err _ _ _ Ep) as [-> Hle].
        destruct (IH _ _ _ _ _ H) as [M [E A]].
        split; [exact (MONOp_trans _ _ _ (SPp_MONO _ _ H1) M)|split; [exact E|]].
        intros p0 t0 [Hin|Hin]; [|exact (A _ _ Hin)].
        injection Hin as <- <-. specialize (M pid). unfold stq in M at 1. rewrite Es in M.
        cbn [pval] in M. lia.
      * apply (G n); [| |exact H].
        -- unfold stq. rewrite Es. cbn [pval]. rewrite (p_progress_max _ _ _ _ Ep). lia.
        -- rewrite (p_progress_max _ _ _ _ Ep). lia.
    + apply (G tgt); [| lia |exact H].
      unfold stq. rewrite Es. cbn [pval]. apply pnone_le.
Qed.

(* ---------------- the loops ---------------- *)
Lemma QA_cons_asg pl a ev : a_state a = stq (a_pid a) pl -> QA pl ev -> QA pl (EAsg a :: ev).
Proof. intros H1 H2. unfold QA. cbn [asgs_of]. constructor; assumption. Qed.
Lemma QA_cons_adv pl k l ev : QA pl ev -> QA pl (EAdv k l :: ev).
Proof. exact (fun H => H). Qed.
Lemma QA_cons_ntf pl l ev : QA pl ev -> QA pl (ENtf l :: ev).
Proof. exact (fun H => H). Qed.

Lemma rr_loop_QA pl pids : forall ts idx idx' ok ev,
  rr_loop pl pids idx ts = (idx', ok, ev) -> QA pl ev.
Proof.
  induction ts as [|t ts IH]; intros idx idx' ok ev H; simpl in H.
  - injection H as <- <- <-. apply QA_nil.
  - destruct (rr_loop pl pids ((if Z.of_nat (length pids) <=? idx then 0 else idx) + 1) ts)
      as [[i2 ok2] ev2] eqn:E.
    injection H as <- <- <-. apply QA_cons_asg; [reflexivity|exact (IH _ _ _ _ E)].
Qed.

Lemma rr_schedule_QA s ts s' ev :
  rr_schedule s ts = (s', ev) -> s_pilots s' = s_pilots s /\ QA (s_pilots s') ev.
Proof.
  unfold rr_schedule. destruct (s_pids s) as [|p0 pids].
  - intro H. injection H as <- <-. split; [reflexivity|apply QA_nil].
  - destruct (rr_loop (s_pilots s) (p0 :: pids) (s_idx s) ts) as [[i2 ok] ev2] eqn:E.
    intro H. injection H as <- <-. split; [reflexivity|]. cbn [s_pilots].
    apply QA_app; [exact (rr_loop_QA _ _ _ _ _ _ _ E)|apply QA_adv].
Qed.

Lemma bf_loop_QA : forall wait elig pl pl' sc un ev,
  bf_loop wait elig pl = (pl', sc, un, ev) -> SPp pl pl' /\ QA pl' ev.
Proof.
  induction wait as [|t w IH]; intros elig pl pl' sc un ev H; simpl in H.
  - injection H as <- <- <- <-. split; [apply SPp_refl|apply QA_nil].
  - destruct (find _ elig) as [pid|].
    + match type of H with context [bf_loop w ?e ?p] => destruct (bf_loop w e p) as [[[pl2 sc2] un2] ev2] eqn:E end.
      injection H as <- <- <- <-. destruct (IH _ _ _ _ _ _ E) as [S Q].
      split; [exact (SPp_trans _ _ _ (add_used_SP _ _ _ _) S)|].
      apply QA_cons_asg; [|exact Q]. unfold snap. cbn [a_state a_pid]. symmetry. apply S.
    + destruct (bf_loop w elig pl) as [[[pl2 sc2] un2] ev2] eqn:E.
      injection H as <- <- <- <-. exact (IH _ _ _ _ _ _ E).
Qed.

Definition SPs (s s' : st) : Prop := SPp (s_pilots s) (s_pilots s').

Lemma bf_schedule_QA c s s' ev :
  bf_schedule c s = (s', ev) -> SPs s s' /\ QA (s_pilots s') ev.
Proof.
  unfold bf_schedule. destruct (filter _ (s_pids s)) as [|e0 elig].
  - intro H. injection H as <- <-. split; [apply SPp_refl|apply QA_nil].
  - destruct (bf_loop (s_wait s) (e0 :: elig) (s_pilots s)) as [[[pl2 sc] un] ev2] eqn:E.
    intro H. injection H as <- <-. destruct (bf_loop_QA _ _ _ _ _ _ _ E) as [S Q].
    split; [exact S|]. cbn [s_pilots]. apply QA_app; [exact Q|apply QA_adv].
Qed.

Lemma update_pilots_QA c s upd s' ev :
  update_pilots c s upd = (s', ev) -> SPs s s' /\ QA (s_pilots s') ev.
Proof.
  unfold update_pilots. destruct (c_kind c).
  - intro H. injection H as <- <-. split; [apply SPp_refl|apply QA_nil].
  - destruct (existsb _ upd); [apply bf_schedule_QA|].
    intro H. injection H as <- <-. split; [apply SPp_refl|apply QA_nil].
Qed.

Definition ABS (ps : list (Z * pstate)) (pl : list (Z * pil)) : Prop :=
  forall pid tgt, In (pid, tgt) ps -> pvalue tgt <= pval (stq pid pl).

Lemma ABS_SP ps pl pl' : SPp pl pl' -> ABS ps pl -> ABS ps pl'.
Proof. intros S A pid tgt Hin. rewrite S. exact (A _ _ Hin). Qed.

Lemma update_pilot_states_QA c s ps s' ev e :
  update_pilot_states c s ps = (s', ev, e) ->
  MONOp (s_pilots s) (s_pilots s') /\ QA (s_pilots s') ev /\ e = None /\ ABS ps (s_pilots s').
Proof.
  unfold update_pilot_states. destruct ps as [|p ps].
  - intro H. injection H as <- <- <-.
    split; [apply SPp_MONO, SPp_refl|split; [apply QA_nil|split; [reflexivity|]]]. intros ? ? [].
  - destruct (ups_loop (p :: ps) (s_pilots s) []) as [[pl upd] e1] eqn:E.
    destruct (ups_loop_mono _ _ _ _ _ _ E) as [M [-> A]].
    destruct upd as [|u0 upd].
    + intro H. injection H as <- <- <-. split; [exact M|split; [apply QA_nil|split; [reflexivity|exact A]]].
    + destruct (update_pilots c (with_pilots s pl) (u0 :: upd)) as [s2 ev2] eqn:E2.
      intro H. injection H as <- <- <-. destruct (update_pilots_QA _ _ _ _ _ E2) as [S Q].
      unfold SPs in S. cbn [with_pilots s_pilots] in S.
      split; [exact (MONOp_trans _ _ _ M (SPp_MONO _ _ S))|split; [exact Q|split; [reflexivity|]]].
      exact (ABS_SP _ _ _ S A).
Qed.

Lemma work_loop_QA pl : forall ts early e' bound tosched ev,
  work_loop pl ts early = (e', bound, tosched, ev) -> QA pl ev.
Proof.
  induction ts as [|t ts IH]; intros early e' bound tosched ev H; simpl in H.
  - injection H as <- <- <- <-. apply QA_nil.
  - destruct (t_pilot t) as [pid|].
    + destruct (has_dict pid pl).
      * destruct (work_loop pl ts early) as [[[e2 b2] t2] ev2] eqn:E.
        injection H as <- <- <- <-. apply QA_cons_asg; [reflexivity|].
        apply QA_cons_adv. exact (IH _ _ _ _ _ E).
      * exact (IH _ _ _ _ _ H).
    + destruct (work_loop pl ts early) as [[[e2 b2] t2] ev2] eqn:E.
      injection H as <- <- <- <-. exact (IH _ _ _ _ _ E).
Qed.

Lemma sub_work_QA c s ts s' ev :
  sub_work c s ts = (s', ev) -> SPs s s' /\ QA (s_pilots s') ev.
Proof.
  unfold sub_work. destruct (c_kind c).
  - destruct ts as [|t ts].
    + intro H. injection H as <- <-. split; [apply SPp_refl|apply QA_nil].
    + intro H. destruct (rr_schedule_QA _ _ _ _ H) as [Hp Q]. split; [|exact Q].
      unfold SPs. rewrite Hp. apply SPp_refl.
  - intro H. exact (bf_schedule_QA _ _ _ _ H).
Qed.

Lemma work_QA c s ts s' ev : work c s ts = (s', ev) -> SPs s s' /\ QA (s_pilots s') ev.
Proof.
  unfold work. destruct (work_loop (s_pilots s) ts (s_early s)) as [[[e2 b2] t2] ev2] eqn:E.
  match goal with |- context [sub_work c ?x t2] => destruct (sub_work c x t2) as [s2 ev3] eqn:E2 end.
  intro H. injection H as <- <-. destruct (sub_work_QA _ _ _ _ _ E2) as [S Q].
  unfold SPs in *. cbn [s_pilots] in S. split; [exact S|].
  apply QA_app; [apply QA_adv|]. apply QA_app; [|exact Q].
  exact (QA_SP _ _ _ S (work_loop_QA _ _ _ _ _ _ _ E)).
Qed.

Lemma flush_tasks_QA pl pid : forall l b ev, flush_tasks pl pid l = (b, ev) -> QA pl ev.
Proof.
  induction l as [|t l IH]; intros b ev H; simpl in H.
  - injection H as <- <-. apply QA_nil.
  - destruct (flush_tasks pl pid l) as [b2 ev2] eqn:E. injection H as <- <-.
    apply QA_cons_asg; [reflexivity|exact (IH _ _ eq_refl)].
Qed.

Lemma flush_loop_QA pl : forall pids early e' b ev,
  flush_loop pl pids early = (e', b, ev) -> QA pl ev.
Proof.
  induction pids as [|pid pids IH]; intros early e' b ev H; cbn [flush_loop] in H.
  - injection H as <- <- <-. apply QA_nil.
  - destruct (aget pid early) as [[|t l]|].
    + exact (IH _ _ _ _ H).
    + destruct (flush_tasks pl pid (t :: l)) as [b1 ev1] eqn:E1.
      destruct (flush_loop pl pids (adel pid early)) as [[e2 b2] ev2] eqn:E2.
      injection H as <- <- <-.
      apply QA_app; [exact (flush_tasks_QA _ _ _ _ _ E1)|].
      apply QA_app; [apply QA_adv|exact (IH _ _ _ _ E2)].
    + exact (IH _ _ _ _ H).
Qed.

Lemma sub_add_QA c s pids s' ev :
  sub_add c s pids = (s', ev) -> SPs s s' /\ QA (s_pilots s') ev.
Proof.
  unfold sub_add. destruct (c_kind c).
  - destruct (s_wait s) as [|t w].
    + intro H. injection H as <- <-. split; [apply SPp_refl|apply QA_nil].
    + intro H. destruct (rr_schedule_QA _ _ _ _ H) as [Hp Q]. split; [|exact Q].
      unfold SPs. rewrite Hp. apply SPp_refl.
  - intro H. destruct (bf_schedule_QA _ _ _ _ H) as [S Q]. split; [|exact Q].
    unfold SPs in *. cbn [s_pilots] in S.
    exact (SPp_trans _ _ _ (set_info_fold_SP c pids (s_pilots s)) S).
Qed.

Definition docs (ps : list (Z * pstate * Z)) : list (Z * pstate) :=
  map (fun x => (fst (fst x), snd (fst x))) ps.

Lemma do_add_QA c s ps s' ev e :
  do_add c s ps = (s', ev, e) ->
  MONOp (s_pilots s) (s_pilots s') /\ QA (s_pilots s') ev /\ (e = None -> ABS (docs ps) (s_pilots s')).
Proof.
  unfold do_add. destruct (add_loop ps (s_pilots s)) as [pl e1] eqn:E1.
  pose proof (add_loop_SP _ _ _ _ E1) as S1. destruct e1 as [x|].
  - intro H. injection H as <- <- <-.
    split; [exact (SPp_MONO _ _ S1)|split; [apply QA_nil|discriminate]].
  - fold (docs ps).
    destruct (update_pilot_states c (with_pilots s pl) (docs ps)) as [[s2 ev2] e2] eqn:E2.
    destruct (update_pilot_states_QA _ _ _ _ _ _ E2) as [M2 [Q2 [-> A2]]].
    cbn [with_pilots s_pilots] in M2.
    assert (M02 : MONOp (s_pilots s) (s_pilots s2)) by exact (MONOp_trans _ _ _ (SPp_MONO _ _ S1) M2).
    match goal with |- context [flush_loop ?a ?b ?d] =>
      destruct (flush_loop a b d) as [[e' b'] ev3] eqn:E3 end.
    match goal with |- context [sub_add c ?a ?b] =>
      destruct (sub_add c a b) as [s4 ev4] eqn:E4 end.
    intro H. injection H as <- <- <-.
    destruct (sub_add_QA _ _ _ _ _ E4) as [S4 Q4]. unfold SPs in S4. cbn [s_pilots] in S4.
    split; [exact (MONOp_trans _ _ _ M02 (SPp_MONO _ _ S4))|split].
    + apply QA_app; [exact (QA_SP _ _ _ S4 Q2)|].
      apply QA_app; [exact (QA_SP _ _ _ S4 (flush_loop_QA _ _ _ _ _ _ E3))|exact Q4].
    + intros _. exact (ABS_SP _ _ _ S4 A2).
Qed.

Lemma do_remove_QA s pids s' ev e :
  do_remove s pids = (s', ev, e) -> SPs s s' /\ ev = [].
Proof.
  unfold do_remove. destruct (rem_loop pids (s_pilots s)) as [pl e1] eqn:E1.
  pose proof (rem_loop_SP _ _ _ _ E1) as S1. destruct e1 as [x|].
  - intro H. injection H as <- <- <-. split; [exact S1|reflexivity].
  - destruct (sub_rem_loop pids (s_pids (with_pilots s pl))) as [cur e2].
    intro H. injection H as <- <- <-. split; [exact S1|reflexivity].
Qed.

Lemma update_tasks_QA c s ns s' ev e :
  update_tasks c s ns = (s', ev, e) -> SPs s s' /\ QA (s_pilots s') ev.
Proof.
  unfold update_tasks. destruct (c_kind c).
  - intro H. injection H as <- <- <-. split; [apply SPp_refl|apply QA_nil].
  - destruct (ut_loop ns (s_pilots s) false) as [[pl rs] e1] eqn:E1.
    pose proof (ut_loop_SP _ _ _ _ _ _ E1) as S1. destruct e1 as [x|].
    + intro H. injection H as <- <- <-. split; [exact S1|apply QA_nil].
    + destruct rs.
      * destruct (bf_schedule c (with_pilots s pl)) as [s2 ev2] eqn:E.
        intro H. injection H as <- <- <-. destruct (bf_schedule_QA _ _ _ _ E) as [S Q].
        split; [|exact Q]. unfold SPs in *. cbn [with_pilots s_pilots] in S.
        exact (SPp_trans _ _ _ S1 S).
      * intro H. injection H as <- <- <-. split; [exact S1|apply QA_nil].
Qed.

(* what one message does to the recorded pilot states *)
Lemma step_QA c s o s' ev e :
  step c s o = (s', ev, e) ->
  MONOp (s_pilots s) (s_pilots s') /\ QA (s_pilots s') ev /\
  (forall x, In x (reports_of o e) -> snd x <= pval (stq (fst x) (s_pilots s'))).
Proof.
  destruct o as [ts|t ps|t pids|ps|ns|]; cbn [step].
  - destruct (work c s ts) as [s2 ev2] eqn:E. intro H. injection H as <- <- <-.
    destruct (work_QA _ _ _ _ _ E) as [S Q].
    split; [exact (SPp_MONO _ _ S)|split; [exact Q|intros x []]].
  - assert (G : do_add c s ps = (s', ev, e) ->
              MONOp (s_pilots s) (s_pilots s') /\ QA (s_pilots s') ev /\
              (forall x, In x (match e with
                               | None => map (fun x => (fst (fst x), pvalue (snd (fst x)))) ps
                               | Some _ => [] end) -> snd x <= pval (stq (fst x) (s_pilots s')))).
    { intro H. destruct (do_add_QA _ _ _ _ _ _ H) as [M [Q A]]. split; [exact M|split; [exact Q|]].
      destruct e as [x|]; [intros ? []|]. intros x Hin. apply in_map_iff in Hin.
      destruct Hin as [y [<- Hy]]. cbn [fst snd]. apply (A eq_refl). unfold docs.
      apply in_map_iff. exists y. split; [reflexivity|exact Hy]. }
    destruct t; cbn [reports_of]; try exact G.
    intro H. injection H as <- <- <-.
    split; [apply SPp_MONO, SPp_refl|split; [apply QA_nil|intros x []]].
  - assert (G : do_remove s pids = (s', ev, e) ->
              MONOp (s_pilots s) (s_pilots s') /\ QA (s_pilots s') ev /\
              (forall x : Z * Z, In x [] -> snd x <= pval (stq (fst x) (s_pilots s')))).
    { intro H. destruct (do_remove_QA _ _ _ _ _ H) as [S ->].
      split; [exact (SPp_MONO _ _ S)|split; [apply QA_nil|intros x []]]. }
    destruct t; cbn [reports_of]; try exact G.
    intro H. injection H as <- <- <-.
    split; [apply SPp_MONO, SPp_refl|split; [apply QA_nil|intros x []]].
  - intro H. destruct (update_pilot_states_QA _ _ _ _ _ _ H) as [M [Q [_ A]]].
    split; [exact M|split; [exact Q|]]. cbn [reports_of].
    intros x Hin. apply in_map_iff in Hin.
    destruct Hin as [[pid tgt] [<- Hy]]. cbn [fst snd]. exact (A _ _ Hy).
  - destruct (update_tasks c s (map (resolve (s_tk s)) ns)) as [[s2 ev2] e2] eqn:E.
    intro H. injection H as <- <- <-. destruct (update_tasks_QA _ _ _ _ _ _ E) as [S Q].
    split; [exact (SPp_MONO _ _ S)|split; [apply QA_cons_ntf; exact Q|intros x []]].
  - intro H. injection H as <- <- <-.
    split; [apply SPp_MONO, SPp_refl|split; [apply QA_nil|intros x []]].
Qed.

(* the recorded pilot state never regresses, over any message history *)
Lemma run_mono c : forall ops s q,
  pval (stq q (s_pilots s)) <= pval (stq q (s_pilots (fst (run_st c s ops)))).
Proof.
  induction ops as [|o ops IH]; intros s q; simpl; [lia|].
  destruct (step c s o) as [[s1 ev1] e1] eqn:E1.
  destruct (run_st c s1 ops) as [s2 ev2] eqn:E2. cbn [fst].
  destruct (step_QA _ _ _ _ _ _ E1) as [M _]. specialize (IH s1 q). rewrite E2 in IH. cbn [fst] in IH.
  specialize (M q). lia.
Qed.

(* ---------------- eligibility w.r.t. the most advanced report ---------------- *)
Definition AbsAcc (acc : list (Z * Z)) (pl : list (Z * pil)) : Prop :=
  forall x, In x acc -> snd x <= pval (stq (fst x) pl).

Lemma el_fold_run c : c_kind c = BF -> forall ops s acc,
  Inv s -> AbsAcc acc (s_pilots s) -> el_fold c ops (run c s ops) acc = true.
Proof.
  intro Hk. induction ops as [|o ops IH]; intros s acc Hi Ha; [reflexivity|].
  cbn [run]. destruct (step c s o) as [[s1 ev1] e1] eqn:E1. cbn [el_fold fst snd].
  destruct (step_QA _ _ _ _ _ _ E1) as [M [Q R]].
  destruct (step_good c _ _ _ _ _ Hi E1) as [Hi1 Hg].
  assert (Ha1 : AbsAcc (acc ++ reports_of o e1) (s_pilots s1)).
  { intros x Hin. apply in_app_or in Hin. destruct Hin as [Hin|Hin]; [|exact (R x Hin)].
    specialize (Ha x Hin). specialize (M (fst x)). lia. }
  apply andb_true_iff. split; [|exact (IH s1 _ Hi1 Ha1)].
  apply forallb_forall. intros a Hin.
  unfold AllG in Hg. rewrite forallb_forall in Hg. specialize (Hg a Hin).
  unfold QA in Q. rewrite Forall_forall in Q. specialize (Q a Hin).
  unfold elig_asg. destruct (sched_asg a) eqn:Es; [|reflexivity]. cbn [negb orb].
  apply forallb_forall. intros x Hx. destruct (Z.eqb_spec (fst x) (a_pid a)) as [Heq|]; [|reflexivity].
  cbn [negb orb]. apply Z.leb_le.
  specialize (Ha1 x Hx). rewrite Heq, <- Q in Ha1.
  unfold goodb in Hg. rewrite Hk in Hg. apply andb_true_iff in Hg. destruct Hg as [_ Hg].
  apply andb_true_iff in Hg. destruct Hg as [Hw _]. unfold window_asg in Hw. rewrite Es in Hw.
  cbn [negb orb] in Hw. unfold in_window in Hw. apply andb_true_iff in Hw. destruct Hw as [_ Hw].
  apply Z.leb_le in Hw. lia.
Qed.

Lemma bf_eligible c ops : ok_bf_eligible c ops (run c st0 ops) = true.
Proof.
  unfold ok_bf_eligible. destruct (c_kind c) eqn:Hk; [reflexivity|].
  apply (el_fold_run c Hk ops st0 []); [exact Inv0|intros x []].
Qed.

(* a pilot state notification never leaves the component with an exception any more *)
Lemma pstates_never_raise c s ps s' ev e : step c s (OPStates ps) = (s', ev, e) -> e = None.
Proof.
  cbn [step]. intro H. destruct (update_pilot_states_QA _ _ _ _ _ _ H) as [_ [_ [E _]]]. exact E.
Qed.
