(* C12: further lemmas (oracle reflection, waiting without a pilot, round-robin
   balance, backfilling usage accounting). *)
From Coq Require Import ZArith List Bool Lia.
From RP Require Import Gen.StatesTables States.Model States.Inst
  TmgrSched.Model TmgrSched.Oracle TmgrSched.Proofs.
Import ListNotations.
Open Scope Z_scope.

(* ---------------- nodupb reflects NoDup ---------------- *)
Lemma memz_In x l : memz x l = true <-> In x l.
Proof.
  induction l as [|y l IH]; simpl; [split; [discriminate|tauto]|].
  rewrite orb_true_iff, IH, Z.eqb_eq. tauto.
Qed.

Lemma nodupb_NoDup l : nodupb l = true <-> NoDup l.
Proof.
  induction l as [|x l IH]; simpl; [split; [constructor|reflexivity]|].
  rewrite andb_true_iff, negb_true_iff, IH. split.
  - intros [H1 H2]. constructor; [|exact H2]. intro Hin. apply memz_In in Hin. congruence.
  - intro H. inversion H as [|? ? Hx Hl]; subst. split; [|exact Hl].
    destruct (memz x l) eqn:E; [apply memz_In in E; tauto|reflexivity].
Qed.

Lemma bound_once_oracle c ops :
  nodupb (map t_uid (submitted ops)) = true ->
  nodupb (map fst (fwd_of (events_of (run c st0 ops)))) = true.
Proof.
  intro H. apply nodupb_NoDup. apply nodupb_NoDup in H. exact (bound_once c ops H).
Qed.

(* ---------------- waiting while no pilot is registered ---------------- *)
Definition quiet (ev : list event) : Prop :=
  existsb sched_asg (asgs_of ev) = false /\ bad_adv ev = false.

Lemma bad_adv_app a b : bad_adv (a ++ b) = bad_adv a || bad_adv b.
Proof.
  induction a as [|x a IH]; simpl; [reflexivity|].
  destruct x as [k l| |]; try exact IH. destruct k; try exact IH; reflexivity.
Qed.

Lemma quiet_nil : quiet [].
Proof. split; reflexivity. Qed.

Lemma quiet_app a b : quiet a -> quiet b -> quiet (a ++ b).
Proof.
  intros [H1 H2] [H3 H4]. split.
  - rewrite asgs_of_app, existsb_app, H1, H3. reflexivity.
  - rewrite bad_adv_app, H2, H4. reflexivity.
Qed.

Lemma quiet_adv k l : k = AScheduling \/ k = AForward -> quiet (adv k l).
Proof. intros [-> | ->]; unfold adv; destruct l; split; reflexivity. Qed.

Lemma work_loop_quiet pl : forall ts early e' bound tosched ev,
  work_loop pl ts early = (e', bound, tosched, ev) -> quiet ev.
Proof.
  induction ts as [|t ts IH]; intros early e' bound tosched ev H; simpl in H.
  - injection H as <- <- <- <-. apply quiet_nil.
  - destruct (t_pilot t) as [pid|].
    + destruct (has_dict pid pl).
      * destruct (work_loop pl ts early) as [[[e2 b2] t2] ev2] eqn:E.
        injection H as <- <- <- <-. destruct (IH _ _ _ _ _ E) as [H1 H2].
        split; simpl; assumption.
      * exact (IH _ _ _ _ _ H).
    + destruct (work_loop pl ts early) as [[[e2 b2] t2] ev2] eqn:E.
      injection H as <- <- <- <-. exact (IH _ _ _ _ _ E).
Qed.

Lemma bf_schedule_nopids c s : s_pids s = [] -> bf_schedule c s = (s, []).
Proof. intro H. unfold bf_schedule. rewrite H. reflexivity. Qed.

Lemma rr_schedule_nopids s ts : s_pids s = [] ->
  exists s', rr_schedule s ts = (s', []) /\ s_pids s' = [].
Proof.
  intro H. unfold rr_schedule. rewrite H. eexists. split; reflexivity.
Qed.

Lemma sub_rem_loop_nil pids : fst (sub_rem_loop pids []) = [].
Proof. destruct pids; reflexivity. Qed.

Lemma waits_without_pilot c s o s' ev e :
  s_pids s = [] -> (forall t ps, o <> OAdd t ps) -> step c s o = (s', ev, e) ->
  existsb sched_asg (asgs_of ev) = false /\ bad_adv ev = false /\ s_pids s' = [].
Proof.
  intros Hp Hno.
  assert (G : forall ev' s2, quiet ev' -> s_pids s2 = [] ->
            existsb sched_asg (asgs_of ev') = false /\ bad_adv ev' = false /\ s_pids s2 = [])
    by (intros ? ? [? ?] ?; tauto).
  destruct o as [ts|t ps|t pids|ps|ns|]; cbn [step].
  - unfold work. destruct (work_loop (s_pilots s) ts (s_early s)) as [[[e2 b2] t2] ev2] eqn:E.
    pose proof (work_loop_quiet _ _ _ _ _ _ _ E) as Hq.
    unfold sub_work. destruct (c_kind c).
    + destruct t2 as [|t0 t2].
      * intro H. injection H as <- <- <-. apply G; [|exact Hp].
        apply quiet_app; [apply quiet_adv; tauto|]. apply quiet_app; [exact Hq|apply quiet_nil].
      * match goal with |- context [rr_schedule ?x ?y] =>
          destruct (rr_schedule_nopids x y Hp) as [s3 [E3 Hp3]]; rewrite E3 end.
        intro H. injection H as <- <- <-. apply G; [|exact Hp3].
        apply quiet_app; [apply quiet_adv; tauto|]. apply quiet_app; [exact Hq|apply quiet_nil].
    + rewrite bf_schedule_nopids by exact Hp.
      intro H. injection H as <- <- <-. apply G; [|exact Hp].
      apply quiet_app; [apply quiet_adv; tauto|]. apply quiet_app; [exact Hq|apply quiet_nil].
  - exfalso. exact (Hno t ps eq_refl).
  - destruct t; try (intro H; injection H as <- <- <-; apply G; [apply quiet_nil|exact Hp]);
      unfold do_remove; destruct (rem_loop pids (s_pilots s)) as [pl [x|]];
      try (intro H; injection H as <- <- <-; apply G; [apply quiet_nil|exact Hp]);
      cbn [with_pilots s_pids]; rewrite Hp;
      pose proof (sub_rem_loop_nil pids) as Hn; destruct (sub_rem_loop pids []) as [cur e2];
      cbn [fst] in Hn; subst cur; intro H; injection H as <- <- <-;
      (apply G; [apply quiet_nil|reflexivity]).
  - unfold update_pilot_states. destruct ps as [|p ps].
    + intro H. injection H as <- <- <-. apply G; [apply quiet_nil|exact Hp].
    + destruct (ups_loop (p :: ps) (s_pilots s) []) as [[pl upd] [x|]].
      * intro H. injection H as <- <- <-. apply G; [apply quiet_nil|exact Hp].
      * destruct upd as [|u0 upd].
        -- intro H. injection H as <- <- <-. apply G; [apply quiet_nil|exact Hp].
        -- unfold update_pilots. destruct (c_kind c).
           ++ intro H. injection H as <- <- <-. apply G; [apply quiet_nil|exact Hp].
           ++ destruct (existsb _ (u0 :: upd)).
              ** rewrite bf_schedule_nopids by exact Hp.
                 intro H. injection H as <- <- <-. apply G; [apply quiet_nil|exact Hp].
              ** intro H. injection H as <- <- <-. apply G; [apply quiet_nil|exact Hp].
  - unfold update_tasks. destruct (c_kind c).
    + intro H. injection H as <- <- <-. apply G; [split; reflexivity|exact Hp].
    + destruct (ut_loop _ (s_pilots s) false) as [[pl rs] [x|]].
      * intro H. injection H as <- <- <-. apply G; [split; reflexivity|exact Hp].
      * destruct rs.
        -- rewrite bf_schedule_nopids by exact Hp.
           intro H. injection H as <- <- <-. apply G; [split; reflexivity|exact Hp].
        -- intro H. injection H as <- <- <-. apply G; [split; reflexivity|exact Hp].
  - intro H. injection H as <- <- <-. apply G; [apply quiet_nil|exact Hp].
Qed.

(* ---------------- backfilling usage accounting ---------------- *)
Lemma bf_credit_once pl uid pid cores st p i :
  aget pid pl = Some p -> p_info p = Some i ->
  memz uid (i_tasks i) = true -> memz uid (i_done i) = false ->
  tvalue T_AGENT_EXECUTING < tvalue st -> 0 <= i_used i - cores ->
  exists pl', ut_loop [(uid, Some pid, st, cores)] pl false = (pl', true, None) /\
    used_of (getp pid pl') = i_used i - cores /\
    ut_loop [(uid, Some pid, st, cores)] pl' false = (pl', false, None).
Proof.
  intros Hg Hi Ht Hd Hs Hu. eexists. split; [|split].
  - cbn [ut_loop]. rewrite Hg, Hi, Hd, Ht.
    destruct (Z.leb_spec (tvalue st) (tvalue T_AGENT_EXECUTING)); [lia|].
    cbn [negb i_used]. destruct (Z.ltb_spec (i_used i - cores) 0); [lia|]. reflexivity.
  - rewrite getp_aset, Z.eqb_refl. reflexivity.
  - cbn [ut_loop]. rewrite aget_aset, Z.eqb_refl. cbn [p_info i_done].
    assert (Hm : memz uid (i_done i ++ [uid]) = true).
    { apply memz_In. apply in_or_app. right. left. reflexivity. }
    rewrite Hm. reflexivity.
Qed.
