(* Executable model of radical.pilot's client-side (tmgr) scheduler:
     tmgr/scheduler/base.py        TMGRSchedulingComponent.work / control_cb /
                                   _base_state_cb / _update_pilot_states / _assign_pilot
     tmgr/scheduler/round_robin.py RoundRobin.add_pilots / remove_pilots / _work / _schedule_tasks
     tmgr/scheduler/backfilling.py Backfilling.add_pilots / remove_pilots / update_pilots /
                                   update_tasks / _work / _schedule_tasks
   One step = one message handled by the component (a batch of submitted
   tasks, an add_pilots / remove_pilots command, a pilot state notification, a
   task state notification).  Exceptions raised by the code are modelled: a
   step returns the state reached when the exception left the component.
   Task dictionaries are modelled by value (uid, 'pilot' field, cores =
   ranks * cores_per_rank).  Definitions only. *)
From Coq Require Import ZArith List Bool.
From RP Require Import Gen.StatesTables States.Model States.Inst.
Import ListNotations.
Open Scope Z_scope.

Inductive role := RNone | RAdded | RRemoved.
Inductive serr := EValue | ERuntime | EKey | EOther.
Inductive kind := RR | BF.

(* scheduler flavour and the module constants of backfilling.py
   (_HWM, _BF_START_VAL, _BF_STOP_VAL) *)
Record cfg := mkCfg { c_kind : kind; c_hwm : Z; c_start : Z; c_stop : Z }.

Record task := mkTask { t_uid : Z; t_pilot : option Z; t_cores : Z }.
Record info := mkInfo { i_hwm : Z; i_used : Z; i_tasks : list Z; i_done : list Z }.
(* self._pilots[pid]: role, state, pilot dict (Some cores = description.cores), info *)
Record pil := mkPil { p_role : role; p_state : option pstate; p_cores : option Z; p_info : option info }.

(* who called _assign_pilot *)
Inductive src := SWork | SCtl | SSched | SOther.
(* advance(things, state, publish, push) *)
Inductive advk := AScheduling | AForward | AFailed | AOther.
(* one call of _assign_pilot, with the scheduler's view of the pilot at that moment *)
Record asg := mkAsg { a_src : src; a_uid : Z; a_pid : Z; a_prev : option Z; a_role : role;
                      a_state : option pstate; a_used : Z; a_hwm : Z; a_cores : Z }.
Inductive event :=
| EAdv (k : advk) (l : list (Z * option Z))      (* advance: (uid, task['pilot']) *)
| EAsg (a : asg)
| ENtf (l : list (Z * option Z)).                (* pilot field of the notified task dicts *)

Inductive tm := TMine | TForeign | TNone.
Inductive op :=
| OSubmit (ts : list task)
| OAdd (t : tm) (ps : list (Z * pstate * Z))     (* uid, state, description.cores *)
| ORemove (t : tm) (pids : list Z)
| OPStates (ps : list (Z * pstate))
| OTStates (ns : list (Z * tstate * Z))          (* uid, state, pilot override (-1: as bound) *)
| OIgnored.

Record st := mkSt {
  s_pilots : list (Z * pil);          (* self._pilots, insertion order *)
  s_early  : list (Z * list task);    (* self._early *)
  s_pids   : list Z;                  (* self._pids *)
  s_idx    : Z;                       (* self._idx *)
  s_wait   : list task;               (* self._wait_pool *)
  s_tk     : list task                (* every task dict the scheduler has seen (latest first) *)
}.

Definition st0 : st := mkSt [] [] [] 0 [] [].

(* ---- association lists (python dicts, insertion ordered) ---- *)
Fixpoint aget {A} (k : Z) (l : list (Z * A)) : option A :=
  match l with [] => None | (k', v) :: r => if k' =? k then Some v else aget k r end.
Fixpoint aset {A} (k : Z) (v : A) (l : list (Z * A)) : list (Z * A) :=
  match l with
  | [] => [(k, v)]
  | (k', v') :: r => if k' =? k then (k', v) :: r else (k', v') :: aset k v r
  end.
Fixpoint adel {A} (k : Z) (l : list (Z * A)) : list (Z * A) :=
  match l with [] => [] | (k', v) :: r => if k' =? k then r else (k', v) :: adel k r end.

Fixpoint memz (x : Z) (l : list Z) : bool :=
  match l with [] => false | y :: r => (y =? x) || memz x r end.
(* list.remove(x): first occurrence *)
Fixpoint remove1 (x : Z) (l : list Z) : list Z :=
  match l with [] => [] | y :: r => if y =? x then r else y :: remove1 x r end.

Definition role_eqb (a b : role) : bool :=
  match a, b with RNone, RNone | RAdded, RAdded | RRemoved, RRemoved => true | _, _ => false end.

Definition pil0 : pil := mkPil RNone None None None.
Definition getp (pid : Z) (pl : list (Z * pil)) : pil :=
  match aget pid pl with Some p => p | None => pil0 end.
Definition used_of (p : pil) : Z := match p_info p with Some i => i_used i | None => 0 end.
Definition hwm_of (p : pil) : Z := match p_info p with Some i => i_hwm i | None => 0 end.
Definition pval (o : option pstate) : Z := match o with Some s => pvalue s | None => pnone_value end.
Definition in_window (c : cfg) (o : option pstate) : bool :=
  (c_start c <=? pval o) && (pval o <=? c_stop c).

Definition conv (e : perr) : serr :=
  match e with ValueError => EValue | RuntimeError => ERuntime | OtherError => EOther end.

Definition adv (k : advk) (l : list task) : list event :=
  match l with [] => [] | _ => [EAdv k (map (fun t => (t_uid t, t_pilot t)) l)] end.

(* _assign_pilot *)
Definition snap (s : src) (pl : list (Z * pil)) (t : task) (pid : Z) : asg :=
  let p := getp pid pl in
  mkAsg s (t_uid t) pid (t_pilot t) (p_role p) (p_state p) (used_of p) (hwm_of p) (t_cores t).
Definition bind (t : task) (pid : Z) : task := mkTask (t_uid t) (Some pid) (t_cores t).

(* ---- RoundRobin._schedule_tasks (non-empty self._pids) ---- *)
Fixpoint rr_loop (pl : list (Z * pil)) (pids : list Z) (idx : Z) (ts : list task)
  : Z * list task * list event :=
  match ts with
  | [] => (idx, [], [])
  | t :: r =>
      let i := if Z.of_nat (length pids) <=? idx then 0 else idx in
      let pid := nth (Z.to_nat i) pids 0 in
      let '(idx', ok, ev) := rr_loop pl pids (i + 1) r in
      (idx', bind t pid :: ok, EAsg (snap SSched pl t pid) :: ev)
  end.

Definition rr_schedule (s : st) (ts : list task) : st * list event :=
  match s_pids s with
  | [] => (mkSt (s_pilots s) (s_early s) (s_pids s) (s_idx s) (s_wait s ++ ts) (s_tk s), [])
  | _ =>
      let '(idx', ok, ev) := rr_loop (s_pilots s) (s_pids s) (s_idx s) ts in
      (mkSt (s_pilots s) (s_early s) (s_pids s) idx' (s_wait s) (rev ok ++ s_tk s),
       ev ++ adv AForward ok)
  end.

(* ---- Backfilling._schedule_tasks ---- *)
Definition eligible (c : cfg) (pl : list (Z * pil)) (pid : Z) : bool :=
  let p := getp pid pl in
  role_eqb (p_role p) RAdded && in_window c (p_state p) && (used_of p <? hwm_of p).

Definition add_used (pid uid cores : Z) (pl : list (Z * pil)) : list (Z * pil) :=
  let p := getp pid pl in
  match p_info p with
  | Some i => aset pid (mkPil (p_role p) (p_state p) (p_cores p)
                          (Some (mkInfo (i_hwm i) (i_used i + cores) (i_tasks i ++ [uid]) (i_done i)))) pl
  | None => pl
  end.

Fixpoint bf_loop (wait : list task) (elig : list Z) (pl : list (Z * pil))
  : list (Z * pil) * list task * list task * list event :=
  match wait with
  | [] => (pl, [], [], [])
  | t :: w =>
      match find (fun pid => used_of (getp pid pl) <=? hwm_of (getp pid pl)) elig with
      | None =>
          let '(pl', sc, un, ev) := bf_loop w elig pl in (pl', sc, t :: un, ev)
      | Some pid =>
          let pl1 := add_used pid (t_uid t) (t_cores t) pl in
          let elig' := if hwm_of (getp pid pl1) <=? used_of (getp pid pl1)
                       then remove1 pid elig else elig in
          let '(pl', sc, un, ev) := bf_loop w elig' pl1 in
          (pl', bind t pid :: sc, un, EAsg (snap SSched pl1 t pid) :: ev)
      end
  end.

Definition bf_schedule (c : cfg) (s : st) : st * list event :=
  match filter (eligible c (s_pilots s)) (s_pids s) with
  | [] => (s, [])
  | elig =>
      let '(pl', sc, un, ev) := bf_loop (s_wait s) elig (s_pilots s) in
      (mkSt pl' (s_early s) (s_pids s) (s_idx s) un (rev sc ++ s_tk s), ev ++ adv AForward sc)
  end.

(* ---- base._update_pilot_states ---- *)
Definition pstate_opt_eqb (a b : option pstate) : bool :=
  match a, b with
  | None, None => true
  | Some x, Some y => pstate_beq x y
  | _, _ => false
  end.

Fixpoint ups_loop (ps : list (Z * pstate)) (pl : list (Z * pil)) (upd : list Z)
  : list (Z * pil) * list Z * option serr :=
  match ps with
  | [] => (pl, upd, None)
  | (pid, tgt) :: r =>
      let pl1 := match aget pid pl with Some _ => pl | None => aset pid pil0 pl end in
      let p := getp pid pl1 in
      match (match p_state p with
             | None => inr tgt
             | Some cur => match p_progress cur tgt with
                           | inl e => inl e
                           | inr (n, _) => inr n
                           end
             end) with
      | inl ValueError => ups_loop r pl1 upd       (* except ValueError: warning, continue *)
      | inl e => (pl1, upd, Some (conv e))
      | inr n =>
          if pstate_opt_eqb (p_state p) (Some n) then ups_loop r pl1 upd
          else ups_loop r (aset pid (mkPil (p_role p) (Some n) (p_cores p) (p_info p)) pl1) (upd ++ [pid])
      end
  end.

Definition with_pilots (s : st) (pl : list (Z * pil)) : st :=
  mkSt pl (s_early s) (s_pids s) (s_idx s) (s_wait s) (s_tk s).

(* update_pilots of the concrete scheduler *)
Definition update_pilots (c : cfg) (s : st) (upd : list Z) : st * list event :=
  match c_kind c with
  | RR => (s, [])
  | BF => if existsb (fun pid => in_window c (p_state (getp pid (s_pilots s)))) upd
          then bf_schedule c s else (s, [])
  end.

Definition update_pilot_states (c : cfg) (s : st) (ps : list (Z * pstate))
  : st * list event * option serr :=
  match ps with
  | [] => (s, [], None)
  | _ =>
      let '(pl, upd, e) := ups_loop ps (s_pilots s) [] in
      let s1 := with_pilots s pl in
      match e with
      | Some x => (s1, [], Some x)
      | None =>
          match upd with
          | [] => (s1, [], None)
          | _ => let '(s2, ev) := update_pilots c s1 upd in (s2, ev, None)
          end
      end
  end.

(* ---- base.work ---- *)
Definition has_dict (pid : Z) (pl : list (Z * pil)) : bool :=
  match p_cores (getp pid pl) with Some _ => true | None => false end.

Definition eappend (pid : Z) (t : task) (e : list (Z * list task)) : list (Z * list task) :=
  match aget pid e with Some l => aset pid (l ++ [t]) e | None => aset pid [t] e end.

Fixpoint work_loop (pl : list (Z * pil)) (ts : list task) (early : list (Z * list task))
  : list (Z * list task) * list task * list task * list event :=
  match ts with
  | [] => (early, [], [], [])
  | t :: r =>
      match t_pilot t with
      | Some pid =>
          if has_dict pid pl then
            let '(e', bound, tosched, ev) := work_loop pl r early in
            (e', bind t pid :: bound, tosched,
             EAsg (snap SWork pl t pid) :: EAdv AForward [(t_uid t, Some pid)] :: ev)
          else
            work_loop pl r (eappend pid t early)
      | None =>
          let '(e', bound, tosched, ev) := work_loop pl r early in
          (e', bound, t :: tosched, ev)
      end
  end.

Definition sub_work (c : cfg) (s : st) (ts : list task) : st * list event :=
  match c_kind c with
  | RR => match ts with [] => (s, []) | _ => rr_schedule s ts end
  | BF => bf_schedule c (mkSt (s_pilots s) (s_early s) (s_pids s) (s_idx s) (s_wait s ++ ts) (s_tk s))
  end.

Definition work (c : cfg) (s : st) (ts : list task) : st * list event :=
  let '(e', bound, tosched, ev) := work_loop (s_pilots s) ts (s_early s) in
  let s1 := mkSt (s_pilots s) e' (s_pids s) (s_idx s) (s_wait s) (rev bound ++ rev ts ++ s_tk s) in
  let '(s2, ev2) := sub_work c s1 tosched in
  (s2, adv AScheduling ts ++ ev ++ ev2).

(* ---- control_cb: add_pilots ---- *)
Fixpoint add_loop (ps : list (Z * pstate * Z)) (pl : list (Z * pil)) : list (Z * pil) * option serr :=
  match ps with
  | [] => (pl, None)
  | (pid, _, cores) :: r =>
      match aget pid pl with
      | Some p =>
          if role_eqb (p_role p) RAdded then (pl, Some EValue)
          else add_loop r (aset pid (mkPil RAdded (p_state p) (Some cores) (p_info p)) pl)
      | None => add_loop r (aset pid (mkPil RAdded None (Some cores) None) pl)
      end
  end.

(* the early-bound tasks waiting for the pilots just added *)
Fixpoint flush_tasks (pl : list (Z * pil)) (pid : Z) (l : list task) : list task * list event :=
  match l with
  | [] => ([], [])
  | t :: r => let '(b, ev) := flush_tasks pl pid r in
              (bind t pid :: b, EAsg (snap SCtl pl t pid) :: ev)
  end.

Fixpoint flush_loop (pl : list (Z * pil)) (pids : list Z) (early : list (Z * list task))
  : list (Z * list task) * list task * list event :=
  match pids with
  | [] => (early, [], [])
  | pid :: r =>
      match aget pid early with
      | Some (t :: l) =>
          let '(b, ev) := flush_tasks pl pid (t :: l) in
          let '(e', b2, ev2) := flush_loop pl r (adel pid early) in
          (e', b ++ b2, ev ++ adv AForward b ++ ev2)
      | Some [] => flush_loop pl r (adel pid early)
      | None => flush_loop pl r early
      end
  end.

Definition set_info (c : cfg) (pl : list (Z * pil)) (pid : Z) : list (Z * pil) :=
  let p := getp pid pl in
  let cores := match p_cores p with Some n => n | None => 0 end in
  aset pid (mkPil (p_role p) (p_state p) (p_cores p)
              (Some (mkInfo (Z.quot (cores * c_hwm c) 100) 0 [] []))) pl.

Definition sub_add (c : cfg) (s : st) (pids : list Z) : st * list event :=
  match c_kind c with
  | RR =>
      let s1 := mkSt (s_pilots s) (s_early s) (s_pids s ++ pids) (s_idx s) (s_wait s) (s_tk s) in
      match s_wait s with
      | [] => (s1, [])
      | w => rr_schedule (mkSt (s_pilots s) (s_early s) (s_pids s ++ pids) (s_idx s) [] (s_tk s)) w
      end
  | BF =>
      bf_schedule c (mkSt (fold_left (set_info c) pids (s_pilots s)) (s_early s)
                          (s_pids s ++ pids) (s_idx s) (s_wait s) (s_tk s))
  end.

Definition do_add (c : cfg) (s : st) (ps : list (Z * pstate * Z)) : st * list event * option serr :=
  let '(pl, e) := add_loop ps (s_pilots s) in
  let s1 := with_pilots s pl in
  match e with
  | Some x => (s1, [], Some x)
  | None =>
      let '(s2, ev2, e2) := update_pilot_states c s1 (map (fun x => (fst (fst x), snd (fst x))) ps) in
      match e2 with
      | Some x => (s2, ev2, Some x)
      | None =>
          let pids := map (fun x => fst (fst x)) ps in
          let '(e', b, ev3) := flush_loop (s_pilots s2) pids (s_early s2) in
          let s3 := mkSt (s_pilots s2) e' (s_pids s2) (s_idx s2) (s_wait s2) (rev b ++ s_tk s2) in
          let '(s4, ev4) := sub_add c s3 pids in
          (s4, ev2 ++ ev3 ++ ev4, None)
      end
  end.

(* ---- control_cb: remove_pilots ---- *)
Fixpoint rem_loop (pids : list Z) (pl : list (Z * pil)) : list (Z * pil) * option serr :=
  match pids with
  | [] => (pl, None)
  | pid :: r =>
      match aget pid pl with
      | None => (pl, Some EValue)
      | Some p =>
          if role_eqb (p_role p) RAdded
          then rem_loop r (aset pid (mkPil RRemoved (p_state p) (p_cores p) (p_info p)) pl)
          else (pl, Some EValue)
      end
  end.

Fixpoint sub_rem_loop (pids : list Z) (cur : list Z) : list Z * option serr :=
  match pids with
  | [] => (cur, None)
  | pid :: r => if memz pid cur then sub_rem_loop r (remove1 pid cur) else (cur, Some EValue)
  end.

Definition do_remove (s : st) (pids : list Z) : st * list event * option serr :=
  let '(pl, e) := rem_loop pids (s_pilots s) in
  let s1 := with_pilots s pl in
  match e with
  | Some x => (s1, [], Some x)
  | None =>
      let '(cur, e2) := sub_rem_loop pids (s_pids s1) in
      (mkSt (s_pilots s1) (s_early s1) cur (s_idx s1) (s_wait s1) (s_tk s1), [], e2)
  end.

(* ---- task state notifications ---- *)
Definition find_task (uid : Z) (tk : list task) : option task :=
  find (fun t => t_uid t =? uid) tk.

(* the task dict as the notification carries it: (uid, pilot, state, cores) *)
Definition resolve (tk : list task) (n : Z * tstate * Z) : Z * option Z * tstate * Z :=
  let '(uid, st, ov) := n in
  let t := find_task uid tk in
  let cores := match t with Some t => t_cores t | None => 1 end in
  let p := if ov =? -1 then match t with Some t => t_pilot t | None => None end
           else if ov =? 0 then None else Some ov in
  (uid, p, st, cores).

(* Backfilling.update_tasks *)
Fixpoint ut_loop (ns : list (Z * option Z * tstate * Z)) (pl : list (Z * pil)) (resched : bool)
  : list (Z * pil) * bool * option serr :=
  match ns with
  | [] => (pl, resched, None)
  | (uid, op, st, cores) :: r =>
      match op with
      | None => ut_loop r pl resched
      | Some pid =>
          match aget pid pl with
          | None => ut_loop r pl resched
          | Some p =>
              match p_info p with
              | None => ut_loop r pl resched              (* if not info: continue *)
              | Some i =>
                  if memz uid (i_done i) then ut_loop r pl resched
                  else if tvalue st <=? tvalue T_AGENT_EXECUTING then ut_loop r pl resched
                  else if negb (memz uid (i_tasks i)) then ut_loop r pl resched   (* not placed here: continue *)
                  else
                    let i' := mkInfo (i_hwm i) (i_used i - cores) (i_tasks i) (i_done i ++ [uid]) in
                    let pl1 := aset pid (mkPil (p_role p) (p_state p) (p_cores p) (Some i')) pl in
                    if i_used i' <? 0 then (pl1, true, Some ERuntime)
                    else ut_loop r pl1 true
              end
          end
      end
  end.

Definition update_tasks (c : cfg) (s : st) (ns : list (Z * option Z * tstate * Z))
  : st * list event * option serr :=
  match c_kind c with
  | RR => (s, [], None)
  | BF =>
      let '(pl, resched, e) := ut_loop ns (s_pilots s) false in
      let s1 := with_pilots s pl in
      match e with
      | Some x => (s1, [], Some x)
      | None => if resched then let '(s2, ev) := bf_schedule c s1 in (s2, ev, None)
                else (s1, [], None)
      end
  end.

(* ---- one message ---- *)
Definition step (c : cfg) (s : st) (o : op) : st * list event * option serr :=
  match o with
  | OSubmit ts => let '(s', ev) := work c s ts in (s', ev, None)
  | OAdd TForeign _ => (s, [], None)
  | OAdd _ ps => do_add c s ps
  | ORemove TForeign _ => (s, [], None)
  | ORemove _ pids => do_remove s pids
  | OPStates ps => update_pilot_states c s ps
  | OTStates ns =>
      let rs := map (resolve (s_tk s)) ns in
      let '(s', ev, e) := update_tasks c s rs in
      (s', ENtf (map (fun r => (fst (fst (fst r)), snd (fst (fst r)))) rs) :: ev, e)
  | OIgnored => (s, [], None)
  end.

(* what the harness observes after every message *)
Record snapshot := mkSnap {
  n_pilots : list (Z * pil);
  n_early  : list (Z * list Z);
  n_pids   : list Z;
  n_idx    : Z;
  n_wait   : list Z
}.
Definition snap_of (s : st) : snapshot :=
  mkSnap (s_pilots s) (map (fun e => (fst e, map t_uid (snd e))) (s_early s))
         (s_pids s) (s_idx s) (map t_uid (s_wait s)).

Definition result := (list event * option serr * snapshot)%type.

Fixpoint run (c : cfg) (s : st) (ops : list op) : list result :=
  match ops with
  | [] => []
  | o :: r => let '(s', ev, e) := step c s o in (ev, e, snap_of s') :: run c s' r
  end.

(* final state and all events, for the theorems *)
Fixpoint run_st (c : cfg) (s : st) (ops : list op) : st * list event :=
  match ops with
  | [] => (s, [])
  | o :: r => let '(s', ev, _) := step c s o in
              let '(s'', ev') := run_st c s' r in (s'', ev ++ ev')
  end.
