(* C12: boolean property checkers over an observed trace of the tmgr
   scheduler, and the row evaluated by the harness
     [model = implementation; clause ...].
   The checkers only look at the inputs (ops) and at what was observed
   (events, exceptions, snapshots), never at the model. *)
From Coq Require Import ZArith List Bool.
From RP Require Import Common.Eqb Gen.StatesTables States.Model States.Inst TmgrSched.Model.
Import ListNotations.
Open Scope Z_scope.

(* ---------------- equality on observations ---------------- *)
Definition serr_eqb (a b : serr) : bool :=
  match a, b with EValue, EValue | ERuntime, ERuntime | EKey, EKey | EOther, EOther => true | _, _ => false end.
Definition src_eqb (a b : src) : bool :=
  match a, b with SWork, SWork | SCtl, SCtl | SSched, SSched | SOther, SOther => true | _, _ => false end.
Definition advk_eqb (a b : advk) : bool :=
  match a, b with
  | AScheduling, AScheduling | AForward, AForward | AFailed, AFailed | AOther, AOther => true
  | _, _ => false end.
Definition oz_eqb := eqb_option Z.eqb.
Definition zl_eqb := eqb_list Z.eqb.
Definition uidpid_eqb := eqb_list (eqb_prod Z.eqb oz_eqb).

Definition asg_eqb (a b : asg) : bool :=
  src_eqb (a_src a) (a_src b) && (a_uid a =? a_uid b) && (a_pid a =? a_pid b)
  && oz_eqb (a_prev a) (a_prev b) && role_eqb (a_role a) (a_role b)
  && pstate_opt_eqb (a_state a) (a_state b) && (a_used a =? a_used b)
  && (a_hwm a =? a_hwm b) && (a_cores a =? a_cores b).

Definition event_eqb (a b : event) : bool :=
  match a, b with
  | EAdv k l, EAdv k' l' => advk_eqb k k' && uidpid_eqb l l'
  | EAsg x, EAsg y => asg_eqb x y
  | ENtf l, ENtf l' => uidpid_eqb l l'
  | _, _ => false
  end.

Definition info_eqb (a b : info) : bool :=
  (i_hwm a =? i_hwm b) && (i_used a =? i_used b) && zl_eqb (i_tasks a) (i_tasks b)
  && zl_eqb (i_done a) (i_done b).
Definition pil_eqb (a b : pil) : bool :=
  role_eqb (p_role a) (p_role b) && pstate_opt_eqb (p_state a) (p_state b)
  && oz_eqb (p_cores a) (p_cores b) && eqb_option info_eqb (p_info a) (p_info b).
Definition snapshot_eqb (a b : snapshot) : bool :=
  eqb_list (eqb_prod Z.eqb pil_eqb) (n_pilots a) (n_pilots b)
  && eqb_list (eqb_prod Z.eqb zl_eqb) (n_early a) (n_early b)
  && zl_eqb (n_pids a) (n_pids b) && (n_idx a =? n_idx b) && zl_eqb (n_wait a) (n_wait b).
Definition result_eqb (a b : result) : bool :=
  eqb_list event_eqb (fst (fst a)) (fst (fst b))
  && eqb_option serr_eqb (snd (fst a)) (snd (fst b))
  && snapshot_eqb (snd a) (snd b).

(* ---------------- projections of a trace ---------------- *)
Definition events_of (rs : list result) : list event := concat (map (fun r => fst (fst r)) rs).

Fixpoint asgs_of (ev : list event) : list asg :=
  match ev with
  | [] => []
  | EAsg a :: r => a :: asgs_of r
  | _ :: r => asgs_of r
  end.
(* everything handed on to TMGR_STAGING_INPUT_PENDING: (uid, pilot) *)
Fixpoint fwd_of (ev : list event) : list (Z * option Z) :=
  match ev with
  | [] => []
  | EAdv AForward l :: r => l ++ fwd_of r
  | _ :: r => fwd_of r
  end.
Fixpoint bad_adv (ev : list event) : bool :=
  match ev with
  | [] => false
  | EAdv AFailed _ :: _ | EAdv AOther _ :: _ => true
  | _ :: r => bad_adv r
  end.
Fixpoint submitted (ops : list op) : list task :=
  match ops with
  | [] => []
  | OSubmit ts :: r => ts ++ submitted r
  | _ :: r => submitted r
  end.

Fixpoint nodupb (l : list Z) : bool :=
  match l with [] => true | x :: r => negb (memz x r) && nodupb r end.
Fixpoint countz (x : Z) (l : list Z) : Z :=
  match l with [] => 0 | y :: r => (if y =? x then 1 else 0) + countz x r end.

Definition is_ctl (o : op) : bool :=
  match o with OAdd _ _ | ORemove _ _ => true | _ => false end.
(* no add_pilots / remove_pilots command was rejected with an exception *)
Fixpoint ctl_ok (ops : list op) (rs : list result) : bool :=
  match ops, rs with
  | o :: ro, r :: rr =>
      (negb (is_ctl o) || match snd (fst r) with None => true | Some _ => false end) && ctl_ok ro rr
  | _, _ => true
  end.

Definition sched_asg (a : asg) : bool := src_eqb (a_src a) SSched.

(* ---------------- the clauses ---------------- *)
(* every task is handed on at most once, and with a pilot *)
Definition ok_bound_once (ops : list op) (rs : list result) : bool :=
  let f := fwd_of (events_of rs) in
  negb (nodupb (map t_uid (submitted ops)))
  || (nodupb (map fst f) && forallb (fun x => match snd x with Some _ => true | None => false end) f).

(* a task that names a pilot is bound to that pilot; a bound task is never re-bound *)
Definition named_asg (a : asg) : bool :=
  match a_prev a with Some p => a_pid a =? p | None => true end
  && (negb (sched_asg a) || match a_prev a with None => true | Some _ => false end).
Definition ok_named (ops : list op) (rs : list result) : bool :=
  let ev := events_of rs in
  forallb named_asg (asgs_of ev)
  && forallb (fun x =>
       match find (fun t => t_uid t =? fst x) (submitted ops) with
       | Some t => match t_pilot t, snd x with Some p, Some q => p =? q | _, _ => true end
       | None => false
       end) (fwd_of ev).

(* a task that names no pilot is bound to a pilot whose role is ADDED at that moment *)
Definition added_asg (a : asg) : bool :=
  match a_prev a with Some _ => negb (sched_asg a) | None => false end
  || role_eqb (a_role a) RAdded.
(* RoundRobin keeps no role check of its own: after a REJECTED add/remove
   command (which the task manager never sends) its pid list may name a removed
   pilot, so the clause is only claimed for histories of accepted commands.
   Backfilling checks the role at every assignment: claimed unconditionally. *)
Definition ok_only_added (c : cfg) (ops : list op) (rs : list result) : bool :=
  match c_kind c with
  | RR => negb (ctl_ok ops rs) || forallb added_asg (asgs_of (events_of rs))
  | BF => forallb added_asg (asgs_of (events_of rs))
  end.

(* tasks wait: nothing is failed or dropped, nothing is scheduled while no
   pilot is usable, and at the end every submitted task is either handed on
   or still waiting *)
Definition ok_waits (ops : list op) (rs : list result) : bool :=
  let ev := events_of rs in
  negb (bad_adv ev)
  && forallb (fun r => match n_pids (snd r) with
                       | [] => negb (existsb sched_asg (asgs_of (fst (fst r))))
                       | _ => true end) rs
  && (negb (nodupb (map t_uid (submitted ops)))
      || match rev rs with
         | [] => true
         | r :: _ =>
             let pend := n_wait (snd r) ++ concat (map snd (n_early (snd r))) in
             forallb (fun t => countz (t_uid t) (map fst (fwd_of ev)) + countz (t_uid t) pend =? 1)
                     (submitted ops)
         end).

(* sandboxes of a forwarded task name its pilot and itself: (uid, pid, pilot
   of pilot_sandbox, pilot of task_sandbox, task of task_sandbox) *)
Definition ok_sandbox (sb : list (Z * Z * Z * Z * Z)) : bool :=
  forallb (fun x => let '(uid, pid, sp, tp, tu) := x in (sp =? pid) && (tp =? pid) && (tu =? uid)) sb.

(* round robin: within one message the numbers of tasks given to the pilots differ by at most 1 *)
Definition balanced (pids : list Z) (given : list Z) : bool :=
  forallb (fun g => memz g pids) given
  && forallb (fun p => forallb (fun q => countz p given <=? countz q given + 1) pids) pids.
Definition ok_rr_balance (c : cfg) (ops : list op) (rs : list result) : bool :=
  match c_kind c with
  | BF => true
  | RR => negb (ctl_ok ops rs)
          || forallb (fun r => balanced (n_pids (snd r))
                                 (map a_pid (filter sched_asg (asgs_of (fst (fst r)))))) rs
  end.

(* backfilling: only pilots inside the state window and below their high-water mark *)
Definition window_asg (c : cfg) (a : asg) : bool :=
  negb (sched_asg a) || in_window c (a_state a).
Definition hwm_asg (a : asg) : bool :=
  negb (sched_asg a) || (a_used a - a_cores a <? a_hwm a).
Definition ok_bf_window (c : cfg) (ops : list op) (rs : list result) : bool :=
  match c_kind c with
  | RR => true
  | BF => forallb (window_asg c) (asgs_of (events_of rs))
          && (negb (ctl_ok ops rs) || forallb hwm_asg (asgs_of (events_of rs)))
  end.

(* backfilling: when every task the scheduler placed on a pilot (since the
   pilot was last added) has been reported beyond AGENT_EXECUTING, the
   pilot's usage figure is 0.  Checked after every message. *)
Definition pairmem (p u : Z) (l : list (Z * Z)) : bool :=
  existsb (fun x => (fst x =? p) && (snd x =? u)) l.
Fixpoint zipfin (ns : list (Z * tstate * Z)) (l : list (Z * option Z)) : list (Z * Z) :=
  match ns, l with
  | (_, st, _) :: rn, (uid, Some pid) :: rl =>
      if tvalue T_AGENT_EXECUTING <? tvalue st then (pid, uid) :: zipfin rn rl else zipfin rn rl
  | _ :: rn, _ :: rl => zipfin rn rl
  | _, _ => []
  end.
Fixpoint ntf_of (ev : list event) : list (Z * option Z) :=
  match ev with [] => [] | ENtf l :: _ => l | _ :: r => ntf_of r end.

Fixpoint uz_fold (ops : list op) (rs : list result) (asgd fin : list (Z * Z)) : bool :=
  match ops, rs with
  | o :: ro, r :: rr =>
      let ev := fst (fst r) in
      let asgd1 := match o with
                   | OAdd TForeign _ => asgd
                   | OAdd _ ps => filter (fun x => negb (memz (fst x) (map (fun y => fst (fst y)) ps))) asgd
                   | _ => asgd end in
      let asgd2 := asgd1 ++ map (fun a => (a_pid a, a_uid a)) (filter sched_asg (asgs_of ev)) in
      let fin2 := fin ++ match o with OTStates ns => zipfin ns (ntf_of ev) | _ => [] end in
      forallb (fun x =>
        match p_info (snd x) with
        | None => true
        | Some i =>
            negb (forallb (fun y => negb (fst y =? fst x) || pairmem (fst x) (snd y) fin2) asgd2)
            || (i_used i =? 0)
        end) (n_pilots (snd r))
      && uz_fold ro rr asgd2 fin2
  | _, _ => true
  end.
Definition ok_bf_used_zero (c : cfg) (ops : list op) (rs : list result) : bool :=
  match c_kind c with
  | RR => true
  | BF => negb (ctl_ok ops rs) || uz_fold ops rs [] []
  end.

(* backfilling: eligibility w.r.t. the most advanced report.  Every state the
   scheduler was told about a pilot -- in a state notification, or in the pilot
   document of an accepted add_pilots command -- counts; a task placed by the
   algorithm must go to a pilot none of whose reports so far lies beyond
   BF_STOP (a pilot once reported final never becomes eligible again).
   Evaluated on the trace alone. *)
Definition reports_of (o : op) (e : option serr) : list (Z * Z) :=
  match o with
  | OPStates ps => map (fun x => (fst x, pvalue (snd x))) ps
  | OAdd TForeign _ => []
  | OAdd _ ps =>
      match e with
      | None => map (fun x => (fst (fst x), pvalue (snd (fst x)))) ps
      | Some _ => []
      end
  | _ => []
  end.
Definition elig_asg (c : cfg) (acc : list (Z * Z)) (a : asg) : bool :=
  negb (sched_asg a)
  || forallb (fun x => negb (fst x =? a_pid a) || (snd x <=? c_stop c)) acc.
Fixpoint el_fold (c : cfg) (ops : list op) (rs : list result) (acc : list (Z * Z)) : bool :=
  match ops, rs with
  | o :: ro, r :: rr =>
      let acc' := acc ++ reports_of o (snd (fst r)) in
      forallb (elig_asg c acc') (asgs_of (fst (fst r))) && el_fold c ro rr acc'
  | _, _ => true
  end.
Definition ok_bf_eligible (c : cfg) (ops : list op) (rs : list result) : bool :=
  match c_kind c with
  | RR => true
  | BF => el_fold c ops rs []
  end.

(* ---------------- the row ---------------- *)
Definition c12_row (c : cfg) (ops : list op) (obs : list result) (sb : list (Z * Z * Z * Z * Z))
  : list bool :=
  [ eqb_list result_eqb (run c st0 ops) obs;
    ok_bound_once ops obs;
    ok_named ops obs;
    ok_only_added c ops obs;
    ok_waits ops obs;
    ok_sandbox sb;
    ok_rr_balance c ops obs;
    ok_bf_window c ops obs;
    ok_bf_used_zero c ops obs;
    ok_bf_eligible c ops obs;
    true; true ].   (* lin_terminates, lin_exactly_once: interleaving cases only (TmgrSched.Lin) *)
