(* C12: linearizability of the scheduler's entry points.  Two messages handled
   by two threads must leave the scheduler as if they had been handled one
   after the other, in one of the two orders: the model's step function over
   message sequences is the specification.  Definitions + the row evaluated
   by the harness for interleaving cases. *)
From Coq Require Import ZArith List Bool.
From RP Require Import Common.Eqb Gen.StatesTables States.Model States.Inst TmgrSched.Model TmgrSched.Oracle.
Import ListNotations.
Open Scope Z_scope.

(* what is observed after the two calls have returned *)
Record outcome := mkOut {
  o_status : Z;                       (* 0: both returned; 1: deadlock; 2: stuck / time-out *)
  o_fwd : list (Z * option Z);        (* handed on by the two calls *)
  o_bad : bool;                       (* some task advanced to FAILED / unexpectedly *)
  o_ea : option serr; o_eb : option serr;
  o_snap : snapshot;
  o_all : list Z                      (* uids handed on since the scheduler was created *)
}.

(* a task state notification carries the task dicts as they were when it was
   published: both messages of a pair are resolved in the state s0 before the pair *)
Definition step_at (c : cfg) (s0 s : st) (o : op) : st * list event * option serr :=
  match o with
  | OTStates ns =>
      let rs := map (resolve (s_tk s0)) ns in
      let '(s', ev, e) := update_tasks c s rs in
      (s', ENtf (map (fun r => (fst (fst (fst r)), snd (fst (fst r)))) rs) :: ev, e)
  | _ => step c s o
  end.

Definition seq2 (c : cfg) (s0 : st) (x y : op)
  : list (Z * option Z) * bool * option serr * option serr * st :=
  let '(s1, ev1, e1) := step_at c s0 s0 x in
  let '(s2, ev2, e2) := step_at c s0 s1 y in
  (fwd_of (ev1 ++ ev2), bad_adv (ev1 ++ ev2), e1, e2, s2).

Definition pair_eqb := eqb_prod Z.eqb oz_eqb.
Fixpoint countp (x : Z * option Z) (l : list (Z * option Z)) : Z :=
  match l with [] => 0 | y :: r => (if pair_eqb y x then 1 else 0) + countp x r end.
Definition perm_eqb (a b : list (Z * option Z)) : bool :=
  (Z.of_nat (length a) =? Z.of_nat (length b))
  && forallb (fun x => countp x a =? countp x b) a.

Definition matches (o : outcome) (m : list (Z * option Z) * bool * option serr * option serr * st)
  (swap : bool) : bool :=
  let '(f, bad, e1, e2, s) := m in
  perm_eqb (o_fwd o) f && Bool.eqb (o_bad o) bad
  && eqb_option serr_eqb (o_ea o) (if swap then e2 else e1)
  && eqb_option serr_eqb (o_eb o) (if swap then e1 else e2)
  && snapshot_eqb (o_snap o) (snap_of s).

(* the outcome is that of A;B or that of B;A *)
Definition lin_ok (c : cfg) (prefix : list op) (a b : op) (o : outcome) : bool :=
  let s0 := fst (run_st c st0 prefix) in
  (o_status o =? 0) && (matches o (seq2 c s0 a b) false || matches o (seq2 c s0 b a) true).

(* clauses on the implementation's outcome alone *)
Definition lin_terminates (outs : list outcome) : bool := forallb (fun o => o_status o =? 0) outs.
Definition held_back (n : snapshot) : list Z := n_wait n ++ concat (map snd (n_early n)).
(* every submitted task is handed on exactly once or waiting, never both, never neither *)
Definition exactly_once (sub : list task) (o : outcome) : bool :=
  nodupb (o_all o)
  && forallb (fun t => countz (t_uid t) (o_all o) + countz (t_uid t) (held_back (o_snap o)) =? 1) sub.
Definition lin_exactly_once (prefix : list op) (a b : op) (outs : list outcome) : bool :=
  let sub := submitted (prefix ++ [a; b]) in
  negb (nodupb (map t_uid sub))
  || forallb (fun o => negb (o_status o =? 0) || (negb (o_bad o) && exactly_once sub o)) outs.

Definition c12_lin_row (c : cfg) (prefix : list op) (a b : op) (outs : list outcome) : list bool :=
  [ forallb (lin_ok c prefix a b) outs;
    true; true; true; true; true; true; true; true; true;
    lin_terminates outs;
    lin_exactly_once prefix a b outs ].
