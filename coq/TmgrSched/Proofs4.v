(* C12: backfilling usage accounting.  Over any history with unique task uids
   and non-negative core counts, info['used'] of every pilot is exactly the
   sum of the cores of the tasks placed on it (since it was last added) that
   have not been credited yet; hence update_tasks never raises, and used is 0
   as soon as every placed task has been reported finished. *)
From Coq Require Import ZArith List Bool Lia.
From RP Require Import Gen.StatesTables States.Model States.Inst
  TmgrSched.Model TmgrSched.Oracle TmgrSched.Proofs TmgrSched.Proofs2 TmgrSched.Proofs3.
Import ListNotations.
Open Scope Z_scope.

(* cores of the task dict with this uid, as a notification carries it *)
Definition cof (tk : list task) (u : Z) : Z :=
  match find_task u tk with Some t => t_cores t | None => 1 end.
Fixpoint sumz (l : list Z) : Z := match l with [] => 0 | x :: r => x + sumz r end.
Definition term (tk : list task) (done : list Z) (u : Z) : Z :=
  if memz u done then 0 else cof tk u.
(* cores placed on the pilot and not yet credited back *)
Definition outstanding (tk : list task) (i : info) : Z :=
  sumz (map (term tk (i_done i)) (i_tasks i)).
Definition info_of (p : Z) (pl : list (Z * pil)) : option info := p_info (getp p pl).

Definition HeldOK (tk l : list task) : Prop :=
  forall t, In t l -> In (t_uid t) (uids tk) /\ cof tk (t_uid t) = t_cores t.
Definition EarlyOK (tk : list task) (e : list (Z * list task)) : Prop :=
  forall k l, In (k, l) e -> HeldOK tk l.
Definition TkOK (tk : list task) : Prop := forall t, In t tk -> 0 <= t_cores t.
Definition InfoOK (tk : list task) (i : info) : Prop :=
  NoDup (i_tasks i) /\ (forall u, In u (i_tasks i) -> In u (uids tk)) /\
  (forall u, In u (i_done i) -> In u (i_tasks i)) /\ i_used i = outstanding tk i.
Definition PilOK (tk : list task) (pl : list (Z * pil)) : Prop :=
  forall p i, info_of p pl = Some i -> InfoOK tk i.
Definition Disj (wait : list task) (pl : list (Z * pil)) : Prop :=
  forall p i u, info_of p pl = Some i -> In u (i_tasks i) -> ~ In u (uids wait).
Definition Good (s : st) : Prop :=
  NoDup (uids (s_wait s)) /\ HeldOK (s_tk s) (s_wait s) /\ EarlyOK (s_tk s) (s_early s) /\
  TkOK (s_tk s) /\ PilOK (s_tk s) (s_pilots s) /\ Disj (s_wait s) (s_pilots s).

(* ---------------- cof ---------------- *)
Lemma find_task_In u tk t : find_task u tk = Some t -> In t tk /\ t_uid t = u.
Proof.
  unfold find_task. intro H. apply find_some in H. destruct H as [H1 H2].
  apply Z.eqb_eq in H2. tauto.
Qed.

Lemma find_task_none u tk : find_task u tk = None -> ~ In u (uids tk).
Proof.
  unfold find_task. intros H Hin. unfold uids in Hin. apply in_map_iff in Hin.
  destruct Hin as [t [Ht Hi]]. pose proof (find_none _ _ H t Hi) as Hn. cbv beta in Hn.
  rewrite Ht, Z.eqb_refl in Hn. discriminate.
Qed.

Lemma cof_nonneg tk u : TkOK tk -> 0 <= cof tk u.
Proof.
  intro H. unfold cof. destruct (find_task u tk) as [t|] eqn:E; [|lia].
  apply find_task_In in E. apply H. tauto.
Qed.

Lemma cof_app_same l tk u :
  (forall t, In t l -> t_uid t = u -> t_cores t = cof tk u) -> cof (l ++ tk) u = cof tk u.
Proof.
  induction l as [|t l IH]; intro H; [reflexivity|].
  unfold cof, find_task. cbn [app find]. destruct (Z.eqb_spec (t_uid t) u) as [E|E].
  - apply H; [left; reflexivity|exact E].
  - apply IH. intros t' Ht'. apply H. right. exact Ht'.
Qed.

(* tk' extends tk: known uids stay known and keep their cores *)
Definition Ext (tk tk' : list task) : Prop :=
  (forall u, In u (uids tk) -> In u (uids tk')) /\
  (forall u, In u (uids tk) -> cof tk' u = cof tk u).

Lemma Ext_refl tk : Ext tk tk.
Proof. split; intros; tauto. Qed.
Lemma Ext_trans a b c : Ext a b -> Ext b c -> Ext a c.
Proof.
  intros [A1 A2] [B1 B2]. split; intros u Hu; [auto|]. rewrite (B2 u (A1 u Hu)). auto.
Qed.

Lemma uids_app a b : uids (a ++ b) = uids a ++ uids b.
Proof. apply map_app. Qed.

Lemma Ext_held tk l l' :
  HeldOK tk l -> (forall t, In t l' -> In t l) -> Ext tk (l' ++ tk) /\ (TkOK tk -> TkOK (l' ++ tk)).
Proof.
  intros H Hs. split; [split|].
  - intros u Hu. rewrite uids_app. apply in_or_app. right. exact Hu.
  - intros u Hu. apply cof_app_same. intros t Ht <-. symmetry. exact (proj2 (H t (Hs t Ht))).
  - intros Hk t Ht. apply in_app_or in Ht. destruct Ht as [Ht|Ht]; [|exact (Hk t Ht)].
    rewrite <- (proj2 (H t (Hs t Ht))). apply cof_nonneg. exact Hk.
Qed.

Lemma HeldOK_Ext tk tk' l : Ext tk tk' -> HeldOK tk l -> HeldOK tk' l.
Proof.
  intros [E1 E2] H t Ht. destruct (H t Ht) as [H1 H2]. split; [exact (E1 _ H1)|].
  rewrite (E2 _ H1). exact H2.
Qed.

Lemma EarlyOK_Ext tk tk' e : Ext tk tk' -> EarlyOK tk e -> EarlyOK tk' e.
Proof. intros E H k l Hin. exact (HeldOK_Ext _ _ _ E (H k l Hin)). Qed.

Lemma outstanding_ext tk tk' i :
  (forall u, In u (i_tasks i) -> cof tk' u = cof tk u) -> outstanding tk' i = outstanding tk i.
Proof.
  unfold outstanding. induction (i_tasks i) as [|u l IH]; intro H; [reflexivity|].
  cbn [map sumz]. rewrite IH by (intros; apply H; right; assumption).
  unfold term. rewrite (H u (or_introl eq_refl)). reflexivity.
Qed.

Lemma InfoOK_Ext tk tk' i : Ext tk tk' -> InfoOK tk i -> InfoOK tk' i.
Proof.
  intros [E1 E2] [H1 [H2 [H3 H4]]]. split; [exact H1|split; [|split; [exact H3|]]].
  - intros u Hu. exact (E1 _ (H2 u Hu)).
  - rewrite H4. symmetry. apply outstanding_ext. intros u Hu. exact (E2 _ (H2 u Hu)).
Qed.

Lemma PilOK_Ext tk tk' pl : Ext tk tk' -> PilOK tk pl -> PilOK tk' pl.
Proof. intros E H p i Hi. exact (InfoOK_Ext _ _ _ E (H p i Hi)). Qed.

(* a batch of new tasks with fresh, distinct uids *)
Definition Fresh (tk ts : list task) : Prop :=
  NoDup (uids ts) /\ forall t, In t ts -> ~ In (t_uid t) (uids tk) /\ 0 <= t_cores t.

Lemma cof_fresh_self ts tk t :
  NoDup (uids ts) -> In t ts -> cof (ts ++ tk) (t_uid t) = t_cores t.
Proof.
  induction ts as [|t0 ts IH]; intros Hn Hin; [destruct Hin|].
  cbn [uids map] in Hn. inversion Hn as [|? ? Hx Hn']; subst.
  unfold cof, find_task. cbn [app find]. destruct Hin as [->|Hin].
  - rewrite Z.eqb_refl. reflexivity.
  - destruct (Z.eqb_spec (t_uid t0) (t_uid t)) as [E|E].
    + exfalso. apply Hx. rewrite E. apply in_map. exact Hin.
    + exact (IH Hn' Hin).
Qed.

Lemma NoDup_rev_uids ts : NoDup (uids ts) -> NoDup (uids (rev ts)).
Proof.
  unfold uids. rewrite map_rev. intro H. apply NoDup_rev. exact H.
Qed.

Lemma Ext_fresh tk ts :
  Fresh tk ts ->
  Ext tk (rev ts ++ tk) /\ HeldOK (rev ts ++ tk) ts /\ (TkOK tk -> TkOK (rev ts ++ tk)).
Proof.
  intros [Hn Hf]. split; [split|split].
  - intros u Hu. rewrite uids_app. apply in_or_app. right. exact Hu.
  - intros u Hu. apply cof_app_same. intros t Ht <-. apply in_rev in Ht.
    exfalso. exact (proj1 (Hf t Ht) Hu).
  - intros t Ht. split.
    + rewrite uids_app. apply in_or_app. left. apply in_map. apply in_rev. rewrite rev_involutive. exact Ht.
    + apply cof_fresh_self; [apply NoDup_rev_uids; exact Hn|]. apply in_rev. rewrite rev_involutive. exact Ht.
  - intros Hk t Ht. apply in_app_or in Ht. destruct Ht as [Ht|Ht]; [|exact (Hk t Ht)].
    apply in_rev in Ht. exact (proj2 (Hf t Ht)).
Qed.

(* ---------------- sums ---------------- *)
Lemma memz_app x a b : memz x (a ++ b) = memz x a || memz x b.
Proof. induction a as [|y a IH]; simpl; [reflexivity|]. rewrite IH. apply orb_assoc. Qed.

Lemma sum_notin tk done u l :
  ~ In u l -> sumz (map (term tk (done ++ [u])) l) = sumz (map (term tk done) l).
Proof.
  induction l as [|x l IH]; intro H; [reflexivity|]. cbn [map sumz].
  rewrite IH by (intro; apply H; right; assumption). f_equal.
  unfold term. rewrite memz_app. cbn [memz]. destruct (Z.eqb_spec u x) as [E|E].
  - exfalso. apply H. left. symmetry. exact E.
  - rewrite orb_false_r. reflexivity.
Qed.

(* crediting a placed, not yet credited task lowers the outstanding sum by its cores *)
Lemma sum_finish tk done u l :
  NoDup l -> In u l -> memz u done = false ->
  sumz (map (term tk (done ++ [u])) l) = sumz (map (term tk done) l) - cof tk u.
Proof.
  induction l as [|x l IH]; intros Hn Hin Hd; [destruct Hin|].
  inversion Hn as [|? ? Hx Hn']; subst. cbn [map sumz]. destruct Hin as [->|Hin].
  - rewrite (sum_notin _ _ _ _ Hx). unfold term at 1 3. rewrite memz_app, Hd. cbn [memz].
    rewrite Z.eqb_refl. cbn [orb]. lia.
  - rewrite (IH Hn' Hin Hd). unfold term at 1 3. rewrite memz_app. cbn [memz].
    destruct (Z.eqb_spec u x) as [E|E]; [subst; tauto|]. rewrite orb_false_r. lia.
Qed.

Lemma sum_ge_term tk done u l :
  TkOK tk -> In u l -> memz u done = false -> cof tk u <= sumz (map (term tk done) l).
Proof.
  intros Hk. assert (Hnn : forall l', 0 <= sumz (map (term tk done) l')).
  { induction l' as [|x l' IH]; cbn [map sumz]; [lia|]. unfold term at 1.
    destruct (memz x done); [lia|]. pose proof (cof_nonneg tk x Hk). lia. }
  induction l as [|x l IH]; intros Hin Hd; [destruct Hin|]. cbn [map sumz].
  destruct Hin as [->|Hin].
  - unfold term at 1. rewrite Hd. specialize (Hnn l). lia.
  - specialize (IH Hin Hd). unfold term at 1. destruct (memz x done); [lia|].
    pose proof (cof_nonneg tk x Hk). lia.
Qed.

Lemma sum_place tk done u l :
  memz u done = false -> sumz (map (term tk done) (l ++ [u])) = sumz (map (term tk done) l) + cof tk u.
Proof.
  intro Hd. induction l as [|x l IH]; cbn [app map sumz].
  - unfold term. rewrite Hd. lia.
  - rewrite IH. lia.
Qed.

Lemma sum_all_done tk done l :
  (forall u, In u l -> memz u done = true) -> sumz (map (term tk done) l) = 0.
Proof.
  induction l as [|x l IH]; intro H; [reflexivity|]. cbn [map sumz].
  rewrite IH by (intros; apply H; right; assumption).
  unfold term. rewrite (H x (or_introl eq_refl)). reflexivity.
Qed.

(* ---------------- dict updates and the infos ---------------- *)
Definition IP (pl pl' : list (Z * pil)) : Prop := forall q, info_of q pl' = info_of q pl.
Lemma IP_refl pl : IP pl pl.
Proof. intro q. reflexivity. Qed.
Lemma IP_trans a b c : IP a b -> IP b c -> IP a c.
Proof. intros H1 H2 q. rewrite H2. apply H1. Qed.

Lemma IP_aset_getp pl pid p' : p_info p' = p_info (getp pid pl) -> IP pl (aset pid p' pl).
Proof.
  intros Hs q. unfold info_of. rewrite getp_aset. destruct (Z.eqb_spec pid q); [subst; exact Hs|reflexivity].
Qed.

Lemma getp_aget pid pl p : aget pid pl = Some p -> getp pid pl = p.
Proof. intro H. unfold getp. rewrite H. reflexivity. Qed.
Lemma getp_aget_none pid pl : aget pid pl = None -> getp pid pl = pil0.
Proof. intro H. unfold getp. rewrite H. reflexivity. Qed.

Lemma PilOK_IP tk pl pl' : IP pl pl' -> PilOK tk pl -> PilOK tk pl'.
Proof. intros H P p i Hi. rewrite H in Hi. exact (P p i Hi). Qed.
Lemma Disj_IP w pl pl' : IP pl pl' -> Disj w pl -> Disj w pl'.
Proof. intros H D p i u Hi. rewrite H in Hi. exact (D p i u Hi). Qed.

Lemma add_loop_IP : forall ps pl pl' e, add_loop ps pl = (pl', e) -> IP pl pl'.
Proof.
  induction ps as [|[[pid st] cores] r IH]; intros pl pl' e H; simpl in H.
  - injection H as <- <-. apply IP_refl.
  - destruct (aget pid pl) as [p|] eqn:Hg.
    + destruct (role_eqb (p_role p) RAdded).
      * injection H as <- <-. apply IP_refl.
      * refine (IP_trans _ _ _ _ (IH _ _ _ H)). apply IP_aset_getp.
        rewrite (getp_aget _ _ _ Hg). reflexivity.
    + refine (IP_trans _ _ _ _ (IH _ _ _ H)). apply IP_aset_getp.
      rewrite (getp_aget_none _ _ Hg). reflexivity.
Qed.

Lemma rem_loop_IP : forall pids pl pl' e, rem_loop pids pl = (pl', e) -> IP pl pl'.
Proof.
  induction pids as [|pid r IH]; intros pl pl' e H; simpl in H.
  - injection H as <- <-. apply IP_refl.
  - destruct (aget pid pl) as [p|] eqn:Hg.
    + destruct (role_eqb (p_role p) RAdded).
      * refine (IP_trans _ _ _ _ (IH _ _ _ H)). apply IP_aset_getp.
        rewrite (getp_aget _ _ _ Hg). reflexivity.
      * injection H as <- <-. apply IP_refl.
    + injection H as <- <-. apply IP_refl.
Qed.

Lemma ups_loop_IP : forall ps pl upd pl' upd' e, ups_loop ps pl upd = (pl', upd', e) -> IP pl pl'.
Proof.
  induction ps as [|[pid tgt] r IH]; intros pl upd pl' upd' e H; cbn [ups_loop] in H.
  - injection H as <- <- <-. apply IP_refl.
  - set (pl1 := match aget pid pl with Some _ => pl | None => aset pid pil0 pl end) in H.
    assert (H1 : IP pl pl1).
    { subst pl1. destruct (aget pid pl) eqn:Hg; [apply IP_refl|].
      apply IP_aset_getp. rewrite (getp_aget_none _ _ Hg). reflexivity. }
    clearbody pl1.
    assert (G : forall n,
              (if pstate_opt_eqb (p_state (getp pid pl1)) (Some n) then ups_loop r pl1 upd
               else ups_loop r (aset pid (mkPil (p_role (getp pid pl1)) (Some n) (p_cores (getp pid pl1))
                                            (p_info (getp pid pl1))) pl1) (upd ++ [pid])) = (pl', upd', e) ->
              IP pl pl').
    { intros n HH. destruct (pstate_opt_eqb (p_state (getp pid pl1)) (Some n)).
      - exact (IP_trans _ _ _ H1 (IH _ _ _ _ _ HH)).
      - refine (IP_trans _ _ _ H1 (IP_trans _ _ _ _ (IH _ _ _ _ _ HH))).
        apply IP_aset_getp. reflexivity. }
    destruct (p_state (getp pid pl1)) as [cur|].
    + destruct (p_progress cur tgt) as [err|[n l]].
      * destruct err; try (injection H as <- <- <-; exact H1).
        exact (IP_trans _ _ _ H1 (IH _ _ _ _ _ H)).
      * exact (G n H).
    + exact (G tgt H).
Qed.

Lemma info_of_set_info c pl pid q :
  info_of q (set_info c pl pid) =
  if pid =? q
  then Some (mkInfo (Z.quot (match p_cores (getp pid pl) with Some n => n | None => 0 end * c_hwm c) 100) 0 [] [])
  else info_of q pl.
Proof. unfold set_info, info_of. rewrite getp_aset. destruct (pid =? q); reflexivity. Qed.

Lemma InfoOK_empty tk h : InfoOK tk (mkInfo h 0 [] []).
Proof. split; [constructor|split; [intros ? []|split; [intros ? []|reflexivity]]]. Qed.

Lemma set_info_fold_acct c tk w : forall pids pl,
  PilOK tk pl -> Disj w pl ->
  PilOK tk (fold_left (set_info c) pids pl) /\ Disj w (fold_left (set_info c) pids pl).
Proof.
  induction pids as [|p r IH]; intros pl P D; [split; assumption|]. cbn [fold_left]. apply IH.
  - intros q i Hi. rewrite info_of_set_info in Hi. destruct (p =? q); [|exact (P q i Hi)].
    injection Hi as <-. apply InfoOK_empty.
  - intros q i u Hi Hu. rewrite info_of_set_info in Hi. destruct (p =? q); [|exact (D q i u Hi Hu)].
    injection Hi as <-. destruct Hu.
Qed.

Lemma info_of_add_used pid uid cores pl q :
  info_of q (add_used pid uid cores pl) =
  if pid =? q
  then match info_of pid pl with
       | Some i => Some (mkInfo (i_hwm i) (i_used i + cores) (i_tasks i ++ [uid]) (i_done i))
       | None => None end
  else info_of q pl.
Proof.
  unfold add_used, info_of. destruct (p_info (getp pid pl)) as [i|] eqn:E.
  - rewrite getp_aset. destruct (pid =? q); reflexivity.
  - destruct (Z.eqb_spec pid q); [subst; exact E|reflexivity].
Qed.

Lemma memz_false x l : ~ In x l -> memz x l = false.
Proof. intro H. destruct (memz x l) eqn:E; [apply memz_In in E; tauto|reflexivity]. Qed.

Lemma NoDup_app_iff_local (l : list Z) u : NoDup l -> ~ In u l -> NoDup (l ++ [u]).
Proof.
  intros Hn Hu. induction Hn as [|x l Hx Hn IH]; cbn [app]; [constructor; [tauto|constructor]|].
  constructor.
  - intro Hin. apply in_app_or in Hin. destruct Hin as [Hin|[Hin|[]]]; [tauto|]. apply Hu. left. symmetry. exact Hin.
  - apply IH. intro H. apply Hu. right. exact H.
Qed.

(* ---------------- Backfilling._schedule_tasks ---------------- *)
Definition FreshOut (x : Z) (pl : list (Z * pil)) : Prop :=
  forall p i, info_of p pl = Some i -> ~ In x (i_tasks i).

Lemma bf_loop_acct tk : TkOK tk -> forall wait elig pl pl' sc un ev,
  NoDup (uids wait) -> HeldOK tk wait -> PilOK tk pl -> Disj wait pl ->
  bf_loop wait elig pl = (pl', sc, un, ev) ->
  PilOK tk pl' /\ Disj un pl' /\ NoDup (uids un) /\ (forall t, In t un -> In t wait) /\
  HeldOK tk sc /\
  (forall x, ~ In x (uids wait) -> FreshOut x pl -> FreshOut x pl').
Proof.
  intro Hk. induction wait as [|t w IH]; intros elig pl pl' sc un ev Hn Hh P D H; simpl in H.
  - injection H as <- <- <- <-.
    split; [exact P|split; [exact D|split; [constructor|split; [tauto|split; [intros ? []|tauto]]]]].
  - cbn [uids map] in Hn. inversion Hn as [|? ? Hx Hn']; subst.
    assert (Hhw : HeldOK tk w) by (intros t' Ht'; apply Hh; right; exact Ht').
    destruct (Hh t (or_introl eq_refl)) as [Hkn Hco].
    destruct (find _ elig) as [pid|].
    + match type of H with context [bf_loop w ?e ?p] => destruct (bf_loop w e p) as [[[pl2 sc2] un2] ev2] eqn:E end.
      injection H as <- <- <- <-.
      set (pl1 := add_used pid (t_uid t) (t_cores t) pl) in *.
      assert (P1 : PilOK tk pl1).
      { intros q i Hi. subst pl1. rewrite info_of_add_used in Hi. destruct (Z.eqb_spec pid q); [|exact (P q i Hi)].
        subst q. destruct (info_of pid pl) as [i0|] eqn:E0; [|discriminate]. injection Hi as <-.
        destruct (P pid i0 E0) as [A1 [A2 [A3 A4]]].
        assert (Hnt : ~ In (t_uid t) (i_tasks i0)).
        { intro Hin. apply (D pid i0 _ E0 Hin). left. reflexivity. }
        split; [|split; [|split]]; cbn [i_tasks i_done i_used].
        - apply NoDup_app_iff_local; assumption.
        - intros u Hu. apply in_app_or in Hu. destruct Hu as [Hu|[<-|[]]]; [exact (A2 u Hu)|exact Hkn].
        - intros u Hu. apply in_or_app. left. exact (A3 u Hu).
        - unfold outstanding. cbn [i_tasks i_done]. rewrite sum_place.
          + rewrite A4, Hco. reflexivity.
          + apply memz_false. intro Hd. exact (Hnt (A3 _ Hd)). }
      assert (D1 : Disj w pl1).
      { intros q i u Hi Hu. subst pl1. rewrite info_of_add_used in Hi. destruct (Z.eqb_spec pid q).
        - subst q. destruct (info_of pid pl) as [i0|] eqn:E0; [|discriminate]. injection Hi as <-.
          cbn [i_tasks] in Hu. apply in_app_or in Hu. destruct Hu as [Hu|[<-|[]]]; [|exact Hx].
          intro Hw. apply (D pid i0 u E0 Hu). right. exact Hw.
        - intro Hw. apply (D q i u Hi Hu). right. exact Hw. }
      destruct (IH _ _ _ _ _ _ Hn' Hhw P1 D1 E) as [B1 [B2 [B3 [B4 [B5 B6]]]]].
      split; [exact B1|split; [exact B2|split; [exact B3|split; [|split]]]].
      * intros t' Ht'. right. exact (B4 t' Ht').
      * intros t' [<-|Ht']; [split; [exact Hkn|exact Hco]|exact (B5 t' Ht')].
      * intros x Hxn F. apply B6; [intro Hw; apply Hxn; right; exact Hw|].
        intros q i Hi. subst pl1. rewrite info_of_add_used in Hi. destruct (Z.eqb_spec pid q); [|exact (F q i Hi)].
        subst q. destruct (info_of pid pl) as [i0|] eqn:E0; [|discriminate]. injection Hi as <-.
        cbn [i_tasks]. intro Hu. apply in_app_or in Hu. destruct Hu as [Hu|[Hu|[]]]; [exact (F pid i0 E0 Hu)|].
        apply Hxn. left. exact Hu.
    + destruct (bf_loop w elig pl) as [[[pl2 sc2] un2] ev2] eqn:E.
      injection H as <- <- <- <-.
      assert (Dw : Disj w pl) by (intros q i u Hi Hu Hw; apply (D q i u Hi Hu); right; exact Hw).
      destruct (IH _ _ _ _ _ _ Hn' Hhw P Dw E) as [B1 [B2 [B3 [B4 [B5 B6]]]]].
      assert (Ft : FreshOut (t_uid t) pl2).
      { apply B6; [exact Hx|]. intros q i Hi Hu. apply (D q i _ Hi Hu). left. reflexivity. }
      split; [exact B1|split; [|split; [|split; [|split; [exact B5|]]]]].
      * intros q i u Hi Hu [Hw|Hw]; [subst u; exact (Ft q i Hi Hu)|exact (B2 q i u Hi Hu Hw)].
      * cbn [uids map]. constructor; [|exact B3]. intro Hin. apply Hx.
        unfold uids in Hin. apply in_map_iff in Hin. destruct Hin as [t' [Ht1 Ht2]].
        rewrite <- Ht1. apply in_map. exact (B4 t' Ht2).
      * intros t' [<-|Ht']; [left; reflexivity|right; exact (B4 t' Ht')].
      * intros x Hxn F. apply B6; [intro Hw; apply Hxn; right; exact Hw|exact F].
Qed.

(* ---------------- Backfilling.update_tasks ---------------- *)
(* infos keep their task lists; credited tasks stay credited *)
Definition RI (pl pl' : list (Z * pil)) : Prop :=
  forall p, match info_of p pl, info_of p pl' with
            | Some i, Some i' => i_tasks i' = i_tasks i /\ (forall u, In u (i_done i) -> In u (i_done i'))
            | None, None => True
            | _, _ => False
            end.
Lemma RI_refl pl : RI pl pl.
Proof. intro p. destruct (info_of p pl); [split; [reflexivity|tauto]|exact I]. Qed.
Lemma RI_trans a b c : RI a b -> RI b c -> RI a c.
Proof.
  intros H1 H2 p. specialize (H1 p). specialize (H2 p).
  destruct (info_of p a), (info_of p b), (info_of p c); try tauto.
  destruct H1 as [A1 A2]. destruct H2 as [B1 B2]. split; [congruence|auto].
Qed.

(* every finished-notification of the batch for a task placed on its pilot is credited *)
Definition Cred (ns : list (Z * option Z * tstate * Z)) (pl' : list (Z * pil)) : Prop :=
  forall uid p st cores i', In (uid, Some p, st, cores) ns ->
    tvalue T_AGENT_EXECUTING < tvalue st -> info_of p pl' = Some i' ->
    In uid (i_tasks i') -> In uid (i_done i').

Lemma ut_loop_acct tk : TkOK tk -> forall ns pl b pl' b' e,
  (forall uid op st cores, In (uid, op, st, cores) ns -> cores = cof tk uid) ->
  PilOK tk pl -> ut_loop ns pl b = (pl', b', e) ->
  PilOK tk pl' /\ e = None /\ RI pl pl' /\ Cred ns pl'.
Proof.
  intro Hk. induction ns as [|[[[uid op] st] cores] r IH]; intros pl b pl' b' e Hc P H; cbn [ut_loop] in H.
  - injection H as <- <- <-. split; [exact P|split; [reflexivity|split; [apply RI_refl|]]].
    intros ? ? ? ? ? [].
  - assert (Hcr : forall uid op st cores, In (uid, op, st, cores) r -> cores = cof tk uid)
      by (intros; eapply Hc; right; eassumption).
    (* the `continue` branches *)
    assert (Cont : ut_loop r pl b = (pl', b', e) ->
              (forall p i', op = Some p -> tvalue T_AGENT_EXECUTING < tvalue st ->
                  RI pl pl' -> info_of p pl' = Some i' -> In uid (i_tasks i') -> In uid (i_done i')) ->
              PilOK tk pl' /\ e = None /\ RI pl pl' /\ Cred ((uid, op, st, cores) :: r) pl').
    { intros HH Hhead. destruct (IH _ _ _ _ _ Hcr P HH) as [A1 [A2 [A3 A4]]].
      split; [exact A1|split; [exact A2|split; [exact A3|]]].
      intros u0 p0 st0 c0 i' [Hin|Hin] Hs Hi Ht; [|exact (A4 _ _ _ _ _ Hin Hs Hi Ht)].
      injection Hin as -> -> -> ->. exact (Hhead p0 i' eq_refl Hs A3 Hi Ht). }
    destruct op as [pid|]; [|apply Cont; [exact H|discriminate]].
    destruct (aget pid pl) as [p|] eqn:Hg.
    2:{ apply Cont; [exact H|]. intros p0 i' Hp _ R Hi _. injection Hp as <-.
        specialize (R pid). unfold info_of at 1 in R. rewrite (getp_aget_none _ _ Hg) in R.
        cbn [pil0 p_info] in R. rewrite Hi in R. destruct R. }
    assert (Hio : info_of pid pl = p_info p) by (unfold info_of; rewrite (getp_aget _ _ _ Hg); reflexivity).
    destruct (p_info p) as [i|] eqn:Hi0.
    2:{ apply Cont; [exact H|]. intros p0 i' Hp _ R Hi _. injection Hp as <-.
        specialize (R pid). rewrite Hio, Hi in R. destruct R. }
    destruct (memz uid (i_done i)) eqn:Hd.
    { apply Cont; [exact H|]. intros p0 i' Hp _ R Hi _. injection Hp as <-.
      specialize (R pid). rewrite Hio, Hi in R. destruct R as [_ R]. apply R. apply memz_In. exact Hd. }
    destruct (Z.leb_spec (tvalue st) (tvalue T_AGENT_EXECUTING)) as [Hle|Hgt].
    { apply Cont; [exact H|]. intros; lia. }
    destruct (memz uid (i_tasks i)) eqn:Ht; cbn [negb] in H.
    2:{ apply Cont; [exact H|]. intros p0 i' Hp _ R Hi Hin. injection Hp as <-.
        specialize (R pid). rewrite Hio, Hi in R. destruct R as [R _]. rewrite R in Hin.
        apply memz_In in Hin. congruence. }
    (* the task is credited *)
    destruct (P pid i Hio) as [A1 [A2 [A3 A4]]].
    assert (Hcores : cores = cof tk uid) by (eapply Hc; left; reflexivity).
    apply memz_In in Ht.
    assert (Hge : 0 <= i_used i - cores).
    { rewrite A4, Hcores. unfold outstanding. pose proof (sum_ge_term tk (i_done i) uid (i_tasks i) Hk Ht Hd). lia. }
    cbn [i_used] in H. destruct (Z.ltb_spec (i_used i - cores) 0) as [Hlt|_]; [lia|].
    set (i1 := mkInfo (i_hwm i) (i_used i - cores) (i_tasks i) (i_done i ++ [uid])) in *.
    set (pl1 := aset pid (mkPil (p_role p) (p_state p) (p_cores p) (Some i1)) pl) in *.
    assert (Hio1 : forall q, info_of q pl1 = if pid =? q then Some i1 else info_of q pl).
    { intro q. subst pl1. unfold info_of. rewrite getp_aset. destruct (pid =? q); reflexivity. }
    assert (P1 : PilOK tk pl1).
    { intros q i' Hi'. rewrite Hio1 in Hi'. destruct (pid =? q); [|exact (P q i' Hi')].
      injection Hi' as <-. split; [exact A1|split; [exact A2|split]]; cbn [i1 i_tasks i_done i_used].
      - intros u Hu. apply in_app_or in Hu. destruct Hu as [Hu|[<-|[]]]; [exact (A3 u Hu)|exact Ht].
      - unfold outstanding. cbn [i_tasks i_done]. rewrite (sum_finish _ _ _ _ A1 Ht Hd).
        rewrite A4, Hcores. reflexivity. }
    assert (R1 : RI pl pl1).
    { intro q. rewrite Hio1. destruct (Z.eqb_spec pid q).
      - subst q. rewrite Hio. split; [reflexivity|]. intros u Hu. cbn [i1 i_done]. apply in_or_app. left. exact Hu.
      - destruct (info_of q pl); [split; [reflexivity|tauto]|exact I]. }
    destruct (IH _ _ _ _ _ Hcr P1 H) as [B1 [B2 [B3 B4]]].
    split; [exact B1|split; [exact B2|split; [exact (RI_trans _ _ _ R1 B3)|]]].
    intros u0 p0 st0 c0 i' [Hin|Hin] Hs Hi' Ht'; [|exact (B4 _ _ _ _ _ Hin Hs Hi' Ht')].
    injection Hin as -> -> -> ->. specialize (B3 p0). rewrite Hio1, Z.eqb_refl, Hi' in B3.
    destruct B3 as [_ B3]. apply B3. cbn [i1 i_done]. apply in_or_app. right. left. reflexivity.
Qed.

Lemma Disj_RI w pl pl' : RI pl pl' -> Disj w pl -> Disj w pl'.
Proof.
  intros R D p i' u Hi Hu. specialize (R p). rewrite Hi in R.
  destruct (info_of p pl) as [i|] eqn:E; [|destruct R]. destruct R as [R _]. rewrite R in Hu.
  exact (D p i u E Hu).
Qed.

Lemma resolve_cores tk ns uid op st cores :
  In (uid, op, st, cores) (map (resolve tk) ns) -> cores = cof tk uid.
Proof.
  intro H. apply in_map_iff in H. destruct H as [[[u s0] ov] [H _]]. unfold resolve in H.
  injection H as <- _ _ <-. reflexivity.
Qed.

(* ---------------- work / flush ---------------- *)
Lemma In_aset {A} k (l : A) pid v e : In (k, l) (aset pid v e) -> (k, l) = (pid, v) \/ In (k, l) e.
Proof.
  induction e as [|[k0 v0] e IH]; simpl.
  - intros [H|[]]. left. symmetry. exact H.
  - destruct (Z.eqb_spec k0 pid).
    + intros [H|H]; [left; subst; symmetry; exact H|right; right; exact H].
    + intros [H|H]; [right; left; exact H|]. destruct (IH H); [left; assumption|right; right; assumption].
Qed.

Lemma aget_In {A} pid (e : list (Z * A)) l : aget pid e = Some l -> In (pid, l) e.
Proof.
  induction e as [|[k0 v0] e IH]; simpl; [discriminate|]. destruct (Z.eqb_spec k0 pid).
  - intro H. injection H as <-. subst. left. reflexivity.
  - intro H. right. exact (IH H).
Qed.

Lemma In_adel {A} k (l : A) pid e : In (k, l) (adel pid e) -> In (k, l) e.
Proof.
  induction e as [|[k0 v0] e IH]; simpl; [tauto|]. destruct (k0 =? pid).
  - intro H. right. exact H.
  - intros [H|H]; [left; exact H|right; exact (IH H)].
Qed.

Lemma EarlyOK_eappend tk e pid t :
  EarlyOK tk e -> (In (t_uid t) (uids tk) /\ cof tk (t_uid t) = t_cores t) -> EarlyOK tk (eappend pid t e).
Proof.
  intros He Ht k l Hin. unfold eappend in Hin. destruct (aget pid e) as [l0|] eqn:Eg.
  - apply In_aset in Hin. destruct Hin as [Hin|Hin]; [|exact (He k l Hin)].
    injection Hin as -> ->. intros t' Ht'. apply in_app_or in Ht'.
    destruct Ht' as [Ht'|[<-|[]]]; [exact (He pid l0 (aget_In _ _ _ Eg) t' Ht')|exact Ht].
  - apply In_aset in Hin. destruct Hin as [Hin|Hin]; [|exact (He k l Hin)].
    injection Hin as -> ->. intros t' [<-|[]]. exact Ht.
Qed.

Lemma work_loop_acct pl : forall ts early e' bound tosched ev,
  work_loop pl ts early = (e', bound, tosched, ev) ->
  (forall t, In t tosched -> In t ts) /\
  (NoDup (uids ts) -> NoDup (uids tosched)) /\
  (forall t, In t bound -> exists t0, In t0 ts /\ t_uid t = t_uid t0 /\ t_cores t = t_cores t0) /\
  (forall tk', HeldOK tk' ts -> EarlyOK tk' early -> EarlyOK tk' e').
Proof.
  induction ts as [|t ts IH]; intros early e' bound tosched ev H; simpl in H.
  - injection H as <- <- <- <-. split; [tauto|split; [tauto|split; [intros ? []|tauto]]].
  - destruct (t_pilot t) as [pid|].
    + destruct (has_dict pid pl).
      * destruct (work_loop pl ts early) as [[[e2 b2] t2] ev2] eqn:E.
        injection H as <- <- <- <-. destruct (IH _ _ _ _ _ E) as [A1 [A2 [A3 A4]]].
        split; [intros t' Ht'; right; exact (A1 t' Ht')|split; [|split]].
        -- intro Hn. cbn [uids map] in Hn. inversion Hn; subst. apply A2. assumption.
        -- intros t' [<-|Ht'].
           ++ exists t. split; [left; reflexivity|split; reflexivity].
           ++ destruct (A3 t' Ht') as [t0 [B1 B2]]. exists t0. split; [right; exact B1|exact B2].
        -- intros tk' Hh He. apply A4; [intros t' Ht'; apply Hh; right; exact Ht'|exact He].
      * destruct (IH _ _ _ _ _ H) as [A1 [A2 [A3 A4]]].
        split; [intros t' Ht'; right; exact (A1 t' Ht')|split; [|split]].
        -- intro Hn. cbn [uids map] in Hn. inversion Hn; subst. apply A2. assumption.
        -- intros t' Ht'. destruct (A3 t' Ht') as [t0 [B1 B2]]. exists t0. split; [right; exact B1|exact B2].
        -- intros tk' Hh He. apply A4; [intros t' Ht'; apply Hh; right; exact Ht'|].
           apply EarlyOK_eappend; [exact He|apply Hh; left; reflexivity].
    + destruct (work_loop pl ts early) as [[[e2 b2] t2] ev2] eqn:E.
      injection H as <- <- <- <-. destruct (IH _ _ _ _ _ E) as [A1 [A2 [A3 A4]]].
      split; [intros t' [<-|Ht']; [left; reflexivity|right; exact (A1 t' Ht')]|split; [|split]].
      * intro Hn. cbn [uids map] in *. inversion Hn as [|? ? Hx Hn']; subst.
        constructor; [|exact (A2 Hn')]. intro Hin. apply Hx. unfold uids in Hin.
        apply in_map_iff in Hin. destruct Hin as [t' [Ht1 Ht2]]. rewrite <- Ht1. apply in_map. exact (A1 t' Ht2).
      * intros t' Ht'. destruct (A3 t' Ht') as [t0 [B1 B2]]. exists t0. split; [right; exact B1|exact B2].
      * intros tk' Hh He. apply A4; [intros t' Ht'; apply Hh; right; exact Ht'|exact He].
Qed.

Lemma flush_tasks_same pl pid : forall l b ev, flush_tasks pl pid l = (b, ev) ->
  forall t, In t b -> exists t0, In t0 l /\ t_uid t = t_uid t0 /\ t_cores t = t_cores t0.
Proof.
  induction l as [|t l IH]; intros b ev H; simpl in H.
  - injection H as <- <-. intros ? [].
  - destruct (flush_tasks pl pid l) as [b2 ev2] eqn:E. injection H as <- <-.
    intros t' [<-|Ht'].
    + exists t. split; [left; reflexivity|split; reflexivity].
    + destruct (IH _ _ eq_refl t' Ht') as [t0 [B1 B2]]. exists t0. split; [right; exact B1|exact B2].
Qed.

Lemma HeldOK_same tk l b :
  HeldOK tk l -> (forall t, In t b -> exists t0, In t0 l /\ t_uid t = t_uid t0 /\ t_cores t = t_cores t0) ->
  HeldOK tk b.
Proof.
  intros H Hb t Ht. destruct (Hb t Ht) as [t0 [B1 [B2 B3]]]. rewrite B2, B3. exact (H t0 B1).
Qed.

Lemma flush_loop_acct tk pl : forall pids early e' b ev,
  EarlyOK tk early -> flush_loop pl pids early = (e', b, ev) -> EarlyOK tk e' /\ HeldOK tk b.
Proof.
  induction pids as [|pid pids IH]; intros early e' b ev He H; cbn [flush_loop] in H.
  - injection H as <- <- <-. split; [exact He|intros ? []].
  - assert (Hd : EarlyOK tk (adel pid early)) by (intros k l Hin; exact (He k l (In_adel _ _ _ _ Hin))).
    destruct (aget pid early) as [[|t l]|] eqn:Eg.
    + exact (IH _ _ _ _ Hd H).
    + destruct (flush_tasks pl pid (t :: l)) as [b1 ev1] eqn:E1.
      destruct (flush_loop pl pids (adel pid early)) as [[e2 b2] ev2] eqn:E2.
      injection H as <- <- <-. destruct (IH _ _ _ _ Hd E2) as [A1 A2]. split; [exact A1|].
      intros t' Ht'. apply in_app_or in Ht'. destruct Ht' as [Ht'|Ht']; [|exact (A2 t' Ht')].
      exact (HeldOK_same tk _ _ (He pid _ (aget_In _ _ _ Eg)) (flush_tasks_same _ _ _ _ _ E1) t' Ht').
    + exact (IH _ _ _ _ He H).
Qed.

(* ---------------- whole messages ---------------- *)
Definition KI (s s' : st) (X : list Z) : Prop :=
  forall u, In u (uids (s_tk s')) -> In u (uids (s_tk s)) \/ In u X.

Lemma HeldOK_rev tk l : HeldOK tk l -> forall t, In t (rev l) -> In t l.
Proof. intros _ t Ht. apply in_rev. exact Ht. Qed.

Lemma bf_schedule_acct c s s' ev :
  Good s -> bf_schedule c s = (s', ev) -> Good s' /\ KI s s' [].
Proof.
  intros [G1 [G2 [G3 [G4 [G5 G6]]]]]. unfold bf_schedule.
  destruct (filter _ (s_pids s)) as [|e0 elig].
  - intro H. injection H as <- <-. split; [exact (conj G1 (conj G2 (conj G3 (conj G4 (conj G5 G6)))))|intros u Hu; left; exact Hu].
  - destruct (bf_loop (s_wait s) (e0 :: elig) (s_pilots s)) as [[[pl2 sc] un] ev2] eqn:E.
    intro H. injection H as <- <-.
    destruct (bf_loop_acct (s_tk s) G4 _ _ _ _ _ _ _ G1 G2 G5 G6 E) as [B1 [B2 [B3 [B4 [B5 _]]]]].
    destruct (Ext_held (s_tk s) sc (rev sc) B5 (fun t Ht => proj2 (in_rev sc t) Ht)) as [X1 X2].
    split.
    + unfold Good. cbn [s_wait s_tk s_early s_pilots].
      split; [exact B3|split; [|split; [|split; [|split]]]].
      * apply (HeldOK_Ext _ _ _ X1). intros t Ht. exact (G2 t (B4 t Ht)).
      * exact (EarlyOK_Ext _ _ _ X1 G3).
      * exact (X2 G4).
      * exact (PilOK_Ext _ _ _ X1 B1).
      * exact B2.
    + intros u Hu. cbn [s_tk] in Hu. rewrite uids_app in Hu. apply in_app_or in Hu.
      destruct Hu as [Hu|Hu]; [|left; exact Hu]. left.
      unfold uids in Hu. apply in_map_iff in Hu. destruct Hu as [t [<- Ht]].
      apply in_rev in Ht. exact (proj1 (B5 t Ht)).
Qed.

Lemma Good_with_pilots s pl : IP (s_pilots s) pl -> Good s -> Good (with_pilots s pl).
Proof.
  intros H [G1 [G2 [G3 [G4 [G5 G6]]]]]. unfold Good. cbn [with_pilots s_wait s_tk s_early s_pilots].
  split; [exact G1|split; [exact G2|split; [exact G3|split; [exact G4|split]]]].
  - exact (PilOK_IP _ _ _ H G5).
  - exact (Disj_IP _ _ _ H G6).
Qed.

Lemma KI_tk s s' : s_tk s' = s_tk s -> KI s s' [].
Proof. intros H u Hu. left. rewrite <- H. exact Hu. Qed.

Lemma update_pilot_states_acct c s ps s' ev e :
  c_kind c = BF -> Good s -> update_pilot_states c s ps = (s', ev, e) -> Good s' /\ KI s s' [].
Proof.
  intros Hk G. unfold update_pilot_states. destruct ps as [|p ps].
  - intro H. injection H as <- <- <-. split; [exact G|apply KI_tk; reflexivity].
  - destruct (ups_loop (p :: ps) (s_pilots s) []) as [[pl upd] e1] eqn:E.
    pose proof (Good_with_pilots s pl (ups_loop_IP _ _ _ _ _ _ E) G) as G1.
    destruct e1 as [x|].
    + intro H. injection H as <- <- <-. split; [exact G1|apply KI_tk; reflexivity].
    + destruct upd as [|u0 upd].
      * intro H. injection H as <- <- <-. split; [exact G1|apply KI_tk; reflexivity].
      * unfold update_pilots. rewrite Hk. destruct (existsb _ (u0 :: upd)).
        -- destruct (bf_schedule c (with_pilots s pl)) as [s2 ev2] eqn:E2.
           intro H. injection H as <- <- <-. exact (bf_schedule_acct c _ _ _ G1 E2).
        -- intro H. injection H as <- <- <-. split; [exact G1|apply KI_tk; reflexivity].
Qed.

Lemma NoDup_app_disj (a b : list Z) :
  NoDup a -> NoDup b -> (forall x, In x a -> ~ In x b) -> NoDup (a ++ b).
Proof.
  intros Ha Hb Hd. induction Ha as [|x a Hx Ha IH]; [exact Hb|]. cbn [app]. constructor.
  - intro Hin. apply in_app_or in Hin. destruct Hin as [Hin|Hin]; [tauto|].
    exact (Hd x (or_introl eq_refl) Hin).
  - apply IH. intros y Hy. apply Hd. right. exact Hy.
Qed.

Lemma work_acct c s ts s' ev :
  c_kind c = BF -> Good s -> Fresh (s_tk s) ts -> work c s ts = (s', ev) ->
  Good s' /\ KI s s' (uids ts).
Proof.
  intros Hk [G1 [G2 [G3 [G4 [G5 G6]]]]] Hf. unfold work.
  destruct (work_loop (s_pilots s) ts (s_early s)) as [[[e2 b2] t2] ev2] eqn:E.
  unfold sub_work. rewrite Hk.
  match goal with |- context [bf_schedule c ?x] => destruct (bf_schedule c x) as [s2 ev3] eqn:E2 end.
  intro H. injection H as <- <-.
  destruct (work_loop_acct _ _ _ _ _ _ _ E) as [A1 [A2 [A3 A4]]].
  destruct (Ext_fresh _ _ Hf) as [X1 [X2 X3]].
  set (tk1 := rev ts ++ s_tk s) in *.
  assert (Hb : HeldOK tk1 b2) by exact (HeldOK_same tk1 ts b2 X2 A3).
  destruct (Ext_held tk1 b2 (rev b2) Hb (fun t Ht => proj2 (in_rev b2 t) Ht)) as [Y1 Y2].
  pose proof (Ext_trans _ _ _ X1 Y1) as XY.
  destruct Hf as [Hn Hfr].
  match type of E2 with bf_schedule c ?x = _ => assert (Gm : Good x) end.
  { unfold Good. cbn [s_wait s_tk s_early s_pilots]. fold tk1.
    split; [|split; [|split; [|split; [|split]]]].
    - rewrite uids_app. apply NoDup_app_disj; [exact G1|exact (A2 Hn)|].
      intros x Hx Hx2. unfold uids in Hx, Hx2. apply in_map_iff in Hx. destruct Hx as [t [<- Ht]].
      apply in_map_iff in Hx2. destruct Hx2 as [t' [Ht1 Ht2]].
      apply (proj1 (Hfr t' (A1 t' Ht2))). rewrite Ht1. exact (proj1 (G2 t Ht)).
    - intros t Ht. apply in_app_or in Ht. destruct Ht as [Ht|Ht].
      + exact (HeldOK_Ext _ _ _ XY G2 t Ht).
      + exact (HeldOK_Ext _ _ _ Y1 X2 t (A1 t Ht)).
    - apply A4; [exact (HeldOK_Ext _ _ _ Y1 X2)|exact (EarlyOK_Ext _ _ _ XY G3)].
    - exact (Y2 (X3 G4)).
    - exact (PilOK_Ext _ _ _ XY G5).
    - intros p i u Hi Hu Hin. rewrite uids_app in Hin. apply in_app_or in Hin.
      destruct Hin as [Hin|Hin]; [exact (G6 p i u Hi Hu Hin)|].
      unfold uids in Hin. apply in_map_iff in Hin. destruct Hin as [t' [Ht1 Ht2]].
      apply (proj1 (Hfr t' (A1 t' Ht2))). rewrite Ht1.
      exact (proj1 (proj2 (G5 p i Hi)) u Hu). }
  destruct (bf_schedule_acct c _ _ _ Gm E2) as [Gf Kf]. split; [exact Gf|].
  intros u Hu. destruct (Kf u Hu) as [Hu1|[]]. cbn [s_tk] in Hu1.
  unfold tk1 in Hu1. rewrite !uids_app in Hu1.
  apply in_app_or in Hu1. destruct Hu1 as [Hu1|Hu1].
  - right. unfold uids in Hu1. apply in_map_iff in Hu1. destruct Hu1 as [t [<- Ht]].
    apply in_rev in Ht. destruct (A3 t Ht) as [t0 [B1 [B2 _]]]. rewrite B2. apply in_map. exact B1.
  - apply in_app_or in Hu1. destruct Hu1 as [Hu1|Hu1]; [|left; exact Hu1].
    right. unfold uids in *. rewrite map_rev in Hu1. apply in_rev in Hu1. exact Hu1.
Qed.

Lemma do_add_acct c s ps s' ev e :
  c_kind c = BF -> Good s -> do_add c s ps = (s', ev, e) -> Good s' /\ KI s s' [].
Proof.
  intros Hk G. unfold do_add. destruct (add_loop ps (s_pilots s)) as [pl e1] eqn:E1.
  pose proof (Good_with_pilots s pl (add_loop_IP _ _ _ _ E1) G) as G1. destruct e1 as [x|].
  - intro H. injection H as <- <- <-. split; [exact G1|apply KI_tk; reflexivity].
  - match goal with |- context [update_pilot_states c ?a ?b] =>
      destruct (update_pilot_states c a b) as [[s2 ev2] e2] eqn:E2 end.
    destruct (update_pilot_states_acct c _ _ _ _ _ Hk G1 E2) as [G2 K2].
    assert (K02 : KI s s2 []) by (intros u Hu; exact (K2 u Hu)).
    destruct e2 as [x|].
    + intro H. injection H as <- <- <-. split; [exact G2|exact K02].
    + match goal with |- context [flush_loop ?a ?b ?d] =>
        destruct (flush_loop a b d) as [[e' b'] ev3] eqn:E3 end.
      unfold sub_add. rewrite Hk.
      match goal with |- context [bf_schedule c ?x] => destruct (bf_schedule c x) as [s4 ev4] eqn:E4 end.
      intro H. injection H as <- <- <-.
      destruct G2 as [H1 [H2 [H3 [H4 [H5 H6]]]]].
      destruct (flush_loop_acct (s_tk s2) _ _ _ _ _ _ H3 E3) as [F1 F2].
      destruct (Ext_held (s_tk s2) b' (rev b') F2 (fun t Ht => proj2 (in_rev b' t) Ht)) as [X1 X2].
      match type of E4 with bf_schedule c ?x = _ => assert (Gm : Good x) end.
      { unfold Good. cbn [s_wait s_tk s_early s_pilots].
        destruct (set_info_fold_acct c (rev b' ++ s_tk s2) (s_wait s2)
                    (map (fun x => fst (fst x)) ps) (s_pilots s2)
                    (PilOK_Ext _ _ _ X1 H5) H6) as [S1 S2].
        split; [exact H1|split; [exact (HeldOK_Ext _ _ _ X1 H2)|split; [exact (EarlyOK_Ext _ _ _ X1 F1)|
        split; [exact (X2 H4)|split; [exact S1|exact S2]]]]]. }
      destruct (bf_schedule_acct c _ _ _ Gm E4) as [Gf Kf]. split; [exact Gf|].
      intros u Hu. destruct (Kf u Hu) as [Hu1|[]]. cbn [s_tk] in Hu1. rewrite uids_app in Hu1.
      apply in_app_or in Hu1. destruct Hu1 as [Hu1|Hu1]; [|exact (K02 u Hu1)].
      unfold uids in Hu1. apply in_map_iff in Hu1. destruct Hu1 as [t [<- Ht]]. apply in_rev in Ht.
      exact (K02 _ (proj1 (F2 t Ht))).
Qed.

Lemma do_remove_acct s pids s' ev e : Good s -> do_remove s pids = (s', ev, e) -> Good s' /\ KI s s' [].
Proof.
  intro G. unfold do_remove. destruct (rem_loop pids (s_pilots s)) as [pl e1] eqn:E1.
  pose proof (Good_with_pilots s pl (rem_loop_IP _ _ _ _ E1) G) as G1. destruct e1 as [x|].
  - intro H. injection H as <- <- <-. split; [exact G1|apply KI_tk; reflexivity].
  - destruct (sub_rem_loop pids (s_pids (with_pilots s pl))) as [cur e2].
    intro H. injection H as <- <- <-. split; [exact G1|apply KI_tk; reflexivity].
Qed.

Lemma update_tasks_acct c s ns s' ev e :
  c_kind c = BF -> Good s -> update_tasks c s (map (resolve (s_tk s)) ns) = (s', ev, e) ->
  Good s' /\ KI s s' [] /\ e = None.
Proof.
  intros Hk [G1 [G2 [G3 [G4 [G5 G6]]]]]. unfold update_tasks. rewrite Hk.
  destruct (ut_loop (map (resolve (s_tk s)) ns) (s_pilots s) false) as [[pl rs] e1] eqn:E1.
  destruct (ut_loop_acct (s_tk s) G4 _ _ _ _ _ _ (resolve_cores (s_tk s) ns) G5 E1) as [A1 [-> [A3 _]]].
  assert (Gm : Good (with_pilots s pl)).
  { unfold Good. cbn [with_pilots s_wait s_tk s_early s_pilots].
    split; [exact G1|split; [exact G2|split; [exact G3|split; [exact G4|split; [exact A1|]]]]].
    exact (Disj_RI _ _ _ A3 G6). }
  destruct rs.
  - destruct (bf_schedule c (with_pilots s pl)) as [s2 ev2] eqn:E.
    intro H. injection H as <- <- <-. destruct (bf_schedule_acct c _ _ _ Gm E) as [Gf Kf].
    split; [exact Gf|split; [exact Kf|reflexivity]].
  - intro H. injection H as <- <- <-. split; [exact Gm|split; [apply KI_tk; reflexivity|reflexivity]].
Qed.

Lemma step_acct c s o s' ev e :
  c_kind c = BF -> Good s -> Fresh (s_tk s) (op_tasks o) -> step c s o = (s', ev, e) ->
  Good s' /\ KI s s' (uids (op_tasks o)) /\ (forall ns, o = OTStates ns -> e = None).
Proof.
  intros Hk G Hf. destruct o as [ts|t ps|t pids|ps|ns|]; cbn [step op_tasks] in *.
  - destruct (work c s ts) as [s2 ev2] eqn:E. intro H. injection H as <- <- <-.
    destruct (work_acct c _ _ _ _ Hk G Hf E) as [A B]. split; [exact A|split; [exact B|discriminate]].
  - destruct t; try (intro H; destruct (do_add_acct c _ _ _ _ _ Hk G H) as [A B];
                     split; [exact A|split; [exact B|discriminate]]).
    intro H. injection H as <- <- <-. split; [exact G|split; [apply KI_tk; reflexivity|discriminate]].
  - destruct t; try (intro H; destruct (do_remove_acct _ _ _ _ _ G H) as [A B];
                     split; [exact A|split; [exact B|discriminate]]).
    intro H. injection H as <- <- <-. split; [exact G|split; [apply KI_tk; reflexivity|discriminate]].
  - intro H. destruct (update_pilot_states_acct c _ _ _ _ _ Hk G H) as [A B].
    split; [exact A|split; [exact B|discriminate]].
  - destruct (update_tasks c s (map (resolve (s_tk s)) ns)) as [[s2 ev2] e2] eqn:E.
    intro H. injection H as <- <- <-. destruct (update_tasks_acct c _ _ _ _ _ Hk G E) as [A [B C]].
    split; [exact A|split; [exact B|intros _ _; exact C]].
  - intro H. injection H as <- <- <-. split; [exact G|split; [apply KI_tk; reflexivity|discriminate]].
Qed.

(* the submissions of a history: distinct uids, unknown so far, non-negative cores *)
Definition FreshOps (tk : list task) (ops : list op) : Prop := Fresh tk (submitted ops).

Lemma submitted_split o ops : submitted (o :: ops) = op_tasks o ++ submitted ops.
Proof. destruct o; reflexivity. Qed.

Lemma NoDup_app_l {A} (a b : list A) : NoDup (a ++ b) -> NoDup a /\ NoDup b /\ (forall x, In x a -> ~ In x b).
Proof.
  induction a as [|x a IH]; cbn [app]; intro H; [split; [constructor|split; [exact H|tauto]]|].
  inversion H as [|? ? Hx Hn]; subst. destruct (IH Hn) as [A1 [A2 A3]].
  split; [constructor; [intro Hin; apply Hx; apply in_or_app; left; exact Hin|exact A1]|split; [exact A2|]].
  intros y [<-|Hy]; [intro Hin; apply Hx; apply in_or_app; right; exact Hin|exact (A3 y Hy)].
Qed.

(* no task state notification leaves the component with an exception *)
Fixpoint tst_ok (ops : list op) (rs : list result) : bool :=
  match ops, rs with
  | o :: ro, r :: rr =>
      (match o, snd (fst r) with OTStates _, Some _ => false | _, _ => true end) && tst_ok ro rr
  | _, _ => true
  end.

Lemma run_acct c : c_kind c = BF -> forall ops s,
  Good s -> FreshOps (s_tk s) ops ->
  Good (fst (run_st c s ops)) /\ tst_ok ops (run c s ops) = true.
Proof.
  intro Hk. induction ops as [|o ops IH]; intros s G Hf; [split; [exact G|reflexivity]|].
  cbn [run_st run]. destruct (step c s o) as [[s1 ev1] e1] eqn:E1.
  unfold FreshOps in Hf. rewrite submitted_split in Hf. destruct Hf as [Hn Hfr].
  rewrite uids_app in Hn. destruct (NoDup_app_l _ _ Hn) as [N1 [N2 N3]].
  assert (F1 : Fresh (s_tk s) (op_tasks o)).
  { split; [exact N1|]. intros t Ht. apply Hfr. apply in_or_app. left. exact Ht. }
  destruct (step_acct c _ _ _ _ _ Hk G F1 E1) as [G1 [K1 T1]].
  assert (F2 : FreshOps (s_tk s1) ops).
  { split; [exact N2|]. intros t Ht. split; [|apply Hfr; apply in_or_app; right; exact Ht].
    intro Hin. destruct (K1 _ Hin) as [Hin1|Hin1].
    - apply (proj1 (Hfr t (in_or_app _ _ _ (or_intror Ht)))). exact Hin1.
    - apply (N3 _ Hin1). apply in_map. exact Ht. }
  destruct (IH s1 G1 F2) as [Gf Tf].
  destruct (run_st c s1 ops) as [s2 ev2] eqn:E2. cbn [fst] in *. split; [exact Gf|].
  cbn [tst_ok fst snd]. rewrite Tf, andb_true_r.
  destruct o; try reflexivity. rewrite (T1 _ eq_refl). reflexivity.
Qed.

Lemma Good0 : Good st0.
Proof.
  unfold Good. cbn. split; [constructor|split; [intros ? []|split; [intros ? ? []|split; [intros ? []|split]]]].
  - intros p i Hi. discriminate.
  - intros p i u Hi. discriminate.
Qed.

Definition UniqueTasks (ops : list op) : Prop :=
  NoDup (uids (submitted ops)) /\ forall t, In t (submitted ops) -> 0 <= t_cores t.

Lemma FreshOps0 ops : UniqueTasks ops -> FreshOps (s_tk st0) ops.
Proof. intros [H1 H2]. split; [exact H1|]. intros t Ht. split; [intros []|exact (H2 t Ht)]. Qed.

(* full statement: used is exactly the outstanding load, never negative, and 0
   once every placed task has been credited; no update_tasks batch raises *)
Lemma bf_used_accounting c ops :
  c_kind c = BF -> UniqueTasks ops ->
  let s := fst (run_st c st0 ops) in
  tst_ok ops (run c st0 ops) = true /\
  forall p i, info_of p (s_pilots s) = Some i ->
    i_used i = outstanding (s_tk s) i /\ 0 <= i_used i /\
    ((forall u, In u (i_tasks i) -> In u (i_done i)) -> i_used i = 0).
Proof.
  intros Hk Hu s. destruct (run_acct c Hk ops st0 Good0 (FreshOps0 ops Hu)) as [G T].
  split; [exact T|]. intros p i Hi. fold s in G. destruct G as [_ [_ [_ [G4 [G5 _]]]]].
  destruct (G5 p i Hi) as [A1 [A2 [A3 A4]]]. split; [exact A4|split].
  - rewrite A4. unfold outstanding. clear -G4. induction (i_tasks i) as [|x l IH]; cbn [map sumz]; [lia|].
    unfold term at 1. destruct (memz x (i_done i)); [lia|]. pose proof (cof_nonneg _ x G4). lia.
  - intro Hall. rewrite A4. apply sum_all_done. intros u Hu'. apply memz_In. exact (Hall u Hu').
Qed.

(* every finished-notification for a task placed on its pilot is credited,
   whatever else the batch contains *)
Lemma bf_batch_credited c ops ns :
  c_kind c = BF -> UniqueTasks ops ->
  let s := fst (run_st c st0 ops) in
  let rs := map (resolve (s_tk s)) ns in
  exists pl' b, ut_loop rs (s_pilots s) false = (pl', b, None) /\ Cred rs pl'.
Proof.
  intros Hk Hu s rs. destruct (run_acct c Hk ops st0 Good0 (FreshOps0 ops Hu)) as [G _].
  fold s in G. destruct G as [_ [_ [_ [G4 [G5 _]]]]].
  destruct (ut_loop rs (s_pilots s) false) as [[pl' b] e] eqn:E.
  destruct (ut_loop_acct (s_tk s) G4 _ _ _ _ _ _ (resolve_cores (s_tk s) ns) G5 E) as [_ [-> [_ C]]].
  exists pl', b. split; [reflexivity|exact C].
Qed.
