(* C12: lemmas and invariants about TmgrSched.Model (unbounded: induction over
   message histories and over the loops of the schedulers). *)
From Coq Require Import ZArith List Bool Lia.
From RP Require Import Gen.StatesTables States.Model States.Inst TmgrSched.Model TmgrSched.Oracle.
Import ListNotations.
Open Scope Z_scope.

(* ------------------------------------------------------------------ basics *)
Definition uids (l : list task) : list Z := map t_uid l.
Definition cnt (u : Z) (l : list task) : Z := countz u (uids l).
Fixpoint ecnt (u : Z) (e : list (Z * list task)) : Z :=
  match e with [] => 0 | (_, l) :: r => cnt u l + ecnt u r end.
(* tasks the scheduler holds back: the wait pool and the early-bound lists *)
Definition waiting (s : st) : list Z :=
  uids (s_wait s) ++ concat (map (fun e => uids (snd e)) (s_early s)).
Definition pcnt (u : Z) (s : st) : Z := cnt u (s_wait s) + ecnt u (s_early s).
Definition fwd_uids (ev : list event) : list Z := map fst (fwd_of ev).
Definition fcnt (u : Z) (ev : list event) : Z := countz u (fwd_uids ev).

Lemma countz_app u a b : countz u (a ++ b) = countz u a + countz u b.
Proof. induction a as [|x a IH]; simpl; [reflexivity | rewrite IH; lia]. Qed.

Lemma countz_nonneg u l : 0 <= countz u l.
Proof. induction l as [|x l IH]; simpl; [lia | destruct (x =? u); lia]. Qed.

Lemma cnt_app u a b : cnt u (a ++ b) = cnt u a + cnt u b.
Proof. unfold cnt, uids. rewrite map_app. apply countz_app. Qed.

Lemma cnt_cons u t l : cnt u (t :: l) = (if t_uid t =? u then 1 else 0) + cnt u l.
Proof. reflexivity. Qed.

Lemma cnt_nil u : cnt u [] = 0.
Proof. reflexivity. Qed.

Lemma waiting_count u s : countz u (waiting s) = pcnt u s.
Proof.
  unfold waiting, pcnt. rewrite countz_app. f_equal.
  induction (s_early s) as [|[k l] e IH]; simpl; [reflexivity|].
  rewrite countz_app, IH. reflexivity.
Qed.

Lemma fwd_of_app a b : fwd_of (a ++ b) = fwd_of a ++ fwd_of b.
Proof.
  induction a as [|x a IH]; simpl; [reflexivity|].
  destruct x as [k l| |]; try exact IH. destruct k; try exact IH.
  rewrite IH, app_assoc. reflexivity.
Qed.

Lemma fcnt_app u a b : fcnt u (a ++ b) = fcnt u a + fcnt u b.
Proof. unfold fcnt, fwd_uids. rewrite fwd_of_app, map_app. apply countz_app. Qed.

Lemma fcnt_nil u : fcnt u [] = 0.
Proof. reflexivity. Qed.

Lemma fcnt_asg u a ev : fcnt u (EAsg a :: ev) = fcnt u ev.
Proof. reflexivity. Qed.

Lemma fcnt_adv_fwd u l : fcnt u (adv AForward l) = cnt u l.
Proof.
  unfold fcnt, fwd_uids, adv, cnt, uids. destruct l as [|t l]; [reflexivity|].
  cbn [fwd_of]. rewrite app_nil_r, map_map. reflexivity.
Qed.

Lemma fcnt_adv_sched u l : fcnt u (adv AScheduling l) = 0.
Proof. unfold adv. destruct l; reflexivity. Qed.

Lemma fcnt_fwd1 u x p ev : fcnt u (EAdv AForward [(x, p)] :: ev) = (if x =? u then 1 else 0) + fcnt u ev.
Proof. reflexivity. Qed.

Lemma cnt_bind u t pid : (if t_uid (bind t pid) =? u then 1 else 0) = (if t_uid t =? u then 1 else 0).
Proof. reflexivity. Qed.

(* ------------------------------------------------------------------ dicts *)
Lemma ecnt_aset_some u k l l' e :
  aget k e = Some l -> ecnt u (aset k l' e) = ecnt u e - cnt u l + cnt u l'.
Proof.
  induction e as [|[k' v] e IH]; simpl; [discriminate|].
  destruct (k' =? k) eqn:E; intro H.
  - injection H as ->. simpl. lia.
  - simpl. rewrite (IH H). lia.
Qed.

Lemma ecnt_aset_none u k l' e :
  aget k e = None -> ecnt u (aset k l' e) = ecnt u e + cnt u l'.
Proof.
  induction e as [|[k' v] e IH]; simpl; [intros _; lia|].
  destruct (k' =? k) eqn:E; intro H; [discriminate|].
  simpl. rewrite (IH H). lia.
Qed.

Lemma ecnt_adel u k l e :
  aget k e = Some l -> ecnt u (adel k e) = ecnt u e - cnt u l.
Proof.
  induction e as [|[k' v] e IH]; simpl; [discriminate|].
  destruct (k' =? k) eqn:E; intro H.
  - injection H as ->. lia.
  - simpl. rewrite (IH H). lia.
Qed.

Lemma ecnt_eappend u pid t e :
  ecnt u (eappend pid t e) = ecnt u e + (if t_uid t =? u then 1 else 0).
Proof.
  unfold eappend. destruct (aget pid e) as [l|] eqn:E.
  - rewrite (ecnt_aset_some u pid l _ e E), cnt_app, cnt_cons, cnt_nil. lia.
  - rewrite (ecnt_aset_none u pid _ e E), cnt_cons, cnt_nil. lia.
Qed.

(* ------------------------------------------------------------------ loops *)
Lemma rr_loop_cons u pl pids : forall ts idx idx' ok ev,
  rr_loop pl pids idx ts = (idx', ok, ev) -> cnt u ok = cnt u ts /\ fcnt u ev = 0.
Proof.
  induction ts as [|t ts IH]; intros idx idx' ok ev H; simpl in H.
  - injection H as <- <- <-. split; reflexivity.
  - destruct (rr_loop pl pids ((if Z.of_nat (length pids) <=? idx then 0 else idx) + 1) ts)
      as [[i2 ok2] ev2] eqn:E.
    injection H as <- <- <-. destruct (IH _ _ _ _ E) as [H1 H2].
    rewrite !cnt_cons, fcnt_asg, H1, H2. split; reflexivity.
Qed.

Lemma rr_schedule_cons u s ts s' ev :
  rr_schedule s ts = (s', ev) ->
  pcnt u s' + fcnt u ev = pcnt u s + cnt u ts.
Proof.
  unfold rr_schedule. destruct (s_pids s) as [|p0 pids] eqn:Ep.
  - intro H. injection H as <- <-. unfold pcnt. cbn [s_wait s_early]. rewrite cnt_app, fcnt_nil. lia.
  - destruct (rr_loop (s_pilots s) (p0 :: pids) (s_idx s) ts) as [[i2 ok] ev2] eqn:E.
    intro H. injection H as <- <-. destruct (rr_loop_cons u _ _ _ _ _ _ _ E) as [H1 H2].
    unfold pcnt. cbn [s_wait s_early]. rewrite fcnt_app, fcnt_adv_fwd, H1, H2. lia.
Qed.

Lemma bf_loop_cons u : forall wait elig pl pl' sc un ev,
  bf_loop wait elig pl = (pl', sc, un, ev) ->
  cnt u sc + cnt u un = cnt u wait /\ fcnt u ev = 0.
Proof.
  induction wait as [|t w IH]; intros elig pl pl' sc un ev H; simpl in H.
  - injection H as <- <- <- <-. split; reflexivity.
  - destruct (find _ elig) as [pid|].
    + match type of H with context [bf_loop w ?e ?p] => destruct (bf_loop w e p) as [[[pl2 sc2] un2] ev2] eqn:E end.
      injection H as <- <- <- <-. destruct (IH _ _ _ _ _ _ E) as [H1 H2].
      rewrite !cnt_cons, fcnt_asg. cbn [bind t_uid]. split; lia.
    + destruct (bf_loop w elig pl) as [[[pl2 sc2] un2] ev2] eqn:E.
      injection H as <- <- <- <-. destruct (IH _ _ _ _ _ _ E) as [H1 H2].
      rewrite !cnt_cons. split; lia.
Qed.

Lemma bf_schedule_cons u c s s' ev :
  bf_schedule c s = (s', ev) -> pcnt u s' + fcnt u ev = pcnt u s.
Proof.
  unfold bf_schedule. destruct (filter _ (s_pids s)) as [|e0 elig].
  - intro H. injection H as <- <-. rewrite fcnt_nil. lia.
  - destruct (bf_loop (s_wait s) (e0 :: elig) (s_pilots s)) as [[[pl2 sc] un] ev2] eqn:E.
    intro H. injection H as <- <-. destruct (bf_loop_cons u _ _ _ _ _ _ _ E) as [H1 H2].
    unfold pcnt. cbn [s_wait s_early]. rewrite fcnt_app, fcnt_adv_fwd, H2. lia.
Qed.

Lemma update_pilots_cons u c s upd s' ev :
  update_pilots c s upd = (s', ev) -> pcnt u s' + fcnt u ev = pcnt u s.
Proof.
  unfold update_pilots. destruct (c_kind c).
  - intro H. injection H as <- <-. rewrite fcnt_nil. lia.
  - destruct (existsb _ upd).
    + apply bf_schedule_cons.
    + intro H. injection H as <- <-. rewrite fcnt_nil. lia.
Qed.

Lemma pcnt_with_pilots u s pl : pcnt u (with_pilots s pl) = pcnt u s.
Proof. reflexivity. Qed.

Lemma update_pilot_states_cons u c s ps s' ev e :
  update_pilot_states c s ps = (s', ev, e) -> pcnt u s' + fcnt u ev = pcnt u s.
Proof.
  unfold update_pilot_states. destruct ps as [|p ps].
  - intro H. injection H as <- <- <-. rewrite fcnt_nil. lia.
  - destruct (ups_loop (p :: ps) (s_pilots s) []) as [[pl upd] e1].
    destruct e1 as [x|].
    + intro H. injection H as <- <- <-. rewrite fcnt_nil, pcnt_with_pilots. lia.
    + destruct upd as [|u0 upd].
      * intro H. injection H as <- <- <-. rewrite fcnt_nil, pcnt_with_pilots. lia.
      * destruct (update_pilots c (with_pilots s pl) (u0 :: upd)) as [s2 ev2] eqn:E.
        intro H. injection H as <- <- <-.
        pose proof (update_pilots_cons u _ _ _ _ _ E) as H1. rewrite pcnt_with_pilots in H1. exact H1.
Qed.

Lemma work_loop_cons u pl : forall ts early e' bound tosched ev,
  work_loop pl ts early = (e', bound, tosched, ev) ->
  ecnt u e' + cnt u bound + cnt u tosched = ecnt u early + cnt u ts /\ fcnt u ev = cnt u bound.
Proof.
  induction ts as [|t ts IH]; intros early e' bound tosched ev H; simpl in H.
  - injection H as <- <- <- <-. rewrite !cnt_nil, fcnt_nil. split; lia.
  - destruct (t_pilot t) as [pid|].
    + destruct (has_dict pid pl).
      * destruct (work_loop pl ts early) as [[[e2 b2] t2] ev2] eqn:E.
        injection H as <- <- <- <-. destruct (IH _ _ _ _ _ E) as [H1 H2].
        rewrite fcnt_asg, fcnt_fwd1, !cnt_cons. cbn [bind t_uid]. split; lia.
      * destruct (IH _ _ _ _ _ H) as [H1 H2]. rewrite ecnt_eappend in H1.
        rewrite cnt_cons. split; lia.
    + destruct (work_loop pl ts early) as [[[e2 b2] t2] ev2] eqn:E.
      injection H as <- <- <- <-. destruct (IH _ _ _ _ _ E) as [H1 H2].
      rewrite !cnt_cons. split; lia.
Qed.

Lemma sub_work_cons u c s ts s' ev :
  sub_work c s ts = (s', ev) -> pcnt u s' + fcnt u ev = pcnt u s + cnt u ts.
Proof.
  unfold sub_work. destruct (c_kind c).
  - destruct ts as [|t ts].
    + intro H. injection H as <- <-. rewrite fcnt_nil, cnt_nil. lia.
    + apply rr_schedule_cons.
  - intro H. apply (bf_schedule_cons u) in H. rewrite H. unfold pcnt. cbn [s_wait s_early].
    rewrite cnt_app. lia.
Qed.

Lemma work_cons u c s ts s' ev :
  work c s ts = (s', ev) -> pcnt u s' + fcnt u ev = pcnt u s + cnt u ts.
Proof.
  unfold work. destruct (work_loop (s_pilots s) ts (s_early s)) as [[[e2 b2] t2] ev2] eqn:E.
  match goal with |- context [sub_work c ?x t2] => destruct (sub_work c x t2) as [s2 ev3] eqn:E2 end.
  intro H. injection H as <- <-. destruct (work_loop_cons u _ _ _ _ _ _ _ E) as [H1 H2].
  apply (sub_work_cons u) in E2. unfold pcnt in E2 at 2. cbn [s_wait s_early] in E2.
  rewrite !fcnt_app, fcnt_adv_sched, H2. unfold pcnt at 2. lia.
Qed.

Lemma flush_tasks_cons u pl pid : forall l b ev,
  flush_tasks pl pid l = (b, ev) -> cnt u b = cnt u l /\ fcnt u ev = 0.
Proof.
  induction l as [|t l IH]; intros b ev H; simpl in H.
  - injection H as <- <-. split; reflexivity.
  - destruct (flush_tasks pl pid l) as [b2 ev2] eqn:E. injection H as <- <-.
    destruct (IH _ _ eq_refl) as [H1 H2]. rewrite !cnt_cons, fcnt_asg. cbn [bind t_uid]. split; lia.
Qed.

Lemma flush_loop_cons u pl : forall pids early e' b ev,
  flush_loop pl pids early = (e', b, ev) ->
  ecnt u e' + cnt u b = ecnt u early /\ fcnt u ev = cnt u b.
Proof.
  induction pids as [|pid pids IH]; intros early e' b ev H; cbn [flush_loop] in H.
  - injection H as <- <- <-. rewrite cnt_nil, fcnt_nil. split; lia.
  - destruct (aget pid early) as [[|t l]|] eqn:Eg.
    + destruct (IH _ _ _ _ H) as [H1 H2]. rewrite (ecnt_adel u _ _ _ Eg), cnt_nil in H1. split; lia.
    + destruct (flush_tasks pl pid (t :: l)) as [b1 ev1] eqn:E1.
      destruct (flush_loop pl pids (adel pid early)) as [[e2 b2] ev2] eqn:E2.
      injection H as <- <- <-. destruct (flush_tasks_cons u _ _ _ _ _ E1) as [H1 H2].
      destruct (IH _ _ _ _ E2) as [H3 H4]. rewrite (ecnt_adel u _ _ _ Eg) in H3.
      rewrite !fcnt_app, fcnt_adv_fwd, cnt_app, H2, H4. split; lia.
    + apply (IH _ _ _ _ H).
Qed.

Lemma sub_add_cons u c s pids s' ev :
  sub_add c s pids = (s', ev) -> pcnt u s' + fcnt u ev = pcnt u s.
Proof.
  unfold sub_add. destruct (c_kind c).
  - destruct (s_wait s) as [|t w] eqn:Ew.
    + intro H. injection H as <- <-. unfold pcnt. cbn [s_wait s_early]. rewrite Ew, fcnt_nil. lia.
    + intro H. apply (rr_schedule_cons u) in H. rewrite H. unfold pcnt. cbn [s_wait s_early].
      rewrite Ew, cnt_nil. lia.
  - intro H. apply (bf_schedule_cons u) in H. rewrite H. reflexivity.
Qed.

Lemma do_add_cons u c s ps s' ev e :
  do_add c s ps = (s', ev, e) -> pcnt u s' + fcnt u ev = pcnt u s.
Proof.
  unfold do_add. destruct (add_loop ps (s_pilots s)) as [pl e1].
  destruct e1 as [x|].
  - intro H. injection H as <- <- <-. rewrite fcnt_nil, pcnt_with_pilots. lia.
  - match goal with |- context [update_pilot_states c ?a ?b] =>
      destruct (update_pilot_states c a b) as [[s2 ev2] e2] eqn:E2 end.
    apply (update_pilot_states_cons u) in E2. rewrite pcnt_with_pilots in E2.
    destruct e2 as [x|].
    + intro H. injection H as <- <- <-. exact E2.
    + match goal with |- context [flush_loop ?a ?b ?d] =>
        destruct (flush_loop a b d) as [[e' b'] ev3] eqn:E3 end.
      match goal with |- context [sub_add c ?a ?b] =>
        destruct (sub_add c a b) as [s4 ev4] eqn:E4 end.
      intro H. injection H as <- <- <-.
      destruct (flush_loop_cons u _ _ _ _ _ _ E3) as [H1 H2].
      apply (sub_add_cons u) in E4. unfold pcnt in E4 at 2. cbn [s_wait s_early] in E4.
      rewrite !fcnt_app, H2. unfold pcnt in E2 at 1. lia.
Qed.

Lemma do_remove_cons u s pids s' ev e :
  do_remove s pids = (s', ev, e) -> pcnt u s' + fcnt u ev = pcnt u s.
Proof.
  unfold do_remove. destruct (rem_loop pids (s_pilots s)) as [pl e1]. destruct e1 as [x|].
  - intro H. injection H as <- <- <-. rewrite fcnt_nil, pcnt_with_pilots. lia.
  - destruct (sub_rem_loop pids (s_pids (with_pilots s pl))) as [cur e2].
    intro H. injection H as <- <- <-. rewrite fcnt_nil. unfold pcnt. cbn [s_wait s_early with_pilots]. lia.
Qed.

Lemma update_tasks_cons u c s ns s' ev e :
  update_tasks c s ns = (s', ev, e) -> pcnt u s' + fcnt u ev = pcnt u s.
Proof.
  unfold update_tasks. destruct (c_kind c).
  - intro H. injection H as <- <- <-. rewrite fcnt_nil. lia.
  - destruct (ut_loop ns (s_pilots s) false) as [[pl rs] e1]. destruct e1 as [x|].
    + intro H. injection H as <- <- <-. rewrite fcnt_nil, pcnt_with_pilots. lia.
    + destruct rs.
      * destruct (bf_schedule c (with_pilots s pl)) as [s2 ev2] eqn:E.
        intro H. injection H as <- <- <-. apply (bf_schedule_cons u) in E.
        rewrite pcnt_with_pilots in E. exact E.
      * intro H. injection H as <- <- <-. rewrite fcnt_nil, pcnt_with_pilots. lia.
Qed.

Definition op_tasks (o : op) : list task := match o with OSubmit ts => ts | _ => [] end.

Lemma step_cons u c s o s' ev e :
  step c s o = (s', ev, e) -> pcnt u s' + fcnt u ev = pcnt u s + cnt u (op_tasks o).
Proof.
  destruct o as [ts|t ps|t pids|ps|ns|]; cbn [step op_tasks]; rewrite ?cnt_nil, ?Z.add_0_r.
  - destruct (work c s ts) as [s2 ev2] eqn:E. intro H. injection H as <- <- <-.
    apply (work_cons u _ _ _ _ _ E).
  - destruct t; try apply do_add_cons; intro H; injection H as <- <- <-; rewrite fcnt_nil; lia.
  - destruct t; try apply do_remove_cons; intro H; injection H as <- <- <-; rewrite fcnt_nil; lia.
  - apply update_pilot_states_cons.
  - destruct (update_tasks c s (map (resolve (s_tk s)) ns)) as [[s2 ev2] e2] eqn:E.
    intro H. injection H as <- <- <-. apply (update_tasks_cons u) in E.
    unfold fcnt, fwd_uids in *. cbn [fwd_of]. exact E.
  - intro H. injection H as <- <- <-. rewrite fcnt_nil. lia.
Qed.

Lemma submitted_cons u o ops : cnt u (submitted (o :: ops)) = cnt u (op_tasks o) + cnt u (submitted ops).
Proof. destruct o; cbn [submitted op_tasks]; rewrite ?cnt_app, ?cnt_nil; lia. Qed.

(* conservation: along any history, every submitted task is either still
   held back by the scheduler or has been handed on -- with multiplicity *)
Lemma run_conservation u c : forall ops s s' ev,
  run_st c s ops = (s', ev) ->
  pcnt u s' + fcnt u ev = pcnt u s + cnt u (submitted ops).
Proof.
  induction ops as [|o ops IH]; intros s s' ev H; simpl in H.
  - injection H as <- <-. rewrite fcnt_nil. cbn [submitted]. rewrite cnt_nil. lia.
  - destruct (step c s o) as [[s1 ev1] e1] eqn:E1.
    destruct (run_st c s1 ops) as [s2 ev2] eqn:E2.
    injection H as <- <-. apply (step_cons u) in E1. apply IH in E2.
    rewrite fcnt_app, submitted_cons. lia.
Qed.

Lemma pcnt_nonneg u s : 0 <= pcnt u s.
Proof.
  unfold pcnt. pose proof (countz_nonneg u (uids (s_wait s))). unfold cnt.
  assert (0 <= ecnt u (s_early s)).
  { induction (s_early s) as [|[k l] e IH]; simpl; [lia|].
    pose proof (countz_nonneg u (uids l)). unfold cnt. lia. }
  lia.
Qed.

Lemma countz_notin u l : ~ In u l -> countz u l = 0.
Proof.
  induction l as [|x l IH]; simpl; [reflexivity|]. intro H.
  destruct (x =? u) eqn:E; [apply Z.eqb_eq in E; tauto|]. rewrite IH; tauto.
Qed.

Lemma countz_in u l : In u l -> 1 <= countz u l.
Proof.
  induction l as [|x l IH]; simpl; [tauto|]. intros [->|H].
  - rewrite Z.eqb_refl. pose proof (countz_nonneg u l). lia.
  - specialize (IH H). destruct (x =? u); lia.
Qed.

Lemma NoDup_countz l : NoDup l -> forall u, countz u l <= 1.
Proof.
  induction 1 as [|x l Hx Hl IH]; intro u; simpl; [lia|].
  destruct (x =? u) eqn:E.
  - apply Z.eqb_eq in E. subst. rewrite (countz_notin _ _ Hx). lia.
  - specialize (IH u). lia.
Qed.

Lemma countz_NoDup l : (forall u, countz u l <= 1) -> NoDup l.
Proof.
  induction l as [|x l IH]; intro H; constructor.
  - intro Hin. specialize (H x). simpl in H. rewrite Z.eqb_refl in H.
    pose proof (countz_in _ _ Hin). lia.
  - apply IH. intro u. specialize (H u). simpl in H. destruct (x =? u); lia.
Qed.

Lemma events_of_run c : forall ops s, events_of (run c s ops) = snd (run_st c s ops).
Proof.
  induction ops as [|o ops IH]; intro s; simpl; [reflexivity|].
  destruct (step c s o) as [[s1 ev1] e1]. unfold events_of in *. cbn [map concat fst snd].
  rewrite IH. destruct (run_st c s1 ops). reflexivity.
Qed.

Lemma bound_once c ops :
  NoDup (uids (submitted ops)) -> NoDup (fwd_uids (events_of (run c st0 ops))).
Proof.
  intro Hn. apply countz_NoDup. intro u. rewrite events_of_run.
  destruct (run_st c st0 ops) as [s' ev] eqn:E. cbn [snd].
  pose proof (run_conservation u c ops st0 s' ev E) as H.
  pose proof (pcnt_nonneg u s'). pose proof (NoDup_countz _ Hn u).
  unfold fcnt, cnt in *. change (pcnt u st0) with 0 in H. lia.
Qed.

Lemma conservation c ops u :
  countz u (uids (submitted ops)) =
  countz u (waiting (fst (run_st c st0 ops))) + countz u (fwd_uids (snd (run_st c st0 ops))).
Proof.
  destruct (run_st c st0 ops) as [s' ev] eqn:E. cbn [fst snd].
  pose proof (run_conservation u c ops st0 s' ev E) as H.
  rewrite waiting_count. unfold fcnt, cnt in *. change (pcnt u st0) with 0 in H. lia.
Qed.

(* ================================================================== *)
(* who gets bound to whom: every call of _assign_pilot is "good"       *)
(* ================================================================== *)
Definition goodb (c : cfg) (a : asg) : bool :=
  named_asg a && (sched_asg a || match a_prev a with Some _ => true | None => false end) &&
  match c_kind c with
  | RR => true
  | BF => window_asg c a && (negb (sched_asg a) || role_eqb (a_role a) RAdded)
  end.
Definition AllG (c : cfg) (ev : list event) : Prop := forallb (goodb c) (asgs_of ev) = true.

Definition unnamed (l : list task) : Prop := Forall (fun t => t_pilot t = None) l.
Definition namedE (e : list (Z * list task)) : Prop :=
  Forall (fun x => Forall (fun t => t_pilot t = Some (fst x)) (snd x)) e.
(* tasks in the wait pool name no pilot; tasks parked for pilot p name p *)
Definition Inv (s : st) : Prop := unnamed (s_wait s) /\ namedE (s_early s).

Lemma asgs_of_app a b : asgs_of (a ++ b) = asgs_of a ++ asgs_of b.
Proof.
  induction a as [|x a IH]; simpl; [reflexivity|]. destruct x; simpl; rewrite IH; reflexivity.
Qed.

Lemma AllG_app c a b : AllG c a -> AllG c b -> AllG c (a ++ b).
Proof. unfold AllG. intros Ha Hb. rewrite asgs_of_app, forallb_app, Ha, Hb. reflexivity. Qed.

Lemma AllG_nil c : AllG c [].
Proof. reflexivity. Qed.

Lemma AllG_adv c k l : AllG c (adv k l).
Proof. unfold adv. destruct l; reflexivity. Qed.

Lemma AllG_cons_asg c a ev : goodb c a = true -> AllG c ev -> AllG c (EAsg a :: ev).
Proof. unfold AllG. simpl. intros -> ->. reflexivity. Qed.

Lemma AllG_cons_adv c k l ev : AllG c ev -> AllG c (EAdv k l :: ev).
Proof. exact (fun H => H). Qed.

Lemma goodb_rr c pl t pid :
  c_kind c = RR -> t_pilot t = None -> goodb c (snap SSched pl t pid) = true.
Proof.
  intros Hk Hp. unfold goodb, named_asg, sched_asg, snap. cbn [a_prev a_pid a_src]. rewrite Hk, Hp.
  reflexivity.
Qed.

Lemma goodb_early c s pl t pid :
  s <> SSched -> t_pilot t = Some pid -> goodb c (snap s pl t pid) = true.
Proof.
  intros Hs Hp. unfold goodb, named_asg, window_asg, sched_asg, snap.
  cbn [a_prev a_pid a_src]. rewrite Hp, Z.eqb_refl.
  destruct s; try congruence; destruct (c_kind c); reflexivity.
Qed.

Lemma goodb_sched c pl t pid :
  t_pilot t = None -> p_role (getp pid pl) = RAdded -> in_window c (p_state (getp pid pl)) = true ->
  goodb c (snap SSched pl t pid) = true.
Proof.
  intros Hp Hr Hw. unfold goodb, named_asg, window_asg, sched_asg, snap.
  cbn [a_prev a_pid a_src a_role a_state]. rewrite Hp, Hr, Hw. destruct (c_kind c); reflexivity.
Qed.

(* ---- dict lemmas ---- *)
Lemma aget_aset {A} (l : list (Z * A)) k k' v :
  aget k (aset k' v l) = if k' =? k then Some v else aget k l.
Proof.
  induction l as [|[k0 v0] l IH]; simpl.
  - destruct (k' =? k); reflexivity.
  - destruct (Z.eqb_spec k0 k'); simpl.
    + subst. destruct (Z.eqb_spec k' k); reflexivity.
    + destruct (Z.eqb_spec k0 k).
      * subst. destruct (Z.eqb_spec k' k); [congruence|reflexivity].
      * exact IH.
Qed.

Lemma getp_aset pl pid v q : getp q (aset pid v pl) = if pid =? q then v else getp q pl.
Proof. unfold getp. rewrite aget_aset. destruct (pid =? q); reflexivity. Qed.

Lemma add_used_role pid uid cores pl q :
  p_role (getp q (add_used pid uid cores pl)) = p_role (getp q pl) /\
  p_state (getp q (add_used pid uid cores pl)) = p_state (getp q pl).
Proof.
  unfold add_used. destruct (p_info (getp pid pl)) as [i|]; [|split; reflexivity].
  rewrite getp_aset. destruct (Z.eqb_spec pid q); [subst|]; split; reflexivity.
Qed.

Lemma remove1_In x y l : In x (remove1 y l) -> In x l.
Proof.
  induction l as [|z l IH]; simpl; [tauto|]. destruct (z =? y); simpl; tauto.
Qed.

Lemma namedE_aget e pid l : namedE e -> aget pid e = Some l -> Forall (fun t => t_pilot t = Some pid) l.
Proof.
  induction 1 as [|[k v] e Hx He IH]; simpl; [discriminate|].
  destruct (Z.eqb_spec k pid); [|exact IH]. intro H. injection H as <-. subst. exact Hx.
Qed.

Lemma namedE_aset e pid l :
  namedE e -> Forall (fun t => t_pilot t = Some pid) l -> namedE (aset pid l e).
Proof.
  intros He Hl. induction He as [|[k v] e Hx He IH]; simpl.
  - constructor; [exact Hl|constructor].
  - destruct (Z.eqb_spec k pid).
    + subst. constructor; [exact Hl|exact He].
    + constructor; [exact Hx|exact IH].
Qed.

Lemma namedE_adel e pid : namedE e -> namedE (adel pid e).
Proof.
  induction 1 as [|[k v] e Hx He IH]; simpl; [constructor|].
  destruct (k =? pid); [exact He|constructor; [exact Hx|exact IH]].
Qed.

Lemma namedE_eappend e pid t : namedE e -> t_pilot t = Some pid -> namedE (eappend pid t e).
Proof.
  intros He Ht. unfold eappend. destruct (aget pid e) as [l|] eqn:E.
  - apply namedE_aset; [exact He|]. apply Forall_app. split.
    + exact (namedE_aget _ _ _ He E).
    + constructor; [exact Ht|constructor].
  - apply namedE_aset; [exact He|]. constructor; [exact Ht|constructor].
Qed.

(* ---- the loops ---- *)
Lemma rr_loop_good c pl pids : c_kind c = RR -> forall ts idx idx' ok ev,
  unnamed ts -> rr_loop pl pids idx ts = (idx', ok, ev) -> AllG c ev.
Proof.
  intro Hk. induction ts as [|t ts IH]; intros idx idx' ok ev Hu H; simpl in H.
  - injection H as <- <- <-. apply AllG_nil.
  - destruct (rr_loop pl pids ((if Z.of_nat (length pids) <=? idx then 0 else idx) + 1) ts)
      as [[i2 ok2] ev2] eqn:E.
    injection H as <- <- <-. inversion Hu as [|? ? Ht Hu']; subst.
    apply AllG_cons_asg; [apply goodb_rr; assumption | apply (IH _ _ _ _ Hu' E)].
Qed.

Lemma rr_schedule_good c s ts s' ev :
  c_kind c = RR -> Inv s -> unnamed ts -> rr_schedule s ts = (s', ev) -> Inv s' /\ AllG c ev.
Proof.
  intros Hk [Hw He] Hu. unfold rr_schedule. destruct (s_pids s) as [|p0 pids].
  - intro H. injection H as <- <-. split; [|apply AllG_nil]. split; cbn [s_wait s_early]; [|exact He].
    apply Forall_app. split; assumption.
  - destruct (rr_loop (s_pilots s) (p0 :: pids) (s_idx s) ts) as [[i2 ok] ev2] eqn:E.
    intro H. injection H as <- <-. split; [split; assumption|].
    apply AllG_app; [apply (rr_loop_good c _ _ Hk _ _ _ _ _ Hu E) | apply AllG_adv].
Qed.

Definition elig_ok (c : cfg) (pl : list (Z * pil)) (elig : list Z) : Prop :=
  forall pid, In pid elig ->
    p_role (getp pid pl) = RAdded /\ in_window c (p_state (getp pid pl)) = true.

Lemma bf_loop_good c : forall wait elig pl pl' sc un ev,
  unnamed wait -> elig_ok c pl elig ->
  bf_loop wait elig pl = (pl', sc, un, ev) -> unnamed un /\ AllG c ev.
Proof.
  induction wait as [|t w IH]; intros elig pl pl' sc un ev Hu Hel H; simpl in H.
  - injection H as <- <- <- <-. split; [constructor|apply AllG_nil].
  - inversion Hu as [|? ? Ht Hu']; subst.
    destruct (find _ elig) as [pid|] eqn:Ef.
    + match type of H with context [bf_loop w ?e ?p] => destruct (bf_loop w e p) as [[[pl2 sc2] un2] ev2] eqn:E end.
      injection H as <- <- <- <-.
      apply find_some in Ef. destruct Ef as [Hin _].
      assert (Hel' : elig_ok c (add_used pid (t_uid t) (t_cores t) pl)
                (if hwm_of (getp pid (add_used pid (t_uid t) (t_cores t) pl)) <=?
                    used_of (getp pid (add_used pid (t_uid t) (t_cores t) pl))
                 then remove1 pid elig else elig)).
      { intros q Hq. destruct (add_used_role pid (t_uid t) (t_cores t) pl q) as [-> ->].
        apply Hel. destruct (_ <=? _); [exact (remove1_In _ _ _ Hq)|exact Hq]. }
      destruct (IH _ _ _ _ _ _ Hu' Hel' E) as [H1 H2]. split; [exact H1|].
      apply AllG_cons_asg; [|exact H2].
      destruct (add_used_role pid (t_uid t) (t_cores t) pl pid) as [Hr Hs].
      destruct (Hel pid Hin) as [Hr0 Hw0].
      apply goodb_sched; [exact Ht | rewrite Hr; exact Hr0 | rewrite Hs; exact Hw0].
    + destruct (bf_loop w elig pl) as [[[pl2 sc2] un2] ev2] eqn:E.
      injection H as <- <- <- <-. destruct (IH _ _ _ _ _ _ Hu' Hel E) as [H1 H2].
      split; [constructor; assumption|exact H2].
Qed.

Lemma bf_schedule_good c s s' ev :
  Inv s -> bf_schedule c s = (s', ev) -> Inv s' /\ AllG c ev.
Proof.
  intros [Hw He]. unfold bf_schedule. destruct (filter _ (s_pids s)) as [|e0 elig] eqn:Ef.
  - intro H. injection H as <- <-. split; [split; assumption|apply AllG_nil].
  - destruct (bf_loop (s_wait s) (e0 :: elig) (s_pilots s)) as [[[pl2 sc] un] ev2] eqn:E.
    intro H. injection H as <- <-.
    assert (Hel : elig_ok c (s_pilots s) (e0 :: elig)).
    { intros q Hq. rewrite <- Ef in Hq. apply filter_In in Hq. destruct Hq as [_ Hq].
      unfold eligible in Hq. apply andb_true_iff in Hq. destruct Hq as [Hq _].
      apply andb_true_iff in Hq. destruct Hq as [Hr Hwd]. split; [|exact Hwd].
      destruct (p_role (getp q (s_pilots s))); try discriminate; reflexivity. }
    destruct (bf_loop_good c _ _ _ _ _ _ _ Hw Hel E) as [H1 H2].
    split; [split; cbn [s_wait s_early]; assumption|].
    apply AllG_app; [exact H2|apply AllG_adv].
Qed.

Lemma Inv_with_pilots s pl : Inv s -> Inv (with_pilots s pl).
Proof. exact (fun H => H). Qed.

Lemma update_pilots_good c s upd s' ev :
  Inv s -> update_pilots c s upd = (s', ev) -> Inv s' /\ AllG c ev.
Proof.
  intro Hi. unfold update_pilots. destruct (c_kind c).
  - intro H. injection H as <- <-. split; [exact Hi|apply AllG_nil].
  - destruct (existsb _ upd); [apply bf_schedule_good; exact Hi|].
    intro H. injection H as <- <-. split; [exact Hi|apply AllG_nil].
Qed.

Lemma update_pilot_states_good c s ps s' ev e :
  Inv s -> update_pilot_states c s ps = (s', ev, e) -> Inv s' /\ AllG c ev.
Proof.
  intro Hi. unfold update_pilot_states. destruct ps as [|p ps].
  - intro H. injection H as <- <- <-. split; [exact Hi|apply AllG_nil].
  - destruct (ups_loop (p :: ps) (s_pilots s) []) as [[pl upd] e1]. destruct e1 as [x|].
    + intro H. injection H as <- <- <-. split; [exact Hi|apply AllG_nil].
    + destruct upd as [|u0 upd].
      * intro H. injection H as <- <- <-. split; [exact Hi|apply AllG_nil].
      * destruct (update_pilots c (with_pilots s pl) (u0 :: upd)) as [s2 ev2] eqn:E.
        intro H. injection H as <- <- <-.
        exact (update_pilots_good c _ _ _ _ (Inv_with_pilots s pl Hi) E).
Qed.

Lemma work_loop_good c pl : forall ts early e' bound tosched ev,
  namedE early -> work_loop pl ts early = (e', bound, tosched, ev) ->
  namedE e' /\ unnamed tosched /\ AllG c ev.
Proof.
  induction ts as [|t ts IH]; intros early e' bound tosched ev He H; simpl in H.
  - injection H as <- <- <- <-. split; [exact He|split; [constructor|apply AllG_nil]].
  - destruct (t_pilot t) as [pid|] eqn:Et.
    + destruct (has_dict pid pl).
      * destruct (work_loop pl ts early) as [[[e2 b2] t2] ev2] eqn:E.
        injection H as <- <- <- <-. destruct (IH _ _ _ _ _ He E) as [H1 [H2 H3]].
        split; [exact H1|split; [exact H2|]].
        apply AllG_cons_asg; [apply goodb_early; [discriminate|exact Et]|].
        apply AllG_cons_adv. exact H3.
      * apply (IH _ _ _ _ _ (namedE_eappend _ _ _ He Et) H).
    + destruct (work_loop pl ts early) as [[[e2 b2] t2] ev2] eqn:E.
      injection H as <- <- <- <-. destruct (IH _ _ _ _ _ He E) as [H1 [H2 H3]].
      split; [exact H1|split; [constructor; assumption|exact H3]].
Qed.

Lemma sub_work_good c s ts s' ev :
  Inv s -> unnamed ts -> sub_work c s ts = (s', ev) -> Inv s' /\ AllG c ev.
Proof.
  intros Hi Hu. unfold sub_work. destruct (c_kind c) eqn:Hk.
  - destruct ts as [|t ts].
    + intro H. injection H as <- <-. split; [exact Hi|apply AllG_nil].
    + apply rr_schedule_good; assumption.
  - apply bf_schedule_good. destruct Hi as [Hw He]. split; cbn [s_wait s_early]; [|exact He].
    apply Forall_app. split; assumption.
Qed.

Lemma work_good c s ts s' ev : Inv s -> work c s ts = (s', ev) -> Inv s' /\ AllG c ev.
Proof.
  intros [Hw He]. unfold work.
  destruct (work_loop (s_pilots s) ts (s_early s)) as [[[e2 b2] t2] ev2] eqn:E.
  match goal with |- context [sub_work c ?x t2] => destruct (sub_work c x t2) as [s2 ev3] eqn:E2 end.
  intro H. injection H as <- <-. destruct (work_loop_good c _ _ _ _ _ _ _ He E) as [H1 [H2 H3]].
  assert (Hi : Inv (mkSt (s_pilots s) e2 (s_pids s) (s_idx s) (s_wait s) (rev b2 ++ rev ts ++ s_tk s)))
    by (split; assumption).
  destruct (sub_work_good c _ _ _ _ Hi H2 E2) as [H4 H5]. split; [exact H4|].
  apply AllG_app; [apply AllG_adv|apply AllG_app; assumption].
Qed.

Lemma flush_tasks_good c pl pid : forall l b ev,
  Forall (fun t => t_pilot t = Some pid) l -> flush_tasks pl pid l = (b, ev) -> AllG c ev.
Proof.
  induction l as [|t l IH]; intros b ev Hl H; simpl in H.
  - injection H as <- <-. apply AllG_nil.
  - destruct (flush_tasks pl pid l) as [b2 ev2] eqn:E. injection H as <- <-.
    inversion Hl as [|? ? Ht Hl']; subst.
    apply AllG_cons_asg; [apply goodb_early; [discriminate|exact Ht]|exact (IH _ _ Hl' eq_refl)].
Qed.

Lemma flush_loop_good c pl : forall pids early e' b ev,
  namedE early -> flush_loop pl pids early = (e', b, ev) -> namedE e' /\ AllG c ev.
Proof.
  induction pids as [|pid pids IH]; intros early e' b ev He H; cbn [flush_loop] in H.
  - injection H as <- <- <-. split; [exact He|apply AllG_nil].
  - destruct (aget pid early) as [[|t l]|] eqn:Eg.
    + apply (IH _ _ _ _ (namedE_adel _ pid He) H).
    + destruct (flush_tasks pl pid (t :: l)) as [b1 ev1] eqn:E1.
      destruct (flush_loop pl pids (adel pid early)) as [[e2 b2] ev2] eqn:E2.
      injection H as <- <- <-.
      destruct (IH _ _ _ _ (namedE_adel _ pid He) E2) as [H1 H2]. split; [exact H1|].
      apply AllG_app; [exact (flush_tasks_good c _ _ _ _ _ (namedE_aget _ _ _ He Eg) E1)|].
      apply AllG_app; [apply AllG_adv|exact H2].
    + apply (IH _ _ _ _ He H).
Qed.

Lemma sub_add_good c s pids s' ev : Inv s -> sub_add c s pids = (s', ev) -> Inv s' /\ AllG c ev.
Proof.
  intros [Hw He]. unfold sub_add. destruct (c_kind c) eqn:Hk.
  - destruct (s_wait s) as [|t w] eqn:Ew.
    + intro H. injection H as <- <-. split; [|apply AllG_nil]. split; cbn [s_wait s_early]; [constructor|exact He].
    + apply rr_schedule_good; [exact Hk| |exact Hw]. split; cbn [s_wait s_early]; [constructor|exact He].
  - apply bf_schedule_good. split; assumption.
Qed.

Lemma do_add_good c s ps s' ev e : Inv s -> do_add c s ps = (s', ev, e) -> Inv s' /\ AllG c ev.
Proof.
  intro Hi. unfold do_add. destruct (add_loop ps (s_pilots s)) as [pl e1]. destruct e1 as [x|].
  - intro H. injection H as <- <- <-. split; [exact Hi|apply AllG_nil].
  - match goal with |- context [update_pilot_states c ?a ?b] =>
      destruct (update_pilot_states c a b) as [[s2 ev2] e2] eqn:E2 end.
    destruct (update_pilot_states_good c _ _ _ _ _ (Inv_with_pilots s pl Hi) E2) as [[Hw2 He2] Hg2].
    destruct e2 as [x|].
    + intro H. injection H as <- <- <-. split; [split|]; assumption.
    + match goal with |- context [flush_loop ?a ?b ?d] =>
        destruct (flush_loop a b d) as [[e' b'] ev3] eqn:E3 end.
      match goal with |- context [sub_add c ?a ?b] =>
        destruct (sub_add c a b) as [s4 ev4] eqn:E4 end.
      intro H. injection H as <- <- <-.
      destruct (flush_loop_good c _ _ _ _ _ _ He2 E3) as [H1 H2].
      assert (Hi3 : Inv (mkSt (s_pilots s2) e' (s_pids s2) (s_idx s2) (s_wait s2) (rev b' ++ s_tk s2)))
        by (split; assumption).
      destruct (sub_add_good c _ _ _ _ Hi3 E4) as [H3 H4]. split; [exact H3|].
      apply AllG_app; [exact Hg2|apply AllG_app; assumption].
Qed.

Lemma do_remove_good c s pids s' ev e : Inv s -> do_remove s pids = (s', ev, e) -> Inv s' /\ AllG c ev.
Proof.
  intro Hi. unfold do_remove. destruct (rem_loop pids (s_pilots s)) as [pl e1]. destruct e1 as [x|].
  - intro H. injection H as <- <- <-. split; [exact Hi|apply AllG_nil].
  - destruct (sub_rem_loop pids (s_pids (with_pilots s pl))) as [cur e2].
    intro H. injection H as <- <- <-. split; [exact Hi|apply AllG_nil].
Qed.

Lemma update_tasks_good c s ns s' ev e :
  Inv s -> update_tasks c s ns = (s', ev, e) -> Inv s' /\ AllG c ev.
Proof.
  intro Hi. unfold update_tasks. destruct (c_kind c).
  - intro H. injection H as <- <- <-. split; [exact Hi|apply AllG_nil].
  - destruct (ut_loop ns (s_pilots s) false) as [[pl rs] e1]. destruct e1 as [x|].
    + intro H. injection H as <- <- <-. split; [exact Hi|apply AllG_nil].
    + destruct rs.
      * destruct (bf_schedule c (with_pilots s pl)) as [s2 ev2] eqn:E.
        intro H. injection H as <- <- <-. exact (bf_schedule_good c _ _ _ (Inv_with_pilots s pl Hi) E).
      * intro H. injection H as <- <- <-. split; [exact Hi|apply AllG_nil].
Qed.

Lemma step_good c s o s' ev e : Inv s -> step c s o = (s', ev, e) -> Inv s' /\ AllG c ev.
Proof.
  intro Hi. destruct o as [ts|t ps|t pids|ps|ns|]; cbn [step].
  - destruct (work c s ts) as [s2 ev2] eqn:E. intro H. injection H as <- <- <-.
    exact (work_good c _ _ _ _ Hi E).
  - destruct t; try (apply do_add_good; exact Hi); intro H; injection H as <- <- <-;
      (split; [exact Hi|apply AllG_nil]).
  - destruct t; try (apply do_remove_good; exact Hi); intro H; injection H as <- <- <-;
      (split; [exact Hi|apply AllG_nil]).
  - apply update_pilot_states_good; exact Hi.
  - destruct (update_tasks c s (map (resolve (s_tk s)) ns)) as [[s2 ev2] e2] eqn:E.
    intro H. injection H as <- <- <-. exact (update_tasks_good c _ _ _ _ _ Hi E).
  - intro H. injection H as <- <- <-. split; [exact Hi|apply AllG_nil].
Qed.

Lemma run_good c : forall ops s s' ev, Inv s -> run_st c s ops = (s', ev) -> Inv s' /\ AllG c ev.
Proof.
  induction ops as [|o ops IH]; intros s s' ev Hi H; simpl in H.
  - injection H as <- <-. split; [exact Hi|apply AllG_nil].
  - destruct (step c s o) as [[s1 ev1] e1] eqn:E1.
    destruct (run_st c s1 ops) as [s2 ev2] eqn:E2. injection H as <- <-.
    destruct (step_good c _ _ _ _ _ Hi E1) as [Hi1 Hg1].
    destruct (IH _ _ _ Hi1 E2) as [Hi2 Hg2]. split; [exact Hi2|apply AllG_app; assumption].
Qed.

Lemma Inv0 : Inv st0.
Proof. split; constructor. Qed.

Lemma all_good c ops : forallb (goodb c) (asgs_of (events_of (run c st0 ops))) = true.
Proof.
  rewrite events_of_run. destruct (run_st c st0 ops) as [s' ev] eqn:E.
  exact (proj2 (run_good c _ _ _ _ Inv0 E)).
Qed.

(* a task that names a pilot is bound to it; a bound task is never re-bound *)
Lemma named_goes_to_named c ops :
  forallb named_asg (asgs_of (events_of (run c st0 ops))) = true.
Proof.
  pose proof (all_good c ops) as H. rewrite forallb_forall in *. intros a Ha.
  specialize (H a Ha). unfold goodb in H. apply andb_true_iff in H. destruct H as [H _].
  apply andb_true_iff in H. tauto.
Qed.

(* backfilling: every placement by the algorithm goes to a pilot whose role
   is ADDED and whose state lies in [BF_START, BF_STOP] at that moment *)
Lemma bf_window_added c ops :
  c_kind c = BF ->
  forallb (fun a => window_asg c a && added_asg a) (asgs_of (events_of (run c st0 ops))) = true.
Proof.
  intro Hk. pose proof (all_good c ops) as H. rewrite forallb_forall in *. intros a Ha.
  specialize (H a Ha). unfold goodb in H. rewrite Hk in H.
  apply andb_true_iff in H. destruct H as [Hn H]. apply andb_true_iff in H. destruct H as [Hw Hr].
  apply andb_true_iff in Hn. destruct Hn as [_ Hs].
  rewrite Hw. cbn [andb]. unfold added_asg.
  destruct (sched_asg a); cbn [negb orb] in *.
  - rewrite Hr. apply orb_true_r.
  - destruct (a_prev a); [reflexivity|discriminate].
Qed.
