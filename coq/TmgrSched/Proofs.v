(* C12: lemmas and invariants about TmgrSched.Model (unbounded: induction over
   message histories and over the loops of the schedulers). *)
From Coq Require Import ZArith List Bool Lia.
From RP Require Import Gen.StatesTables States.Model States.Inst TmgrSched.Model TmgrSched.Oracle.
Import ListNotations.
Open Scope Z_scope.

(* ------------------------------------------------------------------ basics *)
Definition uids (l : list task) : list Z := map t_uid l.
Definition cnt (u : Z) (l : list task) : Z := countz u (uids l).
Fixpoint ecnt (u : Z) (e : list (Z * list task)) : Z :=
  match e with [] => 0 | (_, l) :: r => cnt u l + ecnt u r end.
(* tasks the scheduler holds back: the wait pool and the early-bound lists *)
Definition waiting (s : st) : list Z :=
  uids (s_wait s) ++ concat (map (fun e => uids (snd e)) (s_early s)).
Definition pcnt (u : Z) (s : st) : Z := cnt u (s_wait s) + ecnt u (s_early s).
Definition fwd_uids (ev : list event) : list Z := map fst (fwd_of ev).
Definition fcnt (u : Z) (ev : list event) : Z := countz u (fwd_uids ev).

Lemma countz_app u a b : countz u (a ++ b) = countz u a + countz u b.
Proof. induction a as [|x a IH]; simpl; [reflexivity | rewrite IH; lia]. Qed.

Lemma countz_nonneg u l : 0 <= countz u l.
Proof. induction l as [|x l IH]; simpl; [lia | destruct (x =? u); lia]. Qed.

Lemma cnt_app u a b : cnt u (a ++ b) = cnt u a + cnt u b.
Proof. unfold cnt, uids. rewrite map_app. apply countz_app. Qed.

Lemma cnt_cons u t l : cnt u (t :: l) = (if t_uid t =? u then 1 else 0) + cnt u l.
Proof. reflexivity. Qed.

Lemma cnt_nil u : cnt u [] = 0.
Proof. reflexivity. Qed.

Lemma waiting_count u s : countz u (waiting s) = pcnt u s.
Proof.
  unfold waiting, pcnt. rewrite countz_app. f_equal.
  induction (s_early s) as [|[k l] e IH]; simpl; [reflexivity|].
  rewrite countz_app, IH. reflexivity.
Qed.

Lemma fwd_of_app a b : fwd_of (a ++ b) = fwd_of a ++ fwd_of b.
Proof.
  induction a as [|x a IH]; simpl; [reflexivity|].
  destruct x as [k l| |]; try exact IH. destruct k; try exact IH.
  rewrite IH, app_assoc. reflexivity.
Qed.

Lemma fcnt_app u a b : fcnt u (a ++ b) = fcnt u a + fcnt u b.
Proof. unfold fcnt, fwd_uids. rewrite fwd_of_app, map_app. apply countz_app. Qed.

Lemma fcnt_nil u : fcnt u [] = 0.
Proof. reflexivity. Qed.

Lemma fcnt_asg u a ev : fcnt u (EAsg a :: ev) = fcnt u ev.
Proof. reflexivity. Qed.

Lemma fcnt_adv_fwd u l : fcnt u (adv AForward l) = cnt u l.
Proof.
  unfold fcnt, fwd_uids, adv, cnt, uids. destruct l as [|t l]; [reflexivity|].
  cbn [fwd_of]. rewrite app_nil_r, map_map. reflexivity.
Qed.

Lemma fcnt_adv_sched u l : fcnt u (adv AScheduling l) = 0.
Proof. unfold adv. destruct l; reflexivity. Qed.

Lemma fcnt_fwd1 u x p ev : fcnt u (EAdv AForward [(x, p)] :: ev) = (if x =? u then 1 else 0) + fcnt u ev.
Proof. reflexivity. Qed.

Lemma cnt_bind u t pid : (if t_uid (bind t pid) =? u then 1 else 0) = (if t_uid t =? u then 1 else 0).
Proof. reflexivity. Qed.

(* ------------------------------------------------------------------ dicts *)
Lemma ecnt_aset_some u k l l' e :
  aget k e = Some l -> ecnt u (aset k l' e) = ecnt u e - cnt u l + cnt u l'.
Proof.
  induction e as [|[k' v] e IH]; simpl; [discriminate|].
  destruct (k' =? k) eqn:E; intro H.
  - injection H as ->. simpl. lia.
  - simpl. rewrite (IH H). lia.
Qed.

Lemma ecnt_aset_none u k l' e :
  aget k e = None -> ecnt u (aset k l' e) = ecnt u e + cnt u l'.
Proof.
  induction e as [|[k' v] e IH]; simpl; [intros _; lia|].
  destruct (k' =? k) eqn:E; intro H; [discriminate|].
  simpl. rewrite (IH H). lia.
Qed.

Lemma ecnt_adel u k l e :
  aget k e = Some l -> ecnt u (adel k e) = ecnt u e - cnt u l.
Proof.
  induction e as [|[k' v] e IH]; simpl; [discriminate|].
  destruct (k' =? k) eqn:E; intro H.
  - injection H as ->. lia.
  - simpl. rewrite (IH H). lia.
Qed.

Lemma ecnt_eappend u pid t e :
  ecnt u (eappend pid t e) = ecnt u e + (if t_uid t =? u then 1 else 0).
Proof.
  unfold eappend. destruct (aget pid e) as [l|] eqn:E.
  - rewrite (ecnt_aset_some u pid l _ e E), cnt_app, cnt_cons, cnt_nil. lia.
  - rewrite (ecnt_aset_none u pid _ e E), cnt_cons, cnt_nil. lia.
Qed.

(* ------------------------------------------------------------------ loops *)
Lemma rr_loop_cons u pl pids : forall ts idx idx' ok ev,
  rr_loop pl pids idx ts = (idx', ok, ev) -> cnt u ok = cnt u ts /\ fcnt u ev = 0.
Proof.
  induction ts as [|t ts IH]; intros idx idx' ok ev H; simpl in H.
  - injection H as <- <- <-. split; reflexivity.
  - destruct (rr_loop pl pids ((if Z.of_nat (length pids) <=? idx then 0 else idx) + 1) ts)
      as [[i2 ok2] ev2] eqn:E.
    injection H as <- <- <-. destruct (IH _ _ _ _ E) as [H1 H2].
    rewrite !cnt_cons, fcnt_asg, H1, H2. split; reflexivity.
Qed.

Lemma rr_schedule_cons u s ts s' ev :
  rr_schedule s ts = (s', ev) ->
  pcnt u s' + fcnt u ev = pcnt u s + cnt u ts.
Proof.
  unfold rr_schedule. destruct (s_pids s) as [|p0 pids] eqn:Ep.
  - intro H. injection H as <- <-. unfold pcnt. cbn [s_wait s_early]. rewrite cnt_app, fcnt_nil. lia.
  - destruct (rr_loop (s_pilots s) (p0 :: pids) (s_idx s) ts) as [[i2 ok] ev2] eqn:E.
    intro H. injection H as <- <-. destruct (rr_loop_cons u _ _ _ _ _ _ _ E) as [H1 H2].
    unfold pcnt. cbn [s_wait s_early]. rewrite fcnt_app, fcnt_adv_fwd, H1, H2. lia.
Qed.

Lemma bf_loop_cons u : forall wait elig pl pl' sc un ev,
  bf_loop wait elig pl = (pl', sc, un, ev) ->
  cnt u sc + cnt u un = cnt u wait /\ fcnt u ev = 0.
Proof.
  induction wait as [|t w IH]; intros elig pl pl' sc un ev H; simpl in H.
  - injection H as <- <- <- <-. split; reflexivity.
  - destruct (find _ elig) as [pid|].
    + match type of H with context [bf_loop w ?e ?p] => destruct (bf_loop w e p) as [[[pl2 sc2] un2] ev2] eqn:E end.
      injection H as <- <- <- <-. destruct (IH _ _ _ _ _ _ E) as [H1 H2].
      rewrite !cnt_cons, fcnt_asg. cbn [bind t_uid]. split; lia.
    + destruct (bf_loop w elig pl) as [[[pl2 sc2] un2] ev2] eqn:E.
      injection H as <- <- <- <-. destruct (IH _ _ _ _ _ _ E) as [H1 H2].
      rewrite !cnt_cons. split; lia.
Qed.

Lemma bf_schedule_cons u c s s' ev :
  bf_schedule c s = (s', ev) -> pcnt u s' + fcnt u ev = pcnt u s.
Proof.
  unfold bf_schedule. destruct (filter _ (s_pids s)) as [|e0 elig].
  - intro H. injection H as <- <-. rewrite fcnt_nil. lia.
  - destruct (bf_loop (s_wait s) (e0 :: elig) (s_pilots s)) as [[[pl2 sc] un] ev2] eqn:E.
    intro H. injection H as <- <-. destruct (bf_loop_cons u _ _ _ _ _ _ _ E) as [H1 H2].
    unfold pcnt. cbn [s_wait s_early]. rewrite fcnt_app, fcnt_adv_fwd, H2. lia.
Qed.

Lemma update_pilots_cons u c s upd s' ev :
  update_pilots c s upd = (s', ev) -> pcnt u s' + fcnt u ev = pcnt u s.
Proof.
  unfold update_pilots. destruct (c_kind c).
  - intro H. injection H as <- <-. rewrite fcnt_nil. lia.
  - destruct (existsb _ upd).
    + apply bf_schedule_cons.
    + intro H. injection H as <- <-. rewrite fcnt_nil. lia.
Qed.

Lemma pcnt_with_pilots u s pl : pcnt u (with_pilots s pl) = pcnt u s.
Proof. reflexivity. Qed.

Lemma update_pilot_states_cons u c s ps s' ev e :
  update_pilot_states c s ps = (s', ev, e) -> pcnt u s' + fcnt u ev = pcnt u s.
Proof.
  unfold update_pilot_states. destruct ps as [|p ps].
  - intro H. injection H as <- <- <-. rewrite fcnt_nil. lia.
  - destruct (ups_loop (p :: ps) (s_pilots s) []) as [[pl upd] e1].
    destruct e1 as [x|].
    + intro H. injection H as <- <- <-. rewrite fcnt_nil, pcnt_with_pilots. lia.
    + destruct upd as [|u0 upd].
      * intro H. injection H as <- <- <-. rewrite fcnt_nil, pcnt_with_pilots. lia.
      * destruct (update_pilots c (with_pilots s pl) (u0 :: upd)) as [s2 ev2] eqn:E.
        intro H. injection H as <- <- <-.
        pose proof (update_pilots_cons u _ _ _ _ _ E) as H1. rewrite pcnt_with_pilots in H1. exact H1.
Qed.

Lemma work_loop_cons u pl : forall ts early e' bound tosched ev,
  work_loop pl ts early = (e', bound, tosched, ev) ->
  ecnt u e' + cnt u bound + cnt u tosched = ecnt u early + cnt u ts /\ fcnt u ev = cnt u bound.
Proof.
  induction ts as [|t ts IH]; intros early e' bound tosched ev H; simpl in H.
  - injection H as <- <- <- <-. rewrite !cnt_nil, fcnt_nil. split; lia.
  - destruct (t_pilot t) as [pid|].
    + destruct (has_dict pid pl).
      * destruct (work_loop pl ts early) as [[[e2 b2] t2] ev2] eqn:E.
        injection H as <- <- <- <-. destruct (IH _ _ _ _ _ E) as [H1 H2].
        rewrite fcnt_asg, fcnt_fwd1, !cnt_cons. cbn [bind t_uid]. split; lia.
      * destruct (IH _ _ _ _ _ H) as [H1 H2]. rewrite ecnt_eappend in H1.
        rewrite cnt_cons. split; lia.
    + destruct (work_loop pl ts early) as [[[e2 b2] t2] ev2] eqn:E.
      injection H as <- <- <- <-. destruct (IH _ _ _ _ _ E) as [H1 H2].
      rewrite !cnt_cons. split; lia.
Qed.

Lemma sub_work_cons u c s ts s' ev :
  sub_work c s ts = (s', ev) -> pcnt u s' + fcnt u ev = pcnt u s + cnt u ts.
Proof.
  unfold sub_work. destruct (c_kind c).
  - destruct ts as [|t ts].
    + intro H. injection H as <- <-. rewrite fcnt_nil, cnt_nil. lia.
    + apply rr_schedule_cons.
  - intro H. apply (bf_schedule_cons u) in H. rewrite H. unfold pcnt. cbn [s_wait s_early].
    rewrite cnt_app. lia.
Qed.

Lemma work_cons u c s ts s' ev :
  work c s ts = (s', ev) -> pcnt u s' + fcnt u ev = pcnt u s + cnt u ts.
Proof.
  unfold work. destruct (work_loop (s_pilots s) ts (s_early s)) as [[[e2 b2] t2] ev2] eqn:E.
  match goal with |- context [sub_work c ?x t2] => destruct (sub_work c x t2) as [s2 ev3] eqn:E2 end.
  intro H. injection H as <- <-. destruct (work_loop_cons u _ _ _ _ _ _ _ E) as [H1 H2].
  apply (sub_work_cons u) in E2. unfold pcnt in E2 at 2. cbn [s_wait s_early] in E2.
  rewrite !fcnt_app, fcnt_adv_sched, H2. unfold pcnt at 2. lia.
Qed.

Lemma flush_tasks_cons u pl pid : forall l b ev,
  flush_tasks pl pid l = (b, ev) -> cnt u b = cnt u l /\ fcnt u ev = 0.
Proof.
  induction l as [|t l IH]; intros b ev H; simpl in H.
  - injection H as <- <-. split; reflexivity.
  - destruct (flush_tasks pl pid l) as [b2 ev2] eqn:E. injection H as <- <-.
    destruct (IH _ _ eq_refl) as [H1 H2]. rewrite !cnt_cons, fcnt_asg. cbn [bind t_uid]. split; lia.
Qed.

Lemma flush_loop_cons u pl : forall pids early e' b ev,
  flush_loop pl pids early = (e', b, ev) ->
  ecnt u e' + cnt u b = ecnt u early /\ fcnt u ev = cnt u b.
Proof.
  induction pids as [|pid pids IH]; intros early e' b ev H; cbn [flush_loop] in H.
  - injection H as <- <- <-. rewrite cnt_nil, fcnt_nil. split; lia.
  - destruct (aget pid early) as [[|t l]|] eqn:Eg.
    + destruct (IH _ _ _ _ H) as [H1 H2]. rewrite (ecnt_adel u _ _ _ Eg), cnt_nil in H1. split; lia.
    + destruct (flush_tasks pl pid (t :: l)) as [b1 ev1] eqn:E1.
      destruct (flush_loop pl pids (adel pid early)) as [[e2 b2] ev2] eqn:E2.
      injection H as <- <- <-. destruct (flush_tasks_cons u _ _ _ _ _ E1) as [H1 H2].
      destruct (IH _ _ _ _ E2) as [H3 H4]. rewrite (ecnt_adel u _ _ _ Eg) in H3.
      rewrite !fcnt_app, fcnt_adv_fwd, cnt_app, H2, H4. split; lia.
    + apply (IH _ _ _ _ H).
Qed.

Lemma sub_add_cons u c s pids s' ev :
  sub_add c s pids = (s', ev) -> pcnt u s' + fcnt u ev = pcnt u s.
Proof.
  unfold sub_add. destruct (c_kind c).
  - destruct (s_wait s) as [|t w] eqn:Ew.
    + intro H. injection H as <- <-. unfold pcnt. cbn [s_wait s_early]. rewrite Ew, fcnt_nil. lia.
    + intro H. apply (rr_schedule_cons u) in H. rewrite H. unfold pcnt. cbn [s_wait s_early].
      rewrite Ew, cnt_nil. lia.
  - intro H. apply (bf_schedule_cons u) in H. rewrite H. reflexivity.
Qed.

Lemma do_add_cons u c s ps s' ev e :
  do_add c s ps = (s', ev, e) -> pcnt u s' + fcnt u ev = pcnt u s.
Proof.
  unfold do_add. destruct (add_loop ps (s_pilots s)) as [pl e1].
  destruct e1 as [x|].
  - intro H. injection H as <- <- <-. rewrite fcnt_nil, pcnt_with_pilots. lia.
  - match goal with |- context [update_pilot_states c ?a ?b] =>
      destruct (update_pilot_states c a b) as [[s2 ev2] e2] eqn:E2 end.
    apply (update_pilot_states_cons u) in E2. rewrite pcnt_with_pilots in E2.
    destruct e2 as [x|].
    + intro H. injection H as <- <- <-. exact E2.
    + match goal with |- context [flush_loop ?a ?b ?d] =>
        destruct (flush_loop a b d) as [[e' b'] ev3] eqn:E3 end.
      match goal with |- context [sub_add c ?a ?b] =>
        destruct (sub_add c a b) as [s4 ev4] eqn:E4 end.
      intro H. injection H as <- <- <-.
      destruct (flush_loop_cons u _ _ _ _ _ _ E3) as [H1 H2].
      apply (sub_add_cons u) in E4. unfold pcnt in E4 at 2. cbn [s_wait s_early] in E4.
      rewrite !fcnt_app, H2. unfold pcnt in E2 at 1. lia.
Qed.

Lemma do_remove_cons u s pids s' ev e :
  do_remove s pids = (s', ev, e) -> pcnt u s' + fcnt u ev = pcnt u s.
Proof.
  unfold do_remove. destruct (rem_loop pids (s_pilots s)) as [pl e1]. destruct e1 as [x|].
  - intro H. injection H as <- <- <-. rewrite fcnt_nil, pcnt_with_pilots. lia.
  - destruct (sub_rem_loop pids (s_pids (with_pilots s pl))) as [cur e2].
    intro H. injection H as <- <- <-. rewrite fcnt_nil. unfold pcnt. cbn [s_wait s_early with_pilots]. lia.
Qed.

Lemma update_tasks_cons u c s ns s' ev e :
  update_tasks c s ns = (s', ev, e) -> pcnt u s' + fcnt u ev = pcnt u s.
Proof.
  unfold update_tasks. destruct (c_kind c).
  - intro H. injection H as <- <- <-. rewrite fcnt_nil. lia.
  - destruct (ut_loop ns (s_pilots s) false) as [[pl rs] e1]. destruct e1 as [x|].
    + intro H. injection H as <- <- <-. rewrite fcnt_nil, pcnt_with_pilots. lia.
    + destruct rs.
      * destruct (bf_schedule c (with_pilots s pl)) as [s2 ev2] eqn:E.
        intro H. injection H as <- <- <-. apply (bf_schedule_cons u) in E.
        rewrite pcnt_with_pilots in E. exact E.
      * intro H. injection H as <- <- <-. rewrite fcnt_nil, pcnt_with_pilots. lia.
Qed.

Definition op_tasks (o : op) : list task := match o with OSubmit ts => ts | _ => [] end.

Lemma step_cons u c s o s' ev e :
  step c s o = (s', ev, e) -> pcnt u s' + fcnt u ev = pcnt u s + cnt u (op_tasks o).
Proof.
  destruct o as [ts|t ps|t pids|ps|ns|]; cbn [step op_tasks]; rewrite ?cnt_nil, ?Z.add_0_r.
  - destruct (work c s ts) as [s2 ev2] eqn:E. intro H. injection H as <- <- <-.
    apply (work_cons u _ _ _ _ _ E).
  - destruct t; try apply do_add_cons; intro H; injection H as <- <- <-; rewrite fcnt_nil; lia.
  - destruct t; try apply do_remove_cons; intro H; injection H as <- <- <-; rewrite fcnt_nil; lia.
  - apply update_pilot_states_cons.
  - destruct (update_tasks c s (map (resolve (s_tk s)) ns)) as [[s2 ev2] e2] eqn:E.
    intro H. injection H as <- <- <-. apply (update_tasks_cons u) in E.
    unfold fcnt, fwd_uids in *. cbn [fwd_of]. exact E.
  - intro H. injection H as <- <- <-. rewrite fcnt_nil. lia.
Qed.

Lemma submitted_cons u o ops : cnt u (submitted (o :: ops)) = cnt u (op_tasks o) + cnt u (submitted ops).
Proof. destruct o; cbn [submitted op_tasks]; rewrite ?cnt_app, ?cnt_nil; lia. Qed.

(* conservation: along any history, every submitted task is either still
   held back by the scheduler or has been handed on -- with multiplicity *)
Lemma run_conservation u c : forall ops s s' ev,
  run_st c s ops = (s', ev) ->
  pcnt u s' + fcnt u ev = pcnt u s + cnt u (submitted ops).
Proof.
  induction ops as [|o ops IH]; intros s s' ev H; simpl in H.
  - injection H as <- <-. rewrite fcnt_nil. cbn [submitted]. rewrite cnt_nil. lia.
  - destruct (step c s o) as [[s1 ev1] e1] eqn:E1.
    destruct (run_st c s1 ops) as [s2 ev2] eqn:E2.
    injection H as <- <-. apply (step_cons u) in E1. apply IH in E2.
    rewrite fcnt_app, submitted_cons. lia.
Qed.

Lemma pcnt_nonneg u s : 0 <= pcnt u s.
Proof.
  unfold pcnt. pose proof (countz_nonneg u (uids (s_wait s))). unfold cnt.
  assert (0 <= ecnt u (s_early s)).
  { induction (s_early s) as [|[k l] e IH]; simpl; [lia|].
    pose proof (countz_nonneg u (uids l)). unfold cnt. lia. }
  lia.
Qed.

Lemma countz_notin u l : ~ In u l -> countz u l = 0.
Proof.
  induction l as [|x l IH]; simpl; [reflexivity|]. intro H.
  destruct (x =? u) eqn:E; [apply Z.eqb_eq in E; tauto|]. rewrite IH; tauto.
Qed.

Lemma countz_in u l : In u l -> 1 <= countz u l.
Proof.
  induction l as [|x l IH]; simpl; [tauto|]. intros [->|H].
  - rewrite Z.eqb_refl. pose proof (countz_nonneg u l). lia.
  - specialize (IH H). destruct (x =? u); lia.
Qed.

Lemma NoDup_countz l : NoDup l -> forall u, countz u l <= 1.
Proof.
  induction 1 as [|x l Hx Hl IH]; intro u; simpl; [lia|].
  destruct (x =? u) eqn:E.
  - apply Z.eqb_eq in E. subst. rewrite (countz_notin _ _ Hx). lia.
  - specialize (IH u). lia.
Qed.

Lemma countz_NoDup l : (forall u, countz u l <= 1) -> NoDup l.
Proof.
  induction l as [|x l IH]; intro H; constructor.
  - intro Hin. specialize (H x). simpl in H. rewrite Z.eqb_refl in H.
    pose proof (countz_in _ _ Hin). lia.
  - apply IH. intro u. specialize (H u). simpl in H. destruct (x =? u); lia.
Qed.

Lemma events_of_run c : forall ops s, events_of (run c s ops) = snd (run_st c s ops).
Proof.
  induction ops as [|o ops IH]; intro s; simpl; [reflexivity|].
  destruct (step c s o) as [[s1 ev1] e1]. unfold events_of in *. cbn [map concat fst snd].
  rewrite IH. destruct (run_st c s1 ops). reflexivity.
Qed.

Lemma bound_once c ops :
  NoDup (uids (submitted ops)) -> NoDup (fwd_uids (events_of (run c st0 ops))).
Proof.
  intro Hn. apply countz_NoDup. intro u. rewrite events_of_run.
  destruct (run_st c st0 ops) as [s' ev] eqn:E. cbn [snd].
  pose proof (run_conservation u c ops st0 s' ev E) as H.
  pose proof (pcnt_nonneg u s'). pose proof (NoDup_countz _ Hn u).
  unfold fcnt, cnt in *. change (pcnt u st0) with 0 in H. lia.
Qed.

Lemma conservation c ops u :
  countz u (uids (submitted ops)) =
  countz u (waiting (fst (run_st c st0 ops))) + countz u (fwd_uids (snd (run_st c st0 ops))).
Proof.
  destruct (run_st c st0 ops) as [s' ev] eqn:E. cbn [fst snd].
  pose proof (run_conservation u c ops st0 s' ev E) as H.
  rewrite waiting_count. unfold fcnt, cnt in *. change (pcnt u st0) with 0 in H. lia.
Qed.
