(* Lemmas about Staging.Model: short-form expansion, URL resolution, the file
   operations (post-condition + frame), directive lists (induction), the
   skip-on-failure rule and the per-task failure handling of the stagers. *)
From Coq Require Import ZArith List Bool String Ascii Lia Permutation.
From RP Require Import Common.Eqb Staging.Model.
Import ListNotations.
Open Scope string_scope.
Open Scope list_scope.

(* ------------------------------------------------------------------ strings *)

Fixpoint nochar (c : ascii) (s : string) : bool :=
  match s with
  | EmptyString => true
  | String x s' => negb (Ascii.eqb c x) && nochar c s'
  end.

Lemma nochar_app c a b : nochar c (a +++ b) = nochar c a && nochar c b.
Proof. induction a as [|x a IH]; simpl; [reflexivity|]. rewrite IH, andb_assoc. reflexivity. Qed.

Lemma pre_app s b : pre s (s +++ b) = true.
Proof. induction s as [|x s IH]; simpl; [reflexivity|]. rewrite Ascii.eqb_refl. exact IH. Qed.

Lemma drop_app s b : drop (String.length s) (s +++ b) = b.
Proof. induction s as [|x s IH]; simpl; [reflexivity|exact IH]. Qed.

Lemma app_assoc_s a b c : (a +++ b) +++ c = a +++ (b +++ c).
Proof. induction a as [|x a IH]; simpl; [reflexivity|]. rewrite IH. reflexivity. Qed.

Lemma split_at_eq sep s :
  split_at sep s =
  if pre sep s then Some (EmptyString, drop (String.length sep) s)
  else match s with
       | EmptyString => None
       | String c s' => match split_at sep s' with Some (a, b) => Some (String c a, b) | None => None end
       end.
Proof. destruct s; reflexivity. Qed.

(* a separator starting with c is not found in a string without c *)
Lemma split_at_nochar c sep s : nochar c s = true -> split_at (String c sep) s = None.
Proof.
  induction s as [|x s IH]; intro H; simpl in *.
  - reflexivity.
  - apply andb_true_iff in H as [H1 H2]. apply negb_true_iff in H1. rewrite H1. simpl.
    rewrite (IH H2). reflexivity.
Qed.

(* ... and the first occurrence after a c-free prefix is the split point *)
Lemma split_at_app c sep a b :
  nochar c a = true -> split_at (String c sep) (a +++ String c sep +++ b) = Some (a, b).
Proof.
  induction a as [|x a IH]; intro H.
  - change (EmptyString +++ String c sep +++ b) with (String c sep +++ b).
    rewrite split_at_eq. rewrite pre_app. rewrite drop_app. reflexivity.
  - simpl in H. apply andb_true_iff in H as [H1 H2]. apply negb_true_iff in H1.
    change (String x a +++ String c sep +++ b) with (String x (a +++ String c sep +++ b)).
    rewrite split_at_eq.
    replace (pre (String c sep) (String x (a +++ String c sep +++ b))) with false
      by (simpl; rewrite H1; reflexivity).
    rewrite (IH H2). reflexivity.
Qed.

(* a doubled separator is not found when c occurs only once *)
Lemma split_at_double_none c a b :
  nochar c a = true -> nochar c b = true ->
  split_at (String c (String c EmptyString)) (a +++ String c EmptyString +++ b) = None.
Proof.
  intros Ha Hb. induction a as [|x a IH].
  - change (EmptyString +++ String c EmptyString +++ b) with (String c b).
    rewrite split_at_eq.
    replace (pre (String c (String c EmptyString)) (String c b)) with false.
    + rewrite (split_at_nochar c _ b Hb). reflexivity.
    + simpl. rewrite Ascii.eqb_refl. destruct b as [|y b]; [reflexivity|].
      simpl in Hb. apply andb_true_iff in Hb as [Hb1 _]. apply negb_true_iff in Hb1.
      simpl. rewrite Hb1. reflexivity.
  - simpl in Ha. apply andb_true_iff in Ha as [H1 H2]. apply negb_true_iff in H1.
    change (String x a +++ String c EmptyString +++ b) with (String x (a +++ String c EmptyString +++ b)).
    rewrite split_at_eq.
    replace (pre (String c (String c EmptyString)) (String x (a +++ String c EmptyString +++ b))) with false
      by (simpl; rewrite H1; reflexivity).
    rewrite (IH H2). reflexivity.
Qed.

Notation gt := (">"%char).
Notation lt := ("<"%char).
Definition plain (s : string) : bool := nochar gt s && nochar lt s.

Lemma contains_nochar c sep s : nochar c s = true -> contains (String c sep) s = false.
Proof. intro H. unfold contains. rewrite (split_at_nochar _ _ _ H). reflexivity. Qed.

Lemma py_split2_app c sep a b :
  nochar c a = true -> nochar c b = true ->
  py_split2 (String c sep) (a +++ String c sep +++ b) = inr (a, b).
Proof.
  intros Ha Hb. unfold py_split2. rewrite (split_at_app _ _ _ _ Ha).
  rewrite (contains_nochar _ _ _ Hb). reflexivity.
Qed.

Lemma contains_app c sep a b :
  nochar c a = true -> contains (String c sep) (a +++ String c sep +++ b) = true.
Proof. intro Ha. unfold contains. rewrite (split_at_app _ _ _ _ Ha). reflexivity. Qed.

Ltac plain_split H :=
  unfold plain in H; apply andb_true_iff in H; destruct H.

(* meaning of the four short forms *)
Lemma short_gtgt a b : plain a = true -> plain b = true ->
  expand1 (SStr (a +++ ">>" +++ b)) = inr {| s_src := strip a; s_tgt := strip b; s_act := Transfer |}.
Proof.
  intros Ha Hb. plain_split Ha. plain_split Hb. unfold expand1.
  rewrite (contains_app gt ">" a b) by assumption.
  rewrite (py_split2_app gt ">" a b) by assumption. reflexivity.
Qed.

Lemma short_gt a b : plain a = true -> plain b = true ->
  expand1 (SStr (a +++ ">" +++ b)) = inr {| s_src := strip a; s_tgt := strip b; s_act := Transfer |}.
Proof.
  intros Ha Hb. plain_split Ha. plain_split Hb. unfold expand1.
  replace (contains ">>" (a +++ ">" +++ b)) with false
    by (unfold contains; rewrite (split_at_double_none gt a b) by assumption; reflexivity).
  rewrite (contains_app gt "" a b) by assumption.
  rewrite (py_split2_app gt "" a b) by assumption. reflexivity.
Qed.

Lemma nochar_mid c d a b : Ascii.eqb c d = false ->
  nochar c a = true -> nochar c b = true -> forall sep, nochar c sep = true ->
  nochar c (a +++ sep +++ b) = true.
Proof. intros _ Ha Hb sep Hs. rewrite !nochar_app, Ha, Hs, Hb. reflexivity. Qed.

Lemma short_ltlt a b : plain a = true -> plain b = true ->
  expand1 (SStr (b +++ "<<" +++ a)) = inr {| s_src := strip a; s_tgt := strip b; s_act := Transfer |}.
Proof.
  intros Ha Hb. plain_split Ha. plain_split Hb. unfold expand1.
  assert (Hn : nochar gt (b +++ "<<" +++ a) = true) by (rewrite !nochar_app; simpl; rewrite H1, H; reflexivity).
  rewrite (contains_nochar gt ">" _ Hn). rewrite (contains_nochar gt "" _ Hn).
  rewrite (contains_app lt "<" b a) by assumption.
  rewrite (py_split2_app lt "<" b a) by assumption. reflexivity.
Qed.

Lemma short_lt a b : plain a = true -> plain b = true ->
  expand1 (SStr (b +++ "<" +++ a)) = inr {| s_src := strip a; s_tgt := strip b; s_act := Transfer |}.
Proof.
  intros Ha Hb. plain_split Ha. plain_split Hb. unfold expand1.
  assert (Hn : nochar gt (b +++ "<" +++ a) = true) by (rewrite !nochar_app; simpl; rewrite H1, H; reflexivity).
  rewrite (contains_nochar gt ">" _ Hn). rewrite (contains_nochar gt "" _ Hn).
  replace (contains "<<" (b +++ "<" +++ a)) with false
    by (unfold contains; rewrite (split_at_double_none lt b a) by assumption; reflexivity).
  rewrite (contains_app lt "" b a) by assumption.
  rewrite (py_split2_app lt "" b a) by assumption. reflexivity.
Qed.

Lemma short_none a : plain a = true ->
  expand1 (SStr a) = inr {| s_src := strip a; s_tgt := strip (url_basename a); s_act := Transfer |}.
Proof.
  intros Ha. plain_split Ha. unfold expand1.
  rewrite (contains_nochar gt ">" _ H), (contains_nochar gt "" _ H).
  rewrite (contains_nochar lt "<" _ H0), (contains_nochar lt "" _ H0). reflexivity.
Qed.

(* too many operators: the code raises ValueError *)
Lemma short_two_gt a b c : plain a = true -> plain b = true ->
  expand1 (SStr (a +++ ">" +++ b +++ ">" +++ c)) = inl EValue \/
  contains ">>" (a +++ ">" +++ b +++ ">" +++ c) = true.
Proof.
  intros Ha Hb. plain_split Ha. plain_split Hb.
  destruct (contains ">>" (a +++ ">" +++ b +++ ">" +++ c)) eqn:E; [right; reflexivity|left].
  unfold expand1. rewrite E.
  rewrite (contains_app gt "" a (b +++ ">" +++ c)) by assumption.
  unfold sum_map, py_split2. rewrite (split_at_app gt "" a (b +++ ">" +++ c)) by assumption.
  rewrite (contains_app gt "" b c) by assumption. reflexivity.
Qed.

(* ---- idempotence *)
Lemma expand1_as_dict d : nonempty (s_src d) = true -> expand1 (as_dict d) = inr d.
Proof. intro H. destruct d as [s t a]. simpl in *. rewrite H. reflexivity. Qed.

Lemma expand_as_dict l :
  forallb (fun d => nonempty (s_src d)) l = true -> expand (map as_dict l) = inr l.
Proof.
  induction l as [|d l IH]; intro H; [reflexivity|].
  cbn [forallb] in H. apply andb_true_iff in H as [H1 H2].
  cbn [map expand]. rewrite (expand1_as_dict d H1). rewrite (IH H2). reflexivity.
Qed.

(* ------------------------------------------------------------ URL resolution *)

Notation colon := (":"%char).
Notation sl := ("/"%char).

Lemma parse_url_schema sch rest :
  nochar colon sch = true ->
  parse_url (sch +++ "://" +++ rest) =
  match split_at "/" rest with
  | Some (h, p) => {| u_schema := sch; u_host := h; u_path := parse_path (String slash p) |}
  | None => {| u_schema := sch; u_host := rest; u_path := parse_path EmptyString |}
  end.
Proof. intro H. unfold parse_url. rewrite (split_at_app colon "//" sch rest H). reflexivity. Qed.

Lemma comps_of_slash p : comps_of (String slash p) = comps_of p.
Proof. reflexivity. Qed.

(* schema:///path with schema in the context: context[schema] ++ "/" ++ path *)
Lemma resolve_sandbox ctx sch base p :
  nochar colon sch = true -> nonempty sch = true -> String.eqb sch "file" = false ->
  assoc sch ctx = Some base ->
  exists r, complete_url ctx (sch +++ ":///" +++ p) = inr r /\
            r_comps r = p_comps (u_path base) ++ comps_of p /\ r_schema r = u_schema base /\ r_empty r = false.
Proof.
  intros Hc Hn Hf Ha. unfold complete_url.
  change (sch +++ ":///" +++ p) with (sch +++ "://" +++ (String slash p)).
  rewrite (parse_url_schema sch (String slash p) Hc).
  change (split_at "/" (String slash p)) with (Some (EmptyString, p)).
  cbn [u_schema u_host u_path]. rewrite Hn. rewrite Ha. cbn [nonempty String.eqb negb]. rewrite Hf.
  eexists. split; [reflexivity|]. cbn [r_comps r_schema r_empty parse_path p_comps]. auto.
Qed.

(* a host part is rejected for every schema the context expands *)
Lemma resolve_host ctx sch base h p :
  nochar colon sch = true -> nonempty sch = true -> nochar sl h = true -> nonempty h = true ->
  assoc sch ctx = Some base ->
  complete_url ctx (sch +++ "://" +++ h +++ "/" +++ p) = inl EValue.
Proof.
  intros Hc Hn Hs Hh Ha. unfold complete_url.
  rewrite (parse_url_schema sch (h +++ "/" +++ p) Hc).
  rewrite (split_at_app sl "" h p Hs).
  cbn [u_schema u_host u_path]. rewrite Hn, Ha, Hh. reflexivity.
Qed.

(* schema-less relative path: context['pwd'] ++ "/" ++ path *)
Lemma resolve_relative ctx raw base :
  contains "://" raw = false -> pre "/" raw = false -> nonempty raw = true ->
  assoc "pwd" ctx = Some base ->
  exists r, complete_url ctx raw = inr r /\
            r_comps r = p_comps (u_path base) ++ comps_of raw /\ r_schema r = u_schema base /\ r_empty r = false.
Proof.
  intros Hc Hp Hn Ha. unfold complete_url, parse_url.
  unfold contains in Hc. destruct (split_at "://" raw) as [[? ?]|] eqn:E; [discriminate|].
  cbn [u_schema u_host u_path nonempty String.eqb negb]. rewrite Hp. rewrite Ha.
  cbn [String.eqb Ascii.eqb Bool.eqb andb].
  eexists. split; [reflexivity|]. cbn [r_comps r_schema r_empty parse_path p_comps]. auto.
Qed.

(* schema-less absolute path: left alone (no context has a 'file' entry) *)
Lemma resolve_absolute ctx raw :
  contains "://" raw = false -> pre "/" raw = true -> assoc "file" ctx = None ->
  exists r, complete_url ctx raw = inr r /\ r_comps r = comps_of raw /\ r_schema r = "file".
Proof.
  intros Hc Hp Ha. unfold complete_url, parse_url.
  unfold contains in Hc. destruct (split_at "://" raw) as [[? ?]|] eqn:E; [discriminate|].
  cbn [u_schema u_host u_path nonempty String.eqb negb]. rewrite Hp. rewrite Ha.
  eexists. split; [reflexivity|]. cbn [rloc_of r_comps r_schema p_comps parse_path]. auto.
Qed.

(* ---------------------------------------------------------------- file system *)

Lemma path_eqb_eq a b : path_eqb a b = true <-> a = b.
Proof.
  revert b; induction a as [|x a IH]; intros [|y b]; simpl; split; intro H; try reflexivity; try discriminate.
  - apply andb_true_iff in H as [H1 H2]. apply String.eqb_eq in H1. apply IH in H2. congruence.
  - injection H as -> ->. rewrite String.eqb_refl. apply IH. reflexivity.
Qed.

Lemma path_eqb_refl a : path_eqb a a = true.
Proof. apply path_eqb_eq. reflexivity. Qed.

Lemma path_eqb_neq a b : a <> b -> path_eqb a b = false.
Proof. intro H. destruct (path_eqb a b) eqn:E; [apply path_eqb_eq in E; contradiction|reflexivity]. Qed.

Lemma lookup_set_eq p n fs : lookup p (set p n fs) = Some n.
Proof. unfold set. simpl. rewrite path_eqb_refl. reflexivity. Qed.

Lemma lookup_set_neq p q n fs : q <> p -> lookup q (set p n fs) = lookup q fs.
Proof. intro H. unfold set. simpl. rewrite (path_eqb_neq _ _ H). reflexivity. Qed.

Lemma lookup_del_eq p fs : lookup p (del p fs) = None.
Proof.
  induction fs as [|[q n] fs IH]; simpl; [reflexivity|].
  destruct (path_eqb p q) eqn:E; simpl; [exact IH|]. rewrite E. exact IH.
Qed.

Lemma lookup_del_neq p q fs : q <> p -> lookup q (del p fs) = lookup q fs.
Proof.
  intro H. induction fs as [|[r n] fs IH]; simpl; [reflexivity|].
  destruct (path_eqb p r) eqn:E; simpl.
  - apply path_eqb_eq in E. subst r. rewrite (path_eqb_neq _ _ H). exact IH.
  - destruct (path_eqb q r); [reflexivity|exact IH].
Qed.

Lemma file_at_set_eq p c fs : file_at p (set p (F c) fs) = Some c.
Proof. unfold file_at. rewrite lookup_set_eq. reflexivity. Qed.

Lemma file_at_set_neq p q n fs : q <> p -> file_at q (set p n fs) = file_at q fs.
Proof. intro H. unfold file_at. rewrite (lookup_set_neq _ _ _ _ H). reflexivity. Qed.

Lemma file_at_del_neq p q fs : q <> p -> file_at q (del p fs) = file_at q fs.
Proof. intro H. unfold file_at. rewrite (lookup_del_neq _ _ _ H). reflexivity. Qed.

(* creating directories never creates, removes or changes a file *)
Lemma mkdirs_file_at rest : forall pre_ fs fs', mkdirs pre_ rest fs = Some fs' ->
  forall q, file_at q fs' = file_at q fs.
Proof.
  induction rest as [|c rest IH]; intros pre_ fs fs' H q; simpl in H.
  - injection H as <-. reflexivity.
  - destruct (lookup (pre_ ++ [c]) fs) as [[|cc]|] eqn:E.
    + exact (IH _ _ _ H q).
    + destruct rest; [injection H as <-; reflexivity|discriminate].
    + rewrite (IH _ _ _ H q). unfold file_at.
      destruct (path_eqb q (pre_ ++ [c])) eqn:Eq.
      * apply path_eqb_eq in Eq. subst q. rewrite lookup_set_eq, E. reflexivity.
      * unfold set. simpl. rewrite Eq. reflexivity.
Qed.

Lemma mkdir_p_file_at p fs fs' : mkdir_p p fs = Some fs' -> forall q, file_at q fs' = file_at q fs.
Proof. exact (mkdirs_file_at p [] fs fs'). Qed.

(* the directory branches never report a file result *)
Lemma cp_dir_not_ok s g fs fs' e : cp_dir s g fs <> Ok fs' e.
Proof. unfold cp_dir. repeat match goal with |- context [if ?x then _ else _] => destruct x end; discriminate. Qed.

Lemma mv_dir_not_ok s g fs fs' e : mv_dir s g fs <> Ok fs' e.
Proof. unfold mv_dir. repeat match goal with |- context [if ?x then _ else _] => destruct x end; discriminate. Qed.

Lemma cp_dir_fail s g fs fs' : cp_dir s g fs = Fail fs' -> fs' = fs.
Proof.
  unfold cp_dir. repeat match goal with |- context [if ?x then _ else _] => destruct x end;
    intro H; try discriminate; injection H as <-; reflexivity.
Qed.

Lemma mv_dir_fail s g fs fs' : mv_dir s g fs = Fail fs' -> fs' = fs.
Proof.
  unfold mv_dir. repeat match goal with |- context [if ?x then _ else _] => destruct x end;
    intro H; try discriminate; injection H as <-; reflexivity.
Qed.

(* what a successful operation guarantees: the written path holds the content
   the source had, everything else keeps its content (except the source of a
   move) *)
Definition op_spec (moved : bool) (s g : rloc) (fs fs' : fsys) (e : path) : Prop :=
  exists c, file_at (r_comps s) fs = Some c /\ file_at e fs' = Some c /\
            (e = r_comps g \/ e = r_comps g ++ [last (r_comps s) EmptyString]) /\
            (forall q, q <> e -> (moved = true -> q <> r_comps s) -> file_at q fs' = file_at q fs).

Lemma op_copy_spec s g fs fs' e : op_copy s g fs = Ok fs' e -> op_spec false s g fs fs' e.
Proof.
  unfold op_copy. destruct (r_empty g); [discriminate|].
  destruct (mkdir_p (dirname_of g) fs) as [fs1|] eqn:Em; [|discriminate].
  destruct (r_empty s); [discriminate|].
  destruct (file_at (r_comps s) fs1) as [c|] eqn:Ef;
    [|destruct (is_dir (r_comps s) fs1); [intro H; exfalso; exact (cp_dir_not_ok _ _ _ _ _ H)|discriminate]].
  unfold cp_into.
  destruct (is_dir (r_comps g) fs1) eqn:Egd.
  - destruct (r_trail g && negb true); [discriminate|].
    destruct (is_dir (r_comps g ++ [last (r_comps s) ""]) fs1); [discriminate|].
    destruct (negb (is_dir (parent (r_comps g ++ [last (r_comps s) ""])) fs1)); [discriminate|].
    destruct (path_eqb (r_comps s) (r_comps g ++ [last (r_comps s) ""])); [discriminate|].
    intro H. injection H as <- <-.
    exists c. split; [rewrite <- (mkdir_p_file_at _ _ _ Em); exact Ef|].
    split; [apply file_at_set_eq|]. split; [auto|].
    intros q Hq _. rewrite (file_at_set_neq _ _ _ _ Hq). apply (mkdir_p_file_at _ _ _ Em).
  - destruct (r_trail g && negb false); [discriminate|].
    destruct (is_dir (r_comps g) fs1); [discriminate|].
    destruct (negb (is_dir (parent (r_comps g)) fs1)); [discriminate|].
    destruct (path_eqb (r_comps s) (r_comps g)); [discriminate|].
    intro H. injection H as <- <-.
    exists c. split; [rewrite <- (mkdir_p_file_at _ _ _ Em); exact Ef|].
    split; [apply file_at_set_eq|]. split; [auto|].
    intros q Hq _. rewrite (file_at_set_neq _ _ _ _ Hq). apply (mkdir_p_file_at _ _ _ Em).
Qed.

Lemma op_link_spec s g fs fs' e : op_link s g fs = Ok fs' e -> op_spec false s g fs fs' e.
Proof.
  unfold op_link. destruct (r_empty g); [discriminate|].
  destruct (mkdir_p (dirname_of g) fs) as [fs1|] eqn:Em; [|discriminate].
  destruct (r_empty s); [discriminate|].
  destruct (file_at (r_comps s) fs1) as [c|] eqn:Ef; [|discriminate].
  destruct (r_trail g || exists_at (r_comps g) fs1); [discriminate|].
  destruct (negb (is_dir (parent (r_comps g)) fs1)); [discriminate|].
  intro H. injection H as <- <-.
  exists c. split; [rewrite <- (mkdir_p_file_at _ _ _ Em); exact Ef|].
  split; [apply file_at_set_eq|]. split; [auto|].
  intros q Hq _. rewrite (file_at_set_neq _ _ _ _ Hq). apply (mkdir_p_file_at _ _ _ Em).
Qed.

Lemma op_move_spec s g fs fs' e : op_move s g fs = Ok fs' e -> op_spec true s g fs fs' e.
Proof.
  unfold op_move. destruct (r_empty g); [discriminate|].
  destruct (mkdir_p (dirname_of g) fs) as [fs1|] eqn:Em; [|discriminate].
  destruct (r_empty s); [discriminate|].
  destruct (file_at (r_comps s) fs1) as [c|] eqn:Ef;
    [|destruct (is_dir (r_comps s) fs1); [intro H; exfalso; exact (mv_dir_not_ok _ _ _ _ _ H)|discriminate]].
  destruct (is_dir (r_comps g) fs1) eqn:Egd.
  - destruct (true && exists_at (r_comps g ++ [last (r_comps s) ""]) fs1); [discriminate|].
    destruct (r_trail g && negb true); [discriminate|].
    destruct (negb (is_dir (parent (r_comps g ++ [last (r_comps s) ""])) fs1)); [discriminate|].
    intro H. injection H as <- <-.
    exists c. split; [rewrite <- (mkdir_p_file_at _ _ _ Em); exact Ef|].
    split; [apply file_at_set_eq|]. split; [auto|].
    intros q Hq Hs. rewrite (file_at_set_neq _ _ _ _ Hq).
    rewrite (file_at_del_neq _ _ _ (Hs eq_refl)). apply (mkdir_p_file_at _ _ _ Em).
  - destruct (false && exists_at (r_comps g) fs1); [discriminate|].
    destruct (r_trail g && negb false); [discriminate|].
    destruct (negb (is_dir (parent (r_comps g)) fs1)); [discriminate|].
    intro H. injection H as <- <-.
    exists c. split; [rewrite <- (mkdir_p_file_at _ _ _ Em); exact Ef|].
    split; [apply file_at_set_eq|]. split; [auto|].
    intros q Hq Hs. rewrite (file_at_set_neq _ _ _ _ Hq).
    rewrite (file_at_del_neq _ _ _ (Hs eq_refl)). apply (mkdir_p_file_at _ _ _ Em).
Qed.

Definition is_move (a : action) : bool := action_eqb a Move.

Lemma handle_sd_spec a s g fs fs' e :
  handle_sd a s g fs = Ok fs' e -> op_spec (is_move a) s g fs fs' e.
Proof.
  destruct a; simpl; intro H; try discriminate.
  - exact (op_copy_spec _ _ _ _ _ H).
  - exact (op_copy_spec _ _ _ _ _ H).
  - exact (op_link_spec _ _ _ _ _ H).
  - exact (op_move_spec _ _ _ _ _ H).
Qed.

(* a failing operation never destroys a file (it may have created directories) *)
Lemma handle_sd_fail a s g fs fs' : handle_sd a s g fs = Fail fs' -> forall q, file_at q fs' = file_at q fs.
Proof.
  assert (Hcp : forall c b so g0 f f', cp_into c b so g0 f = Fail f' -> f' = f).
  { intros c b so g0 f f'. unfold cp_into.
    repeat match goal with |- context [if ?x then _ else _] => destruct x end; intro H; try discriminate;
      injection H as <-; reflexivity. }
  destruct a; simpl; intros H q; try (injection H as <-; reflexivity).
  - unfold op_copy in H. destruct (r_empty g); [injection H as <-; reflexivity|].
    destruct (mkdir_p (dirname_of g) fs) as [fs1|] eqn:Em; [|injection H as <-; reflexivity].
    destruct (r_empty s); [injection H as <-; exact (mkdir_p_file_at _ _ _ Em q)|].
    destruct (file_at (r_comps s) fs1);
      [|destruct (is_dir (r_comps s) fs1);
        [apply cp_dir_fail in H; subst fs'; exact (mkdir_p_file_at _ _ _ Em q)
        |injection H as <-; exact (mkdir_p_file_at _ _ _ Em q)]].
    apply Hcp in H. subst fs'. exact (mkdir_p_file_at _ _ _ Em q).
  - unfold op_copy in H. destruct (r_empty g); [injection H as <-; reflexivity|].
    destruct (mkdir_p (dirname_of g) fs) as [fs1|] eqn:Em; [|injection H as <-; reflexivity].
    destruct (r_empty s); [injection H as <-; exact (mkdir_p_file_at _ _ _ Em q)|].
    destruct (file_at (r_comps s) fs1);
      [|destruct (is_dir (r_comps s) fs1);
        [apply cp_dir_fail in H; subst fs'; exact (mkdir_p_file_at _ _ _ Em q)
        |injection H as <-; exact (mkdir_p_file_at _ _ _ Em q)]].
    apply Hcp in H. subst fs'. exact (mkdir_p_file_at _ _ _ Em q).
  - unfold op_link in H. destruct (r_empty g); [injection H as <-; reflexivity|].
    destruct (mkdir_p (dirname_of g) fs) as [fs1|] eqn:Em; [|injection H as <-; reflexivity].
    destruct (r_empty s); [injection H as <-; exact (mkdir_p_file_at _ _ _ Em q)|].
    destruct (file_at (r_comps s) fs1); [|injection H as <-; exact (mkdir_p_file_at _ _ _ Em q)].
    repeat match type of H with context [if ?x then _ else _] => destruct x end; try discriminate;
      injection H as <-; exact (mkdir_p_file_at _ _ _ Em q).
  - unfold op_move in H. destruct (r_empty g); [injection H as <-; reflexivity|].
    destruct (mkdir_p (dirname_of g) fs) as [fs1|] eqn:Em; [|injection H as <-; reflexivity].
    destruct (r_empty s); [injection H as <-; exact (mkdir_p_file_at _ _ _ Em q)|].
    destruct (file_at (r_comps s) fs1);
      [|destruct (is_dir (r_comps s) fs1);
        [apply mv_dir_fail in H; subst fs'; exact (mkdir_p_file_at _ _ _ Em q)
        |injection H as <-; exact (mkdir_p_file_at _ _ _ Em q)]].
    repeat match type of H with context [if ?x then _ else _] => destruct x end; try discriminate;
      injection H as <-; exact (mkdir_p_file_at _ _ _ Em q).
Qed.

(* -------------------------------------------------- directive lists (induction) *)

Definition keeps (d : sd) : bool := negb (action_eqb (s_act d) Move) && negb (action_eqb (s_act d) Tarball).

(* every directive of the run wrote a file (no directory tree was copied or moved) *)
Fixpoint files_only (step : sd -> fsys -> res) (l : list sd) (fs : fsys) : bool :=
  match l with
  | [] => true
  | d :: r => match step d fs with Ok fs' _ => files_only step r fs' | OkDir _ _ => false | Fail _ => true end
  end.

Section Steps.
  Variable step : sd -> fsys -> res.
  (* a successful non-move, non-tarball step writes one file and keeps the rest *)
  Hypothesis step_frame : forall d fs fs' e, step d fs = Ok fs' e -> keeps d = true ->
    exists c, file_at e fs' = Some c /\ forall q, q <> e -> file_at q fs' = file_at q fs.

  Lemma steps_acc l : forall fs lg,
    steps step l fs lg =
    {| h_ok := h_ok (steps step l fs []); h_fs := h_fs (steps step l fs []);
       h_log := lg ++ h_log (steps step l fs []) |}.
  Proof.
    induction l as [|d l IH]; intros fs lg; cbn [steps].
    - cbn [h_ok h_fs h_log]. rewrite app_nil_r. reflexivity.
    - destruct (step d fs) as [fs1 e|fs1 e|fs1].
      + destruct (action_eqb (s_act d) Tarball).
        * rewrite (IH fs1 lg). reflexivity.
        * rewrite (IH fs1 (lg ++ _)). rewrite (IH fs1 ([] ++ _)). cbn [h_ok h_fs h_log app].
          rewrite <- app_assoc. reflexivity.
      + rewrite (IH fs1 lg). reflexivity.
      + cbn [h_ok h_fs h_log]. rewrite app_nil_r. reflexivity.
  Qed.

  (* paths not written by the list keep their content *)
  Lemma steps_frame l : forall fs, forallb keeps l = true -> files_only step l fs = true ->
    h_ok (steps step l fs []) = true ->
    forall q, ~ In q (map fst (h_log (steps step l fs []))) ->
    file_at q (h_fs (steps step l fs [])) = file_at q fs.
  Proof.
    induction l as [|d l IH]; intros fs Hk Hfo Hok q Hq; [reflexivity|].
    cbn [forallb] in Hk. apply andb_true_iff in Hk as [Hk1 Hk2].
    cbn [steps files_only] in *. destruct (step d fs) as [fs1 e|fs1 e|fs1] eqn:Es; [|discriminate|discriminate].
    assert (Ht : action_eqb (s_act d) Tarball = false)
      by (unfold keeps in Hk1; apply andb_true_iff in Hk1 as [_ H]; apply negb_true_iff in H; exact H).
    rewrite Ht in *. rewrite steps_acc in *. cbn [h_ok h_fs h_log app] in *.
    destruct (step_frame _ _ _ _ Es Hk1) as [c [Hc Hf]].
    rewrite (IH fs1 Hk2 Hfo Hok q); [|intro Hin; apply Hq; cbn [map fst]; right; exact Hin].
    apply Hf. intro Heq. apply Hq. cbn [map fst]. left. symmetry. exact Heq.
  Qed.

  (* every directive of a successful list is logged, and -- targets being
     pairwise different -- every logged path still holds what was written *)
  Lemma steps_persist l : forall fs, forallb keeps l = true -> files_only step l fs = true ->
    h_ok (steps step l fs []) = true ->
    NoDup (map fst (h_log (steps step l fs []))) ->
    List.length (h_log (steps step l fs [])) = List.length l /\
    Forall (fun ec => file_at (fst ec) (h_fs (steps step l fs [])) = Some (snd ec)) (h_log (steps step l fs [])).
  Proof.
    induction l as [|d l IH]; intros fs Hk Hfo Hok Hnd; [split; [reflexivity|constructor]|].
    cbn [forallb] in Hk. apply andb_true_iff in Hk as [Hk1 Hk2].
    cbn [steps files_only] in *. destruct (step d fs) as [fs1 e|fs1 e|fs1] eqn:Es; [|discriminate|discriminate].
    assert (Ht : action_eqb (s_act d) Tarball = false)
      by (unfold keeps in Hk1; apply andb_true_iff in Hk1 as [_ H]; apply negb_true_iff in H; exact H).
    rewrite Ht in *. rewrite steps_acc in *. cbn [h_ok h_fs h_log app map fst] in *.
    destruct (step_frame _ _ _ _ Es Hk1) as [c [Hc Hf]].
    inversion Hnd as [|x xs Hnotin Hnd']; subst.
    destruct (IH fs1 Hk2 Hfo Hok Hnd') as [Hlen Hall].
    split; [cbn [List.length]; rewrite Hlen; reflexivity|].
    constructor; [|exact Hall].
    cbn [fst snd]. rewrite (steps_frame l fs1 Hk2 Hfo Hok e Hnotin). rewrite Hc. reflexivity.
  Qed.
End Steps.

(* one directive of the agent input stager: the written path is the resolved
   target (or target/basename when the target is a directory) and holds the
   content the resolved source had when the directive ran *)
Lemma agent_in_step_spec t d fs fs' e :
  agent_in_step t d fs = Ok fs' e -> action_eqb (s_act d) Tarball = false ->
  exists s g, complete_url (agent_ctx (t_sb t)) (s_src d) = inr s /\
              complete_url (agent_ctx (t_sb t)) (agent_fix_tgt (s_src d) (s_tgt d) fs) = inr g /\
              op_spec (is_move (s_act d)) s g fs fs' e.
Proof.
  unfold agent_in_step. intros H Ht.
  destruct (complete_url (agent_ctx (t_sb t)) (s_src d)) as [|s]; [discriminate|].
  destruct (complete_url (agent_ctx (t_sb t)) (agent_fix_tgt (s_src d) (s_tgt d) fs)) as [|g]; [discriminate|].
  destruct (has_action [Copy; Link; Move] d && negb (r_schema g =? "file")); [discriminate|].
  rewrite Ht in H. exists s, g. split; [reflexivity|]. split; [reflexivity|].
  exact (handle_sd_spec _ _ _ _ _ _ H).
Qed.

Lemma agent_out_step_spec t d fs fs' e :
  agent_out_step t d fs = Ok fs' e ->
  exists s g, complete_url (agent_ctx (t_sb t)) (s_src d) = inr s /\
              complete_url (agent_ctx (t_sb t)) (agent_fix_tgt (s_src d) (s_tgt d) fs) = inr g /\
              op_spec (is_move (s_act d)) s g fs fs' e.
Proof.
  unfold agent_out_step. intros H.
  destruct (complete_url (agent_ctx (t_sb t)) (s_src d)) as [|s]; [discriminate|].
  destruct (complete_url (agent_ctx (t_sb t)) (agent_fix_tgt (s_src d) (s_tgt d) fs)) as [|g]; [discriminate|].
  destruct (negb (r_schema s =? "file")); [discriminate|].
  destruct (negb (r_schema g =? "file")); [discriminate|].
  exists s, g. split; [reflexivity|]. split; [reflexivity|].
  exact (handle_sd_spec _ _ _ _ _ _ H).
Qed.

Lemma keeps_not_move d : keeps d = true -> is_move (s_act d) = false /\ action_eqb (s_act d) Tarball = false.
Proof. unfold keeps, is_move. intro H. apply andb_true_iff in H as [H1 H2]. split; apply negb_true_iff; assumption. Qed.

Lemma agent_in_frame t d fs fs' e : agent_in_step t d fs = Ok fs' e -> keeps d = true ->
  exists c, file_at e fs' = Some c /\ forall q, q <> e -> file_at q fs' = file_at q fs.
Proof.
  intros H Hk. destruct (keeps_not_move d Hk) as [Hm Ht].
  destruct (agent_in_step_spec _ _ _ _ _ H Ht) as [s [g [_ [_ [c [_ [Hc [_ Hf]]]]]]]].
  exists c. split; [exact Hc|]. intros q Hq. apply Hf; [exact Hq|]. rewrite Hm. discriminate.
Qed.

Lemma agent_out_frame t d fs fs' e : agent_out_step t d fs = Ok fs' e -> keeps d = true ->
  exists c, file_at e fs' = Some c /\ forall q, q <> e -> file_at q fs' = file_at q fs.
Proof.
  intros H Hk. destruct (keeps_not_move d Hk) as [Hm Ht].
  destruct (agent_out_step_spec _ _ _ _ _ H) as [s [g [_ [_ [c [_ [Hc [_ Hf]]]]]]]].
  exists c. split; [exact Hc|]. intros q Hq. apply Hf; [exact Hq|]. rewrite Hm. discriminate.
Qed.

(* the client-side copy loop (resolved TRANSFER directives, no tarball) *)
Fixpoint no_tar (l : list rsd) : bool :=
  match l with [] => true | RSd a _ _ :: r => negb (is_move a) && no_tar r | RTar _ :: _ => false end.

Fixpoint files_only_rs (l : list rsd) (fs : fsys) : bool :=
  match l with
  | RSd a s g :: r =>
      match handle_sd a s g fs with Ok fs' _ => files_only_rs r fs' | OkDir _ _ => false | Fail _ => true end
  | _ => true
  end.

Lemma copy_all_acc tar l : forall fs lg,
  copy_all tar l fs lg =
  {| h_ok := h_ok (copy_all tar l fs []); h_fs := h_fs (copy_all tar l fs []);
     h_log := lg ++ h_log (copy_all tar l fs []) |}.
Proof.
  induction l as [|[a s g|g] l IH]; intros fs lg; cbn [copy_all].
  - rewrite app_nil_r. reflexivity.
  - destruct (handle_sd a s g fs) as [fs1 e|fs1 e|fs1].
    + rewrite (IH fs1 (lg ++ _)). rewrite (IH fs1 ([] ++ _)). cbn [h_ok h_fs h_log app].
      rewrite <- app_assoc. reflexivity.
    + rewrite (IH fs1 lg). reflexivity.
    + rewrite app_nil_r. reflexivity.
  - destruct (r_empty g); [rewrite app_nil_r; reflexivity|].
    destruct (mkdir_p (dirname_of g) fs); [|rewrite app_nil_r; reflexivity].
    destruct (cp_into (Tar tar) "TMPTAR" None g f) as [fs1 e|fs1 e|fs1].
    + rewrite (IH fs1 lg). reflexivity.
    + rewrite (IH fs1 lg). reflexivity.
    + rewrite app_nil_r. reflexivity.
Qed.

Lemma copy_all_frame tar l : forall fs, no_tar l = true -> files_only_rs l fs = true ->
  h_ok (copy_all tar l fs []) = true ->
  forall q, ~ In q (map fst (h_log (copy_all tar l fs []))) ->
  file_at q (h_fs (copy_all tar l fs [])) = file_at q fs.
Proof.
  induction l as [|[a s g|g] l IH]; intros fs Hk Hfo Hok q Hq; [reflexivity| |discriminate].
  cbn [no_tar] in Hk. apply andb_true_iff in Hk as [Hk1 Hk2]. apply negb_true_iff in Hk1.
  cbn [copy_all files_only_rs] in *.
  destruct (handle_sd a s g fs) as [fs1 e|fs1 e|fs1] eqn:Es; [|discriminate|discriminate].
  rewrite copy_all_acc in *. cbn [h_ok h_fs h_log app] in *.
  destruct (handle_sd_spec _ _ _ _ _ _ Es) as [c [_ [Hc [_ Hf]]]].
  rewrite (IH fs1 Hk2 Hfo Hok q); [|intro Hin; apply Hq; cbn [map fst]; right; exact Hin].
  apply Hf; [|rewrite Hk1; discriminate]. intro Heq. apply Hq. cbn [map fst]. left. symmetry. exact Heq.
Qed.

Lemma copy_all_persist tar l : forall fs, no_tar l = true -> files_only_rs l fs = true ->
  h_ok (copy_all tar l fs []) = true ->
  NoDup (map fst (h_log (copy_all tar l fs []))) ->
  List.length (h_log (copy_all tar l fs [])) = List.length l /\
  Forall (fun ec => file_at (fst ec) (h_fs (copy_all tar l fs [])) = Some (snd ec)) (h_log (copy_all tar l fs [])).
Proof.
  induction l as [|[a s g|g] l IH]; intros fs Hk Hfo Hok Hnd; [split; [reflexivity|constructor]| |discriminate].
  cbn [no_tar] in Hk. apply andb_true_iff in Hk as [Hk1 Hk2]. apply negb_true_iff in Hk1.
  cbn [copy_all files_only_rs] in *.
  destruct (handle_sd a s g fs) as [fs1 e|fs1 e|fs1] eqn:Es; [|discriminate|discriminate].
  rewrite copy_all_acc in *. cbn [h_ok h_fs h_log app map fst] in *.
  destruct (handle_sd_spec _ _ _ _ _ _ Es) as [c [_ [Hc _]]].
  inversion Hnd as [|x xs Hnotin Hnd']; subst.
  destruct (IH fs1 Hk2 Hfo Hok Hnd') as [Hlen Hall].
  split; [cbn [List.length]; rewrite Hlen; reflexivity|].
  constructor; [|exact Hall].
  cbn [fst snd]. rewrite (copy_all_frame tar l fs1 Hk2 Hfo Hok e Hnotin). rewrite Hc. reflexivity.
Qed.

(* ------------------------------------------------ skip on failure, failure isolation *)

Lemma filter_none {A} (P : A -> bool) l : (forall x, In x l -> P x = false) -> filter P l = [].
Proof.
  induction l as [|x l IH]; intro H; [reflexivity|]. simpl. rewrite (H x (or_introl eq_refl)).
  apply IH. intros y Hy. apply H. right. exact Hy.
Qed.

Lemma filter_all {A} (P : A -> bool) l : (forall x, In x l -> P x = true) -> filter P l = l.
Proof.
  induction l as [|x l IH]; intro H; [reflexivity|]. simpl. rewrite (H x (or_introl eq_refl)).
  f_equal. apply IH. intros y Hy. apply H. right. exact Hy.
Qed.

Definition not_staged_out (t : task) : bool := negb (is_done (t_target t)) && negb (t_soe t).

Lemma advance_target_keep t s : s <> FAILED -> s <> CANCELED -> t_target (advance t s) = t_target t.
Proof. intros H1 H2. destruct s; try reflexivity; contradiction. Qed.

(* agent output stager: tasks that did not succeed and did not ask for
   stage_on_error are passed on without touching the file system *)
Lemma aso_skips l fs : forallb not_staged_out l = true ->
  w_fs (aso_work l fs) = fs /\ w_final (aso_work l fs) = [] /\
  List.length (w_pushed (aso_work l fs)) = List.length l.
Proof.
  intro H. unfold aso_work.
  rewrite (filter_none _ (map (fun t => advance t AGENT_STAGING_OUTPUT) l)).
  - cbn [handle_loop w_fs w_final w_pushed]. split; [reflexivity|]. split; [reflexivity|].
    rewrite app_nil_r, map_length.
    rewrite filter_all.
    + apply map_length.
    + intros x Hx. apply negb_true_iff. apply in_map_iff in Hx as [t [<- Ht]].
      rewrite forallb_forall in H. specialize (H t Ht). unfold not_staged_out in H.
      cbn [t_target advance t_soe t_out]. rewrite H. reflexivity.
  - intros x Hx. apply in_map_iff in Hx as [t [<- Ht]].
    rewrite forallb_forall in H. specialize (H t Ht). unfold not_staged_out in H.
    cbn [t_target advance t_soe t_out]. rewrite H. reflexivity.
Qed.

(* client output stager: a task whose target state is not DONE is made final
   in that state, nothing is transferred -- stage_on_error or not *)
Lemma tso_skips l fs : forallb (fun t => negb (is_done (t_target t))) l = true ->
  w_fs (tso_work l fs) = fs /\
  map (fun t => last (t_pub t) DONE) (w_final (tso_work l fs)) = map t_target l.
Proof.
  intro H. unfold tso_work.
  rewrite (filter_none _ (map (fun t => advance t TMGR_STAGING_OUTPUT) l)).
  - cbn [handle_loop w_fs w_final]. split; [reflexivity|]. rewrite !app_nil_r.
    rewrite filter_all.
    + rewrite !map_map. apply map_ext. intro t. unfold advance at 1. cbn [t_pub].
      rewrite last_last. reflexivity.
    + intros x Hx. apply negb_true_iff. apply in_map_iff in Hx as [t [<- Ht]].
      rewrite forallb_forall in H. specialize (H t Ht). cbn [t_target advance]. rewrite H. reflexivity.
  - intros x Hx. apply in_map_iff in Hx as [t [<- Ht]].
    rewrite forallb_forall in H. specialize (H t Ht). cbn [t_target advance]. rewrite H. reflexivity.
Qed.

(* the per-task loop of the stagers: every task is handled exactly once, a task
   whose staging fails is published FAILED and handed on to nobody, and the loop
   goes on with the remaining tasks *)
Lemma handle_loop_total handle okst l : forall fs,
  let '(_, pushed, failed) := handle_loop handle okst l fs in
  Permutation (map t_uid l) (map t_uid (pushed ++ failed)) /\
  Forall (fun t => last (t_pub t) DONE = FAILED /\ t_target t = FAILED) failed /\
  Forall (fun t => exists t0, In t0 l /\ t = fold_left advance (okst t0) t0) pushed.
Proof.
  assert (Huid : forall ss t, t_uid (fold_left advance ss t) = t_uid t)
    by (induction ss as [|s ss IH]; intro t; [reflexivity|]; simpl; rewrite IH; reflexivity).
  induction l as [|t l IH]; intro fs.
  - simpl. repeat split; constructor.
  - cbn [handle_loop]. specialize (IH (h_fs (handle t fs))).
    destruct (handle_loop handle okst l (h_fs (handle t fs))) as [[fs' pushed] failed].
    destruct IH as [Hp [Hf Hpu]].
    assert (Hpu' : Forall (fun t1 => exists t0, In t0 (t :: l) /\ t1 = fold_left advance (okst t0) t0) pushed).
    { eapply Forall_impl; [|exact Hpu]. intros a [t0 [Hin Ha]]. exists t0. split; [right; exact Hin|exact Ha]. }
    destruct (h_ok (handle t fs)).
    + split; [cbn [map app]; rewrite Huid; constructor; exact Hp|].
      split; [exact Hf|]. constructor; [exists t; split; [left; reflexivity|reflexivity]|exact Hpu'].
    + split.
      * cbn [map]. rewrite map_app. cbn [map]. cbn [advance t_uid].
        rewrite map_app in Hp. apply Permutation_cons_app. exact Hp.
      * split; [|exact Hpu']. constructor; [|exact Hf].
        unfold advance. cbn [t_pub t_target]. rewrite last_last. split; reflexivity.
Qed.

(* the documented defaults for relative paths, per stager *)
Lemma relative_defaults sb :
  assoc "pwd" (tmgr_in_src sb) = Some (parse_url (sb_client sb)) /\
  assoc "pwd" (tmgr_in_tgt sb) = Some (parse_url (sb_task sb)) /\
  assoc "pwd" (tmgr_out_src sb) = Some (parse_url (sb_task sb)) /\
  assoc "pwd" (tmgr_out_tgt sb) = Some (parse_url (sb_client sb)) /\
  assoc "pwd" (agent_ctx sb) = Some (as_file (sb_task sb)) /\
  assoc "client" (agent_ctx sb) = None.
Proof. repeat split; reflexivity. Qed.

Lemma sandbox_entries sb pwd :
  assoc "client" (tmgr_ctx sb pwd) = Some (parse_url (sb_client sb)) /\
  assoc "task" (tmgr_ctx sb pwd) = Some (parse_url (sb_task sb)) /\
  assoc "pilot" (tmgr_ctx sb pwd) = Some (parse_url (sb_pilot sb)) /\
  assoc "session" (tmgr_ctx sb pwd) = Some (parse_url (sb_session sb)) /\
  assoc "resource" (tmgr_ctx sb pwd) = Some (parse_url (sb_resource sb)) /\
  assoc "endpoint" (tmgr_ctx sb pwd) = Some (parse_url (sb_endpoint sb)) /\
  assoc "task" (agent_ctx sb) = Some (as_file (sb_task sb)) /\
  assoc "pilot" (agent_ctx sb) = Some (as_file (sb_pilot sb)) /\
  assoc "session" (agent_ctx sb) = Some (as_file (sb_session sb)) /\
  assoc "resource" (agent_ctx sb) = Some (as_file (sb_resource sb)) /\
  assoc "endpoint" (agent_ctx sb) = Some (as_file (sb_endpoint sb)) /\
  assoc "file" (tmgr_ctx sb pwd) = None /\ assoc "file" (agent_ctx sb) = None.
Proof. repeat split; reflexivity. Qed.

Definition agent_si_steps t := steps (agent_in_step t).
Definition agent_so_steps t := steps (agent_out_step t).

Lemma agent_input_persist t l fs :
  forallb keeps l = true -> files_only (agent_in_step t) l fs = true -> h_ok (agent_si_steps t l fs []) = true ->
  NoDup (map fst (h_log (agent_si_steps t l fs []))) ->
  List.length (h_log (agent_si_steps t l fs [])) = List.length l /\
  Forall (fun ec => file_at (fst ec) (h_fs (agent_si_steps t l fs [])) = Some (snd ec)) (h_log (agent_si_steps t l fs [])).
Proof. exact (steps_persist (agent_in_step t) (agent_in_frame t) l fs). Qed.

Lemma agent_output_persist t l fs :
  forallb keeps l = true -> files_only (agent_out_step t) l fs = true -> h_ok (agent_so_steps t l fs []) = true ->
  NoDup (map fst (h_log (agent_so_steps t l fs []))) ->
  List.length (h_log (agent_so_steps t l fs [])) = List.length l /\
  Forall (fun ec => file_at (fst ec) (h_fs (agent_so_steps t l fs [])) = Some (snd ec)) (h_log (agent_so_steps t l fs [])).
Proof. exact (steps_persist (agent_out_step t) (agent_out_frame t) l fs). Qed.

(* ---- concrete sandboxes / tree used by the examples of Props/C11.v *)
Definition ex_sb (uid : string) : sandboxes :=
  {| sb_client := "/R/client"; sb_task := "file://localhost/R/rsb/s1/p0/" +++ uid +++ "/";
     sb_pilot := "file://localhost/R/rsb/s1/p0/"; sb_session := "file://localhost/R/rsb/s1";
     sb_resource := "file://localhost/R/rsb"; sb_endpoint := "file://localhost/" |}.

Definition ex_fs : fsys :=
  [ (["R"], D); (["R"; "client"], D); (["R"; "client"; "a.dat"], F (Plain 1)); (["R"; "client"; "b.dat"], F (Plain 2));
    (["R"; "rsb"], D); (["R"; "rsb"; "s1"], D); (["R"; "rsb"; "s1"; "p0"], D);
    (["R"; "rsb"; "s1"; "p0"; "sh.dat"], F (Plain 3)) ].

Definition client_side_b (a : action) : bool := action_eqb a Transfer.

(* finite check: an empty target with each of the four non-tarball actions *)
Lemma empty_target_staged :
  forall a, In a [Transfer; Copy; Link; Move] ->
    let '(_, fs', fin) := run_case
      [ {| ti_uid := "t0"; ti_sb := ex_sb "t0";
           ti_in := [ SDict (Some (if client_side_b a then "a.dat" else "pilot:///sh.dat")) (Some "") (Some a) false ];
           ti_out := []; ti_soe := false; ti_outcome := DONE; ti_exec := []; ti_ops := [] |} ] ex_fs in
    map (fun t => last (t_pub t) DONE) fin = [DONE] /\
    file_at (["R"; "rsb"; "s1"; "p0"; "t0"] ++ [if client_side_b a then "a.dat" else "sh.dat"]) fs'
      = Some (Plain (if client_side_b a then 1 else 3)).
Proof. intros a [<-|[<-|[<-|[<-|[]]]]]; vm_compute; split; reflexivity. Qed.

(* ------------------------------------ overwrites: the last writer of a path wins *)

Section LastWriter.
  Variable step : sd -> fsys -> res.
  Hypothesis step_frame : forall d fs fs' e, step d fs = Ok fs' e -> keeps d = true ->
    exists c, file_at e fs' = Some c /\ forall q, q <> e -> file_at q fs' = file_at q fs.

  (* no hypothesis on the targets: they may collide *)
  Lemma steps_last_writer l : forall fs, forallb keeps l = true -> files_only step l fs = true ->
    h_ok (steps step l fs []) = true ->
    List.length (h_log (steps step l fs [])) = List.length l /\
    forall q, file_at q (h_fs (steps step l fs [])) =
              match last_write q (h_log (steps step l fs [])) with
              | Some c => Some c
              | None => file_at q fs
              end.
  Proof.
    induction l as [|d l IH]; intros fs Hk Hfo Hok; [split; reflexivity|].
    cbn [forallb] in Hk. apply andb_true_iff in Hk as [Hk1 Hk2].
    cbn [steps files_only] in *. destruct (step d fs) as [fs1 e|fs1 e|fs1] eqn:Es; [|discriminate|discriminate].
    assert (Ht : action_eqb (s_act d) Tarball = false)
      by (unfold keeps in Hk1; apply andb_true_iff in Hk1 as [_ H]; apply negb_true_iff in H; exact H).
    rewrite Ht in *. rewrite steps_acc in *. cbn [h_ok h_fs h_log app] in *.
    destruct (step_frame _ _ _ _ Es Hk1) as [c [Hc Hf]].
    destruct (IH fs1 Hk2 Hfo Hok) as [Hlen Hall].
    split; [cbn [List.length]; rewrite Hlen; reflexivity|].
    intro q. rewrite (Hall q). cbn [last_write].
    destruct (last_write q (h_log (steps step l fs1 []))); [reflexivity|].
    destruct (path_eqb q e) eqn:Eq.
    - apply path_eqb_eq in Eq. subst q. rewrite Hc. reflexivity.
    - apply Hf. intro Heq. subst q. rewrite path_eqb_refl in Eq. discriminate.
  Qed.
End LastWriter.

Lemma agent_input_last_writer t l fs :
  forallb keeps l = true -> files_only (agent_in_step t) l fs = true -> h_ok (agent_si_steps t l fs []) = true ->
  List.length (h_log (agent_si_steps t l fs [])) = List.length l /\
  forall q, file_at q (h_fs (agent_si_steps t l fs [])) =
            match last_write q (h_log (agent_si_steps t l fs [])) with Some c => Some c | None => file_at q fs end.
Proof. exact (steps_last_writer (agent_in_step t) (agent_in_frame t) l fs). Qed.

Lemma agent_output_last_writer t l fs :
  forallb keeps l = true -> files_only (agent_out_step t) l fs = true -> h_ok (agent_so_steps t l fs []) = true ->
  List.length (h_log (agent_so_steps t l fs [])) = List.length l /\
  forall q, file_at q (h_fs (agent_so_steps t l fs [])) =
            match last_write q (h_log (agent_so_steps t l fs [])) with Some c => Some c | None => file_at q fs end.
Proof. exact (steps_last_writer (agent_out_step t) (agent_out_frame t) l fs). Qed.

Lemma copy_all_last_writer tar l : forall fs, no_tar l = true -> files_only_rs l fs = true ->
  h_ok (copy_all tar l fs []) = true ->
  List.length (h_log (copy_all tar l fs [])) = List.length l /\
  forall q, file_at q (h_fs (copy_all tar l fs [])) =
            match last_write q (h_log (copy_all tar l fs [])) with Some c => Some c | None => file_at q fs end.
Proof.
  induction l as [|[a s g|g] l IH]; intros fs Hk Hfo Hok; [split; reflexivity| |discriminate].
  cbn [no_tar] in Hk. apply andb_true_iff in Hk as [Hk1 Hk2]. apply negb_true_iff in Hk1.
  cbn [copy_all files_only_rs] in *.
  destruct (handle_sd a s g fs) as [fs1 e|fs1 e|fs1] eqn:Es; [|discriminate|discriminate].
  rewrite copy_all_acc in *. cbn [h_ok h_fs h_log app] in *.
  destruct (handle_sd_spec _ _ _ _ _ _ Es) as [c [_ [Hc [_ Hf]]]].
  destruct (IH fs1 Hk2 Hfo Hok) as [Hlen Hall].
  split; [cbn [List.length]; rewrite Hlen; reflexivity|].
  intro q. rewrite (Hall q). cbn [last_write].
  destruct (last_write q (h_log (copy_all tar l fs1 []))); [reflexivity|].
  destruct (path_eqb q e) eqn:Eq.
  - apply path_eqb_eq in Eq. subst q. rewrite Hc. reflexivity.
  - apply Hf; [|rewrite Hk1; discriminate]. intro Heq. subst q. rewrite path_eqb_refl in Eq. discriminate.
Qed.

(* each log entry records the content the resolved source had when its
   directive ran: one step of the log *)
Lemma steps_log_head step d l fs fs1 e :
  step d fs = Ok fs1 e -> action_eqb (s_act d) Tarball = false ->
  h_log (steps step (d :: l) fs []) =
  (e, match file_at e fs1 with Some c => c | None => Plain 0 end) :: h_log (steps step l fs1 []).
Proof.
  intros Es Ht. cbn [steps]. rewrite Es, Ht. rewrite steps_acc. reflexivity.
Qed.

(* --------------------- every directive creates the missing parents of its target *)

Lemma is_prefix_app a b : is_prefix a (a ++ b) = true.
Proof. induction a as [|x a IH]; [reflexivity|]. simpl. rewrite String.eqb_refl. exact IH. Qed.

Lemma is_prefix_refl a : is_prefix a a = true.
Proof. rewrite <- (app_nil_r a) at 2. apply is_prefix_app. Qed.

Lemma is_prefix_app_r p a b : is_prefix p a = true -> is_prefix p (a ++ b) = true.
Proof.
  revert a; induction p as [|x p IH]; intros a H; [reflexivity|].
  destruct a as [|y a]; [discriminate|]. simpl in *.
  apply andb_true_iff in H as [H1 H2]. rewrite H1. exact (IH a H2).
Qed.

Lemma is_prefix_longer l x : is_prefix (l ++ [x]) l = false.
Proof. induction l as [|y l IH]; [reflexivity|]. simpl. rewrite String.eqb_refl. exact IH. Qed.

Lemma is_dir_cons x p fs : is_dir (x :: p) fs = match lookup (x :: p) fs with Some D => true | _ => false end.
Proof. reflexivity. Qed.

Lemma snoc_cons {A} (l : list A) x : exists y r, l ++ [x] = y :: r.
Proof. destruct l as [|y l]; [exists x, []|exists y, (l ++ [x])]; reflexivity. Qed.

(* if no file sits on the way, the directories down to pre ++ rest get created *)
Lemma mkdirs_ok rest : forall pre_ fs,
  (forall p, is_prefix p (pre_ ++ rest) = true -> file_at p fs = None) ->
  exists fs', mkdirs pre_ rest fs = Some fs' /\
              (rest <> [] -> lookup (pre_ ++ rest) fs' = Some D) /\
              (forall q, is_prefix q (pre_ ++ rest) = false -> lookup q fs' = lookup q fs).
Proof.
  induction rest as [|c rest IH]; intros pre_ fs H.
  - exists fs. split; [reflexivity|]. split; [intro Hn; contradiction|auto].
  - cbn [mkdirs].
    assert (Eapp : (pre_ ++ [c]) ++ rest = pre_ ++ c :: rest) by (rewrite <- app_assoc; reflexivity).
    assert (Hp : is_prefix (pre_ ++ [c]) (pre_ ++ c :: rest) = true) by (rewrite <- Eapp; apply is_prefix_app).
    pose proof (H _ Hp) as Hfile. unfold file_at in Hfile.
    destruct (lookup (pre_ ++ [c]) fs) as [[|cc]|] eqn:E; [| discriminate |].
    + destruct (IH (pre_ ++ [c]) fs) as [fs' [Hm [Hd Hq]]].
      { intros p Hpp. apply H. rewrite <- Eapp. exact Hpp. }
      exists fs'. split; [exact Hm|]. split.
      * intros _. rewrite <- Eapp. destruct rest as [|c2 rest].
        -- cbn [mkdirs] in Hm. injection Hm as <-. rewrite app_nil_r. exact E.
        -- apply Hd. discriminate.
      * intros q Hqq. apply Hq. rewrite Eapp. exact Hqq.
    + destruct (IH (pre_ ++ [c]) (set (pre_ ++ [c]) D fs)) as [fs' [Hm [Hd Hq]]].
      { intros p Hpp. rewrite Eapp in Hpp. specialize (H p Hpp).
        destruct (path_eqb p (pre_ ++ [c])) eqn:Ep.
        - apply path_eqb_eq in Ep. subst p. unfold file_at. rewrite lookup_set_eq. reflexivity.
        - rewrite file_at_set_neq; [exact H|]. intro Heq. subst p. rewrite path_eqb_refl in Ep. discriminate. }
      exists fs'. split; [exact Hm|]. split.
      * intros _. rewrite <- Eapp. destruct rest as [|c2 rest].
        -- cbn [mkdirs] in Hm. injection Hm as <-. rewrite app_nil_r. apply lookup_set_eq.
        -- apply Hd. discriminate.
      * intros q Hqq. rewrite (Hq q); [|rewrite Eapp; exact Hqq].
        apply lookup_set_neq. intro Heq. subst q. rewrite Hp in Hqq. discriminate.
Qed.

(* the state a directive needs: its source is a file, nothing but directories
   (present or MISSING) on the way to its target, the target itself is free *)
Record ready_file (s g : rloc) (c : content) (fs : fsys) : Prop := {
  rf_s : r_empty s = false;
  rf_g : r_empty g = false;
  rf_trail : r_trail g = false;
  rf_src : file_at (r_comps s) fs = Some c;
  rf_nonroot : r_comps g <> [];
  rf_free : lookup (r_comps g) fs = None;
  rf_way : forall p, is_prefix p (r_comps g) = true -> file_at p fs = None;
  rf_other : r_comps s <> r_comps g
}.

Lemma ready_file_parent s g c fs : ready_file s g c fs ->
  exists fs1, mkdir_p (dirname_of g) fs = Some fs1 /\
              file_at (r_comps s) fs1 = Some c /\
              is_dir (parent (r_comps g)) fs1 = true /\
              is_dir (r_comps g) fs1 = false /\ exists_at (r_comps g) fs1 = false.
Proof.
  intros [Hs Hg Ht Hsrc Hnr Hfree Hway Hoth].
  unfold dirname_of. rewrite Ht. unfold mkdir_p.
  destruct (exists_last Hnr) as [gp [x Eg]].
  assert (Epar : parent (r_comps g) = gp) by (unfold parent; rewrite Eg; apply removelast_last).
  rewrite Epar.
  destruct (mkdirs_ok gp [] fs) as [fs1 [Hm [Hd Hq]]].
  { intros p Hp. apply Hway. rewrite Eg. apply is_prefix_app_r. exact Hp. }
  exists fs1. split; [exact Hm|].
  split; [rewrite (mkdirs_file_at _ _ _ _ Hm); exact Hsrc|].
  assert (Hl : lookup (r_comps g) fs1 = None).
  { rewrite (Hq (r_comps g)); [exact Hfree|]. rewrite Eg. apply is_prefix_longer. }
  split.
  - destruct gp as [|y gp]; [reflexivity|]. rewrite is_dir_cons. cbn [app] in Hd. rewrite Hd; [reflexivity|discriminate].
  - destruct (snoc_cons gp x) as [y [r Er]]. rewrite Eg, Er in *. split.
    + rewrite is_dir_cons, Hl. reflexivity.
    + cbn [exists_at]. rewrite Hl. reflexivity.
Qed.

(* THE statement: whatever happened to the directories above the target
   before -- moved away, removed, never there -- the directive is carried out *)
Lemma stage_on_demand a s g c fs :
  In a [Transfer; Copy; Link; Move] -> ready_file s g c fs ->
  exists fs', handle_sd a s g fs = Ok fs' (r_comps g) /\ file_at (r_comps g) fs' = Some c.
Proof.
  intros Ha Hr. destruct (ready_file_parent _ _ _ _ Hr) as [fs1 [Em [Hs1 [Hpar [Hnd Hne]]]]].
  destruct Hr as [Hs Hg Ht Hsrc Hnr Hfree Hway Hoth].
  assert (Hneq : path_eqb (r_comps s) (r_comps g) = false) by (apply path_eqb_neq; exact Hoth).
  assert (Hcopy : op_copy s g fs = Ok (set (r_comps g) (F c) fs1) (r_comps g)).
  { unfold op_copy. rewrite Hg, Em, Hs, Hs1. unfold cp_into. rewrite Hnd, Ht. cbn [andb negb].
    rewrite Hnd, Hpar. cbn [negb]. rewrite Hneq. reflexivity. }
  destruct Ha as [<-|[<-|[<-|[<-|[]]]]]; cbn [handle_sd].
  - eexists. split; [exact Hcopy|apply file_at_set_eq].
  - eexists. split; [exact Hcopy|apply file_at_set_eq].
  - eexists. split; [|apply file_at_set_eq].
    unfold op_link. rewrite Hg, Em, Hs, Hs1, Ht, Hne, Hpar. reflexivity.
  - eexists. split; [|apply file_at_set_eq].
    unfold op_move. rewrite Hg, Em, Hs, Hs1, Hnd, Ht, Hpar. reflexivity.
Qed.

(* ------------------------------------------- directory sources (cp -r, shutil.move) *)

Lemma path_eqb_app_l e a b : path_eqb (e ++ a) (e ++ b) = path_eqb a b.
Proof. induction e as [|x e IH]; [reflexivity|]. simpl. rewrite String.eqb_refl. exact IH. Qed.

Lemma prefix_skipn s : forall q, is_prefix s q = true -> q = s ++ skipn (List.length s) q.
Proof.
  induction s as [|x s IH]; intros q H; [reflexivity|].
  destruct q as [|y q]; [discriminate|]. simpl in *.
  apply andb_true_iff in H as [H1 H2]. apply String.eqb_eq in H1. subst y. f_equal. exact (IH q H2).
Qed.

Lemma not_under_neq s rel q : is_prefix s q = false -> path_eqb (s ++ rel) q = false.
Proof.
  intro H. destruct (path_eqb (s ++ rel) q) eqn:E; [|reflexivity].
  apply path_eqb_eq in E. subst q. rewrite is_prefix_app in H. discriminate.
Qed.

(* looking below the new place e = looking below the old place s *)
Lemma lookup_rebased s e rel rest fs :
  lookup (e ++ rel) (map (rebase s e) (filter (under s) fs) ++ rest) =
  match lookup (s ++ rel) fs with Some n => Some n | None => lookup (e ++ rel) rest end.
Proof.
  induction fs as [|[q n] fs IH]; [reflexivity|].
  cbn [filter]. unfold under at 1. cbn [fst].
  destruct (is_prefix s q) eqn:E.
  - cbn [map app]. unfold rebase at 1. cbn [fst snd lookup].
    rewrite path_eqb_app_l.
    rewrite (prefix_skipn s q E) at 2. rewrite path_eqb_app_l.
    destruct (path_eqb rel (skipn (List.length s) q)); [reflexivity|exact IH].
  - cbn [lookup]. rewrite (not_under_neq s rel q E). exact IH.
Qed.

(* a directory result: the tree is at e (the target, or target/basename for a
   directory target) and every file below the source is below e with its content *)
Definition tree_spec (s : path) (g : rloc) (fs fs' : fsys) (e : path) : Prop :=
  (e = r_comps g \/ e = r_comps g ++ [last s EmptyString]) /\
  forall rel c, file_at (s ++ rel) fs = Some c -> file_at (e ++ rel) fs' = Some c.

Lemma cp_dir_spec s g fs fs' e : cp_dir s g fs = OkDir fs' e -> tree_spec s g fs fs' e.
Proof.
  unfold cp_dir.
  destruct (r_trail g && negb (is_dir (r_comps g) fs)); [discriminate|].
  destruct (is_prefix s _); [discriminate|].
  destruct (negb (is_dir (r_comps g) fs) && exists_at _ fs); [discriminate|].
  destruct (negb (is_dir (parent _) fs)); [discriminate|].
  destruct (tree_conflict s _ fs); [discriminate|].
  intro H. injection H as <- <-. split.
  - destruct (is_dir (r_comps g) fs); auto.
  - intros rel c Hc. unfold file_at in *. unfold copy_tree. rewrite lookup_rebased.
    destruct (lookup (s ++ rel) fs) as [[|cc]|]; try discriminate. exact Hc.
Qed.

Lemma mv_dir_spec s g fs fs' e : mv_dir s g fs = OkDir fs' e -> tree_spec s g fs fs' e.
Proof.
  unfold mv_dir.
  destruct (r_trail g && negb (is_dir (r_comps g) fs)); [discriminate|].
  destruct (is_prefix s _); [discriminate|].
  destruct (exists_at _ fs); [discriminate|].
  destruct (negb (is_dir (parent _) fs)); [discriminate|].
  intro H. injection H as <- <-. split.
  - destruct (is_dir (r_comps g) fs); auto.
  - intros rel c Hc. unfold file_at in *. unfold move_tree. rewrite lookup_rebased.
    destruct (lookup (s ++ rel) fs) as [[|cc]|]; try discriminate. exact Hc.
Qed.

Lemma cp_into_not_dir c b so g fs fs' e : cp_into c b so g fs <> OkDir fs' e.
Proof. unfold cp_into. repeat match goal with |- context [if ?x then _ else _] => destruct x end; discriminate. Qed.

(* transfer / copy / move of a directory: the source was a directory when the
   directive ran, and all its files are at the target afterwards *)
Lemma handle_sd_dir_spec a s g fs fs' e :
  handle_sd a s g fs = OkDir fs' e ->
  exists fs1, mkdir_p (dirname_of g) fs = Some fs1 /\ is_dir (r_comps s) fs1 = true /\
              tree_spec (r_comps s) g fs1 fs' e.
Proof.
  assert (Hcopy : op_copy s g fs = OkDir fs' e ->
                  exists fs1, mkdir_p (dirname_of g) fs = Some fs1 /\ is_dir (r_comps s) fs1 = true /\
                              tree_spec (r_comps s) g fs1 fs' e).
  { unfold op_copy. destruct (r_empty g); [discriminate|].
    destruct (mkdir_p (dirname_of g) fs) as [fs1|]; [|discriminate].
    destruct (r_empty s); [discriminate|].
    destruct (file_at (r_comps s) fs1).
    - intro H. exfalso. exact (cp_into_not_dir _ _ _ _ _ _ _ H).
    - destruct (is_dir (r_comps s) fs1) eqn:Ed; [|discriminate].
      intro H. exists fs1. split; [reflexivity|]. split; [exact Ed|]. exact (cp_dir_spec _ _ _ _ _ H). }
  destruct a; cbn [handle_sd]; try discriminate; try exact Hcopy.
  - unfold op_link. repeat match goal with |- context [match ?x with _ => _ end] => destruct x end; discriminate.
  - unfold op_move. destruct (r_empty g); [discriminate|].
    destruct (mkdir_p (dirname_of g) fs) as [fs1|]; [|discriminate].
    destruct (r_empty s); [discriminate|].
    destruct (file_at (r_comps s) fs1).
    + repeat match goal with |- context [if ?x then _ else _] => destruct x end; discriminate.
    + destruct (is_dir (r_comps s) fs1) eqn:Ed; [|discriminate].
      intro H. exists fs1. split; [reflexivity|]. split; [exact Ed|]. exact (mv_dir_spec _ _ _ _ _ H).
Qed.

Lemma under_not_above gp x : forall q, is_prefix (gp ++ [x]) q = true -> is_prefix q gp = false.
Proof.
  induction gp as [|y gp IH]; intros q H.
  - destruct q as [|z q]; [discriminate|reflexivity].
  - destruct q as [|z q]; [discriminate|]. simpl in *.
    apply andb_true_iff in H as [H1 H2]. apply String.eqb_eq in H1. subst z.
    rewrite String.eqb_refl. exact (IH q H2).
Qed.

Lemma existsb_all_false {A} (f : A -> bool) l : (forall x, In x l -> f x = false) -> existsb f l = false.
Proof.
  induction l as [|x l IH]; intro H; [reflexivity|]. simpl. rewrite (H x (or_introl eq_refl)).
  apply IH. intros y Hy. apply H. right. exact Hy.
Qed.

(* the state a directory directive needs: the source is a directory, nothing
   at or below the target, nothing but directories (present or missing) above it *)
Record ready_dir (s g : rloc) (fs : fsys) : Prop := {
  rd_s : r_empty s = false;
  rd_g : r_empty g = false;
  rd_trail : r_trail g = false;
  rd_src : lookup (r_comps s) fs = Some D;
  rd_srcnonroot : r_comps s <> [];
  rd_nonroot : r_comps g <> [];
  rd_free : forall q, is_prefix (r_comps g) q = true -> lookup q fs = None;
  rd_way : forall p, is_prefix p (r_comps g) = true -> file_at p fs = None;
  rd_apart : is_prefix (r_comps s) (r_comps g) = false
}.

Lemma dir_on_demand a s g fs :
  In a [Transfer; Copy; Move] -> ready_dir s g fs ->
  exists fs', handle_sd a s g fs = OkDir fs' (r_comps g) /\
              forall rel c, file_at (r_comps s ++ rel) fs = Some c -> file_at (r_comps g ++ rel) fs' = Some c.
Proof.
  intros Ha [Hs Hg Ht Hsrc Hsn Hnr Hfree Hway Hap].
  destruct (exists_last Hnr) as [gp [x Eg]].
  assert (Epar : parent (r_comps g) = gp) by (unfold parent; rewrite Eg; apply removelast_last).
  destruct (mkdirs_ok gp [] fs) as [fs1 [Hm [Hd Hq]]].
  { intros p Hp. apply Hway. rewrite Eg. apply is_prefix_app_r. exact Hp. }
  assert (Em : mkdir_p (dirname_of g) fs = Some fs1) by (unfold dirname_of, mkdir_p; rewrite Ht, Epar; exact Hm).
  assert (Hfree1 : forall q, is_prefix (r_comps g) q = true -> lookup q fs1 = None).
  { intros q Hqq. rewrite (Hq q); [exact (Hfree q Hqq)|]. cbn [app]. rewrite Eg in Hqq. exact (under_not_above gp x q Hqq). }
  assert (Hpar : is_dir (parent (r_comps g)) fs1 = true).
  { rewrite Epar. destruct gp as [|y gp]; [reflexivity|]. rewrite is_dir_cons. cbn [app] in Hd.
    rewrite Hd; [reflexivity|discriminate]. }
  assert (Hlg : lookup (r_comps g) fs1 = None) by (apply Hfree1; apply is_prefix_refl).
  assert (Hnd : is_dir (r_comps g) fs1 = false /\ exists_at (r_comps g) fs1 = false).
  { destruct (snoc_cons gp x) as [y [r Er]]. rewrite Eg, Er in *. split.
    - rewrite is_dir_cons, Hlg. reflexivity.
    - cbn [exists_at]. rewrite Hlg. reflexivity. }
  destruct Hnd as [Hnd Hne].
  assert (Hls : lookup (r_comps s) fs1 = Some D).
  { rewrite (Hq (r_comps s)); [exact Hsrc|]. cbn [app].
    destruct (is_prefix (r_comps s) gp) eqn:E; [|reflexivity].
    rewrite Eg in Hap. rewrite (is_prefix_app_r _ _ [x] E) in Hap. discriminate. }
  assert (Hsd : is_dir (r_comps s) fs1 = true /\ file_at (r_comps s) fs1 = None).
  { unfold file_at. rewrite Hls. split; [|reflexivity].
    destruct (r_comps s) as [|y r] eqn:Es; [contradiction|]. rewrite is_dir_cons, Hls. reflexivity. }
  destruct Hsd as [Hsd Hsf].
  assert (Hconf : tree_conflict (r_comps s) (r_comps g) fs1 = false).
  { unfold tree_conflict. apply existsb_all_false. intros y _.
    unfold rebase. cbn [fst snd]. rewrite (Hfree1 (r_comps g ++ _) (is_prefix_app _ _)).
    destruct (snd y); reflexivity. }
  assert (Hfile : forall rel c, file_at (r_comps s ++ rel) fs = Some c -> file_at (r_comps s ++ rel) fs1 = Some c).
  { intros rel c Hc. rewrite (mkdirs_file_at _ _ _ _ Hm). exact Hc. }
  assert (Hcopy : op_copy s g fs = OkDir (copy_tree (r_comps s) (r_comps g) fs1) (r_comps g)).
  { unfold op_copy. rewrite Hg, Em, Hs, Hsf, Hsd. unfold cp_dir. rewrite Hnd, Ht, Hap. cbn [andb negb].
    rewrite Hne, Hpar. cbn [negb]. rewrite Hconf. reflexivity. }
  assert (Hcs : tree_spec (r_comps s) g fs1 (copy_tree (r_comps s) (r_comps g) fs1) (r_comps g)).
  { apply cp_dir_spec. unfold cp_dir. rewrite Hnd, Ht, Hap. cbn [andb negb].
    rewrite Hne, Hpar. cbn [negb]. rewrite Hconf. reflexivity. }
  assert (Hmove : mv_dir (r_comps s) g fs1 = OkDir (move_tree (r_comps s) (r_comps g) fs1) (r_comps g)).
  { unfold mv_dir. rewrite Hnd, Ht, Hap, Hne, Hpar. reflexivity. }
  destruct Ha as [<-|[<-|[<-|[]]]]; cbn [handle_sd].
  - eexists. split; [exact Hcopy|]. intros rel c Hc. apply (proj2 Hcs). exact (Hfile rel c Hc).
  - eexists. split; [exact Hcopy|]. intros rel c Hc. apply (proj2 Hcs). exact (Hfile rel c Hc).
  - eexists. split.
    + unfold op_move. rewrite Hg, Em, Hs, Hsf, Hsd. exact Hmove.
    + intros rel c Hc. apply (proj2 (mv_dir_spec _ _ _ _ _ Hmove)). exact (Hfile rel c Hc).
Qed.

(* ------------- sequences: each directive is carried out in the state it finds *)

Definition staged_actions : list action := [Transfer; Copy; Link; Move].

(* a sequence of resolved directives, each with the content its source is to
   have when its turn comes; readiness is required of the state the directive
   FINDS -- whatever the earlier ones moved, removed or overwrote *)
Fixpoint ready_seq (l : list (rsd * content)) (fs : fsys) : Prop :=
  match l with
  | [] => True
  | (RSd a s g, c) :: r =>
      In a staged_actions /\ ready_file s g c fs /\
      forall fs', handle_sd a s g fs = Ok fs' (r_comps g) -> ready_seq r fs'
  | (RTar _, _) :: _ => False
  end.

Fixpoint staged_seq (l : list (rsd * content)) (fs : fsys) : Prop :=
  match l with
  | [] => True
  | (RSd a s g, c) :: r =>
      exists fs', handle_sd a s g fs = Ok fs' (r_comps g) /\ file_at (r_comps g) fs' = Some c /\ staged_seq r fs'
  | (RTar _, _) :: _ => False
  end.

Lemma seq_on_demand tar l : forall fs, ready_seq l fs ->
  h_ok (copy_all tar (map fst l) fs []) = true /\ staged_seq l fs.
Proof.
  induction l as [|[[a s g|g] c] l IH]; intros fs H; [split; [reflexivity|exact I]| |contradiction].
  cbn [ready_seq] in H. destruct H as [Ha [Hr Hnext]].
  destruct (stage_on_demand a s g c fs Ha Hr) as [fs' [Hh Hc]].
  destruct (IH fs' (Hnext fs' Hh)) as [Hok Hst].
  split.
  - cbn [map fst copy_all]. rewrite Hh. rewrite copy_all_acc. exact Hok.
  - cbn [staged_seq]. exists fs'. auto.
Qed.

(* the same for one directive of the agent stagers (resolution in the agent
   context, then the action) *)
Lemma agent_out_on_demand t d s g c fs :
  complete_url (agent_ctx (t_sb t)) (s_src d) = inr s ->
  complete_url (agent_ctx (t_sb t)) (agent_fix_tgt (s_src d) (s_tgt d) fs) = inr g ->
  r_schema s = "file" -> r_schema g = "file" -> In (s_act d) staged_actions -> ready_file s g c fs ->
  exists fs', agent_out_step t d fs = Ok fs' (r_comps g) /\ file_at (r_comps g) fs' = Some c.
Proof.
  intros Hs Hg Hss Hsg Ha Hr. unfold agent_out_step. rewrite Hs, Hg, Hss, Hsg. cbn [String.eqb negb].
  change (("file" =? "file")%string) with true. cbn [negb].
  exact (stage_on_demand _ _ _ _ _ Ha Hr).
Qed.

Lemma agent_in_on_demand t d s g c fs :
  complete_url (agent_ctx (t_sb t)) (s_src d) = inr s ->
  complete_url (agent_ctx (t_sb t)) (agent_fix_tgt (s_src d) (s_tgt d) fs) = inr g ->
  r_schema g = "file" -> In (s_act d) staged_actions -> ready_file s g c fs ->
  exists fs', agent_in_step t d fs = Ok fs' (r_comps g) /\ file_at (r_comps g) fs' = Some c.
Proof.
  intros Hs Hg Hsg Ha Hr. unfold agent_in_step. rewrite Hs, Hg, Hsg.
  change (("file" =? "file")%string) with true. cbn [negb]. rewrite andb_false_r.
  assert (Ht : action_eqb (s_act d) Tarball = false)
    by (destruct Ha as [<-|[<-|[<-|[<-|[]]]]]; reflexivity).
  rewrite Ht. exact (stage_on_demand _ _ _ _ _ Ha Hr).
Qed.

(* ------------------- the order given: a directive sees what the earlier ones did *)

(* running a list = running its first part, then the rest in the state (and
   with the log) the first part left; a failure stops the list *)
Lemma steps_app step l1 : forall l2 fs lg,
  steps step (l1 ++ l2) fs lg =
  if h_ok (steps step l1 fs lg)
  then steps step l2 (h_fs (steps step l1 fs lg)) (h_log (steps step l1 fs lg))
  else steps step l1 fs lg.
Proof.
  induction l1 as [|d l1 IH]; intros l2 fs lg; [reflexivity|].
  cbn [app steps]. destruct (step d fs) as [fs1 e|fs1 e|fs1].
  - apply IH.
  - apply IH.
  - reflexivity.
Qed.

(* unpacking: files that are not members keep their content ... *)
Lemma untar_keeps m : forall fs fs' q, untar m fs = Some fs' -> ~ In q (map fst m) ->
  file_at q fs' = file_at q fs.
Proof.
  induction m as [|[p z] m IH]; intros fs fs' q H Hq; [injection H as <-; reflexivity|].
  cbn [untar] in H. destruct (mkdir_p (parent p) fs) as [fs1|] eqn:Em; [|discriminate].
  destruct (is_dir p fs1 || negb (is_dir (parent p) fs1)); [discriminate|].
  rewrite (IH _ _ q H); [|intro Hin; apply Hq; right; exact Hin].
  rewrite file_at_set_neq; [exact (mkdir_p_file_at _ _ _ Em q)|].
  intro Heq. apply Hq. left. symmetry. exact Heq.
Qed.

(* ... and every member is there with its content *)
Lemma untar_members m : forall fs fs', untar m fs = Some fs' -> NoDup (map fst m) ->
  forall p z, In (p, z) m -> file_at p fs' = Some (Plain z).
Proof.
  induction m as [|[p0 z0] m IH]; intros fs fs' H Hnd p z Hin; [contradiction|].
  cbn [untar] in H. destruct (mkdir_p (parent p0) fs) as [fs1|] eqn:Em; [|discriminate].
  destruct (is_dir p0 fs1 || negb (is_dir (parent p0) fs1)); [discriminate|].
  cbn [map fst] in Hnd. inversion Hnd as [|x xs Hnotin Hnd']; subst.
  destruct Hin as [Heq|Hin].
  - injection Heq as <- <-. rewrite (untar_keeps _ _ _ _ H Hnotin). apply file_at_set_eq.
  - exact (IH _ _ H Hnd' p z Hin).
Qed.

(* a TARBALL directive unpacks the task's tarball where it stands in the list:
   right after it every member is in place -- so a later directive of the same
   list can use it *)
Lemma tarball_in_place t d fs fs' e :
  agent_in_step t d fs = Ok fs' e -> action_eqb (s_act d) Tarball = true ->
  exists m, file_at (sandbox_path t ++ [tar_name t]) fs = Some (Tar m) /\
            (NoDup (map fst m) -> forall p z, In (p, z) m -> file_at p fs' = Some (Plain z)).
Proof.
  unfold agent_in_step. intros H Ht.
  destruct (complete_url (agent_ctx (t_sb t)) (s_src d)) as [|s]; [discriminate|].
  destruct (complete_url (agent_ctx (t_sb t)) (agent_fix_tgt (s_src d) (s_tgt d) fs)) as [|g]; [discriminate|].
  destruct (has_action [Copy; Link; Move] d && negb (r_schema g =? "file")); [discriminate|].
  rewrite Ht in H.
  destruct (file_at (sandbox_path t ++ [tar_name t]) fs) as [[z|m]|] eqn:Ef; try discriminate.
  destruct (untar m fs) as [fs2|] eqn:Eu; [|discriminate].
  injection H as <- _. exists m. split; [reflexivity|].
  intros Hnd p z Hin. exact (untar_members m fs fs2 Eu Hnd p z Hin).
Qed.

(* the chain: TARBALL, then any transfer/copy/link/move of a member that is
   ready in the state the TARBALL directive left *)
Lemma tarball_then_use t d d2 s g z fs fs1 e m :
  agent_in_step t d fs = Ok fs1 e -> action_eqb (s_act d) Tarball = true ->
  file_at (sandbox_path t ++ [tar_name t]) fs = Some (Tar m) -> NoDup (map fst m) -> In (r_comps s, z) m ->
  complete_url (agent_ctx (t_sb t)) (s_src d2) = inr s ->
  complete_url (agent_ctx (t_sb t)) (agent_fix_tgt (s_src d2) (s_tgt d2) fs1) = inr g ->
  r_schema g = "file" -> In (s_act d2) staged_actions ->
  (file_at (r_comps s) fs1 = Some (Plain z) -> ready_file s g (Plain z) fs1) ->
  exists fs2, h_ok (steps (agent_in_step t) [d; d2] fs []) = true /\
              h_fs (steps (agent_in_step t) [d; d2] fs []) = fs2 /\
              file_at (r_comps g) fs2 = Some (Plain z).
Proof.
  intros H1 Ht Hf Hnd Hin Hs Hg Hsg Ha Hready.
  destruct (tarball_in_place _ _ _ _ _ H1 Ht) as [m' [Hf' Hm]].
  rewrite Hf in Hf'. injection Hf' as <-.
  pose proof (Hm Hnd _ _ Hin) as Hz.
  destruct (agent_in_on_demand t d2 s g (Plain z) fs1 Hs Hg Hsg Ha (Hready Hz)) as [fs2 [H2 Hc]].
  exists fs2. cbn [steps]. rewrite H1, Ht, H2.
  assert (Ht2 : action_eqb (s_act d2) Tarball = false) by (destruct Ha as [<-|[<-|[<-|[<-|[]]]]]; reflexivity).
  rewrite Ht2. cbn [h_ok h_fs]. auto.
Qed.

(* ------------------------- content: a task that passed input staging has its files *)

(* tasks handed on by the per-task loop are exactly those whose staging succeeded *)
Lemma handle_loop_pushed handle okst l : forall fs,
  let '(_, pushed, _) := handle_loop handle okst l fs in
  Forall (fun t' => exists t0 fsx, In t0 l /\ t' = fold_left advance (okst t0) t0 /\ h_ok (handle t0 fsx) = true)
         pushed.
Proof.
  induction l as [|t l IH]; intro fs; [constructor|].
  cbn [handle_loop]. specialize (IH (h_fs (handle t fs))).
  destruct (handle_loop handle okst l (h_fs (handle t fs))) as [[fs' pushed] failed].
  assert (Hw : Forall (fun t' => exists t0 fsx, In t0 (t :: l) /\ t' = fold_left advance (okst t0) t0 /\
                                                h_ok (handle t0 fsx) = true) pushed).
  { eapply Forall_impl; [|exact IH]. intros a [t0 [fsx [Hin H]]]. exists t0, fsx. split; [right; exact Hin|exact H]. }
  destruct (h_ok (handle t fs)) eqn:E; [|exact Hw].
  constructor; [|exact Hw]. exists t, fs. split; [left; reflexivity|]. split; [reflexivity|exact E].
Qed.

(* staging preserves content.  Every task the agent input stager hands on was
   handled successfully in some state fsx, and in the state it left every path
   holds what the last directive writing it put there -- the content its source
   had when that directive ran -- all other files being untouched (lists of
   copy/link directives on files; MOVE, TARBALL and directory trees per
   directive: C11_action_staged, C11_tarball_unpacked_in_place,
   C11_directory_action_staged) *)
Lemma passed_input_content l fs :
  let '(_, pushed, _) := handle_loop agent_si_handle (fun _ => [AGENT_SCHEDULING_PENDING]) l fs in
  Forall (fun t' => exists t0 fsx,
            In t0 l /\ t' = advance t0 AGENT_SCHEDULING_PENDING /\ h_ok (agent_si_handle t0 fsx) = true /\
            let ds := filter (has_action [Link; Copy; Move; Tarball]) (t_in t0) in
            (forallb keeps ds = true -> files_only (agent_in_step t0) ds fsx = true ->
             List.length (h_log (agent_si_handle t0 fsx)) = List.length ds /\
             forall q, file_at q (h_fs (agent_si_handle t0 fsx)) =
                       match last_write q (h_log (agent_si_handle t0 fsx)) with
                       | Some c => Some c
                       | None => file_at q fsx
                       end)) pushed.
Proof.
  pose proof (handle_loop_pushed agent_si_handle (fun _ => [AGENT_SCHEDULING_PENDING]) l fs) as H.
  destruct (handle_loop agent_si_handle (fun _ => [AGENT_SCHEDULING_PENDING]) l fs) as [[fs' pushed] failed].
  eapply Forall_impl; [|exact H]. intros t' [t0 [fsx [Hin [Ht' Hok]]]].
  exists t0, fsx. split; [exact Hin|]. split; [exact Ht'|]. split; [exact Hok|].
  intros ds Hk Hfo. exact (agent_input_last_writer t0 ds fsx Hk Hfo Hok).
Qed.

(* the client packs exactly the sources of the TARBALL directives: every such
   directive has its member in the tarball, named by the resolved target and
   carrying the content of the resolved source *)
Lemma tar_filter_members sctx tctx l : forall have fs na m,
  tar_filter sctx tctx l have fs = Some (na, m) ->
  forall d, In d l -> action_eqb (s_act d) Tarball = true ->
  exists s g z, complete_url sctx (s_src d) = inr s /\ complete_url tctx (s_tgt d) = inr g /\
                file_at (r_comps s) fs = Some (Plain z) /\ In (r_comps g, z) m.
Proof.
  induction l as [|d0 l IH]; intros have fs na m H d Hin Ht; [contradiction|].
  cbn [tar_filter] in H.
  destruct (action_eqb (s_act d0) Tarball) eqn:E0; cbn [negb] in H.
  - destruct (complete_url sctx (s_src d0)) as [|s0] eqn:Es; [discriminate|].
    destruct (complete_url tctx (s_tgt d0)) as [|g0] eqn:Eg; [discriminate|].
    destruct (r_empty s0); [discriminate|].
    destruct (file_at (r_comps s0) fs) as [[z0|mm]|] eqn:Ef; try discriminate.
    destruct (tar_filter sctx tctx l true fs) as [[na' m']|] eqn:Er; [|discriminate].
    injection H as _ <-.
    destruct Hin as [<-|Hin].
    + exists s0, g0, z0. repeat split; try assumption. left. reflexivity.
    + destruct (IH _ _ _ _ Er d Hin Ht) as [s [g [z [H1 [H2 [H3 H4]]]]]].
      exists s, g, z. repeat split; try assumption. right. exact H4.
  - destruct (tar_filter sctx tctx l have fs) as [[na' m']|] eqn:Er; [|discriminate].
    injection H as _ <-.
    destruct Hin as [<-|Hin]; [rewrite E0 in Ht; discriminate|].
    exact (IH _ _ _ _ Er d Hin Ht).
Qed.
