(* Lemmas about Staging.Model: short-form expansion, URL resolution, the file
   operations (post-condition + frame), directive lists (induction), the
   skip-on-failure rule and the per-task failure handling of the stagers. *)
From Coq Require Import ZArith List Bool String Ascii Lia Permutation.
From RP Require Import Common.Eqb Staging.Model.
Import ListNotations.
Open Scope string_scope.
Open Scope list_scope.

(* ------------------------------------------------------------------ strings *)

Fixpoint nochar (c : ascii) (s : string) : bool :=
  match s with
  | EmptyString => true
  | String x s' => negb (Ascii.eqb c x) && nochar c s'
  end.

Lemma nochar_app c a b : nochar c (a +++ b) = nochar c a && nochar c b.
Proof. induction a as [|x a IH]; simpl; [reflexivity|]. rewrite IH, andb_assoc. reflexivity. Qed.

Lemma pre_app s b : pre s (s +++ b) = true.
Proof. induction s as [|x s IH]; simpl; [reflexivity|]. rewrite Ascii.eqb_refl. exact IH. Qed.

Lemma drop_app s b : drop (String.length s) (s +++ b) = b.
Proof. induction s as [|x s IH]; simpl; [reflexivity|exact IH]. Qed.

Lemma app_assoc_s a b c : (a +++ b) +++ c = a +++ (b +++ c).
Proof. induction a as [|x a IH]; simpl; [reflexivity|]. rewrite IH. reflexivity. Qed.

Lemma split_at_eq sep s :
  split_at sep s =
  if pre sep s then Some (EmptyString, drop (String.length sep) s)
  else match s with
       | EmptyString => None
       | String c s' => match split_at sep s' with Some (a, b) => Some (String c a, b) | None => None end
       end.
Proof. destruct s; reflexivity. Qed.

(* a separator starting with c is not found in a string without c *)
Lemma split_at_nochar c sep s : nochar c s = true -> split_at (String c sep) s = None.
Proof.
  induction s as [|x s IH]; intro H; simpl in *.
  - reflexivity.
  - apply andb_true_iff in H as [H1 H2]. apply negb_true_iff in H1. rewrite H1. simpl.
    rewrite (IH H2). reflexivity.
Qed.

(* ... and the first occurrence after a c-free prefix is the split point *)
Lemma split_at_app c sep a b :
  nochar c a = true -> split_at (String c sep) (a +++ String c sep +++ b) = Some (a, b).
Proof.
  induction a as [|x a IH]; intro H.
  - change (EmptyString +++ String c sep +++ b) with (String c sep +++ b).
    rewrite split_at_eq. rewrite pre_app. rewrite drop_app. reflexivity.
  - simpl in H. apply andb_true_iff in H as [H1 H2]. apply negb_true_iff in H1.
    change (String x a +++ String c sep +++ b) with (String x (a +++ String c sep +++ b)).
    rewrite split_at_eq.
    replace (pre (String c sep) (String x (a +++ String c sep +++ b))) with false
      by (simpl; rewrite H1; reflexivity).
    rewrite (IH H2). reflexivity.
Qed.

(* a doubled separator is not found when c occurs only once *)
Lemma split_at_double_none c a b :
  nochar c a = true -> nochar c b = true ->
  split_at (String c (String c EmptyString)) (a +++ String c EmptyString +++ b) = None.
Proof.
  intros Ha Hb. induction a as [|x a IH].
  - change (EmptyString +++ String c EmptyString +++ b) with (String c b).
    rewrite split_at_eq.
    replace (pre (String c (String c EmptyString)) (String c b)) with false.
    + rewrite (split_at_nochar c _ b Hb). reflexivity.
    + simpl. rewrite Ascii.eqb_refl. destruct b as [|y b]; [reflexivity|].
      simpl in Hb. apply andb_true_iff in Hb as [Hb1 _]. apply negb_true_iff in Hb1.
      simpl. rewrite Hb1. reflexivity.
  - simpl in Ha. apply andb_true_iff in Ha as [H1 H2]. apply negb_true_iff in H1.
    change (String x a +++ String c EmptyString +++ b) with (String x (a +++ String c EmptyString +++ b)).
    rewrite split_at_eq.
    replace (pre (String c (String c EmptyString)) (String x (a +++ String c EmptyString +++ b))) with false
      by (simpl; rewrite H1; reflexivity).
    rewrite (IH H2). reflexivity.
Qed.

Notation gt := (">"%char).
Notation lt := ("<"%char).
Definition plain (s : string) : bool := nochar gt s && nochar lt s.

Lemma contains_nochar c sep s : nochar c s = true -> contains (String c sep) s = false.
Proof. intro H. unfold contains. rewrite (split_at_nochar _ _ _ H). reflexivity. Qed.

Lemma py_split2_app c sep a b :
  nochar c a = true -> nochar c b = true ->
  py_split2 (String c sep) (a +++ String c sep +++ b) = inr (a, b).
Proof.
  intros Ha Hb. unfold py_split2. rewrite (split_at_app _ _ _ _ Ha).
  rewrite (contains_nochar _ _ _ Hb). reflexivity.
Qed.

Lemma contains_app c sep a b :
  nochar c a = true -> contains (String c sep) (a +++ String c sep +++ b) = true.
Proof. intro Ha. unfold contains. rewrite (split_at_app _ _ _ _ Ha). reflexivity. Qed.

Ltac plain_split H :=
  unfold plain in H; apply andb_true_iff in H; destruct H.

(* meaning of the four short forms *)
Lemma short_gtgt a b : plain a = true -> plain b = true ->
  expand1 (SStr (a +++ ">>" +++ b)) = inr {| s_src := strip a; s_tgt := strip b; s_act := Transfer |}.
Proof.
  intros Ha Hb. plain_split Ha. plain_split Hb. unfold expand1.
  rewrite (contains_app gt ">" a b) by assumption.
  rewrite (py_split2_app gt ">" a b) by assumption. reflexivity.
Qed.

Lemma short_gt a b : plain a = true -> plain b = true ->
  expand1 (SStr (a +++ ">" +++ b)) = inr {| s_src := strip a; s_tgt := strip b; s_act := Transfer |}.
Proof.
  intros Ha Hb. plain_split Ha. plain_split Hb. unfold expand1.
  replace (contains ">>" (a +++ ">" +++ b)) with false
    by (unfold contains; rewrite (split_at_double_none gt a b) by assumption; reflexivity).
  rewrite (contains_app gt "" a b) by assumption.
  rewrite (py_split2_app gt "" a b) by assumption. reflexivity.
Qed.

Lemma nochar_mid c d a b : Ascii.eqb c d = false ->
  nochar c a = true -> nochar c b = true -> forall sep, nochar c sep = true ->
  nochar c (a +++ sep +++ b) = true.
Proof. intros _ Ha Hb sep Hs. rewrite !nochar_app, Ha, Hs, Hb. reflexivity. Qed.

Lemma short_ltlt a b : plain a = true -> plain b = true ->
  expand1 (SStr (b +++ "<<" +++ a)) = inr {| s_src := strip a; s_tgt := strip b; s_act := Transfer |}.
Proof.
  intros Ha Hb. plain_split Ha. plain_split Hb. unfold expand1.
  assert (Hn : nochar gt (b +++ "<<" +++ a) = true) by (rewrite !nochar_app; simpl; rewrite H1, H; reflexivity).
  rewrite (contains_nochar gt ">" _ Hn). rewrite (contains_nochar gt "" _ Hn).
  rewrite (contains_app lt "<" b a) by assumption.
  rewrite (py_split2_app lt "<" b a) by assumption. reflexivity.
Qed.

Lemma short_lt a b : plain a = true -> plain b = true ->
  expand1 (SStr (b +++ "<" +++ a)) = inr {| s_src := strip a; s_tgt := strip b; s_act := Transfer |}.
Proof.
  intros Ha Hb. plain_split Ha. plain_split Hb. unfold expand1.
  assert (Hn : nochar gt (b +++ "<" +++ a) = true) by (rewrite !nochar_app; simpl; rewrite H1, H; reflexivity).
  rewrite (contains_nochar gt ">" _ Hn). rewrite (contains_nochar gt "" _ Hn).
  replace (contains "<<" (b +++ "<" +++ a)) with false
    by (unfold contains; rewrite (split_at_double_none lt b a) by assumption; reflexivity).
  rewrite (contains_app lt "" b a) by assumption.
  rewrite (py_split2_app lt "" b a) by assumption. reflexivity.
Qed.

Lemma short_none a : plain a = true ->
  expand1 (SStr a) = inr {| s_src := strip a; s_tgt := strip (url_basename a); s_act := Transfer |}.
Proof.
  intros Ha. plain_split Ha. unfold expand1.
  rewrite (contains_nochar gt ">" _ H), (contains_nochar gt "" _ H).
  rewrite (contains_nochar lt "<" _ H0), (contains_nochar lt "" _ H0). reflexivity.
Qed.

(* too many operators: the code raises ValueError *)
Lemma short_two_gt a b c : plain a = true -> plain b = true ->
  expand1 (SStr (a +++ ">" +++ b +++ ">" +++ c)) = inl EValue \/
  contains ">>" (a +++ ">" +++ b +++ ">" +++ c) = true.
Proof.
  intros Ha Hb. plain_split Ha. plain_split Hb.
  destruct (contains ">>" (a +++ ">" +++ b +++ ">" +++ c)) eqn:E; [right; reflexivity|left].
  unfold expand1. rewrite E.
  rewrite (contains_app gt "" a (b +++ ">" +++ c)) by assumption.
  unfold sum_map, py_split2. rewrite (split_at_app gt "" a (b +++ ">" +++ c)) by assumption.
  rewrite (contains_app gt "" b c) by assumption. reflexivity.
Qed.

(* ---- idempotence *)
Lemma expand1_as_dict d : nonempty (s_src d) = true -> expand1 (as_dict d) = inr d.
Proof. intro H. destruct d as [s t a]. simpl in *. rewrite H. reflexivity. Qed.

Lemma expand_as_dict l :
  forallb (fun d => nonempty (s_src d)) l = true -> expand (map as_dict l) = inr l.
Proof.
  induction l as [|d l IH]; intro H; [reflexivity|].
  cbn [forallb] in H. apply andb_true_iff in H as [H1 H2].
  cbn [map expand]. rewrite (expand1_as_dict d H1). rewrite (IH H2). reflexivity.
Qed.

(* ------------------------------------------------------------ URL resolution *)

Notation colon := (":"%char).
Notation sl := ("/"%char).

Lemma parse_url_schema sch rest :
  nochar colon sch = true ->
  parse_url (sch +++ "://" +++ rest) =
  match split_at "/" rest with
  | Some (h, p) => {| u_schema := sch; u_host := h; u_path := parse_path (String slash p) |}
  | None => {| u_schema := sch; u_host := rest; u_path := parse_path EmptyString |}
  end.
Proof. intro H. unfold parse_url. rewrite (split_at_app colon "//" sch rest H). reflexivity. Qed.

Lemma comps_of_slash p : comps_of (String slash p) = comps_of p.
Proof. reflexivity. Qed.

(* schema:///path with schema in the context: context[schema] ++ "/" ++ path *)
Lemma resolve_sandbox ctx sch base p :
  nochar colon sch = true -> nonempty sch = true -> String.eqb sch "file" = false ->
  assoc sch ctx = Some base ->
  exists r, complete_url ctx (sch +++ ":///" +++ p) = inr r /\
            r_comps r = p_comps (u_path base) ++ comps_of p /\ r_schema r = u_schema base /\ r_empty r = false.
Proof.
  intros Hc Hn Hf Ha. unfold complete_url.
  change (sch +++ ":///" +++ p) with (sch +++ "://" +++ (String slash p)).
  rewrite (parse_url_schema sch (String slash p) Hc).
  change (split_at "/" (String slash p)) with (Some (EmptyString, p)).
  cbn [u_schema u_host u_path]. rewrite Hn. rewrite Ha. cbn [nonempty String.eqb negb]. rewrite Hf.
  eexists. split; [reflexivity|]. cbn [r_comps r_schema r_empty parse_path p_comps]. auto.
Qed.

(* a host part is rejected for every schema the context expands *)
Lemma resolve_host ctx sch base h p :
  nochar colon sch = true -> nonempty sch = true -> nochar sl h = true -> nonempty h = true ->
  assoc sch ctx = Some base ->
  complete_url ctx (sch +++ "://" +++ h +++ "/" +++ p) = inl EValue.
Proof.
  intros Hc Hn Hs Hh Ha. unfold complete_url.
  rewrite (parse_url_schema sch (h +++ "/" +++ p) Hc).
  rewrite (split_at_app sl "" h p Hs).
  cbn [u_schema u_host u_path]. rewrite Hn, Ha, Hh. reflexivity.
Qed.

(* schema-less relative path: context['pwd'] ++ "/" ++ path *)
Lemma resolve_relative ctx raw base :
  contains "://" raw = false -> pre "/" raw = false -> nonempty raw = true ->
  assoc "pwd" ctx = Some base ->
  exists r, complete_url ctx raw = inr r /\
            r_comps r = p_comps (u_path base) ++ comps_of raw /\ r_schema r = u_schema base /\ r_empty r = false.
Proof.
  intros Hc Hp Hn Ha. unfold complete_url, parse_url.
  unfold contains in Hc. destruct (split_at "://" raw) as [[? ?]|] eqn:E; [discriminate|].
  cbn [u_schema u_host u_path nonempty String.eqb negb]. rewrite Hp. rewrite Ha.
  cbn [String.eqb Ascii.eqb Bool.eqb andb].
  eexists. split; [reflexivity|]. cbn [r_comps r_schema r_empty parse_path p_comps]. auto.
Qed.

(* schema-less absolute path: left alone (no context has a 'file' entry) *)
Lemma resolve_absolute ctx raw :
  contains "://" raw = false -> pre "/" raw = true -> assoc "file" ctx = None ->
  exists r, complete_url ctx raw = inr r /\ r_comps r = comps_of raw /\ r_schema r = "file".
Proof.
  intros Hc Hp Ha. unfold complete_url, parse_url.
  unfold contains in Hc. destruct (split_at "://" raw) as [[? ?]|] eqn:E; [discriminate|].
  cbn [u_schema u_host u_path nonempty String.eqb negb]. rewrite Hp. rewrite Ha.
  eexists. split; [reflexivity|]. cbn [rloc_of r_comps r_schema p_comps parse_path]. auto.
Qed.

(* ---------------------------------------------------------------- file system *)

Lemma path_eqb_eq a b : path_eqb a b = true <-> a = b.
Proof.
  revert b; induction a as [|x a IH]; intros [|y b]; simpl; split; intro H; try reflexivity; try discriminate.
  - apply andb_true_iff in H as [H1 H2]. apply String.eqb_eq in H1. apply IH in H2. congruence.
  - injection H as -> ->. rewrite String.eqb_refl. apply IH. reflexivity.
Qed.

Lemma path_eqb_refl a : path_eqb a a = true.
Proof. apply path_eqb_eq. reflexivity. Qed.

Lemma path_eqb_neq a b : a <> b -> path_eqb a b = false.
Proof. intro H. destruct (path_eqb a b) eqn:E; [apply path_eqb_eq in E; contradiction|reflexivity]. Qed.

Lemma lookup_set_eq p n fs : lookup p (set p n fs) = Some n.
Proof. unfold set. simpl. rewrite path_eqb_refl. reflexivity. Qed.

Lemma lookup_set_neq p q n fs : q <> p -> lookup q (set p n fs) = lookup q fs.
Proof. intro H. unfold set. simpl. rewrite (path_eqb_neq _ _ H). reflexivity. Qed.

Lemma lookup_del_eq p fs : lookup p (del p fs) = None.
Proof.
  induction fs as [|[q n] fs IH]; simpl; [reflexivity|].
  destruct (path_eqb p q) eqn:E; simpl; [exact IH|]. rewrite E. exact IH.
Qed.

Lemma lookup_del_neq p q fs : q <> p -> lookup q (del p fs) = lookup q fs.
Proof.
  intro H. induction fs as [|[r n] fs IH]; simpl; [reflexivity|].
  destruct (path_eqb p r) eqn:E; simpl.
  - apply path_eqb_eq in E. subst r. rewrite (path_eqb_neq _ _ H). exact IH.
  - destruct (path_eqb q r); [reflexivity|exact IH].
Qed.

Lemma file_at_set_eq p c fs : file_at p (set p (F c) fs) = Some c.
Proof. unfold file_at. rewrite lookup_set_eq. reflexivity. Qed.

Lemma file_at_set_neq p q n fs : q <> p -> file_at q (set p n fs) = file_at q fs.
Proof. intro H. unfold file_at. rewrite (lookup_set_neq _ _ _ _ H). reflexivity. Qed.

Lemma file_at_del_neq p q fs : q <> p -> file_at q (del p fs) = file_at q fs.
Proof. intro H. unfold file_at. rewrite (lookup_del_neq _ _ _ H). reflexivity. Qed.

(* creating directories never creates, removes or changes a file *)
Lemma mkdirs_file_at rest : forall pre_ fs fs', mkdirs pre_ rest fs = Some fs' ->
  forall q, file_at q fs' = file_at q fs.
Proof.
  induction rest as [|c rest IH]; intros pre_ fs fs' H q; simpl in H.
  - injection H as <-. reflexivity.
  - destruct (lookup (pre_ ++ [c]) fs) as [[|cc]|] eqn:E.
    + exact (IH _ _ _ H q).
    + destruct rest; [injection H as <-; reflexivity|discriminate].
    + rewrite (IH _ _ _ H q). unfold file_at.
      destruct (path_eqb q (pre_ ++ [c])) eqn:Eq.
      * apply path_eqb_eq in Eq. subst q. rewrite lookup_set_eq, E. reflexivity.
      * unfold set. simpl. rewrite Eq. reflexivity.
Qed.

Lemma mkdir_p_file_at p fs fs' : mkdir_p p fs = Some fs' -> forall q, file_at q fs' = file_at q fs.
Proof. exact (mkdirs_file_at p [] fs fs'). Qed.

(* what a successful operation guarantees: the written path holds the content
   the source had, everything else keeps its content (except the source of a
   move) *)
Definition op_spec (moved : bool) (s g : rloc) (fs fs' : fsys) (e : path) : Prop :=
  exists c, file_at (r_comps s) fs = Some c /\ file_at e fs' = Some c /\
            (e = r_comps g \/ e = r_comps g ++ [last (r_comps s) EmptyString]) /\
            (forall q, q <> e -> (moved = true -> q <> r_comps s) -> file_at q fs' = file_at q fs).

Lemma op_copy_spec s g fs fs' e : op_copy s g fs = Ok fs' e -> op_spec false s g fs fs' e.
Proof.
  unfold op_copy. destruct (r_empty g); [discriminate|].
  destruct (mkdir_p (dirname_of g) fs) as [fs1|] eqn:Em; [|discriminate].
  destruct (r_empty s); [discriminate|].
  destruct (file_at (r_comps s) fs1) as [c|] eqn:Ef; [|discriminate].
  unfold cp_into.
  destruct (is_dir (r_comps g) fs1) eqn:Egd.
  - destruct (r_trail g && negb true); [discriminate|].
    destruct (is_dir (r_comps g ++ [last (r_comps s) ""]) fs1); [discriminate|].
    destruct (negb (is_dir (parent (r_comps g ++ [last (r_comps s) ""])) fs1)); [discriminate|].
    destruct (path_eqb (r_comps s) (r_comps g ++ [last (r_comps s) ""])); [discriminate|].
    intro H. injection H as <- <-.
    exists c. split; [rewrite <- (mkdir_p_file_at _ _ _ Em); exact Ef|].
    split; [apply file_at_set_eq|]. split; [auto|].
    intros q Hq _. rewrite (file_at_set_neq _ _ _ _ Hq). apply (mkdir_p_file_at _ _ _ Em).
  - destruct (r_trail g && negb false); [discriminate|].
    destruct (is_dir (r_comps g) fs1); [discriminate|].
    destruct (negb (is_dir (parent (r_comps g)) fs1)); [discriminate|].
    destruct (path_eqb (r_comps s) (r_comps g)); [discriminate|].
    intro H. injection H as <- <-.
    exists c. split; [rewrite <- (mkdir_p_file_at _ _ _ Em); exact Ef|].
    split; [apply file_at_set_eq|]. split; [auto|].
    intros q Hq _. rewrite (file_at_set_neq _ _ _ _ Hq). apply (mkdir_p_file_at _ _ _ Em).
Qed.

Lemma op_link_spec s g fs fs' e : op_link s g fs = Ok fs' e -> op_spec false s g fs fs' e.
Proof.
  unfold op_link. destruct (r_empty g); [discriminate|].
  destruct (mkdir_p (dirname_of g) fs) as [fs1|] eqn:Em; [|discriminate].
  destruct (r_empty s); [discriminate|].
  destruct (file_at (r_comps s) fs1) as [c|] eqn:Ef; [|discriminate].
  destruct (r_trail g || exists_at (r_comps g) fs1); [discriminate|].
  destruct (negb (is_dir (parent (r_comps g)) fs1)); [discriminate|].
  intro H. injection H as <- <-.
  exists c. split; [rewrite <- (mkdir_p_file_at _ _ _ Em); exact Ef|].
  split; [apply file_at_set_eq|]. split; [auto|].
  intros q Hq _. rewrite (file_at_set_neq _ _ _ _ Hq). apply (mkdir_p_file_at _ _ _ Em).
Qed.

Lemma op_move_spec s g fs fs' e : op_move s g fs = Ok fs' e -> op_spec true s g fs fs' e.
Proof.
  unfold op_move. destruct (r_empty g); [discriminate|].
  destruct (mkdir_p (dirname_of g) fs) as [fs1|] eqn:Em; [|discriminate].
  destruct (r_empty s); [discriminate|].
  destruct (file_at (r_comps s) fs1) as [c|] eqn:Ef; [|discriminate].
  destruct (is_dir (r_comps g) fs1) eqn:Egd.
  - destruct (true && exists_at (r_comps g ++ [last (r_comps s) ""]) fs1); [discriminate|].
    destruct (r_trail g && negb true); [discriminate|].
    destruct (negb (is_dir (parent (r_comps g ++ [last (r_comps s) ""])) fs1)); [discriminate|].
    intro H. injection H as <- <-.
    exists c. split; [rewrite <- (mkdir_p_file_at _ _ _ Em); exact Ef|].
    split; [apply file_at_set_eq|]. split; [auto|].
    intros q Hq Hs. rewrite (file_at_set_neq _ _ _ _ Hq).
    rewrite (file_at_del_neq _ _ _ (Hs eq_refl)). apply (mkdir_p_file_at _ _ _ Em).
  - destruct (false && exists_at (r_comps g) fs1); [discriminate|].
    destruct (r_trail g && negb false); [discriminate|].
    destruct (negb (is_dir (parent (r_comps g)) fs1)); [discriminate|].
    intro H. injection H as <- <-.
    exists c. split; [rewrite <- (mkdir_p_file_at _ _ _ Em); exact Ef|].
    split; [apply file_at_set_eq|]. split; [auto|].
    intros q Hq Hs. rewrite (file_at_set_neq _ _ _ _ Hq).
    rewrite (file_at_del_neq _ _ _ (Hs eq_refl)). apply (mkdir_p_file_at _ _ _ Em).
Qed.

Definition is_move (a : action) : bool := action_eqb a Move.

Lemma handle_sd_spec a s g fs fs' e :
  handle_sd a s g fs = Ok fs' e -> op_spec (is_move a) s g fs fs' e.
Proof.
  destruct a; simpl; intro H; try discriminate.
  - exact (op_copy_spec _ _ _ _ _ H).
  - exact (op_copy_spec _ _ _ _ _ H).
  - exact (op_link_spec _ _ _ _ _ H).
  - exact (op_move_spec _ _ _ _ _ H).
Qed.

(* a failing operation never destroys a file (it may have created directories) *)
Lemma handle_sd_fail a s g fs fs' : handle_sd a s g fs = Fail fs' -> forall q, file_at q fs' = file_at q fs.
Proof.
  assert (Hcp : forall c b so g0 f f', cp_into c b so g0 f = Fail f' -> f' = f).
  { intros c b so g0 f f'. unfold cp_into.
    repeat match goal with |- context [if ?x then _ else _] => destruct x end; intro H; try discriminate;
      injection H as <-; reflexivity. }
  destruct a; simpl; intros H q; try (injection H as <-; reflexivity).
  - unfold op_copy in H. destruct (r_empty g); [injection H as <-; reflexivity|].
    destruct (mkdir_p (dirname_of g) fs) as [fs1|] eqn:Em; [|injection H as <-; reflexivity].
    destruct (r_empty s); [injection H as <-; exact (mkdir_p_file_at _ _ _ Em q)|].
    destruct (file_at (r_comps s) fs1); [|injection H as <-; exact (mkdir_p_file_at _ _ _ Em q)].
    apply Hcp in H. subst fs'. exact (mkdir_p_file_at _ _ _ Em q).
  - unfold op_copy in H. destruct (r_empty g); [injection H as <-; reflexivity|].
    destruct (mkdir_p (dirname_of g) fs) as [fs1|] eqn:Em; [|injection H as <-; reflexivity].
    destruct (r_empty s); [injection H as <-; exact (mkdir_p_file_at _ _ _ Em q)|].
    destruct (file_at (r_comps s) fs1); [|injection H as <-; exact (mkdir_p_file_at _ _ _ Em q)].
    apply Hcp in H. subst fs'. exact (mkdir_p_file_at _ _ _ Em q).
  - unfold op_link in H. destruct (r_empty g); [injection H as <-; reflexivity|].
    destruct (mkdir_p (dirname_of g) fs) as [fs1|] eqn:Em; [|injection H as <-; reflexivity].
    destruct (r_empty s); [injection H as <-; exact (mkdir_p_file_at _ _ _ Em q)|].
    destruct (file_at (r_comps s) fs1); [|injection H as <-; exact (mkdir_p_file_at _ _ _ Em q)].
    repeat match type of H with context [if ?x then _ else _] => destruct x end; try discriminate;
      injection H as <-; exact (mkdir_p_file_at _ _ _ Em q).
  - unfold op_move in H. destruct (r_empty g); [injection H as <-; reflexivity|].
    destruct (mkdir_p (dirname_of g) fs) as [fs1|] eqn:Em; [|injection H as <-; reflexivity].
    destruct (r_empty s); [injection H as <-; exact (mkdir_p_file_at _ _ _ Em q)|].
    destruct (file_at (r_comps s) fs1); [|injection H as <-; exact (mkdir_p_file_at _ _ _ Em q)].
    repeat match type of H with context [if ?x then _ else _] => destruct x end; try discriminate;
      injection H as <-; exact (mkdir_p_file_at _ _ _ Em q).
Qed.

(* -------------------------------------------------- directive lists (induction) *)

Definition keeps (d : sd) : bool := negb (action_eqb (s_act d) Move) && negb (action_eqb (s_act d) Tarball).

Section Steps.
  Variable step : sd -> fsys -> res.
  (* a successful non-move, non-tarball step writes one file and keeps the rest *)
  Hypothesis step_frame : forall d fs fs' e, step d fs = Ok fs' e -> keeps d = true ->
    exists c, file_at e fs' = Some c /\ forall q, q <> e -> file_at q fs' = file_at q fs.

  Lemma steps_acc l : forall fs lg,
    steps step l fs lg =
    {| h_ok := h_ok (steps step l fs []); h_fs := h_fs (steps step l fs []);
       h_log := lg ++ h_log (steps step l fs []) |}.
  Proof.
    induction l as [|d l IH]; intros fs lg; cbn [steps].
    - cbn [h_ok h_fs h_log]. rewrite app_nil_r. reflexivity.
    - destruct (step d fs) as [fs1 e|fs1].
      + destruct (action_eqb (s_act d) Tarball).
        * rewrite (IH fs1 lg). reflexivity.
        * rewrite (IH fs1 (lg ++ _)). rewrite (IH fs1 ([] ++ _)). cbn [h_ok h_fs h_log app].
          rewrite <- app_assoc. reflexivity.
      + cbn [h_ok h_fs h_log]. rewrite app_nil_r. reflexivity.
  Qed.

  (* paths not written by the list keep their content *)
  Lemma steps_frame l : forall fs, forallb keeps l = true -> h_ok (steps step l fs []) = true ->
    forall q, ~ In q (map fst (h_log (steps step l fs []))) ->
    file_at q (h_fs (steps step l fs [])) = file_at q fs.
  Proof.
    induction l as [|d l IH]; intros fs Hk Hok q Hq; [reflexivity|].
    cbn [forallb] in Hk. apply andb_true_iff in Hk as [Hk1 Hk2].
    cbn [steps] in *. destruct (step d fs) as [fs1 e|fs1] eqn:Es; [|discriminate].
    assert (Ht : action_eqb (s_act d) Tarball = false)
      by (unfold keeps in Hk1; apply andb_true_iff in Hk1 as [_ H]; apply negb_true_iff in H; exact H).
    rewrite Ht in *. rewrite steps_acc in *. cbn [h_ok h_fs h_log app] in *.
    destruct (step_frame _ _ _ _ Es Hk1) as [c [Hc Hf]].
    rewrite (IH fs1 Hk2 Hok q); [|intro Hin; apply Hq; cbn [map fst]; right; exact Hin].
    apply Hf. intro Heq. apply Hq. cbn [map fst]. left. symmetry. exact Heq.
  Qed.

  (* every directive of a successful list is logged, and -- targets being
     pairwise different -- every logged path still holds what was written *)
  Lemma steps_persist l : forall fs, forallb keeps l = true -> h_ok (steps step l fs []) = true ->
    NoDup (map fst (h_log (steps step l fs []))) ->
    List.length (h_log (steps step l fs [])) = List.length l /\
    Forall (fun ec => file_at (fst ec) (h_fs (steps step l fs [])) = Some (snd ec)) (h_log (steps step l fs [])).
  Proof.
    induction l as [|d l IH]; intros fs Hk Hok Hnd; [split; [reflexivity|constructor]|].
    cbn [forallb] in Hk. apply andb_true_iff in Hk as [Hk1 Hk2].
    cbn [steps] in *. destruct (step d fs) as [fs1 e|fs1] eqn:Es; [|discriminate].
    assert (Ht : action_eqb (s_act d) Tarball = false)
      by (unfold keeps in Hk1; apply andb_true_iff in Hk1 as [_ H]; apply negb_true_iff in H; exact H).
    rewrite Ht in *. rewrite steps_acc in *. cbn [h_ok h_fs h_log app map fst] in *.
    destruct (step_frame _ _ _ _ Es Hk1) as [c [Hc Hf]].
    inversion Hnd as [|x xs Hnotin Hnd']; subst.
    destruct (IH fs1 Hk2 Hok Hnd') as [Hlen Hall].
    split; [cbn [List.length]; rewrite Hlen; reflexivity|].
    constructor; [|exact Hall].
    cbn [fst snd]. rewrite (steps_frame l fs1 Hk2 Hok e Hnotin). rewrite Hc. reflexivity.
  Qed.
End Steps.

(* one directive of the agent input stager: the written path is the resolved
   target (or target/basename when the target is a directory) and holds the
   content the resolved source had when the directive ran *)
Lemma agent_in_step_spec t d fs fs' e :
  agent_in_step t d fs = Ok fs' e -> action_eqb (s_act d) Tarball = false ->
  exists s g, complete_url (agent_ctx (t_sb t)) (s_src d) = inr s /\
              complete_url (agent_ctx (t_sb t)) (agent_fix_tgt (s_src d) (s_tgt d) fs) = inr g /\
              op_spec (is_move (s_act d)) s g fs fs' e.
Proof.
  unfold agent_in_step. intros H Ht.
  destruct (complete_url (agent_ctx (t_sb t)) (s_src d)) as [|s]; [discriminate|].
  destruct (complete_url (agent_ctx (t_sb t)) (agent_fix_tgt (s_src d) (s_tgt d) fs)) as [|g]; [discriminate|].
  destruct (has_action [Copy; Link; Move] d && negb (r_schema g =? "file")); [discriminate|].
  rewrite Ht in H. exists s, g. split; [reflexivity|]. split; [reflexivity|].
  exact (handle_sd_spec _ _ _ _ _ _ H).
Qed.

Lemma agent_out_step_spec t d fs fs' e :
  agent_out_step t d fs = Ok fs' e ->
  exists s g, complete_url (agent_ctx (t_sb t)) (s_src d) = inr s /\
              complete_url (agent_ctx (t_sb t)) (agent_fix_tgt (s_src d) (s_tgt d) fs) = inr g /\
              op_spec (is_move (s_act d)) s g fs fs' e.
Proof.
  unfold agent_out_step. intros H.
  destruct (complete_url (agent_ctx (t_sb t)) (s_src d)) as [|s]; [discriminate|].
  destruct (complete_url (agent_ctx (t_sb t)) (agent_fix_tgt (s_src d) (s_tgt d) fs)) as [|g]; [discriminate|].
  destruct (negb (r_schema s =? "file")); [discriminate|].
  destruct (negb (r_schema g =? "file")); [discriminate|].
  exists s, g. split; [reflexivity|]. split; [reflexivity|].
  exact (handle_sd_spec _ _ _ _ _ _ H).
Qed.

Lemma keeps_not_move d : keeps d = true -> is_move (s_act d) = false /\ action_eqb (s_act d) Tarball = false.
Proof. unfold keeps, is_move. intro H. apply andb_true_iff in H as [H1 H2]. split; apply negb_true_iff; assumption. Qed.

Lemma agent_in_frame t d fs fs' e : agent_in_step t d fs = Ok fs' e -> keeps d = true ->
  exists c, file_at e fs' = Some c /\ forall q, q <> e -> file_at q fs' = file_at q fs.
Proof.
  intros H Hk. destruct (keeps_not_move d Hk) as [Hm Ht].
  destruct (agent_in_step_spec _ _ _ _ _ H Ht) as [s [g [_ [_ [c [_ [Hc [_ Hf]]]]]]]].
  exists c. split; [exact Hc|]. intros q Hq. apply Hf; [exact Hq|]. rewrite Hm. discriminate.
Qed.

Lemma agent_out_frame t d fs fs' e : agent_out_step t d fs = Ok fs' e -> keeps d = true ->
  exists c, file_at e fs' = Some c /\ forall q, q <> e -> file_at q fs' = file_at q fs.
Proof.
  intros H Hk. destruct (keeps_not_move d Hk) as [Hm Ht].
  destruct (agent_out_step_spec _ _ _ _ _ H) as [s [g [_ [_ [c [_ [Hc [_ Hf]]]]]]]].
  exists c. split; [exact Hc|]. intros q Hq. apply Hf; [exact Hq|]. rewrite Hm. discriminate.
Qed.

(* the client-side copy loop (resolved TRANSFER directives, no tarball) *)
Fixpoint no_tar (l : list rsd) : bool :=
  match l with [] => true | RSd a _ _ :: r => negb (is_move a) && no_tar r | RTar _ :: _ => false end.

Lemma copy_all_acc tar l : forall fs lg,
  copy_all tar l fs lg =
  {| h_ok := h_ok (copy_all tar l fs []); h_fs := h_fs (copy_all tar l fs []);
     h_log := lg ++ h_log (copy_all tar l fs []) |}.
Proof.
  induction l as [|[a s g|g] l IH]; intros fs lg; cbn [copy_all].
  - rewrite app_nil_r. reflexivity.
  - destruct (handle_sd a s g fs) as [fs1 e|fs1].
    + rewrite (IH fs1 (lg ++ _)). rewrite (IH fs1 ([] ++ _)). cbn [h_ok h_fs h_log app].
      rewrite <- app_assoc. reflexivity.
    + rewrite app_nil_r. reflexivity.
  - destruct (r_empty g); [rewrite app_nil_r; reflexivity|].
    destruct (mkdir_p (dirname_of g) fs); [|rewrite app_nil_r; reflexivity].
    destruct (cp_into (Tar tar) "TMPTAR" None g f) as [fs1 e|fs1].
    + rewrite (IH fs1 lg). reflexivity.
    + rewrite app_nil_r. reflexivity.
Qed.

Lemma copy_all_frame tar l : forall fs, no_tar l = true -> h_ok (copy_all tar l fs []) = true ->
  forall q, ~ In q (map fst (h_log (copy_all tar l fs []))) ->
  file_at q (h_fs (copy_all tar l fs [])) = file_at q fs.
Proof.
  induction l as [|[a s g|g] l IH]; intros fs Hk Hok q Hq; [reflexivity| |discriminate].
  cbn [no_tar] in Hk. apply andb_true_iff in Hk as [Hk1 Hk2]. apply negb_true_iff in Hk1.
  cbn [copy_all] in *. destruct (handle_sd a s g fs) as [fs1 e|fs1] eqn:Es; [|discriminate].
  rewrite copy_all_acc in *. cbn [h_ok h_fs h_log app] in *.
  destruct (handle_sd_spec _ _ _ _ _ _ Es) as [c [_ [Hc [_ Hf]]]].
  rewrite (IH fs1 Hk2 Hok q); [|intro Hin; apply Hq; cbn [map fst]; right; exact Hin].
  apply Hf; [|rewrite Hk1; discriminate]. intro Heq. apply Hq. cbn [map fst]. left. symmetry. exact Heq.
Qed.

Lemma copy_all_persist tar l : forall fs, no_tar l = true -> h_ok (copy_all tar l fs []) = true ->
  NoDup (map fst (h_log (copy_all tar l fs []))) ->
  List.length (h_log (copy_all tar l fs [])) = List.length l /\
  Forall (fun ec => file_at (fst ec) (h_fs (copy_all tar l fs [])) = Some (snd ec)) (h_log (copy_all tar l fs [])).
Proof.
  induction l as [|[a s g|g] l IH]; intros fs Hk Hok Hnd; [split; [reflexivity|constructor]| |discriminate].
  cbn [no_tar] in Hk. apply andb_true_iff in Hk as [Hk1 Hk2]. apply negb_true_iff in Hk1.
  cbn [copy_all] in *. destruct (handle_sd a s g fs) as [fs1 e|fs1] eqn:Es; [|discriminate].
  rewrite copy_all_acc in *. cbn [h_ok h_fs h_log app map fst] in *.
  destruct (handle_sd_spec _ _ _ _ _ _ Es) as [c [_ [Hc _]]].
  inversion Hnd as [|x xs Hnotin Hnd']; subst.
  destruct (IH fs1 Hk2 Hok Hnd') as [Hlen Hall].
  split; [cbn [List.length]; rewrite Hlen; reflexivity|].
  constructor; [|exact Hall].
  cbn [fst snd]. rewrite (copy_all_frame tar l fs1 Hk2 Hok e Hnotin). rewrite Hc. reflexivity.
Qed.

(* ------------------------------------------------ skip on failure, failure isolation *)

Lemma filter_none {A} (P : A -> bool) l : (forall x, In x l -> P x = false) -> filter P l = [].
Proof.
  induction l as [|x l IH]; intro H; [reflexivity|]. simpl. rewrite (H x (or_introl eq_refl)).
  apply IH. intros y Hy. apply H. right. exact Hy.
Qed.

Lemma filter_all {A} (P : A -> bool) l : (forall x, In x l -> P x = true) -> filter P l = l.
Proof.
  induction l as [|x l IH]; intro H; [reflexivity|]. simpl. rewrite (H x (or_introl eq_refl)).
  f_equal. apply IH. intros y Hy. apply H. right. exact Hy.
Qed.

Definition not_staged_out (t : task) : bool := negb (is_done (t_target t)) && negb (t_soe t).

Lemma advance_target_keep t s : s <> FAILED -> s <> CANCELED -> t_target (advance t s) = t_target t.
Proof. intros H1 H2. destruct s; try reflexivity; contradiction. Qed.

(* agent output stager: tasks that did not succeed and did not ask for
   stage_on_error are passed on without touching the file system *)
Lemma aso_skips l fs : forallb not_staged_out l = true ->
  w_fs (aso_work l fs) = fs /\ w_final (aso_work l fs) = [] /\
  List.length (w_pushed (aso_work l fs)) = List.length l.
Proof.
  intro H. unfold aso_work.
  rewrite (filter_none _ (map (fun t => advance t AGENT_STAGING_OUTPUT) l)).
  - cbn [handle_loop w_fs w_final w_pushed]. split; [reflexivity|]. split; [reflexivity|].
    rewrite app_nil_r, map_length.
    rewrite filter_all.
    + apply map_length.
    + intros x Hx. apply negb_true_iff. apply in_map_iff in Hx as [t [<- Ht]].
      rewrite forallb_forall in H. specialize (H t Ht). unfold not_staged_out in H.
      cbn [t_target advance t_soe t_out]. rewrite H. reflexivity.
  - intros x Hx. apply in_map_iff in Hx as [t [<- Ht]].
    rewrite forallb_forall in H. specialize (H t Ht). unfold not_staged_out in H.
    cbn [t_target advance t_soe t_out]. rewrite H. reflexivity.
Qed.

(* client output stager: a task whose target state is not DONE is made final
   in that state, nothing is transferred -- stage_on_error or not *)
Lemma tso_skips l fs : forallb (fun t => negb (is_done (t_target t))) l = true ->
  w_fs (tso_work l fs) = fs /\
  map (fun t => last (t_pub t) DONE) (w_final (tso_work l fs)) = map t_target l.
Proof.
  intro H. unfold tso_work.
  rewrite (filter_none _ (map (fun t => advance t TMGR_STAGING_OUTPUT) l)).
  - cbn [handle_loop w_fs w_final]. split; [reflexivity|]. rewrite !app_nil_r.
    rewrite filter_all.
    + rewrite !map_map. apply map_ext. intro t. unfold advance at 1. cbn [t_pub].
      rewrite last_last. reflexivity.
    + intros x Hx. apply negb_true_iff. apply in_map_iff in Hx as [t [<- Ht]].
      rewrite forallb_forall in H. specialize (H t Ht). cbn [t_target advance]. rewrite H. reflexivity.
  - intros x Hx. apply in_map_iff in Hx as [t [<- Ht]].
    rewrite forallb_forall in H. specialize (H t Ht). cbn [t_target advance]. rewrite H. reflexivity.
Qed.

(* the per-task loop of the stagers: every task is handled exactly once, a task
   whose staging fails is published FAILED and handed on to nobody, and the loop
   goes on with the remaining tasks *)
Lemma handle_loop_total handle okst l : forall fs,
  let '(_, pushed, failed) := handle_loop handle okst l fs in
  Permutation (map t_uid l) (map t_uid (pushed ++ failed)) /\
  Forall (fun t => last (t_pub t) DONE = FAILED /\ t_target t = FAILED) failed /\
  Forall (fun t => exists t0, In t0 l /\ t = fold_left advance (okst t0) t0) pushed.
Proof.
  assert (Huid : forall ss t, t_uid (fold_left advance ss t) = t_uid t)
    by (induction ss as [|s ss IH]; intro t; [reflexivity|]; simpl; rewrite IH; reflexivity).
  induction l as [|t l IH]; intro fs.
  - simpl. repeat split; constructor.
  - cbn [handle_loop]. specialize (IH (h_fs (handle t fs))).
    destruct (handle_loop handle okst l (h_fs (handle t fs))) as [[fs' pushed] failed].
    destruct IH as [Hp [Hf Hpu]].
    assert (Hpu' : Forall (fun t1 => exists t0, In t0 (t :: l) /\ t1 = fold_left advance (okst t0) t0) pushed).
    { eapply Forall_impl; [|exact Hpu]. intros a [t0 [Hin Ha]]. exists t0. split; [right; exact Hin|exact Ha]. }
    destruct (h_ok (handle t fs)).
    + split; [cbn [map app]; rewrite Huid; constructor; exact Hp|].
      split; [exact Hf|]. constructor; [exists t; split; [left; reflexivity|reflexivity]|exact Hpu'].
    + split.
      * cbn [map]. rewrite map_app. cbn [map]. cbn [advance t_uid].
        rewrite map_app in Hp. apply Permutation_cons_app. exact Hp.
      * split; [|exact Hpu']. constructor; [|exact Hf].
        unfold advance. cbn [t_pub t_target]. rewrite last_last. split; reflexivity.
Qed.

(* the documented defaults for relative paths, per stager *)
Lemma relative_defaults sb :
  assoc "pwd" (tmgr_in_src sb) = Some (parse_url (sb_client sb)) /\
  assoc "pwd" (tmgr_in_tgt sb) = Some (parse_url (sb_task sb)) /\
  assoc "pwd" (tmgr_out_src sb) = Some (parse_url (sb_task sb)) /\
  assoc "pwd" (tmgr_out_tgt sb) = Some (parse_url (sb_client sb)) /\
  assoc "pwd" (agent_ctx sb) = Some (as_file (sb_task sb)) /\
  assoc "client" (agent_ctx sb) = None.
Proof. repeat split; reflexivity. Qed.

Lemma sandbox_entries sb pwd :
  assoc "client" (tmgr_ctx sb pwd) = Some (parse_url (sb_client sb)) /\
  assoc "task" (tmgr_ctx sb pwd) = Some (parse_url (sb_task sb)) /\
  assoc "pilot" (tmgr_ctx sb pwd) = Some (parse_url (sb_pilot sb)) /\
  assoc "session" (tmgr_ctx sb pwd) = Some (parse_url (sb_session sb)) /\
  assoc "resource" (tmgr_ctx sb pwd) = Some (parse_url (sb_resource sb)) /\
  assoc "endpoint" (tmgr_ctx sb pwd) = Some (parse_url (sb_endpoint sb)) /\
  assoc "task" (agent_ctx sb) = Some (as_file (sb_task sb)) /\
  assoc "pilot" (agent_ctx sb) = Some (as_file (sb_pilot sb)) /\
  assoc "session" (agent_ctx sb) = Some (as_file (sb_session sb)) /\
  assoc "resource" (agent_ctx sb) = Some (as_file (sb_resource sb)) /\
  assoc "endpoint" (agent_ctx sb) = Some (as_file (sb_endpoint sb)) /\
  assoc "file" (tmgr_ctx sb pwd) = None /\ assoc "file" (agent_ctx sb) = None.
Proof. repeat split; reflexivity. Qed.

Definition agent_si_steps t := steps (agent_in_step t).
Definition agent_so_steps t := steps (agent_out_step t).

Lemma agent_input_persist t l fs :
  forallb keeps l = true -> h_ok (agent_si_steps t l fs []) = true ->
  NoDup (map fst (h_log (agent_si_steps t l fs []))) ->
  List.length (h_log (agent_si_steps t l fs [])) = List.length l /\
  Forall (fun ec => file_at (fst ec) (h_fs (agent_si_steps t l fs [])) = Some (snd ec)) (h_log (agent_si_steps t l fs [])).
Proof. exact (steps_persist (agent_in_step t) (agent_in_frame t) l fs). Qed.

Lemma agent_output_persist t l fs :
  forallb keeps l = true -> h_ok (agent_so_steps t l fs []) = true ->
  NoDup (map fst (h_log (agent_so_steps t l fs []))) ->
  List.length (h_log (agent_so_steps t l fs [])) = List.length l /\
  Forall (fun ec => file_at (fst ec) (h_fs (agent_so_steps t l fs [])) = Some (snd ec)) (h_log (agent_so_steps t l fs [])).
Proof. exact (steps_persist (agent_out_step t) (agent_out_frame t) l fs). Qed.

(* ---- concrete sandboxes / tree used by the examples of Props/C11.v *)
Definition ex_sb (uid : string) : sandboxes :=
  {| sb_client := "/R/client"; sb_task := "file://localhost/R/rsb/s1/p0/" +++ uid +++ "/";
     sb_pilot := "file://localhost/R/rsb/s1/p0/"; sb_session := "file://localhost/R/rsb/s1";
     sb_resource := "file://localhost/R/rsb"; sb_endpoint := "file://localhost/" |}.

Definition ex_fs : fsys :=
  [ (["R"], D); (["R"; "client"], D); (["R"; "client"; "a.dat"], F (Plain 1)); (["R"; "client"; "b.dat"], F (Plain 2));
    (["R"; "rsb"], D); (["R"; "rsb"; "s1"], D); (["R"; "rsb"; "s1"; "p0"], D);
    (["R"; "rsb"; "s1"; "p0"; "sh.dat"], F (Plain 3)) ].

Definition client_side_b (a : action) : bool := action_eqb a Transfer.

(* finite check: an empty target with each of the four non-tarball actions *)
Lemma empty_target_staged :
  forall a, In a [Transfer; Copy; Link; Move] ->
    let '(_, fs', fin) := run_case
      [ {| ti_uid := "t0"; ti_sb := ex_sb "t0";
           ti_in := [ SDict (Some (if client_side_b a then "a.dat" else "pilot:///sh.dat")) (Some "") (Some a) false ];
           ti_out := []; ti_soe := false; ti_outcome := DONE; ti_exec := [] |} ] ex_fs in
    map (fun t => last (t_pub t) DONE) fin = [DONE] /\
    file_at (["R"; "rsb"; "s1"; "p0"; "t0"] ++ [if client_side_b a then "a.dat" else "sh.dat"]) fs'
      = Some (Plain (if client_side_b a then 1 else 3)).
Proof. intros a [<-|[<-|[<-|[<-|[]]]]]; vm_compute; split; reflexivity. Qed.

(* ------------------------------------ overwrites: the last writer of a path wins *)

Section LastWriter.
  Variable step : sd -> fsys -> res.
  Hypothesis step_frame : forall d fs fs' e, step d fs = Ok fs' e -> keeps d = true ->
    exists c, file_at e fs' = Some c /\ forall q, q <> e -> file_at q fs' = file_at q fs.

  (* no hypothesis on the targets: they may collide *)
  Lemma steps_last_writer l : forall fs, forallb keeps l = true -> h_ok (steps step l fs []) = true ->
    List.length (h_log (steps step l fs [])) = List.length l /\
    forall q, file_at q (h_fs (steps step l fs [])) =
              match last_write q (h_log (steps step l fs [])) with
              | Some c => Some c
              | None => file_at q fs
              end.
  Proof.
    induction l as [|d l IH]; intros fs Hk Hok; [split; reflexivity|].
    cbn [forallb] in Hk. apply andb_true_iff in Hk as [Hk1 Hk2].
    cbn [steps] in *. destruct (step d fs) as [fs1 e|fs1] eqn:Es; [|discriminate].
    assert (Ht : action_eqb (s_act d) Tarball = false)
      by (unfold keeps in Hk1; apply andb_true_iff in Hk1 as [_ H]; apply negb_true_iff in H; exact H).
    rewrite Ht in *. rewrite steps_acc in *. cbn [h_ok h_fs h_log app] in *.
    destruct (step_frame _ _ _ _ Es Hk1) as [c [Hc Hf]].
    destruct (IH fs1 Hk2 Hok) as [Hlen Hall].
    split; [cbn [List.length]; rewrite Hlen; reflexivity|].
    intro q. rewrite (Hall q). cbn [last_write].
    destruct (last_write q (h_log (steps step l fs1 []))); [reflexivity|].
    destruct (path_eqb q e) eqn:Eq.
    - apply path_eqb_eq in Eq. subst q. rewrite Hc. reflexivity.
    - apply Hf. intro Heq. subst q. rewrite path_eqb_refl in Eq. discriminate.
  Qed.
End LastWriter.

Lemma agent_input_last_writer t l fs :
  forallb keeps l = true -> h_ok (agent_si_steps t l fs []) = true ->
  List.length (h_log (agent_si_steps t l fs [])) = List.length l /\
  forall q, file_at q (h_fs (agent_si_steps t l fs [])) =
            match last_write q (h_log (agent_si_steps t l fs [])) with Some c => Some c | None => file_at q fs end.
Proof. exact (steps_last_writer (agent_in_step t) (agent_in_frame t) l fs). Qed.

Lemma agent_output_last_writer t l fs :
  forallb keeps l = true -> h_ok (agent_so_steps t l fs []) = true ->
  List.length (h_log (agent_so_steps t l fs [])) = List.length l /\
  forall q, file_at q (h_fs (agent_so_steps t l fs [])) =
            match last_write q (h_log (agent_so_steps t l fs [])) with Some c => Some c | None => file_at q fs end.
Proof. exact (steps_last_writer (agent_out_step t) (agent_out_frame t) l fs). Qed.

Lemma copy_all_last_writer tar l : forall fs, no_tar l = true -> h_ok (copy_all tar l fs []) = true ->
  List.length (h_log (copy_all tar l fs [])) = List.length l /\
  forall q, file_at q (h_fs (copy_all tar l fs [])) =
            match last_write q (h_log (copy_all tar l fs [])) with Some c => Some c | None => file_at q fs end.
Proof.
  induction l as [|[a s g|g] l IH]; intros fs Hk Hok; [split; reflexivity| |discriminate].
  cbn [no_tar] in Hk. apply andb_true_iff in Hk as [Hk1 Hk2]. apply negb_true_iff in Hk1.
  cbn [copy_all] in *. destruct (handle_sd a s g fs) as [fs1 e|fs1] eqn:Es; [|discriminate].
  rewrite copy_all_acc in *. cbn [h_ok h_fs h_log app] in *.
  destruct (handle_sd_spec _ _ _ _ _ _ Es) as [c [_ [Hc [_ Hf]]]].
  destruct (IH fs1 Hk2 Hok) as [Hlen Hall].
  split; [cbn [List.length]; rewrite Hlen; reflexivity|].
  intro q. rewrite (Hall q). cbn [last_write].
  destruct (last_write q (h_log (copy_all tar l fs1 []))); [reflexivity|].
  destruct (path_eqb q e) eqn:Eq.
  - apply path_eqb_eq in Eq. subst q. rewrite Hc. reflexivity.
  - apply Hf; [|rewrite Hk1; discriminate]. intro Heq. subst q. rewrite path_eqb_refl in Eq. discriminate.
Qed.

(* each log entry records the content the resolved source had when its
   directive ran: one step of the log *)
Lemma steps_log_head step d l fs fs1 e :
  step d fs = Ok fs1 e -> action_eqb (s_act d) Tarball = false ->
  h_log (steps step (d :: l) fs []) =
  (e, match file_at e fs1 with Some c => c | None => Plain 0 end) :: h_log (steps step l fs1 []).
Proof.
  intros Es Ht. cbn [steps]. rewrite Es, Ht. rewrite steps_acc. reflexivity.
Qed.
