(* Executable model of radical.pilot's data staging (property C11):

     staging_directives.expand_description / expand_staging_directives / complete_url
     utils/staging_helper.py    StagingHelper.handle_staging_directive, StagingHelper_Local
     tmgr/staging_input/default.py    Default.work / _handle_task
     agent/staging_input/default.py   Default._work / _handle_task_staging   (+ base work)
     agent/staging_output/default.py  Default.work / _handle_task_staging
     tmgr/staging_output/default.py   Default.work / _handle_task
     utils/component.py               advance (state publication, push order)

   Definitions only.  Strings are Coq strings (printable ASCII), file contents
   are integers, a tar file is the list of its members.  The file system is an
   association list path -> node, a path being the list of its components.

   Domain restrictions (the generator of harness/c11.py stays inside them, the
   theorems do not depend on them): no `..` / `.` path components, URL strings
   have the form [schema://[host]]path, sources are regular files (no directory
   sources), no DOWNLOAD action, tar members are plain files. *)
From Coq Require Import ZArith List Bool String Ascii.
Import ListNotations.
Open Scope string_scope.
Open Scope list_scope.
Infix "+++" := String.append (at level 60, right associativity).

(* ------------------------------------------------------------------ strings *)

Fixpoint pre (p s : string) : bool :=            (* s.startswith(p) *)
  match p, s with
  | EmptyString, _ => true
  | String a p', String b s' => Ascii.eqb a b && pre p' s'
  | _, EmptyString => false
  end.

Fixpoint drop (n : nat) (s : string) : string :=
  match n, s with
  | O, _ => s
  | S k, String _ s' => drop k s'
  | S _, EmptyString => EmptyString
  end.

(* split at the first occurrence of [sep] (non-empty) *)
Fixpoint split_at (sep s : string) : option (string * string) :=
  if pre sep s then Some (EmptyString, drop (String.length sep) s)
  else match s with
       | EmptyString => None
       | String c s' =>
           match split_at sep s' with
           | Some (a, b) => Some (String c a, b)
           | None => None
           end
       end.

Definition contains (sep s : string) : bool :=
  match split_at sep s with Some _ => true | None => false end.

Definition sp : ascii := " "%char.
Definition slash : ascii := "/"%char.

Fixpoint lstrip (s : string) : string :=
  match s with
  | String c s' => if Ascii.eqb c sp then lstrip s' else s
  | EmptyString => EmptyString
  end.

(* rstrip: drop the trailing blanks *)
Fixpoint rstrip (s : string) : string :=
  match s with
  | EmptyString => EmptyString
  | String c s' =>
      match rstrip s' with
      | EmptyString => if Ascii.eqb c sp then EmptyString else String c EmptyString
      | r => String c r
      end
  end.

Definition strip (s : string) : string := rstrip (lstrip s).

(* s.split('/') *)
Fixpoint split_slash (s : string) : list string :=
  match s with
  | EmptyString => [EmptyString]
  | String c s' =>
      if Ascii.eqb c slash then EmptyString :: split_slash s'
      else match split_slash s' with
           | x :: r => String c x :: r
           | [] => [String c EmptyString]
           end
  end.

Definition raw_basename (s : string) : string := last (split_slash s) EmptyString.   (* os.path.basename *)

Fixpoint ends_slash (s : string) : bool :=
  match s with
  | EmptyString => false
  | String c EmptyString => Ascii.eqb c slash
  | String _ s' => ends_slash s'
  end.

Definition nonempty (s : string) : bool := negb (String.eqb s EmptyString).

(* --------------------------------------------------------------------- URLs *)

Definition path := list string.

(* ru.Url(..).path, normalised (os.path.normpath, trailing slash kept) *)
Record upath := { p_abs : bool; p_comps : path; p_trail : bool }.

Definition comps_of (s : string) : path :=
  filter (fun c => nonempty c && negb (String.eqb c ".")) (split_slash s).

Definition parse_path (s : string) : upath :=
  {| p_abs := pre "/" s; p_comps := comps_of s; p_trail := ends_slash s |}.

Record url := { u_schema : string; u_host : string; u_path : upath }.

(* ru.Url(s) for strings of the form [schema://[host]]path *)
Definition parse_url (s : string) : url :=
  match split_at "://" s with
  | Some (sch, rest) =>
      match split_at "/" rest with
      | Some (h, p) => {| u_schema := sch; u_host := h; u_path := parse_path (String slash p) |}
      | None => {| u_schema := sch; u_host := rest; u_path := parse_path EmptyString |}
      end
  | None => {| u_schema := EmptyString; u_host := EmptyString; u_path := parse_path s |}
  end.

(* os.path.basename(ru.Url(s).path) *)
Definition url_basename (s : string) : string :=
  let p := u_path (parse_url s) in
  if p_trail p then EmptyString else last (p_comps p) EmptyString.

Inductive err := EValue | EOther.      (* ValueError | any other exception *)

Fixpoint assoc {A} (k : string) (l : list (string * A)) : option A :=
  match l with
  | [] => None
  | (k', v) :: r => if String.eqb k k' then Some v else assoc k r
  end.

(* a resolved location: what StagingHelper_Local sees (ru.Url(x).path) plus
   the schema the agent stagers assert on.  r_path = None: empty path. *)
Record rloc := { r_schema : string; r_comps : path; r_trail : bool; r_empty : bool }.

Definition rloc_of (sch : string) (p : upath) : rloc :=
  {| r_schema := sch; r_comps := p_comps p; r_trail := p_trail p;
     r_empty := negb (p_abs p) && match p_comps p with [] => true | _ => false end |}.

(* complete_url(path, context).  The branch `schema == 'pwd' and 'pwd' not in
   context` of the code is dead (it sits under `schema in context`). *)
Definition complete_url (ctx : list (string * url)) (raw : string) : err + rloc :=
  let purl := parse_url raw in
  let sch := if nonempty (u_schema purl) then u_schema purl
             else if pre "/" raw then "file" else "pwd" in
  (* setting the schema of a schema-less Url makes its path absolute *)
  let ppath := if nonempty (u_schema purl) then u_path purl
               else {| p_abs := negb (String.eqb raw EmptyString); p_comps := p_comps (u_path purl);
                       p_trail := p_trail (u_path purl) |} in
  match assoc sch ctx with
  | None => inr (rloc_of sch ppath)
  | Some base =>
      if nonempty (u_host purl) then inl EValue
      else if String.eqb sch "file" then inr (rloc_of sch ppath)
      else
        (* ret.path += '/%s' % purl.path *)
        inr {| r_schema := u_schema base;
               r_comps := p_comps (u_path base) ++ p_comps ppath;
               r_trail := match p_comps ppath with [] => true | _ => p_trail ppath end;
               r_empty := false |}
  end.

(* --------------------------------------------------------------- directives *)

Inductive action := Transfer | Copy | Link | Move | Tarball | OtherAction.

Definition action_eqb (a b : action) : bool :=
  match a, b with
  | Transfer, Transfer | Copy, Copy | Link, Link | Move, Move | Tarball, Tarball
  | OtherAction, OtherAction => true
  | _, _ => false
  end.

Record sd := { s_src : string; s_tgt : string; s_act : action }.

(* what the application writes *)
Inductive sdin :=
| SStr (s : string)
| SDict (src tgt : option string) (act : option action) (badkey : bool).

(* `a, b = s.split(sep, 2)` for s containing sep *)
Definition py_split2 (sep s : string) : err + (string * string) :=
  match split_at sep s with
  | None => inl EValue
  | Some (a, rest) => if contains sep rest then inl EValue else inr (a, rest)
  end.

Definition mk_sd (st : string * string) : sd :=
  {| s_src := strip (fst st); s_tgt := strip (snd st); s_act := Transfer |}.

Definition swap {A} (p : A * A) : A * A := (snd p, fst p).

Definition sum_map {E A B} (f : A -> B) (x : E + A) : E + B :=
  match x with inl e => inl e | inr a => inr (f a) end.

Definition expand1 (d : sdin) : err + sd :=
  match d with
  | SStr s =>
      if      contains ">>" s then sum_map mk_sd (py_split2 ">>" s)
      else if contains ">"  s then sum_map mk_sd (py_split2 ">" s)
      else if contains "<<" s then sum_map (fun p => mk_sd (swap p)) (py_split2 "<<" s)
      else if contains "<"  s then sum_map (fun p => mk_sd (swap p)) (py_split2 "<" s)
      else inr (mk_sd (s, url_basename s))
  | SDict src tgt act badkey =>
      if badkey then inl EValue
      else
        let source := match src with Some s => s | None => EmptyString end in
        let target := match tgt with Some t => t | None => url_basename source end in
        let act := match act with Some a => a | None => Transfer end in
        if nonempty source then inr {| s_src := source; s_tgt := target; s_act := act |}
        else inl EOther
  end.

Fixpoint expand (l : list sdin) : err + list sd :=
  match l with
  | [] => inr []
  | d :: r =>
      match expand1 d with
      | inl e => inl e
      | inr x => match expand r with inl e => inl e | inr xs => inr (x :: xs) end
      end
  end.

(* an expanded directive written back as the dict it is *)
Definition as_dict (d : sd) : sdin := SDict (Some (s_src d)) (Some (s_tgt d)) (Some (s_act d)) false.

(* --------------------------------------------------------------- file system *)

Inductive content := Plain (z : Z) | Tar (m : list (path * Z)).
Inductive node := D | F (c : content).
Definition fsys := list (path * node).

Fixpoint path_eqb (a b : path) : bool :=
  match a, b with
  | [], [] => true
  | x :: a', y :: b' => String.eqb x y && path_eqb a' b'
  | _, _ => false
  end.

Fixpoint lookup (p : path) (fs : fsys) : option node :=
  match fs with
  | [] => None
  | (q, n) :: r => if path_eqb p q then Some n else lookup p r
  end.

Definition set (p : path) (n : node) (fs : fsys) : fsys := (p, n) :: fs.
Definition del (p : path) (fs : fsys) : fsys := filter (fun e => negb (path_eqb p (fst e))) fs.

Definition file_at (p : path) (fs : fsys) : option content :=
  match lookup p fs with Some (F c) => Some c | _ => None end.

Definition is_dir (p : path) (fs : fsys) : bool :=
  match p with
  | [] => true
  | _ => match lookup p fs with Some D => true | _ => false end
  end.

Definition exists_at (p : path) (fs : fsys) : bool :=
  match p with [] => true | _ => match lookup p fs with Some _ => true | None => false end end.

Definition parent (p : path) : path := removelast p.

(* ru.rec_makedir: os.makedirs, EEXIST on the leaf ignored (even for a file) *)
Fixpoint mkdirs (pre_ : path) (rest : list string) (fs : fsys) : option fsys :=
  match rest with
  | [] => Some fs
  | c :: rest' =>
      let p := pre_ ++ [c] in
      match lookup p fs with
      | Some D => mkdirs p rest' fs
      | Some (F _) => match rest' with [] => Some fs | _ => None end
      | None => mkdirs p rest' (set p D fs)
      end
  end.

Definition mkdir_p (p : path) (fs : fsys) : option fsys := mkdirs [] p fs.

(* os.path.dirname of a resolved location *)
Definition dirname_of (g : rloc) : path := if r_trail g then r_comps g else parent (r_comps g).

(* result of a file operation: the new file system and, on success, the path
   that was written *)
Inductive res :=
| Ok (fs : fsys) (e : path)          (* a file was written at e *)
| OkDir (fs : fsys) (e : path)       (* a directory tree was copied / moved to e *)
| Fail (fs : fsys).

(* ---- directory trees (cp -r <dir>, shutil.move <dir>, rm -r) *)
Fixpoint is_prefix (a b : path) : bool :=
  match a, b with
  | [], _ => true
  | x :: a', y :: b' => String.eqb x y && is_prefix a' b'
  | _, [] => false
  end.

Definition under (s : path) (x : path * node) : bool := is_prefix s (fst x).
Definition rebase (s e : path) (x : path * node) : path * node :=
  (e ++ skipn (List.length s) (fst x), snd x).

(* everything at and below s also appears at and below e *)
Definition copy_tree (s e : path) (fs : fsys) : fsys := map (rebase s e) (filter (under s) fs) ++ fs.
Definition del_tree (s : path) (fs : fsys) : fsys := filter (fun x => negb (under s x)) fs.
Definition move_tree (s e : path) (fs : fsys) : fsys :=
  map (rebase s e) (filter (under s) fs) ++ del_tree s fs.

(* a file of the tree would land on a directory or a directory on a file *)
Definition tree_conflict (s e : path) (fs : fsys) : bool :=
  existsb (fun x => match snd (rebase s e x), lookup (fst (rebase s e x)) fs with
                    | D, Some (F _) => true
                    | F _, Some D => true
                    | _, _ => false
                    end) (filter (under s) fs).

(* `cp -r <dir s> g`: into g if g is a directory (merging), else as g *)
Definition cp_dir (s : path) (g : rloc) (fs : fsys) : res :=
  let gd := is_dir (r_comps g) fs in
  let e := if gd then r_comps g ++ [last s EmptyString] else r_comps g in
  if r_trail g && negb gd then Fail fs
  else if is_prefix s e then Fail fs                      (* into itself *)
  else if negb gd && exists_at e fs then Fail fs          (* directory over a file *)
  else if negb (is_dir (parent e) fs) then Fail fs
  else if tree_conflict s e fs then Fail fs
  else OkDir (copy_tree s e fs) e.

(* shutil.move(<dir s>, g) *)
Definition mv_dir (s : path) (g : rloc) (fs : fsys) : res :=
  let gd := is_dir (r_comps g) fs in
  let e := if gd then r_comps g ++ [last s EmptyString] else r_comps g in
  if r_trail g && negb gd then Fail fs
  else if is_prefix s e then Fail fs
  else if exists_at e fs then Fail fs
  else if negb (is_dir (parent e) fs) then Fail fs
  else OkDir (move_tree s e fs) e.

(* `cp -r <file> g` with content c, source base name b *)
Definition cp_into (c : content) (b : string) (s : option path) (g : rloc) (fs : fsys) : res :=
  let gd := is_dir (r_comps g) fs in
  let e := if gd then r_comps g ++ [b] else r_comps g in
  if r_trail g && negb gd then Fail fs
  else if is_dir e fs then Fail fs
  else if negb (is_dir (parent e) fs) then Fail fs
  else if match s with Some s' => path_eqb s' e | None => false end then Fail fs
  else Ok (set e (F c) fs) e.

(* StagingHelper_Local.copy(src, tgt) -- with the exit status of cp checked *)
Definition op_copy (s g : rloc) (fs : fsys) : res :=
  if r_empty g then Fail fs else
  match mkdir_p (dirname_of g) fs with
  | None => Fail fs
  | Some fs1 =>
      if r_empty s then Fail fs1 else
      match file_at (r_comps s) fs1 with
      | None => if is_dir (r_comps s) fs1 then cp_dir (r_comps s) g fs1 else Fail fs1
      | Some c => cp_into c (last (r_comps s) EmptyString) (Some (r_comps s)) g fs1
      end
  end.

(* StagingHelper_Local.move: shutil.move *)
Definition op_move (s g : rloc) (fs : fsys) : res :=
  if r_empty g then Fail fs else
  match mkdir_p (dirname_of g) fs with
  | None => Fail fs
  | Some fs1 =>
      if r_empty s then Fail fs1 else
      match file_at (r_comps s) fs1 with
      | None => if is_dir (r_comps s) fs1 then mv_dir (r_comps s) g fs1 else Fail fs1
      | Some c =>
          let gd := is_dir (r_comps g) fs1 in
          let e := if gd then r_comps g ++ [last (r_comps s) EmptyString] else r_comps g in
          if gd && exists_at e fs1 then Fail fs1
          else if r_trail g && negb gd then Fail fs1
          else if negb (is_dir (parent e) fs1) then Fail fs1
          else Ok (set e (F c) (del (r_comps s) fs1)) e
      end
  end.

(* StagingHelper_Local.link: os.link *)
Definition op_link (s g : rloc) (fs : fsys) : res :=
  if r_empty g then Fail fs else
  match mkdir_p (dirname_of g) fs with
  | None => Fail fs
  | Some fs1 =>
      if r_empty s then Fail fs1 else
      match file_at (r_comps s) fs1 with
      | None => Fail fs1
      | Some c =>
          let e := r_comps g in
          if r_trail g || exists_at e fs1 then Fail fs1
          else if negb (is_dir (parent e) fs1) then Fail fs1
          else Ok (set e (F c) fs1) e
      end
  end.

(* tarfile.extractall(path='/') *)
Fixpoint untar (m : list (path * Z)) (fs : fsys) : option fsys :=
  match m with
  | [] => Some fs
  | (p, z) :: r =>
      match mkdir_p (parent p) fs with
      | None => None
      | Some fs1 =>
          if is_dir p fs1 || negb (is_dir (parent p) fs1) then None
          else untar r (set p (F (Plain z)) fs1)
      end
  end.

(* StagingHelper.handle_staging_directive (actions of the Local backend) *)
Definition handle_sd (a : action) (s g : rloc) (fs : fsys) : res :=
  match a with
  | Copy | Transfer => op_copy s g fs
  | Link => op_link s g fs
  | Move => op_move s g fs
  | _ => Fail fs            (* assert action in [...] *)
  end.

(* --------------------------------------------------------------------- tasks *)

Inductive tstate :=
| TMGR_STAGING_INPUT | AGENT_STAGING_INPUT_PENDING | AGENT_STAGING_INPUT | AGENT_SCHEDULING_PENDING
| AGENT_STAGING_OUTPUT | TMGR_STAGING_OUTPUT_PENDING | TMGR_STAGING_OUTPUT
| DONE | FAILED | CANCELED.

Definition tstate_eqb (a b : tstate) : bool :=
  match a, b with
  | TMGR_STAGING_INPUT, TMGR_STAGING_INPUT | AGENT_STAGING_INPUT_PENDING, AGENT_STAGING_INPUT_PENDING
  | AGENT_STAGING_INPUT, AGENT_STAGING_INPUT | AGENT_SCHEDULING_PENDING, AGENT_SCHEDULING_PENDING
  | AGENT_STAGING_OUTPUT, AGENT_STAGING_OUTPUT | TMGR_STAGING_OUTPUT_PENDING, TMGR_STAGING_OUTPUT_PENDING
  | TMGR_STAGING_OUTPUT, TMGR_STAGING_OUTPUT | DONE, DONE | FAILED, FAILED | CANCELED, CANCELED => true
  | _, _ => false
  end.

(* the sandbox URLs a task dict carries (tmgr scheduler _assign_pilot) *)
Record sandboxes := { sb_client : string; sb_task : string; sb_pilot : string;
                      sb_session : string; sb_resource : string; sb_endpoint : string }.

(* what the payload (or the user) does to the sandboxes while the task runs:
   remove a file / directory tree, rename one *)
Inductive xop := XRm (p : path) | XMv (p q : path).

Definition run_xop (o : xop) (fs : fsys) : fsys :=
  match o with
  | XRm p => match p with [] => fs | _ => del_tree p fs end
  | XMv p q =>
      match p with
      | [] => fs
      | _ => if exists_at p fs && negb (exists_at q fs) && is_dir (parent q) fs && negb (is_prefix p q)
             then move_tree p q fs else fs
      end
  end.

Record task := {
  t_uid : string;
  t_sb : sandboxes;
  t_in : list sd;                 (* description['input_staging'], expanded *)
  t_out : list sd;
  t_soe : bool;                   (* stage_on_error *)
  t_outcome : tstate;             (* target_state set by the executor *)
  t_exec : list (path * Z);       (* files the task writes (relative to its sandbox) *)
  t_ops : list xop;               (* ... and what else it does to the sandboxes afterwards *)
  t_target : tstate;              (* task['target_state'] *)
  t_pub : list tstate             (* states published so far *)
}.

Definition with_in (t : task) (l : list sd) : task :=
  {| t_uid := t_uid t; t_sb := t_sb t; t_in := l; t_out := t_out t; t_soe := t_soe t;
     t_outcome := t_outcome t; t_exec := t_exec t; t_ops := t_ops t; t_target := t_target t; t_pub := t_pub t |}.

Definition with_target (t : task) (s : tstate) : task :=
  {| t_uid := t_uid t; t_sb := t_sb t; t_in := t_in t; t_out := t_out t; t_soe := t_soe t;
     t_outcome := t_outcome t; t_exec := t_exec t; t_ops := t_ops t; t_target := s; t_pub := t_pub t |}.

(* advance(task, s): publish; FAILED/CANCELED also set target_state *)
Definition advance (t : task) (s : tstate) : task :=
  let tg := match s with FAILED | CANCELED => s | _ => t_target t end in
  {| t_uid := t_uid t; t_sb := t_sb t; t_in := t_in t; t_out := t_out t; t_soe := t_soe t;
     t_outcome := t_outcome t; t_exec := t_exec t; t_ops := t_ops t; t_target := tg; t_pub := t_pub t ++ [s] |}.

(* contexts.  side: true = client side (tmgr components) *)
Definition tmgr_ctx (sb : sandboxes) (pwd : string) : list (string * url) :=
  [ ("pwd", parse_url pwd); ("client", parse_url (sb_client sb)); ("task", parse_url (sb_task sb));
    ("pilot", parse_url (sb_pilot sb)); ("session", parse_url (sb_session sb));
    ("resource", parse_url (sb_resource sb)); ("endpoint", parse_url (sb_endpoint sb)) ].

(* the agent rewrites every sandbox to file://localhost/<path> and knows no client *)
Definition as_file (s : string) : url :=
  {| u_schema := "file"; u_host := "localhost"; u_path := u_path (parse_url s) |}.

Definition agent_ctx (sb : sandboxes) : list (string * url) :=
  [ ("pwd", as_file (sb_task sb)); ("task", as_file (sb_task sb)); ("pilot", as_file (sb_pilot sb));
    ("session", as_file (sb_session sb)); ("resource", as_file (sb_resource sb));
    ("endpoint", as_file (sb_endpoint sb)) ].

Definition tmgr_in_src  (sb : sandboxes) := tmgr_ctx sb (sb_client sb).
Definition tmgr_in_tgt  (sb : sandboxes) := tmgr_ctx sb (sb_task sb).
Definition tmgr_out_src (sb : sandboxes) := tmgr_ctx sb (sb_task sb).
Definition tmgr_out_tgt (sb : sandboxes) := tmgr_ctx sb (sb_client sb).

Definition sandbox_path (t : task) : path := p_comps (u_path (parse_url (sb_task (t_sb t)))).
Definition tar_name (t : task) : string := t_uid t +++ ".tar".

(* a log entry: (path written, content written) *)
Definition wlog := list (path * content).

(* outcome of handling one task: Some = all directives done *)
Record hres := { h_ok : bool; h_fs : fsys; h_log : wlog }.

(* ---- expand_staging_directives(dicts, src_ctx, tgt_ctx): resolve all first *)
Inductive rsd := RSd (a : action) (s g : rloc) | RTar (g : rloc).

Inductive pre_sd := PSd (d : sd) | PTar.     (* new_actionables: directive or the tar_sd *)

Fixpoint resolve_all (sctx tctx : list (string * url)) (tarname : string) (l : list pre_sd) : option (list rsd) :=
  match l with
  | [] => Some []
  | PSd d :: r =>
      if negb (nonempty (s_src d)) then None else
      match complete_url sctx (s_src d), complete_url tctx (s_tgt d) with
      | inr s, inr g =>
          match resolve_all sctx tctx tarname r with Some rs => Some (RSd (s_act d) s g :: rs) | None => None end
      | _, _ => None
      end
  | PTar :: r =>
      (* source file://localhost/<tmp>.tar is left alone; target task:///<uid>.tar *)
      match complete_url tctx ("task:///" +++ tarname) with
      | inr g =>
          match resolve_all sctx tctx tarname r with Some rs => Some (RTar g :: rs) | None => None end
      | inl _ => None
      end
  end.

(* the copy loop over resolved directives; tar = content of the temp tarball *)
Fixpoint copy_all (tar : list (path * Z)) (l : list rsd) (fs : fsys) (lg : wlog) : hres :=
  match l with
  | [] => {| h_ok := true; h_fs := fs; h_log := lg |}
  | RSd a s g :: r =>
      match handle_sd a s g fs with
      | Ok fs' e => copy_all tar r fs' (lg ++ [(e, match file_at e fs' with Some c => c | None => Plain 0 end)])
      | OkDir fs' e => copy_all tar r fs' lg
      | Fail fs' => {| h_ok := false; h_fs := fs'; h_log := lg |}
      end
  | RTar g :: r =>
      if r_empty g then {| h_ok := false; h_fs := fs; h_log := lg |} else
      match mkdir_p (dirname_of g) fs with
      | None => {| h_ok := false; h_fs := fs; h_log := lg |}
      | Some fs1 =>
          match cp_into (Tar tar) "TMPTAR" None g fs1 with
          | Ok fs' e | OkDir fs' e => copy_all tar r fs' lg
          | Fail fs' => {| h_ok := false; h_fs := fs'; h_log := lg |}
          end
      end
  end.

(* ---- tmgr staging_input Default._handle_task: the tarball filter loop.
   Returns None when complete_url raises or a source is missing. *)
Fixpoint tar_filter (sctx tctx : list (string * url)) (l : list sd) (have_tar : bool) (fs : fsys)
  : option (list pre_sd * list (path * Z)) :=
  match l with
  | [] => Some ([], [])
  | d :: r =>
      if negb (action_eqb (s_act d) Tarball) then
        match tar_filter sctx tctx r have_tar fs with
        | Some (na, m) => Some (PSd d :: na, m)
        | None => None
        end
      else
        match complete_url sctx (s_src d), complete_url tctx (s_tgt d) with
        | inr s, inr g =>
            (* tar_file.add(src.path, arcname=tgt.path) *)
            if r_empty s then None else
            match file_at (r_comps s) fs with
            | Some (Plain z) =>
                match tar_filter sctx tctx r true fs with
                | Some (na, m) => Some ((if have_tar then na else PTar :: na), (r_comps g, z) :: m)
                | None => None
                end
            | _ => None
            end
        | _, _ => None
        end
  end.

Definition has_action (acts : list action) (d : sd) : bool := existsb (action_eqb (s_act d)) acts.

Definition tmgr_si_handle (t : task) (fs : fsys) : hres * task :=
  let acts := filter (has_action [Transfer; Tarball]) (t_in t) in
  match mkdir_p (sandbox_path t) fs with
  | None => ({| h_ok := false; h_fs := fs; h_log := [] |}, t)
  | Some fs1 =>
      match tar_filter (tmgr_in_src (t_sb t)) (tmgr_in_tgt (t_sb t)) acts false fs1 with
      | None => ({| h_ok := false; h_fs := fs1; h_log := [] |}, t)
      | Some (na, m) =>
          match resolve_all (tmgr_in_src (t_sb t)) (tmgr_in_tgt (t_sb t)) (tar_name t) na with
          | None => ({| h_ok := false; h_fs := fs1; h_log := [] |}, t)
          | Some rs =>
              let h := copy_all m rs fs1 [] in
              let t' := match m with
                        | [] => t
                        | _ => if h_ok h
                               then with_in t (t_in t ++ [{| s_src := "TMPTAR"; s_tgt := "task:///" +++ tar_name t;
                                                              s_act := Tarball |}])
                               else t
                        end in
              (h, t')
          end
      end
  end.

(* ---- agent side: target fix-ups of _handle_task_staging *)
Definition agent_fix_tgt (src tgt : string) (fs : fsys) : string :=
  if negb (nonempty (strip tgt)) then "task:///" +++ raw_basename src
  else if pre "/" (strip tgt) && is_dir (comps_of (strip tgt)) fs
       then (if ends_slash tgt then tgt +++ raw_basename src else tgt +++ "/" +++ raw_basename src)
       else tgt.

(* one directive of agent staging_input Default._handle_task_staging *)
Definition agent_in_step (t : task) (d : sd) (fs : fsys) : res :=
  let ctx := agent_ctx (t_sb t) in
  let tgt := agent_fix_tgt (s_src d) (s_tgt d) fs in
  match complete_url ctx (s_src d), complete_url ctx tgt with
  | inr s, inr g =>
      if has_action [Copy; Link; Move] d && negb (String.eqb (r_schema g) "file") then Fail fs
      else if action_eqb (s_act d) Tarball then
        let tb := sandbox_path t ++ [tar_name t] in
        match file_at tb fs with
        | Some (Tar m) => match untar m fs with Some fs' => Ok fs' tb | None => Fail fs end
        | _ => Fail fs
        end
      else handle_sd (s_act d) s g fs
  | _, _ => Fail fs
  end.

(* one directive of agent staging_output Default._handle_task_staging *)
Definition agent_out_step (t : task) (d : sd) (fs : fsys) : res :=
  let ctx := agent_ctx (t_sb t) in
  let tgt := agent_fix_tgt (s_src d) (s_tgt d) fs in
  match complete_url ctx (s_src d), complete_url ctx tgt with
  | inr s, inr g =>
      if negb (String.eqb (r_schema s) "file") then Fail fs
      else if negb (String.eqb (r_schema g) "file") then Fail fs
      else handle_sd (s_act d) s g fs
  | _, _ => Fail fs
  end.

(* untar errors after a partial extraction are not modelled apart: the
   generator produces no conflicting members *)
Fixpoint steps (step : sd -> fsys -> res) (l : list sd) (fs : fsys) (lg : wlog) : hres :=
  match l with
  | [] => {| h_ok := true; h_fs := fs; h_log := lg |}
  | d :: r =>
      match step d fs with
      | Ok fs' e =>
          steps step r fs'
            (if action_eqb (s_act d) Tarball then lg
             else lg ++ [(e, match file_at e fs' with Some c => c | None => Plain 0 end)])
      | OkDir fs' e => steps step r fs' lg
      | Fail fs' => {| h_ok := false; h_fs := fs'; h_log := lg |}
      end
  end.

Definition agent_si_handle (t : task) (fs : fsys) : hres :=
  steps (agent_in_step t) (filter (has_action [Link; Copy; Move; Tarball]) (t_in t)) fs [].

Definition agent_so_handle (t : task) (fs : fsys) : hres :=
  steps (agent_out_step t) (filter (has_action [Link; Copy; Move]) (t_out t)) fs [].

Definition tmgr_so_handle (t : task) (fs : fsys) : hres :=
  let acts := filter (has_action [Transfer]) (t_out t) in
  match resolve_all (tmgr_out_src (t_sb t)) (tmgr_out_tgt (t_sb t)) (tar_name t) (map PSd acts) with
  | None => {| h_ok := false; h_fs := fs; h_log := [] |}
  | Some rs => copy_all [] rs fs []
  end.

(* ---- the `work` methods: (file system, tasks pushed downstream in push
   order, tasks that are final) *)
Record wres := { w_fs : fsys; w_pushed : list task; w_final : list task }.

(* tmgr staging_input Default.work *)
Fixpoint tsi_staging (l : list task) (fs : fsys) : fsys * list task * list task :=
  match l with
  | [] => (fs, [], [])
  | t :: r =>
      let '(h, t') := tmgr_si_handle t fs in
      let '(fs', pushed, failed) := tsi_staging r (h_fs h) in
      if h_ok h then (fs', advance t' AGENT_STAGING_INPUT_PENDING :: pushed, failed)
      else (fs', pushed, t' :: failed)
  end.

Definition tsi_work (l : list task) (fs : fsys) : wres :=
  let l := map (fun t => advance t TMGR_STAGING_INPUT) l in
  let needs t := existsb (has_action [Transfer; Tarball]) (t_in t) in
  let nost := filter (fun t => negb (needs t)) l in
  let st := filter needs l in
  let '(fs', pushed, failed) := tsi_staging st fs in
  {| w_fs := fs';
     w_pushed := map (fun t => advance t AGENT_STAGING_INPUT_PENDING) nost ++ pushed;
     w_final := map (fun t => advance t FAILED) failed |}.

(* generic "handle the staging tasks one by one" loop of the other three *)
Fixpoint handle_loop (handle : task -> fsys -> hres) (okst : task -> list tstate) (l : list task) (fs : fsys)
  : fsys * list task * list task :=
  match l with
  | [] => (fs, [], [])
  | t :: r =>
      let h := handle t fs in
      let '(fs', pushed, failed) := handle_loop handle okst r (h_fs h) in
      if h_ok h then (fs', fold_left advance (okst t) t :: pushed, failed)
      else (fs', pushed, advance t FAILED :: failed)
  end.

(* agent staging_input: base work + Default._work *)
Definition asi_work (l : list task) (fs : fsys) : wres :=
  let l := map (fun t => advance t AGENT_STAGING_INPUT) l in
  let needs t := existsb (has_action [Link; Copy; Move; Tarball]) (t_in t) in
  let '(fs', pushed, failed) :=
    handle_loop agent_si_handle (fun _ => [AGENT_SCHEDULING_PENDING]) (filter needs l) fs in
  {| w_fs := fs';
     w_pushed := map (fun t => advance t AGENT_SCHEDULING_PENDING) (filter (fun t => negb (needs t)) l) ++ pushed;
     w_final := failed |}.

Definition is_done (s : tstate) : bool := tstate_eqb s DONE.

(* agent staging_output Default.work *)
Definition aso_work (l : list task) (fs : fsys) : wres :=
  let l := map (fun t => advance t AGENT_STAGING_OUTPUT) l in
  let skip t := negb (is_done (t_target t)) && negb (t_soe t) in
  let needs t := negb (skip t) && existsb (has_action [Link; Copy; Move]) (t_out t) in
  let '(fs', pushed, failed) :=
    handle_loop agent_so_handle (fun _ => [TMGR_STAGING_OUTPUT_PENDING]) (filter needs l) fs in
  {| w_fs := fs';
     w_pushed := map (fun t => advance t TMGR_STAGING_OUTPUT_PENDING) (filter (fun t => negb (needs t)) l) ++ pushed;
     w_final := failed |}.

(* tmgr staging_output Default.work: a staged task is advanced to its target
   state twice (once in _handle_task, once in work) *)
Definition tso_work (l : list task) (fs : fsys) : wres :=
  let l := map (fun t => advance t TMGR_STAGING_OUTPUT) l in
  let skip t := negb (is_done (t_target t)) in
  let needs t := negb (skip t) && existsb (has_action [Transfer]) (t_out t) in
  let '(fs', finals, failed) :=
    handle_loop tmgr_so_handle (fun t => [t_target t; t_target t]) (filter needs l) fs in
  {| w_fs := fs'; w_pushed := [];
     w_final := map (fun t => advance t (t_target t)) (filter (fun t => negb (needs t)) l) ++ finals ++ failed |}.

(* "execution": the task's files appear in its sandbox, the executor sets target_state *)
Fixpoint write_files (base : path) (l : list (path * Z)) (fs : fsys) : fsys :=
  match l with
  | [] => fs
  | (p, z) :: r =>
      match mkdir_p (parent (base ++ p)) fs with
      | Some fs1 => write_files base r (set (base ++ p) (F (Plain z)) fs1)
      | None => write_files base r fs
      end
  end.

Fixpoint exec_all (l : list task) (fs : fsys) : fsys * list task :=
  match l with
  | [] => (fs, [])
  | t :: r =>
      let fs1 := match mkdir_p (sandbox_path t) fs with Some f => f | None => fs end in
      let fs2 := fold_left (fun f o => run_xop o f) (t_ops t) (write_files (sandbox_path t) (t_exec t) fs1) in
      let '(fs', r') := exec_all r fs2 in
      (fs', with_target t (t_outcome t) :: r')
  end.

(* the whole pipeline over one bulk of tasks *)
Definition pipeline (l : list task) (fs : fsys) : fsys * list task :=
  let w1 := tsi_work l fs in
  let w2 := asi_work (w_pushed w1) (w_fs w1) in
  let '(fs3, ex) := exec_all (w_pushed w2) (w_fs w2) in
  let w4 := aso_work ex fs3 in
  let w5 := tso_work (w_pushed w4) (w_fs w4) in
  (w_fs w5, w_final w1 ++ w_final w2 ++ w_final w4 ++ w_final w5).

(* ---- a whole case as the application writes it *)
Record task_in := { ti_uid : string; ti_sb : sandboxes; ti_in : list sdin; ti_out : list sdin;
                    ti_soe : bool; ti_outcome : tstate; ti_exec : list (path * Z);
                    ti_ops : list xop }.

(* Task.__init__ -> expand_description: input first, then output *)
Definition expand_task (ti : task_in) : err + task :=
  match expand (ti_in ti) with
  | inl e => inl e
  | inr i =>
      match expand (ti_out ti) with
      | inl e => inl e
      | inr o => inr {| t_uid := ti_uid ti; t_sb := ti_sb ti; t_in := i; t_out := o; t_soe := ti_soe ti;
                        t_outcome := ti_outcome ti; t_exec := ti_exec ti; t_ops := ti_ops ti; t_target := DONE;
                        t_pub := [] |}
      end
  end.

Fixpoint rights {E A} (l : list (E + A)) : list A :=
  match l with [] => [] | inr a :: r => a :: rights r | inl _ :: r => rights r end.

Definition run_case (tis : list task_in) (fs : fsys) : list (err + task) * fsys * list task :=
  let ex := map expand_task tis in
  let '(fs', fin) := pipeline (rights ex) fs in
  (ex, fs', fin).

(* several bulks, one after the other (each passes through all four stagers
   before the next one starts) *)
Fixpoint run_bulks (bs : list (list task_in)) (fs : fsys) : list (err + task) * fsys * list task :=
  match bs with
  | [] => ([], fs, [])
  | b :: r =>
      let '(ex, fs1, fin) := run_case b fs in
      let '(ex', fs2, fin') := run_bulks r fs1 in
      (ex ++ ex', fs2, fin ++ fin')
  end.

(* the content the last write to path q in a log left there *)
Fixpoint last_write (q : path) (lg : wlog) : option content :=
  match lg with
  | [] => None
  | (e, c) :: r =>
      match last_write q r with
      | Some c' => Some c'
      | None => if path_eqb q e then Some c else None
      end
  end.
