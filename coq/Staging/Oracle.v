(* C11 oracle: boolean clauses of the property, evaluated on what the real
   stagers did (final file tree + published task states), and the
   model-vs-implementation agreement bit. *)
From Coq Require Import ZArith List Bool String Ascii.
From RP Require Import Common.Eqb Staging.Model.
Import ListNotations.
Open Scope string_scope.
Open Scope list_scope.

(* ---- short spellings for the literals the harness prints *)
Definition pp (s : string) : path := comps_of s.           (* "R/client/a.dat" *)
Definition std_sb (uid : string) : sandboxes :=            (* the layout of harness/c11_impl.py *)
  {| sb_client := "/R/client"; sb_task := "file://localhost/R/rsb/s1/p0/" ++ uid ++ "/";
     sb_pilot := "file://localhost/R/rsb/s1/p0/"; sb_session := "file://localhost/R/rsb/s1";
     sb_resource := "file://localhost/R/rsb"; sb_endpoint := "file://localhost/" |}.

(* ---------------------------------------------------------------- equalities *)
Definition err_eqb (a b : err) : bool :=
  match a, b with EValue, EValue | EOther, EOther => true | _, _ => false end.

Definition sd_eqb (a b : sd) : bool :=
  String.eqb (s_src a) (s_src b) && String.eqb (s_tgt a) (s_tgt b) && action_eqb (s_act a) (s_act b).

Definition content_eqb (a b : content) : bool :=
  match a, b with
  | Plain x, Plain y => Z.eqb x y
  | Tar m, Tar n => eqb_list (eqb_prod path_eqb Z.eqb) m n
  | _, _ => false
  end.

Definition node_eqb (a b : node) : bool :=
  match a, b with D, D => true | F x, F y => content_eqb x y | _, _ => false end.

Definition fs_eqb (a b : fsys) : bool :=
  forallb (fun e => eqb_option node_eqb (lookup (fst e) a) (lookup (fst e) b)) (a ++ b).

(* ------------------------------------------- what the property text denotes *)

Definition url_comps (s : string) : path := p_comps (u_path (parse_url s)).

Definition sandbox_of (sb : sandboxes) (schema : string) : option string :=
  if      String.eqb schema "client"   then Some (sb_client sb)
  else if String.eqb schema "task"     then Some (sb_task sb)
  else if String.eqb schema "pilot"    then Some (sb_pilot sb)
  else if String.eqb schema "session"  then Some (sb_session sb)
  else if String.eqb schema "resource" then Some (sb_resource sb)
  else if String.eqb schema "endpoint" then Some (sb_endpoint sb)
  else None.

(* the place a location string names: sandbox ++ "/" ++ path for the sandbox
   schemas (no host allowed), the path itself for absolute paths and file://,
   default ++ "/" ++ path for relative paths.  Result: components + "names a
   directory" (trailing slash / empty).  The agent-side actions (copy, link,
   move) are local to the target resource: client:// names no place there
   (documented: "local file copy, i.e., not crossing host boundaries"). *)
Definition denote (local_only : bool) (sb : sandboxes) (default : string) (raw : string) : option (path * bool) :=
  let u := parse_url raw in
  let tr := match p_comps (u_path u) with [] => true | _ => p_trail (u_path u) end in
  if String.eqb (u_schema u) "pwd" then
    (if nonempty (u_host u) then None else Some (url_comps default ++ p_comps (u_path u), tr))
  else if nonempty (u_schema u) then
    match sandbox_of sb (u_schema u) with
    | Some base => if nonempty (u_host u) || (local_only && String.eqb (u_schema u) "client") then None
                   else Some (url_comps base ++ p_comps (u_path u), tr)
    | None => if String.eqb (u_schema u) "file" then Some (p_comps (u_path u), p_trail (u_path u)) else None
    end
  else if pre "/" raw then Some (comps_of raw, ends_slash raw)
  else Some (url_comps default ++ comps_of raw, tr).

Definition client_side (a : action) : bool := action_eqb a Transfer || action_eqb a Tarball.

(* documented defaults for relative paths *)
Definition src_default (sb : sandboxes) (input : bool) (a : action) : string :=
  if input then (if client_side a then sb_client sb else sb_task sb) else sb_task sb.
Definition tgt_default (sb : sandboxes) (input : bool) (a : action) : string :=
  if input then sb_task sb else (if client_side a then sb_client sb else sb_task sb).

(* an empty target means "same name in the default place" *)
Definition norm_tgt (d : sd) : string :=
  if nonempty (strip (s_tgt d)) then s_tgt d else raw_basename (s_src d).

Record dinfo := { di_src : option (path * bool); di_tgt : option (path * bool); di_act : action;
                  di_eff : path;             (* where the data has to end up *)
                  di_input : bool; di_task : nat; di_idx : nat }.

Fixpoint enum {A} (k : nat) (l : list A) : list (nat * A) :=
  match l with [] => [] | x :: r => (k, x) :: enum (S k) r end.

Definition mk_dinfo (fs0 : fsys) (sb : sandboxes) (input : bool) (k : nat) (id : nat * sd) : dinfo :=
  let d := snd id in
  let s := denote (negb (client_side (s_act d))) sb (src_default sb input (s_act d)) (s_src d) in
  let g := denote (negb (client_side (s_act d))) sb (tgt_default sb input (s_act d)) (norm_tgt d) in
  let eff := match s, g with
             | Some (sp_, _), Some (gp, tr) =>
                 if tr || is_dir gp fs0 then gp ++ [last sp_ EmptyString] else gp
             | _, Some (gp, _) => gp
             | _, None => []
             end in
  {| di_src := s; di_tgt := g; di_act := s_act d; di_eff := eff; di_input := input; di_task := k;
     di_idx := fst id |}.

Definition related (a b : path) : bool := is_prefix a b || is_prefix b a.

Definition supported (input : bool) (a : action) : bool :=
  match a with
  | Transfer | Copy | Link | Move => true
  | Tarball => input
  | OtherAction => false
  end.

Definition abs_exec (t : task) : list (path * Z) :=
  map (fun e => (sandbox_path t ++ fst e, snd e)) (t_exec t).

Definition task_dinfos (fs0 : fsys) (kt : nat * task) : list dinfo :=
  let '(k, t) := kt in
  map (mk_dinfo fs0 (t_sb t) true k) (enum 0 (t_in t)) ++ map (mk_dinfo fs0 (t_sb t) false k) (enum 0 (t_out t)).

(* every path some directive, the tarball or the execution reads or writes *)
(* the paths a payload step removes / creates *)
Definition op_paths (o : xop) : list path := match o with XRm p => [p] | XMv p q => [p; q] end.

Definition mentions (fs0 : fsys) (ts : list (nat * task)) : list path :=
  List.concat (map (fun kt =>
    List.concat (map (fun di => match di_src di with Some (p, _) => [p] | None => [] end ++ [di_eff di])
                (task_dinfos fs0 kt))
    ++ map fst (abs_exec (snd kt))
    ++ (if existsb (has_action [Tarball]) (t_in (snd kt)) then [sandbox_path (snd kt) ++ [tar_name (snd kt)]] else [])
    ++ List.concat (map op_paths (t_ops (snd kt))))
    ts).

Definition count_related (p : path) (m : list path) : nat := List.length (filter (related p) m).

Definition exec_content (t : task) (p : path) : option Z :=
  match find (fun e => path_eqb (fst e) p) (abs_exec t) with Some e => Some (snd e) | None => None end.

(* the content the source of a directive has: from the initial tree, or (output
   directives) written by the task itself *)
Definition src_content (fs0 : fsys) (t : task) (di : dinfo) : option Z :=
  match di_src di with
  | Some (p, false) =>
      match (if di_input di then None else exec_content t p) with
      | Some z => Some z
      | None => match file_at p fs0 with Some (Plain z) => Some z | _ => None end
      end
  | _ => None
  end.

(* nothing else in the case touches the source or the destination *)
Definition independent (fs0 : fsys) (m : list path) (t : task) (di : dinfo) : bool :=
  match di_src di, di_tgt di with
  | Some (s, _), Some _ =>
      let n_src := match (if di_input di then None else exec_content t s) with Some _ => 2%nat | None => 1%nat end in
      Nat.eqb (count_related s m) n_src && Nat.eqb (count_related (di_eff di) m) 1
      && negb (exists_at (di_eff di) fs0 && match di_eff di with [] => false | _ => true end)
      && negb (existsb (fun e => match snd e with F _ => is_prefix (fst e) (di_eff di) | D => false end) fs0)
  | _, _ => false
  end.

(* a directive that can be carried out whatever else happens *)
Definition good (fs0 : fsys) (m : list path) (t : task) (di : dinfo) : bool :=
  supported (di_input di) (di_act di) && independent fs0 m t di
  && match src_content fs0 t di with Some _ => true | None => false end
  && match di_tgt di with
     | Some (g, tr) => if action_eqb (di_act di) Link || action_eqb (di_act di) Tarball
                       then negb tr && negb (is_dir g fs0) else true
     | None => false
     end.

(* the source certainly does not exist when the directive runs *)
Definition surely_missing (fs0 : fsys) (m : list path) (di : dinfo) : bool :=
  supported (di_input di) (di_act di)
  && match di_src di with
     | Some (s, _) => negb (exists_at s fs0) && Nat.eqb (count_related s m) 1
                      && negb (existsb (fun e => is_prefix (fst e) s && match snd e with F _ => true | D => false end) fs0)
     | None => false
     end.

Definition passed_input (states : list tstate) : bool := existsb (tstate_eqb AGENT_SCHEDULING_PENDING) states.
Definition final_state (states : list tstate) : option tstate :=
  match rev states with s :: _ => Some s | [] => None end.
Definition ends_in (s : tstate) (states : list tstate) : bool :=
  match final_state states with Some x => tstate_eqb x s | None => false end.

Definition has_file (tree : fsys) (p : path) (z : Z) : bool :=
  match file_at p tree with Some (Plain y) => Z.eqb y z | _ => false end.

Section Clauses.
  Variable fs0 : fsys.                 (* initial tree *)
  Variable tree : fsys.                (* final tree, observed *)
  Variable ts : list (nat * task).     (* expanded tasks, numbered *)
  Variable states : nat -> list tstate.   (* published states, observed *)
  Variable m : list path.              (* = mentions fs0 ts, computed once per row *)
  Variable ads : list dinfo.           (* = the dinfos of all tasks, computed once per row *)
  Definition dis_of (kt : nat * task) : list dinfo := filter (fun di => Nat.eqb (di_task di) (fst kt)) ads.

  Definition staged_ok (t : task) (di : dinfo) : bool :=
    if good fs0 m t di then
      match src_content fs0 t di with
      | Some z => has_file tree (di_eff di) z
                  && (* a move leaves nothing behind *)
                     (if action_eqb (di_act di) Move
                      then match di_src di with Some (s, _) => negb (exists_at s tree) | None => true end
                      else true)
      | None => true
      end
    else true.

  (* clause 1: after input staging every (independent, feasible) input
     directive's target holds the content of its source *)
  Definition ok_input_staged : bool :=
    forallb (fun kt => if passed_input (states (fst kt))
                       then forallb (fun di => negb (di_input di) || staged_ok (snd kt) di) (dis_of kt)
                       else true) ts.

  (* clause 2: the same for the output directives of a task that ends DONE *)
  Definition ok_output_staged : bool :=
    forallb (fun kt => if tstate_eqb (t_outcome (snd kt)) DONE && ends_in DONE (states (fst kt))
                       then forallb (fun di => di_input di || staged_ok (snd kt) di) (dis_of kt)
                       else true) ts.

  (* clause 3: output directives of a task that did not succeed are not carried
     out unless stage_on_error *)
  Definition ok_failed_no_output : bool :=
    forallb (fun kt =>
      let t := snd kt in
      if negb (tstate_eqb (t_outcome t) DONE) && negb (t_soe t)
      then forallb (fun di => di_input di ||
                      (if independent fs0 m t di then negb (exists_at (di_eff di) tree) else true))
                   (dis_of kt)
      else true) ts.

  (* clause 4: a directive that cannot be carried out fails its task *)
  Definition ok_bad_fails : bool :=
    forallb (fun kt =>
      let t := snd kt in
      let dis := dis_of kt in
      let bad_in := existsb (fun di => di_input di && surely_missing fs0 m di) dis in
      let bad_out := existsb (fun di => negb (di_input di) && surely_missing fs0 m di) dis in
      (if bad_in then negb (passed_input (states (fst kt))) && ends_in FAILED (states (fst kt)) else true)
      && (if bad_out && tstate_eqb (t_outcome t) DONE && passed_input (states (fst kt))
          then ends_in FAILED (states (fst kt)) else true)) ts.

  (* clause 5: ... and only that task: a task all of whose directives can be
     carried out ends in the state its execution determined *)
  Definition ok_only_that_task : bool :=
    forallb (fun kt =>
      let t := snd kt in
      if forallb (good fs0 m t) (dis_of kt)
      then ends_in (t_outcome t) (states (fst kt)) else true) ts.

  (* ---- overwrites: several transfer/copy directives (of one task, of several
     tasks, of several bulks) write the same path, or the path holds a file
     before the run.  The content at the end is judged against the LAST
     directive writing the path.  Order: bulks one after the other; inside a
     bulk client-side input (transfer), agent-side input (copy), agent-side
     output, client-side output; inside one task and stage the list order.
     Writers of different tasks in the same bulk and stage are not ordered by
     the property: each task's last writer is acceptable. *)
  Variable bulk : nat -> nat.            (* bulk number of task k *)

  Definition plain_writer (di : dinfo) : bool :=
    (action_eqb (di_act di) Transfer || action_eqb (di_act di) Copy)
    && match di_src di, di_tgt di with Some _, Some _ => true | _, _ => false end.

  Definition stage_rank (di : dinfo) : nat :=
    if di_input di then (if client_side (di_act di) then 0 else 1)
    else (if client_side (di_act di) then 3 else 2).
  Definition wkey (di : dinfo) : nat := 4 * bulk (di_task di) + stage_rank di.

  Definition task_of (k : nat) : option task :=
    match find (fun kt => Nat.eqb (fst kt) k) ts with Some kt => Some (snd kt) | None => None end.

  (* the source of a writer is read-only in the whole case *)
  Definition src_stable (di : dinfo) : bool :=
    match di_src di, task_of (di_task di) with
    | Some (s, _), Some t =>
        forallb (fun d' => negb (related s (di_eff d'))
                           && negb (action_eqb (di_act d') Move
                                    && match di_src d' with Some (s', _) => related s s' | None => false end))
                ads
        && forallb (fun kt => forallb (fun e => negb (related s (fst e))
                                                || (Nat.eqb (fst kt) (di_task di) && negb (di_input di)
                                                    && path_eqb (fst e) s))
                                      (abs_exec (snd kt))) ts
        && negb (existsb (fun kt => existsb (has_action [Tarball]) (t_in (snd kt))
                                    && related s (sandbox_path (snd kt) ++ [tar_name (snd kt)])) ts)
        && forallb (fun kt => forallb (fun o => forallb (fun p => negb (related s p)) (op_paths o)) (t_ops (snd kt))) ts
    | _, _ => false
    end.

  (* the task of a writer got through the stage the writer belongs to *)
  Definition writer_ran (di : dinfo) : bool :=
    match task_of (di_task di) with
    | Some t => if di_input di then passed_input (states (di_task di))
                else tstate_eqb (t_outcome t) DONE && ends_in DONE (states (di_task di))
    | None => false
    end.

  Definition writer_content (di : dinfo) : option Z :=
    match task_of (di_task di) with Some t => src_content fs0 t di | None => None end.

  Fixpoint max_key (l : list dinfo) : nat :=
    match l with [] => 0 | d :: r => Nat.max (wkey d) (max_key r) end.

  (* the last writer (list order) of every task among the writers of the last stage *)
  Definition is_task_last (g : list dinfo) (di : dinfo) : bool :=
    forallb (fun d' => negb (Nat.eqb (di_task d') (di_task di)) || Nat.leb (di_idx d') (di_idx di)) g.

  Definition judge_path (input_side : bool) (e : path) : bool :=
    let w := filter (fun di => plain_writer di && path_eqb (di_eff di) e) ads in
    match w with
    | [] => true
    | _ =>
        let g := filter (fun di => Nat.eqb (wkey di) (max_key w)) w in
        let judged :=
          (* every mention of something at, above or below e is one of these writes *)
          if negb (Nat.eqb (count_related e m) (List.length w)) then false else
          true
          && match e with [] => false | _ => true end
          && negb (is_dir e fs0)
          && negb (existsb (fun x => match snd x with F _ => is_prefix (fst x) e && negb (path_eqb (fst x) e)
                                                   | D => false end) fs0)
          && forallb (fun di => Bool.eqb (di_input di) input_side) g
          && forallb (fun di => writer_ran di && src_stable di
                                && match writer_content di with Some _ => true | None => false end) g in
        if judged
        then existsb (fun di => is_task_last g di
                                && match writer_content di with Some z => has_file tree e z | None => false end) g
        else true
    end.

  Definition ok_last_writer (input_side : bool) : bool :=
    forallb (fun di => negb (plain_writer di) || judge_path input_side (di_eff di)) ads.

  (* ---- directives that can be carried out WHENEVER they run: the source is a
     plain file nobody touches, the target a fresh file path at, above and below
     which nobody else puts anything.  Directories above the target may be moved
     away or removed by other directives or by the payload at any time: every
     directive creates the missing parents of its target when it runs. *)
  Definition same_di (a b : dinfo) : bool :=
    Nat.eqb (di_task a) (di_task b) && Bool.eqb (di_input a) (di_input b) && Nat.eqb (di_idx a) (di_idx b).

  Definition strict_prefix (a b : path) : bool := is_prefix a b && negb (path_eqb a b).

  Definition no_file_above (e : path) : bool :=
    negb (existsb (fun x => match snd x with F _ => strict_prefix (fst x) e | D => false end) fs0).

  Definition all_ops : list xop := List.concat (map (fun kt => t_ops (snd kt)) ts).
  Definition all_exec : list path := List.concat (map (fun kt => map fst (abs_exec (snd kt))) ts).
  Definition all_tars : list path :=
    List.concat (map (fun kt => if existsb (has_action [Tarball]) (t_in (snd kt))
                                then [sandbox_path (snd kt) ++ [tar_name (snd kt)]] else []) ts).

  Definition feasible_any_time (di : dinfo) : bool :=
    if negb (plain_writer di) then false else
    if negb (src_stable di) then false else
    true
    && match writer_content di with Some _ => true | None => false end
    && match di_tgt di with Some (g, tr) => negb tr && negb (is_dir g fs0) && path_eqb g (di_eff di) | None => false end
    && match di_eff di with [] => false | _ => true end
    && negb (exists_at (di_eff di) fs0) && no_file_above (di_eff di)
    && forallb (fun d' => same_di d' di
                          || (negb (related (di_eff d') (di_eff di))
                              && match di_src d' with Some (s', _) => negb (is_prefix (di_eff di) s') | None => true end))
               ads
    && forallb (fun p => negb (related p (di_eff di))) (all_exec ++ all_tars)
    && forallb (fun o => match o with
                         | XRm p => negb (related p (di_eff di)) || strict_prefix p (di_eff di)
                         | XMv p q => (negb (related p (di_eff di)) || strict_prefix p (di_eff di))
                                      && negb (related q (di_eff di))
                         end) all_ops.

  (* a MOVE of a directory that exists before the run and that nobody else
     removes, to a fresh place nobody else touches *)
  Definition movedir_ok (di : dinfo) : bool :=
    if negb (action_eqb (di_act di) Move) then false else
    match di_src di, di_tgt di with
       | Some (s, _), Some _ =>
           let x := di_eff di in
           (if is_dir s fs0 then true
            else if exists_at s fs0 then false
            else (* ... or that was created in an earlier bulk by a staging into it *)
              existsb (fun d' => if strict_prefix s (di_eff d') && Nat.ltb (bulk (di_task d')) (bulk (di_task di))
                                 then writer_ran d' && feasible_any_time d' else false) ads)
           && match s with [] => false | _ => true end
           && match x with [] => false | _ => true end
           && negb (exists_at x fs0) && no_file_above x && negb (related s x)
           && forallb (fun kt => negb (is_prefix s (sandbox_path (snd kt)))
                                 && negb (is_prefix s (url_comps (sb_client (t_sb (snd kt)))))) ts
           && forallb (fun d' => same_di d' di
                                 || (negb (related (di_eff d') x) && negb (is_prefix (di_eff d') s)
                                     && match di_src d' with
                                        | Some (s', _) => negb (related s' x)
                                                          && negb (action_eqb (di_act d') Move && related s' s)
                                        | None => true
                                        end))
                      ads
           && forallb (fun p => negb (related p x) && negb (is_prefix p s)) (all_exec ++ all_tars)
           && forallb (fun o => forallb (fun p => negb (related p x) && negb (is_prefix p s)) (op_paths o)) all_ops
       | _, _ => false
       end.

  (* ---- DEPENDENT directives of one input list, judged in the order given:
     a later directive may use what an earlier one staged (TRANSFER / TARBALL /
     COPY a file, then LINK / COPY / MOVE that file on).  The input list of a
     task is interpreted over "path -> content" in the order the property fixes:
     client-side transfers first, then the agent-side directives (copy, link,
     move, tarball) in list order, each seeing the effects of all earlier ones.
     The judgement is made only for lists of simple directives (file to a fresh
     file path) that the rest of the case leaves alone. *)
  Definition cstate := list (path * Z).
  Fixpoint st_get (p : path) (st : cstate) : option Z :=
    match st with [] => None | (q, z) :: r => if path_eqb p q then Some z else st_get p r end.
  Definition st_del (p : path) (st : cstate) : cstate := filter (fun x => negb (path_eqb p (fst x))) st.

  Definition plain_files : cstate :=
    List.concat (map (fun x => match snd x with F (Plain z) => [(fst x, z)] | _ => [] end) fs0).

  Definition chain_step (st : option cstate) (di : dinfo) : option cstate :=
    match st, di_src di, di_tgt di with
    | Some st, Some (s, _), Some (g, tr) =>
        let e := di_eff di in
        if negb (supported true (di_act di)) then None
        else if tr || is_dir g fs0 || negb (path_eqb g e) then None
        else match e with [] => None | _ =>
          (* the client packs the source of a TARBALL directive before anything else is staged *)
          match (if action_eqb (di_act di) Tarball then st_get s plain_files else st_get s st) with
          | None => None                        (* the source is not there when its turn comes *)
          | Some z =>
              if path_eqb s e || exists_at e fs0 || negb (no_file_above e) then None
              else if existsb (fun x => related (fst x) e) st then None
              else Some ((e, z) :: (if action_eqb (di_act di) Move then st_del s st else st))
          end end
    | _, _, _ => None
    end.

  Definition in_order (dis : list dinfo) : list dinfo :=
    filter (fun di => di_input di && action_eqb (di_act di) Transfer) dis
    ++ filter (fun di => di_input di && negb (action_eqb (di_act di) Transfer)) dis.

  Definition own_tar (kt : nat * task) : list path :=
    if existsb (has_action [Tarball]) (t_in (snd kt)) then [sandbox_path (snd kt) ++ [tar_name (snd kt)]] else [].

  (* nothing else in the case writes, moves or removes what the list reads, or
     touches what it writes *)
  Definition chain_isolated (kt : nat * task) : bool :=
    let mine := filter (fun di => di_input di) (dis_of kt) in
    let others := filter (fun di => negb (Nat.eqb (di_task di) (fst kt) && di_input di)) ads in
    let srcs := List.concat (map (fun di => match di_src di with Some (s, _) => [s] | None => [] end) mine) in
    let effs := map di_eff mine ++ own_tar kt in
    let touched := srcs ++ effs in
    forallb (fun d' =>
      forallb (fun p => negb (related (di_eff d') p)) touched
      && match di_src d' with
         | Some (s', _) => forallb (fun p => negb (related s' p)) effs
                           && (negb (action_eqb (di_act d') Move) || forallb (fun p => negb (related s' p)) srcs)
         | None => true
         end) others
    && forallb (fun q => forallb (fun p => negb (related q p)) touched) all_exec
    && forallb (fun k' => if Nat.eqb (fst k') (fst kt) then true
                          else forallb (fun q => forallb (fun p => negb (related q p)) touched) (own_tar k')) ts
    && forallb (fun o => forallb (fun q => forallb (fun p => negb (related q p)) touched) (op_paths o)) all_ops
    && forallb (fun q => forallb (fun di => negb (related q (di_eff di))
                                            && match di_src di with Some (s, _) => negb (related q s) | None => true end)
                                 mine) (own_tar kt).

  (* Some st: every input directive of the task can be carried out in the order given *)
  Definition chain_result (kt : nat * task) : option cstate :=
    let mine := filter (fun di => di_input di) (dis_of kt) in
    match mine with
    | [] => None
    | _ =>
        (* sources of TARBALL directives are left alone by the list itself *)
        let tar_src_ok :=
          forallb (fun di => if action_eqb (di_act di) Tarball
                             then match di_src di with
                                  | Some (s, _) =>
                                      forallb (fun d' => negb (related s (di_eff d'))
                                                         && negb (action_eqb (di_act d') Move
                                                                  && match di_src d' with
                                                                     | Some (s', _) => related s s'
                                                                     | None => false end)) mine
                                  | None => false
                                  end
                             else true) mine in
        if chain_isolated kt && tar_src_ok then fold_left chain_step (in_order mine) (Some plain_files) else None
    end.

  (* ... then the task gets through input staging and, at the end of the run,
     every path the list wrote and did not move on holds the content that
     reached it along the chain *)
  Definition ok_chain_staged : bool :=
    forallb (fun kt =>
      match chain_result kt with
      | Some st =>
          if passed_input (states (fst kt))
          then forallb (fun di => if di_input di
                                  then match st_get (di_eff di) st with
                                       | Some z => has_file tree (di_eff di) z
                                       | None => true
                                       end
                                  else true) (dis_of kt)
          else true
      | None => true
      end) ts.

  Definition ok_chain_passes : bool :=
    forallb (fun kt => match chain_result kt with Some _ => passed_input (states (fst kt)) | None => true end) ts.

  (* clause 5, with these: a task all of whose directives can be carried out
     ends in the state its execution determined *)
  Definition ok_feasible_task : bool :=
    forallb (fun kt =>
      let t := snd kt in
      let chain := match chain_result kt with Some _ => true | None => false end in
      if forallb (fun di => if di_input di && chain then true
                            else if good fs0 m t di then true else if feasible_any_time di then true else movedir_ok di)
                 (dis_of kt)
      then ends_in (t_outcome t) (states (fst kt)) else true) ts.
End Clauses.

(* -------------------------------------------------------------------- the row *)

(* observation of one task: expansion (or the exception), published states,
   input_staging after the run *)
Definition tobs := ((err + (list sd * list sd)) * list tstate * list sd)%type.

Definition tobs_eqb (a b : tobs) : bool :=
  eqb_sum err_eqb (eqb_prod (eqb_list sd_eqb) (eqb_list sd_eqb)) (fst (fst a)) (fst (fst b))
  && eqb_list tstate_eqb (snd (fst a)) (snd (fst b))
  && eqb_list sd_eqb (snd a) (snd b).

Definition model_tobs (fin : list task) (ti : task_in) (e : err + task) : tobs :=
  match e with
  | inl x => (inl x, [], [])
  | inr t0 =>
      match find (fun t => String.eqb (t_uid t) (ti_uid ti)) fin with
      | Some t => (inr (t_in t0, t_out t0), t_pub t, t_in t)
      | None => (inr (t_in t0, t_out t0), [], [])
      end
  end.

Definition model_obs (bs : list (list task_in)) (fs0 : fsys) : list tobs * fsys :=
  let '(ex, fs', fin) := run_bulks bs fs0 in
  (map (fun p => model_tobs fin (fst p) (snd p)) (combine (List.concat bs) ex), fs').

(* number the tasks the way the harness does (position in the case), keeping
   only those that expanded *)
Fixpoint numbered (k : nat) (l : list (err + task)) : list (nat * task) :=
  match l with
  | [] => []
  | inr t :: r => (k, t) :: numbered (S k) r
  | inl _ :: r => numbered (S k) r
  end.

(* bulk number of the task at position k *)
Fixpoint bulk_of (bs : list (list task_in)) (b k : nat) : nat :=
  match bs with
  | [] => b
  | x :: r => if Nat.ltb k (List.length x) then b else bulk_of r (S b) (k - List.length x)
  end.

Definition c11_row (bs : list (list task_in)) (fs0 : fsys) (obs : list tobs) (tree : fsys) : list bool :=
  let '(mo, mfs) := model_obs bs fs0 in
  let ts := numbered 0 (map expand_task (List.concat bs)) in
  let states k := match nth_error obs k with Some o => snd (fst o) | None => [] end in
  let bulk := bulk_of bs 0 in
  let m := mentions fs0 ts in
  let ads := List.concat (map (task_dinfos fs0) ts) in
  [ eqb_list tobs_eqb mo obs && fs_eqb mfs tree;
    ok_input_staged fs0 tree ts states m ads && ok_last_writer fs0 tree ts states m ads bulk true
      && ok_chain_staged fs0 tree ts states ads;
    ok_output_staged fs0 tree ts states m ads && ok_last_writer fs0 tree ts states m ads bulk false;
    ok_failed_no_output fs0 tree ts m ads;
    ok_bad_fails fs0 ts states m ads;
    ok_only_that_task fs0 ts states m ads && ok_feasible_task fs0 ts states m ads bulk
      && ok_chain_passes fs0 ts states ads ].
