(* Boolean equality combinators used by the correspondence checks. *)
From Coq Require Import ZArith List Bool String Ascii.
Import ListNotations.

Fixpoint eqb_list {A} (e : A -> A -> bool) (a b : list A) : bool :=
  match a, b with
  | [], [] => true
  | x :: a', y :: b' => e x y && eqb_list e a' b'
  | _, _ => false
  end.

Definition eqb_option {A} (e : A -> A -> bool) (a b : option A) : bool :=
  match a, b with
  | None, None => true
  | Some x, Some y => e x y
  | _, _ => false
  end.

Definition eqb_prod {A B} (ea : A -> A -> bool) (eb : B -> B -> bool)
  (a b : A * B) : bool := ea (fst a) (fst b) && eb (snd a) (snd b).

Definition eqb_sum {A B} (ea : A -> A -> bool) (eb : B -> B -> bool)
  (a b : A + B) : bool :=
  match a, b with
  | inl x, inl y => ea x y
  | inr x, inr y => eb x y
  | _, _ => false
  end.

Lemma eqb_list_spec {A} (e : A -> A -> bool) :
  (forall x y, e x y = true <-> x = y) ->
  forall a b, eqb_list e a b = true <-> a = b.
Proof.
  intros He a; induction a as [|x a IH]; intros [|y b]; simpl; split; intro H;
    try reflexivity; try discriminate.
  - apply andb_true_iff in H as [H1 H2]. apply He in H1. apply IH in H2. congruence.
  - injection H as -> ->. apply andb_true_iff; split; [apply He; reflexivity | apply IH; reflexivity].
Qed.

Lemma eqb_option_spec {A} (e : A -> A -> bool) :
  (forall x y, e x y = true <-> x = y) ->
  forall a b, eqb_option e a b = true <-> a = b.
Proof.
  intros He [x|] [y|]; simpl; split; intro H; try reflexivity; try discriminate.
  - apply He in H; congruence.
  - injection H as ->; apply He; reflexivity.
Qed.

Lemma eqb_prod_spec {A B} (ea : A -> A -> bool) (eb : B -> B -> bool) :
  (forall x y, ea x y = true <-> x = y) ->
  (forall x y, eb x y = true <-> x = y) ->
  forall a b, eqb_prod ea eb a b = true <-> a = b.
Proof.
  intros Ha Hb [a1 b1] [a2 b2]; unfold eqb_prod; simpl; split; intro H.
  - apply andb_true_iff in H as [H1 H2]. apply Ha in H1. apply Hb in H2. congruence.
  - injection H as -> ->. apply andb_true_iff; split; [apply Ha|apply Hb]; reflexivity.
Qed.

(* result rendering for the harness: one character per boolean *)
Definition bit (b : bool) : string := if b then "1"%string else "0"%string.
Fixpoint bits (l : list bool) : string :=
  match l with [] => EmptyString | b :: l' => append (bit b) (bits l') end.
Fixpoint rows (l : list (list bool)) : string :=
  match l with [] => EmptyString | r :: l' => append (bits r) (append ";" (rows l')) end.
