(* Finite sweeps over an integer range, lifted to universally quantified facts. *)
From Coq Require Import ZArith List Bool Lia.
Import ListNotations.
Open Scope Z_scope.

Definition zrange (n : nat) : list Z := map Z.of_nat (seq 0 n).

Lemma zrange_in n i : 0 <= i < Z.of_nat n -> In i (zrange n).
Proof.
  intro H; unfold zrange. apply in_map_iff. exists (Z.to_nat i). split; [lia|].
  apply in_seq; lia.
Qed.

Lemma zrange_forall (P : Z -> bool) n :
  forallb P (zrange n) = true -> forall i, 0 <= i < Z.of_nat n -> P i = true.
Proof.
  intros H i Hi. rewrite forallb_forall in H. apply H, zrange_in, Hi.
Qed.
