(* Raptor relay: counting vocabulary, clause checkers and the rows evaluated by
   the harness (harness/relay.py) on traces of the real code.
   A trace gives, for every operation, the effects it caused and the state
   afterwards (scheduler queue, registered queues, backlog).  The clauses look
   at the trace only; the first bit of a row compares it with the model. *)
From Coq Require Import ZArith List Bool Arith.
From RP Require Import Common.Eqb Relay.Model.
Import ListNotations.
Open Scope Z_scope.

(* ---------------- counting ---------------- *)
Fixpoint cnt (u : Z) (l : list Z) : nat :=
  match l with [] => 0%nat | x :: r => ((if Z.eqb x u then 1 else 0) + cnt u r)%nat end.

(* occurrences of u in all backlogs *)
Fixpoint tot (u : Z) (bl : list (Z * list Z)) : nat :=
  match bl with [] => 0%nat | (_, l) :: r => (cnt u l + tot u r)%nat end.

(* raptor tasks with uid u in a bulk *)
Fixpoint t_arr (u : Z) (ts : list task) : nat :=
  match ts with
  | [] => 0%nat
  | t :: r => ((match relayed t with Some _ => if Z.eqb (t_uid t) u then 1 else 0 | None => 0 end) + t_arr u r)%nat
  end.

Definition arrivals (o : op) : list task := match o with Arrive b => b | _ => [] end.
Definition all_arrivals (ops : list op) : list task := flat_map arrivals ops.
Definition n_arr (u : Z) (ops : list op) : nat := t_arr u (all_arrivals ops).
Definition n_inq (u : Z) (s : state) : nat := t_arr u (concat (inq s)).

Definition o_fwd (u : Z) (o : out) : nat :=
  match o with OPut _ us => cnt u us | OPut1 _ v => if v =? u then 1%nat else 0%nat | _ => 0%nat end.
Definition o_fail (u : Z) (o : out) : nat :=
  match o with OFail v => if v =? u then 1%nat else 0%nat | _ => 0%nat end.
Definition o_cancel (u : Z) (o : out) : nat :=
  match o with OCancel us => cnt u us | _ => 0%nat end.
Fixpoint sum_over (f : out -> nat) (l : list out) : nat :=
  match l with [] => 0%nat | o :: r => (f o + sum_over f r)%nat end.
Definition n_fwd (u : Z) (l : list out) : nat := sum_over (o_fwd u) l.
Definition n_fail (u : Z) (l : list out) : nat := sum_over (o_fail u) l.
Definition n_cancel (u : Z) (l : list out) : nat := sum_over (o_cancel u) l.

(* where the raptor tasks called u are: waiting on the scheduler queue, waiting
   in a backlog, forwarded, failed, canceled *)
Definition places (u : Z) (s : state) (outs : list out) : nat :=
  (n_inq u s + tot u (backlog s) + n_fwd u outs + n_fail u outs + n_cancel u outs)%nat.

(* uids a trace speaks about *)
Definition out_uids (o : out) : list Z :=
  match o with
  | OPut _ us | OCancel us | OSched us => us
  | OPut1 _ u | OFail u => [u]
  | OWarn _ => []
  end.
Definition state_uids (s : state) : list Z :=
  map t_uid (concat (inq s)) ++ concat (map snd (backlog s)).

(* ---------------- equality on observations ---------------- *)
Definition task_eqb (a b : task) : bool :=
  (t_uid a =? t_uid b) && eqb_option Z.eqb (t_rid a) (t_rid b)
  && Bool.eqb (t_seen a) (t_seen b) && Bool.eqb (t_worker a) (t_worker b).
Definition zl_eqb := eqb_list Z.eqb.
Definition out_eqb (a b : out) : bool :=
  match a, b with
  | OPut q us, OPut q' us' => (q =? q') && zl_eqb us us'
  | OPut1 q u, OPut1 q' u' => (q =? q') && (u =? u')
  | OFail u, OFail u' => u =? u'
  | OCancel us, OCancel us' => zl_eqb us us'
  | OSched us, OSched us' => zl_eqb us us'
  | OWarn n, OWarn n' => n =? n'
  | _, _ => false
  end.
Definition bl_eqb := eqb_list (eqb_prod Z.eqb zl_eqb).
Definition qs_eqb := eqb_list (eqb_prod Z.eqb Z.eqb).
Definition inq_eqb := eqb_list (eqb_list task_eqb).
Definition state_eqb (a b : state) : bool :=
  inq_eqb (inq a) (inq b) && qs_eqb (queues a) (queues b) && bl_eqb (backlog a) (backlog b).
Definition outs_eqb := eqb_list out_eqb.
Definition obs := list (list out * state).
Definition obs_eqb : obs -> obs -> bool := eqb_list (eqb_prod outs_eqb state_eqb).

(* ---------------- clause checkers, one operation at a time ----------------
   prev: state before the operation; arr: raptor-or-not tasks that arrived
   before it; acc: effects before it; o: the operation; e: its effects;
   sn: the state after it. *)
Definition chk := state -> list task -> list out -> op -> list out -> state -> bool.

Definition universe (arr : list task) (acc : list out) (sn : state) : list Z :=
  map t_uid arr ++ flat_map out_uids acc ++ state_uids sn.

(* never forwarded more often than it arrived: for unique uids, at most once *)
Definition chk_fwd_once : chk := fun prev arr acc o e sn =>
  let arr' := arr ++ arrivals o in let acc' := acc ++ e in
  forallb (fun u => n_fwd u acc' <=? t_arr u arr')%nat (universe arr' acc' sn).

(* at this moment every raptor task that arrived is in exactly one place *)
Definition chk_place : chk := fun prev arr acc o e sn =>
  let arr' := arr ++ arrivals o in let acc' := acc ++ e in
  forallb (fun u => t_arr u arr' =? places u sn acc')%nat (universe arr' acc' sn).

(* a task (unique uid) that was failed or canceled is not forwarded, before or after *)
Definition chk_final : chk := fun prev arr acc o e sn =>
  let arr' := arr ++ arrivals o in let acc' := acc ++ e in
  forallb (fun u => if (t_arr u arr' <=? 1)%nat
                    then negb ((0 <? n_fwd u acc')%nat && (0 <? n_fail u acc' + n_cancel u acc')%nat)
                         && (n_fail u acc' + n_cancel u acc' <=? 1)%nat
                    else true) (universe arr' acc' sn).

(* a cancel naming a task in a backlog cancels it there and removes it *)
Definition chk_cancel : chk := fun prev arr acc o e sn =>
  match o with
  | Cancel us =>
      forallb (fun u => (n_cancel u e =? tot u (backlog prev))%nat && (tot u (backlog sn) =? 0)%nat) us
  | _ => true
  end.

(* tasks not named stay where they are, in the same order; nothing else happens *)
Definition unnamed (us : list Z) (bl : list (Z * list Z)) : list (Z * list Z) :=
  map (fun p => (fst p, filter (fun u => negb (zmem u us)) (snd p))) bl.
Definition chk_bystander : chk := fun prev arr acc o e sn =>
  match o with
  | Cancel us =>
      inq_eqb (inq sn) (inq prev) && qs_eqb (queues sn) (queues prev)
      && bl_eqb (backlog sn) (unnamed us (backlog prev))
      && forallb (fun x => match x with OCancel c => forallb (fun u => zmem u us) c | _ => false end) e
  | _ => true
  end.

(* Register relays the complete backlog of the name and of the wildcard to the
   new queue and leaves nothing of them behind; the rest stays *)
Definition without (ks : list Z) {A} (l : list (Z * A)) : list (Z * A) :=
  filter (fun p => negb (zmem (fst p) ks)) l.
Definition key_list (k : Z) (bl : list (Z * list Z)) : list Z :=
  match alook k bl with Some l => l | None => [] end.
Definition chk_register : chk := fun prev arr acc o e sn =>
  match o with
  | Register n q =>
      let due := key_list n (backlog prev) ++ (if n =? star then [] else key_list star (backlog prev)) in
      forallb (fun x => match x with OPut q' _ => q' =? q | _ => false end) e
      && zl_eqb (flat_map out_uids e) due
      && bl_eqb (backlog sn) (without [n; star] (backlog prev))
      && inq_eqb (inq sn) (inq prev)
      && eqb_option Z.eqb (alook n (queues sn)) (Some q)
  | _ => true
  end.

(* Unregister fails exactly the backlog of that name and forgets name and backlog *)
Definition chk_unregister : chk := fun prev arr acc o e sn =>
  match o with
  | Unregister n =>
      outs_eqb (filter (fun x => match x with OWarn _ => false | _ => true end) e)
               (map OFail (key_list n (backlog prev)))
      && bl_eqb (backlog sn) (without [n] (backlog prev))
      && qs_eqb (queues sn) (without [n] (queues prev))
      && inq_eqb (inq sn) (inq prev)
  | _ => true
  end.

(* a drain empties the scheduler queue; tasks without raptor_id, raptor workers
   and tasks which raptor has seen take the normal scheduling path, the others do not *)
Definition chk_sched : chk := fun prev arr acc o e sn =>
  match o with
  | Drain =>
      is_nil (inq sn)
      && zl_eqb (flat_map (fun x => match x with OSched us => us | _ => [] end) e)
                (normal (concat (inq prev)))
      && qs_eqb (queues sn) (queues prev)
  | _ => forallb (fun x => match x with OSched _ => false | _ => true end) e
  end.

(* nobody waits for a queue that is registered: a registered name has no
   backlog, and the wildcard has none while any queue is registered *)
Definition no_wait (s : state) : bool :=
  forallb (fun p => match alook (fst p) (backlog s) with None => true | Some _ => false end) (queues s)
  && (is_nil (queues s) || match alook star (backlog s) with None => true | Some _ => false end).
Definition chk_nowait : chk := fun prev arr acc o e sn => no_wait sn.

Fixpoint walk (c : chk) (prev : state) (arr : list task) (acc : list out) (ops : list op) (ob : obs) : bool :=
  match ops, ob with
  | o :: r, (e, sn) :: ob' => c prev arr acc o e sn && walk c sn (arr ++ arrivals o) (acc ++ e) r ob'
  | _, _ => true
  end.

Definition clause_checks : list chk :=
  [chk_fwd_once; chk_place; chk_final; chk_cancel; chk_bystander; chk_register; chk_unregister;
   chk_sched; chk_nowait].

(* row of a sequential case: [corr; 9 clauses; linearizable (not judged here)] *)
Definition relay_row (ops : list op) (ob : obs) : list bool :=
  obs_eqb (trace init ops) ob
  :: map (fun c => walk c init [] [] ops ob) clause_checks ++ [true].

(* two threads: after the prefix `ops` (trace `ob`), control_cb(a) in one
   thread and _schedule_incoming in the other; ea / eb: what each thread
   caused; fin: the state when both have returned.  Both take the lock around
   what they do to queues and backlog, so the outcome has to be that of one of
   the two orders. *)
Definition last_state (ob : obs) : state := last (map snd ob) init.
Definition seq2 (s : state) (a b : op) : list out * list out * state :=
  let '(s1, e1) := step s a in let '(s2, e2) := step s1 b in (e1, e2, s2).
Definition lin_ok (s0 : state) (a : op) (ea eb : list out) (fin : state) : bool :=
  (let '(e1, e2, s2) := seq2 s0 a Drain in outs_eqb e1 ea && outs_eqb e2 eb && state_eqb s2 fin)
  || (let '(e1, e2, s2) := seq2 s0 Drain a in outs_eqb e1 eb && outs_eqb e2 ea && state_eqb s2 fin).

Definition pair_row (ops : list op) (ob : obs) (a : op) (ea eb : list out) (fin : state) : list bool :=
  let arr := all_arrivals ops in
  let acc := flat_map fst ob in
  let s0 := last_state ob in
  let e := ea ++ eb in
  obs_eqb (trace init ops) ob
  :: [ chk_fwd_once s0 arr acc a e fin; chk_place s0 arr acc a e fin; chk_final s0 arr acc a e fin;
       true; true; true; true; true; no_wait fin;
       lin_ok s0 a ea eb fin ].
