(* Raptor relay: counting vocabulary, clause checkers and the rows evaluated by
   the harness (harness/relay.py) on traces of the real code.
   A trace gives, for every operation, the effects it caused and the state
   afterwards (scheduler queue, registered queues, backlog).  The clauses look
   at the trace only; the first bit of a row compares it with the model. *)
From Coq Require Import ZArith List Bool Arith.
From RP Require Import Common.Eqb Relay.Model.
Import ListNotations.
Open Scope Z_scope.

(* ---------------- counting ---------------- *)
Fixpoint cnt (u : Z) (l : list Z) : nat :=
  match l with [] => 0%nat | x :: r => ((if Z.eqb x u then 1 else 0) + cnt u r)%nat end.

(* occurrences of u in all backlogs *)
Fixpoint tot (u : Z) (bl : list (Z * list Z)) : nat :=
  match bl with [] => 0%nat | (_, l) :: r => (cnt u l + tot u r)%nat end.

(* raptor tasks with uid u in a bulk *)
Fixpoint t_arr (u : Z) (ts : list task) : nat :=
  match ts with
  | [] => 0%nat
  | t :: r => ((match relayed t with Some _ => if Z.eqb (t_uid t) u then 1 else 0 | None => 0 end) + t_arr u r)%nat
  end.

Definition arrivals (o : op) : list task := match o with Arrive b => b | _ => [] end.
Definition all_arrivals (ops : list op) : list task := flat_map arrivals ops.
Definition n_arr (u : Z) (ops : list op) : nat := t_arr u (all_arrivals ops).
Definition n_inq (u : Z) (s : state) : nat := t_arr u (concat (inq s)).

Definition o_fwd (u : Z) (o : out) : nat :=
  match o with OPut _ us => cnt u us | OPut1 _ v => if v =? u then 1%nat else 0%nat | _ => 0%nat end.
Definition o_fail (u : Z) (o : out) : nat :=
  match o with OFail v => if v =? u then 1%nat else 0%nat | _ => 0%nat end.
Definition o_cancel (u : Z) (o : out) : nat :=
  match o with OCancel us => cnt u us | OCancel1 v => if v =? u then 1%nat else 0%nat | _ => 0%nat end.
Fixpoint sum_over (f : out -> nat) (l : list out) : nat :=
  match l with [] => 0%nat | o :: r => (f o + sum_over f r)%nat end.
Definition n_fwd (u : Z) (l : list out) : nat := sum_over (o_fwd u) l.
Definition n_fail (u : Z) (l : list out) : nat := sum_over (o_fail u) l.
Definition n_cancel (u : Z) (l : list out) : nat := sum_over (o_cancel u) l.

(* where the raptor tasks called u are: waiting on the scheduler queue, waiting
   in a backlog, forwarded, failed, canceled *)
Definition places (u : Z) (s : state) (outs : list out) : nat :=
  (n_inq u s + tot u (backlog s) + n_fwd u outs + n_fail u outs + n_cancel u outs)%nat.

(* uids a trace speaks about *)
Definition out_uids (o : out) : list Z :=
  match o with
  | OPut _ us | OCancel us | OSched us => us
  | OPut1 _ u | OFail u | OCancel1 u => [u]
  | OWarn _ => []
  end.
Definition state_uids (s : state) : list Z :=
  map t_uid (concat (inq s)) ++ concat (map snd (backlog s)).

(* ---------------- equality on observations ---------------- *)
Definition task_eqb (a b : task) : bool :=
  (t_uid a =? t_uid b) && eqb_option Z.eqb (t_rid a) (t_rid b)
  && Bool.eqb (t_seen a) (t_seen b) && Bool.eqb (t_worker a) (t_worker b).
Definition zl_eqb := eqb_list Z.eqb.
Definition out_eqb (a b : out) : bool :=
  match a, b with
  | OPut q us, OPut q' us' => (q =? q') && zl_eqb us us'
  | OPut1 q u, OPut1 q' u' => (q =? q') && (u =? u')
  | OFail u, OFail u' => u =? u'
  | OCancel us, OCancel us' => zl_eqb us us'
  | OCancel1 u, OCancel1 u' => u =? u'
  | OSched us, OSched us' => zl_eqb us us'
  | OWarn n, OWarn n' => n =? n'
  | _, _ => false
  end.
Definition bl_eqb := eqb_list (eqb_prod Z.eqb zl_eqb).
Definition qs_eqb := eqb_list (eqb_prod Z.eqb Z.eqb).
Definition inq_eqb := eqb_list (eqb_list task_eqb).
(* the gone names are a set *)
Definition set_eqb (a b : list Z) : bool :=
  forallb (fun x => zmem x b) a && forallb (fun x => zmem x a) b.
Definition state_eqb (a b : state) : bool :=
  inq_eqb (inq a) (inq b) && qs_eqb (queues a) (queues b) && bl_eqb (backlog a) (backlog b)
  && zl_eqb (clist a) (clist b) && set_eqb (gone a) (gone b).
Definition outs_eqb := eqb_list out_eqb.
Definition obs := list (list out * state).
Definition obs_eqb : obs -> obs -> bool := eqb_list (eqb_prod outs_eqb state_eqb).

(* ---------------- clause checkers, one operation at a time ----------------
   hg: see below; prev: state before the operation; arr: raptor-or-not tasks that arrived
   before it; acc: effects before it; o: the operation; e: its effects;
   sn: the state after it. *)
(* hg: the names whose last registration event in the history so far is an
   unregistration (read off the operations, not off the implementation) *)
Definition gone_after (hg : list Z) (o : op) : list Z :=
  match o with Register n _ => gdel n hg | Unregister n => gadd n hg | _ => hg end.
Definition hist_gone (ops : list op) : list Z := fold_left gone_after ops [].
Definition chk := list Z -> state -> list task -> list out -> op -> list out -> state -> bool.

Definition universe (arr : list task) (acc : list out) (sn : state) : list Z :=
  map t_uid arr ++ flat_map out_uids acc ++ state_uids sn.

(* never forwarded more often than it arrived: for unique uids, at most once *)
Definition chk_fwd_once : chk := fun hg prev arr acc o e sn =>
  let arr' := arr ++ arrivals o in let acc' := acc ++ e in
  forallb (fun u => n_fwd u acc' <=? t_arr u arr')%nat (universe arr' acc' sn).

(* at this moment every raptor task that arrived is in exactly one place *)
Definition chk_place : chk := fun hg prev arr acc o e sn =>
  let arr' := arr ++ arrivals o in let acc' := acc ++ e in
  forallb (fun u => t_arr u arr' =? places u sn acc')%nat (universe arr' acc' sn).

(* a task (unique uid) that was failed or canceled is not forwarded, before or after *)
Definition chk_final : chk := fun hg prev arr acc o e sn =>
  let arr' := arr ++ arrivals o in let acc' := acc ++ e in
  forallb (fun u => if (t_arr u arr' <=? 1)%nat
                    then negb ((0 <? n_fwd u acc')%nat && (0 <? n_fail u acc' + n_cancel u acc')%nat)
                         && (n_fail u acc' + n_cancel u acc' <=? 1)%nat
                    else true) (universe arr' acc' sn).

(* a cancel naming a task in a backlog cancels it there and removes it; the
   uids are registered on the cancel list *)
Definition chk_cancel : chk := fun hg prev arr acc o e sn =>
  match o with
  | Cancel us =>
      forallb (fun u => (n_cancel u e =? tot u (backlog prev))%nat && (tot u (backlog sn) =? 0)%nat) us
      && zl_eqb (clist sn) (clist prev ++ us)
  | _ => true
  end.

(* a drain cancels the raptor tasks on the scheduler queue whose uid is on the
   cancel list (one list entry per task) instead of forwarding or caching them;
   nothing else touches the cancel list *)
Definition chk_cancel_queue : chk := fun hg prev arr acc o e sn =>
  match o with
  | Drain =>
      forallb (fun u => (n_cancel u e =? Nat.min (cnt u (clist prev)) (n_inq u prev))%nat
                        && (cnt u (clist sn) + n_cancel u e =? cnt u (clist prev))%nat)
              (universe arr (acc ++ e) prev ++ clist prev)
  | Cancel _ => true
  | _ => zl_eqb (clist sn) (clist prev)
  end.

(* tasks not named stay where they are, in the same order; nothing else happens *)
Definition unnamed (us : list Z) (bl : list (Z * list Z)) : list (Z * list Z) :=
  map (fun p => (fst p, filter (fun u => negb (zmem u us)) (snd p))) bl.
Definition chk_bystander : chk := fun hg prev arr acc o e sn =>
  match o with
  | Cancel us =>
      inq_eqb (inq sn) (inq prev) && qs_eqb (queues sn) (queues prev)
      && bl_eqb (backlog sn) (unnamed us (backlog prev))
      && set_eqb (gone sn) (gone prev)
      && forallb (fun x => match x with OCancel c => forallb (fun u => zmem u us) c | _ => false end) e
  | _ => true
  end.

(* Register relays the complete backlog of the name and of the wildcard to the
   new queue and leaves nothing of them behind; the rest stays *)
Definition without (ks : list Z) {A} (l : list (Z * A)) : list (Z * A) :=
  filter (fun p => negb (zmem (fst p) ks)) l.
Definition key_list (k : Z) (bl : list (Z * list Z)) : list Z :=
  match alook k bl with Some l => l | None => [] end.
Definition chk_register : chk := fun hg prev arr acc o e sn =>
  match o with
  | Register n q =>
      let due := key_list n (backlog prev) ++ (if n =? star then [] else key_list star (backlog prev)) in
      forallb (fun x => match x with OPut q' _ => q' =? q | _ => false end) e
      && zl_eqb (flat_map out_uids e) due
      && bl_eqb (backlog sn) (without [n; star] (backlog prev))
      && inq_eqb (inq sn) (inq prev)
      && eqb_option Z.eqb (alook n (queues sn)) (Some q)
      && negb (zmem n (gone sn))
  | _ => true
  end.

(* Unregister fails exactly the backlog of that name and forgets name and backlog *)
Definition chk_unregister : chk := fun hg prev arr acc o e sn =>
  match o with
  | Unregister n =>
      outs_eqb (filter (fun x => match x with OWarn _ => false | _ => true end) e)
               (map OFail (key_list n (backlog prev)))
      && bl_eqb (backlog sn) (without [n] (backlog prev))
      && qs_eqb (queues sn) (without [n] (queues prev))
      && inq_eqb (inq sn) (inq prev)
      && zmem n (gone sn)
  | _ => true
  end.

(* a drain empties the scheduler queue; tasks without raptor_id, raptor workers
   and tasks which raptor has seen take the normal scheduling path, the others do not *)
Definition chk_sched : chk := fun hg prev arr acc o e sn =>
  match o with
  | Drain =>
      is_nil (inq sn)
      && zl_eqb (flat_map (fun x => match x with OSched us => us | _ => [] end) e)
                (normal (concat (inq prev)))
      && qs_eqb (queues sn) (queues prev)
  | _ => forallb (fun x => match x with OSched _ => false | _ => true end) e
  end.

(* nobody waits for a queue that is registered: a registered name has no
   backlog, and the wildcard has none while any queue is registered *)
Definition no_wait (s : state) : bool :=
  forallb (fun p => match alook (fst p) (backlog s) with None => true | Some _ => false end) (queues s)
  && (is_nil (queues s) || match alook star (backlog s) with None => true | Some _ => false end).
Definition chk_nowait : chk := fun hg prev arr acc o e sn => no_wait sn.

(* nobody waits for a master that has unregistered, and such a master is not registered *)
Definition no_wait_gone (hg : list Z) (s : state) : bool :=
  forallb (fun n => match alook n (backlog s) with None => true | Some _ => false end
                    && match alook n (queues s) with None => true | Some _ => false end) hg.
Definition chk_nowait_gone : chk := fun hg prev arr acc o e sn => no_wait_gone (gone_after hg o) sn.

Fixpoint walk (c : chk) (hg : list Z) (prev : state) (arr : list task) (acc : list out) (ops : list op) (ob : obs) : bool :=
  match ops, ob with
  | o :: r, (e, sn) :: ob' => c hg prev arr acc o e sn && walk c (gone_after hg o) sn (arr ++ arrivals o) (acc ++ e) r ob'
  | _, _ => true
  end.

Definition clause_checks : list chk :=
  [chk_fwd_once; chk_place; chk_final; chk_cancel; chk_bystander; chk_register; chk_unregister;
   chk_sched; chk_nowait; chk_cancel_queue; chk_nowait_gone].

(* row of a sequential case: [corr; 11 clauses; linearizable (not judged here)] *)
Definition relay_row (ops : list op) (ob : obs) : list bool :=
  obs_eqb (trace init ops) ob
  :: map (fun c => walk c [] init [] [] ops ob) clause_checks ++ [true].

(* two threads: after the prefix `ops` (trace `ob`), control_cb(a) in one
   thread (_control_cb for a cancel request) and _schedule_incoming in the other; ea / eb: what each thread
   caused; fin: the state when both have returned.  Both take the raptor lock
   around what they do to queues and backlog, so the outcome has to be that of
   one of the two orders -- for a cancel request: see split_outcome below. *)
Definition last_state (ob : obs) : state := last (map snd ob) init.
Definition seq2 (s : state) (a b : op) : list out * list out * state :=
  let '(s1, e1) := step s a in let '(s2, e2) := step s1 b in (e1, e2, s2).
(* A cancel request is handled in two steps under two different locks:
   _control_cb registers the uids (cancel lock), control_cb then scans the
   backlog (raptor lock).  A drain that runs meanwhile asks is_canceled once per
   raptor task (cancel lock, inside its raptor-lock section): the registration
   can fall between any two of these calls, the scan comes after the section.
   split p: the registration falls after the drain's first p is_canceled calls.
   Every such outcome satisfies the property (a named task met after the
   registration is canceled by the drain, one cached before it by the scan, one
   forwarded before it was forwarded before the request). *)
Definition tickp (p : option nat) (extra cl : list Z) : option nat * list Z :=
  match p with Some O => (None, cl ++ extra) | Some (S k) => (Some k, cl) | None => (None, cl) end.
Fixpoint sift2 (p : option nat) (extra cl us : list Z) : list Z * list Z * list out * option nat :=
  match us with
  | [] => ([], cl, [], p)
  | u :: r =>
      let '(p1, cl1) := tickp p extra cl in
      if zmem u cl1
      then let '(k, cl', o, p') := sift2 p1 extra (remove1 u cl1) r in (k, cl', OCancel1 u :: o, p')
      else let '(k, cl', o, p') := sift2 p1 extra cl1 r in (u :: k, cl', o, p')
  end.
Definition place (qs : list (Z * Z)) (gn : list Z) (bl : list (Z * list Z)) (n : Z) (k : list Z)
  : list (Z * list Z) * list out :=
  if is_nil k then (bl, [])
  else match alook n qs with
       | Some q => (bl, [OPut q k])
       | None => if negb (is_nil qs) && (n =? star) then (bl, rr (map snd qs) 0 k)
                 else if zmem n gn then (bl, map OFail k) else (aext n k bl, [])
       end.
Fixpoint fwd_groups2 (p : option nat) (extra : list Z) (qs : list (Z * Z)) (gn : list Z)
  (bl : list (Z * list Z)) (cl : list Z) (g : list (Z * list Z))
  : list (Z * list Z) * list Z * list out * option nat :=
  match g with
  | [] => (bl, cl, [], p)
  | (n, us) :: r =>
      let '(k, cl1, o0, p1) := sift2 p extra cl us in
      let '(bl1, o1) := place qs gn bl n k in
      let '(bl2, cl2, o2, p2) := fwd_groups2 p1 extra qs gn bl1 cl1 r in
      (bl2, cl2, o0 ++ o1 ++ o2, p2)
  end.
Definition split_outcome (p : nat) (us : list Z) (s : state) : list out * list out * state :=
  let ts := concat (inq s) in
  let '(bl, cl, o, p') := fwd_groups2 (Some p) us (queues s) (gone s) (backlog s) (clist s) (collect ts) in
  let cl' := match p' with Some _ => cl ++ us | None => cl end in
  let eb := o ++ (if is_nil (normal ts) then [] else [OSched (normal ts)]) in
  let '(bl', c) := cancel_walk us bl in
  ([OCancel c], eb, mkS [] (queues s) bl' cl' (gone s)).

Definition lin_ok (s0 : state) (a : op) (ea eb : list out) (fin : state) : bool :=
  (let '(e1, e2, s2) := seq2 s0 a Drain in outs_eqb e1 ea && outs_eqb e2 eb && state_eqb s2 fin)
  || (let '(e1, e2, s2) := seq2 s0 Drain a in outs_eqb e1 eb && outs_eqb e2 ea && state_eqb s2 fin)
  || match a with
     | Cancel us =>
         existsb (fun p => let '(e1, e2, s2) := split_outcome p us s0 in
                           outs_eqb e1 ea && outs_eqb e2 eb && state_eqb s2 fin)
                 (seq 0 (S (length (concat (inq s0)))))
     | _ => false
     end.

Definition pair_row (ops : list op) (ob : obs) (a : op) (ea eb : list out) (fin : state) : list bool :=
  let arr := all_arrivals ops in
  let acc := flat_map fst ob in
  let s0 := last_state ob in
  let e := ea ++ eb in
  obs_eqb (trace init ops) ob
  :: [ chk_fwd_once [] s0 arr acc a e fin; chk_place [] s0 arr acc a e fin; chk_final [] s0 arr acc a e fin;
       true; true; true; true; true; no_wait fin; true; no_wait_gone (gone_after (hist_gone ops) a) fin;
       lin_ok s0 a ea eb fin ].
