(* Raptor relay: tasks that a cancel request does not name are unaffected.
   What the relay shows about a uid u -- to which registered queue it is put
   and when, that it goes out by round robin, whether it fails, whether it is
   canceled, all normal scheduling traffic and all warnings -- is the same in
   the history with the request and in the history without it, and so is where
   u waits.  (Which queue the round robin picks for u is not part of the view:
   it goes by the position among the wildcard tasks of the drain, and a named
   task that is canceled in that drain does not take a position.) *)
From Coq Require Import ZArith List Bool Arith Lia ZifyBool.
From RP Require Import Relay.Model Relay.Oracle Relay.Lemmas Relay.Proofs.
Import ListNotations.
Open Scope Z_scope.

Inductive uev :=
| EFwd (q : Z)            (* put to the registered queue q *)
| EFwdAny                 (* put to some queue by round robin *)
| EFail
| ECancel
| ESched (us : list Z)
| EWarn (n : Z).

Definition view1 (u : Z) (o : out) : list uev :=
  match o with
  | OPut q us => repeat (EFwd q) (cnt u us)
  | OPut1 q v => if v =? u then [EFwdAny] else []
  | OFail v => if v =? u then [EFail] else []
  | OCancel us => repeat ECancel (cnt u us)
  | OCancel1 v => if v =? u then [ECancel] else []
  | OSched us => [ESched us]
  | OWarn n => [EWarn n]
  end.
Definition view (u : Z) (e : list out) : list uev := flat_map (view1 u) e.

(* where u waits *)
Definition kcnt (u k : Z) (bl : list (Z * list Z)) : nat := cnt u (key_list k bl).
Definition sim (u : Z) (s1 s2 : state) : Prop :=
  inq s1 = inq s2 /\ queues s1 = queues s2 /\ gone s1 = gone s2
  /\ cnt u (clist s1) = cnt u (clist s2)
  /\ (forall k, kcnt u k (backlog s1) = kcnt u k (backlog s2))
  /\ tot u (backlog s1) = tot u (backlog s2).

Lemma view_app : forall u a b, view u (a ++ b) = view u a ++ view u b.
Proof. intros; unfold view; apply flat_map_app. Qed.

Lemma repeat_add : forall {A} (x : A) a b, repeat x (a + b) = repeat x a ++ repeat x b.
Proof. intros A x a b; induction a as [|a IH]; simpl; [reflexivity | rewrite IH; reflexivity]. Qed.

Lemma view_map_OFail : forall u l, view u (map OFail l) = repeat EFail (cnt u l).
Proof.
  intros u l; induction l as [|x l IH]; simpl; [reflexivity|].
  unfold view in *. simpl. rewrite IH. destruct (x =? u); reflexivity.
Qed.

Lemma view_rr : forall u qids us i, view u (rr qids i us) = repeat EFwdAny (cnt u us).
Proof.
  intros u qids us; induction us as [|x us IH]; intros i; simpl; [reflexivity|].
  unfold view in *. simpl. rewrite IH. destruct (x =? u); reflexivity.
Qed.

Lemma view_sift : forall u us cl k cl' o, sift cl us = (k, cl', o) -> view u o = repeat ECancel (n_cancel u o).
Proof.
  intros u us; induction us as [|x us IH]; intros cl k cl' o H; simpl in H.
  - injection H as <- <- <-. reflexivity.
  - destruct (zmem x cl).
    + destruct (sift (remove1 x cl) us) as [[k1 c1] o1] eqn:E1. injection H as <- <- <-.
      unfold view, n_cancel in *. simpl. rewrite (IH _ _ _ _ E1). destruct (x =? u); reflexivity.
    + destruct (sift cl us) as [[k1 c1] o1] eqn:E1. injection H as <- <- <-. eapply IH; eauto.
Qed.

(* ---------------- key lists ---------------- *)
Lemma kl_aext : forall k n us bl, key_list k (aext n us bl) = if n =? k then key_list k bl ++ us else key_list k bl.
Proof.
  intros k n us bl. unfold key_list, aext. rewrite alook_aset. destruct (n =? k) eqn:E; [|reflexivity].
  apply Z.eqb_eq in E; subst n. destruct (alook k bl); reflexivity.
Qed.

Lemma kl_adel : forall k n bl, NoDup (map fst bl) ->
  key_list k (adel n bl) = if n =? k then [] else key_list k bl.
Proof.
  intros k n bl Hd. unfold key_list. destruct (n =? k) eqn:E.
  - apply Z.eqb_eq in E; subst n. rewrite alook_adel_same by exact Hd. reflexivity.
  - rewrite alook_adel_other by lia. reflexivity.
Qed.

Lemma kl_unnamed : forall k us bl,
  key_list k (unnamed us bl) = filter (fun x => negb (zmem x us)) (key_list k bl).
Proof. intros k us bl. unfold key_list. rewrite unnamed_look. destruct (alook k bl); reflexivity. Qed.

Lemma cnt_unnamed : forall u us l,
  cnt u (filter (fun x => negb (zmem x us)) l) = if zmem u us then 0%nat else cnt u l.
Proof.
  intros u us l. destruct (zmem u us) eqn:E.
  - apply cnt_filter_out. rewrite E. reflexivity.
  - apply cnt_filter_in. rewrite E. reflexivity.
Qed.

Lemma tot_unnamed : forall u us bl, tot u (unnamed us bl) = if zmem u us then 0%nat else tot u bl.
Proof.
  intros u us bl. destruct (zmem u us) eqn:E.
  - apply tot_unnamed_in. apply zmem_In. exact E.
  - apply tot_unnamed_out. intros H. apply zmem_In in H. congruence.
Qed.

Lemma tot_adel_kl : forall u n bl, (tot u (adel n bl) + cnt u (key_list n bl))%nat = tot u bl.
Proof.
  intros u n bl. unfold key_list. destruct (alook n bl) as [l|] eqn:E.
  - apply tot_look_del; exact E.
  - simpl. assert (adel n bl = bl); [|rewrite H; lia].
    clear u. induction bl as [|[m w] bl IH]; simpl in *; [reflexivity|].
    destruct (m =? n); [discriminate | rewrite IH; [reflexivity | exact E]].
Qed.

(* ---------------- one raptor name of a drain ---------------- *)
Inductive decision := DPut (q : Z) | DRR | DFail | DCache.
Definition decide (qs : list (Z * Z)) (gn : list Z) (n : Z) : decision :=
  match alook n qs with
  | Some q => DPut q
  | None => if negb (is_nil qs) && (n =? star) then DRR else if zmem n gn then DFail else DCache
  end.
Definition dview (d : decision) (c : nat) : list uev :=
  match d with DPut q => repeat (EFwd q) c | DRR => repeat EFwdAny c | DFail => repeat EFail c | DCache => [] end.

Lemma fwd_group_view : forall u qs gn bl cl n us bl' cl' o,
  fwd_group qs gn bl cl n us = (bl', cl', o) ->
  let c := (cnt u us - Nat.min (cnt u cl) (cnt u us))%nat in
  view u o = repeat ECancel (Nat.min (cnt u cl) (cnt u us)) ++ dview (decide qs gn n) c
  /\ (cnt u cl' + Nat.min (cnt u cl) (cnt u us))%nat = cnt u cl
  /\ (forall j, kcnt u j bl' = (kcnt u j bl + match decide qs gn n with DCache => if Z.eqb n j then c else 0 | _ => 0 end)%nat)
  /\ tot u bl' = (tot u bl + match decide qs gn n with DCache => c | _ => 0 end)%nat.
Proof.
  intros u qs gn bl cl n us bl' cl' o H c. unfold fwd_group in H.
  destruct (sift cl us) as [[k c1] o0] eqn:Es.
  destruct (sift_spec u _ _ _ _ _ Es) as [A [_ [_ [D F]]]].
  pose proof (view_sift u _ _ _ _ _ Es) as V. rewrite D in V.
  assert (Hk : cnt u k = c) by (unfold c; lia).
  unfold decide.
  destruct (is_nil k) eqn:Ek.
  - injection H as <- <- <-. destruct k; [|discriminate]. simpl in Hk. rewrite <- Hk.
    split; [rewrite V; destruct (alook n qs); [|destruct (negb (is_nil qs) && (n =? star)); [|destruct (zmem n gn)]];
            simpl; rewrite app_nil_r; reflexivity|].
    split; [lia|]. split; [intros j|];
      (destruct (alook n qs); [|destruct (negb (is_nil qs) && (n =? star)); [|destruct (zmem n gn)]]);
      try destruct (n =? j); lia.
  - destruct (alook n qs) as [q|].
    + injection H as <- <- <-. rewrite view_app, V. unfold view at 1; simpl. rewrite app_nil_r, Hk.
      repeat split; intros; lia.
    + destruct (negb (is_nil qs) && (n =? star)).
      * injection H as <- <- <-. rewrite view_app, V, view_rr, Hk. repeat split; intros; lia.
      * destruct (zmem n gn).
        -- injection H as <- <- <-. rewrite view_app, V, view_map_OFail, Hk. repeat split; intros; lia.
        -- injection H as <- <- <-. rewrite V. simpl. rewrite app_nil_r. split; [reflexivity|]. split; [lia|].
           split; [|rewrite tot_aext; lia].
           intros j. unfold kcnt. rewrite kl_aext. destruct (n =? j); [rewrite cnt_app|]; lia.
Qed.

Lemma fwd_group_sim : forall u qs gn n us bl1 cl1 bl2 cl2 bl1' cl1' o1 bl2' cl2' o2,
  cnt u cl1 = cnt u cl2 -> (forall k, kcnt u k bl1 = kcnt u k bl2) -> tot u bl1 = tot u bl2 ->
  fwd_group qs gn bl1 cl1 n us = (bl1', cl1', o1) -> fwd_group qs gn bl2 cl2 n us = (bl2', cl2', o2) ->
  cnt u cl1' = cnt u cl2' /\ (forall k, kcnt u k bl1' = kcnt u k bl2') /\ tot u bl1' = tot u bl2' /\ view u o1 = view u o2.
Proof.
  intros u qs gn n us bl1 cl1 bl2 cl2 bl1' cl1' o1 bl2' cl2' o2 Hc Hk Ht H1 H2.
  destruct (fwd_group_view u _ _ _ _ _ _ _ _ _ H1) as [V1 [C1 [K1 T1]]].
  destruct (fwd_group_view u _ _ _ _ _ _ _ _ _ H2) as [V2 [C2 [K2 T2]]].
  rewrite Hc in *. repeat split; try lia.
  - intros k. rewrite K1, K2, Hk. reflexivity.
  - rewrite V1, V2. reflexivity.
Qed.

Lemma fwd_groups_sim : forall u qs gn g bl1 cl1 bl2 cl2 bl1' cl1' o1 bl2' cl2' o2,
  cnt u cl1 = cnt u cl2 -> (forall k, kcnt u k bl1 = kcnt u k bl2) -> tot u bl1 = tot u bl2 ->
  fwd_groups qs gn bl1 cl1 g = (bl1', cl1', o1) -> fwd_groups qs gn bl2 cl2 g = (bl2', cl2', o2) ->
  cnt u cl1' = cnt u cl2' /\ (forall k, kcnt u k bl1' = kcnt u k bl2') /\ tot u bl1' = tot u bl2' /\ view u o1 = view u o2.
Proof.
  intros u qs gn g; induction g as [|[n us] g IH]; intros bl1 cl1 bl2 cl2 bl1' cl1' o1 bl2' cl2' o2 Hc Hk Ht H1 H2;
    simpl in H1, H2.
  - injection H1 as <- <- <-. injection H2 as <- <- <-. auto.
  - destruct (fwd_group qs gn bl1 cl1 n us) as [[a1 c1] x1] eqn:E1.
    destruct (fwd_group qs gn bl2 cl2 n us) as [[a2 c2] x2] eqn:E2.
    destruct (fwd_groups qs gn a1 c1 g) as [[b1 d1] y1] eqn:F1.
    destruct (fwd_groups qs gn a2 c2 g) as [[b2 d2] y2] eqn:F2.
    injection H1 as <- <- <-. injection H2 as <- <- <-.
    destruct (fwd_group_sim _ _ _ _ _ _ _ _ _ _ _ _ _ _ _ Hc Hk Ht E1 E2) as [A1 [A2 [A3 A4]]].
    destruct (IH _ _ _ _ _ _ _ _ _ _ A1 A2 A3 F1 F2) as [B1 [B2 [B3 B4]]].
    rewrite !view_app, A4, B4. auto.
Qed.

(* ---------------- register / unregister ---------------- *)
Lemma relay_key_view : forall u q k bl bl' o, NoDup (map fst bl) -> relay_key q k bl = (bl', o) ->
  view u o = repeat (EFwd q) (kcnt u k bl)
  /\ (forall j, kcnt u j bl' = if k =? j then 0%nat else kcnt u j bl)
  /\ (tot u bl' + kcnt u k bl)%nat = tot u bl /\ NoDup (map fst bl').
Proof.
  intros u q k bl bl' o Hd H. rewrite relay_key_spec in H by exact Hd. injection H as <- <-.
  unfold kcnt. split; [|split; [|split]].
  - unfold key_list. destruct (alook k bl); [unfold view; simpl; rewrite app_nil_r|]; reflexivity.
  - intros j. rewrite <- adel_without by exact Hd. rewrite kl_adel by exact Hd. destruct (k =? j); reflexivity.
  - rewrite <- adel_without by exact Hd. apply tot_adel_kl.
  - apply keys_without_nodup; exact Hd.
Qed.

(* ---------------- one operation on two states that agree about u ---------------- *)
Lemma step_sim : forall u o s1 s2 s1' e1 s2' e2,
  inv s1 -> inv s2 -> sim u s1 s2 -> step s1 o = (s1', e1) -> step s2 o = (s2', e2) ->
  sim u s1' s2' /\ view u e1 = view u e2.
Proof.
  intros u o s1 s2 s1' e1 s2' e2 I1 I2 [Hi [Hq [Hg [Hc [Hk Ht]]]]] H1 H2.
  destruct o as [b| |n q|n|us]; simpl in H1, H2.
  - injection H1 as <- <-. injection H2 as <- <-. unfold sim; simpl. rewrite Hi. auto 10.
  - unfold drain in *. rewrite <- Hi, <- Hq, <- Hg in H2.
    destruct (fwd_groups (queues s1) (gone s1) (backlog s1) (clist s1) (collect (concat (inq s1)))) as [[b1 c1] o1] eqn:E1.
    destruct (fwd_groups (queues s1) (gone s1) (backlog s2) (clist s2) (collect (concat (inq s1)))) as [[b2 c2] o2] eqn:E2.
    injection H1 as <- <-. injection H2 as <- <-.
    destruct (fwd_groups_sim _ _ _ _ _ _ _ _ _ _ _ _ _ _ Hc Hk Ht E1 E2) as [A1 [A2 [A3 A4]]].
    unfold sim; simpl. rewrite !view_app, A4. auto 10.
  - unfold register in *.
    destruct (relay_key q n (backlog s1)) as [a1 x1] eqn:E1. destruct (relay_key q n (backlog s2)) as [a2 x2] eqn:E2.
    destruct (relay_key q star a1) as [b1 y1] eqn:F1. destruct (relay_key q star a2) as [b2 y2] eqn:F2.
    injection H1 as <- <-. injection H2 as <- <-.
    destruct (relay_key_view u _ _ _ _ _ (inv_bkeys _ I1) E1) as [V1 [K1 [T1 D1]]].
    destruct (relay_key_view u _ _ _ _ _ (inv_bkeys _ I2) E2) as [V2 [K2 [T2 D2]]].
    destruct (relay_key_view u _ _ _ _ _ D1 F1) as [V3 [K3 [T3 _]]].
    destruct (relay_key_view u _ _ _ _ _ D2 F2) as [V4 [K4 [T4 _]]].
    pose proof (Hk n) as Hn. pose proof (Hk star) as Hs.
    assert (Hs' : kcnt u star a1 = kcnt u star a2) by (rewrite K1, K2, Hs; reflexivity).
    unfold sim; simpl. rewrite !view_app, V1, V2, V3, V4, Hn, Hs', Hi, Hq, Hg. repeat split; auto; try lia.
    intros k. rewrite K3, K4, K1, K2, Hk. reflexivity.
  - unfold unregister in *. rewrite <- Hq in H2.
    assert (B : forall s, inv s ->
              (match alook n (backlog s) with
               | Some us => (adel n (backlog s), map OFail us) | None => (backlog s, []) end)
              = (adel n (backlog s), map OFail (key_list n (backlog s)))).
    { intros s I. unfold key_list. destruct (alook n (backlog s)) eqn:E; [reflexivity|].
      rewrite adel_without by (apply inv_bkeys; exact I).
      rewrite without_notin; [reflexivity | apply alook_none_notin; exact E]. }
    rewrite (B s1 I1) in H1. rewrite (B s2 I2) in H2.
    destruct (match alook n (queues s1) with
              | None => (queues s1, [OWarn n]) | Some _ => (adel n (queues s1), []) end) as [qs o1].
    injection H1 as <- <-. injection H2 as <- <-.
    pose proof (tot_adel_kl u n (backlog s1)) as T1. pose proof (tot_adel_kl u n (backlog s2)) as T2.
    pose proof (Hk n) as Hn. unfold kcnt in Hn.
    unfold sim; simpl. rewrite !view_app, !view_map_OFail, Hn, Hi, Hg. repeat split; auto; try lia.
    intros k. unfold kcnt. rewrite !kl_adel by (apply inv_bkeys; assumption).
    destruct (n =? k); [reflexivity | apply Hk].
  - unfold cancel in *. rewrite cancel_walk_spec in H1, H2.
    injection H1 as <- <-. injection H2 as <- <-.
    pose proof (cancel_walk_counts u us (backlog s1) _ _ (cancel_walk_spec us (backlog s1))) as C1.
    pose proof (cancel_walk_counts u us (backlog s2) _ _ (cancel_walk_spec us (backlog s2))) as C2.
    rewrite tot_unnamed in C1, C2.
    unfold sim; simpl. rewrite !cnt_app, !tot_unnamed, Hi, Hq, Hg, Hc, Ht. repeat split; auto.
    + intros k. unfold kcnt. rewrite !kl_unnamed, !cnt_unnamed. destruct (zmem u us); [reflexivity | apply Hk].
    + unfold view; simpl. rewrite !app_nil_r. f_equal. destruct (zmem u us); lia.
Qed.

Lemma run_sim : forall u ops s1 s2 s1' e1 s2' e2,
  inv s1 -> inv s2 -> sim u s1 s2 -> run s1 ops = (s1', e1) -> run s2 ops = (s2', e2) ->
  sim u s1' s2' /\ view u e1 = view u e2.
Proof.
  intros u ops; induction ops as [|o ops IH]; intros s1 s2 s1' e1 s2' e2 I1 I2 S H1 H2; simpl in H1, H2.
  - injection H1 as <- <-. injection H2 as <- <-. auto.
  - destruct (step s1 o) as [a1 x1] eqn:E1. destruct (step s2 o) as [a2 x2] eqn:E2.
    destruct (run a1 ops) as [b1 y1] eqn:F1. destruct (run a2 ops) as [b2 y2] eqn:F2.
    injection H1 as <- <-. injection H2 as <- <-.
    destruct (step_sim _ _ _ _ _ _ _ _ I1 I2 S E1 E2) as [A V1].
    destruct (IH _ _ _ _ _ _ (step_inv _ _ _ _ E1 I1) (step_inv _ _ _ _ E2 I2) A F1 F2) as [B V2].
    rewrite !view_app, V1, V2. auto.
Qed.

(* the request itself shows nothing about a uid it does not name *)
Lemma cancel_invisible : forall u us s s' e,
  ~ In u us -> step s (Cancel us) = (s', e) -> sim u s' s /\ view u e = [].
Proof.
  intros u us s s' e Hu H. simpl in H. unfold cancel in H. rewrite cancel_walk_spec in H.
  injection H as <- <-.
  assert (Z0 : zmem u us = false) by (destruct (zmem u us) eqn:E; [apply zmem_In in E; tauto | reflexivity]).
  pose proof (cancel_walk_counts u us (backlog s) _ _ (cancel_walk_spec us (backlog s))) as C.
  rewrite tot_unnamed, Z0 in C.
  unfold sim; simpl. rewrite cnt_app, tot_unnamed, Z0, (cnt_zero_notin u us Hu). repeat split; auto; try lia.
  - intros k. unfold kcnt. rewrite kl_unnamed, cnt_unnamed, Z0. reflexivity.
  - unfold view; simpl. rewrite app_nil_r. replace (cnt u _) with 0%nat by lia. reflexivity.
Qed.

(* THE frame theorem: for every history, a cancel request placed anywhere in
   it changes nothing of what the relay shows about a uid it does not name,
   and nothing of where that uid waits at the end *)
Theorem bystander_frame : forall ops1 us ops2 u s e s' e',
  ~ In u us ->
  run init (ops1 ++ Cancel us :: ops2) = (s, e) -> run init (ops1 ++ ops2) = (s', e') ->
  view u e = view u e' /\ sim u s s'.
Proof.
  intros ops1 us ops2 u s e s' e' Hu H H'.
  rewrite run_app in H, H'. destruct (run init ops1) as [s1 e1] eqn:E1. cbn [run] in H.
  destruct (step s1 (Cancel us)) as [s2 e2] eqn:E2.
  destruct (run s2 ops2) as [s3 e3] eqn:E3. destruct (run s1 ops2) as [s4 e4] eqn:E4.
  injection H as <- <-. injection H' as <- <-.
  destruct (cancel_invisible _ _ _ _ _ Hu E2) as [S V].
  pose proof (reachable_inv _ _ _ E1) as I1.
  destruct (run_sim _ _ _ _ _ _ _ _ (step_inv _ _ _ _ E2 I1) I1 S E3 E4) as [S' V'].
  rewrite !view_app, V, V'. auto.
Qed.

(* the counts of the conservation law are read off the view *)
Definition v_fwd (l : list uev) : nat := length (filter (fun x => match x with EFwd _ | EFwdAny => true | _ => false end) l).
Definition v_fail (l : list uev) : nat := length (filter (fun x => match x with EFail => true | _ => false end) l).
Definition v_cancel (l : list uev) : nat := length (filter (fun x => match x with ECancel => true | _ => false end) l).

Lemma filter_repeat : forall {A} (f : A -> bool) x n,
  length (filter f (repeat x n)) = if f x then n else 0%nat.
Proof.
  intros A f x n; induction n as [|n IH]; simpl; [destruct (f x); reflexivity|].
  destruct (f x) eqn:E; simpl; rewrite IH; reflexivity.
Qed.

Lemma counts_of_view : forall u e,
  v_fwd (view u e) = n_fwd u e /\ v_fail (view u e) = n_fail u e /\ v_cancel (view u e) = n_cancel u e.
Proof.
  intros u e; induction e as [|o e [I1 [I2 I3]]]; [auto|].
  unfold view, v_fwd, v_fail, v_cancel, n_fwd, n_fail, n_cancel in *. simpl.
  rewrite !filter_app, !app_length, I1, I2, I3.
  destruct o as [q us|q v|v|us|v|us|n]; simpl; rewrite ?filter_repeat; try (repeat split; lia);
    destruct (v =? u); simpl; repeat split; lia.
Qed.

Theorem bystander_same_counts : forall ops1 us ops2 u s e s' e',
  ~ In u us ->
  run init (ops1 ++ Cancel us :: ops2) = (s, e) -> run init (ops1 ++ ops2) = (s', e') ->
  n_fwd u e = n_fwd u e' /\ n_fail u e = n_fail u e' /\ n_cancel u e = n_cancel u e'
  /\ n_inq u s = n_inq u s' /\ tot u (backlog s) = tot u (backlog s').
Proof.
  intros ops1 us ops2 u s e s' e' Hu H H'.
  destruct (bystander_frame _ _ _ _ _ _ _ _ Hu H H') as [V [Si [_ [_ [_ [_ St]]]]]].
  destruct (counts_of_view u e) as [A1 [A2 A3]]. destruct (counts_of_view u e') as [B1 [B2 B3]].
  rewrite <- A1, <- A2, <- A3, V, B1, B2, B3. repeat split; try reflexivity; try exact St.
  unfold n_inq. rewrite Si. reflexivity.
Qed.
