(* Raptor relay: tasks that a cancel request does not name are unaffected.
   Everything the relay shows about a uid u -- to which queue it is put and
   when, whether it fails, whether it is canceled, the complete round robin and
   normal scheduling traffic -- is the same in the history with the request and
   in the history without it, and so is where u waits. *)
From Coq Require Import ZArith List Bool Arith Lia ZifyBool.
From RP Require Import Relay.Model Relay.Oracle Relay.Lemmas Relay.Proofs.
Import ListNotations.
Open Scope Z_scope.

Definition only (u : Z) (l : list Z) : list Z := filter (fun x => x =? u) l.

(* what an effect shows about u *)
Definition view1 (u : Z) (o : out) : list out :=
  match o with
  | OPut q us => [OPut q (only u us)]
  | OPut1 q v => [OPut1 q v]
  | OFail v => if v =? u then [OFail v] else []
  | OCancel us => if is_nil (only u us) then [] else [OCancel (only u us)]
  | OSched us => [OSched us]
  | OWarn n => [OWarn n]
  end.
Definition view (u : Z) (e : list out) : list out := flat_map (view1 u) e.

(* where u waits *)
Definition pv (u : Z) (bl : list (Z * list Z)) : list (Z * list Z) :=
  map (fun p => (fst p, only u (snd p))) bl.
Definition sim (u : Z) (s1 s2 : state) : Prop :=
  inq s1 = inq s2 /\ queues s1 = queues s2 /\ pv u (backlog s1) = pv u (backlog s2).

Lemma only_app : forall u a b, only u (a ++ b) = only u a ++ only u b.
Proof. intros; unfold only; apply filter_app. Qed.

Lemma view_app : forall u a b, view u (a ++ b) = view u a ++ view u b.
Proof. intros; unfold view; apply flat_map_app. Qed.

Lemma pv_look : forall u k bl, alook k (pv u bl) = option_map (only u) (alook k bl).
Proof.
  intros u k bl; induction bl as [|[n l] bl IH]; simpl; [reflexivity|].
  destruct (n =? k); [reflexivity | exact IH].
Qed.

Lemma pv_aset : forall u n v bl, pv u (aset n v bl) = aset n (only u v) (pv u bl).
Proof.
  intros u n v bl; induction bl as [|[m w] bl IH]; simpl; [reflexivity|].
  destruct (m =? n); simpl; [reflexivity | rewrite IH; reflexivity].
Qed.

Lemma pv_adel : forall u n bl, pv u (adel n bl) = adel n (pv u bl).
Proof.
  intros u n bl; induction bl as [|[m w] bl IH]; simpl; [reflexivity|].
  destruct (m =? n); simpl; [reflexivity | rewrite IH; reflexivity].
Qed.

Lemma pv_aext : forall u n us bl, pv u (aext n us bl) = aext n (only u us) (pv u bl).
Proof.
  intros u n us bl. unfold aext. rewrite pv_aset, pv_look.
  destruct (alook n bl); simpl; [rewrite only_app|]; reflexivity.
Qed.

Lemma look_sim : forall u k bl1 bl2, pv u bl1 = pv u bl2 ->
  option_map (only u) (alook k bl1) = option_map (only u) (alook k bl2).
Proof. intros u k bl1 bl2 H. rewrite <- !pv_look, H. reflexivity. Qed.

(* ---------------- drain ---------------- *)
Lemma fwd_group_sim : forall u qs n us bl1 bl2 bl1' o1 bl2' o2,
  pv u bl1 = pv u bl2 -> fwd_group qs bl1 n us = (bl1', o1) -> fwd_group qs bl2 n us = (bl2', o2) ->
  pv u bl1' = pv u bl2' /\ o1 = o2.
Proof.
  intros u qs n us bl1 bl2 bl1' o1 bl2' o2 H H1 H2. unfold fwd_group in *.
  destruct (alook n qs); [injection H1 as <- <-; injection H2 as <- <-; auto|].
  destruct (negb (is_nil qs) && (n =? star)); injection H1 as <- <-; injection H2 as <- <-; [auto|].
  rewrite !pv_aext, H. auto.
Qed.

Lemma fwd_groups_sim : forall u qs g bl1 bl2 bl1' o1 bl2' o2,
  pv u bl1 = pv u bl2 -> fwd_groups qs bl1 g = (bl1', o1) -> fwd_groups qs bl2 g = (bl2', o2) ->
  pv u bl1' = pv u bl2' /\ o1 = o2.
Proof.
  intros u qs g; induction g as [|[n us] g IH]; intros bl1 bl2 bl1' o1 bl2' o2 H H1 H2; simpl in H1, H2.
  - injection H1 as <- <-. injection H2 as <- <-. auto.
  - destruct (fwd_group qs bl1 n us) as [a1 x1] eqn:E1. destruct (fwd_group qs bl2 n us) as [a2 x2] eqn:E2.
    destruct (fwd_groups qs a1 g) as [b1 y1] eqn:F1. destruct (fwd_groups qs a2 g) as [b2 y2] eqn:F2.
    injection H1 as <- <-. injection H2 as <- <-.
    destruct (fwd_group_sim _ _ _ _ _ _ _ _ _ _ H E1 E2) as [A ->].
    destruct (IH _ _ _ _ _ _ A F1 F2) as [B ->]. auto.
Qed.

(* ---------------- register / unregister ---------------- *)
Lemma relay_key_sim : forall u q k bl1 bl2 bl1' o1 bl2' o2,
  pv u bl1 = pv u bl2 -> relay_key q k bl1 = (bl1', o1) -> relay_key q k bl2 = (bl2', o2) ->
  pv u bl1' = pv u bl2' /\ view u o1 = view u o2.
Proof.
  intros u q k bl1 bl2 bl1' o1 bl2' o2 H H1 H2. unfold relay_key in *.
  pose proof (look_sim u k _ _ H) as L.
  destruct (alook k bl1) as [l1|]; destruct (alook k bl2) as [l2|]; simpl in L; try discriminate;
    injection H1 as <- <-; injection H2 as <- <-.
  - injection L as L. rewrite !pv_adel, H. simpl. rewrite L. auto.
  - auto.
Qed.

Lemma view_map_OFail : forall u l, view u (map OFail l) = map OFail (only u l).
Proof.
  intros u l; induction l as [|x l IH]; simpl; [reflexivity|].
  unfold view in *. simpl. rewrite IH. destruct (x =? u); reflexivity.
Qed.

(* ---------------- cancel ---------------- *)
Lemma only_matches : forall u us l, only u (matches us l) = matches us (only u l).
Proof.
  intros u us l; induction l as [|x l IH]; simpl; [reflexivity|].
  unfold only, matches in *. simpl.
  destruct (zmem x us) eqn:E1; destruct (x =? u) eqn:E2; simpl; rewrite ?E1, ?E2, IH; reflexivity.
Qed.

Lemma only_unnamed : forall u us l,
  only u (filter (fun x => negb (zmem x us)) l) = filter (fun x => negb (zmem x us)) (only u l).
Proof.
  intros u us l; induction l as [|x l IH]; simpl; [reflexivity|].
  unfold only in *. simpl.
  destruct (zmem x us) eqn:E1; destruct (x =? u) eqn:E2; simpl; rewrite ?E1, ?E2, IH; reflexivity.
Qed.

Lemma pv_unnamed : forall u us bl, pv u (unnamed us bl) = unnamed us (pv u bl).
Proof.
  intros u us bl; induction bl as [|[n l] bl IH]; simpl; [reflexivity|].
  rewrite IH, only_unnamed. reflexivity.
Qed.

Lemma only_concat_matches : forall u us bl,
  only u (concat (map (fun p => matches us (snd p)) bl))
  = concat (map (fun p => matches us (snd p)) (pv u bl)).
Proof.
  intros u us bl; induction bl as [|[n l] bl IH]; simpl; [reflexivity|].
  rewrite only_app, IH, only_matches. reflexivity.
Qed.

Lemma only_none : forall u l, ~ In u l -> only u l = [].
Proof.
  intros u l; induction l as [|x l IH]; simpl; intros H; [reflexivity|].
  unfold only in *. simpl. destruct (x =? u) eqn:E; [exfalso; apply H; left; lia | apply IH; tauto].
Qed.

Lemma only_unnamed_other : forall u us l, ~ In u us -> only u (filter (fun x => negb (zmem x us)) l) = only u l.
Proof.
  intros u us l H; induction l as [|x l IH]; simpl; [reflexivity|].
  unfold only in *. destruct (zmem x us) eqn:E1; simpl.
  - destruct (x =? u) eqn:E2; [|exact IH]. apply Z.eqb_eq in E2; subst x. apply zmem_In in E1. tauto.
  - rewrite IH. reflexivity.
Qed.

Lemma pv_unnamed_other : forall u us bl, ~ In u us -> pv u (unnamed us bl) = pv u bl.
Proof.
  intros u us bl H; induction bl as [|[n l] bl IH]; simpl; [reflexivity|].
  rewrite IH, only_unnamed_other by exact H. reflexivity.
Qed.

(* ---------------- one operation on two states that agree about u ---------------- *)
Lemma step_sim : forall u o s1 s2 s1' e1 s2' e2,
  sim u s1 s2 -> step s1 o = (s1', e1) -> step s2 o = (s2', e2) ->
  sim u s1' s2' /\ view u e1 = view u e2.
Proof.
  intros u o s1 s2 s1' e1 s2' e2 [Hi [Hq Hb]] H1 H2.
  destruct o as [b| |n q|n|us]; simpl in H1, H2.
  - injection H1 as <- <-. injection H2 as <- <-. unfold sim; simpl. rewrite Hi, Hq. auto.
  - unfold drain in *. rewrite <- Hi, <- Hq in H2.
    destruct (fwd_groups (queues s1) (backlog s1) (collect (concat (inq s1)))) as [b1 o1] eqn:E1.
    destruct (fwd_groups (queues s1) (backlog s2) (collect (concat (inq s1)))) as [b2 o2] eqn:E2.
    injection H1 as <- <-. injection H2 as <- <-.
    destruct (fwd_groups_sim _ _ _ _ _ _ _ _ _ Hb E1 E2) as [A ->].
    unfold sim; simpl. auto.
  - unfold register in *.
    destruct (relay_key q n (backlog s1)) as [a1 x1] eqn:E1. destruct (relay_key q n (backlog s2)) as [a2 x2] eqn:E2.
    destruct (relay_key q star a1) as [b1 y1] eqn:F1. destruct (relay_key q star a2) as [b2 y2] eqn:F2.
    injection H1 as <- <-. injection H2 as <- <-.
    destruct (relay_key_sim _ _ _ _ _ _ _ _ _ Hb E1 E2) as [A V1].
    destruct (relay_key_sim _ _ _ _ _ _ _ _ _ A F1 F2) as [B V2].
    unfold sim; simpl. rewrite Hi, Hq, !view_app, V1, V2. auto.
  - unfold unregister in *. rewrite <- Hq in H2.
    pose proof (look_sim u n _ _ Hb) as L.
    destruct (alook n (queues s1));
      destruct (alook n (backlog s1)) as [l1|]; destruct (alook n (backlog s2)) as [l2|];
      simpl in L; try discriminate; injection H1 as <- <-; injection H2 as <- <-;
      try (injection L as L); unfold sim; simpl; rewrite ?view_app, ?view_map_OFail, ?pv_adel, ?L, ?Hb, ?Hi; auto.
  - unfold cancel in *. rewrite cancel_walk_spec in H1, H2.
    injection H1 as <- <-. injection H2 as <- <-.
    unfold sim; simpl. rewrite !pv_unnamed, Hb, Hi, Hq. repeat split.
    unfold view; simpl. rewrite !only_concat_matches, Hb. reflexivity.
Qed.

Lemma run_sim : forall u ops s1 s2 s1' e1 s2' e2,
  sim u s1 s2 -> run s1 ops = (s1', e1) -> run s2 ops = (s2', e2) ->
  sim u s1' s2' /\ view u e1 = view u e2.
Proof.
  intros u ops; induction ops as [|o ops IH]; intros s1 s2 s1' e1 s2' e2 S H1 H2; simpl in H1, H2.
  - injection H1 as <- <-. injection H2 as <- <-. auto.
  - destruct (step s1 o) as [a1 x1] eqn:E1. destruct (step s2 o) as [a2 x2] eqn:E2.
    destruct (run a1 ops) as [b1 y1] eqn:F1. destruct (run a2 ops) as [b2 y2] eqn:F2.
    injection H1 as <- <-. injection H2 as <- <-.
    destruct (step_sim _ _ _ _ _ _ _ _ S E1 E2) as [A V1].
    destruct (IH _ _ _ _ _ _ A F1 F2) as [B V2].
    rewrite !view_app, V1, V2. auto.
Qed.

(* the request itself shows nothing about a uid it does not name *)
Lemma cancel_invisible : forall u us s s' e,
  ~ In u us -> step s (Cancel us) = (s', e) -> sim u s' s /\ view u e = [].
Proof.
  intros u us s s' e Hu H. simpl in H. unfold cancel in H. rewrite cancel_walk_spec in H.
  injection H as <- <-. unfold sim; simpl. rewrite pv_unnamed_other by exact Hu. repeat split.
  unfold view; simpl. rewrite only_none; [reflexivity|].
  intros HIn. apply in_concat in HIn. destruct HIn as [l [Hl HIn]].
  apply in_map_iff in Hl. destruct Hl as [p [<- _]]. unfold matches in HIn.
  apply filter_In in HIn. destruct HIn as [_ HIn]. apply zmem_In in HIn. tauto.
Qed.

(* THE frame theorem: for every history, a cancel request placed anywhere in
   it changes nothing of what the relay shows about a uid it does not name,
   and nothing of where that uid waits at the end *)
Theorem bystander_frame : forall ops1 us ops2 u s e s' e',
  ~ In u us ->
  run init (ops1 ++ Cancel us :: ops2) = (s, e) -> run init (ops1 ++ ops2) = (s', e') ->
  view u e = view u e' /\ sim u s s'.
Proof.
  intros ops1 us ops2 u s e s' e' Hu H H'.
  rewrite run_app in H, H'. destruct (run init ops1) as [s1 e1] eqn:E1. cbn [run] in H.
  destruct (step s1 (Cancel us)) as [s2 e2] eqn:E2.
  destruct (run s2 ops2) as [s3 e3] eqn:E3. destruct (run s1 ops2) as [s4 e4] eqn:E4.
  injection H as <- <-. injection H' as <- <-.
  destruct (cancel_invisible _ _ _ _ _ Hu E2) as [S V].
  destruct (run_sim _ _ _ _ _ _ _ _ S E3 E4) as [S' V'].
  rewrite !view_app, V, V'. auto.
Qed.

(* the counts of the conservation law are read off the view *)
Lemma cnt_only : forall u l, cnt u (only u l) = cnt u l.
Proof. intros; unfold only; apply cnt_filter_in; apply Z.eqb_refl. Qed.

Lemma cnt_only_nil : forall u l, only u l = [] -> cnt u l = 0%nat.
Proof. intros u l H. rewrite <- cnt_only, H. reflexivity. Qed.

Lemma counts_of_view : forall u e,
  n_fwd u (view u e) = n_fwd u e /\ n_fail u (view u e) = n_fail u e /\ n_cancel u (view u e) = n_cancel u e.
Proof.
  intros u e; induction e as [|o e [I1 [I2 I3]]]; [auto|].
  unfold view in *. simpl. fold (view u e) in *.
  change (flat_map (view1 u) e) with (view u e).
  rewrite n_fwd_app, n_fail_app, n_cancel_app, I1, I2, I3.
  unfold n_fwd, n_fail, n_cancel.
  destruct o as [q us|q v|v|us|us|n]; simpl; rewrite ?cnt_only; try (repeat split; lia).
  - destruct (v =? u) eqn:E; simpl; rewrite ?E; repeat split; lia.
  - destruct (is_nil (only u us)) eqn:E; simpl; rewrite ?cnt_only; try (repeat split; lia).
    assert (only u us = []) by (destruct (only u us); [reflexivity | discriminate]).
    rewrite (cnt_only_nil _ _ H). repeat split; lia.
Qed.

Theorem bystander_same_counts : forall ops1 us ops2 u s e s' e',
  ~ In u us ->
  run init (ops1 ++ Cancel us :: ops2) = (s, e) -> run init (ops1 ++ ops2) = (s', e') ->
  n_fwd u e = n_fwd u e' /\ n_fail u e = n_fail u e' /\ n_cancel u e = n_cancel u e'
  /\ n_inq u s = n_inq u s' /\ tot u (backlog s) = tot u (backlog s').
Proof.
  intros ops1 us ops2 u s e s' e' Hu H H'.
  destruct (bystander_frame _ _ _ _ _ _ _ _ Hu H H') as [V [Si [_ Sb]]].
  destruct (counts_of_view u e) as [A1 [A2 A3]]. destruct (counts_of_view u e') as [B1 [B2 B3]].
  rewrite <- A1, <- A2, <- A3, V, B1, B2, B3. repeat split; try reflexivity.
  - unfold n_inq. rewrite Si. reflexivity.
  - assert (T : forall bl, tot u (pv u bl) = tot u bl).
    { intros bl; induction bl as [|[n l] bl IH]; simpl; [reflexivity | rewrite IH, cnt_only; reflexivity]. }
    rewrite <- (T (backlog s)), Sb, T. reflexivity.
Qed.
