(* Raptor relay: whole-history statements about cancel requests and about
   masters that have gone -- what holds, and the two statements of C08 / C05
   that the code as it is does not satisfy (witnesses by vm_compute). *)
From Coq Require Import ZArith List Bool Arith Lia ZifyBool.
From RP Require Import Relay.Model Relay.Oracle Relay.Lemmas Relay.Proofs.
Import ListNotations.
Open Scope Z_scope.

Lemma run_cancel_split : forall ops1 us ops2 s1 e1 s2 e2 s3 e3,
  run init ops1 = (s1, e1) -> step s1 (Cancel us) = (s2, e2) -> run s2 ops2 = (s3, e3) ->
  run init (ops1 ++ Cancel us :: ops2) = (s3, e1 ++ e2 ++ e3).
Proof.
  intros ops1 us ops2 s1 e1 s2 e2 s3 e3 H1 H2 H3.
  rewrite run_app, H1. cbn [run]. rewrite H2, H3. reflexivity.
Qed.

Lemma n_arr_cancel_mid : forall u ops1 us ops2,
  n_arr u (ops1 ++ Cancel us :: ops2) = n_arr u (ops1 ++ ops2).
Proof. intros. rewrite !n_arr_app, n_arr_cons. simpl. reflexivity. Qed.

(* a request naming a task that waits in a backlog: the task is canceled by
   that very request, exactly once, and is never forwarded or failed, and never
   waits again -- whatever happened before and whatever follows *)
Theorem cancel_stops_waiting_task : forall ops1 us ops2 u s1 e1 s2 e2 s3 e3,
  run init ops1 = (s1, e1) -> step s1 (Cancel us) = (s2, e2) -> run s2 ops2 = (s3, e3) ->
  In u us -> (n_arr u (ops1 ++ ops2) <= 1)%nat -> (0 < tot u (backlog s1))%nat ->
  n_cancel u e2 = 1%nat
  /\ n_fwd u (e1 ++ e2 ++ e3) = 0%nat /\ n_fail u (e1 ++ e2 ++ e3) = 0%nat
  /\ n_cancel u (e1 ++ e2 ++ e3) = 1%nat
  /\ waiting u s3 = 0%nat.
Proof.
  intros ops1 us ops2 u s1 e1 s2 e2 s3 e3 H1 H2 H3 Hu Hle Hw.
  pose proof (run_cancel_split _ _ _ _ _ _ _ _ _ H1 H2 H3) as R.
  pose proof (conservation _ u _ _ R) as C. rewrite n_arr_cancel_mid in C.
  pose proof (conservation _ u _ _ H1) as C1.
  pose proof (cancel_in_backlog s1 us) as K. rewrite H2 in K.
  destruct K as [_ [_ [_ [[c [Hc [_ Hcnt]]] _]]]]. subst e2.
  specialize (Hcnt u Hu).
  assert (Hc1 : n_cancel u [OCancel c] = cnt u c) by (unfold n_cancel; simpl; lia).
  rewrite places_split in C. unfold ended in C.
  rewrite !n_fwd_app, !n_fail_app, !n_cancel_app in *. rewrite Hc1 in *.
  assert (n_arr u ops1 <= n_arr u (ops1 ++ ops2))%nat by (rewrite n_arr_app; lia).
  unfold places in C1. lia.
Qed.

(* the part of "a named task is not processed later" that holds: a named task
   that has arrived and is no longer on the scheduler queue when the request is
   handled is never forwarded from then on *)
Theorem cancel_stops_named_partial : forall ops1 us ops2 u s1 e1 s2 e2 s3 e3,
  run init ops1 = (s1, e1) -> step s1 (Cancel us) = (s2, e2) -> run s2 ops2 = (s3, e3) ->
  In u us -> n_arr u ops1 = 1%nat -> n_arr u ops2 = 0%nat -> n_inq u s1 = 0%nat ->
  n_fwd u (e2 ++ e3) = 0%nat /\ tot u (backlog s3) = 0%nat.
Proof.
  intros ops1 us ops2 u s1 e1 s2 e2 s3 e3 H1 H2 H3 Hu Ha1 Ha2 Hq.
  pose proof (run_cancel_split _ _ _ _ _ _ _ _ _ H1 H2 H3) as R.
  pose proof (conservation _ u _ _ R) as C. rewrite n_arr_cancel_mid, n_arr_app in C.
  pose proof (conservation _ u _ _ H1) as C1.
  assert (R2 : run init (ops1 ++ [Cancel us]) = (s2, e1 ++ e2)).
  { rewrite run_app, H1. cbn [run]. rewrite H2. rewrite app_nil_r. reflexivity. }
  pose proof (conservation _ u _ _ R2) as C2. rewrite n_arr_app in C2.
  pose proof (cancel_in_backlog s1 us) as K. rewrite H2 in K.
  destruct K as [_ [Hi [_ [[c [Hc _]] [Hz _]]]]]. subst e2. specialize (Hz u Hu).
  unfold places in *. unfold n_inq in *. rewrite Hi in C2.
  rewrite !n_fwd_app, !n_fail_app, !n_cancel_app in *.
  assert (n_arr u [Cancel us] = 0%nat) by reflexivity.
  assert (n_fwd u [OCancel c] = 0%nat) by reflexivity.
  lia.
Qed.

(* C08, "a named task that a component meets later is canceled there instead
   of being processed", is FALSE of the relay: a request that is handled while
   the task is still on the scheduler queue misses it (control_cb looks into the
   backlog only, the _CANCEL item that it puts on the queue is applied to the
   wait pool only), and _schedule_incoming then puts the task into the backlog
   or forwards it without looking at the cancel list.  Witness: task 1 for
   master 1 is put on the queue, the request for task 1 is handled, the queue
   is drained, master 1 registers: task 1 is relayed to it, never canceled. *)
Theorem cancel_stops_named_refuted :
  exists ops1 us ops2 u s e,
    run init (ops1 ++ Cancel us :: ops2) = (s, e) /\ In u us /\
    n_arr u ops1 = 1%nat /\ n_arr u ops2 = 0%nat /\ n_fwd u (snd (run init ops1)) = 0%nat /\
    n_fwd u e = 1%nat /\ n_cancel u e = 0%nat.
Proof.
  exists [Arrive [mkT 1 (Some 1) false false]], [1], [Drain; Register 1 1], 1.
  eexists. eexists. split; [vm_compute; reflexivity|].
  vm_compute. repeat split; auto.
Qed.

(* ---------------- masters that have gone ---------------- *)
(* the last registration event of name n in the history is an unregistration *)
Fixpoint gone (n : Z) (ops : list op) (g : bool) : bool :=
  match ops with
  | [] => g
  | Register m _ :: r => gone n r (if m =? n then false else g)
  | Unregister m :: r => gone n r (if m =? n then true else g)
  | _ :: r => gone n r g
  end.

(* right after the unregistration nothing waits for the name ... *)
Theorem unregistered_has_no_backlog : forall ops n s e,
  run init (ops ++ [Unregister n]) = (s, e) -> absent n (backlog s) /\ absent n (queues s).
Proof.
  intros ops n s e H. rewrite run_app in H.
  destruct (run init ops) as [s1 e1] eqn:E1. cbn [run] in H.
  pose proof (unregister_fails_exactly s1 n (reachable_inv _ _ _ E1)) as U.
  destruct (step s1 (Unregister n)) as [s2 e2]. injection H as <- _. tauto.
Qed.

(* ... but C05's "every task reaches a final state while its pilot is alive"
   is FALSE for tasks that arrive for the name afterwards: unregistration fails
   the backlog of that moment ("raptor gone"), yet the name is not remembered
   as gone, so a later task for it is kept in a new backlog.  Witness: master 1
   registers and unregisters, task 7 for master 1 arrives and is drained. *)
Theorem gone_master_backlog_refuted :
  exists ops n u s e,
    run init ops = (s, e) /\ gone n ops false = true /\ In u (key_list n (backlog s)) /\ n_arr u ops = 1%nat.
Proof.
  exists [Register 1 1; Unregister 1; Arrive [mkT 7 (Some 1) false false]; Drain], 1, 7.
  eexists. eexists. split; [vm_compute; reflexivity|]. vm_compute. auto.
Qed.

(* and it stays there: as long as the name is not registered or unregistered
   again and no request names it, a task in the backlog of a name other than the
   wildcard stays in that backlog -- whatever else arrives, is drained, registers
   or unregisters *)
Definition leaves_alone (n : Z) (o : op) : bool :=
  match o with
  | Arrive _ | Drain => true
  | Register m _ | Unregister m => negb (m =? n)
  | Cancel _ => false
  end.

Lemma fwd_group_keeps : forall qs bl k us bl' o n l,
  fwd_group qs bl k us = (bl', o) -> alook n bl = Some l -> exists l', alook n bl' = Some (l ++ l').
Proof.
  intros qs bl k us bl' o n l H Hl. unfold fwd_group in H.
  destruct (alook k qs); [injection H as <- <-; exists []; rewrite app_nil_r; exact Hl|].
  destruct (negb (is_nil qs) && (k =? star)); injection H as <- <-;
    [exists []; rewrite app_nil_r; exact Hl|].
  unfold aext. rewrite alook_aset. destruct (k =? n) eqn:E.
  - apply Z.eqb_eq in E; subst k. rewrite Hl. exists us. reflexivity.
  - exists []. rewrite app_nil_r. exact Hl.
Qed.

Lemma fwd_groups_keeps : forall qs g bl bl' o n l,
  fwd_groups qs bl g = (bl', o) -> alook n bl = Some l -> exists l', alook n bl' = Some (l ++ l').
Proof.
  intros qs g; induction g as [|[k us] g IH]; intros bl bl' o n l H Hl; simpl in H.
  - injection H as <- <-. exists []. rewrite app_nil_r. exact Hl.
  - destruct (fwd_group qs bl k us) as [bl1 o1] eqn:E1.
    destruct (fwd_groups qs bl1 g) as [bl2 o2] eqn:E2. injection H as <- <-.
    destruct (fwd_group_keeps _ _ _ _ _ _ _ _ E1 Hl) as [l1 H1].
    destruct (IH _ _ _ _ _ E2 H1) as [l2 H2]. exists (l1 ++ l2). rewrite app_assoc. exact H2.
Qed.

Lemma step_keeps : forall s o s' e n l,
  step s o = (s', e) -> leaves_alone n o = true -> n <> star -> alook n (backlog s) = Some l ->
  exists l', alook n (backlog s') = Some (l ++ l').
Proof.
  intros s o s' e n l H Ho Hn Hl. destruct o as [b| |m q|m|us]; simpl in H, Ho; try discriminate.
  - injection H as <- <-. exists []. rewrite app_nil_r. exact Hl.
  - unfold drain in H.
    destruct (fwd_groups (queues s) (backlog s) (collect (concat (inq s)))) as [bl o] eqn:E.
    injection H as <- <-. simpl. eapply fwd_groups_keeps; eauto.
  - unfold register, relay_key in H. exists []. rewrite app_nil_r.
    assert (Hm : n <> m) by lia.
    destruct (alook m (backlog s)) eqn:E1.
    + destruct (alook star (adel m (backlog s))) eqn:E2; injection H as <- <-; simpl;
        rewrite ?alook_adel_other by auto; exact Hl.
    + destruct (alook star (backlog s)) eqn:E2; injection H as <- <-; simpl;
        rewrite ?alook_adel_other by auto; exact Hl.
  - unfold unregister in H. exists []. rewrite app_nil_r.
    assert (Hm : n <> m) by lia.
    destruct (alook m (queues s)); destruct (alook m (backlog s)); injection H as <- <-; simpl;
      rewrite ?alook_adel_other by auto; exact Hl.
Qed.

Theorem waits_until_registered_again : forall ops s s' e n l,
  run s ops = (s', e) -> forallb (leaves_alone n) ops = true -> n <> star ->
  alook n (backlog s) = Some l -> exists l', alook n (backlog s') = Some (l ++ l').
Proof.
  intros ops; induction ops as [|o ops IH]; intros s s' e n l H Ha Hn Hl; simpl in H.
  - injection H as <- <-. exists []. rewrite app_nil_r. exact Hl.
  - simpl in Ha. apply andb_true_iff in Ha. destruct Ha as [Ha1 Ha2].
    destruct (step s o) as [s1 o1] eqn:E1. destruct (run s1 ops) as [s2 o2] eqn:E2.
    injection H as <- <-.
    destruct (step_keeps _ _ _ _ _ _ E1 Ha1 Hn Hl) as [l1 H1].
    destruct (IH _ _ _ _ _ E2 Ha2 Hn H1) as [l2 H2]. exists (l1 ++ l2). rewrite app_assoc. exact H2.
Qed.

(* ---------------- the statements of Proofs.v at reachable states ---------------- *)
Theorem reachable_spec : forall ops s e, run init ops = (s, e) ->
  NoDup (map fst (backlog s)) /\ NoDup (map fst (queues s)) /\
  (forall n, alook n (queues s) <> None -> alook n (backlog s) = None) /\
  (queues s <> [] -> alook star (backlog s) = None).
Proof. intros ops s e H. destruct (reachable_inv ops s e H) as [A B C D]. exact (conj A (conj B (conj C D))). Qed.

Theorem register_relays_all_hist : forall ops s0 e0 n q, run init ops = (s0, e0) ->
  let '(s', e) := step s0 (Register n q) in
  e = (match alook n (backlog s0) with Some l => [OPut q l] | None => [] end)
      ++ (if n =? star then [] else match alook star (backlog s0) with Some l => [OPut q l] | None => [] end)
  /\ backlog s' = without [n; star] (backlog s0)
  /\ alook n (backlog s') = None /\ alook star (backlog s') = None
  /\ (forall k, k <> n -> k <> star -> alook k (backlog s') = alook k (backlog s0))
  /\ inq s' = inq s0 /\ alook n (queues s') = Some q.
Proof. intros ops s0 e0 n q H. exact (register_relays_all s0 n q (reachable_inv ops s0 e0 H)). Qed.

Theorem unregister_fails_exactly_hist : forall ops s0 e0 n, run init ops = (s0, e0) ->
  let '(s', e) := step s0 (Unregister n) in
  e = (match alook n (queues s0) with None => [OWarn n] | Some _ => [] end) ++ map OFail (key_list n (backlog s0))
  /\ backlog s' = without [n] (backlog s0) /\ queues s' = without [n] (queues s0)
  /\ alook n (backlog s') = None /\ alook n (queues s') = None
  /\ (forall k, k <> n -> alook k (backlog s') = alook k (backlog s0))
  /\ inq s' = inq s0.
Proof. intros ops s0 e0 n H. exact (unregister_fails_exactly s0 n (reachable_inv ops s0 e0 H)). Qed.
