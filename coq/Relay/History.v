(* Raptor relay: whole-history statements about cancel requests (a request
   naming a raptor task that has arrived and is not yet forwarded stops it) and
   about masters that have gone (nothing waits for them; a task that arrives for
   one is failed by the next drain). *)
From Coq Require Import ZArith List Bool Arith Lia ZifyBool.
From RP Require Import Relay.Model Relay.Oracle Relay.Lemmas Relay.Proofs.
Import ListNotations.
Open Scope Z_scope.

Lemma run_cancel_split : forall ops1 us ops2 s1 e1 s2 e2 s3 e3,
  run init ops1 = (s1, e1) -> step s1 (Cancel us) = (s2, e2) -> run s2 ops2 = (s3, e3) ->
  run init (ops1 ++ Cancel us :: ops2) = (s3, e1 ++ e2 ++ e3).
Proof.
  intros ops1 us ops2 s1 e1 s2 e2 s3 e3 H1 H2 H3.
  rewrite run_app, H1. cbn [run]. rewrite H2, H3. reflexivity.
Qed.

Lemma n_arr_cancel_mid : forall u ops1 us ops2,
  n_arr u (ops1 ++ Cancel us :: ops2) = n_arr u (ops1 ++ ops2).
Proof. intros. rewrite !n_arr_app, n_arr_cons. simpl. reflexivity. Qed.

(* a request naming a task that waits in a backlog: the task is canceled by
   that very request, exactly once, and is never forwarded or failed, and never
   waits again -- whatever happened before and whatever follows *)
Theorem cancel_stops_waiting_task : forall ops1 us ops2 u s1 e1 s2 e2 s3 e3,
  run init ops1 = (s1, e1) -> step s1 (Cancel us) = (s2, e2) -> run s2 ops2 = (s3, e3) ->
  In u us -> (n_arr u (ops1 ++ ops2) <= 1)%nat -> (0 < tot u (backlog s1))%nat ->
  n_cancel u e2 = 1%nat
  /\ n_fwd u (e1 ++ e2 ++ e3) = 0%nat /\ n_fail u (e1 ++ e2 ++ e3) = 0%nat
  /\ n_cancel u (e1 ++ e2 ++ e3) = 1%nat
  /\ waiting u s3 = 0%nat.
Proof.
  intros ops1 us ops2 u s1 e1 s2 e2 s3 e3 H1 H2 H3 Hu Hle Hw.
  pose proof (run_cancel_split _ _ _ _ _ _ _ _ _ H1 H2 H3) as R.
  pose proof (conservation _ u _ _ R) as C. rewrite n_arr_cancel_mid in C.
  pose proof (conservation _ u _ _ H1) as C1.
  pose proof (cancel_in_backlog s1 us) as K. rewrite H2 in K.
  destruct K as [_ [_ [_ [_ [_ [[c [Hc [_ Hcnt]]] _]]]]]]. subst e2.
  specialize (Hcnt u Hu).
  assert (Hc1 : n_cancel u [OCancel c] = cnt u c) by (unfold n_cancel; simpl; lia).
  rewrite places_split in C. unfold ended in C.
  rewrite !n_fwd_app, !n_fail_app, !n_cancel_app in *. rewrite Hc1 in *.
  assert (n_arr u ops1 <= n_arr u (ops1 ++ ops2))%nat by (rewrite n_arr_app; lia).
  unfold places in C1. lia.
Qed.

(* ---------------- a request that overtakes the task on the scheduler queue ---------------- *)
(* u is on the scheduler queue, in no backlog, and its uid is on the cancel list *)
Definition pend (u : Z) (s : state) : Prop :=
  n_inq u s = 1%nat /\ tot u (backlog s) = 0%nat /\ zmem u (clist s) = true.

Definition is_drain (o : op) : bool := match o with Drain => true | _ => false end.

Lemma zmem_app : forall u a b, zmem u (a ++ b) = zmem u a || zmem u b.
Proof. intros u a b; induction a as [|x a IH]; simpl; [reflexivity | rewrite IH, orb_assoc; reflexivity]. Qed.

Lemma step_keeps_queue : forall u s o s' e,
  step s o = (s', e) -> is_drain o = false ->
  n_inq u s' = (n_inq u s + t_arr u (arrivals o))%nat /\ (zmem u (clist s) = true -> zmem u (clist s') = true).
Proof.
  intros u s o s' e H Hd. destruct o as [b| |n q|n|us]; simpl in H; try discriminate.
  - injection H as <- <-. rewrite n_inq_arrive. simpl. auto.
  - unfold register in H. destruct (relay_key q n (backlog s)) as [b1 o1].
    destruct (relay_key q star b1) as [b2 o2]. injection H as <- <-. unfold n_inq; simpl. auto.
  - unfold unregister in H.
    destruct (alook n (queues s)); destruct (alook n (backlog s)); injection H as <- <-; unfold n_inq; simpl; auto.
  - unfold cancel in H. destruct (cancel_walk us (backlog s)) as [bl c]. injection H as <- <-.
    unfold n_inq; simpl. split; [lia|]. intros Hz. rewrite zmem_app, Hz. reflexivity.
Qed.

Lemma pend_step : forall u s o s' e,
  pend u s -> step s o = (s', e) -> is_drain o = false -> t_arr u (arrivals o) = 0%nat ->
  pend u s' /\ ended u e = 0%nat.
Proof.
  intros u s o s' e [P1 [P2 P3]] H Hd Ha.
  destruct (step_keeps_queue u _ _ _ _ H Hd) as [Q1 Q2].
  pose proof (step_conserve u _ _ _ _ H) as C. unfold waiting in C. unfold pend. rewrite Q1.
  repeat split; try lia; try (apply Q2; exact P3).
Qed.

(* the drain that meets it cancels it -- exactly once, and does not forward, fail or cache it *)
Lemma pend_drain : forall u s s' e,
  pend u s -> step s Drain = (s', e) ->
  n_cancel u e = 1%nat /\ n_fwd u e = 0%nat /\ n_fail u e = 0%nat /\ waiting u s' = 0%nat.
Proof.
  intros u s s' e [P1 [P2 P3]] H. simpl in H. unfold drain in H.
  destruct (fwd_groups (queues s) (gone s) (backlog s) (clist s) (collect (concat (inq s)))) as [[bl cl] o] eqn:E.
  injection H as <- <-.
  destruct (fwd_groups_counts u _ _ _ _ _ _ _ _ E) as [A1 [A2 A3]].
  rewrite collect_tot in A1, A2. unfold n_inq in P1. rewrite P1 in A1, A2.
  rewrite zmem_cnt in P3. apply Nat.ltb_lt in P3.
  pose proof (sched_tail_counts u (concat (inq s))) as T. unfold ended in T, A1.
  rewrite n_cancel_app, n_fwd_app, n_fail_app. unfold waiting, n_inq. simpl. repeat split; lia.
Qed.

Lemma done_run : forall u ops s s' e,
  run s ops = (s', e) -> waiting u s = 0%nat -> n_arr u ops = 0%nat -> ended u e = 0%nat /\ waiting u s' = 0%nat.
Proof. intros u ops s s' e H Hw Ha. pose proof (run_conserve u _ _ _ _ H). lia. Qed.

Lemma pend_run : forall u ops s s' e,
  pend u s -> n_arr u ops = 0%nat -> run s ops = (s', e) ->
  (pend u s' /\ ended u e = 0%nat /\ existsb is_drain ops = false)
  \/ (n_cancel u e = 1%nat /\ n_fwd u e = 0%nat /\ n_fail u e = 0%nat /\ waiting u s' = 0%nat).
Proof.
  intros u ops; induction ops as [|o ops IH]; intros s s' e P Ha H; simpl in H.
  - injection H as <- <-. left. auto.
  - destruct (step s o) as [s1 o1] eqn:E1. destruct (run s1 ops) as [s2 o2] eqn:E2.
    injection H as <- <-. rewrite n_arr_cons in Ha.
    destruct (is_drain o) eqn:Ed.
    + destruct o; try discriminate. destruct (pend_drain u _ _ _ P E1) as [D1 [D2 [D3 D4]]].
      destruct (done_run u _ _ _ _ E2 D4 ltac:(lia)) as [F1 F2]. unfold ended in F1.
      right. rewrite n_cancel_app, n_fwd_app, n_fail_app. repeat split; lia.
    + destruct (pend_step u _ _ _ _ P E1 Ed ltac:(lia)) as [P1 Z1].
      destruct (IH _ _ _ P1 ltac:(lia) E2) as [[Q1 [Q2 Q3]]|[Q1 [Q2 [Q3 Q4]]]].
      * left. rewrite ended_app. simpl. rewrite Ed. simpl. split; [exact Q1 | split; [lia | exact Q3]].
      * right. unfold ended in Z1. rewrite n_cancel_app, n_fwd_app, n_fail_app. repeat split; lia.
Qed.

(* C08 at the relay: a request naming a raptor task that has arrived -- it is on
   the scheduler queue or in a backlog -- and that has not been forwarded (nor
   failed or canceled) stops it: whatever preceded and whatever follows, the
   task is never forwarded and never failed, and it is canceled exactly once --
   by the request itself when it waits in a backlog, by the drain that meets it
   when it is still on the scheduler queue; until that drain it stays on the
   queue with its uid on the cancel list *)
Theorem cancel_stops_arrived_task : forall ops1 us ops2 u s1 e1 s2 e2 s3 e3,
  run init ops1 = (s1, e1) -> step s1 (Cancel us) = (s2, e2) -> run s2 ops2 = (s3, e3) ->
  In u us -> n_arr u ops1 = 1%nat -> n_arr u ops2 = 0%nat -> ended u e1 = 0%nat ->
  let e := e1 ++ e2 ++ e3 in
  n_fwd u e = 0%nat /\ n_fail u e = 0%nat /\
  ((n_cancel u e = 1%nat /\ waiting u s3 = 0%nat)
   \/ (n_cancel u e = 0%nat /\ pend u s3 /\ existsb is_drain ops2 = false)).
Proof.
  intros ops1 us ops2 u s1 e1 s2 e2 s3 e3 H1 H2 H3 Hu Ha1 Ha2 He1 e. subst e.
  pose proof (conservation _ u _ _ H1) as C1. rewrite places_split in C1.
  pose proof (cancel_in_backlog s1 us) as K. rewrite H2 in K.
  destruct K as [Kb [Ki [_ [Kc [_ [[c [Hc [_ Hcnt]]] [Hz _]]]]]]]. subst e2.
  specialize (Hcnt u Hu). specialize (Hz u Hu).
  assert (Hc1 : n_cancel u [OCancel c] = cnt u c) by (unfold n_cancel; simpl; lia).
  assert (Hc2 : n_fwd u [OCancel c] = 0%nat) by reflexivity.
  assert (Hc3 : n_fail u [OCancel c] = 0%nat) by reflexivity.
  rewrite He1 in C1. unfold ended in He1.
  rewrite !n_fwd_app, !n_fail_app, !n_cancel_app, Hc1, Hc2, Hc3.
  assert (Hi2 : n_inq u s2 = n_inq u s1) by (unfold n_inq; rewrite Ki; reflexivity).
  unfold waiting in C1.
  destruct (Nat.eq_dec (tot u (backlog s1)) 0) as [Hb0|Hb1].
  - (* on the scheduler queue *)
    assert (P : pend u s2).
    { unfold pend. rewrite Hi2, Hz, Kc, zmem_app. apply zmem_In in Hu. rewrite Hu, orb_true_r. repeat split; lia. }
    destruct (pend_run u _ _ _ _ P Ha2 H3) as [[Q1 [Q2 Q3]]|[Q1 [Q2 [Q3 Q4]]]].
    + unfold ended in Q2. split; [lia|]. split; [lia|]. right. split; [lia | split; [exact Q1 | exact Q3]].
    + split; [lia|]. split; [lia|]. left. split; lia.
  - (* in a backlog *)
    assert (W2 : waiting u s2 = 0%nat) by (unfold waiting; lia).
    destruct (done_run u _ _ _ _ H3 W2 Ha2) as [F1 F2]. unfold ended in F1.
    split; [lia|]. split; [lia|]. left. split; lia.
Qed.

(* ... and some drain does meet it: if the history goes on with a drain, the
   task has been canceled exactly once *)
Theorem cancel_stops_arrived_task_drained : forall ops1 us ops2 u s1 e1 s2 e2 s3 e3,
  run init ops1 = (s1, e1) -> step s1 (Cancel us) = (s2, e2) -> run s2 ops2 = (s3, e3) ->
  In u us -> n_arr u ops1 = 1%nat -> n_arr u ops2 = 0%nat -> ended u e1 = 0%nat ->
  existsb is_drain ops2 = true ->
  n_cancel u (e1 ++ e2 ++ e3) = 1%nat /\ n_fwd u (e1 ++ e2 ++ e3) = 0%nat /\ n_fail u (e1 ++ e2 ++ e3) = 0%nat
  /\ waiting u s3 = 0%nat.
Proof.
  intros ops1 us ops2 u s1 e1 s2 e2 s3 e3 H1 H2 H3 Hu Ha1 Ha2 He1 Hd.
  destruct (cancel_stops_arrived_task _ _ _ _ _ _ _ _ _ _ H1 H2 H3 Hu Ha1 Ha2 He1) as [A [B [[C D]|[_ [_ F]]]]].
  - auto.
  - congruence.
Qed.

(* ---------------- masters that have gone ---------------- *)
(* the last registration event of name n in the history is an unregistration *)
Fixpoint gone_hist (n : Z) (ops : list op) (g : bool) : bool :=
  match ops with
  | [] => g
  | Register m _ :: r => gone_hist n r (if m =? n then false else g)
  | Unregister m :: r => gone_hist n r (if m =? n then true else g)
  | _ :: r => gone_hist n r g
  end.

Lemma bool_iff_eq : forall a b : bool, (a = true <-> b = true) -> a = b.
Proof. intros [|] [|] [H1 H2]; auto; try (symmetry; auto); discriminate (H1 eq_refl) || discriminate (H2 eq_refl). Qed.

Lemma zmem_gadd : forall n m g, zmem n (gadd m g) = (m =? n) || zmem n g.
Proof.
  intros n m g. apply bool_iff_eq. rewrite orb_true_iff, !zmem_In, In_gadd, Z.eqb_eq.
  split; intros [H|H]; auto.
Qed.

Lemma zmem_gdel : forall n m g, zmem n (gdel m g) = negb (m =? n) && zmem n g.
Proof.
  intros n m g. apply bool_iff_eq. rewrite andb_true_iff, negb_true_iff, !zmem_In, In_gdel, Z.eqb_neq.
  split; intros [H1 H2]; split; auto.
Qed.

Lemma step_gone : forall n s o s' e, step s o = (s', e) ->
  zmem n (gone s') = match o with
                     | Register m _ => if m =? n then false else zmem n (gone s)
                     | Unregister m => if m =? n then true else zmem n (gone s)
                     | _ => zmem n (gone s)
                     end.
Proof.
  intros n s o s' e H. destruct o as [b| |m q|m|us]; simpl in H.
  - injection H as <- <-. reflexivity.
  - unfold drain in H. destruct (fwd_groups _ _ _ _ _) as [[bl cl] o]. injection H as <- <-. reflexivity.
  - unfold register in H. destruct (relay_key q m (backlog s)) as [b1 o1].
    destruct (relay_key q star b1) as [b2 o2]. injection H as <- <-. simpl. rewrite zmem_gdel.
    destruct (m =? n); reflexivity.
  - unfold unregister in H.
    destruct (alook m (queues s)); destruct (alook m (backlog s)); injection H as <- <-; simpl; rewrite zmem_gadd;
      destruct (m =? n); reflexivity.
  - unfold cancel in H. destruct (cancel_walk us (backlog s)) as [bl c]. injection H as <- <-. reflexivity.
Qed.

Lemma run_gone : forall n ops s s' e, run s ops = (s', e) -> zmem n (gone s') = gone_hist n ops (zmem n (gone s)).
Proof.
  intros n ops; induction ops as [|o ops IH]; intros s s' e H; simpl in H.
  - injection H as <- <-. reflexivity.
  - destruct (step s o) as [s1 o1] eqn:E1. destruct (run s1 ops) as [s2 o2] eqn:E2. injection H as <- <-.
    rewrite (IH _ _ _ E2), (step_gone n _ _ _ _ E1). destruct o; reflexivity.
Qed.

(* C05 at the relay: for every history, nothing waits for a master that has
   unregistered (and that master is not registered) *)
Theorem no_wait_for_gone_master : forall ops n s e,
  run init ops = (s, e) -> gone_hist n ops false = true -> absent n (backlog s) /\ absent n (queues s).
Proof.
  intros ops n s e H Hg. pose proof (run_gone n _ _ _ _ H) as G. simpl in G. rewrite Hg in G.
  apply zmem_In in G. destruct (reachable_inv _ _ _ H) as [_ _ _ _ Hb Hq]. auto.
Qed.

(* a drain sorts the raptor tasks by name: what it handles under name n is the
   raptor tasks for n on the scheduler queue, in order *)
Definition for_name (n : Z) (ts : list task) : list Z :=
  flat_map (fun t => match relayed t with Some m => if m =? n then [t_uid t] else [] | None => [] end) ts.
Definition merge (a : option (list Z)) (l : list Z) : option (list Z) :=
  match a, l with
  | None, [] => None
  | None, _ => Some l
  | Some x, _ => Some (x ++ l)
  end.

Lemma collect_look_gen : forall n ts g,
  alook n (fold_left (fun g t => match relayed t with Some m => aext m [t_uid t] g | None => g end) ts g)
  = merge (alook n g) (for_name n ts).
Proof.
  intros n ts; induction ts as [|t ts IH]; intros g; simpl.
  - destruct (alook n g); simpl; [rewrite app_nil_r|]; reflexivity.
  - rewrite IH. unfold for_name. simpl. fold (for_name n ts). destruct (relayed t) as [m|]; [|reflexivity].
    unfold aext. rewrite alook_aset. destruct (m =? n) eqn:E.
    + apply Z.eqb_eq in E; subst m. destruct (alook n g); simpl; [rewrite <- app_assoc|]; reflexivity.
    + reflexivity.
Qed.

Theorem drain_sorts_by_name : forall n ts,
  alook n (collect ts) = match for_name n ts with [] => None | l => Some l end.
Proof. intros. unfold collect. rewrite collect_look_gen. simpl. destruct (for_name n ts); reflexivity. Qed.

(* the tasks a drain has collected for a master that has unregistered (which is
   then not registered; for the wildcard: while no queue is registered) are
   failed -- those that a cancel request named are canceled instead -- and
   nothing is kept for it *)
Theorem gone_group_fails : forall qs gn bl cl n us,
  alook n qs = None -> zmem n gn = true -> (is_nil qs || negb (n =? star)) = true ->
  fwd_group qs gn bl cl n us = let '(k, cl', o0) := sift cl us in (bl, cl', o0 ++ map OFail k).
Proof.
  intros qs gn bl cl n us Hq Hg Hs. unfold fwd_group. destruct (sift cl us) as [[k cl'] o0].
  destruct (is_nil k) eqn:Ek.
  - destruct k; [|discriminate]. simpl. rewrite app_nil_r. reflexivity.
  - rewrite Hq, Hg. destruct (negb (is_nil qs) && (n =? star)) eqn:E; [|reflexivity].
    apply andb_true_iff in E. destruct E as [E1 E2]. rewrite E2 in Hs. destruct (is_nil qs); discriminate.
Qed.

(* what still waits waits for a master that has never registered nor
   unregistered (or, under the wildcard, for any master while none is registered) *)
Definition touched (n : Z) (ops : list op) : bool :=
  existsb (fun o => match o with Register m _ | Unregister m => m =? n | _ => false end) ops.
Definition known (n : Z) (s : state) : Prop := alook n (queues s) <> None \/ In n (gone s).

Lemma step_known : forall n s o s' e, step s o = (s', e) ->
  known n s \/ (match o with Register m _ | Unregister m => m =? n | _ => false end) = true -> known n s'.
Proof.
  intros n s o s' e H K. unfold known in *. destruct o as [b| |m q|m|us]; simpl in H.
  - injection H as <- <-. simpl. destruct K as [K|K]; [exact K | discriminate].
  - unfold drain in H. destruct (fwd_groups _ _ _ _ _) as [[bl cl] o]. injection H as <- <-. simpl.
    destruct K as [K|K]; [exact K | discriminate].
  - unfold register in H. destruct (relay_key q m (backlog s)) as [b1 o1].
    destruct (relay_key q star b1) as [b2 o2]. injection H as <- <-. simpl. rewrite alook_aset.
    destruct (m =? n) eqn:E; [left; congruence|].
    destruct K as [[K|K]|K]; [left; exact K | right; apply In_gdel; split; [lia | exact K] | discriminate].
  - assert (G : In n (gadd m (gone s)) \/ (m <> n /\ alook n (queues s) <> None)).
    { destruct (m =? n) eqn:E; [left; apply In_gadd; left; lia|].
      destruct K as [[K|K]|K]; [right; split; [lia | exact K] | left; apply In_gadd; right; exact K | discriminate]. }
    unfold unregister in H.
    destruct (alook m (queues s)) eqn:Eq; destruct (alook m (backlog s)); injection H as <- <-; simpl;
      (destruct G as [G|[G1 G2]]; [right; exact G | left; rewrite ?alook_adel_other by auto; exact G2]).
  - unfold cancel in H. destruct (cancel_walk us (backlog s)) as [bl c]. injection H as <- <-. simpl.
    destruct K as [K|K]; [exact K | discriminate].
Qed.

Lemma run_known : forall n ops s s' e, run s ops = (s', e) -> known n s \/ touched n ops = true -> known n s'.
Proof.
  intros n ops; induction ops as [|o ops IH]; intros s s' e H K; simpl in H.
  - injection H as <- <-. destruct K as [K|K]; [exact K | discriminate].
  - destruct (step s o) as [s1 o1] eqn:E1. destruct (run s1 ops) as [s2 o2] eqn:E2. injection H as <- <-.
    apply (IH _ _ _ E2). unfold touched in K. simpl in K. rewrite orb_true_iff in K.
    destruct K as [K|[K|K]]; [left; eapply step_known; eauto | left; eapply step_known; eauto | right; exact K].
Qed.

Theorem waits_only_for_unknown_master : forall ops n s e,
  run init ops = (s, e) -> alook n (backlog s) <> None -> touched n ops = false.
Proof.
  intros ops n s e H Hw. destruct (touched n ops) eqn:T; [|reflexivity]. exfalso. apply Hw.
  destruct (run_known n _ _ _ _ H (or_intror T)) as [K|K];
    destruct (reachable_inv _ _ _ H) as [_ _ Hr _ Hgb _]; [apply Hr; exact K | apply Hgb; exact K].
Qed.

(* such a task keeps waiting: as long as the name is not registered or
   unregistered and no request names it, a task in the backlog of a name other
   than the wildcard stays in that backlog -- whatever else arrives, is drained,
   registers or unregisters.  This is the part of "reaches a final state" which
   the relay leaves to the application: the master it named has to come. *)
Definition leaves_alone (n : Z) (o : op) : bool :=
  match o with
  | Arrive _ | Drain => true
  | Register m _ | Unregister m => negb (m =? n)
  | Cancel _ => false
  end.

Lemma fwd_group_keeps : forall qs gn bl cl k us bl' cl' o n l,
  fwd_group qs gn bl cl k us = (bl', cl', o) -> alook n bl = Some l -> exists l', alook n bl' = Some (l ++ l').
Proof.
  intros qs gn bl cl k us bl' cl' o n l H Hl. unfold fwd_group in H.
  destruct (sift cl us) as [[kept c1] o0].
  assert (Same : exists l', alook n bl = Some (l ++ l')) by (exists []; rewrite app_nil_r; exact Hl).
  destruct (is_nil kept); [injection H as <- <- <-; exact Same|].
  destruct (alook k qs); [injection H as <- <- <-; exact Same|].
  destruct (negb (is_nil qs) && (k =? star)); [injection H as <- <- <-; exact Same|].
  destruct (zmem k gn); injection H as <- <- <-; [exact Same|].
  unfold aext. rewrite alook_aset. destruct (k =? n) eqn:E.
  - apply Z.eqb_eq in E; subst k. rewrite Hl. exists kept. reflexivity.
  - exact Same.
Qed.

Lemma fwd_groups_keeps : forall qs gn g bl cl bl' cl' o n l,
  fwd_groups qs gn bl cl g = (bl', cl', o) -> alook n bl = Some l -> exists l', alook n bl' = Some (l ++ l').
Proof.
  intros qs gn g; induction g as [|[k us] g IH]; intros bl cl bl' cl' o n l H Hl; simpl in H.
  - injection H as <- <- <-. exists []. rewrite app_nil_r. exact Hl.
  - destruct (fwd_group qs gn bl cl k us) as [[bl1 cl1] o1] eqn:E1.
    destruct (fwd_groups qs gn bl1 cl1 g) as [[bl2 cl2] o2] eqn:E2. injection H as <- <- <-.
    destruct (fwd_group_keeps _ _ _ _ _ _ _ _ _ _ _ E1 Hl) as [l1 H1].
    destruct (IH _ _ _ _ _ _ _ E2 H1) as [l2 H2]. exists (l1 ++ l2). rewrite app_assoc. exact H2.
Qed.

Lemma step_keeps : forall s o s' e n l,
  step s o = (s', e) -> leaves_alone n o = true -> n <> star -> alook n (backlog s) = Some l ->
  exists l', alook n (backlog s') = Some (l ++ l').
Proof.
  intros s o s' e n l H Ho Hn Hl. destruct o as [b| |m q|m|us]; simpl in H, Ho; try discriminate.
  - injection H as <- <-. exists []. rewrite app_nil_r. exact Hl.
  - unfold drain in H.
    destruct (fwd_groups (queues s) (gone s) (backlog s) (clist s) (collect (concat (inq s)))) as [[bl cl] o] eqn:E.
    injection H as <- <-. simpl. eapply fwd_groups_keeps; eauto.
  - unfold register, relay_key in H. exists []. rewrite app_nil_r.
    assert (Hm : n <> m) by lia.
    destruct (alook m (backlog s)) eqn:E1.
    + destruct (alook star (adel m (backlog s))) eqn:E2; injection H as <- <-; simpl;
        rewrite ?alook_adel_other by auto; exact Hl.
    + destruct (alook star (backlog s)) eqn:E2; injection H as <- <-; simpl;
        rewrite ?alook_adel_other by auto; exact Hl.
  - unfold unregister in H. exists []. rewrite app_nil_r.
    assert (Hm : n <> m) by lia.
    destruct (alook m (queues s)); destruct (alook m (backlog s)); injection H as <- <-; simpl;
      rewrite ?alook_adel_other by auto; exact Hl.
Qed.

Theorem waits_until_registered_again : forall ops s s' e n l,
  run s ops = (s', e) -> forallb (leaves_alone n) ops = true -> n <> star ->
  alook n (backlog s) = Some l -> exists l', alook n (backlog s') = Some (l ++ l').
Proof.
  intros ops; induction ops as [|o ops IH]; intros s s' e n l H Ha Hn Hl; simpl in H.
  - injection H as <- <-. exists []. rewrite app_nil_r. exact Hl.
  - simpl in Ha. apply andb_true_iff in Ha. destruct Ha as [Ha1 Ha2].
    destruct (step s o) as [s1 o1] eqn:E1. destruct (run s1 ops) as [s2 o2] eqn:E2.
    injection H as <- <-.
    destruct (step_keeps _ _ _ _ _ _ E1 Ha1 Hn Hl) as [l1 H1].
    destruct (IH _ _ _ _ _ E2 Ha2 Hn H1) as [l2 H2]. exists (l1 ++ l2). rewrite app_assoc. exact H2.
Qed.

(* ---------------- the statements of Proofs.v at reachable states ---------------- *)
Theorem reachable_spec : forall ops s e, run init ops = (s, e) ->
  NoDup (map fst (backlog s)) /\ NoDup (map fst (queues s)) /\
  (forall n, alook n (queues s) <> None -> alook n (backlog s) = None) /\
  (queues s <> [] -> alook star (backlog s) = None) /\
  (forall n, In n (gone s) -> alook n (backlog s) = None /\ alook n (queues s) = None).
Proof.
  intros ops s e H. destruct (reachable_inv ops s e H) as [A B C D E F].
  exact (conj A (conj B (conj C (conj D (fun n Hn => conj (E n Hn) (F n Hn)))))).
Qed.

Theorem register_relays_all_hist : forall ops s0 e0 n q, run init ops = (s0, e0) ->
  let '(s', e) := step s0 (Register n q) in
  e = (match alook n (backlog s0) with Some l => [OPut q l] | None => [] end)
      ++ (if n =? star then [] else match alook star (backlog s0) with Some l => [OPut q l] | None => [] end)
  /\ backlog s' = without [n; star] (backlog s0)
  /\ alook n (backlog s') = None /\ alook star (backlog s') = None
  /\ (forall k, k <> n -> k <> star -> alook k (backlog s') = alook k (backlog s0))
  /\ inq s' = inq s0 /\ alook n (queues s') = Some q
  /\ gone s' = gdel n (gone s0) /\ clist s' = clist s0.
Proof. intros ops s0 e0 n q H. exact (register_relays_all s0 n q (reachable_inv ops s0 e0 H)). Qed.

Theorem unregister_fails_exactly_hist : forall ops s0 e0 n, run init ops = (s0, e0) ->
  let '(s', e) := step s0 (Unregister n) in
  e = (match alook n (queues s0) with None => [OWarn n] | Some _ => [] end) ++ map OFail (key_list n (backlog s0))
  /\ backlog s' = without [n] (backlog s0) /\ queues s' = without [n] (queues s0)
  /\ alook n (backlog s') = None /\ alook n (queues s') = None
  /\ (forall k, k <> n -> alook k (backlog s') = alook k (backlog s0))
  /\ inq s' = inq s0 /\ gone s' = gadd n (gone s0) /\ clist s' = clist s0.
Proof. intros ops s0 e0 n H. exact (unregister_fails_exactly s0 n (reachable_inv ops s0 e0 H)). Qed.
