(* Raptor relay: lemmas about the dict operations and the counting functions. *)
From Coq Require Import ZArith List Bool Arith Lia ZifyBool.
From RP Require Import Relay.Model Relay.Oracle.
Import ListNotations.
Open Scope Z_scope.

(* ---------------- cnt ---------------- *)
Lemma cnt_app : forall u a b, cnt u (a ++ b) = (cnt u a + cnt u b)%nat.
Proof. intros u a b; induction a as [|x a IH]; simpl; [reflexivity | rewrite IH; lia]. Qed.

Lemma zmem_In : forall u l, zmem u l = true <-> In u l.
Proof.
  intros u l; induction l as [|x l IH]; simpl; [split; [discriminate | tauto]|].
  rewrite orb_true_iff, IH, Z.eqb_eq. tauto.
Qed.

Lemma cnt_zero_notin : forall u l, ~ In u l -> cnt u l = 0%nat.
Proof.
  intros u l; induction l as [|x l IH]; simpl; intros H; [reflexivity|].
  destruct (x =? u) eqn:E; [apply Z.eqb_eq in E; tauto | simpl; apply IH; tauto].
Qed.

Lemma cnt_pos_in : forall u l, (0 < cnt u l)%nat -> In u l.
Proof.
  intros u l; induction l as [|x l IH]; simpl; intros H; [lia|].
  destruct (x =? u) eqn:E; [left; apply Z.eqb_eq; exact E | right; apply IH; simpl in H; lia].
Qed.

Lemma cnt_filter_split : forall u (f : Z -> bool) l,
  (cnt u (filter f l) + cnt u (filter (fun x => negb (f x)) l))%nat = cnt u l.
Proof.
  intros u f l; induction l as [|x l IH]; simpl; [reflexivity|].
  destruct (f x); simpl; lia.
Qed.

Lemma cnt_filter_out : forall u (f : Z -> bool) l, f u = false -> cnt u (filter f l) = 0%nat.
Proof.
  intros u f l Hf; induction l as [|x l IH]; simpl; [reflexivity|].
  destruct (f x) eqn:E; simpl; [|exact IH].
  destruct (x =? u) eqn:E2; [apply Z.eqb_eq in E2; congruence | simpl; exact IH].
Qed.

Lemma cnt_filter_in : forall u (f : Z -> bool) l, f u = true -> cnt u (filter f l) = cnt u l.
Proof.
  intros u f l Hf; induction l as [|x l IH]; simpl; [reflexivity|].
  destruct (f x) eqn:E; simpl; [rewrite IH; reflexivity|].
  destruct (x =? u) eqn:E2; [apply Z.eqb_eq in E2; congruence | simpl; exact IH].
Qed.

(* ---------------- strike = filter ---------------- *)
Lemma strike_keep : forall ms x r, ~ In x ms -> strike ms (x :: r) = x :: strike ms r.
Proof.
  unfold strike. intros ms; induction ms as [|m ms IH]; intros x r H; simpl; [reflexivity|].
  destruct (x =? m) eqn:E; [apply Z.eqb_eq in E; subst; simpl in H; tauto|].
  apply IH. simpl in H; tauto.
Qed.

Lemma strike_matches : forall us l, strike (matches us l) l = filter (fun u => negb (zmem u us)) l.
Proof.
  intros us l; induction l as [|x l IH]; simpl; [reflexivity|].
  unfold matches in *. simpl. destruct (zmem x us) eqn:E; simpl.
  - unfold strike. simpl. rewrite Z.eqb_refl. exact IH.
  - rewrite strike_keep; [rewrite IH; reflexivity|].
    intros HIn. apply filter_In in HIn. destruct HIn as [_ H]. congruence.
Qed.

(* ---------------- dicts ---------------- *)
Section AssocLemmas.
Context {A : Type}.
Implicit Types l : list (Z * A).

Lemma alook_aset : forall k n (v : A) l, alook k (aset n v l) = if n =? k then Some v else alook k l.
Proof.
  intros k n v l; induction l as [|[m w] l IH]; simpl.
  - destruct (n =? k); reflexivity.
  - destruct (m =? n) eqn:E; simpl.
    + apply Z.eqb_eq in E; subst m. destruct (n =? k); reflexivity.
    + destruct (m =? k) eqn:E2; [|exact IH].
      destruct (n =? k) eqn:E3; [|reflexivity]. lia.
Qed.

Lemma alook_adel_other : forall k n l, k <> n -> alook k (adel n l) = alook k l.
Proof.
  intros k n l H; induction l as [|[m w] l IH]; simpl; [reflexivity|].
  destruct (m =? n) eqn:E; simpl.
  - destruct (m =? k) eqn:E2; [lia | reflexivity].
  - destruct (m =? k); [reflexivity | exact IH].
Qed.

Lemma alook_none_notin : forall k l, alook k l = None <-> ~ In k (map fst l).
Proof.
  intros k l; induction l as [|[m w] l IH]; simpl; [tauto|].
  destruct (m =? k) eqn:E.
  - split; [discriminate | intros H; exfalso; apply H; left; lia].
  - rewrite IH. split; [intros H [H1|H1]; [lia | tauto] | tauto].
Qed.

Lemma alook_adel_same : forall n l, NoDup (map fst l) -> alook n (adel n l) = None.
Proof.
  intros n l; induction l as [|[m w] l IH]; simpl; intros H; [reflexivity|].
  inversion H as [|? ? Hn Hd]; subst.
  destruct (m =? n) eqn:E; simpl.
  - apply Z.eqb_eq in E; subst m. apply alook_none_notin; exact Hn.
  - rewrite E. apply IH; exact Hd.
Qed.

Lemma alook_adel_none : forall k n l, alook k l = None -> alook k (adel n l) = None.
Proof.
  intros k n l; induction l as [|[m w] l IH]; simpl; intros H; [reflexivity|].
  destruct (m =? k) eqn:E; [discriminate|].
  destruct (m =? n); simpl; [exact H | rewrite E; apply IH; exact H].
Qed.

Lemma alook_adel_some : forall k n l, alook k (adel n l) <> None -> alook k l <> None.
Proof.
  intros k n l H H0; apply H; apply alook_adel_none; exact H0.
Qed.

Lemma keys_adel_incl : forall n l x, In x (map fst (adel n l)) -> In x (map fst l).
Proof.
  intros n l x; induction l as [|[m w] l IH]; simpl; [tauto|].
  destruct (m =? n); simpl; [tauto | intros [H|H]; [left; exact H | right; apply IH; exact H]].
Qed.

Lemma keys_adel_nodup : forall n l, NoDup (map fst l) -> NoDup (map fst (adel n l)).
Proof.
  intros n l; induction l as [|[m w] l IH]; simpl; intros H; [constructor|].
  inversion H as [|? ? Hn Hd]; subst.
  destruct (m =? n); simpl; [exact Hd|].
  constructor; [intros HIn; apply Hn; eapply keys_adel_incl; exact HIn | apply IH; exact Hd].
Qed.

Lemma keys_aset : forall n (v : A) l,
  map fst (aset n v l) = match alook n l with Some _ => map fst l | None => map fst l ++ [n] end.
Proof.
  intros n v l; induction l as [|[m w] l IH]; simpl; [reflexivity|].
  destruct (m =? n) eqn:E; simpl; [reflexivity|].
  rewrite IH. destruct (alook n l); reflexivity.
Qed.

Lemma keys_aset_nodup : forall n (v : A) l, NoDup (map fst l) -> NoDup (map fst (aset n v l)).
Proof.
  intros n v l H. rewrite keys_aset. destruct (alook n l) eqn:E; [exact H|].
  apply alook_none_notin in E.
  apply NoDup_rev in H. rewrite <- (rev_involutive (map fst l ++ [n])).
  apply NoDup_rev. rewrite rev_app_distr. simpl. constructor; [rewrite <- in_rev; exact E | exact H].
Qed.

(* with unique keys a deletion is a filter *)
Lemma without_notin : forall n l, ~ In n (map fst l) -> without [n] l = l.
Proof.
  intros n l; induction l as [|[k x] l IH]; unfold without in *; simpl; intros Hr; [reflexivity|].
  destruct (n =? k) eqn:E2; [exfalso; apply Hr; left; lia|]. simpl.
  f_equal. apply IH. tauto.
Qed.

Lemma adel_without : forall n l, NoDup (map fst l) -> adel n l = without [n] l.
Proof.
  intros n l; induction l as [|[m w] l IH]; intros H; [reflexivity|].
  simpl in H. inversion H as [|? ? Hn Hd]; subst.
  change (without [n] ((m, w) :: l)) with
    (if negb ((n =? m) || false) then (m, w) :: without [n] l else without [n] l).
  simpl adel.
  destruct (m =? n) eqn:E.
  - apply Z.eqb_eq in E; subst m. rewrite Z.eqb_refl. simpl.
    symmetry; apply without_notin; exact Hn.
  - replace (n =? m) with false by lia. simpl. rewrite IH; [reflexivity | exact Hd].
Qed.

Lemma without_without : forall a b l, without [a] (without [b] l) = without [b; a] l.
Proof.
  intros a b l; induction l as [|[m w] l IH]; unfold without in *; simpl; [reflexivity|].
  destruct (b =? m) eqn:E1; simpl.
  - exact IH.
  - destruct (a =? m) eqn:E2; simpl; [exact IH | f_equal; exact IH].
Qed.

Lemma keys_without_nodup : forall ks l, NoDup (map fst l) -> NoDup (map fst (without ks l)).
Proof.
  intros ks l; induction l as [|[m w] l IH]; unfold without in *; simpl; intros H; [constructor|].
  inversion H as [|? ? Hn Hd]; subst.
  destruct (negb (zmem m ks)); simpl; [|apply IH; exact Hd].
  constructor; [|apply IH; exact Hd].
  intros HIn. apply Hn. apply in_map_iff in HIn. destruct HIn as [p [Hp HIn]].
  apply filter_In in HIn. apply in_map_iff. exists p. tauto.
Qed.

End AssocLemmas.

(* ---------------- tot ---------------- *)
Lemma tot_app : forall u a b, tot u (a ++ b) = (tot u a + tot u b)%nat.
Proof. intros u a b; induction a as [|[n l] a IH]; simpl; [reflexivity | rewrite IH; lia]. Qed.

Lemma tot_look_del : forall u n bl l, alook n bl = Some l -> (tot u (adel n bl) + cnt u l)%nat = tot u bl.
Proof.
  intros u n bl; induction bl as [|[m w] bl IH]; simpl; intros l H; [discriminate|].
  destruct (m =? n) eqn:E.
  - injection H as ->. lia.
  - simpl. specialize (IH l H). lia.
Qed.

Lemma tot_aset_some : forall u n v bl old, alook n bl = Some old ->
  (tot u (aset n v bl) + cnt u old)%nat = (tot u bl + cnt u v)%nat.
Proof.
  intros u n v bl; induction bl as [|[m w] bl IH]; simpl; intros old H; [discriminate|].
  destruct (m =? n) eqn:E; simpl.
  - injection H as ->. lia.
  - specialize (IH old H). lia.
Qed.

Lemma tot_aset_none : forall u n v bl, alook n bl = None -> tot u (aset n v bl) = (tot u bl + cnt u v)%nat.
Proof.
  intros u n v bl; induction bl as [|[m w] bl IH]; simpl; intros H; [lia|].
  destruct (m =? n) eqn:E; [discriminate|]. simpl. rewrite (IH H). lia.
Qed.

Lemma tot_aext : forall u n us bl, tot u (aext n us bl) = (tot u bl + cnt u us)%nat.
Proof.
  intros u n us bl. unfold aext. destruct (alook n bl) as [old|] eqn:E.
  - pose proof (tot_aset_some u n (old ++ us) bl old E) as H. rewrite cnt_app in H. lia.
  - apply tot_aset_none; exact E.
Qed.

Lemma tot_key_le : forall u k bl, (cnt u (key_list k bl) <= tot u bl)%nat.
Proof.
  intros u k bl. unfold key_list. destruct (alook k bl) as [l|] eqn:E; simpl; [|lia].
  pose proof (tot_look_del u k bl l E). lia.
Qed.

(* ---------------- keys of aext ---------------- *)
Lemma alook_aext_other : forall k n us bl, k <> n -> alook k (aext n us bl) = alook k bl.
Proof.
  intros k n us bl H. unfold aext. rewrite alook_aset. destruct (n =? k) eqn:E; [lia | reflexivity].
Qed.

Lemma keys_aext_nodup : forall n us bl, NoDup (map fst bl) -> NoDup (map fst (aext n us bl)).
Proof. intros n us bl H. unfold aext. apply keys_aset_nodup; exact H. Qed.

(* ---------------- sums over effects ---------------- *)
Lemma sum_over_app : forall f a b, sum_over f (a ++ b) = (sum_over f a + sum_over f b)%nat.
Proof. intros f a b; induction a as [|x a IH]; simpl; [reflexivity | rewrite IH; lia]. Qed.

Lemma n_fwd_app : forall u a b, n_fwd u (a ++ b) = (n_fwd u a + n_fwd u b)%nat.
Proof. intros; apply sum_over_app. Qed.
Lemma n_fail_app : forall u a b, n_fail u (a ++ b) = (n_fail u a + n_fail u b)%nat.
Proof. intros; apply sum_over_app. Qed.
Lemma n_cancel_app : forall u a b, n_cancel u (a ++ b) = (n_cancel u a + n_cancel u b)%nat.
Proof. intros; apply sum_over_app. Qed.

Lemma t_arr_app : forall u a b, t_arr u (a ++ b) = (t_arr u a + t_arr u b)%nat.
Proof. intros u a b; induction a as [|x a IH]; simpl; [reflexivity | rewrite IH; lia]. Qed.

Lemma n_fail_map_OFail : forall u l, n_fail u (map OFail l) = cnt u l.
Proof. intros u l; induction l as [|x l IH]; [reflexivity|]. unfold n_fail in *. simpl. rewrite IH. reflexivity. Qed.
Lemma n_fwd_map_OFail : forall u l, n_fwd u (map OFail l) = 0%nat.
Proof. intros u l; induction l as [|x l IH]; simpl; [reflexivity | exact IH]. Qed.
Lemma n_cancel_map_OFail : forall u l, n_cancel u (map OFail l) = 0%nat.
Proof. intros u l; induction l as [|x l IH]; simpl; [reflexivity | exact IH]. Qed.

(* ---------------- the cancel list: remove1, sift ---------------- *)
Lemma zmem_cnt : forall u l, zmem u l = (0 <? cnt u l)%nat.
Proof.
  intros u l; induction l as [|x l IH]; simpl; [reflexivity|].
  destruct (x =? u); simpl; [reflexivity | exact IH].
Qed.

Lemma cnt_remove1_other : forall u v l, v <> u -> cnt u (remove1 v l) = cnt u l.
Proof.
  intros u v l H; induction l as [|x l IH]; simpl; [reflexivity|].
  destruct (x =? v) eqn:E.
  - destruct (x =? u) eqn:E2; [lia | reflexivity].
  - simpl. rewrite IH. reflexivity.
Qed.

Lemma cnt_remove1_same : forall u l, zmem u l = true -> (cnt u (remove1 u l) + 1)%nat = cnt u l.
Proof.
  intros u l; induction l as [|x l IH]; simpl; intros H; [discriminate|].
  destruct (x =? u) eqn:E; simpl in *; [lia|]. rewrite E. simpl. apply IH. exact H.
Qed.

Lemma sift_spec : forall u us cl k cl' o,
  sift cl us = (k, cl', o) ->
  (cnt u k + n_cancel u o)%nat = cnt u us /\ n_fwd u o = 0%nat /\ n_fail u o = 0%nat
  /\ n_cancel u o = Nat.min (cnt u cl) (cnt u us) /\ (cnt u cl' + n_cancel u o)%nat = cnt u cl.
Proof.
  intros u us; induction us as [|x us IH]; intros cl k cl' o H; simpl in H.
  - injection H as <- <- <-. simpl. repeat split; try reflexivity; unfold n_cancel; simpl; lia.
  - destruct (zmem x cl) eqn:E.
    + destruct (sift (remove1 x cl) us) as [[k1 c1] o1] eqn:E1. injection H as <- <- <-.
      destruct (IH _ _ _ _ E1) as [A [B [C [D F]]]].
      unfold n_fwd, n_fail, n_cancel in *. simpl.
      destruct (x =? u) eqn:E2.
      * apply Z.eqb_eq in E2; subst x. pose proof (cnt_remove1_same u cl E). repeat split; lia.
      * rewrite cnt_remove1_other in D, F by lia. repeat split; lia.
    + destruct (sift cl us) as [[k1 c1] o1] eqn:E1. injection H as <- <- <-.
      destruct (IH _ _ _ _ E1) as [A [B [C [D F]]]]. simpl.
      destruct (x =? u) eqn:E2.
      * apply Z.eqb_eq in E2; subst x. rewrite zmem_cnt in E. repeat split; lia.
      * repeat split; lia.
Qed.

Lemma sift_kept_incl : forall us cl k cl' o, sift cl us = (k, cl', o) -> forall x, In x k -> In x us.
Proof.
  intros us; induction us as [|x us IH]; intros cl k cl' o H y Hy; simpl in H.
  - injection H as <- <- <-. exact Hy.
  - destruct (zmem x cl).
    + destruct (sift (remove1 x cl) us) as [[k1 c1] o1] eqn:E1. injection H as <- <- <-.
      right. eapply IH; eauto.
    + destruct (sift cl us) as [[k1 c1] o1] eqn:E1. injection H as <- <- <-.
      destruct Hy as [->|Hy]; [left; reflexivity | right; eapply IH; eauto].
Qed.
