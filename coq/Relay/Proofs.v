(* Raptor relay: conservation (every raptor task is in exactly one place at
   every moment), invariants of reachable states, what each control operation
   does, and the two statements the code does not satisfy. *)
From Coq Require Import ZArith List Bool Arith Lia ZifyBool.
From RP Require Import Relay.Model Relay.Oracle Relay.Lemmas.
Import ListNotations.
Open Scope Z_scope.

(* ------------------------------------------------------------------ *)
(* conservation                                                          *)
(* ------------------------------------------------------------------ *)
Definition waiting (u : Z) (s : state) : nat := (n_inq u s + tot u (backlog s))%nat.
Definition ended (u : Z) (e : list out) : nat := (n_fwd u e + n_fail u e + n_cancel u e)%nat.

Lemma places_split : forall u s e, places u s e = (waiting u s + ended u e)%nat.
Proof. intros; unfold places, waiting, ended; lia. Qed.

Lemma ended_app : forall u a b, ended u (a ++ b) = (ended u a + ended u b)%nat.
Proof. intros; unfold ended; rewrite n_fwd_app, n_fail_app, n_cancel_app; lia. Qed.

Lemma ended_map_OFail : forall u l, ended u (map OFail l) = cnt u l.
Proof. intros; unfold ended; rewrite n_fail_map_OFail, n_fwd_map_OFail, n_cancel_map_OFail; lia. Qed.
Lemma ended_nil : forall u, ended u [] = 0%nat.
Proof. reflexivity. Qed.
Lemma ended_warn : forall u n e, ended u (OWarn n :: e) = ended u e.
Proof. reflexivity. Qed.

Lemma collect_tot_gen : forall u ts g,
  tot u (fold_left (fun g t => match relayed t with Some n => aext n [t_uid t] g | None => g end) ts g)
  = (tot u g + t_arr u ts)%nat.
Proof.
  intros u ts; induction ts as [|t ts IH]; intros g; simpl; [lia|].
  rewrite IH. destruct (relayed t) as [n|]; [|lia].
  rewrite tot_aext. simpl. lia.
Qed.

Lemma collect_tot : forall u ts, tot u (collect ts) = t_arr u ts.
Proof. intros; unfold collect; rewrite collect_tot_gen; reflexivity. Qed.

Lemma rr_counts : forall u qids us i,
  n_fwd u (rr qids i us) = cnt u us /\ n_fail u (rr qids i us) = 0%nat /\ n_cancel u (rr qids i us) = 0%nat.
Proof.
  intros u qids us; induction us as [|x us IH]; intros i; simpl; [auto|].
  destruct (IH (S i)) as [H1 [H2 H3]]. unfold n_fwd, n_fail, n_cancel in *; simpl.
  rewrite H1, H2, H3. auto.
Qed.

Lemma ended_rr : forall u qids us i, ended u (rr qids i us) = cnt u us.
Proof. intros u qids us i. destruct (rr_counts u qids us i) as [H1 [H2 H3]]. unfold ended. lia. Qed.

Lemma ended_put : forall u q us, ended u [OPut q us] = cnt u us.
Proof. intros; unfold ended, n_fwd, n_fail, n_cancel; simpl; lia. Qed.

Lemma n_cancel_rr : forall u qids us i, n_cancel u (rr qids i us) = 0%nat.
Proof. intros u qids us i. destruct (rr_counts u qids us i) as [_ [_ H]]. exact H. Qed.

(* one raptor name of a drain: what is kept, forwarded, failed or canceled is
   what was collected for it; the cancel list loses one entry per canceled task *)
Lemma fwd_group_counts : forall u qs gn bl cl n us bl' cl' o,
  fwd_group qs gn bl cl n us = (bl', cl', o) ->
  (tot u bl' + ended u o)%nat = (tot u bl + cnt u us)%nat
  /\ n_cancel u o = Nat.min (cnt u cl) (cnt u us) /\ (cnt u cl' + n_cancel u o)%nat = cnt u cl.
Proof.
  intros u qs gn bl cl n us bl' cl' o H. unfold fwd_group in H.
  destruct (sift cl us) as [[k c1] o0] eqn:Es.
  destruct (sift_spec u _ _ _ _ _ Es) as [A [B [C [D F]]]].
  assert (E0 : ended u o0 = n_cancel u o0) by (unfold ended; lia).
  destruct (is_nil k) eqn:Ek.
  - injection H as <- <- <-. destruct k; [|discriminate]. simpl in A. repeat split; lia.
  - destruct (alook n qs) as [q|].
    + injection H as <- <- <-. rewrite ended_app, ended_put, n_cancel_app.
      assert (n_cancel u [OPut q k] = 0%nat) by reflexivity. repeat split; lia.
    + destruct (negb (is_nil qs) && (n =? star)).
      * injection H as <- <- <-. rewrite ended_app, ended_rr, n_cancel_app, n_cancel_rr. repeat split; lia.
      * destruct (zmem n gn).
        -- injection H as <- <- <-. rewrite ended_app, ended_map_OFail, n_cancel_app, n_cancel_map_OFail.
           repeat split; lia.
        -- injection H as <- <- <-. rewrite tot_aext. repeat split; lia.
Qed.

Lemma fwd_groups_counts : forall u qs gn g bl cl bl' cl' o,
  fwd_groups qs gn bl cl g = (bl', cl', o) ->
  (tot u bl' + ended u o)%nat = (tot u bl + tot u g)%nat
  /\ n_cancel u o = Nat.min (cnt u cl) (tot u g) /\ (cnt u cl' + n_cancel u o)%nat = cnt u cl.
Proof.
  intros u qs gn g; induction g as [|[n us] g IH]; intros bl cl bl' cl' o H; simpl in H.
  - injection H as <- <- <-. rewrite ended_nil. simpl. unfold n_cancel; simpl. repeat split; lia.
  - destruct (fwd_group qs gn bl cl n us) as [[bl1 cl1] o1] eqn:E1.
    destruct (fwd_groups qs gn bl1 cl1 g) as [[bl2 cl2] o2] eqn:E2.
    injection H as <- <- <-.
    destruct (fwd_group_counts u _ _ _ _ _ _ _ _ _ E1) as [A1 [A2 A3]].
    destruct (IH _ _ _ _ _ E2) as [B1 [B2 B3]].
    rewrite ended_app, n_cancel_app. simpl. repeat split; lia.
Qed.

Lemma cancel_walk_counts : forall u us bl bl' c,
  cancel_walk us bl = (bl', c) -> (tot u bl' + cnt u c)%nat = tot u bl.
Proof.
  intros u us bl; induction bl as [|[n l] bl IH]; intros bl' c H; simpl in H.
  - injection H as <- <-. reflexivity.
  - destruct (cancel_walk us bl) as [r' c'] eqn:E. injection H as <- <-.
    specialize (IH _ _ eq_refl). simpl. rewrite cnt_app, strike_matches.
    pose proof (cnt_filter_split u (fun x => zmem x us) l) as Hs. unfold matches. lia.
Qed.

Lemma n_inq_arrive : forall u s b,
  n_inq u (mkS (inq s ++ [b]) (queues s) (backlog s) (clist s) (gone s)) = (n_inq u s + t_arr u b)%nat.
Proof.
  intros. unfold n_inq. simpl. rewrite concat_app, t_arr_app. simpl. rewrite app_nil_r. reflexivity.
Qed.

Lemma sched_tail_counts : forall u ts,
  ended u (if is_nil (normal ts) then [] else [OSched (normal ts)]) = 0%nat.
Proof. intros; destruct (is_nil (normal ts)); reflexivity. Qed.

(* one operation: what waits afterwards plus what the operation ended is what
   waited before plus what arrived *)
Lemma step_conserve : forall u s o s' e,
  step s o = (s', e) -> (waiting u s' + ended u e)%nat = (waiting u s + t_arr u (arrivals o))%nat.
Proof.
  intros u s o s' e H. destruct o as [b| |n q|n|us]; simpl in H.
  - injection H as <- <-. unfold waiting. rewrite n_inq_arrive. simpl. unfold ended, n_fwd, n_fail, n_cancel; simpl. lia.
  - unfold drain in H.
    destruct (fwd_groups (queues s) (gone s) (backlog s) (clist s) (collect (concat (inq s)))) as [[bl cl] o] eqn:E.
    injection H as <- <-.
    destruct (fwd_groups_counts u _ _ _ _ _ _ _ _ E) as [A1 _].
    rewrite collect_tot in A1. rewrite ended_app, sched_tail_counts.
    unfold waiting, n_inq. simpl. unfold n_inq in A1. lia.
  - unfold register in H.
    unfold relay_key in H.
    destruct (alook n (backlog s)) as [l1|] eqn:E1.
    + destruct (alook star (adel n (backlog s))) as [l2|] eqn:E2; injection H as <- <-;
        pose proof (tot_look_del u _ _ _ E1) as T1;
        try pose proof (tot_look_del u _ _ _ E2) as T2;
        unfold waiting, ended, n_inq, n_fwd, n_fail, n_cancel; simpl; lia.
    + destruct (alook star (backlog s)) as [l2|] eqn:E2; injection H as <- <-;
        try pose proof (tot_look_del u _ _ _ E2) as T2;
        unfold waiting, ended, n_inq, n_fwd, n_fail, n_cancel; simpl; lia.
  - unfold unregister in H.
    destruct (alook n (queues s)); destruct (alook n (backlog s)) as [l|] eqn:E; injection H as <- <-;
      try pose proof (tot_look_del u _ _ _ E) as T1;
      rewrite ?ended_app, ?ended_warn, ?ended_map_OFail, ?ended_nil; unfold waiting, n_inq; simpl; lia.
  - unfold cancel in H. destruct (cancel_walk us (backlog s)) as [bl c] eqn:E.
    injection H as <- <-. pose proof (cancel_walk_counts u _ _ _ _ E) as T.
    unfold waiting, ended, n_inq, n_fwd, n_fail, n_cancel; simpl. lia.
Qed.

Lemma run_app : forall a b s,
  run s (a ++ b) = let '(s1, o1) := run s a in let '(s2, o2) := run s1 b in (s2, o1 ++ o2).
Proof.
  intros a; induction a as [|o a IH]; intros b s; simpl.
  - destruct (run s b); reflexivity.
  - destruct (step s o) as [s1 o1]. rewrite IH.
    destruct (run s1 a) as [s2 o2]. destruct (run s2 b) as [s3 o3]. rewrite app_assoc. reflexivity.
Qed.

Lemma n_arr_cons : forall u o ops, n_arr u (o :: ops) = (t_arr u (arrivals o) + n_arr u ops)%nat.
Proof. intros; unfold n_arr, all_arrivals; simpl; rewrite t_arr_app; reflexivity. Qed.

Lemma n_arr_app : forall u a b, n_arr u (a ++ b) = (n_arr u a + n_arr u b)%nat.
Proof. intros; unfold n_arr, all_arrivals; rewrite flat_map_app, t_arr_app; reflexivity. Qed.

Lemma run_conserve : forall u ops s s' e,
  run s ops = (s', e) -> (waiting u s' + ended u e)%nat = (waiting u s + n_arr u ops)%nat.
Proof.
  intros u ops; induction ops as [|o ops IH]; intros s s' e H; simpl in H.
  - injection H as <- <-. rewrite ended_nil. unfold n_arr; simpl. lia.
  - destruct (step s o) as [s1 o1] eqn:E1. destruct (run s1 ops) as [s2 o2] eqn:E2.
    injection H as <- <-. pose proof (step_conserve u _ _ _ _ E1). pose proof (IH _ _ _ E2).
    rewrite ended_app, n_arr_cons. lia.
Qed.

(* THE conservation law: for every history and every uid, at the end of the
   history (that is: at every moment) the raptor tasks with that uid that have
   arrived are, counted with multiplicity, on the scheduler queue, in a
   backlog, forwarded, failed or canceled -- none is lost, none is doubled *)
Theorem conservation : forall ops u s e,
  run init ops = (s, e) -> n_arr u ops = places u s e.
Proof.
  intros ops u s e H. rewrite places_split. pose proof (run_conserve u _ _ _ _ H) as C.
  unfold waiting at 2 in C. unfold n_inq in C. simpl in C. lia.
Qed.

(* a uid that arrived once is in exactly one place, once *)
Definition one_place (u : Z) (s : state) (e : list out) : Prop :=
  let l := [n_inq u s; tot u (backlog s); n_fwd u e; n_fail u e; n_cancel u e] in
  exists a b, l = a ++ 1%nat :: b /\ Forall (fun x => x = 0%nat) (a ++ b).

Lemma one_of_five : forall a b c d f : nat, (a + b + c + d + f = 1)%nat ->
  exists x y, [a; b; c; d; f] = x ++ 1%nat :: y /\ Forall (fun z => z = 0%nat) (x ++ y).
Proof.
  intros a b c d f H.
  destruct (Nat.eq_dec a 1) as [->|Ha]; [exists [], [b; c; d; f]; split; [reflexivity | repeat constructor; lia]|].
  destruct (Nat.eq_dec b 1) as [->|Hb]; [exists [a], [c; d; f]; split; [reflexivity | repeat constructor; lia]|].
  destruct (Nat.eq_dec c 1) as [->|Hc]; [exists [a; b], [d; f]; split; [reflexivity | repeat constructor; lia]|].
  destruct (Nat.eq_dec d 1) as [->|Hd]; [exists [a; b; c], [f]; split; [reflexivity | repeat constructor; lia]|].
  exists [a; b; c; d], []. assert (f = 1%nat) by lia. subst f. split; [reflexivity | repeat constructor; lia].
Qed.

Theorem exactly_one_place : forall ops u s e,
  run init ops = (s, e) -> n_arr u ops = 1%nat -> one_place u s e.
Proof.
  intros ops u s e H H1. pose proof (conservation _ u _ _ H) as C. unfold places in C.
  unfold one_place. apply one_of_five. lia.
Qed.

Theorem never_forwarded_twice : forall ops u s e,
  run init ops = (s, e) -> (n_fwd u e <= n_arr u ops)%nat.
Proof. intros ops u s e H. pose proof (conservation _ u _ _ H) as C. unfold places in C. lia. Qed.

(* once failed or canceled, never forwarded -- neither before nor in any continuation *)
Theorem no_forward_after_final : forall ops1 ops2 u s1 e1 s2 e2,
  run init ops1 = (s1, e1) -> run s1 ops2 = (s2, e2) ->
  (n_arr u (ops1 ++ ops2) <= 1)%nat -> (0 < n_fail u e1 + n_cancel u e1)%nat ->
  n_fwd u (e1 ++ e2) = 0%nat /\ (n_fail u (e1 ++ e2) + n_cancel u (e1 ++ e2) = 1)%nat.
Proof.
  intros ops1 ops2 u s1 e1 s2 e2 H1 H2 Hle Hpos.
  assert (R : run init (ops1 ++ ops2) = (s2, e1 ++ e2)) by (rewrite run_app, H1, H2; reflexivity).
  pose proof (conservation _ u _ _ R) as C. unfold places in C.
  rewrite n_fwd_app, n_fail_app, n_cancel_app in *. lia.
Qed.

(* ------------------------------------------------------------------ *)
(* invariants of reachable states                                        *)
(* ------------------------------------------------------------------ *)
Definition absent {A} (k : Z) (l : list (Z * A)) : Prop := alook k l = None.

Record inv (s : state) : Prop := mkInv {
  inv_bkeys : NoDup (map fst (backlog s));
  inv_qkeys : NoDup (map fst (queues s));
  inv_reg   : forall n, alook n (queues s) <> None -> absent n (backlog s);
  inv_star  : queues s <> [] -> absent star (backlog s);
  inv_gone_b : forall n, In n (gone s) -> absent n (backlog s);
  inv_gone_q : forall n, In n (gone s) -> absent n (queues s)
}.

Lemma inv_init : inv init.
Proof. constructor; simpl; try constructor; intros; try reflexivity; try congruence; contradiction. Qed.

Definition bl_ok (qs : list (Z * Z)) (gn : list Z) (bl : list (Z * list Z)) : Prop :=
  NoDup (map fst bl) /\ (forall k, alook k qs <> None -> absent k bl) /\ (qs <> [] -> absent star bl)
  /\ (forall k, In k gn -> absent k bl).

Lemma fwd_group_inv : forall qs gn bl cl n us bl' cl' o,
  fwd_group qs gn bl cl n us = (bl', cl', o) -> bl_ok qs gn bl -> bl_ok qs gn bl'.
Proof.
  intros qs gn bl cl n us bl' cl' o H [Hd [Hr [Hs Hg]]]. unfold fwd_group in H.
  destruct (sift cl us) as [[k c1] o0].
  destruct (is_nil k); [injection H as <- <- <-; repeat split; assumption|].
  destruct (alook n qs) as [q|] eqn:E; [injection H as <- <- <-; repeat split; assumption|].
  destruct (negb (is_nil qs) && (n =? star)) eqn:E2; [injection H as <- <- <-; repeat split; assumption|].
  destruct (zmem n gn) eqn:E3; injection H as <- <- <-; [repeat split; assumption|].
  split; [apply keys_aext_nodup; exact Hd|]. split; [|split].
  - intros j Hj. unfold absent. rewrite alook_aext_other; [apply Hr; exact Hj|]. intros ->. congruence.
  - intros Hq. unfold absent. rewrite alook_aext_other; [apply Hs; exact Hq|].
    destruct qs; [congruence|]. simpl in E2. intros Heq. rewrite <- Heq in E2. rewrite Z.eqb_refl in E2. discriminate.
  - intros j Hj. unfold absent. rewrite alook_aext_other; [apply Hg; exact Hj|].
    intros ->. apply zmem_In in Hj. congruence.
Qed.

Lemma fwd_groups_inv : forall qs gn g bl cl bl' cl' o,
  fwd_groups qs gn bl cl g = (bl', cl', o) -> bl_ok qs gn bl -> bl_ok qs gn bl'.
Proof.
  intros qs gn g; induction g as [|[n us] g IH]; intros bl cl bl' cl' o H Hok; simpl in H.
  - injection H as <- <- <-. exact Hok.
  - destruct (fwd_group qs gn bl cl n us) as [[bl1 cl1] o1] eqn:E1.
    destruct (fwd_groups qs gn bl1 cl1 g) as [[bl2 cl2] o2] eqn:E2. injection H as <- <- <-.
    exact (IH _ _ _ _ _ E2 (fwd_group_inv _ _ _ _ _ _ _ _ _ E1 Hok)).
Qed.

Lemma In_gadd : forall k n g, In k (gadd n g) <-> k = n \/ In k g.
Proof.
  intros k n g. unfold gadd. destruct (zmem n g) eqn:E.
  - apply zmem_In in E. split; [tauto | intros [->|H]; assumption].
  - rewrite in_app_iff. simpl. split; [intros [H|[H|[]]]; auto | intros [->|H]; auto].
Qed.

Lemma In_gdel : forall k n g, In k (gdel n g) <-> k <> n /\ In k g.
Proof.
  intros k n g. unfold gdel. rewrite filter_In. split.
  - intros [H1 H2]. split; [|exact H1]. intros ->. rewrite Z.eqb_refl in H2. discriminate.
  - intros [H1 H2]. split; [exact H2|]. destruct (k =? n) eqn:E; [lia | reflexivity].
Qed.

Lemma cancel_walk_spec : forall us bl, cancel_walk us bl = (unnamed us bl, concat (map (fun p => matches us (snd p)) bl)).
Proof.
  intros us bl; induction bl as [|[n l] bl IH]; simpl; [reflexivity|].
  rewrite IH. rewrite strike_matches. reflexivity.
Qed.

Lemma unnamed_keys : forall us bl, map fst (unnamed us bl) = map fst bl.
Proof. intros; unfold unnamed; rewrite map_map; reflexivity. Qed.

Lemma unnamed_look : forall us k bl,
  alook k (unnamed us bl) = option_map (filter (fun u => negb (zmem u us))) (alook k bl).
Proof.
  intros us k bl; induction bl as [|[n l] bl IH]; simpl; [reflexivity|].
  destruct (n =? k); [reflexivity | exact IH].
Qed.

Lemma relay_key_spec : forall q k bl, NoDup (map fst bl) ->
  relay_key q k bl = (without [k] bl, match alook k bl with Some l => [OPut q l] | None => [] end).
Proof.
  intros q k bl Hd. unfold relay_key. destruct (alook k bl) as [l|] eqn:E.
  - rewrite adel_without; [reflexivity | exact Hd].
  - rewrite without_notin; [reflexivity | apply alook_none_notin; exact E].
Qed.

Lemma absent_without : forall {A} k ks (l : list (Z * A)), In k ks -> absent k (without ks l).
Proof.
  intros A k ks l H. unfold absent. apply alook_none_notin. intros HIn.
  apply in_map_iff in HIn. destruct HIn as [p [Hp HIn]]. unfold without in HIn.
  apply filter_In in HIn. destruct HIn as [_ Hf]. subst k.
  apply zmem_In in H. rewrite H in Hf. discriminate.
Qed.

Lemma absent_without_mono : forall {A} k ks (l : list (Z * A)), absent k l -> absent k (without ks l).
Proof.
  intros A k ks l H. unfold absent in *. apply alook_none_notin. apply alook_none_notin in H.
  intros HIn. apply H. apply in_map_iff in HIn. destruct HIn as [p [Hp HIn]].
  unfold without in HIn. apply filter_In in HIn. apply in_map_iff. exists p. tauto.
Qed.

Lemma look_without_other : forall {A} k ks (l : list (Z * A)), ~ In k ks -> alook k (without ks l) = alook k l.
Proof.
  intros A k ks l H; induction l as [|[m w] l IH]; unfold without in *; simpl; [reflexivity|].
  destruct (zmem m ks) eqn:E; simpl.
  - destruct (m =? k) eqn:E2; [|exact IH]. apply Z.eqb_eq in E2; subst m. apply zmem_In in E. tauto.
  - destruct (m =? k); [reflexivity | exact IH].
Qed.

Lemma step_inv : forall s o s' e, step s o = (s', e) -> inv s -> inv s'.
Proof.
  intros s o s' e H [Hb Hq Hr Hs Hgb Hgq]. destruct o as [b| |n q|n|us]; simpl in H.
  - injection H as <- <-. constructor; simpl; assumption.
  - unfold drain in H.
    destruct (fwd_groups (queues s) (gone s) (backlog s) (clist s) (collect (concat (inq s)))) as [[bl cl] o] eqn:E.
    injection H as <- <-.
    destruct (fwd_groups_inv _ _ _ _ _ _ _ _ E (conj Hb (conj Hr (conj Hs Hgb)))) as [A1 [A2 [A3 A4]]].
    constructor; simpl; assumption.
  - unfold register in H. rewrite relay_key_spec in H by exact Hb.
    rewrite relay_key_spec in H by (apply keys_without_nodup; exact Hb).
    injection H as <- <-. rewrite without_without. constructor; simpl.
    + apply keys_without_nodup; exact Hb.
    + apply keys_aset_nodup; exact Hq.
    + intros k Hk. rewrite alook_aset in Hk. destruct (n =? k) eqn:E.
      * apply Z.eqb_eq in E; subst k. apply absent_without. left; reflexivity.
      * apply absent_without_mono. apply Hr. exact Hk.
    + intros _. apply absent_without. right; left; reflexivity.
    + intros k Hk. apply In_gdel in Hk. apply absent_without_mono. apply Hgb. tauto.
    + intros k Hk. apply In_gdel in Hk. unfold absent. rewrite alook_aset.
      destruct (n =? k) eqn:E; [lia | apply Hgq; tauto].
  - unfold unregister in H.
    assert (Hb' : forall bl o, (match alook n (backlog s) with
                                | Some us => (adel n (backlog s), map OFail us)
                                | None => (backlog s, [])
                                end) = (bl, o) ->
                  NoDup (map fst bl) /\ (forall k, absent k (backlog s) -> absent k bl) /\ absent n bl).
    { intros bl o Hm. destruct (alook n (backlog s)) eqn:En; injection Hm as <- <-.
      - split; [apply keys_adel_nodup; exact Hb|]. split; [intros k Hk; apply alook_adel_none; exact Hk|].
        apply alook_adel_same; exact Hb.
      - auto. }
    destruct (match alook n (backlog s) with
              | Some us => (adel n (backlog s), map OFail us) | None => (backlog s, []) end) as [bl o2] eqn:E2.
    destruct (Hb' _ _ eq_refl) as [B1 [B2 B3]].
    assert (Hq' : forall qs o, (match alook n (queues s) with
                                | None => (queues s, [OWarn n]) | Some _ => (adel n (queues s), []) end) = (qs, o) ->
                  NoDup (map fst qs) /\ (forall k, alook k qs <> None -> alook k (queues s) <> None)
                  /\ absent n qs /\ (qs <> [] -> queues s <> [])).
    { intros qs o Hm. destruct (alook n (queues s)) eqn:En; injection Hm as <- <-.
      - split; [apply keys_adel_nodup; exact Hq|]. split; [intros k Hk; eapply alook_adel_some; exact Hk|].
        split; [apply alook_adel_same; exact Hq|]. intros Hne Hnil. rewrite Hnil in Hne. simpl in Hne. congruence.
      - auto. }
    destruct (match alook n (queues s) with
              | None => (queues s, [OWarn n]) | Some _ => (adel n (queues s), []) end) as [qs o1] eqn:E1.
    destruct (Hq' _ _ eq_refl) as [Q1 [Q2 [Q3 Q4]]].
    injection H as <- <-. constructor; simpl; auto.
    + intros k Hk. apply In_gadd in Hk. destruct Hk as [->|Hk]; [exact B3 | apply B2; apply Hgb; exact Hk].
    + intros k Hk. apply In_gadd in Hk. destruct Hk as [->|Hk]; [exact Q3|].
      unfold absent. destruct (alook k qs) eqn:Ek; [|reflexivity].
      exfalso. assert (alook k qs <> None) by congruence. apply Q2 in H. apply H. apply Hgq. exact Hk.
  - unfold cancel in H. rewrite cancel_walk_spec in H. injection H as <- <-.
    constructor; simpl.
    + rewrite unnamed_keys; exact Hb.
    + exact Hq.
    + intros k Hk. unfold absent. rewrite unnamed_look. rewrite (Hr k Hk). reflexivity.
    + intros Hne. unfold absent. rewrite unnamed_look. rewrite (Hs Hne). reflexivity.
    + intros k Hk. unfold absent. rewrite unnamed_look. rewrite (Hgb k Hk). reflexivity.
    + exact Hgq.
Qed.

Lemma run_inv : forall ops s s' e, run s ops = (s', e) -> inv s -> inv s'.
Proof.
  intros ops; induction ops as [|o ops IH]; intros s s' e H Hi; simpl in H.
  - injection H as <- <-. exact Hi.
  - destruct (step s o) as [s1 o1] eqn:E1. destruct (run s1 ops) as [s2 o2] eqn:E2.
    injection H as <- <-. eapply IH; [exact E2 | eapply step_inv; eauto].
Qed.

(* nobody waits for a queue that is registered: in every reachable state a
   registered name has no backlog, and there is no wildcard backlog while any
   queue is registered; the keys of both dicts are unique *)
Theorem reachable_inv : forall ops s e, run init ops = (s, e) -> inv s.
Proof. intros ops s e H. eapply run_inv; [exact H | exact inv_init]. Qed.

(* ------------------------------------------------------------------ *)
(* what the control operations do                                        *)
(* ------------------------------------------------------------------ *)
(* Register: the complete backlog of the name, then the complete backlog of
   the wildcard, each in one put to the NEW queue; nothing of them is left;
   every other backlog and the scheduler queue are untouched *)
Theorem register_relays_all : forall s n q, inv s ->
  let '(s', e) := step s (Register n q) in
  e = (match alook n (backlog s) with Some l => [OPut q l] | None => [] end)
      ++ (if n =? star then [] else match alook star (backlog s) with Some l => [OPut q l] | None => [] end)
  /\ backlog s' = without [n; star] (backlog s)
  /\ absent n (backlog s') /\ absent star (backlog s')
  /\ (forall k, k <> n -> k <> star -> alook k (backlog s') = alook k (backlog s))
  /\ inq s' = inq s /\ alook n (queues s') = Some q
  /\ gone s' = gdel n (gone s) /\ clist s' = clist s.
Proof.
  intros s n q [Hb Hq Hr Hs _ _]. simpl. unfold register.
  rewrite relay_key_spec by exact Hb.
  rewrite relay_key_spec by (apply keys_without_nodup; exact Hb).
  rewrite without_without. simpl. repeat split.
  - f_equal. destruct (n =? star) eqn:E.
    + apply Z.eqb_eq in E; subst n.
      rewrite (absent_without star [star] (backlog s)); [reflexivity | left; reflexivity].
    + rewrite look_without_other; [reflexivity|]. simpl. intros [H|[]]. lia.
  - apply absent_without; left; reflexivity.
  - apply absent_without; right; left; reflexivity.
  - intros k H1 H2. apply look_without_other. simpl. intros [H|[H|[]]]; congruence.
  - rewrite alook_aset, Z.eqb_refl. reflexivity.
Qed.

(* Unregister: exactly the backlog of that name fails, in order; name and
   backlog are forgotten; an unknown name only adds a warning *)
Theorem unregister_fails_exactly : forall s n, inv s ->
  let '(s', e) := step s (Unregister n) in
  e = (match alook n (queues s) with None => [OWarn n] | Some _ => [] end) ++ map OFail (key_list n (backlog s))
  /\ backlog s' = without [n] (backlog s) /\ queues s' = without [n] (queues s)
  /\ absent n (backlog s') /\ absent n (queues s')
  /\ (forall k, k <> n -> alook k (backlog s') = alook k (backlog s))
  /\ inq s' = inq s /\ gone s' = gadd n (gone s) /\ clist s' = clist s.
Proof.
  intros s n [Hb Hq Hr Hs _ _]. simpl. unfold unregister, key_list.
  assert (Q : (match alook n (queues s) with
               | None => (queues s, [OWarn n]) | Some _ => (adel n (queues s), []) end)
              = (without [n] (queues s), match alook n (queues s) with None => [OWarn n] | Some _ => [] end)).
  { destruct (alook n (queues s)) eqn:E; [rewrite adel_without by exact Hq; reflexivity|].
    rewrite without_notin; [reflexivity | apply alook_none_notin; exact E]. }
  assert (B : (match alook n (backlog s) with
               | Some us => (adel n (backlog s), map OFail us) | None => (backlog s, []) end)
              = (without [n] (backlog s), map OFail (match alook n (backlog s) with Some l => l | None => [] end))).
  { destruct (alook n (backlog s)) eqn:E; [rewrite adel_without by exact Hb; reflexivity|].
    rewrite without_notin; [reflexivity | apply alook_none_notin; exact E]. }
  rewrite Q, B. simpl. repeat split.
  - apply absent_without; left; reflexivity.
  - apply absent_without; left; reflexivity.
  - intros k Hk. apply look_without_other. simpl. intros [H|[]]. congruence.
Qed.

Lemma tot_unnamed_in : forall u us bl, In u us -> tot u (unnamed us bl) = 0%nat.
Proof.
  intros u us bl Hu. induction bl as [|[n l] bl IH]; simpl; [reflexivity|].
  rewrite IH. rewrite cnt_filter_out; [reflexivity|]. apply zmem_In in Hu. rewrite Hu. reflexivity.
Qed.
Lemma tot_unnamed_out : forall u us bl, ~ In u us -> tot u (unnamed us bl) = tot u bl.
Proof.
  intros u us bl Hu. induction bl as [|[n l] bl IH]; simpl; [reflexivity|].
  rewrite IH. rewrite cnt_filter_in; [reflexivity|].
  destruct (zmem u us) eqn:E; [apply zmem_In in E; tauto | reflexivity].
Qed.

(* Cancel: the uids are registered on the cancel list; every named uid leaves
   every backlog and is canceled as often as it waited there; tasks not named keep their place and order; nothing is
   forwarded or failed; queue and registrations are untouched *)
Theorem cancel_in_backlog : forall s us,
  let '(s', e) := step s (Cancel us) in
  backlog s' = unnamed us (backlog s) /\ inq s' = inq s /\ queues s' = queues s
  /\ clist s' = clist s ++ us /\ gone s' = gone s
  /\ (exists c, e = [OCancel c] /\ (forall u, In u c -> In u us)
                /\ forall u, In u us -> cnt u c = tot u (backlog s))
  /\ (forall u, In u us -> tot u (backlog s') = 0%nat)
  /\ (forall u, ~ In u us -> tot u (backlog s') = tot u (backlog s)).
Proof.
  intros s us. simpl. unfold cancel. rewrite cancel_walk_spec. simpl.
  pose proof (fun u => tot_unnamed_in u us (backlog s)) as Tn.
  pose proof (fun u => tot_unnamed_out u us (backlog s)) as Tk.
  repeat split; auto.
  exists (concat (map (fun p => matches us (snd p)) (backlog s))). repeat split.
  - intros u Hu. apply in_concat in Hu. destruct Hu as [l [Hl Hu]].
    apply in_map_iff in Hl. destruct Hl as [p [<- _]]. unfold matches in Hu.
    apply filter_In in Hu. apply zmem_In. tauto.
  - intros u Hu.
    pose proof (cancel_walk_counts u us (backlog s) _ _ (cancel_walk_spec us (backlog s))) as C.
    rewrite (Tn u Hu) in C. lia.
Qed.
