(* Raptor relay of the agent scheduler -- executable model.
   Source (radical.pilot, src/radical/pilot/agent/scheduler/base.py):
     work                       : puts a bulk on the scheduler queue          (Arrive)
     _schedule_incoming         : drains the queue, sorts raptor tasks out,
                                  forwards them or keeps them in the backlog  (Drain)
     control_cb, register_raptor_queue / unregister_raptor_queue / cancel_tasks
                                                     (Register / Unregister / Cancel)
   State: the bulks on the scheduler queue (only the items flagged _SCHEDULE; the
   _CANCEL items which cancel_tasks also puts there concern the wait pool, which
   is RP.Sched.Model), the registered queues self._raptor_queues (name -> queue,
   in dict order), the backlog self._raptor_tasks (name -> uids, in dict
   order; the wildcard name is a key like any other), the component's cancel
   list self._cancel_list (BaseComponent._control_cb appends the uids of every
   cancel_tasks message before it calls control_cb; is_canceled removes one
   occurrence) and the set self._raptor_gone of unregistered names.
   A task is sent to raptor when its description has a raptor_id, its mode is
   not RAPTOR_WORKER and it does not carry raptor_seen; everything else takes the
   normal scheduling path of the same drain (RP.Sched.Model), shown here as OSched.
   Dicts are association lists; a lookup finds the first entry of a key, a
   deletion removes it, an assignment replaces it in place or appends.
   Definitions only. *)
From Coq Require Import ZArith List Bool.
Import ListNotations.
Open Scope Z_scope.

Record task := mkT { t_uid : Z; t_rid : option Z; t_seen : bool; t_worker : bool }.

(* the wildcard raptor name *)
Definition star : Z := 0.

(* `if raptor_id and mode != RAPTOR_WORKER: if task.get('raptor_seen'): schedule here else to_raptor` *)
Definition relayed (t : task) : option Z :=
  match t_rid t with
  | Some n => if t_worker t then None else if t_seen t then None else Some n
  | None => None
  end.

(* ---------------- dicts ---------------- *)
Section Assoc.
Context {A : Type}.
Fixpoint alook (n : Z) (l : list (Z * A)) : option A :=
  match l with
  | [] => None
  | (m, v) :: r => if m =? n then Some v else alook n r
  end.
Fixpoint adel (n : Z) (l : list (Z * A)) : list (Z * A) :=
  match l with
  | [] => []
  | (m, v) :: r => if m =? n then r else (m, v) :: adel n r
  end.
Fixpoint aset (n : Z) (v : A) (l : list (Z * A)) : list (Z * A) :=
  match l with
  | [] => [(n, v)]
  | (m, w) :: r => if m =? n then (m, v) :: r else (m, w) :: aset n v r
  end.
End Assoc.

(* d[n] = us if n not in d else d[n] + us   (also defaultdict(list)[n].append) *)
Definition aext (n : Z) (us : list Z) (l : list (Z * list Z)) : list (Z * list Z) :=
  aset n (match alook n l with Some old => old ++ us | None => us end) l.

Definition is_nil {A} (l : list A) : bool := match l with [] => true | _ => false end.

Fixpoint zmem (u : Z) (l : list Z) : bool :=
  match l with [] => false | x :: r => (x =? u) || zmem u r end.

(* ---------------- state, operations, effects ---------------- *)
Record state := mkS {
  inq     : list (list task);       (* bulks on the scheduler queue, oldest first *)
  queues  : list (Z * Z);           (* registered raptor name -> queue (Putter) *)
  backlog : list (Z * list Z);      (* raptor name -> uids waiting for that name *)
  clist   : list Z;                 (* self._cancel_list *)
  gone    : list Z                  (* self._raptor_gone (a set: no repetitions, order immaterial) *)
}.
Definition init : state := mkS [] [] [] [] [].

Inductive op :=
| Arrive (bulk : list task)         (* work(tasks) *)
| Drain                             (* _schedule_incoming() *)
| Register (n q : Z)                (* a new Putter q is made on every registration *)
| Unregister (n : Z)
| Cancel (us : list Z).              (* _control_cb(cancel_tasks): register the uids, then control_cb *)

Inductive out :=
| OPut (q : Z) (us : list Z)        (* queue.put(list of tasks) *)
| OPut1 (q : Z) (u : Z)             (* queue.put(task) *)
| OFail (u : Z)                     (* _fail_task(task, RuntimeError('raptor gone')) *)
| OCancel (us : list Z)             (* control_cb: advance(to_cancel, CANCELED): one call, also for [] *)
| OCancel1 (u : Z)                  (* is_canceled: advance(task, CANCELED) *)
| OSched (us : list Z)              (* handled by the normal scheduling path of this drain *)
| OWarn (n : Z).                    (* unregister of an unknown name *)

(* ---------------- _schedule_incoming ---------------- *)
(* to_raptor = defaultdict(list), filled over ALL bulks pulled in this drain *)
Definition collect (ts : list task) : list (Z * list Z) :=
  fold_left (fun g t => match relayed t with Some n => aext n [t_uid t] g | None => g end) ts [].

Definition normal (ts : list task) : list Z :=
  map t_uid (filter (fun t => match relayed t with Some _ => false | None => true end) ts).

(* round robin: names[idx % n_names] with idx the position in to_raptor['*'] *)
Fixpoint rr (qids : list Z) (idx : nat) (us : list Z) : list out :=
  match us with
  | [] => []
  | u :: r => OPut1 (nth (Nat.modulo idx (length qids)) qids 0) u :: rr qids (S idx) r
  end.

(* matches = ...; remove1: list.remove *)
Fixpoint remove1 (u : Z) (l : list Z) : list Z :=
  match l with [] => [] | x :: r => if x =? u then r else x :: remove1 u r end.

(* tasks = [task for task in to_raptor[name] if self.is_canceled(task) is not True]
   is_canceled: uid not on the cancel list -> False; else advance CANCELED,
   remove ONE occurrence of the uid, True *)
Fixpoint sift (cl us : list Z) : list Z * list Z * list out :=
  match us with
  | [] => ([], cl, [])
  | u :: r =>
      if zmem u cl
      then let '(k, cl', o) := sift (remove1 u cl) r in (k, cl', OCancel1 u :: o)
      else let '(k, cl', o) := sift cl r in (u :: k, cl', o)
  end.

(* one raptor name of this drain, under the lock *)
Definition fwd_group (qs : list (Z * Z)) (gn : list Z) (bl : list (Z * list Z)) (cl : list Z) (n : Z) (us : list Z)
  : list (Z * list Z) * list Z * list out :=
  let '(k, cl', o0) := sift cl us in
  if is_nil k then (bl, cl', o0)                       (* if not tasks: continue *)
  else
    match alook n qs with
    | Some q => (bl, cl', o0 ++ [OPut q k])
    | None =>
        if negb (is_nil qs) && (n =? star)
        then (bl, cl', o0 ++ rr (map snd qs) 0 k)
        else if zmem n gn
        then (bl, cl', o0 ++ map OFail k)               (* that master unregistered: 'raptor gone' *)
        else (aext n k bl, cl', o0)
    end.

Fixpoint fwd_groups (qs : list (Z * Z)) (gn : list Z) (bl : list (Z * list Z)) (cl : list Z) (g : list (Z * list Z))
  : list (Z * list Z) * list Z * list out :=
  match g with
  | [] => (bl, cl, [])
  | (n, us) :: r =>
      let '(bl1, cl1, o1) := fwd_group qs gn bl cl n us in
      let '(bl2, cl2, o2) := fwd_groups qs gn bl1 cl1 r in
      (bl2, cl2, o1 ++ o2)
  end.

Definition drain (s : state) : state * list out :=
  let ts := concat (inq s) in
  let '(bl, cl, o) := fwd_groups (queues s) (gone s) (backlog s) (clist s) (collect ts) in
  (mkS [] (queues s) bl cl (gone s), o ++ (if is_nil (normal ts) then [] else [OSched (normal ts)])).

(* ---------------- control_cb ---------------- *)
(* `if key in self._raptor_tasks: tasks = ...; del ...; self._raptor_queues[name].put(tasks)` *)
(* set.add / set.discard *)
Definition gadd (n : Z) (g : list Z) : list Z := if zmem n g then g else g ++ [n].
Definition gdel (n : Z) (g : list Z) : list Z := filter (fun m => negb (m =? n)) g.

Definition relay_key (q k : Z) (bl : list (Z * list Z)) : list (Z * list Z) * list out :=
  match alook k bl with
  | Some us => (adel k bl, [OPut q us])
  | None => (bl, [])
  end.

Definition register (s : state) (n q : Z) : state * list out :=
  let '(b1, o1) := relay_key q n (backlog s) in
  let '(b2, o2) := relay_key q star b1 in
  (mkS (inq s) (aset n q (queues s)) b2 (clist s) (gdel n (gone s)), o1 ++ o2).

Definition unregister (s : state) (n : Z) : state * list out :=
  let '(qs, o1) := match alook n (queues s) with
                   | None => (queues s, [OWarn n])
                   | Some _ => (adel n (queues s), [])
                   end in
  let '(bl, o2) := match alook n (backlog s) with
                   | Some us => (adel n (backlog s), map OFail us)
                   | None => (backlog s, [])
                   end in
  (mkS (inq s) qs bl (clist s) (gadd n (gone s)), o1 ++ o2).

(* _control_cb: self._cancel_list += uids; then control_cb:
   matches = [t for t in backlog if t['uid'] in uids]; for task in matches: backlog.remove(task) *)
Definition matches (us l : list Z) : list Z := filter (fun u => zmem u us) l.
Definition strike (ms l : list Z) : list Z := fold_left (fun acc u => remove1 u acc) ms l.

Fixpoint cancel_walk (us : list Z) (bl : list (Z * list Z)) : list (Z * list Z) * list Z :=
  match bl with
  | [] => ([], [])
  | (n, l) :: r =>
      let ms := matches us l in
      let '(r', c) := cancel_walk us r in
      ((n, strike ms l) :: r', ms ++ c)
  end.

Definition cancel (s : state) (us : list Z) : state * list out :=
  let '(bl, c) := cancel_walk us (backlog s) in
  (mkS (inq s) (queues s) bl (clist s ++ us) (gone s), [OCancel c]).

(* ---------------- histories ---------------- *)
Definition step (s : state) (o : op) : state * list out :=
  match o with
  | Arrive b => (mkS (inq s ++ [b]) (queues s) (backlog s) (clist s) (gone s), [])
  | Drain => drain s
  | Register n q => register s n q
  | Unregister n => unregister s n
  | Cancel us => cancel s us
  end.

Fixpoint run (s : state) (ops : list op) : state * list out :=
  match ops with
  | [] => (s, [])
  | o :: r =>
      let '(s1, o1) := step s o in
      let '(s2, o2) := run s1 r in
      (s2, o1 ++ o2)
  end.

(* effects and state after every operation *)
Fixpoint trace (s : state) (ops : list op) : list (list out * state) :=
  match ops with
  | [] => []
  | o :: r => let '(s1, o1) := step s o in (o1, s1) :: trace s1 r
  end.
