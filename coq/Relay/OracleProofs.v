(* Raptor relay: every clause the harness evaluates on traces of the real code
   is true of the model's own trace, for every history. *)
From Coq Require Import ZArith List Bool Arith Lia ZifyBool.
From RP Require Import Common.Eqb Relay.Model Relay.Oracle Relay.Lemmas Relay.Proofs Relay.History.
Import ListNotations.
Open Scope Z_scope.

(* ---------------- reflexivity of the comparisons ---------------- *)
Lemma eqb_list_refl : forall {A} (e : A -> A -> bool), (forall x, e x x = true) -> forall l, eqb_list e l l = true.
Proof. intros A e H l; induction l as [|x l IH]; simpl; [reflexivity | rewrite H, IH; reflexivity]. Qed.

Lemma zl_eqb_refl : forall l, zl_eqb l l = true.
Proof. apply eqb_list_refl. apply Z.eqb_refl. Qed.

Lemma task_eqb_refl : forall t, task_eqb t t = true.
Proof.
  intros [u r s w]. unfold task_eqb; simpl. rewrite Z.eqb_refl, !eqb_reflx.
  destruct r; simpl; [rewrite Z.eqb_refl|]; reflexivity.
Qed.

Lemma inq_eqb_refl : forall l, inq_eqb l l = true.
Proof. apply eqb_list_refl. apply eqb_list_refl. apply task_eqb_refl. Qed.

Lemma qs_eqb_refl : forall l, qs_eqb l l = true.
Proof. apply eqb_list_refl. intros [a b]. unfold eqb_prod; simpl. rewrite !Z.eqb_refl. reflexivity. Qed.

Lemma bl_eqb_refl : forall l, bl_eqb l l = true.
Proof. apply eqb_list_refl. intros [a b]. unfold eqb_prod; simpl. rewrite Z.eqb_refl, zl_eqb_refl. reflexivity. Qed.

Lemma out_eqb_refl : forall o, out_eqb o o = true.
Proof. intros [q us|q v|v|us|v|us|n]; simpl; rewrite ?Z.eqb_refl, ?zl_eqb_refl; reflexivity. Qed.

Lemma outs_eqb_refl : forall l, outs_eqb l l = true.
Proof. apply eqb_list_refl. apply out_eqb_refl. Qed.

Lemma set_eqb_refl : forall l, set_eqb l l = true.
Proof.
  intros l. unfold set_eqb. assert (forallb (fun x => zmem x l) l = true).
  { apply forallb_forall. intros x Hx. apply zmem_In. exact Hx. }
  rewrite H. reflexivity.
Qed.

Lemma state_eqb_refl : forall s, state_eqb s s = true.
Proof.
  intros s. unfold state_eqb. rewrite inq_eqb_refl, qs_eqb_refl, bl_eqb_refl, zl_eqb_refl, set_eqb_refl. reflexivity.
Qed.

Lemma obs_eqb_refl : forall l, obs_eqb l l = true.
Proof.
  apply eqb_list_refl. intros [a b]. unfold eqb_prod; simpl. rewrite outs_eqb_refl, state_eqb_refl. reflexivity.
Qed.

(* ---------------- the walk over the model's own trace ---------------- *)
Definition good (s : state) (arr : list task) (acc : list out) : Prop :=
  inv s /\ forall u, t_arr u arr = places u s acc.

Lemma good_init : good init [] [].
Proof. split; [exact inv_init | intros u; reflexivity]. Qed.

Lemma good_step : forall s arr acc o s' e,
  good s arr acc -> step s o = (s', e) -> good s' (arr ++ arrivals o) (acc ++ e).
Proof.
  intros s arr acc o s' e [Hi Hc] H. split; [eapply step_inv; eauto|].
  intros u. specialize (Hc u). pose proof (step_conserve u _ _ _ _ H) as C.
  rewrite t_arr_app, places_split in *. rewrite ended_app. lia.
Qed.

Lemma gone_after_step : forall s o s' e, step s o = (s', e) -> gone s' = gone_after (gone s) o.
Proof.
  intros s o s' e H. destruct o as [b| |n q|n|us]; simpl in H.
  - injection H as <- <-. reflexivity.
  - unfold drain in H. destruct (fwd_groups _ _ _ _ _) as [[bl cl] o]. injection H as <- <-. reflexivity.
  - unfold register in H. destruct (relay_key q n (backlog s)) as [b1 o1].
    destruct (relay_key q star b1) as [b2 o2]. injection H as <- <-. reflexivity.
  - unfold unregister in H.
    destruct (alook n (queues s)); destruct (alook n (backlog s)); injection H as <- <-; reflexivity.
  - unfold cancel in H. destruct (cancel_walk us (backlog s)) as [bl c]. injection H as <- <-. reflexivity.
Qed.

Lemma walk_model : forall (c : chk),
  (forall s arr acc o s' e, good s arr acc -> step s o = (s', e) -> c (gone s) s arr acc o e s' = true) ->
  forall ops s arr acc, good s arr acc -> walk c (gone s) s arr acc ops (trace s ops) = true.
Proof.
  intros c Hc ops; induction ops as [|o ops IH]; intros s arr acc G; simpl; [reflexivity|].
  destruct (step s o) as [s1 o1] eqn:E. simpl.
  rewrite (Hc _ _ _ _ _ _ G E). simpl. rewrite <- (gone_after_step _ _ _ _ E). apply IH. eapply good_step; eauto.
Qed.

(* ---------------- the clauses, one operation ---------------- *)
Lemma place_ok : forall s arr acc o s' e, good s arr acc -> step s o = (s', e) -> chk_place (gone s) s arr acc o e s' = true.
Proof.
  intros s arr acc o s' e G H. destruct (good_step _ _ _ _ _ _ G H) as [_ C].
  unfold chk_place. apply forallb_forall. intros u _. apply Nat.eqb_eq. apply C.
Qed.

Lemma fwd_once_ok : forall s arr acc o s' e, good s arr acc -> step s o = (s', e) -> chk_fwd_once (gone s) s arr acc o e s' = true.
Proof.
  intros s arr acc o s' e G H. destruct (good_step _ _ _ _ _ _ G H) as [_ C].
  unfold chk_fwd_once. apply forallb_forall. intros u _. apply Nat.leb_le.
  specialize (C u). unfold places in C. lia.
Qed.

Lemma final_ok : forall s arr acc o s' e, good s arr acc -> step s o = (s', e) -> chk_final (gone s) s arr acc o e s' = true.
Proof.
  intros s arr acc o s' e G H. destruct (good_step _ _ _ _ _ _ G H) as [_ C].
  unfold chk_final. apply forallb_forall. intros u _. specialize (C u). unfold places in C.
  destruct (t_arr u (arr ++ arrivals o) <=? 1)%nat eqn:E; [|reflexivity].
  apply Nat.leb_le in E. apply andb_true_iff. split.
  - apply negb_true_iff. apply andb_false_iff.
    destruct (0 <? n_fwd u (acc ++ e))%nat eqn:E1; [right | left; reflexivity].
    apply Nat.ltb_lt in E1. apply Nat.ltb_ge. lia.
  - apply Nat.leb_le. lia.
Qed.

Lemma cancel_ok : forall s arr acc o s' e, good s arr acc -> step s o = (s', e) -> chk_cancel (gone s) s arr acc o e s' = true.
Proof.
  intros s arr acc o s' e G H. destruct o as [b| |n q|n|us]; try reflexivity.
  pose proof (cancel_in_backlog s us) as K. rewrite H in K.
  destruct K as [_ [_ [_ [Kc [_ [[c [-> [_ Hc]]] [Hz _]]]]]]].
  unfold chk_cancel. rewrite Kc, zl_eqb_refl, andb_true_r.
  apply forallb_forall. intros u Hu. apply andb_true_iff. split; apply Nat.eqb_eq.
  - rewrite <- (Hc u Hu). unfold n_cancel; simpl. lia.
  - apply Hz; exact Hu.
Qed.

Lemma bystander_ok : forall s arr acc o s' e, good s arr acc -> step s o = (s', e) -> chk_bystander (gone s) s arr acc o e s' = true.
Proof.
  intros s arr acc o s' e G H. destruct o as [b| |n q|n|us]; try reflexivity.
  pose proof (cancel_in_backlog s us) as K. rewrite H in K.
  destruct K as [Hb [Hi [Hq [_ [Hg [[c [-> [Hn _]]] _]]]]]].
  unfold chk_bystander. rewrite Hb, Hi, Hq, Hg, inq_eqb_refl, qs_eqb_refl, bl_eqb_refl, set_eqb_refl. simpl.
  rewrite andb_true_r. apply forallb_forall. intros u Hu. apply zmem_In. apply Hn; exact Hu.
Qed.

Lemma register_ok : forall s arr acc o s' e, good s arr acc -> step s o = (s', e) -> chk_register (gone s) s arr acc o e s' = true.
Proof.
  intros s arr acc o s' e [Hi _] H. destruct o as [b| |n q|n|us]; try reflexivity.
  pose proof (register_relays_all s n q Hi) as K. rewrite H in K.
  destruct K as [He [Hb [_ [_ [_ [Hq [Hl [Hg _]]]]]]]].
  unfold chk_register. rewrite Hb, Hq, Hl, Hg, bl_eqb_refl, inq_eqb_refl, zmem_gdel. simpl. rewrite Z.eqb_refl.
  simpl. rewrite !andb_true_r. subst e. unfold key_list.
  destruct (alook n (backlog s)) as [l1|]; destruct (n =? star);
    try (destruct (alook star (backlog s)) as [l2|]); simpl;
    rewrite ?Z.eqb_refl, ?app_nil_r, ?zl_eqb_refl; reflexivity.
Qed.

Lemma filter_nowarn_fail : forall l, filter (fun x => match x with OWarn _ => false | _ => true end) (map OFail l) = map OFail l.
Proof. intros l; induction l as [|x l IH]; simpl; [reflexivity | rewrite IH; reflexivity]. Qed.

Lemma unregister_ok : forall s arr acc o s' e, good s arr acc -> step s o = (s', e) -> chk_unregister (gone s) s arr acc o e s' = true.
Proof.
  intros s arr acc o s' e [Hi _] H. destruct o as [b| |n q|n|us]; try reflexivity.
  pose proof (unregister_fails_exactly s n Hi) as K. rewrite H in K.
  destruct K as [He [Hb [Hq [_ [_ [_ [Hinq [Hg _]]]]]]]].
  unfold chk_unregister. rewrite Hb, Hq, Hinq, Hg, bl_eqb_refl, qs_eqb_refl, inq_eqb_refl, zmem_gadd, Z.eqb_refl. subst e.
  rewrite filter_app, filter_nowarn_fail.
  destruct (alook n (queues s)); simpl; rewrite outs_eqb_refl; reflexivity.
Qed.

Lemma rr_no_sched : forall qids us i,
  flat_map (fun x => match x with OSched us => us | _ => [] end) (rr qids i us) = [].
Proof. intros qids us; induction us as [|x us IH]; intros i; simpl; [reflexivity | apply IH]. Qed.

Definition scheds (o : list out) : list Z := flat_map (fun x => match x with OSched us => us | _ => [] end) o.

Lemma sift_no_sched : forall us cl k cl' o, sift cl us = (k, cl', o) -> scheds o = [].
Proof.
  intros us; induction us as [|x us IH]; intros cl k cl' o H; simpl in H.
  - injection H as <- <- <-. reflexivity.
  - destruct (zmem x cl).
    + destruct (sift (remove1 x cl) us) as [[k1 c1] o1] eqn:E1. injection H as <- <- <-. simpl. eapply IH; eauto.
    + destruct (sift cl us) as [[k1 c1] o1] eqn:E1. injection H as <- <- <-. eapply IH; eauto.
Qed.

Lemma scheds_map_OFail : forall l, scheds (map OFail l) = [].
Proof. intros l; induction l as [|x l IH]; simpl; [reflexivity | exact IH]. Qed.

Lemma fwd_groups_no_sched : forall qs gn g bl cl bl' cl' o,
  fwd_groups qs gn bl cl g = (bl', cl', o) -> scheds o = [].
Proof.
  intros qs gn g; induction g as [|[n us] g IH]; intros bl cl bl' cl' o H; simpl in H.
  - injection H as <- <- <-. reflexivity.
  - destruct (fwd_group qs gn bl cl n us) as [[bl1 cl1] o1] eqn:E1.
    destruct (fwd_groups qs gn bl1 cl1 g) as [[bl2 cl2] o2] eqn:E2.
    injection H as <- <- <-. unfold scheds in *. rewrite flat_map_app, (IH _ _ _ _ _ E2), app_nil_r.
    unfold fwd_group in E1. destruct (sift cl us) as [[k c1] o0] eqn:Es.
    pose proof (sift_no_sched _ _ _ _ _ Es) as S0. unfold scheds in S0.
    destruct (is_nil k); [injection E1 as <- <- <-; exact S0|].
    destruct (alook n qs); [injection E1 as <- <- <-; rewrite flat_map_app, S0; reflexivity|].
    destruct (negb (is_nil qs) && (n =? star));
      [injection E1 as <- <- <-; rewrite flat_map_app, S0; apply rr_no_sched|].
    destruct (zmem n gn); injection E1 as <- <- <-; [|exact S0].
    rewrite flat_map_app, S0. apply scheds_map_OFail.
Qed.

Lemma no_sched_map_OFail : forall l, forallb (fun x => match x with OSched _ => false | _ => true end) (map OFail l) = true.
Proof. intros l; induction l as [|x l IH]; simpl; [reflexivity | exact IH]. Qed.

Lemma sched_ok : forall s arr acc o s' e, good s arr acc -> step s o = (s', e) -> chk_sched (gone s) s arr acc o e s' = true.
Proof.
  intros s arr acc o s' e _ H. destruct o as [b| |n q|n|us]; simpl in H.
  - injection H as <- <-. reflexivity.
  - unfold drain in H.
    destruct (fwd_groups (queues s) (gone s) (backlog s) (clist s) (collect (concat (inq s)))) as [[bl cl] o] eqn:E.
    injection H as <- <-. unfold chk_sched. simpl. rewrite qs_eqb_refl, andb_true_r.
    pose proof (fwd_groups_no_sched _ _ _ _ _ _ _ _ E) as NS. unfold scheds in NS.
    rewrite flat_map_app, NS. simpl.
    destruct (normal (concat (inq s))) eqn:En; simpl; [reflexivity|].
    rewrite app_nil_r. apply (zl_eqb_refl (z :: l)).
  - unfold register, relay_key in H.
    destruct (alook n (backlog s)).
    + destruct (alook star (adel n (backlog s))); injection H as <- <-; reflexivity.
    + destruct (alook star (backlog s)); injection H as <- <-; reflexivity.
  - unfold unregister in H.
    destruct (alook n (queues s)); destruct (alook n (backlog s)); injection H as <- <-; simpl;
      try reflexivity; apply no_sched_map_OFail.
  - unfold cancel in H. destruct (cancel_walk us (backlog s)). injection H as <- <-. reflexivity.
Qed.

Lemma inv_no_wait : forall s, inv s -> no_wait s = true.
Proof.
  intros s [Hb Hq Hr Hs _ _]. unfold no_wait. apply andb_true_iff. split.
  - apply forallb_forall. intros [n q] Hin. simpl.
    assert (alook n (queues s) <> None).
    { intros Hn. apply alook_none_notin in Hn. apply Hn. apply in_map_iff. exists (n, q). auto. }
    rewrite (Hr n H). reflexivity.
  - destruct (queues s) eqn:E; [reflexivity|]. simpl. rewrite Hs; [reflexivity | congruence].
Qed.

Lemma nowait_ok : forall s arr acc o s' e, good s arr acc -> step s o = (s', e) -> chk_nowait (gone s) s arr acc o e s' = true.
Proof. intros s arr acc o s' e [Hi _] H. apply inv_no_wait. eapply step_inv; eauto. Qed.

Lemma inv_no_wait_gone : forall s, inv s -> no_wait_gone (gone s) s = true.
Proof.
  intros s [_ _ _ _ Hgb Hgq]. unfold no_wait_gone. apply forallb_forall. intros n Hn.
  rewrite (Hgb n Hn), (Hgq n Hn). reflexivity.
Qed.

Lemma nowait_gone_ok : forall s arr acc o s' e, good s arr acc -> step s o = (s', e) -> chk_nowait_gone (gone s) s arr acc o e s' = true.
Proof.
  intros s arr acc o s' e [Hi _] H. unfold chk_nowait_gone. rewrite <- (gone_after_step _ _ _ _ H).
  apply inv_no_wait_gone. eapply step_inv; eauto.
Qed.

Lemma cancel_queue_ok : forall s arr acc o s' e, good s arr acc -> step s o = (s', e) -> chk_cancel_queue (gone s) s arr acc o e s' = true.
Proof.
  intros s arr acc o s' e [Hi _] H. destruct o as [b| |n q|n|us]; unfold chk_cancel_queue.
  - simpl in H. injection H as <- <-. apply zl_eqb_refl.
  - simpl in H. unfold drain in H.
    destruct (fwd_groups (queues s) (gone s) (backlog s) (clist s) (collect (concat (inq s)))) as [[bl cl] o] eqn:E.
    injection H as <- <-. apply forallb_forall. intros u _.
    destruct (fwd_groups_counts u _ _ _ _ _ _ _ _ E) as [_ [A2 A3]]. rewrite collect_tot in A2.
    pose proof (sched_tail_counts u (concat (inq s))) as T. unfold ended in T.
    simpl. rewrite n_cancel_app. unfold n_inq.
    apply andb_true_iff. split; apply Nat.eqb_eq; lia.
  - pose proof (register_relays_all s n q Hi) as K. rewrite H in K.
    destruct K as [_ [_ [_ [_ [_ [_ [_ [_ Hc]]]]]]]]. rewrite Hc. apply zl_eqb_refl.
  - pose proof (unregister_fails_exactly s n Hi) as K. rewrite H in K.
    destruct K as [_ [_ [_ [_ [_ [_ [_ [_ Hc]]]]]]]]. rewrite Hc. apply zl_eqb_refl.
  - reflexivity.
Qed.

(* for every history: the model's trace agrees with itself and satisfies every clause *)
Theorem clauses_hold_in_model : forall ops, forallb (fun b => b) (relay_row ops (trace init ops)) = true.
Proof.
  intros ops. unfold relay_row, clause_checks. cbn [map app forallb].
  rewrite obs_eqb_refl. change (@nil Z) with (gone init).
  rewrite (walk_model _ fwd_once_ok ops init [] [] good_init).
  rewrite (walk_model _ place_ok ops init [] [] good_init).
  rewrite (walk_model _ final_ok ops init [] [] good_init).
  rewrite (walk_model _ cancel_ok ops init [] [] good_init).
  rewrite (walk_model _ bystander_ok ops init [] [] good_init).
  rewrite (walk_model _ register_ok ops init [] [] good_init).
  rewrite (walk_model _ unregister_ok ops init [] [] good_init).
  rewrite (walk_model _ sched_ok ops init [] [] good_init).
  rewrite (walk_model _ nowait_ok ops init [] [] good_init).
  rewrite (walk_model _ cancel_queue_ok ops init [] [] good_init).
  rewrite (walk_model _ nowait_gone_ok ops init [] [] good_init).
  reflexivity.
Qed.

(* the two-thread row: an outcome that is the model's answer for `a` then the
   drain is accepted as linearizable *)
Theorem lin_accepts_sequential : forall s a,
  let '(e1, e2, s2) := seq2 s a Drain in lin_ok s a e1 e2 s2 = true.
Proof.
  intros s a. unfold lin_ok. destruct (seq2 s a Drain) as [[e1 e2] s2] eqn:E.
  rewrite !outs_eqb_refl, state_eqb_refl. reflexivity.
Qed.
