(* AppSlots -- Node.allocate_slot(slot, _check=True) with a slot made by the application (not by find_slot):
   what the consistency check of the code guarantees.  For ANY slot with non-negative indices and occupations
   -- also one naming a core or GPU more than once -- the call either raises and leaves the node as it was, or
   adds exactly the slot to the node and every core / GPU occupation stays within FREE .. BUSY, lfs / mem
   stay >= 0.  (Before the repository fix the check looked at every entry on its own: a slot naming core 0
   twice with 40/64 each passed and the core ended at 80/64 -- replays/fixed/C01-app-alloc-check-duplicate-index.json,
   corpus/AppSlots/alloc-check-duplicate-index.json; allocate_checked_duplicate_refused is that input now.) *)
From Coq Require Import ZArith List Bool String Lia.
From RP Require Import AppSlots.Model AppSlots.Oracle AppSlots.Lists AppSlots.NodeProofs.
Import ListNotations.
Open Scope Z_scope.

Definition ro_wf (l : list (Z * Z)) : Prop := Forall (fun p => 0 <= fst p /\ 0 <= snd p) l.

(* what a passed check says: every entry names a usable resource, and what the node holds there plus what the
   whole slot asks of it stays within BUSY *)
Lemma check_from_spec cs : forall l seen,
  (forall p o, nth_error cs p = Some (Some o) -> o + seen_at (Z.of_nat p) seen <= BUSY) ->
  ro_wf l -> check_list_from seen cs l = None ->
  ro_fit cs l /\
  (forall p o, nth_error cs p = Some (Some o) -> o + seen_at (Z.of_nat p) seen + sum_at (Z.of_nat p) l <= BUSY).
Proof.
  induction l as [|[i d] l IH]; intros seen Hs Hw H.
  - split; [constructor|]. intros p o Hp. cbn [sum_at]. specialize (Hs p o Hp). lia.
  - inversion Hw as [|x l' [Hi Hd] Hw']; subst. cbn [fst snd] in *. cbn [check_list_from] in H.
    destruct (negb (i <? zlen cs)) eqn:E1; [discriminate|].
    apply negb_false_iff, Z.ltb_lt in E1.
    assert (Hp : py_pos cs i = Some (Z.to_nat i)).
    { unfold py_pos. replace ((0 <=? i) && (i <? zlen cs)) with true; [reflexivity|].
      symmetry. apply andb_true_iff. split; [apply Z.leb_le; lia|apply Z.ltb_lt; lia]. }
    rewrite Hp in H.
    destruct (nth_error cs (Z.to_nat i)) as [[o|]|] eqn:En; try discriminate.
    destruct (BUSY - o - seen_at i seen >=? d) eqn:E2; [|discriminate]. apply Z.geb_le in E2.
    assert (Hs' : forall p o', nth_error cs p = Some (Some o') -> o' + seen_at (Z.of_nat p) ((i, d) :: seen) <= BUSY).
    { intros p o' Hp'. cbn [seen_at]. destruct (i =? Z.of_nat p) eqn:E.
      - apply Z.eqb_eq in E. subst i. rewrite Nat2Z.id in En. rewrite En in Hp'. injection Hp' as <-. lia.
      - specialize (Hs p o' Hp'). lia. }
    destruct (IH _ Hs' Hw' H) as [A B]. split.
    + constructor; [cbn [fst]; split; [lia|exists o; exact En]|exact A].
    + intros p o' Hp'. specialize (B p o' Hp'). cbn [seen_at sum_at] in *. destruct (i =? Z.of_nat p); lia.
Qed.

(* one resource list: check passed => the allocation loop succeeds, adds exactly the list, stays bounded *)
Lemma checked_alloc_list cs l :
  bounded cs -> ro_wf l -> check_list cs l = None ->
  exists cs', alloc_list cs l = (cs', None) /\ shifted (fun j => sum_at j l) cs cs' /\ bounded cs'.
Proof.
  intros Hb Hw Hc. unfold check_list in Hc.
  assert (Hs0 : forall p o, nth_error cs p = Some (Some o) -> o + seen_at (Z.of_nat p) [] <= BUSY).
  { intros p o Hp. cbn [seen_at]. specialize (Hb p o Hp). lia. }
  destruct (check_from_spec cs l [] Hs0 Hw Hc) as [Hfit Hroom].
  destruct (alloc_list_ok l cs Hfit) as [cs' [Ha Hs]]. exists cs'. split; [exact Ha|split; [exact Hs|]].
  intros p o' Hp. rewrite (Hs p) in Hp.
  destruct (nth_error cs p) as [[o|]|] eqn:En; try discriminate. injection Hp as <-.
  pose proof (Hb p o En) as Hbo.
  assert (Hnn : 0 <= sum_at (Z.of_nat p) l).
  { apply sum_at_nonneg. unfold ro_wf in Hw. rewrite Forall_forall in *. intros q Hq. apply (Hw q Hq). }
  specialize (Hroom p o En). cbn [seen_at] in Hroom. lia.
Qed.

Definition amount_bounded (a : option Z) : Prop := match a with Some x => 0 <= x | None => True end.

Definition node_bounded (nd : node) : Prop :=
  bounded (nd_cores nd) /\ bounded (nd_gpus nd) /\ amount_bounded (nd_lfs nd) /\ amount_bounded (nd_mem nd).

Definition slot_wf (s : slot) : Prop :=
  ro_wf (s_cores s) /\ ro_wf (s_gpus s) /\ 0 <= s_lfs s /\ 0 <= s_mem s.

Lemma check_amount_spec have want :
  0 <= want -> check_amount have want = None ->
  amount_bounded (match have with Some l => Some (l - want) | None => None end) \/ want = 0.
Proof.
  unfold check_amount. intros Hw H. destruct (want =? 0) eqn:E; [right; apply Z.eqb_eq; exact E|].
  destruct have as [h|]; [|discriminate]. destruct (h >=? want) eqn:E2; [|discriminate].
  left. cbn. apply Z.geb_le in E2. lia.
Qed.

(* the node after a checked allocation of a well-formed application slot *)
Theorem allocate_checked_sound nd s nd' :
  node_bounded nd -> slot_wf s -> allocate_slot nd s = (nd', None) ->
  node_bounded nd' /\
  nd_index nd' = nd_index nd /\ nd_name nd' = nd_name nd /\
  shifted (fun j => sum_at j (s_cores s)) (nd_cores nd) (nd_cores nd') /\
  shifted (fun j => sum_at j (s_gpus s)) (nd_gpus nd) (nd_gpus nd') /\
  nd_lfs nd' = match nd_lfs nd with Some l => Some (l - s_lfs s) | None => None end /\
  nd_mem nd' = match nd_mem nd with Some m => Some (m - s_mem s) | None => None end.
Proof.
  intros (Hbc & Hbg & Hbl & Hbm) (Hwc & Hwg & Hl & Hm) H. unfold allocate_slot in H.
  destruct (negb (nd_index nd =? s_nidx s)); [discriminate|].
  destruct (negb (String.eqb (nd_name nd) (s_name s))); [discriminate|].
  destruct (check_list (nd_cores nd) (s_cores s)) eqn:Ec; [discriminate|].
  destruct (check_list (nd_gpus nd) (s_gpus s)) eqn:Eg; [discriminate|].
  destruct (check_amount (nd_lfs nd) (s_lfs s)) eqn:El; [discriminate|].
  destruct (check_amount (nd_mem nd) (s_mem s)) eqn:Em; [discriminate|].
  destruct (checked_alloc_list _ _ Hbc Hwc Ec) as (cs' & Hac & Hsc & Hbc').
  destruct (checked_alloc_list _ _ Hbg Hwg Eg) as (gs' & Hag & Hsg & Hbg').
  unfold alloc_apply in H. rewrite Hac, Hag in H. injection H as <-.
  cbn [nd_index nd_name nd_cores nd_gpus nd_lfs nd_mem].
  assert (HL : amount_bounded (match nd_lfs nd with Some l => Some (l - s_lfs s) | None => None end)).
  { destruct (check_amount_spec _ _ Hl El) as [A|E0]; [exact A|].
    rewrite E0. destruct (nd_lfs nd) as [l|]; cbn in *; [lia|exact I]. }
  assert (HM : amount_bounded (match nd_mem nd with Some m => Some (m - s_mem s) | None => None end)).
  { destruct (check_amount_spec _ _ Hm Em) as [A|E0]; [exact A|].
    rewrite E0. destruct (nd_mem nd) as [m|]; cbn in *; [lia|exact I]. }
  unfold node_bounded. cbn [nd_index nd_name nd_cores nd_gpus nd_lfs nd_mem].
  repeat split; auto.
  all: match goal with
       | H : nth_error _ _ = Some (Some _) |- _ =>
           first [apply Hbc' in H; unfold BUSY in *; lia | apply Hbg' in H; unfold BUSY in *; lia]
       end.
Qed.

(* a refused allocation leaves the node as it was: after the check nothing can fail any more *)
Theorem allocate_checked_refusal_unchanged nd s nd' e :
  node_bounded nd -> slot_wf s -> allocate_slot nd s = (nd', Some e) -> nd' = nd.
Proof.
  intros (Hbc & Hbg & _ & _) (Hwc & Hwg & _ & _) H. unfold allocate_slot in H.
  destruct (negb (nd_index nd =? s_nidx s)); [injection H as <- _; reflexivity|].
  destruct (negb (String.eqb (nd_name nd) (s_name s))); [injection H as <- _; reflexivity|].
  destruct (check_list (nd_cores nd) (s_cores s)) eqn:Ec; [injection H as <- _; reflexivity|].
  destruct (check_list (nd_gpus nd) (s_gpus s)) eqn:Eg; [injection H as <- _; reflexivity|].
  destruct (check_amount (nd_lfs nd) (s_lfs s)) eqn:El; [injection H as <- _; reflexivity|].
  destruct (check_amount (nd_mem nd) (s_mem s)) eqn:Em; [injection H as <- _; reflexivity|].
  destruct (checked_alloc_list _ _ Hbc Hwc Ec) as (cs' & Hac & _).
  destruct (checked_alloc_list _ _ Hbg Hwg Eg) as (gs' & Hag & _).
  unfold alloc_apply in H. rewrite Hac, Hag in H. discriminate H.
Qed.

(* the input that showed the defect: a slot naming core 0 twice with 40/64 each is refused, node unchanged *)
Definition dup_node : node := mkNode 0 "node0" [Some 0; Some 0] [Some 0] (Some 0) (Some 0).
Definition dup_slot : slot := mkSlot [(0, 40); (0, 40)] [] 0 0 0 "node0".
Theorem allocate_checked_duplicate_refused :
  node_bounded dup_node /\ slot_wf dup_slot /\ allocate_slot dup_node dup_slot = (dup_node, Some EAssert).
Proof.
  split; [|split].
  - assert (Hb : forall l : list (option Z), (forall x, In x l -> x = Some 0) -> bounded l).
    { intros l Hl q oo Hq. apply nth_error_In in Hq. apply Hl in Hq. injection Hq as Hq. unfold BUSY. lia. }
    unfold node_bounded, dup_node; cbn [nd_cores nd_gpus nd_lfs nd_mem].
    split; [apply Hb; cbn; intuition congruence|].
    split; [apply Hb; cbn; intuition congruence|].
    cbn. lia.
  - unfold slot_wf, ro_wf, dup_slot; cbn. repeat constructor; cbn; lia.
  - vm_compute. reflexivity.
Qed.

(* a slot naming a core twice within what is free is accepted and counted twice *)
Example allocate_checked_duplicate_within :
  allocate_slot dup_node (mkSlot [(0, 24); (0, 40)] [] 0 0 0 "node0")
  = (mkNode 0 "node0" [Some 64; Some 0] [Some 0] (Some 0) (Some 0), None).
Proof. vm_compute. reflexivity. Qed.

(* non-vacuity of the sound case: two cores at 32/64 and 64/64 on a node holding 16/64 on core 0 *)
Example allocate_checked_nonvacuous :
  let nd := mkNode 3 "n" [Some 16; Some 0; None] [Some 0] (Some 20) None in
  let s := mkSlot [(0, 32); (1, 64)] [(0, 64)] 10 0 3 "n" in
  allocate_slot nd s = (mkNode 3 "n" [Some 48; Some 64; None] [Some 64] (Some 10) None, None).
Proof. vm_compute. reflexivity. Qed.

(* ---- the same as a step of the relation "the node is its initial self plus what is held on it" ---- *)

Lemma allocate_ok_facts nd s nd' :
  node_bounded nd -> slot_wf s -> allocate_slot nd s = (nd', None) ->
  nd_index nd = s_nidx s /\ ro_fit (nd_cores nd) (s_cores s) /\ ro_fit (nd_gpus nd) (s_gpus s).
Proof.
  intros (Hbc & Hbg & _ & _) (Hwc & Hwg & _ & _) H. unfold allocate_slot in H.
  destruct (nd_index nd =? s_nidx s) eqn:Ei; [|discriminate]. apply Z.eqb_eq in Ei. cbn [negb] in H.
  destruct (negb (String.eqb (nd_name nd) (s_name s))); [discriminate|].
  destruct (check_list (nd_cores nd) (s_cores s)) eqn:Ec; [discriminate|].
  destruct (check_list (nd_gpus nd) (s_gpus s)) eqn:Eg; [discriminate|].
  assert (Hz : forall cs, bounded cs -> forall p o, nth_error cs p = Some (Some o) -> o + seen_at (Z.of_nat p) [] <= BUSY).
  { intros cs Hb p o Hp. cbn [seen_at]. specialize (Hb p o Hp). lia. }
  split; [exact Ei|]. split.
  - exact (proj1 (check_from_spec _ _ [] (Hz _ Hbc) Hwc Ec)).
  - exact (proj1 (check_from_spec _ _ [] (Hz _ Hbg) Hwg Eg)).
Qed.

Lemma ro_fit_back f a b l : shifted f a b -> ro_fit b l -> ro_fit a l.
Proof.
  intros Hs Hf. unfold ro_fit in *. eapply Forall_impl; [|exact Hf]. intros q [Hq [o Ho]]. split; [exact Hq|].
  destruct (shifted_some _ _ _ _ _ Hs Ho) as [o0 [Ho0 _]]. eauto.
Qed.

Lemma sum_at_down cs l p : ro_fit cs l -> nth_error cs p = Some None -> sum_at (Z.of_nat p) l = 0.
Proof.
  intros Hf Hp. apply sum_at_notin. intros d Hin. unfold ro_fit in Hf. rewrite Forall_forall in Hf.
  destruct (Hf _ Hin) as [_ [a Ha]]. cbn [fst] in Ha. rewrite Nat2Z.id in Ha. congruence.
Qed.

Theorem allocate_spec fc fg fl fm n0 n s n' :
  NodeRel fc fg fl fm n0 n -> slot_wf s -> allocate_slot n s = (n', None) ->
  NodeRel (fun j => fc j + sum_at j (s_cores s)) (fun j => fg j + sum_at j (s_gpus s))
          (fl + s_lfs s) (fm + s_mem s) n0 n' /\
  s_nidx s = nd_index n0 /\ ro_fit (nd_cores n0) (s_cores s) /\ ro_fit (nd_gpus n0) (s_gpus s).
Proof.
  intros HR Hw Ha.
  assert (Hnb : node_bounded n).
  { unfold node_bounded. split; [exact (nr_bc _ _ _ _ _ _ HR)|]. split; [exact (nr_bg _ _ _ _ _ _ HR)|].
    pose proof (nr_l _ _ _ _ _ _ HR) as Hl. pose proof (nr_m _ _ _ _ _ _ HR) as Hm. unfold amount_rel in *.
    split.
    - destruct (nd_lfs n0); [destruct Hl as [-> ?]; cbn; lia|rewrite Hl; exact I].
    - destruct (nd_mem n0); [destruct Hm as [-> ?]; cbn; lia|rewrite Hm; exact I]. }
  destruct (allocate_checked_sound _ _ _ Hnb Hw Ha) as ((Hbc' & Hbg' & Hbl' & Hbm') & Hi & Hn & Hsc & Hsg & Hl & Hm).
  destruct (allocate_ok_facts _ _ _ Hnb Hw Ha) as (Hid & Hfc & Hfg).
  pose proof (ro_fit_back _ _ _ _ (nr_c _ _ _ _ _ _ HR) Hfc) as Hfc0.
  pose proof (ro_fit_back _ _ _ _ (nr_g _ _ _ _ _ _ HR) Hfg) as Hfg0.
  destruct Hw as (Hwc & Hwg & Hl0 & Hm0).
  assert (Hnc : Forall (fun p => 0 <= snd p) (s_cores s)) by (eapply Forall_impl; [|exact Hwc]; intros q [_ Hq]; exact Hq).
  assert (Hng : Forall (fun p => 0 <= snd p) (s_gpus s)) by (eapply Forall_impl; [|exact Hwg]; intros q [_ Hq]; exact Hq).
  split; [|split; [rewrite <- Hid; exact (nr_idx _ _ _ _ _ _ HR)|split; assumption]].
  constructor.
  - rewrite Hi. exact (nr_idx _ _ _ _ _ _ HR).
  - rewrite Hn. exact (nr_name _ _ _ _ _ _ HR).
  - exact (shifted_comp _ _ _ _ _ (nr_c _ _ _ _ _ _ HR) Hsc).
  - exact (shifted_comp _ _ _ _ _ (nr_g _ _ _ _ _ _ HR) Hsg).
  - pose proof (nr_l _ _ _ _ _ _ HR) as Hr. unfold amount_rel in *. rewrite Hl in *.
    destruct (nd_lfs n0) as [x|].
    + destruct Hr as [Hr Hge]. rewrite Hr in *. cbn in Hbl'. split; [f_equal; lia|lia].
    + rewrite Hr. reflexivity.
  - pose proof (nr_m _ _ _ _ _ _ HR) as Hr. unfold amount_rel in *. rewrite Hm in *.
    destruct (nd_mem n0) as [x|].
    + destruct Hr as [Hr Hge]. rewrite Hr in *. cbn in Hbm'. split; [f_equal; lia|lia].
    + rewrite Hr. reflexivity.
  - exact Hbc'.
  - exact Hbg'.
  - exact (nr_b0c _ _ _ _ _ _ HR).
  - exact (nr_b0g _ _ _ _ _ _ HR).
  - intro j. pose proof (nr_fc _ _ _ _ _ _ HR j). pose proof (sum_at_nonneg _ j Hnc). lia.
  - intro j. pose proof (nr_fg _ _ _ _ _ _ HR j). pose proof (sum_at_nonneg _ j Hng). lia.
  - pose proof (nr_fl _ _ _ _ _ _ HR). lia.
  - pose proof (nr_fm _ _ _ _ _ _ HR). lia.
  - intros p Hp. rewrite (nr_dc _ _ _ _ _ _ HR p Hp), (sum_at_down _ _ _ Hfc0 Hp). lia.
  - intros p Hp. rewrite (nr_dg _ _ _ _ _ _ HR p Hp), (sum_at_down _ _ _ Hfg0 Hp). lia.
Qed.
