(* AppSlots -- one node: what find_slot / allocate / deallocate do to the
   relation "the node is its initial self plus what is held on it". *)
From Coq Require Import ZArith List Bool String Lia.
From RP Require Import AppSlots.Model AppSlots.Oracle AppSlots.Lists.
Import ListNotations.
Open Scope Z_scope.

Definition bounded (l : list (option Z)) : Prop :=
  forall p o, nth_error l p = Some (Some o) -> 0 <= o <= BUSY.

(* lfs / mem: a number that went down by what is held and is still >= 0, or not reported (None) *)
Definition amount_rel (held : Z) (a0 a : option Z) : Prop :=
  match a0 with
  | Some x => a = Some (x - held) /\ 0 <= x - held
  | None => a = None
  end.

Lemma amount_rel_functional held a0 a b : amount_rel held a0 a -> amount_rel held a0 b -> a = b.
Proof. unfold amount_rel. destruct a0; [intros [-> _] [-> _] | intros -> ->]; reflexivity. Qed.

(* taking `want` (find_slot's test passed) *)
Lemma amount_rel_take held want a0 a :
  amount_rel held a0 a -> 0 <= want ->
  match a with Some l => negb (want =? 0) && (l <? want) | None => false end = false ->
  amount_rel (held + want) a0 (match a with Some l => Some (l - want) | None => None end).
Proof.
  unfold amount_rel. destruct a0 as [x|]; [intros [-> Hge] | intros ->]; intros Hw Ht; [|reflexivity].
  split; [f_equal; lia|].
  destruct (want =? 0) eqn:E0; [apply Z.eqb_eq in E0; lia|]. cbn in Ht. apply Z.ltb_ge in Ht. lia.
Qed.

(* giving `back` back *)
Lemma amount_rel_give held held' back a0 a :
  amount_rel held a0 a -> held = held' + back -> 0 <= back ->
  amount_rel held' a0 (match a with Some l => Some (l + back) | None => None end).
Proof.
  unfold amount_rel. destruct a0 as [x|]; [intros [-> Hge] | intros ->]; intros -> Hb; [|reflexivity].
  split; [f_equal; lia | lia].
Qed.

(* fc j / fg j: what is held of core / GPU j of this node; fl, fm: of its lfs / mem *)
Record NodeRel (fc fg : Z -> Z) (fl fm : Z) (n0 n : node) : Prop := mkNR {
  nr_idx  : nd_index n = nd_index n0;
  nr_name : nd_name n = nd_name n0;
  nr_c    : shifted fc (nd_cores n0) (nd_cores n);
  nr_g    : shifted fg (nd_gpus n0) (nd_gpus n);
  nr_l    : amount_rel fl (nd_lfs n0) (nd_lfs n);
  nr_m    : amount_rel fm (nd_mem n0) (nd_mem n);
  nr_bc   : bounded (nd_cores n);
  nr_bg   : bounded (nd_gpus n);
  nr_b0c  : bounded (nd_cores n0);
  nr_b0g  : bounded (nd_gpus n0);
  nr_fc   : forall j, 0 <= fc j;
  nr_fg   : forall j, 0 <= fg j;
  nr_fl   : 0 <= fl;
  nr_fm   : 0 <= fm;
  nr_dc   : forall p, nth_error (nd_cores n0) p = Some None -> fc (Z.of_nat p) = 0;
  nr_dg   : forall p, nth_error (nd_gpus n0) p = Some None -> fg (Z.of_nat p) = 0 }.

Lemma shifted_ext f g a b : (forall j, f j = g j) -> shifted f a b -> shifted g a b.
Proof. intros H Hs p. rewrite (Hs p). destruct (nth_error a p) as [[o|]|]; auto. rewrite H. reflexivity. Qed.

Lemma shifted_comp f g a b c : shifted f a b -> shifted g b c -> shifted (fun j => f j + g j) a c.
Proof.
  intros H1 H2 p. rewrite (H2 p), (H1 p). destruct (nth_error a p) as [[o|]|]; auto.
  f_equal. f_equal. lia.
Qed.

Lemma shifted_some f a b p o : shifted f a b -> nth_error b p = Some (Some o) ->
  exists o0, nth_error a p = Some (Some o0) /\ o = o0 + f (Z.of_nat p).
Proof.
  intros H Hb. rewrite (H p) in Hb. destruct (nth_error a p) as [[o0|]|]; try discriminate.
  injection Hb as <-. eauto.
Qed.

Lemma shifted_some_l f a b p o0 : shifted f a b -> nth_error a p = Some (Some o0) ->
  nth_error b p = Some (Some (o0 + f (Z.of_nat p))).
Proof. intros H Ha. rewrite (H p), Ha. reflexivity. Qed.

Lemma shifted_functional f a b c : shifted f a b -> shifted f a c -> b = c.
Proof. intros H1 H2. apply nth_error_ext. intro p. rewrite (H1 p), (H2 p). reflexivity. Qed.

Lemma NodeRel_ext fc fg fl fm fc' fg' fl' fm' n0 n :
  (forall j, fc j = fc' j) -> (forall j, fg j = fg' j) -> fl = fl' -> fm = fm' ->
  NodeRel fc fg fl fm n0 n -> NodeRel fc' fg' fl' fm' n0 n.
Proof.
  intros Hc Hg <- <- H. destruct H. constructor; auto.
  - eapply shifted_ext; eauto.
  - eapply shifted_ext; eauto.
  - intro j. rewrite <- Hc. auto.
  - intro j. rewrite <- Hg. auto.
  - intros p Hp. rewrite <- Hc. auto.
  - intros p Hp. rewrite <- Hg. auto.
Qed.

Lemma NodeRel_functional fc fg fl fm n0 x y :
  NodeRel fc fg fl fm n0 x -> NodeRel fc fg fl fm n0 y -> x = y.
Proof.
  intros Hx Hy.
  destruct Hx as [xi xn xc xg xl xm _ _ _ _ _ _ _ _ _ _].
  destruct Hy as [yi yn yc yg yl ym _ _ _ _ _ _ _ _ _ _].
  destruct x as [a1 a2 a3 a4 a5 a6], y as [b1 b2 b3 b4 b5 b6]. cbn in *.
  assert (a3 = b3) by (eapply shifted_functional; eauto).
  assert (a4 = b4) by (eapply shifted_functional; eauto).
  assert (a5 = b5) by (eapply amount_rel_functional; eauto).
  assert (a6 = b6) by (eapply amount_rel_functional; eauto).
  congruence.
Qed.

(* ------------------------------------------------------------ Node.find_slot *)

Definition rr_ok (r : rreq) : Prop :=
  0 <= r_nc r /\ 0 <= r_co r /\ 0 <= r_ng r /\ 0 <= r_go r /\ 0 <= r_lfs r /\ 0 <= r_mem r.

(* the RO list of a slot for n resources at occupation occ out of the list cs *)
Definition ro_taken (occ n : Z) (cs : list (option Z)) (l : list (Z * Z)) : Prop :=
  Forall (takes occ cs) l /\ Incr 0 (zlen cs) l /\ zlen l = n.

Lemma pick_part occ n cs : 0 <= n ->
  let l := if n =? 0 then [] else pick occ n cs 0 [] in
  negb (n =? 0) && (zlen l <? n) = false -> ro_taken occ n cs l.
Proof.
  intros Hn l Hc. subst l. destruct (n =? 0) eqn:E.
  - apply Z.eqb_eq in E. subst n. split; [constructor | split; [exact I | reflexivity]].
  - apply Z.eqb_neq in E. cbn [negb andb] in Hc. apply Z.ltb_ge in Hc.
    destruct (pick_top occ n cs ltac:(lia)) as [H1 [H2 H3]]. split; [exact H1 | split; [exact H2 | lia]].
Qed.

Lemma takes_fit occ cs l : Forall (takes occ cs) l -> ro_fit cs l.
Proof.
  intro H. unfold ro_fit. eapply Forall_impl; [|exact H]. intros p [_ [Hp [o [Ho _]]]]. eauto.
Qed.

Lemma takes_snd occ cs l : Forall (takes occ cs) l -> Forall (fun p => snd p = occ) l.
Proof. intro H. eapply Forall_impl; [|exact H]. intros p [Hs _]. exact Hs. Qed.

(* after adding a taken list, the occupations stay within [0, BUSY] *)
Lemma bounded_after_take occ n cs l cs' :
  0 <= occ -> bounded cs -> ro_taken occ n cs l -> shifted (fun j => sum_at j l) cs cs' -> bounded cs'.
Proof.
  intros Ho Hb [HF [HI _]] Hs p o' Hp.
  destruct (shifted_some _ _ _ _ _ Hs Hp) as [o [Hcs ->]].
  pose proof (Hb _ _ Hcs) as Hbo.
  destruct (Incr_sum_cases _ _ _ occ (Z.of_nat p) HI (takes_snd _ _ _ HF)) as [H0|[H1 Hin]].
  - lia.
  - rewrite Forall_forall in HF. destruct (HF _ Hin) as [_ [_ [o2 [Ho2 Hle]]]].
    cbn [fst] in Ho2. rewrite Nat2Z.id, Hcs in Ho2. injection Ho2 as <-. lia.
Qed.

(* a list taken from the node's current entries names no entry that is DOWN in n0 *)
Lemma taken_avoids_down occ f cs0 cs l p :
  shifted f cs0 cs -> Forall (takes occ cs) l -> nth_error cs0 p = Some None -> sum_at (Z.of_nat p) l = 0.
Proof.
  intros Hs HF Hp. apply sum_at_notin. intros d Hin. rewrite Forall_forall in HF.
  destruct (HF _ Hin) as [_ [_ [o [Ho _]]]]. cbn [fst] in Ho. rewrite Nat2Z.id, (Hs p), Hp in Ho. discriminate.
Qed.

Record SlotFor (r : rreq) (n : node) (s : slot) : Prop := mkSF {
  sf_c : ro_taken (r_co r) (r_nc r) (nd_cores n) (s_cores s);
  sf_g : ro_taken (r_go r) (r_ng r) (nd_gpus n) (s_gpus s);
  sf_l : s_lfs s = r_lfs r;
  sf_m : s_mem s = r_mem r;
  sf_i : s_nidx s = nd_index n;
  sf_n : s_name s = nd_name n }.

Lemma ro_taken_nonneg occ n cs l : 0 <= occ -> ro_taken occ n cs l -> Forall (fun p => 0 <= snd p) l.
Proof.
  intros Ho [HF _]. eapply Forall_impl; [|exact HF]. intros p [Hs _]. lia.
Qed.

Theorem find_slot_spec fc fg fl fm n0 n r n' fr :
  NodeRel fc fg fl fm n0 n -> rr_ok r -> find_slot n r = (n', fr) ->
  match fr with
  | FNone => n' = n
  | FErr _ => False
  | FSlot s => SlotFor r n s /\
               NodeRel (fun j => fc j + sum_at j (s_cores s)) (fun j => fg j + sum_at j (s_gpus s))
                       (fl + s_lfs s) (fm + s_mem s) n0 n'
  end.
Proof.
  intros HR [Hnc [Hco [Hng [Hgo [Hlfs Hmem]]]]] Hf. unfold find_slot in Hf.
  set (cores := if r_nc r =? 0 then [] else pick (r_co r) (r_nc r) (nd_cores n) 0 []) in *.
  set (gpus := if r_ng r =? 0 then [] else pick (r_go r) (r_ng r) (nd_gpus n) 0 []) in *.
  destruct (negb (r_nc r =? 0) && (zlen cores <? r_nc r)) eqn:Ec; [injection Hf as <- <-; reflexivity|].
  destruct (negb (r_ng r =? 0) && (zlen gpus <? r_ng r)) eqn:Eg; [injection Hf as <- <-; reflexivity|].
  destruct HR as [Hidx Hname Hsc Hsg Hl Hm Hbc Hbg Hb0c Hb0g Hfc Hfg Hfl Hfm Hdc Hdg].
  destruct (match nd_lfs n with Some l => negb (r_lfs r =? 0) && (l <? r_lfs r) | None => false end) eqn:El;
    [injection Hf as <- <-; reflexivity|].
  destruct (match nd_mem n with Some m => negb (r_mem r =? 0) && (m <? r_mem r) | None => false end) eqn:Em;
    [injection Hf as <- <-; reflexivity|].
  pose proof (pick_part (r_co r) (r_nc r) (nd_cores n) Hnc Ec) as Htc. fold cores in Htc.
  pose proof (pick_part (r_go r) (r_ng r) (nd_gpus n) Hng Eg) as Htg. fold gpus in Htg.
  destruct (alloc_list_ok cores (nd_cores n) (takes_fit _ _ _ (proj1 Htc))) as [cs' [Hac Hshc]].
  destruct (alloc_list_ok gpus (nd_gpus n) (takes_fit _ _ _ (proj1 Htg))) as [gs' [Hag Hshg]].
  unfold alloc_apply in Hf. cbn [s_cores s_gpus s_lfs s_mem] in Hf. rewrite Hac, Hag in Hf.
  injection Hf as <- <-.
  split.
  - constructor; cbn; auto.
  - constructor; cbn [nd_index nd_name nd_cores nd_gpus nd_lfs nd_mem s_cores s_gpus s_lfs s_mem].
    + exact Hidx.
    + exact Hname.
    + exact (shifted_comp _ _ _ _ _ Hsc Hshc).
    + exact (shifted_comp _ _ _ _ _ Hsg Hshg).
    + exact (amount_rel_take _ _ _ _ Hl Hlfs El).
    + exact (amount_rel_take _ _ _ _ Hm Hmem Em).
    + exact (bounded_after_take _ _ _ _ _ Hco Hbc Htc Hshc).
    + exact (bounded_after_take _ _ _ _ _ Hgo Hbg Htg Hshg).
    + exact Hb0c.
    + exact Hb0g.
    + intro j. pose proof (Hfc j). pose proof (sum_at_nonneg cores j (ro_taken_nonneg _ _ _ _ Hco Htc)). lia.
    + intro j. pose proof (Hfg j). pose proof (sum_at_nonneg gpus j (ro_taken_nonneg _ _ _ _ Hgo Htg)). lia.
    + lia.
    + lia.
    + intros p Hp. rewrite (Hdc p Hp), (taken_avoids_down _ _ _ _ _ _ Hsc (proj1 Htc) Hp). lia.
    + intros p Hp. rewrite (Hdg p Hp), (taken_avoids_down _ _ _ _ _ _ Hsg (proj1 Htg) Hp). lia.
Qed.

(* ------------------------------------------------------ Node.deallocate_slot *)

(* giving back a slot whose entries are part of what is held *)
Theorem deallocate_spec fc fg fl fm fc' fg' fl' fm' n0 n s :
  NodeRel fc fg fl fm n0 n ->
  ro_fit (nd_cores n0) (s_cores s) -> ro_fit (nd_gpus n0) (s_gpus s) ->
  Forall (fun p => 0 <= snd p) (s_cores s) -> Forall (fun p => 0 <= snd p) (s_gpus s) ->
  0 <= s_lfs s -> 0 <= s_mem s ->
  (forall j, fc j = fc' j + sum_at j (s_cores s)) -> (forall j, fg j = fg' j + sum_at j (s_gpus s)) ->
  fl = fl' + s_lfs s -> fm = fm' + s_mem s ->
  (forall j, 0 <= fc' j) -> (forall j, 0 <= fg' j) -> 0 <= fl' -> 0 <= fm' ->
  exists n', deallocate_slot n s = (n', None) /\ NodeRel fc' fg' fl' fm' n0 n'.
Proof.
  intros HR Hfitc Hfitg Hnc Hng Hl Hm Ec Eg El Em Pc Pg Pl Pm.
  destruct HR as [Hidx Hname Hsc Hsg Hlv Hmv Hbc Hbg Hb0c Hb0g Hfc Hfg Hfl Hfm Hdc Hdg].
  assert (Hfc1 : ro_fit (nd_cores n) (s_cores s)).
  { unfold ro_fit in *. eapply Forall_impl; [|exact Hfitc]. intros p [Hp [a Ha]]. split; auto.
    rewrite (shifted_some_l _ _ _ _ _ Hsc Ha). eauto. }
  assert (Hfg1 : ro_fit (nd_gpus n) (s_gpus s)).
  { unfold ro_fit in *. eapply Forall_impl; [|exact Hfitg]. intros p [Hp [a Ha]]. split; auto.
    rewrite (shifted_some_l _ _ _ _ _ Hsg Ha). eauto. }
  destruct (dealloc_list_ok _ _ Hfc1) as [cs' [Hdc1 Hshc]].
  destruct (dealloc_list_ok _ _ Hfg1) as [gs' [Hdg1 Hshg]].
  eexists. unfold deallocate_slot. rewrite Hdc1, Hdg1. split; [reflexivity|].
  assert (Hc' : shifted fc' (nd_cores n0) cs').
  { eapply shifted_ext; [| eapply shifted_comp; [exact Hsc | exact Hshc]]. intro j. cbn. rewrite Ec. lia. }
  assert (Hg' : shifted fg' (nd_gpus n0) gs').
  { eapply shifted_ext; [| eapply shifted_comp; [exact Hsg | exact Hshg]]. intro j. cbn. rewrite Eg. lia. }
  constructor; cbn [nd_index nd_name nd_cores nd_gpus nd_lfs nd_mem].
  - exact Hidx.
  - exact Hname.
  - exact Hc'.
  - exact Hg'.
  - exact (amount_rel_give _ _ _ _ _ Hlv El Hl).
  - exact (amount_rel_give _ _ _ _ _ Hmv Em Hm).
  - intros p o Hp. destruct (shifted_some _ _ _ _ _ Hc' Hp) as [a [Ha ->]].
    pose proof (Hb0c _ _ Ha). pose proof (Pc (Z.of_nat p)).
    pose proof (Hbc _ _ (shifted_some_l _ _ _ _ _ Hsc Ha)) as Hold. rewrite Ec in Hold.
    pose proof (sum_at_nonneg _ (Z.of_nat p) Hnc). lia.
  - intros p o Hp. destruct (shifted_some _ _ _ _ _ Hg' Hp) as [a [Ha ->]].
    pose proof (Hb0g _ _ Ha). pose proof (Pg (Z.of_nat p)).
    pose proof (Hbg _ _ (shifted_some_l _ _ _ _ _ Hsg Ha)) as Hold. rewrite Eg in Hold.
    pose proof (sum_at_nonneg _ (Z.of_nat p) Hng). lia.
  - exact Hb0c.
  - exact Hb0g.
  - exact Pc.
  - exact Pg.
  - exact Pl.
  - exact Pm.
  - intros p Hp. pose proof (Hdc p Hp) as H0. rewrite Ec in H0. pose proof (Pc (Z.of_nat p)).
    pose proof (sum_at_nonneg _ (Z.of_nat p) Hnc). lia.
  - intros p Hp. pose proof (Hdg p Hp) as H0. rewrite Eg in H0. pose proof (Pg (Z.of_nat p)).
    pose proof (sum_at_nonneg _ (Z.of_nat p) Hng). lia.
Qed.
