(* AppSlots -- the theorems behind the app-side clauses of C01, C02, C03:
   over ANY sequence of find_slots / release_slots / verify / Node.find_slot /
   Node.allocate_slot(checked, application-made slot) calls of an application that gives back only what it holds, the oracle
   clauses (Oracle.judge) hold after every call. *)
From Coq Require Import ZArith List Bool String Lia.
From RP Require Import Common.Eqb AppSlots.Model AppSlots.Oracle AppSlots.Lists AppSlots.NodeProofs
                       AppSlots.Hang AppSlots.InvProofs AppSlots.AllocProofs AppSlots.AllocInv.
Import ListNotations.
Open Scope Z_scope.

(* ------------------------------------------------ from relations to booleans *)

Lemma acct_list_of f : forall l0 l j,
  (forall p, nth_error l p = match nth_error l0 p with
                             | Some (Some o) => Some (Some (o + f (j + Z.of_nat p)))
                             | x => x end) ->
  acct_list f j l0 l = true.
Proof.
  induction l0 as [|c l0 IH]; intros l j H.
  - pose proof (H O) as H0. cbn in H0. destruct l; [reflexivity | discriminate].
  - pose proof (H O) as H0. cbn in H0. destruct l as [|d l]; [destruct c; discriminate|]. cbn in H0.
    assert (Ht : acct_list f (j + 1) l0 l = true).
    { apply IH. intro p. pose proof (H (S p)) as Hp. cbn [nth_error] in Hp. rewrite Hp.
      replace (j + Z.of_nat (S p)) with (j + 1 + Z.of_nat p) by lia. reflexivity. }
    destruct c as [o|]; injection H0 as ->; cbn [acct_list].
    + rewrite Z.add_0_r, Z.eqb_refl. exact Ht.
    + exact Ht.
Qed.

Lemma fits_list_of f : forall l0 j,
  (forall p, nth_error l0 p = Some None -> f (j + Z.of_nat p) = 0) ->
  (forall p a, nth_error l0 p = Some (Some a) -> 0 <= f (j + Z.of_nat p) /\ a + f (j + Z.of_nat p) <= BUSY) ->
  fits_list f j l0 = true.
Proof.
  induction l0 as [|c l0 IH]; intros j H1 H2; [reflexivity|].
  assert (Ht : fits_list f (j + 1) l0 = true).
  { apply IH.
    - intros p Hp. replace (j + 1 + Z.of_nat p) with (j + Z.of_nat (S p)) by lia. apply H1. exact Hp.
    - intros p a Hp. replace (j + 1 + Z.of_nat p) with (j + Z.of_nat (S p)) by lia. apply H2. exact Hp. }
  cbn [fits_list]. destruct c as [a|].
  - destruct (H2 O a eq_refl) as [A B]. rewrite Z.add_0_r in A, B.
    rewrite Ht, andb_true_r. apply andb_true_iff. split; [apply Z.leb_le; exact A | apply Z.leb_le; exact B].
  - pose proof (H1 O eq_refl) as A. rewrite Z.add_0_r in A. rewrite A, Ht. reflexivity.
Qed.

Lemma within_list_of l : bounded l -> within_list l = true.
Proof.
  intro Hb. unfold within_list. apply forallb_forall. intros c Hc. destruct c as [o|]; [|reflexivity].
  destruct (In_nth_error _ _ Hc) as [p Hp]. destruct (Hb _ _ Hp) as [A B].
  apply andb_true_iff. split; apply Z.leb_le; assumption.
Qed.

Lemma amount_bools held a0 a : amount_rel held a0 a -> 0 <= held ->
  acct_amount held a0 a = true /\ within_amount a0 a = true /\ fits_amount held a0 = true.
Proof.
  unfold amount_rel, acct_amount, within_amount, fits_amount. destruct a0 as [x|].
  - intros [-> Hge] Hh. rewrite Z.eqb_refl. split; [reflexivity|].
    split; apply andb_true_iff; split; apply Z.leb_le; lia.
  - intros -> _. auto.
Qed.

Lemma NodeInv_bools h n0 n : NodeInv h n0 n ->
  acct_node h n0 n = true /\ within_node n0 n = true /\ fits_node h n0 = true.
Proof.
  intros [Hidx Hname Hsc Hsg Hl Hm Hbc Hbg Hb0c Hb0g Hfc Hfg Hfl Hfm Hdc Hdg].
  destruct (amount_bools _ _ _ Hl Hfl) as [L1 [L2 L3]]. destruct (amount_bools _ _ _ Hm Hfm) as [M1 [M2 M3]].
  split; [|split].
  - unfold acct_node. rewrite Hidx, Z.eqb_refl, Hname, String.eqb_refl, L1, M1. cbn [andb].
    rewrite !andb_true_r. apply andb_true_iff. split; apply acct_list_of; intro p.
    + rewrite (Hsc p). reflexivity.
    + rewrite (Hsg p). reflexivity.
  - unfold within_node. rewrite (within_list_of _ Hbc), (within_list_of _ Hbg), L2, M2. reflexivity.
  - unfold fits_node. rewrite L3, M3, !andb_true_r. apply andb_true_iff. split.
    + apply fits_list_of; [intros p Hp; exact (Hdc p Hp)|].
      intros p a Hp. cbn [Z.add]. split; [apply Hfc|].
      pose proof (Hbc _ _ (shifted_some_l _ _ _ _ _ Hsc Hp)). lia.
    + apply fits_list_of; [intros p Hp; exact (Hdg p Hp)|].
      intros p a Hp. cbn [Z.add]. split; [apply Hfg|].
      pose proof (Hbg _ _ (shifted_some_l _ _ _ _ _ Hsg Hp)). lia.
Qed.

Lemma Inv_account ns0 ns h : Inv ns0 ns h -> ok_account ns0 ns h = true.
Proof.
  intros [_ HF _]. unfold ok_account. eapply forallb2_of_Forall2; [|exact HF].
  intros a b H. exact (proj1 (NodeInv_bools _ _ _ H)).
Qed.

Lemma Inv_nover ns0 ns h : Inv ns0 ns h -> ok_nover ns0 ns h = true.
Proof.
  intros [_ HF _]. unfold ok_nover. apply andb_true_iff. split.
  - eapply forallb2_of_Forall2; [|exact HF]. intros a b H. exact (proj1 (proj2 (NodeInv_bools _ _ _ H))).
  - eapply forallb_of_Forall2_l; [|exact HF]. intros a b H. exact (proj2 (proj2 (NodeInv_bools _ _ _ H))).
Qed.

Lemma shape_bool ns0 r n sl : zlen sl = n -> Forall (ShapeOK ns0 r) sl -> ok_shape ns0 r n sl = true.
Proof.
  intros Hn HF. unfold ok_shape. apply andb_true_iff. split; [apply Z.eqb_eq; exact Hn|].
  apply forallb_forall. intros s Hs. rewrite Forall_forall in HF. destruct (HF _ Hs) as [n0 [Hin Hsh]].
  apply existsb_exists. exists n0. split; assumption.
Qed.

Lemma oz_eqb_refl a : oz_eqb a a = true.
Proof. destruct a; cbn; [apply Z.eqb_refl | reflexivity]. Qed.

Lemma ozl_eqb_refl l : ozl_eqb l l = true.
Proof. induction l as [|a l IH]; cbn; [reflexivity | rewrite oz_eqb_refl, IH; reflexivity]. Qed.

Lemma nodes_eqb_refl ns : nodes_eqb ns ns = true.
Proof.
  unfold nodes_eqb. induction ns as [|a ns IH]; cbn; [reflexivity|]. rewrite IH, andb_true_r.
  unfold node_eqb. rewrite Z.eqb_refl, String.eqb_refl, !ozl_eqb_refl, !oz_eqb_refl. reflexivity.
Qed.

(* ---------------------------------------------------------------- one call *)

(* calls the theorems speak about: find_slots, release_slots, verify, Node.find_slot with
   non-negative requests (NodeList._assert_rr refuses negative sizes itself) *)
Definition op_ok (o : op) : Prop :=
  match o with
  | OFind r _ => rr_ok r /\ 0 < r_co r
  | ONFind _ r => rr_ok r
  | ORelease _ | OVerify => True
  | ONAlloc _ s => slot_wf s         (* an application-made slot: non-negative indices, occupations, lfs, mem *)
  | ONDealloc _ _ => False
  end.

Definition all_true : verdict := mkV true true true true.

Theorem step_spec ns0 nl h o nl' res :
  Inv ns0 (nl_nodes nl) h -> op_ok o -> op_disciplined h o = true -> step nl o = (nl', res) ->
  Inv ns0 (nl_nodes nl') (held_after h o res) /\
  judge_step ns0 (nl_nodes nl) h o (res, nl') = all_true.
Proof.
  intros HI Hok Hd Hs. destruct o as [r n|sl| |k r|k s|k s]; cbn [op_ok] in Hok; try contradiction;
    cbn [step] in Hs; cbn [op_disciplined] in Hd.
  - (* find_slots *)
    destruct Hok as [Hr Hco].
    pose proof (find_slots_no_hang _ _ _ _ _ _ _ HI Hr Hco Hs) as Hnh.
    pose proof (find_slots_spec _ _ _ _ _ _ _ HI Hr Hs Hnh) as Hsp.
    unfold judge_step, all_true. destruct res as [sl| | |e]; cbn [held_after].
    + destruct Hsp as [HI' [Hn HS]]. split; [exact HI'|].
      rewrite (Inv_nover _ _ _ HI'), (Inv_account _ _ _ HI'), (shape_bool _ _ _ _ Hn HS). reflexivity.
    + rewrite Hsp. split; [exact HI|]. rewrite (Inv_nover _ _ _ HI), (Inv_account _ _ _ HI), nodes_eqb_refl. reflexivity.
    + rewrite Hsp. split; [exact HI|]. rewrite (Inv_nover _ _ _ HI), (Inv_account _ _ _ HI). reflexivity.
    + rewrite Hsp. split; [exact HI|]. rewrite (Inv_nover _ _ _ HI), (Inv_account _ _ _ HI), nodes_eqb_refl. reflexivity.
  - (* release_slots *)
    destruct (release_slots_spec _ _ _ _ _ _ HI Hd Hs) as [HI' [->|[-> ->]]]; unfold judge_step, all_true; cbn [held_after].
    + split; [exact HI'|]. rewrite (Inv_nover _ _ _ HI'), (Inv_account _ _ _ HI'). destruct sl; reflexivity.
    + cbn [remove_all] in HI'. split; [exact HI'|]. rewrite (Inv_nover _ _ _ HI'), (Inv_account _ _ _ HI'). reflexivity.
  - (* verify *)
    injection Hs as <- <-. unfold judge_step, all_true. cbn [held_after]. rewrite !verify_nodes. split; [exact HI|].
    rewrite (Inv_nover _ _ _ HI), (Inv_account _ _ _ HI). reflexivity.
  - (* Node.find_slot *)
    unfold judge_step, all_true.
    destruct (nth_error (nl_nodes nl) k) as [nd|] eqn:Hk.
    2:{ injection Hs as <- <-. cbn [held_after]. split; [exact HI|].
        rewrite (Inv_nover _ _ _ HI), (Inv_account _ _ _ HI), nodes_eqb_refl. reflexivity. }
    destruct (find_slot nd r) as [nd' fr] eqn:Ef.
    pose proof (Forall2_nth_r _ _ _ _ _ (inv_nodes _ _ _ HI) Hk) as [n0 [Hk0 HN]].
    pose proof (find_slot_spec _ _ _ _ _ _ _ _ _ HN Hok Ef) as Hsp.
    destruct fr as [s| |x]; [| |contradiction]; injection Hs as <- <-; cbn [held_after nl_nodes with_nodes].
    + destruct (inv_take _ _ _ _ _ _ _ _ HI Hk Hok Ef) as [HI' [n1 [Hk1 [HSF HN1]]]].
      split; [exact HI'|]. rewrite (Inv_nover _ _ _ HI'), (Inv_account _ _ _ HI').
      rewrite shape_bool; [reflexivity | reflexivity |].
      constructor; [|constructor]. exists n1. split; [eapply nth_error_In; exact Hk1 | eapply SlotFor_shape; eauto].
    + subst nd'. rewrite (upd_same _ _ _ Hk). split; [exact HI|].
      rewrite (Inv_nover _ _ _ HI), (Inv_account _ _ _ HI), nodes_eqb_refl. reflexivity.
  - (* Node.allocate_slot(_check=True) with an application-made slot *)
    unfold judge_step, all_true.
    destruct (nth_error (nl_nodes nl) k) as [nd|] eqn:Hk.
    2:{ injection Hs as <- <-. cbn [held_after]. split; [exact HI|].
        rewrite (Inv_nover _ _ _ HI), (Inv_account _ _ _ HI). reflexivity. }
    destruct (allocate_slot nd s) as [nd' [e|]] eqn:Ea; injection Hs as <- <-; cbn [held_after nl_nodes with_nodes].
    + rewrite (inv_alloc_refused _ _ _ _ _ _ _ _ HI Hk Hok Ea). split; [exact HI|].
      rewrite (Inv_nover _ _ _ HI), (Inv_account _ _ _ HI). reflexivity.
    + pose proof (inv_alloc _ _ _ _ _ _ _ HI Hk Hok Ea) as HI'. split; [exact HI'|].
      rewrite (Inv_nover _ _ _ HI'), (Inv_account _ _ _ HI'). reflexivity.
Qed.

(* ------------------------------------------------------------ any sequence *)

Lemma vand_all_true v : vand all_true v = v.
Proof. destruct v. reflexivity. Qed.

Lemma last_cons_default {A} (l : list A) a d d' : last (a :: l) d = last (a :: l) d'.
Proof. revert a. induction l as [|b l IH]; intro a; [reflexivity|]. cbn [last] in *. apply IH. Qed.

Theorem run_spec ns0 : forall ops nl h,
  Inv ns0 (nl_nodes nl) h -> Forall op_ok ops -> all_disciplined h ops (run nl ops) = true ->
  judge ns0 (nl_nodes nl) h ops (run nl ops) = all_true /\
  Inv ns0 (nl_nodes (last_nl nl (run nl ops))) (held_end h ops (run nl ops)).
Proof.
  induction ops as [|o ops IH]; intros nl h HI Hok Hd.
  - cbn. split; [reflexivity | exact HI].
  - cbn [run] in *. destruct (step nl o) as [nl' res] eqn:Es.
    cbn [all_disciplined judge held_end fst snd] in *. apply andb_true_iff in Hd as [Hd1 Hd2].
    destruct (step_spec _ _ _ _ _ _ HI (Forall_inv Hok) Hd1 Es) as [HI' Hj].
    destruct (IH _ _ HI' (Forall_inv_tail Hok) Hd2) as [Hj' HI''].
    rewrite Hj, Hj', vand_all_true. split; [reflexivity|].
    unfold last_nl in *. cbn [map snd]. destruct (run nl' ops) as [|x tr] eqn:Er; [exact HI''|].
    cbn [map] in *. change (last (nl' :: snd x :: map snd tr) nl) with (last (snd x :: map snd tr) nl).
    rewrite (last_cons_default _ _ nl nl'). exact HI''.
Qed.

(* ------------------------------------------------------------ the beginning *)

(* node lists: node ids pairwise distinct (they need not be the list positions: the agent keeps the
   ids when it drops inaccessible nodes), lfs / mem a number >= 0 or not reported (None), occupations
   FREE .. BUSY or DOWN; node names are arbitrary (they may all be equal) *)
Definition amount_ok (a : option Z) : Prop := match a with Some x => 0 <= x | None => True end.

Record wf_node (n0 : node) : Prop := mkWF {
  wf_c : bounded (nd_cores n0);
  wf_g : bounded (nd_gpus n0);
  wf_l : amount_ok (nd_lfs n0);
  wf_m : amount_ok (nd_mem n0) }.

Definition wf_nodes (ns0 : list node) : Prop := distinct_ids ns0 /\ Forall wf_node ns0.

Lemma amount_rel_init a : amount_ok a -> amount_rel 0 a a.
Proof. unfold amount_ok, amount_rel. destruct a; [intro H; rewrite Z.sub_0_r; auto | auto]. Qed.

Lemma Inv_init ns0 : wf_nodes ns0 -> Inv ns0 ns0 [].
Proof.
  intros [Hp Hw]. constructor; [exact Hp | | constructor].
  clear Hp. induction Hw as [|n0 ns0 H Hw IH]; constructor; [|exact IH].
  destruct H as [Bc Bg El Em].
  unfold NodeInv. cbn [Hc Hg Hl Hm]. constructor.
  - reflexivity.
  - reflexivity.
  - apply shifted_zero.
  - apply shifted_zero.
  - exact (amount_rel_init _ El).
  - exact (amount_rel_init _ Em).
  - exact Bc.
  - exact Bg.
  - exact Bc.
  - exact Bg.
  - intro; lia.
  - intro; lia.
  - lia.
  - lia.
  - reflexivity.
  - reflexivity.
Qed.

Lemma start_nodes ns0 b : nl_nodes (start_nl ns0 b) = ns0.
Proof. unfold start_nl. destruct b; [apply verify_nodes | reflexivity]. Qed.

(* C01 / C02 / C03, application side: all clauses after every call *)
Theorem app_clauses_hold ns0 verified ops :
  wf_nodes ns0 -> Forall op_ok ops ->
  let tr := run (start_nl ns0 verified) ops in
  all_disciplined [] ops tr = true -> judge ns0 ns0 [] ops tr = all_true.
Proof.
  intros Hw Hok tr Hd. subst tr.
  pose proof (Inv_init _ Hw) as HI. rewrite <- (start_nodes ns0 verified) in HI at 2.
  pose proof (proj1 (run_spec ns0 ops _ _ HI Hok Hd)) as H. rewrite start_nodes in H. exact H.
Qed.

(* C03: when everything has been given back the node list is the initial one *)
Theorem app_all_released_is_initial ns0 verified ops :
  wf_nodes ns0 -> Forall op_ok ops ->
  let tr := run (start_nl ns0 verified) ops in
  all_disciplined [] ops tr = true -> held_end [] ops tr = [] ->
  nl_nodes (last_nl (start_nl ns0 verified) tr) = ns0.
Proof.
  intros Hw Hok tr Hd He. subst tr.
  pose proof (Inv_init _ Hw) as HI0. pose proof HI0 as HI. rewrite <- (start_nodes ns0 verified) in HI at 2.
  pose proof (proj2 (run_spec ns0 ops _ _ HI Hok Hd)) as H. rewrite He in H.
  eapply Inv_functional; [exact H | exact HI0].
Qed.

(* ------------------------------------------------------------ per clause *)

Section Clauses.
Variables (ns0 : list node) (verified : bool) (ops : list op).
Hypothesis Hw : wf_nodes ns0.
Hypothesis Hok : Forall op_ok ops.
Let tr := run (start_nl ns0 verified) ops.
Hypothesis Hd : all_disciplined [] ops tr = true.

Lemma app_no_oversubscription : v_nover (judge ns0 ns0 [] ops tr) = true.
Proof. unfold tr in *. rewrite (app_clauses_hold ns0 verified ops Hw Hok Hd). reflexivity. Qed.

Lemma app_shape : v_shape (judge ns0 ns0 [] ops tr) = true.
Proof. unfold tr in *. rewrite (app_clauses_hold ns0 verified ops Hw Hok Hd). reflexivity. Qed.

Lemma app_release_restores : v_restores (judge ns0 ns0 [] ops tr) = true.
Proof. unfold tr in *. rewrite (app_clauses_hold ns0 verified ops Hw Hok Hd). reflexivity. Qed.

Lemma app_failed_find_leaves_unchanged : v_failed (judge ns0 ns0 [] ops tr) = true.
Proof. unfold tr in *. rewrite (app_clauses_hold ns0 verified ops Hw Hok Hd). reflexivity. Qed.
End Clauses.

(* ------------------------------------------------------------ one call, directly *)

(* a state reached from ns0 with the slots h handed out and not given back *)
Definition Reached (ns0 : list node) (nl : nlist) (h : list slot) : Prop := Inv ns0 (nl_nodes nl) h.

Lemma reached_start ns0 verified : wf_nodes ns0 -> Reached ns0 (start_nl ns0 verified) [].
Proof. intro Hw. unfold Reached. rewrite start_nodes. apply Inv_init. exact Hw. Qed.

Lemma reached_step ns0 nl h o nl' res :
  Reached ns0 nl h -> op_ok o -> op_disciplined h o = true -> step nl o = (nl', res) ->
  Reached ns0 nl' (held_after h o res).
Proof. intros HI Hok Hd Hs. exact (proj1 (step_spec _ _ _ _ _ _ HI Hok Hd Hs)). Qed.

Lemma reached_no_oversubscription ns0 nl h : Reached ns0 nl h -> ok_nover ns0 (nl_nodes nl) h = true.
Proof. apply Inv_nover. Qed.

Lemma reached_account ns0 nl h : Reached ns0 nl h -> ok_account ns0 (nl_nodes nl) h = true.
Proof. apply Inv_account. Qed.

Lemma found_slots_shape ns0 nl h r n nl' sl :
  Reached ns0 nl h -> rr_ok r -> 0 < r_co r -> find_slots nl r n = (nl', RSlots sl) ->
  ok_shape ns0 r n sl = true.
Proof.
  intros HI Hr Hco Hf.
  pose proof (find_slots_spec _ _ _ _ _ _ _ HI Hr Hf ltac:(discriminate)) as [_ [Hn HS]].
  apply shape_bool; assumption.
Qed.

Lemma failed_find_unchanged ns0 nl h r n nl' res :
  Reached ns0 nl h -> rr_ok r -> 0 < r_co r -> find_slots nl r n = (nl', res) ->
  (forall sl, res <> RSlots sl) -> nl_nodes nl' = nl_nodes nl.
Proof.
  intros HI Hr Hco Hf Hne.
  pose proof (find_slots_spec _ _ _ _ _ _ _ HI Hr Hf (find_slots_no_hang _ _ _ _ _ _ _ HI Hr Hco Hf)) as H.
  destruct res; auto. exfalso. eapply Hne. reflexivity.
Qed.

Lemma released_all_is_initial ns0 nl : Reached ns0 nl [] -> wf_nodes ns0 -> nl_nodes nl = ns0.
Proof. intros HI Hw. eapply Inv_functional; [exact HI | apply Inv_init; exact Hw]. Qed.

(* ------------------------------------------------------------ beyond list positions *)

Definition rr1 (nc : Z) : rreq := mkRR nc 64 0 64 0 0 false.

(* node ids 0 and 2 (node 1 was dropped), then ids 1 and 0; nodes that report neither lfs nor mem *)
Example gapped_and_permuted_ids_and_no_lfs :
  let nd i := mkNode i "n" [Some 0; Some 0] [] None None in
  let s i := mkSlot [(0, 64); (1, 64)] [] 0 0 i "n" in
  (let ns0 := [nd 0; nd 2] in
   let tr := run (start_nl ns0 true) [OFind (rr1 2) 2; ORelease [s 0; s 2]] in
   map fst tr = [RSlots [s 0; s 2]; ROk] /\ nl_nodes (last_nl (start_nl ns0 true) tr) = ns0) /\
  (let ns0 := [nd 1; nd 0] in
   let tr := run (start_nl ns0 true) [OFind (rr1 2) 1; OFind (rr1 2) 2; ORelease [s 1]] in
   map fst tr = [RSlots [s 1]; RNone; ROk] /\ nl_nodes (last_nl (start_nl ns0 true) tr) = ns0).
Proof. vm_compute. auto. Qed.
