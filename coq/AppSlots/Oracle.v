(* AppSlots -- boolean checkers evaluated on traces of the real Node/NodeList
   objects, and the rows the harness asks for:
     [model agrees with the observation; no_oversubscription; shape;
      release_restores; failed_find_leaves_unchanged; linearizable]. *)
From Coq Require Import ZArith List Bool String.
From RP Require Import Common.Eqb AppSlots.Model.
Import ListNotations.
Open Scope Z_scope.

(* -------------------------------------------------------------- equalities *)

Definition zz_eqb (a b : Z * Z) : bool := (fst a =? fst b) && (snd a =? snd b).

Definition slot_eqb (a b : slot) : bool :=
  eqb_list zz_eqb (s_cores a) (s_cores b) && eqb_list zz_eqb (s_gpus a) (s_gpus b) &&
  (s_lfs a =? s_lfs b) && (s_mem a =? s_mem b) && (s_nidx a =? s_nidx b) && String.eqb (s_name a) (s_name b).

Definition node_eqb (a b : node) : bool :=
  (nd_index a =? nd_index b) && String.eqb (nd_name a) (nd_name b) &&
  ozl_eqb (nd_cores a) (nd_cores b) && ozl_eqb (nd_gpus a) (nd_gpus b) &&
  oz_eqb (nd_lfs a) (nd_lfs b) && oz_eqb (nd_mem a) (nd_mem b).

Definition rreq_eqb (a b : rreq) : bool :=
  (r_nc a =? r_nc b) && (r_co a =? r_co b) && (r_ng a =? r_ng b) && (r_go a =? r_go b) &&
  (r_lfs a =? r_lfs b) && (r_mem a =? r_mem b) && Bool.eqb (r_numa a) (r_numa b).

Definition err_eqb (a b : err) : bool :=
  match a, b with
  | EValue, EValue | ERuntime, ERuntime | EAssert, EAssert | EType, EType
  | EIndex, EIndex | EUnbound, EUnbound | EHang, EHang | EOther, EOther => true
  | _, _ => false
  end.

Definition res_eqb (a b : res) : bool :=
  match a, b with
  | RSlots x, RSlots y => eqb_list slot_eqb x y
  | RNone, RNone => true
  | ROk, ROk => true
  | RErr x, RErr y => err_eqb x y
  | _, _ => false
  end.

Definition ver_eqb (a b : verinfo) : bool :=
  Bool.eqb (v_uniform a) (v_uniform b) && (v_cpn a =? v_cpn b) && (v_gpn a =? v_gpn b) &&
  oz_eqb (v_lfs a) (v_lfs b) && oz_eqb (v_mem a) (v_mem b).

Definition nodes_eqb (a b : list node) : bool := eqb_list node_eqb a b.

Definition nlist_eqb (a b : nlist) : bool :=
  nodes_eqb (nl_nodes a) (nl_nodes b) && (nl_index a =? nl_index b) &&
  eqb_option (eqb_prod rreq_eqb Z.eqb) (nl_failed a) (nl_failed b) &&
  eqb_option ver_eqb (nl_ver a) (nl_ver b).

Definition obs_eqb (a b : res * nlist) : bool := res_eqb (fst a) (fst b) && nlist_eqb (snd a) (snd b).

(* ------------------------------------------------------------- accounting *)

(* what a list of RO adds to the resource with index j *)
Fixpoint sum_at (j : Z) (l : list (Z * Z)) : Z :=
  match l with
  | [] => 0
  | (i, d) :: l' => (if i =? j then d else 0) + sum_at j l'
  end.

(* what the slots `h` (handed out, not yet released) hold of core / GPU j, of
   the lfs and of the mem of the node with id `k` *)
Fixpoint Hc (h : list slot) (k j : Z) : Z :=
  match h with [] => 0 | s :: h' => (if s_nidx s =? k then sum_at j (s_cores s) else 0) + Hc h' k j end.
Fixpoint Hg (h : list slot) (k j : Z) : Z :=
  match h with [] => 0 | s :: h' => (if s_nidx s =? k then sum_at j (s_gpus s) else 0) + Hg h' k j end.
Fixpoint Hl (h : list slot) (k : Z) : Z :=
  match h with [] => 0 | s :: h' => (if s_nidx s =? k then s_lfs s else 0) + Hl h' k end.
Fixpoint Hm (h : list slot) (k : Z) : Z :=
  match h with [] => 0 | s :: h' => (if s_nidx s =? k then s_mem s else 0) + Hm h' k end.

Fixpoint remove_first (s : slot) (h : list slot) : list slot :=
  match h with
  | [] => []
  | x :: h' => if slot_eqb s x then h' else x :: remove_first s h'
  end.

Fixpoint remove_all (sl h : list slot) : list slot :=
  match sl with [] => h | s :: sl' => remove_all sl' (remove_first s h) end.

Fixpoint mem_slot (s : slot) (h : list slot) : bool :=
  match h with [] => false | x :: h' => slot_eqb s x || mem_slot s h' end.

(* every slot of sl is held, counting repetitions *)
Fixpoint sub_held (sl h : list slot) : bool :=
  match sl with [] => true | s :: sl' => mem_slot s h && sub_held sl' (remove_first s h) end.

(* occupations of one resource list: now = initially + held, DOWN stays DOWN *)
Fixpoint acct_list (f : Z -> Z) (j : Z) (l0 l : list (option Z)) : bool :=
  match l0, l with
  | [], [] => true
  | None :: t0, None :: t => acct_list f (j + 1) t0 t
  | Some a :: t0, Some b :: t => (b =? a + f j) && acct_list f (j + 1) t0 t
  | _, _ => false
  end.

Definition acct_amount (held : Z) (a0 a : option Z) : bool :=
  match a0, a with
  | None, None => true
  | Some x, Some y => y =? x - held
  | _, _ => false
  end.

Definition acct_node (h : list slot) (n0 n : node) : bool :=
  (nd_index n =? nd_index n0) && String.eqb (nd_name n) (nd_name n0) &&
  acct_list (Hc h (nd_index n0)) 0 (nd_cores n0) (nd_cores n) &&
  acct_list (Hg h (nd_index n0)) 0 (nd_gpus n0) (nd_gpus n) &&
  acct_amount (Hl h (nd_index n0)) (nd_lfs n0) (nd_lfs n) &&
  acct_amount (Hm h (nd_index n0)) (nd_mem n0) (nd_mem n).

Fixpoint forallb2 {A B} (f : A -> B -> bool) (a : list A) (b : list B) : bool :=
  match a, b with
  | [], [] => true
  | x :: a', y :: b' => f x y && forallb2 f a' b'
  | _, _ => false
  end.

(* the node list is the initial one plus exactly the held slots *)
Definition ok_account (ns0 ns : list node) (h : list slot) : bool := forallb2 (acct_node h) ns0 ns.

(* no occupation above BUSY, none below FREE, lfs/mem between 0 and the node's *)
Definition within_list (l : list (option Z)) : bool :=
  forallb (fun c => match c with None => true | Some o => (0 <=? o) && (o <=? BUSY) end) l.

(* float occupations that are no multiples of 1/64, counted in 1/2^60: only the upper bound *)
Definition below_list (B : Z) (l : list (option Z)) : bool :=
  forallb (fun c => match c with None => true | Some o => o <=? B end) l.
Definition below_nodes (B : Z) (ns : list node) : bool :=
  forallb (fun n => below_list B (nd_cores n) && below_list B (nd_gpus n)) ns.

Definition within_amount (a0 a : option Z) : bool :=
  match a0, a with
  | Some x, Some y => (0 <=? y) && (y <=? x)
  | None, None => true
  | _, _ => false
  end.

Definition within_node (n0 n : node) : bool :=
  within_list (nd_cores n) && within_list (nd_gpus n) &&
  within_amount (nd_lfs n0) (nd_lfs n) && within_amount (nd_mem n0) (nd_mem n).

(* what is held of a resource together with what was occupied initially fits *)
Fixpoint fits_list (f : Z -> Z) (j : Z) (l0 : list (option Z)) : bool :=
  match l0 with
  | [] => true
  | None :: t0 => (f j =? 0) && fits_list f (j + 1) t0
  | Some a :: t0 => (0 <=? f j) && (a + f j <=? BUSY) && fits_list f (j + 1) t0
  end.

Definition fits_amount (held : Z) (a0 : option Z) : bool :=
  match a0 with None => true | Some x => (0 <=? held) && (held <=? x) end.

Definition fits_node (h : list slot) (n0 : node) : bool :=
  fits_list (Hc h (nd_index n0)) 0 (nd_cores n0) && fits_list (Hg h (nd_index n0)) 0 (nd_gpus n0) &&
  fits_amount (Hl h (nd_index n0)) (nd_lfs n0) && fits_amount (Hm h (nd_index n0)) (nd_mem n0).

Definition ok_nover (ns0 ns : list node) (h : list slot) : bool :=
  forallb2 within_node ns0 ns && forallb (fits_node h) ns0.

(* ------------------------------------------------------------------ shape *)

Fixpoint increasing (lo : Z) (l : list (Z * Z)) : bool :=
  match l with [] => true | (i, _) :: l' => (lo <=? i) && increasing (i + 1) l' end.

Definition ro_shape (n occ len : Z) (l : list (Z * Z)) : bool :=
  (zlen l =? n) && forallb (fun p => (snd p =? occ) && (0 <=? fst p) && (fst p <? len)) l && increasing 0 l.

(* a slot for `r` on the node n0 (as it was initially: sizes, id and name do not change) *)
Definition slot_shape (r : rreq) (n0 : node) (s : slot) : bool :=
  ro_shape (r_nc r) (r_co r) (zlen (nd_cores n0)) (s_cores s) &&
  ro_shape (r_ng r) (r_go r) (zlen (nd_gpus n0)) (s_gpus s) &&
  (s_lfs s =? r_lfs r) && (s_mem s =? r_mem r) &&
  (s_nidx s =? nd_index n0) && String.eqb (s_name s) (nd_name n0).

Definition ok_shape (ns0 : list node) (r : rreq) (n : Z) (sl : list slot) : bool :=
  (zlen sl =? n) && forallb (fun s => existsb (fun n0 => slot_shape r n0 s) ns0) sl.

(* --------------------------------------------------------------- the trace *)

Definition held_after (h : list slot) (o : op) (r : res) : list slot :=
  match o, r with
  | OFind _ _, RSlots sl => h ++ sl
  | ONFind _ _, RSlots sl => h ++ sl
  | ONAlloc _ s, ROk => h ++ [s]
  | ORelease sl, ROk => remove_all sl h
  | ONDealloc _ s, ROk => remove_first s h
  | _, _ => h
  end.

(* the application gives back only what it holds *)
Definition op_disciplined (h : list slot) (o : op) : bool :=
  match o with
  | ORelease sl => sub_held sl h
  | ONDealloc _ s => mem_slot s h
  | _ => true
  end.

Record verdict := mkV { v_nover : bool; v_shape : bool; v_restores : bool; v_failed : bool }.

Definition vand (a b : verdict) : verdict :=
  mkV (v_nover a && v_nover b) (v_shape a && v_shape b) (v_restores a && v_restores b) (v_failed a && v_failed b).

Definition judge_step (ns0 : list node) (before : list node) (h : list slot) (o : op) (ob : res * nlist) : verdict :=
  let '(r, nl) := ob in
  let h' := held_after h o r in
  mkV (ok_nover ns0 (nl_nodes nl) h')
      (match o, r with
       | OFind rq n, RSlots sl => ok_shape ns0 rq n sl
       | ONFind _ rq, RSlots sl => ok_shape ns0 rq 1 sl
       | _, _ => true
       end)
      (ok_account ns0 (nl_nodes nl) h' &&
       match o, r with ORelease (_ :: _), RErr _ => false | ONDealloc _ _, RErr _ => false | _, _ => true end)
      (match o, r with
       | OFind _ _, RNone | OFind _ _, RErr _ | ONFind _ _, RNone | ONFind _ _, RErr _ => nodes_eqb before (nl_nodes nl)
       | _, _ => true
       end).

Fixpoint judge (ns0 before : list node) (h : list slot) (ops : list op) (obs : list (res * nlist)) : verdict :=
  match ops, obs with
  | o :: ops', ob :: obs' =>
      vand (judge_step ns0 before h o ob)
           (judge ns0 (nl_nodes (snd ob)) (held_after h o (fst ob)) ops' obs')
  | _, _ => mkV true true true true
  end.

Fixpoint held_end (h : list slot) (ops : list op) (obs : list (res * nlist)) : list slot :=
  match ops, obs with
  | o :: ops', ob :: obs' => held_end (held_after h o (fst ob)) ops' obs'
  | _, _ => h
  end.

Fixpoint all_disciplined (h : list slot) (ops : list op) (obs : list (res * nlist)) : bool :=
  match ops, obs with
  | o :: ops', ob :: obs' => op_disciplined h o && all_disciplined (held_after h o (fst ob)) ops' obs'
  | _, _ => true
  end.

Definition start_nl (ns0 : list node) (verified : bool) : nlist :=
  if verified then verify (init_nl ns0) else init_nl ns0.

(* sequences of operations of one thread *)
Definition app_row (ns0 : list node) (verified : bool) (ops : list op) (obs : list (res * nlist)) : list bool :=
  let corr := eqb_list obs_eqb (run (start_nl ns0 verified) ops) obs in
  if all_disciplined [] ops obs then
    let v := judge ns0 ns0 [] ops obs in
    [corr; v_nover v; v_shape v; v_restores v; v_failed v; true]
  else [corr; true; true; true; true; true].

(* two operations at once, after a sequential prefix: `ra`, `rb` are the two
   answers, `fin` the node list when both have returned *)
Definition last_nl (nl : nlist) (obs : list (res * nlist)) : nlist := last (map snd obs) nl.

Definition seq_outcome (nl : nlist) (a b : op) (ra rb : res) (fin : nlist) : bool :=
  let '(nl1, ra') := step nl a in
  let '(nl2, rb') := step nl1 b in
  res_eqb ra' ra && res_eqb rb' rb && nodes_eqb (nl_nodes nl2) (nl_nodes fin).

Definition pair_row (ns0 : list node) (verified : bool) (ops : list op) (obs : list (res * nlist))
                    (a b : op) (ra rb : res) (fin : nlist) : list bool :=
  let nl0 := start_nl ns0 verified in
  let corr := eqb_list obs_eqb (run nl0 ops) obs in
  let nlp := last_nl nl0 obs in
  let hp := held_end [] ops obs in
  let h := held_after (held_after hp a ra) b rb in
  let v := judge ns0 ns0 [] ops obs in
  let shape1 o r := match o, r with OFind rq n, RSlots sl => ok_shape ns0 rq n sl | _, _ => true end in
  [corr;
   v_nover v && ok_nover ns0 (nl_nodes fin) h && ok_account ns0 (nl_nodes fin) h;
   v_shape v && shape1 a ra && shape1 b rb;
   v_restores v; v_failed v;
   seq_outcome nlp a b ra rb fin || seq_outcome nlp b a rb ra fin].

(* occupations that are no multiples of 1/64 (0.1, 1/3, ...): the model does not follow the rounding of the
   float sums; judged on the implementation's own numbers (exact, in units of 1/2^60): no occupation above
   BUSY, and whenever nothing is held the node list is the initial one *)
Definition float_row (B : Z) (ns0 : list node) (obs : list (bool * list node)) : list bool :=
  [true;
   forallb (fun o : bool * list node => below_nodes B (snd o)) obs;
   true;
   forallb (fun o : bool * list node => if fst o then nodes_eqb ns0 (snd o) else true) obs;
   true; true].
