(* AppSlots -- the node list: "every node is its initial self plus exactly the
   slots handed out and not yet given back" is kept by find_slots (success,
   failure with roll-back, refusal) and release_slots. *)
From Coq Require Import ZArith List Bool String Lia.
From RP Require Import Common.Eqb AppSlots.Model AppSlots.Oracle AppSlots.Lists AppSlots.NodeProofs AppSlots.Hang.
Import ListNotations.
Open Scope Z_scope.

(* --------------------------------------------------------------- slot_eqb *)

Lemma zz_eqb_spec x y : zz_eqb x y = true <-> x = y.
Proof.
  destruct x as [a b], y as [c d]. unfold zz_eqb. cbn. rewrite andb_true_iff, !Z.eqb_eq.
  split; [intros [-> ->]; reflexivity | intro H; injection H; auto].
Qed.

Lemma slot_eqb_eq s x : slot_eqb s x = true -> s = x.
Proof.
  unfold slot_eqb. rewrite !andb_true_iff. intros [[[[[H1 H2] H3] H4] H5] H6].
  apply (eqb_list_spec _ zz_eqb_spec) in H1. apply (eqb_list_spec _ zz_eqb_spec) in H2.
  apply Z.eqb_eq in H3, H4, H5. apply String.eqb_eq in H6.
  destruct s, x. cbn in *. congruence.
Qed.

Lemma slot_eqb_refl s : slot_eqb s s = true.
Proof.
  unfold slot_eqb. rewrite !andb_true_iff. repeat split;
    try apply Z.eqb_refl; try apply String.eqb_refl; apply (eqb_list_spec _ zz_eqb_spec); reflexivity.
Qed.

(* ------------------------------------------------------ the held accounting *)

Definition cc (s : slot) (k j : Z) : Z := if s_nidx s =? k then sum_at j (s_cores s) else 0.
Definition cg (s : slot) (k j : Z) : Z := if s_nidx s =? k then sum_at j (s_gpus s) else 0.
Definition cl (s : slot) (k : Z) : Z := if s_nidx s =? k then s_lfs s else 0.
Definition cm (s : slot) (k : Z) : Z := if s_nidx s =? k then s_mem s else 0.

Lemma Hc_app a b k j : Hc (a ++ b) k j = Hc a k j + Hc b k j.
Proof. induction a as [|s a IH]; cbn [Hc app]; lia. Qed.
Lemma Hg_app a b k j : Hg (a ++ b) k j = Hg a k j + Hg b k j.
Proof. induction a as [|s a IH]; cbn [Hg app]; lia. Qed.
Lemma Hl_app a b k : Hl (a ++ b) k = Hl a k + Hl b k.
Proof. induction a as [|s a IH]; cbn [Hl app]; lia. Qed.
Lemma Hm_app a b k : Hm (a ++ b) k = Hm a k + Hm b k.
Proof. induction a as [|s a IH]; cbn [Hm app]; lia. Qed.

Lemma Hc_mid a s b k j : Hc (a ++ s :: b) k j = Hc (a ++ b) k j + cc s k j.
Proof. rewrite !Hc_app. cbn [Hc]. unfold cc. lia. Qed.
Lemma Hg_mid a s b k j : Hg (a ++ s :: b) k j = Hg (a ++ b) k j + cg s k j.
Proof. rewrite !Hg_app. cbn [Hg]. unfold cg. lia. Qed.
Lemma Hl_mid a s b k : Hl (a ++ s :: b) k = Hl (a ++ b) k + cl s k.
Proof. rewrite !Hl_app. cbn [Hl]. unfold cl. lia. Qed.
Lemma Hm_mid a s b k : Hm (a ++ s :: b) k = Hm (a ++ b) k + cm s k.
Proof. rewrite !Hm_app. cbn [Hm]. unfold cm. lia. Qed.

(* a slot names usable resources of the node (of the initial list) whose id it carries *)
Definition slot_on (ns0 : list node) (s : slot) : Prop :=
  exists k n0, nth_error ns0 k = Some n0 /\ nd_index n0 = s_nidx s /\
  ro_fit (nd_cores n0) (s_cores s) /\ ro_fit (nd_gpus n0) (s_gpus s) /\
  Forall (fun p => 0 <= snd p) (s_cores s) /\ Forall (fun p => 0 <= snd p) (s_gpus s) /\
  0 <= s_lfs s /\ 0 <= s_mem s.

Lemma H_nonneg ns0 h : Forall (slot_on ns0) h ->
  (forall k j, 0 <= Hc h k j) /\ (forall k j, 0 <= Hg h k j) /\ (forall k, 0 <= Hl h k) /\ (forall k, 0 <= Hm h k).
Proof.
  induction 1 as [|s h Hs HF IH]; cbn [Hc Hg Hl Hm]; [repeat split; intros; lia|].
  destruct IH as [I1 [I2 [I3 I4]]]. destruct Hs as [k0 [n0 [_ [_ [_ [_ [P1 [P2 [P3 P4]]]]]]]]].
  repeat split; intros.
  - pose proof (I1 k j). pose proof (sum_at_nonneg _ j P1). destruct (s_nidx s =? k); lia.
  - pose proof (I2 k j). pose proof (sum_at_nonneg _ j P2). destruct (s_nidx s =? k); lia.
  - pose proof (I3 k). destruct (s_nidx s =? k); lia.
  - pose proof (I4 k). destruct (s_nidx s =? k); lia.
Qed.

(* ---------------------------------------------------------------- invariant *)

Definition NodeInv (h : list slot) (n0 n : node) : Prop :=
  NodeRel (Hc h (nd_index n0)) (Hg h (nd_index n0)) (Hl h (nd_index n0)) (Hm h (nd_index n0)) n0 n.

(* node ids (Node.index) are pairwise distinct; they need not be the list positions *)
Definition distinct_ids (ns0 : list node) : Prop := NoDup (map nd_index ns0).

Record Inv (ns0 ns : list node) (h : list slot) : Prop := mkInv {
  inv_ids   : distinct_ids ns0;
  inv_nodes : Forall2 (NodeInv h) ns0 ns;
  inv_held  : Forall (slot_on ns0) h }.

Lemma ids_differ ns p k x y :
  distinct_ids ns -> nth_error ns p = Some x -> nth_error ns k = Some y -> nd_index x = nd_index y -> p = k.
Proof.
  intros Hnd Hp Hk He. unfold distinct_ids in Hnd. rewrite NoDup_nth_error in Hnd. apply Hnd.
  - rewrite map_length. apply nth_error_Some. congruence.
  - rewrite (map_nth_error _ _ _ Hp), (map_nth_error _ _ _ Hk). congruence.
Qed.

Lemma ids_same h ns0 ns : Forall2 (NodeInv h) ns0 ns -> map nd_index ns = map nd_index ns0.
Proof. induction 1 as [|a b l0 l H HF IH]; cbn; [reflexivity|]. rewrite IH, (nr_idx _ _ _ _ _ _ H). reflexivity. Qed.

Lemma find_idx_spec idx : forall ns p k nd, nth_error ns k = Some nd -> nd_index nd = idx ->
  exists q nd', find_idx ns idx p = Some (p + q)%nat /\ nth_error ns q = Some nd' /\ nd_index nd' = idx.
Proof.
  induction ns as [|a ns IH]; intros p k nd Hk Hi; [destruct k; discriminate|]. cbn [find_idx].
  destruct (nd_index a =? idx) eqn:E.
  - apply Z.eqb_eq in E. exists O, a. rewrite Nat.add_0_r. auto.
  - destruct k as [|k]; [cbn in Hk; injection Hk as ->; apply Z.eqb_neq in E; contradiction|].
    destruct (IH (S p) k nd Hk Hi) as [q [nd' [H1 [H2 H3]]]]. exists (S q), nd'.
    rewrite H1. split; [f_equal; lia | auto].
Qed.

(* _get_node finds the node that carries the id, wherever it stands in the list *)
Lemma get_node_spec ns k nd : distinct_ids ns -> nth_error ns k = Some nd -> get_node ns (nd_index nd) = Some k.
Proof.
  intros Hnd Hk. unfold get_node.
  assert (Hfind : find_idx ns (nd_index nd) O = Some k).
  { destruct (find_idx_spec _ ns O k nd Hk eq_refl) as [q [nd' [H1 [H2 H3]]]]. rewrite H1. cbn. f_equal.
    exact (ids_differ _ _ _ _ _ Hnd H2 Hk H3). }
  destruct ((0 <=? nd_index nd) && (nd_index nd <? zlen ns)); [|exact Hfind].
  destruct (nth_error ns (Z.to_nat (nd_index nd))) as [nd'|] eqn:E; [|exact Hfind].
  destruct (nd_index nd' =? nd_index nd) eqn:E2; [|exact Hfind].
  apply Z.eqb_eq in E2. f_equal. exact (ids_differ _ _ _ _ _ Hnd E Hk E2).
Qed.

Lemma Inv_functional ns0 a b h : Inv ns0 a h -> Inv ns0 b h -> a = b.
Proof.
  intros [_ Ha _] [_ Hb _]. eapply Forall2_functional; [| exact Ha | exact Hb].
  intros x y z. apply NodeRel_functional.
Qed.

(* Node.find_slot on the node at position k found a slot *)
Lemma inv_take ns0 ns h k nd r nd' s :
  Inv ns0 ns h -> nth_error ns k = Some nd -> rr_ok r -> find_slot nd r = (nd', FSlot s) ->
  Inv ns0 (upd ns k nd') (h ++ [s]) /\
  exists n0, nth_error ns0 k = Some n0 /\ SlotFor r nd s /\ NodeInv h n0 nd.
Proof.
  intros [Hnd HF Hh] Hk Hr Hf.
  destruct (Forall2_nth_r _ _ _ _ _ HF Hk) as [n0 [Hk0 HN]].
  pose proof (find_slot_spec _ _ _ _ _ _ _ _ _ HN Hr Hf) as [HS HR]. cbn beta in HR.
  assert (Hsid : s_nidx s = nd_index n0) by (rewrite (sf_i _ _ _ HS); exact (nr_idx _ _ _ _ _ _ HN)).
  split; [| exists n0; auto].
  constructor; [exact Hnd | |].
  - eapply Forall2_upd_change; [exact HF | exact Hk0 | |].
    + unfold NodeInv. eapply NodeRel_ext; [| | | | exact HR]; intros;
        rewrite ?Hc_app, ?Hg_app, ?Hl_app, ?Hm_app; cbn [Hc Hg Hl Hm]; rewrite Hsid, Z.eqb_refl; lia.
    + intros p x y Hp Hx Hy Hxy.
      assert (Hne : (s_nidx s =? nd_index x) = false).
      { apply Z.eqb_neq. rewrite Hsid. intro E. apply Hp. symmetry in E. exact (ids_differ _ _ _ _ _ Hnd Hx Hk0 E). }
      unfold NodeInv in *. eapply NodeRel_ext; [| | | | exact Hxy]; intros;
        rewrite ?Hc_app, ?Hg_app, ?Hl_app, ?Hm_app; cbn [Hc Hg Hl Hm]; rewrite Hne; lia.
  - apply Forall_app. split; [exact Hh|]. constructor; [|constructor].
    destruct HS as [[Tc1 Tc2] [Tg1 Tg2] Sl Sm Si Sn].
    unfold slot_on. exists k, n0.
    destruct Hr as [? [Hco [? [Hgo [Hlf Hme]]]]].
    split; [exact Hk0|]. split; [symmetry; exact Hsid|]. repeat split.
    + unfold ro_fit. eapply Forall_impl; [|exact Tc1]. intros q [_ [Hq [o [Ho _]]]]. split; [exact Hq|].
      destruct (shifted_some _ _ _ _ _ (nr_c _ _ _ _ _ _ HN) Ho) as [o0 [Ho0 _]]. eauto.
    + unfold ro_fit. eapply Forall_impl; [|exact Tg1]. intros q [_ [Hq [o [Ho _]]]]. split; [exact Hq|].
      destruct (shifted_some _ _ _ _ _ (nr_g _ _ _ _ _ _ HN) Ho) as [o0 [Ho0 _]]. eauto.
    + eapply Forall_impl; [|exact Tc1]. intros q [Hs _]. lia.
    + eapply Forall_impl; [|exact Tg1]. intros q [Hs _]. lia.
    + lia.
    + lia.
Qed.

(* giving back one held slot (any occurrence) through NodeList._get_node *)
Lemma inv_give ns0 ns h1 s h2 :
  Inv ns0 ns (h1 ++ s :: h2) ->
  exists k nd nd', get_node ns (s_nidx s) = Some k /\ nth_error ns k = Some nd /\
                   deallocate_slot nd s = (nd', None) /\ Inv ns0 (upd ns k nd') (h1 ++ h2).
Proof.
  intros [Hnd HF Hh].
  assert (Hs : slot_on ns0 s) by (rewrite Forall_forall in Hh; apply Hh; apply in_or_app; right; left; reflexivity).
  assert (Hh' : Forall (slot_on ns0) (h1 ++ h2)).
  { apply Forall_app in Hh as [A B]. apply Forall_app. split; [exact A | exact (Forall_inv_tail B)]. }
  destruct Hs as [k [n0 [Hk0 [Hid [Fc [Fg [Nc [Ng [Nl Nm]]]]]]]]].
  destruct (Forall2_nth_l _ _ _ _ _ HF Hk0) as [nd [Hk HN]].
  destruct (H_nonneg _ _ Hh') as [P1 [P2 [P3 P4]]].
  destruct (deallocate_spec _ _ _ _ (Hc (h1 ++ h2) (nd_index n0)) (Hg (h1 ++ h2) (nd_index n0))
              (Hl (h1 ++ h2) (nd_index n0)) (Hm (h1 ++ h2) (nd_index n0)) n0 nd s HN Fc Fg Nc Ng Nl Nm)
    as [nd' [Hd HR']]; auto.
  - intro j. rewrite Hc_mid. unfold cc. rewrite <- Hid, Z.eqb_refl. reflexivity.
  - intro j. rewrite Hg_mid. unfold cg. rewrite <- Hid, Z.eqb_refl. reflexivity.
  - rewrite Hl_mid. unfold cl. rewrite <- Hid, Z.eqb_refl. reflexivity.
  - rewrite Hm_mid. unfold cm. rewrite <- Hid, Z.eqb_refl. reflexivity.
  - exists k, nd, nd'. split.
    { rewrite <- Hid, <- (nr_idx _ _ _ _ _ _ HN). apply get_node_spec; [|exact Hk].
      unfold distinct_ids. rewrite (ids_same _ _ _ HF). exact Hnd. }
    split; [exact Hk|]. split; [exact Hd|].
    constructor; [exact Hnd | | exact Hh'].
    eapply Forall2_upd_change; [exact HF | exact Hk0 | exact HR' |].
    intros p x y Hp Hx Hy Hxy.
    assert (Hne : (s_nidx s =? nd_index x) = false).
    { apply Z.eqb_neq. rewrite <- Hid. intro E. apply Hp. symmetry in E. exact (ids_differ _ _ _ _ _ Hnd Hx Hk0 E). }
    unfold NodeInv in *. eapply NodeRel_ext; [| | | | exact Hxy]; intros;
      rewrite ?Hc_mid, ?Hg_mid, ?Hl_mid, ?Hm_mid; unfold cc, cg, cl, cm; rewrite Hne; lia.
Qed.

(* the roll-back / a release of the slots at the end of the held list *)
Lemma dealloc_all_suffix ns0 sl : forall ns h,
  Inv ns0 ns (h ++ sl) -> exists ns', dealloc_all ns sl = (ns', None) /\ Inv ns0 ns' h.
Proof.
  induction sl as [|s sl IH]; intros ns h HI.
  - rewrite app_nil_r in HI. exists ns. split; [reflexivity | exact HI].
  - destruct (inv_give _ _ _ _ _ HI) as [k [nd [nd' [Hp [Hk [Hd HI']]]]]].
    destruct (IH _ _ HI') as [ns' [Hda HI'']].
    exists ns'. cbn [dealloc_all]. rewrite Hp, Hk, Hd. split; [exact Hda | exact HI''].
Qed.

Lemma mem_slot_split s h : mem_slot s h = true ->
  exists h1 h2, h = h1 ++ s :: h2 /\ remove_first s h = h1 ++ h2.
Proof.
  induction h as [|x h IH]; cbn [mem_slot remove_first]; [discriminate|].
  destruct (slot_eqb s x) eqn:E.
  - intros _. apply slot_eqb_eq in E. subst x. exists [], h. split; reflexivity.
  - cbn [orb]. intro H. destruct (IH H) as [h1 [h2 [E1 E2]]]. exists (x :: h1), h2. cbn [app]. split; congruence.
Qed.

(* release_slots of slots the application holds *)
Lemma dealloc_all_held ns0 sl : forall ns h,
  Inv ns0 ns h -> sub_held sl h = true ->
  exists ns', dealloc_all ns sl = (ns', None) /\ Inv ns0 ns' (remove_all sl h).
Proof.
  induction sl as [|s sl IH]; intros ns h HI Hs.
  - exists ns. split; [reflexivity | exact HI].
  - cbn [sub_held] in Hs. apply andb_true_iff in Hs as [Hm Hs].
    destruct (mem_slot_split _ _ Hm) as [h1 [h2 [E1 E2]]]. rewrite E1 in HI.
    destruct (inv_give _ _ _ _ _ HI) as [k [nd [nd' [Hp [Hk [Hd HI']]]]]].
    rewrite <- E2 in HI'. destruct (IH _ _ HI' Hs) as [ns' [Hda HI'']].
    exists ns'. cbn [dealloc_all remove_all]. rewrite Hp, Hk, Hd. split; [exact Hda | exact HI''].
Qed.

(* ---------------------------------------------------------------- the loops *)

Lemma upd_upd {A} (l : list A) k x y : upd (upd l k x) k y = upd l k y.
Proof.
  apply nth_error_ext. intro p. rewrite !nth_error_upd.
  destruct (Nat.eqb p k) eqn:E; [|reflexivity].
  rewrite Nat.eqb_refl. destruct (nth_error l k); reflexivity.
Qed.

(* a slot with the shape asked for, on one node of the initial list *)
Definition ShapeOK (ns0 : list node) (r : rreq) (s : slot) : Prop :=
  exists n0, In n0 ns0 /\ slot_shape r n0 s = true.

Lemma ro_taken_shape occ n cs cs0 f l :
  shifted f cs0 cs -> ro_taken occ n cs l -> ro_shape n occ (zlen cs0) l = true.
Proof.
  intros Hs [HF [HI Hn]]. unfold ro_shape. rewrite !andb_true_iff. repeat split.
  - apply Z.eqb_eq. exact Hn.
  - apply forallb_forall. intros p Hp. rewrite Forall_forall in HF. destruct (HF _ Hp) as [H1 [H2 [o [Ho _]]]].
    rewrite !andb_true_iff. repeat split; [apply Z.eqb_eq; exact H1 | apply Z.leb_le; exact H2 | apply Z.ltb_lt].
    assert (Hlt : (Z.to_nat (fst p) < List.length cs)%nat) by (apply nth_error_Some; congruence).
    rewrite (shifted_length _ _ _ Hs) in Hlt. unfold zlen. lia.
  - eapply Incr_increasing. exact HI.
Qed.

Lemma SlotFor_shape h r n0 nd s : NodeInv h n0 nd -> SlotFor r nd s -> slot_shape r n0 s = true.
Proof.
  intros HN [Tc Tg Sl Sm Si Sn]. unfold slot_shape. rewrite !andb_true_iff. repeat split.
  - eapply ro_taken_shape; [exact (nr_c _ _ _ _ _ _ HN) | exact Tc].
  - eapply ro_taken_shape; [exact (nr_g _ _ _ _ _ _ HN) | exact Tg].
  - apply Z.eqb_eq. exact Sl.
  - apply Z.eqb_eq. exact Sm.
  - apply Z.eqb_eq. rewrite Si. exact (nr_idx _ _ _ _ _ _ HN).
  - apply String.eqb_eq. rewrite Sn. exact (nr_name _ _ _ _ _ _ HN).
Qed.

Definition no_hang (e : option err) : Prop := e = None \/ e = Some EHang.

Lemma node_loop_spec ns0 h r n k : rr_ok r -> forall fuel ns nd slots nd' slots' hit e,
  Inv ns0 ns (h ++ slots) -> nth_error ns k = Some nd -> Forall (ShapeOK ns0 r) slots ->
  node_loop fuel nd r n slots = (nd', slots', hit, e) ->
  no_hang e /\ Inv ns0 (upd ns k nd') (h ++ slots') /\ Forall (ShapeOK ns0 r) slots' /\
  (hit = true -> zlen slots' = n) /\ (hit = false -> e = None -> slots' = slots \/ zlen slots' <> n).
Proof.
  intro Hr. induction fuel as [|fuel IH]; intros ns nd slots nd' slots' hit e HI Hk HS Hl; cbn [node_loop] in Hl.
  - injection Hl as <- <- <- <-. rewrite (upd_same _ _ _ Hk).
    split; [right; reflexivity|]. split; [exact HI|]. split; [exact HS|].
    split; [intro H; discriminate H | intros _ H; discriminate H].
  - destruct (find_slot nd r) as [nd1 fr] eqn:Ef. destruct fr as [s| |x].
    + destruct (inv_take _ _ _ _ _ _ _ _ HI Hk Hr Ef) as [HI1 [n0 [Hk0 [HSF HN]]]].
      rewrite <- app_assoc in HI1.
      assert (HS1 : Forall (ShapeOK ns0 r) (slots ++ [s])).
      { apply Forall_app. split; [exact HS|]. constructor; [|constructor].
        exists n0. split; [eapply nth_error_In; exact Hk0 | eapply SlotFor_shape; eauto]. }
      destruct (zlen (slots ++ [s]) =? n) eqn:En.
      * injection Hl as <- <- <- <-. apply Z.eqb_eq in En.
        split; [left; reflexivity|]. split; [exact HI1|]. split; [exact HS1|].
        split; [intros _; exact En | intro H; discriminate H].
      * apply Z.eqb_neq in En.
        assert (Hk1 : nth_error (upd ns k nd1) k = Some nd1) by (eapply nth_error_upd_same; exact Hk).
        destruct (IH _ _ _ _ _ _ _ HI1 Hk1 HS1 Hl) as [A [B [C [D E]]]].
        rewrite upd_upd in B. split; [exact A|]. split; [exact B|]. split; [exact C|]. split; [exact D|].
        intros Hh He. destruct (E Hh He) as [E1|E1]; [right; rewrite E1; exact En | right; exact E1].
    + injection Hl as <- <- <- <-.
      pose proof (Forall2_nth_r _ _ _ _ _ (inv_nodes _ _ _ HI) Hk) as [n0 [_ HN]].
      pose proof (find_slot_spec _ _ _ _ _ _ _ _ _ HN Hr Ef) as Hsame. cbn in Hsame. subst nd1.
      rewrite (upd_same _ _ _ Hk).
      split; [left; reflexivity|]. split; [exact HI|]. split; [exact HS|].
      split; [intro H; discriminate H | intros _ _; left; reflexivity].
    + exfalso.
      pose proof (Forall2_nth_r _ _ _ _ _ (inv_nodes _ _ _ HI) Hk) as [n0 [_ HN]].
      exact (find_slot_spec _ _ _ _ _ _ _ _ _ HN Hr Ef).
Qed.

Lemma nodes_loop_spec ns0 h r n start : rr_ok r -> forall cnt i ns slots stop ns' slots' stop' e,
  Inv ns0 ns (h ++ slots) -> ns <> [] -> Forall (ShapeOK ns0 r) slots ->
  (stop = None -> slots = [] \/ zlen slots <> n) ->
  nodes_loop cnt i start ns r n slots stop = (ns', slots', stop', e) ->
  no_hang e /\ Inv ns0 ns' (h ++ slots') /\ Forall (ShapeOK ns0 r) slots' /\
  (e = None -> stop' = None -> slots' = [] \/ zlen slots' <> n) /\
  (0 < r_nc r -> 0 < r_co r -> e = None).
Proof.
  intro Hr. induction cnt as [|cnt IH]; intros i ns slots stop ns' slots' stop' e HI Hne HS HJ Hl; cbn [nodes_loop] in Hl.
  - injection Hl as <- <- <- <-.
    split; [left; reflexivity|]. split; [exact HI|]. split; [exact HS|].
    split; [intros _ Hst; exact (HJ Hst) | intros _ _; reflexivity].
  - set (idx := (start + i) mod zlen ns) in *.
    assert (Hz : 0 < zlen ns) by (destruct ns; [congruence | rewrite zlen_cons; pose proof (zlen_nonneg ns); lia]).
    assert (Hidx : 0 <= idx < zlen ns) by (apply Z.mod_pos_bound; exact Hz).
    destruct (nth_error ns (Z.to_nat idx)) as [nd|] eqn:Hk.
    2:{ apply nth_error_None in Hk. unfold zlen in Hidx. lia. }
    destruct (node_loop (node_fuel nd n) nd r n slots) as [[[nd1 slots1] hit] e1] eqn:El.
    destruct (node_loop_spec ns0 h r n _ Hr _ _ _ _ _ _ _ _ HI Hk HS El) as [A [B [C [D E]]]].
    destruct e1 as [x|].
    + injection Hl as <- <- <- <-.
      split; [exact A|]. split; [exact B|]. split; [exact C|]. split; [intro H; discriminate H|].
      intros Hnc Hco. exfalso. destruct A as [A|A]; [discriminate A|]. 
      assert (Hng : 0 <= r_ng r) by (destruct Hr as [_ [_ [H _]]]; exact H).
      exact (node_loop_never_hangs r n Hnc Hco Hng _ _ _ _ _ _ _ (node_fuel_enough nd n) El A).
    + destruct (zlen slots1 =? n) eqn:En.
      * injection Hl as <- <- <- <-.
        split; [exact A|]. split; [exact B|]. split; [exact C|]. split; [|intros _ _; reflexivity].
        intros _ Hst. apply Z.eqb_eq in En.
        destruct hit; [discriminate|]. destruct (E eq_refl eq_refl) as [E1|E1]; [|contradiction].
        subst slots1. destruct (HJ Hst) as [J|J]; [left; exact J | contradiction].
      * apply Z.eqb_neq in En. eapply IH; [exact B | | exact C | | exact Hl].
        -- intro H0. apply (f_equal (@List.length node)) in H0. rewrite upd_length in H0. destruct ns; [congruence | discriminate].
        -- intros _. right. exact En.
Qed.

(* ------------------------------------------------- find_slots, release_slots *)

Lemma verify_nodes nl : nl_nodes (verify nl) = nl_nodes nl.
Proof. unfold verify. destruct (nl_nodes nl) eqn:E; [exact E | reflexivity]. Qed.

Theorem find_slots_spec ns0 nl h r n nl' res :
  Inv ns0 (nl_nodes nl) h -> rr_ok r -> find_slots nl r n = (nl', res) -> res <> RErr EHang ->
  match res with
  | RSlots sl => Inv ns0 (nl_nodes nl') (h ++ sl) /\ zlen sl = n /\ Forall (ShapeOK ns0 r) sl
  | _ => nl_nodes nl' = nl_nodes nl
  end.
Proof.
  intros HI Hr Hf Hnh. unfold find_slots in Hf.
  set (nl1 := match nl_ver nl with None => verify nl | Some _ => nl end) in *.
  assert (Hn1 : nl_nodes nl1 = nl_nodes nl) by (unfold nl1; destruct (nl_ver nl); [reflexivity | apply verify_nodes]).
  rewrite <- Hn1 in HI. rewrite <- Hn1. clear Hn1. clearbody nl1.
  destruct (assert_rr nl1 r n) as [x|]; [injection Hf as <- <-; reflexivity|].
  destruct (match nl_failed nl1 with Some (fr, fn) => rr_ge fr r && (fn >=? n) | None => false end);
    [injection Hf as <- <-; reflexivity|].
  destruct (nodes_loop (List.length (nl_nodes nl1)) 0 (nl_index nl1) (nl_nodes nl1) r n [] None)
    as [[[ns slots] stop] e] eqn:El.
  assert (HI0 : Inv ns0 (nl_nodes nl1) (h ++ [])) by (rewrite app_nil_r; exact HI).
  destruct (nl_nodes nl1) as [|nd0 rest] eqn:Hnodes.
  { cbn [List.length nodes_loop] in El. injection El as <- <- <- <-.
    destruct (negb (zlen (@nil slot) =? n)); cbn [dealloc_all] in Hf; injection Hf as <- <-; reflexivity. }
  destruct (nodes_loop_spec ns0 h r n _ Hr _ _ _ _ _ _ _ _ _ HI0 ltac:(discriminate)
              (Forall_nil _) (fun _ => or_introl eq_refl) El) as [A [B [C [D _]]]].
  destruct e as [x|].
  - injection Hf as <- <-. destruct A as [A|A]; [discriminate|]. injection A as ->. contradiction.
  - destruct (negb (zlen slots =? n)) eqn:En.
    + destruct (dealloc_all_suffix _ _ _ _ B) as [ns' [Hd HI']]. rewrite Hd in Hf. injection Hf as <- <-.
      cbn [nl_nodes]. eapply Inv_functional; [exact HI' | exact HI].
    + apply negb_false_iff, Z.eqb_eq in En. destruct stop as [st|].
      * injection Hf as <- <-. cbn [nl_nodes]. auto.
      * injection Hf as <- <-. cbn [nl_nodes]. destruct (D eq_refl eq_refl) as [D1|D1]; [|contradiction].
        subst slots. rewrite app_nil_r in B. eapply Inv_functional; [exact B | exact HI].
Qed.

(* the model's bound on the rounds of `while True` is never reached for positive core occupations *)
Theorem find_slots_no_hang ns0 nl h r n nl' res :
  Inv ns0 (nl_nodes nl) h -> rr_ok r -> 0 < r_co r -> find_slots nl r n = (nl', res) -> res <> RErr EHang.
Proof.
  intros HI Hr Hco Hf. unfold find_slots in Hf.
  set (nl1 := match nl_ver nl with None => verify nl | Some _ => nl end) in *.
  assert (Hn1 : nl_nodes nl1 = nl_nodes nl) by (unfold nl1; destruct (nl_ver nl); [reflexivity | apply verify_nodes]).
  rewrite <- Hn1 in HI. clear Hn1. clearbody nl1.
  destruct (assert_rr nl1 r n) as [x|] eqn:Ea.
  { injection Hf as <- <-. intro H. injection H as ->. exact (assert_rr_not_hang _ _ _ Ea). }
  pose proof (assert_rr_nc _ _ _ Ea) as Hnc0.
  assert (Hnc : 0 < r_nc r) by (destruct Hr as [H0 _]; lia).
  destruct (match nl_failed nl1 with Some (fr, fn) => rr_ge fr r && (fn >=? n) | None => false end);
    [injection Hf as <- <-; discriminate|].
  destruct (nodes_loop (List.length (nl_nodes nl1)) 0 (nl_index nl1) (nl_nodes nl1) r n [] None)
    as [[[ns slots] stop] e] eqn:El.
  assert (HI0 : Inv ns0 (nl_nodes nl1) (h ++ [])) by (rewrite app_nil_r; exact HI).
  destruct (nl_nodes nl1) as [|nd0 rest] eqn:Hnodes.
  { cbn [List.length nodes_loop] in El. injection El as <- <- <- <-.
    destruct (negb (zlen (@nil slot) =? n)); cbn [dealloc_all] in Hf; injection Hf as <- <-; discriminate. }
  destruct (nodes_loop_spec ns0 h r n _ Hr _ _ _ _ _ _ _ _ _ HI0 ltac:(discriminate)
              (Forall_nil _) (fun _ => or_introl eq_refl) El) as [A [B [C [D E]]]].
  rewrite (E Hnc Hco) in Hf.
  destruct (negb (zlen slots =? n)).
  - destruct (dealloc_all_suffix _ _ _ _ B) as [ns' [Hd HI']]. rewrite Hd in Hf. injection Hf as <- <-. discriminate.
  - destruct stop; injection Hf as <- <-; discriminate.
Qed.

Theorem release_slots_spec ns0 nl h sl nl' res :
  Inv ns0 (nl_nodes nl) h -> sub_held sl h = true -> release_slots nl sl = (nl', res) ->
  Inv ns0 (nl_nodes nl') (remove_all sl h) /\ (res = ROk \/ (res = RErr EValue /\ sl = [])).
Proof.
  intros HI Hs Hf. unfold release_slots in Hf.
  destruct (dealloc_all_held _ _ _ _ HI Hs) as [ns' [Hd HI']]. rewrite Hd in Hf.
  destruct (nl_failed nl) as [f|].
  - destruct sl as [|s sl]; injection Hf as <- <-; cbn [nl_nodes]; auto.
  - injection Hf as <- <-. cbn [nl_nodes]. auto.
Qed.
