(* AppSlots -- the `while True` loop of find_slots ends: every slot found on a
   node uses up at least one unit (1/64) of a core, so the rounds the model
   grants a node (64 per core, plus one) are never used up. *)
From Coq Require Import ZArith List Bool String Lia.
From RP Require Import AppSlots.Model AppSlots.Oracle AppSlots.Lists AppSlots.NodeProofs.
Import ListNotations.
Open Scope Z_scope.

(* free units of a resource list *)
Fixpoint free_units (cs : list (option Z)) : Z :=
  match cs with
  | [] => 0
  | None :: t => free_units t
  | Some o :: t => (BUSY - o) + free_units t
  end.

Fixpoint sum_snd (l : list (Z * Z)) : Z :=
  match l with [] => 0 | (_, d) :: l' => d + sum_snd l' end.

Lemma free_units_upd cs : forall k o d, nth_error cs k = Some (Some o) ->
  free_units (upd cs k (Some (o + d))) = free_units cs - d.
Proof.
  induction cs as [|c cs IH]; intros [|k] o d H; cbn in H; try discriminate.
  - injection H as ->. cbn [upd free_units]. lia.
  - cbn [upd free_units]. destruct c; rewrite (IH _ _ _ H); lia.
Qed.

Lemma alloc_list_units l : forall cs cs', alloc_list cs l = (cs', None) -> free_units cs' = free_units cs - sum_snd l.
Proof.
  induction l as [|[i d] l IH]; intros cs cs' H; cbn [alloc_list sum_snd] in *.
  - injection H as <-. lia.
  - destruct (get_pos cs i) as [k|]; [|discriminate]. unfold add_at in H.
    destruct (nth_error cs k) as [[o|]|] eqn:E; try discriminate.
    rewrite (IH _ _ H), (free_units_upd _ _ _ _ E). lia.
Qed.

Lemma free_units_bounds cs : bounded cs -> 0 <= free_units cs <= BUSY * zlen cs.
Proof.
  induction cs as [|c cs IH]; intro Hb; [unfold zlen, BUSY; cbn; lia|].
  assert (Hb' : bounded cs) by (intros p o Hp; exact (Hb (S p) o Hp)).
  specialize (IH Hb'). rewrite zlen_cons. cbn [free_units]. destruct c as [o|]; [|unfold BUSY in *; lia].
  pose proof (Hb O o eq_refl). unfold BUSY in *. lia.
Qed.

Lemma sum_snd_taken occ n cs l : ro_taken occ n cs l -> sum_snd l = n * occ.
Proof.
  intros [HF [_ Hn]]. subst n. clear - HF. induction HF as [|[i d] l Hd HF IH]; [reflexivity|].
  rewrite zlen_cons. cbn [sum_snd]. destruct Hd as [Hd _]. cbn in Hd. subst d. rewrite IH. lia.
Qed.

Lemma find_slot_cores nd r nd' s : find_slot nd r = (nd', FSlot s) ->
  alloc_list (nd_cores nd) (s_cores s) = (nd_cores nd', None).
Proof.
  unfold find_slot. intro H.
  destruct (negb (r_nc r =? 0) && _) ; [discriminate|].
  destruct (negb (r_ng r =? 0) && _) ; [discriminate|].
  destruct (match nd_lfs nd with Some l => _ | None => false end); [discriminate|].
  destruct (match nd_mem nd with Some m => _ | None => false end); [discriminate|].
  unfold alloc_apply in H. cbn [s_cores s_gpus s_lfs s_mem] in H.
  destruct (alloc_list (nd_cores nd) _) as [cs e1] eqn:E1. destruct e1; [discriminate|].
  destruct (alloc_list (nd_gpus nd) _) as [gs e2] eqn:E2. destruct e2; [discriminate|].
  injection H as <- <-. cbn [nd_cores s_cores]. exact E1.
Qed.

Theorem node_loop_no_hang n0 r n : rr_ok r -> 0 < r_nc r -> 0 < r_co r ->
  forall fuel fc fg fl fm nd slots nd' slots' hit e,
  NodeRel fc fg fl fm n0 nd -> (Z.to_nat (free_units (nd_cores nd)) < fuel)%nat ->
  node_loop fuel nd r n slots = (nd', slots', hit, e) -> e <> Some EHang.
Proof.
  intros Hr Hnc Hco. induction fuel as [|fuel IH]; intros fc fg fl fm nd slots nd' slots' hit e HN Hlt Hl; [lia|].
  cbn [node_loop] in Hl. destruct (find_slot nd r) as [nd1 fr] eqn:Ef.
  pose proof (find_slot_spec _ _ _ _ _ _ _ _ _ HN Hr Ef) as Hs.
  destruct fr as [s| |x].
  - destruct Hs as [HS HN1].
    destruct (zlen (slots ++ [s]) =? n); [injection Hl as <- <- <- <-; discriminate|].
    eapply IH; [exact HN1 | | exact Hl].
    pose proof (alloc_list_units _ _ _ (find_slot_cores _ _ _ _ Ef)) as Hu.
    rewrite (sum_snd_taken _ _ _ _ (sf_c _ _ _ HS)) in Hu.
    pose proof (free_units_bounds _ (nr_bc _ _ _ _ _ _ HN1)). pose proof (free_units_bounds _ (nr_bc _ _ _ _ _ _ HN)).
    unfold BUSY in *. nia.
  - injection Hl as <- <- <- <-. discriminate.
  - contradiction.
Qed.

Lemma node_fuel_enough fc fg fl fm n0 nd : NodeRel fc fg fl fm n0 nd ->
  (Z.to_nat (free_units (nd_cores nd)) < node_fuel nd)%nat.
Proof.
  intro HN. pose proof (free_units_bounds _ (nr_bc _ _ _ _ _ _ HN)). unfold node_fuel, BUSY in *. lia.
Qed.

Lemma assert_rr_nc nl r n : assert_rr nl r n = None -> r_nc r <> 0.
Proof.
  unfold assert_rr. destruct (nl_ver nl) as [v|].
  - destruct (negb (v_uniform v)); [discriminate|]. destruct (r_nc r =? 0) eqn:E; [discriminate|].
    intros _. apply Z.eqb_neq. exact E.
  - destruct (r_nc r =? 0); discriminate.
Qed.
