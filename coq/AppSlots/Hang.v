(* AppSlots -- the `while True` loop of find_slots ends: every slot found on a
   node uses up at least one unit (1/64) of a core that had room for it, so the
   rounds the model grants a node (the free units of its cores, plus n_slots, plus one) are
   never used up -- in ANY state of the node list, also with occupations
   outside FREE .. BUSY (negative after a release of something not held). *)
From Coq Require Import ZArith List Bool String Lia.
From RP Require Import AppSlots.Model AppSlots.Oracle AppSlots.Lists AppSlots.NodeProofs.
Import ListNotations.
Open Scope Z_scope.

Fixpoint sum_snd (l : list (Z * Z)) : Z :=
  match l with [] => 0 | (_, d) :: l' => d + sum_snd l' end.

Lemma free_pos_nonneg cs : 0 <= free_pos cs.
Proof. induction cs as [|[o|] cs IH]; cbn [free_pos]; lia. Qed.

Lemma free_pos_upd cs : forall k o d, nth_error cs k = Some (Some o) -> 0 <= d <= BUSY - o ->
  free_pos (upd cs k (Some (o + d))) = free_pos cs - d.
Proof.
  induction cs as [|c cs IH]; intros [|k] o d H Hd; cbn in H; try discriminate.
  - injection H as ->. cbn [upd free_pos]. lia.
  - cbn [upd free_pos]. destruct c; rewrite (IH _ _ _ H Hd); lia.
Qed.

Lemma Incr_lower lo hi l : Incr lo hi l -> Forall (fun p => lo <= fst p) l.
Proof.
  revert lo. induction l as [|[i d] l IH]; intros lo H; constructor; cbn in *.
  - lia.
  - destruct H as [Hi H]. eapply Forall_impl; [|exact (IH _ H)]. cbn. intros a Ha. lia.
Qed.

(* taking a list the search found lowers the free units by exactly what the list says *)
Lemma taken_units occ l : 0 <= occ -> forall cs cs' lo hi,
  Forall (takes occ cs) l -> Incr lo hi l -> alloc_list cs l = (cs', None) ->
  free_pos cs' = free_pos cs - sum_snd l.
Proof.
  intro Ho. induction l as [|[i d] l IH]; intros cs cs' lo hi HF HI Ha; cbn [alloc_list sum_snd] in *.
  - injection Ha as <-. lia.
  - pose proof (Forall_inv HF) as [Hd [Hi [o [Hn Hle]]]]. cbn [fst snd] in *. subst d.
    destruct HI as [Hlo HI].
    destruct (get_pos_in cs i _ Hi Hn) as [Hg _]. rewrite Hg, (add_at_spec cs _ occ o Hn) in Ha.
    assert (HF1 : Forall (takes occ (upd cs (Z.to_nat i) (Some (o + occ)))) l).
    { pose proof (Incr_lower _ _ _ HI) as Hlow. rewrite Forall_forall in *. intros p Hp.
      destruct (HF p (or_intror Hp)) as [A [B [o2 [C D]]]]. pose proof (Hlow p Hp) as Hge. cbn in Hge.
      split; [exact A|]. split; [exact B|]. exists o2. split; [|exact D].
      rewrite nth_error_upd_other; [exact C|]. intro E. apply Z2Nat.inj in E; lia. }
    rewrite (IH _ _ _ _ HF1 HI Ha), (free_pos_upd _ _ _ _ Hn); lia.
Qed.

Lemma sum_snd_taken occ n cs l : ro_taken occ n cs l -> sum_snd l = n * occ.
Proof.
  intros [HF [_ Hn]]. subst n. clear - HF. induction HF as [|[i d] l Hd HF IH]; [reflexivity|].
  rewrite zlen_cons. cbn [sum_snd]. destruct Hd as [Hd _]. cbn in Hd. subst d. rewrite IH. lia.
Qed.

(* Node.find_slot in any state: no exception, and what a found slot takes from the cores *)
Lemma find_slot_any nd r nd' fr : 0 <= r_nc r -> 0 <= r_ng r -> find_slot nd r = (nd', fr) ->
  match fr with
  | FErr _ => False
  | FNone => True
  | FSlot s => ro_taken (r_co r) (r_nc r) (nd_cores nd) (s_cores s) /\
               alloc_list (nd_cores nd) (s_cores s) = (nd_cores nd', None)
  end.
Proof.
  intros Hnc Hng Hf. unfold find_slot in Hf.
  set (cores := if r_nc r =? 0 then [] else pick (r_co r) (r_nc r) (nd_cores nd) 0 []) in *.
  set (gpus := if r_ng r =? 0 then [] else pick (r_go r) (r_ng r) (nd_gpus nd) 0 []) in *.
  destruct (negb (r_nc r =? 0) && (zlen cores <? r_nc r)) eqn:Ec; [injection Hf as <- <-; exact I|].
  destruct (negb (r_ng r =? 0) && (zlen gpus <? r_ng r)) eqn:Eg; [injection Hf as <- <-; exact I|].
  destruct (match nd_lfs nd with Some l => _ | None => false end); [injection Hf as <- <-; exact I|].
  destruct (match nd_mem nd with Some m => _ | None => false end); [injection Hf as <- <-; exact I|].
  pose proof (pick_part (r_co r) (r_nc r) (nd_cores nd) Hnc Ec) as Htc. fold cores in Htc.
  pose proof (pick_part (r_go r) (r_ng r) (nd_gpus nd) Hng Eg) as Htg. fold gpus in Htg.
  destruct (alloc_list_ok cores (nd_cores nd) (takes_fit _ _ _ (proj1 Htc))) as [cs' [Hac _]].
  destruct (alloc_list_ok gpus (nd_gpus nd) (takes_fit _ _ _ (proj1 Htg))) as [gs' [Hag _]].
  unfold alloc_apply in Hf. cbn [s_cores s_gpus s_lfs s_mem] in Hf. rewrite Hac, Hag in Hf.
  injection Hf as <- <-. cbn [s_cores nd_cores]. split; [exact Htc | exact Hac].
Qed.

Theorem node_loop_never_hangs r n : 0 < r_nc r -> 0 < r_co r -> 0 <= r_ng r ->
  forall fuel nd slots nd' slots' hit e,
  (Z.to_nat (free_pos (nd_cores nd)) < fuel)%nat ->
  node_loop fuel nd r n slots = (nd', slots', hit, e) -> e <> Some EHang.
Proof.
  intros Hnc Hco Hng. induction fuel as [|fuel IH]; intros nd slots nd' slots' hit e Hlt Hl; [lia|].
  cbn [node_loop] in Hl. destruct (find_slot nd r) as [nd1 fr] eqn:Ef.
  pose proof (find_slot_any nd r nd1 fr (Z.lt_le_incl _ _ Hnc) Hng Ef) as Hs.
  destruct fr as [s| |x].
  - destruct Hs as [HT Ha].
    destruct (zlen (slots ++ [s]) =? n); [injection Hl as <- <- <- <-; discriminate|].
    eapply IH; [| exact Hl].
    pose proof (taken_units _ _ (Z.lt_le_incl _ _ Hco) _ _ _ _ (proj1 HT) (proj1 (proj2 HT)) Ha) as Hu.
    rewrite (sum_snd_taken _ _ _ _ HT) in Hu.
    pose proof (free_pos_nonneg (nd_cores nd1)). pose proof (free_pos_nonneg (nd_cores nd)). nia.
  - injection Hl as <- <- <- <-. discriminate.
  - contradiction.
Qed.

Lemma node_fuel_enough nd n : (Z.to_nat (free_pos (nd_cores nd)) < node_fuel nd n)%nat.
Proof. unfold node_fuel. lia. Qed.

Lemma nodes_loop_never_hangs r n start : 0 < r_nc r -> 0 < r_co r -> 0 <= r_ng r ->
  forall cnt i ns slots stop ns' slots' stop' e,
  nodes_loop cnt i start ns r n slots stop = (ns', slots', stop', e) -> e <> Some EHang.
Proof.
  intros Hnc Hco Hng. induction cnt as [|cnt IH]; intros i ns slots stop ns' slots' stop' e Hl; cbn [nodes_loop] in Hl.
  - injection Hl as <- <- <- <-. discriminate.
  - destruct (nth_error ns (Z.to_nat ((start + i) mod zlen ns))) as [nd|]; [|injection Hl as <- <- <- <-; discriminate].
    destruct (node_loop (node_fuel nd n) nd r n slots) as [[[nd1 slots1] hit] e1] eqn:El.
    pose proof (node_loop_never_hangs r n Hnc Hco Hng _ _ _ _ _ _ _ (node_fuel_enough nd n) El) as Hne.
    destruct e1 as [x|]; [injection Hl as <- <- <- <-; exact Hne|].
    destruct (zlen slots1 =? n); [injection Hl as <- <- <- <-; discriminate|].
    eapply IH. exact Hl.
Qed.

Lemma dealloc_list_not_hang l : forall cs cs' e, dealloc_list cs l = (cs', Some e) -> e <> EHang.
Proof.
  induction l as [|[i d] l IH]; intros cs cs' e H; cbn [dealloc_list] in H; [discriminate|].
  destruct (py_pos cs i) as [k|]; [|injection H as <- <-; discriminate].
  destruct (add_at cs k (- d)) as [cs1|]; [|injection H as <- <-; discriminate].
  eapply IH. exact H.
Qed.

Lemma deallocate_not_hang nd s nd' e : deallocate_slot nd s = (nd', Some e) -> e <> EHang.
Proof.
  unfold deallocate_slot. destruct (dealloc_list (nd_cores nd) (s_cores s)) as [cs e1] eqn:E1.
  destruct e1 as [x|]; [intro H; injection H as <- <-; exact (dealloc_list_not_hang _ _ _ _ E1)|].
  destruct (dealloc_list (nd_gpus nd) (s_gpus s)) as [gs e2] eqn:E2.
  destruct e2 as [x|]; [intro H; injection H as <- <-; exact (dealloc_list_not_hang _ _ _ _ E2)|].
  discriminate.
Qed.

Lemma dealloc_all_not_hang sl : forall ns ns' e, dealloc_all ns sl = (ns', Some e) -> e <> EHang.
Proof.
  induction sl as [|s sl IH]; intros ns ns' e H; cbn [dealloc_all] in H; [discriminate|].
  destruct (get_node ns (s_nidx s)) as [k|]; [|injection H as <- <-; discriminate].
  destruct (nth_error ns k) as [nd|]; [|injection H as <- <-; discriminate].
  destruct (deallocate_slot nd s) as [nd' [x|]] eqn:Ed.
  - injection H as <- <-. exact (deallocate_not_hang _ _ _ _ Ed).
  - eapply IH. exact H.
Qed.

Lemma assert_rr_nc nl r n : assert_rr nl r n = None -> r_nc r <> 0.
Proof.
  unfold assert_rr. destruct (nl_ver nl) as [v|].
  - destruct (negb (v_uniform v)); [discriminate|]. destruct (r_nc r =? 0) eqn:E; [discriminate|].
    intros _. apply Z.eqb_neq. exact E.
  - destruct (r_nc r =? 0); discriminate.
Qed.

Lemma assert_rr_not_hang nl r n : assert_rr nl r n <> Some EHang.
Proof.
  unfold assert_rr. destruct (nl_ver nl) as [v|]; [|destruct (r_nc r =? 0); discriminate].
  destruct (negb (v_uniform v)); [discriminate|]. destruct (r_nc r =? 0); [discriminate|].
  destruct (r_lfs r =? 0); [| destruct (v_lfs v); [|discriminate]];
    (destruct (r_mem r =? 0); [| destruct (v_mem v); [|discriminate]]);
    (destruct (qlt _ (1, 1)); [discriminate|]; destruct (qlt _ (n, 1)); discriminate).
Qed.

(* NodeList.find_slots in ANY state of the node list (whatever was released before, held or not):
   the model's bound on the rounds of `while True` is never reached *)
Theorem find_slots_never_hangs nl r n nl' res :
  0 <= r_nc r -> 0 <= r_ng r -> 0 < r_co r -> find_slots nl r n = (nl', res) -> res <> RErr EHang.
Proof.
  intros Hnc0 Hng Hco Hf. unfold find_slots in Hf.
  set (nl1 := match nl_ver nl with None => verify nl | Some _ => nl end) in *. clearbody nl1.
  destruct (assert_rr nl1 r n) as [x|] eqn:Ea.
  { injection Hf as <- <-. intro H. injection H as ->. exact (assert_rr_not_hang _ _ _ Ea). }
  pose proof (assert_rr_nc _ _ _ Ea) as Hnc1. assert (Hnc : 0 < r_nc r) by lia.
  destruct (match nl_failed nl1 with Some (fr, fn) => rr_ge fr r && (fn >=? n) | None => false end);
    [injection Hf as <- <-; discriminate|].
  destruct (nodes_loop (List.length (nl_nodes nl1)) 0 (nl_index nl1) (nl_nodes nl1) r n [] None)
    as [[[ns slots] stop] e] eqn:El.
  pose proof (nodes_loop_never_hangs r n _ Hnc Hco Hng _ _ _ _ _ _ _ _ _ El) as Hne.
  destruct e as [x|]; [injection Hf as <- <-; intro H; injection H as ->; contradiction|].
  destruct (negb (zlen slots =? n)).
  - destruct (dealloc_all ns slots) as [ns' [x|]] eqn:Ed; injection Hf as <- <-; [|discriminate].
    intro H. injection H as ->. exact (dealloc_all_not_hang _ _ _ _ Ed eq_refl).
  - destruct stop; injection Hf as <- <-; discriminate.
Qed.
