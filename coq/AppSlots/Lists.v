(* AppSlots -- list facts: positional update, the occupation loops of
   allocate_slot / deallocate_slot, the search loop of find_slot. *)
From Coq Require Import ZArith List Bool Lia.
From RP Require Import AppSlots.Model AppSlots.Oracle.
Import ListNotations.
Open Scope Z_scope.

Lemma zlen_nonneg {A} (l : list A) : 0 <= zlen l.
Proof. unfold zlen. lia. Qed.

Lemma zlen_app {A} (a b : list A) : zlen (a ++ b) = zlen a + zlen b.
Proof. unfold zlen. rewrite app_length. lia. Qed.

Lemma zlen_cons {A} (x : A) (l : list A) : zlen (x :: l) = 1 + zlen l.
Proof. unfold zlen. cbn [List.length]. lia. Qed.

Lemma nth_error_ext {A} (a b : list A) : (forall p, nth_error a p = nth_error b p) -> a = b.
Proof.
  revert b. induction a as [|x a IH]; intros [|y b] H; try reflexivity.
  - specialize (H O). discriminate.
  - specialize (H O). discriminate.
  - pose proof (H O) as H0. cbn in H0. injection H0 as ->. f_equal. apply IH. intro p. exact (H (S p)).
Qed.

Lemma upd_length {A} (l : list A) k x : List.length (upd l k x) = List.length l.
Proof. revert k. induction l as [|h t IH]; intros [|k]; cbn; auto. Qed.

Lemma nth_error_upd {A} (l : list A) k x p :
  nth_error (upd l k x) p = if Nat.eqb p k then (match nth_error l k with Some _ => Some x | None => None end)
                            else nth_error l p.
Proof.
  revert k p. induction l as [|h t IH]; intros k p.
  - destruct k, p; cbn; try reflexivity; destruct (Nat.eqb p k); reflexivity.
  - destruct k as [|k], p as [|p]; cbn; try reflexivity. apply IH.
Qed.

Lemma nth_error_upd_same {A} (l : list A) k x y : nth_error l k = Some y -> nth_error (upd l k x) k = Some x.
Proof. intro H. rewrite nth_error_upd, Nat.eqb_refl, H. reflexivity. Qed.

Lemma nth_error_upd_other {A} (l : list A) k x p : p <> k -> nth_error (upd l k x) p = nth_error l p.
Proof. intro H. rewrite nth_error_upd. apply Nat.eqb_neq in H. rewrite H. reflexivity. Qed.

Lemma upd_same {A} (l : list A) k x : nth_error l k = Some x -> upd l k x = l.
Proof.
  intro H. apply nth_error_ext. intro p. rewrite nth_error_upd.
  destruct (Nat.eqb p k) eqn:E; [apply Nat.eqb_eq in E; subst; rewrite H; reflexivity | reflexivity].
Qed.

(* ---------------------------------------------------------------- Forall2 *)

Lemma Forall2_nth_l {A B} (R : A -> B -> Prop) l0 l k a :
  Forall2 R l0 l -> nth_error l0 k = Some a -> exists b, nth_error l k = Some b /\ R a b.
Proof.
  intro H. revert k. induction H as [|x y l0 l Hxy H IH]; intros [|k] Hk; cbn in *; try discriminate.
  - injection Hk as <-. eauto.
  - apply IH. exact Hk.
Qed.

Lemma Forall2_nth_r {A B} (R : A -> B -> Prop) l0 l k b :
  Forall2 R l0 l -> nth_error l k = Some b -> exists a, nth_error l0 k = Some a /\ R a b.
Proof.
  intro H. revert k. induction H as [|x y l0 l Hxy H IH]; intros [|k] Hk; cbn in *; try discriminate.
  - injection Hk as <-. eauto.
  - apply IH. exact Hk.
Qed.

Lemma Forall2_len {A B} (R : A -> B -> Prop) l0 l : Forall2 R l0 l -> List.length l0 = List.length l.
Proof. induction 1; cbn; congruence. Qed.

(* replace the k-th element and change the relation everywhere else *)
Lemma Forall2_upd_change {A B} (R R' : A -> B -> Prop) l0 l k a b' :
  Forall2 R l0 l -> nth_error l0 k = Some a -> R' a b' ->
  (forall p x y, p <> k -> nth_error l0 p = Some x -> nth_error l p = Some y -> R x y -> R' x y) ->
  Forall2 R' l0 (upd l k b').
Proof.
  intro H. revert k. induction H as [|x y l0 l Hxy H IH]; intros k Hk Hb Hoth.
  - destruct k; discriminate.
  - destruct k as [|k]; cbn in *.
    + injection Hk as <-. constructor; [exact Hb|].
      clear IH. assert (Hall : forall p x' y', nth_error l0 p = Some x' -> nth_error l p = Some y' -> R x' y' -> R' x' y').
      { intros p x' y' H1 H2 H3. apply (Hoth (S p)); auto. }
      clear Hoth. induction H as [|x1 y1 l0 l H1 H IH2]; constructor.
      * apply (Hall O); auto.
      * apply IH2. intros p x' y' Ha Hb' Hc. apply (Hall (S p)); auto.
    + constructor.
      * apply (Hoth O); auto.
      * apply IH; auto. intros p x' y' Hp H1 H2 H3. apply (Hoth (S p)); auto.
Qed.

Lemma Forall2_impl {A B} (R R' : A -> B -> Prop) l0 l :
  (forall a b, R a b -> R' a b) -> Forall2 R l0 l -> Forall2 R' l0 l.
Proof. intros H HF. induction HF; constructor; auto. Qed.

Lemma Forall2_functional {A B} (R : A -> B -> Prop) l0 a b :
  (forall x y z, R x y -> R x z -> y = z) -> Forall2 R l0 a -> Forall2 R l0 b -> a = b.
Proof.
  intros HR Ha. revert b. induction Ha as [|x y l0 a Hxy Ha IH]; intros b Hb; inversion Hb; subst; auto.
  f_equal; [eapply HR; eauto | apply IH; assumption].
Qed.

Lemma forallb2_of_Forall2 {A B} (R : A -> B -> Prop) (f : A -> B -> bool) l0 l :
  (forall a b, R a b -> f a b = true) -> Forall2 R l0 l -> forallb2 f l0 l = true.
Proof. intros H HF. induction HF; cbn; auto. rewrite H by assumption. assumption. Qed.

Lemma forallb_of_Forall2_l {A B} (R : A -> B -> Prop) (f : A -> bool) l0 l :
  (forall a b, R a b -> f a = true) -> Forall2 R l0 l -> forallb f l0 = true.
Proof. intros H HF. induction HF; cbn; auto. erewrite H by eassumption. assumption. Qed.

(* -------------------------------------------------------- sum_at and lists *)

Lemma sum_at_app j a b : sum_at j (a ++ b) = sum_at j a + sum_at j b.
Proof. induction a as [|[i d] a IH]; cbn [sum_at app]; lia. Qed.

(* a list of RO names usable (in range, not DOWN) entries of cs *)
Definition ro_fit (cs : list (option Z)) (l : list (Z * Z)) : Prop :=
  Forall (fun p => 0 <= fst p /\ exists a, nth_error cs (Z.to_nat (fst p)) = Some (Some a)) l.

Definition shifted (g : Z -> Z) (cs cs' : list (option Z)) : Prop :=
  forall p, nth_error cs' p = match nth_error cs p with
                              | Some (Some o) => Some (Some (o + g (Z.of_nat p)))
                              | x => x
                              end.

Lemma shifted_zero cs : shifted (fun _ => 0) cs cs.
Proof. intro p. destruct (nth_error cs p) as [[o|]|]; auto. f_equal. f_equal. lia. Qed.

Lemma shifted_length g cs cs' : shifted g cs cs' -> List.length cs' = List.length cs.
Proof.
  intro H.
  destruct (Nat.lt_trichotomy (List.length cs') (List.length cs)) as [L|[L|L]]; auto; exfalso.
  - pose proof (H (List.length cs')) as Hp.
    rewrite (proj2 (nth_error_None cs' _)) in Hp by lia.
    destruct (nth_error cs (List.length cs')) as [[o|]|] eqn:E; try discriminate.
    apply nth_error_None in E. lia.
  - pose proof (H (List.length cs)) as Hp.
    rewrite (proj2 (nth_error_None cs _)) in Hp by lia.
    apply nth_error_None in Hp. lia.
Qed.

Lemma get_pos_in {A} (l : list A) i x :
  0 <= i -> nth_error l (Z.to_nat i) = Some x -> get_pos l i = Some (Z.to_nat i) /\ py_pos l i = Some (Z.to_nat i).
Proof.
  intros Hi Hn. assert (Hlt : (Z.to_nat i < List.length l)%nat) by (apply nth_error_Some; congruence).
  unfold get_pos, py_pos, zlen.
  assert (E : (0 <=? i) && (i <? Z.of_nat (List.length l)) = true).
  { apply andb_true_iff. split; [apply Z.leb_le; lia | apply Z.ltb_lt; lia]. }
  rewrite E. auto.
Qed.

Lemma add_at_spec cs k d o :
  nth_error cs k = Some (Some o) ->
  add_at cs k d = Some (upd cs k (Some (o + d))).
Proof. intro H. unfold add_at. rewrite H. reflexivity. Qed.

(* the allocation loop adds, entry by entry, what the list says *)
Lemma alloc_list_ok l : forall cs, ro_fit cs l ->
  exists cs', alloc_list cs l = (cs', None) /\ shifted (fun j => sum_at j l) cs cs'.
Proof.
  induction l as [|[i d] l IH]; intros cs Hf.
  - exists cs. split; [reflexivity | apply shifted_zero].
  - inversion Hf as [|x l' Hx Hl]; subst. cbn [fst] in Hx. destruct Hx as [Hi [a Ha]].
    destruct (get_pos_in cs i _ Hi Ha) as [Hg _].
    cbn [alloc_list]. rewrite Hg, (add_at_spec cs _ d a Ha).
    set (cs1 := upd cs (Z.to_nat i) (Some (a + d))).
    assert (Hf1 : ro_fit cs1 l).
    { unfold ro_fit in *. rewrite Forall_forall in *. intros p Hp. destruct (Hl p Hp) as [Hp0 [b Hb]].
      split; [exact Hp0|]. unfold cs1. rewrite nth_error_upd.
      destruct (Nat.eqb (Z.to_nat (fst p)) (Z.to_nat i)) eqn:E.
      - rewrite Ha. eauto.
      - eauto. }
    destruct (IH cs1 Hf1) as [cs' [Hal Hsh]]. exists cs'. split; [exact Hal|].
    intro p. rewrite (Hsh p). unfold cs1. rewrite nth_error_upd.
    destruct (Nat.eqb p (Z.to_nat i)) eqn:E.
    + apply Nat.eqb_eq in E. subst p. rewrite Ha. cbn [sum_at]. rewrite Z2Nat.id by lia.
      rewrite Z.eqb_refl. f_equal. f_equal. lia.
    + apply Nat.eqb_neq in E.
      assert (Hs : sum_at (Z.of_nat p) ((i, d) :: l) = sum_at (Z.of_nat p) l).
      { cbn [sum_at]. destruct (i =? Z.of_nat p) eqn:E2;
          [apply Z.eqb_eq in E2; subst i; rewrite Nat2Z.id in E; congruence | lia]. }
      rewrite Hs. reflexivity.
Qed.

Lemma dealloc_list_ok l : forall cs, ro_fit cs l ->
  exists cs', dealloc_list cs l = (cs', None) /\ shifted (fun j => - sum_at j l) cs cs'.
Proof.
  induction l as [|[i d] l IH]; intros cs Hf.
  - exists cs. split; [reflexivity | apply shifted_zero].
  - inversion Hf as [|x l' Hx Hl]; subst. cbn [fst] in Hx. destruct Hx as [Hi [a Ha]].
    destruct (get_pos_in cs i _ Hi Ha) as [_ Hg].
    cbn [dealloc_list]. rewrite Hg, (add_at_spec cs _ (- d) a Ha).
    set (cs1 := upd cs (Z.to_nat i) (Some (a + - d))).
    assert (Hf1 : ro_fit cs1 l).
    { unfold ro_fit in *. rewrite Forall_forall in *. intros p Hp. destruct (Hl p Hp) as [Hp0 [b Hb]].
      split; [exact Hp0|]. unfold cs1. rewrite nth_error_upd.
      destruct (Nat.eqb (Z.to_nat (fst p)) (Z.to_nat i)) eqn:E.
      - rewrite Ha. eauto.
      - eauto. }
    destruct (IH cs1 Hf1) as [cs' [Hal Hsh]]. exists cs'. split; [exact Hal|].
    intro p. rewrite (Hsh p). unfold cs1. rewrite nth_error_upd.
    destruct (Nat.eqb p (Z.to_nat i)) eqn:E.
    + apply Nat.eqb_eq in E. subst p. rewrite Ha. cbn [sum_at]. rewrite Z2Nat.id by lia.
      rewrite Z.eqb_refl. f_equal. f_equal. lia.
    + apply Nat.eqb_neq in E.
      assert (Hs : sum_at (Z.of_nat p) ((i, d) :: l) = sum_at (Z.of_nat p) l).
      { cbn [sum_at]. destruct (i =? Z.of_nat p) eqn:E2;
          [apply Z.eqb_eq in E2; subst i; rewrite Nat2Z.id in E; congruence | lia]. }
      rewrite Hs. reflexivity.
Qed.

(* -------------------------------------------------------- the search loop *)

(* strictly increasing indices within [lo, hi) *)
Fixpoint Incr (lo hi : Z) (l : list (Z * Z)) : Prop :=
  match l with
  | [] => True
  | (i, _) :: l' => lo <= i < hi /\ Incr (i + 1) hi l'
  end.

Lemma Incr_weaken lo lo' hi hi' l : lo' <= lo -> hi <= hi' -> Incr lo hi l -> Incr lo' hi' l.
Proof.
  revert lo lo'. induction l as [|[i d] l IH]; intros lo lo' H1 H2 H; cbn in *; auto.
  destruct H as [Hi H]. split; [lia|]. eapply IH; [| exact H2 | exact H]. lia.
Qed.

Lemma Incr_snoc lo i d l : lo <= i -> Incr lo i l -> Incr lo (i + 1) (l ++ [(i, d)]).
Proof.
  revert lo. induction l as [|[j e] l IH]; intros lo Hlo H; cbn in *.
  - split; [lia|exact I].
  - destruct H as [Hj H]. split; [lia|]. apply IH; [lia | exact H].
Qed.

Lemma Incr_sum_below lo hi l j : Incr lo hi l -> j < lo -> sum_at j l = 0.
Proof.
  revert lo. induction l as [|[i d] l IH]; intros lo H Hj; cbn in *; auto.
  destruct H as [Hi H]. destruct (i =? j) eqn:E; [apply Z.eqb_eq in E; lia|].
  rewrite (IH (i + 1)); auto; lia.
Qed.

Lemma Incr_increasing lo hi l : Incr lo hi l -> increasing lo l = true.
Proof.
  revert lo. induction l as [|[i d] l IH]; intros lo H; cbn in *; auto.
  destruct H as [Hi H]. apply andb_true_iff. split; [apply Z.leb_le; lia | apply IH; exact H].
Qed.

(* with all occupations equal to occ: what the list adds to index j is 0 or occ *)
Lemma Incr_sum_cases lo hi l occ j :
  Incr lo hi l -> Forall (fun p => snd p = occ) l ->
  sum_at j l = 0 \/ (sum_at j l = occ /\ In (j, occ) l).
Proof.
  revert lo. induction l as [|[i d] l IH]; intros lo H HF; cbn [sum_at]; auto.
  cbn in H. destruct H as [Hi H]. pose proof (Forall_inv HF) as Hd. pose proof (Forall_inv_tail HF) as HF'.
  cbn in Hd. subst d.
  destruct (i =? j) eqn:E.
  - apply Z.eqb_eq in E. subst i. right. rewrite (Incr_sum_below _ _ _ j H) by lia. split; [lia | left; reflexivity].
  - destruct (IH _ H HF') as [H0|[H1 H2]]; [left; lia | right; split; [lia | right; exact H2]].
Qed.

Lemma sum_at_notin l j : (forall d, ~ In (j, d) l) -> sum_at j l = 0.
Proof.
  induction l as [|[i d] l IH]; intro H; cbn [sum_at]; auto.
  destruct (i =? j) eqn:E.
  - apply Z.eqb_eq in E. subst. exfalso. apply (H d). left. reflexivity.
  - rewrite IH; [lia|]. intros d' Hd. apply (H d'). right. exact Hd.
Qed.

Lemma sum_at_nonneg l j : Forall (fun p => 0 <= snd p) l -> 0 <= sum_at j l.
Proof.
  induction 1 as [|[i d] l Hd HF IH]; cbn [sum_at]; [lia|]. cbn in Hd. destruct (i =? j); lia.
Qed.

(* an entry the search may take: in range, not DOWN, room for occ *)
Definition takes (occ : Z) (full : list (option Z)) (p : Z * Z) : Prop :=
  snd p = occ /\ 0 <= fst p /\ exists o, nth_error full (Z.to_nat (fst p)) = Some (Some o) /\ occ <= BUSY - o.

Lemma pick_spec occ n cs : forall pre acc,
  0 < n -> zlen acc < n ->
  Forall (takes occ (pre ++ cs)) acc -> Incr 0 (zlen pre) acc ->
  let r := pick occ n cs (zlen pre) acc in
  Forall (takes occ (pre ++ cs)) r /\ Incr 0 (zlen (pre ++ cs)) r /\ zlen r <= n.
Proof.
  induction cs as [|c cs IH]; intros pre acc Hn Hacc HF HI; cbn [pick].
  - rewrite app_nil_r in *. repeat split; auto. lia.
  - assert (Hpre : pre ++ c :: cs = (pre ++ [c]) ++ cs) by (rewrite <- app_assoc; reflexivity).
    assert (Hz : zlen (pre ++ [c]) = zlen pre + 1) by (rewrite zlen_app; unfold zlen; cbn; lia).
    destruct c as [o|].
    + set (acc' := if occ <=? BUSY - o then acc ++ [(zlen pre, occ)] else acc).
      assert (HF' : Forall (takes occ (pre ++ Some o :: cs)) acc').
      { unfold acc'. destruct (occ <=? BUSY - o) eqn:E; [|exact HF].
        apply Forall_app. split; [exact HF|]. constructor; [|constructor].
        unfold takes. cbn [fst snd]. split; [reflexivity|]. split; [apply zlen_nonneg|].
        exists o. split; [|apply Z.leb_le; exact E].
        unfold zlen. rewrite Nat2Z.id. rewrite nth_error_app2 by lia. rewrite Nat.sub_diag. reflexivity. }
      assert (HI' : Incr 0 (zlen pre + 1) acc').
      { unfold acc'. destruct (occ <=? BUSY - o).
        - apply Incr_snoc; [apply zlen_nonneg | exact HI].
        - eapply Incr_weaken; [| | exact HI]; lia. }
      assert (Hl' : zlen acc' <= n).
      { unfold acc'. destruct (occ <=? BUSY - o); [rewrite zlen_app; unfold zlen at 2; cbn; lia | lia]. }
      fold acc'. destruct (zlen acc' =? n) eqn:E.
      * split; [exact HF'|]. split; [|lia].
        assert (Hle : zlen pre + 1 <= zlen (pre ++ Some o :: cs)).
        { rewrite zlen_app, zlen_cons. pose proof (zlen_nonneg cs). lia. }
        eapply Incr_weaken; [| exact Hle | exact HI']. lia.
      * apply Z.eqb_neq in E. rewrite Hpre in *. rewrite <- Hz. apply IH.
        -- exact Hn.
        -- lia.
        -- exact HF'.
        -- rewrite Hz. exact HI'.
    + rewrite Hpre in *. rewrite <- Hz. apply IH.
      * exact Hn.
      * exact Hacc.
      * exact HF.
      * rewrite Hz. eapply Incr_weaken; [| | exact HI]; lia.
Qed.

Lemma pick_top occ n cs : 0 < n ->
  let r := pick occ n cs 0 [] in
  Forall (takes occ cs) r /\ Incr 0 (zlen cs) r /\ zlen r <= n.
Proof.
  intro Hn. pose proof (pick_spec occ n cs [] [] Hn) as H. cbn [app] in H. apply H.
  - unfold zlen; cbn; lia.
  - constructor.
  - exact I.
Qed.
