(* AppSlots -- Node.allocate_slot(slot, _check=True) on a node of the list keeps the accounting invariant:
   the application-made slot joins the slots held. *)
From Coq Require Import ZArith List Bool String Lia.
From RP Require Import AppSlots.Model AppSlots.Oracle AppSlots.Lists AppSlots.NodeProofs AppSlots.InvProofs
                       AppSlots.AllocProofs.
Import ListNotations.
Open Scope Z_scope.

Lemma inv_alloc ns0 ns h k nd s nd' :
  Inv ns0 ns h -> nth_error ns k = Some nd -> slot_wf s -> allocate_slot nd s = (nd', None) ->
  Inv ns0 (upd ns k nd') (h ++ [s]).
Proof.
  intros [Hnd HF Hh] Hk Hw Ha.
  destruct (Forall2_nth_r _ _ _ _ _ HF Hk) as [n0 [Hk0 HN]].
  destruct (allocate_spec _ _ _ _ _ _ _ _ HN Hw Ha) as (HR & Hsid & Hfc & Hfg).
  constructor; [exact Hnd | |].
  - eapply Forall2_upd_change; [exact HF | exact Hk0 | |].
    + unfold NodeInv. eapply NodeRel_ext; [| | | | exact HR]; intros;
        rewrite ?Hc_app, ?Hg_app, ?Hl_app, ?Hm_app; cbn [Hc Hg Hl Hm]; rewrite Hsid, Z.eqb_refl; lia.
    + intros p x y Hp Hx Hy Hxy.
      assert (Hne : (s_nidx s =? nd_index x) = false).
      { apply Z.eqb_neq. rewrite Hsid. intro E. apply Hp. symmetry in E. exact (ids_differ _ _ _ _ _ Hnd Hx Hk0 E). }
      unfold NodeInv in *. eapply NodeRel_ext; [| | | | exact Hxy]; intros;
        rewrite ?Hc_app, ?Hg_app, ?Hl_app, ?Hm_app; cbn [Hc Hg Hl Hm]; rewrite Hne; lia.
  - apply Forall_app. split; [exact Hh|]. constructor; [|constructor].
    destruct Hw as (Hwc & Hwg & Hl0 & Hm0).
    unfold slot_on. exists k, n0.
    split; [exact Hk0|]. split; [symmetry; exact Hsid|]. repeat split; try assumption.
    + eapply Forall_impl; [|exact Hwc]. intros q [_ Hq]. exact Hq.
    + eapply Forall_impl; [|exact Hwg]. intros q [_ Hq]. exact Hq.
Qed.

(* a refused allocation changes nothing *)
Lemma inv_alloc_refused ns0 ns h k nd s nd' e :
  Inv ns0 ns h -> nth_error ns k = Some nd -> slot_wf s -> allocate_slot nd s = (nd', Some e) ->
  upd ns k nd' = ns.
Proof.
  intros [Hnd HF Hh] Hk Hw Ha.
  destruct (Forall2_nth_r _ _ _ _ _ HF Hk) as [n0 [Hk0 HN]].
  assert (Hnb : node_bounded nd).
  { unfold node_bounded, NodeInv in *. split; [exact (nr_bc _ _ _ _ _ _ HN)|]. split; [exact (nr_bg _ _ _ _ _ _ HN)|].
    pose proof (nr_l _ _ _ _ _ _ HN) as Hl. pose proof (nr_m _ _ _ _ _ _ HN) as Hm. unfold amount_rel in *.
    split.
    - destruct (nd_lfs n0); [destruct Hl as [-> ?]; cbn; lia|rewrite Hl; exact I].
    - destruct (nd_mem n0); [destruct Hm as [-> ?]; cbn; lia|rewrite Hm; exact I]. }
  rewrite (allocate_checked_refusal_unchanged _ _ _ _ Hnb Hw Ha). apply upd_same. exact Hk.
Qed.
