(* AppSlots -- executable model of the application-level slot finder of
   radical.pilot (src/radical/pilot/resource_config.py: RO, RankRequirements,
   Slot, Node, NodeList), the helper behind `Pilot.nodelist` with which an
   application chooses the placements it then supplies in TaskDescription.slots.
   Definitions only; mirrors the Python code branch by branch, error branches
   included.

   Representation.
   * Occupations are floats in the code.  They are counted here in units of
     1/64 (BUSY = 1.0 = 64, FREE = 0.0 = 0): sums, differences and comparisons
     of multiples of 1/64 of magnitude < 2^40 are exact in IEEE doubles, and
     the harness generates exactly those.  DOWN (None) is `None`.
   * A Node's cores/gpus are lists of RO(index, occupation).  Node.__init__
     builds them from plain occupation lists with index = position, and no
     method changes an index: a resource list is modelled as the list of its
     occupations, the index of an entry is its position.  `_get_core_index`
     (search by RO.index) then is: position = index if 0 <= index < len,
     ValueError otherwise; `self.cores[ro.index]` (plain Python indexing) also
     accepts -len <= index < 0 (counting from the end) and raises IndexError
     outside.
   * Node.index (the node's id, copied into Slot.node_index) is kept apart
     from the node's position in NodeList.nodes: NodeList looks the node of a
     slot up by id (`_get_node`).
   * ranks_per_node of NodeList._assert_rr is a float quotient in the code and
     an exact fraction here (the harness generates sizes for which both agree).
   * `while True` in find_slots has no bound in the code; the model gives each
     node (free units of its cores) + n_slots + 1 rounds and answers EHang when they are
     used up (Hang.find_slots_never_hangs: never, in ANY state, for requests
     with n_cores > 0 and a core occupation of at least one unit).
   Not modelled: NumaNode/NumaNodeList (rr.numa is carried, Node.find_slot
   ignores it as the code does), the int-list form of Slot.cores (Slot()
   converts it before any Node method sees it), FastTypedDict type casts. *)
From Coq Require Import ZArith List Bool String.
Import ListNotations.
Open Scope Z_scope.

Inductive err :=
| EValue | ERuntime | EAssert | EType | EIndex | EUnbound | EHang | EOther.

Definition BUSY : Z := 64.

Record node := mkNode {
  nd_index : Z;
  nd_name  : string;
  nd_cores : list (option Z);
  nd_gpus  : list (option Z);
  nd_lfs   : option Z;
  nd_mem   : option Z }.

Record rreq := mkRR {
  r_nc : Z; r_co : Z; r_ng : Z; r_go : Z; r_lfs : Z; r_mem : Z; r_numa : bool }.

Record slot := mkSlot {
  s_cores : list (Z * Z);      (* RO: (index, occupation) *)
  s_gpus  : list (Z * Z);
  s_lfs   : Z;
  s_mem   : Z;
  s_nidx  : Z;
  s_name  : string }.

Definition zlen {A} (l : list A) : Z := Z.of_nat (List.length l).

(* ---------------------------------------------------------------- lists *)

Fixpoint upd {A} (l : list A) (k : nat) (x : A) : list A :=
  match l, k with
  | [], _ => []
  | _ :: t, O => x :: t
  | h :: t, S k' => h :: upd t k' x
  end.

(* l[i] of Python: negative indices count from the end *)
Definition py_pos {A} (l : list A) (i : Z) : option nat :=
  if (0 <=? i) && (i <? zlen l) then Some (Z.to_nat i)
  else if (- zlen l <=? i) && (i <? 0) then Some (Z.to_nat (zlen l + i))
  else None.

(* Node._get_core_index / _get_gpu_index *)
Definition get_pos {A} (l : list A) (i : Z) : option nat :=
  if (0 <=? i) && (i <? zlen l) then Some (Z.to_nat i) else None.

(* ------------------------------------------------------------ Node.find_slot *)

(* the search loop over self.cores / self.gpus *)
Fixpoint pick (occ n : Z) (cs : list (option Z)) (i : Z) (acc : list (Z * Z)) : list (Z * Z) :=
  match cs with
  | [] => acc
  | None :: cs' => pick occ n cs' (i + 1) acc                        (* DOWN: continue *)
  | Some o :: cs' =>
      let acc' := if occ <=? BUSY - o then acc ++ [(i, occ)] else acc in
      if zlen acc' =? n then acc' else pick occ n cs' (i + 1) acc'
  end.

(* `x.occupation += d` on position k *)
Definition add_at (cs : list (option Z)) (k : nat) (d : Z) : option (list (option Z)) :=
  match nth_error cs k with
  | Some (Some o) => Some (upd cs k (Some (o + d)))
  | _ => None                                                         (* None += float: TypeError *)
  end.

(* the loop `for ro in cores: c_idx = self._get_core_index(ro); self.cores[c_idx].occupation += ...` *)
Fixpoint alloc_list (cs : list (option Z)) (l : list (Z * Z)) : list (option Z) * option err :=
  match l with
  | [] => (cs, None)
  | (i, d) :: l' =>
      match get_pos cs i with
      | None => (cs, Some EValue)
      | Some k => match add_at cs k d with
                  | None => (cs, Some EType)
                  | Some cs' => alloc_list cs' l'
                  end
      end
  end.

(* allocate_slot, the part after the checks *)
Definition alloc_apply (nd : node) (s : slot) : node * option err :=
  let '(cs, e1) := alloc_list (nd_cores nd) (s_cores s) in
  let nd1 := mkNode (nd_index nd) (nd_name nd) cs (nd_gpus nd) (nd_lfs nd) (nd_mem nd) in
  match e1 with
  | Some e => (nd1, Some e)
  | None =>
    let '(gs, e2) := alloc_list (nd_gpus nd) (s_gpus s) in
    let nd2 := mkNode (nd_index nd) (nd_name nd) cs gs (nd_lfs nd) (nd_mem nd) in
    match e2 with
    | Some e => (nd2, Some e)
    | None =>
      (mkNode (nd_index nd) (nd_name nd) cs gs
              (match nd_lfs nd with Some l => Some (l - s_lfs s) | None => None end)
              (match nd_mem nd with Some m => Some (m - s_mem s) | None => None end), None)
    end
  end.

Inductive fres := FSlot (s : slot) | FNone | FErr (e : err).

Definition find_slot (nd : node) (r : rreq) : node * fres :=
  let cores := if r_nc r =? 0 then [] else pick (r_co r) (r_nc r) (nd_cores nd) 0 [] in
  if negb (r_nc r =? 0) && (zlen cores <? r_nc r) then (nd, FNone) else
  let gpus := if r_ng r =? 0 then [] else pick (r_go r) (r_ng r) (nd_gpus nd) 0 [] in
  if negb (r_ng r =? 0) && (zlen gpus <? r_ng r) then (nd, FNone) else
  if match nd_lfs nd with Some l => negb (r_lfs r =? 0) && (l <? r_lfs r) | None => false end then (nd, FNone) else
  if match nd_mem nd with Some m => negb (r_mem r =? 0) && (m <? r_mem r) | None => false end then (nd, FNone) else
  let s := mkSlot cores gpus (r_lfs r) (r_mem r) (nd_index nd) (nd_name nd) in
  match alloc_apply nd s with
  | (nd', None) => (nd', FSlot s)
  | (nd', Some e) => (nd', FErr e)
  end.

(* ------------------------------------------- Node.allocate_slot(_check=True) *)

(* `requested = dict(); for ro in cores: assert ro.index < len(self.cores); ro_available = BUSY -
   self.cores[ro.index].occupation - requested.get(ro.index, 0); assert ro_available >= ro.occupation;
   requested[ro.index] = requested.get(ro.index, 0) + ro.occupation` -- `seen` is what the slot itself has
   asked of each index so far (keyed by the index as written, also a negative one) *)
Fixpoint seen_at (j : Z) (l : list (Z * Z)) : Z :=
  match l with
  | [] => 0
  | (i, d) :: l' => (if i =? j then d else 0) + seen_at j l'
  end.

Fixpoint check_list_from (seen : list (Z * Z)) (cs : list (option Z)) (l : list (Z * Z)) : option err :=
  match l with
  | [] => None
  | (i, d) :: l' =>
      if negb (i <? zlen cs) then Some EAssert else
      match py_pos cs i with
      | None => Some EIndex
      | Some k => match nth_error cs k with
                  | Some (Some o) => if BUSY - o - seen_at i seen >=? d then check_list_from ((i, d) :: seen) cs l'
                                     else Some EAssert
                  | _ => Some EType                                   (* BUSY - None *)
                  end
      end
  end.

Definition check_list (cs : list (option Z)) (l : list (Z * Z)) : option err := check_list_from [] cs l.

Definition check_amount (have : option Z) (want : Z) : option err :=
  if want =? 0 then None else
  match have with
  | None => Some EType                                                (* None >= int *)
  | Some h => if h >=? want then None else Some EAssert
  end.

Definition allocate_slot (nd : node) (s : slot) : node * option err :=
  if negb (nd_index nd =? s_nidx s) then (nd, Some EAssert) else
  if negb (String.eqb (nd_name nd) (s_name s)) then (nd, Some EAssert) else
  match check_list (nd_cores nd) (s_cores s) with Some e => (nd, Some e) | None =>
  match check_list (nd_gpus nd) (s_gpus s) with Some e => (nd, Some e) | None =>
  match check_amount (nd_lfs nd) (s_lfs s) with Some e => (nd, Some e) | None =>
  match check_amount (nd_mem nd) (s_mem s) with Some e => (nd, Some e) | None =>
  alloc_apply nd s end end end end.

(* ----------------------------------------------------- Node.deallocate_slot *)

Fixpoint dealloc_list (cs : list (option Z)) (l : list (Z * Z)) : list (option Z) * option err :=
  match l with
  | [] => (cs, None)
  | (i, d) :: l' =>
      match py_pos cs i with
      | None => (cs, Some EIndex)
      | Some k => match add_at cs k (- d) with
                  | None => (cs, Some EType)
                  | Some cs' => dealloc_list cs' l'
                  end
      end
  end.

Definition deallocate_slot (nd : node) (s : slot) : node * option err :=
  let '(cs, e1) := dealloc_list (nd_cores nd) (s_cores s) in
  let nd1 := mkNode (nd_index nd) (nd_name nd) cs (nd_gpus nd) (nd_lfs nd) (nd_mem nd) in
  match e1 with
  | Some e => (nd1, Some e)
  | None =>
    let '(gs, e2) := dealloc_list (nd_gpus nd) (s_gpus s) in
    let nd2 := mkNode (nd_index nd) (nd_name nd) cs gs (nd_lfs nd) (nd_mem nd) in
    match e2 with
    | Some e => (nd2, Some e)
    | None =>
      (* `if self.lfs is not None: self.lfs += slot.lfs` (nodes may not report lfs / mem) *)
      (mkNode (nd_index nd) (nd_name nd) cs gs
              (match nd_lfs nd with Some l => Some (l + s_lfs s) | None => None end)
              (match nd_mem nd with Some m => Some (m + s_mem s) | None => None end), None)
    end
  end.

(* ------------------------------------------------------------------ NodeList *)

(* what verify() caches *)
Record verinfo := mkVer {
  v_uniform : bool;
  v_cpn : Z; v_gpn : Z; v_lfs : option Z; v_mem : option Z }.

Record nlist := mkNL {
  nl_nodes  : list node;
  nl_index  : Z;                       (* __index__ *)
  nl_failed : option (rreq * Z);       (* __last_failed_rr__, __last_failed_n__ *)
  nl_ver    : option verinfo }.        (* None: not __verified__ *)

Definition oz_eqb (a b : option Z) : bool :=
  match a, b with
  | None, None => true
  | Some x, Some y => x =? y
  | _, _ => false
  end.

Fixpoint ozl_eqb (a b : list (option Z)) : bool :=
  match a, b with
  | [], [] => true
  | x :: a', y :: b' => oz_eqb x y && ozl_eqb a' b'
  | _, _ => false
  end.

(* verify(): `node.cores != node_0.cores or node.gpus != node_0.gpus or node.lfs != node_0.lfs or
   node.mem != node_0.mem`.  The lists hold RO objects; RO is a ru.TypedDict, which keeps its items in
   an attribute and inherits __eq__ from an (empty) dict: two RO always compare equal, so the list
   comparison only compares the lengths -- occupations (busy, DOWN) do not make a node list
   non-uniform.  Mirrored as it is. *)
Definition same_resources (a b : node) : bool :=
  (zlen (nd_cores a) =? zlen (nd_cores b)) && (zlen (nd_gpus a) =? zlen (nd_gpus b)) &&
  oz_eqb (nd_lfs a) (nd_lfs b) && oz_eqb (nd_mem a) (nd_mem b).

Definition verify (nl : nlist) : nlist :=
  match nl_nodes nl with
  | [] => nl                                         (* `if not self.nodes: return` *)
  | n0 :: rest =>
      let u := forallb (same_resources n0) rest in
      mkNL (nl_nodes nl) (nl_index nl) (nl_failed nl)
           (Some (if u then mkVer true (zlen (nd_cores n0)) (zlen (nd_gpus n0)) (nd_lfs n0) (nd_mem n0)
                  else mkVer false 0 0 None None))
  end.

(* fractions with positive denominator *)
Definition frac := (Z * Z)%type.
Definition mkq (a b : Z) : frac := if b <? 0 then (- a, - b) else (a, b).
Definition qlt (x y : frac) : bool := fst x * snd y <? fst y * snd x.
Definition qmin (x y : frac) : frac := if qlt y x then y else x.

(* _assert_rr after verify(): None = passed *)
Definition assert_rr (nl : nlist) (r : rreq) (n : Z) : option err :=
  match nl_ver nl with
  | None => if r_nc r =? 0 then Some EValue else Some EType   (* empty list: uniform True, cores_per_node None *)
  | Some v =>
    if negb (v_uniform v) then Some ERuntime else
    if r_nc r =? 0 then Some EValue else
    let q0 := mkq (v_cpn v) (r_nc r) in
    let q1 := if r_ng r =? 0 then q0 else qmin q0 (mkq (v_gpn v) (r_ng r)) in
    match (if r_lfs r =? 0 then inr q1 else
           match v_lfs v with None => inl EType | Some l => inr (qmin q1 (mkq l (r_lfs r))) end) with
    | inl e => Some e
    | inr q2 =>
      match (if r_mem r =? 0 then inr q2 else
             match v_mem v with None => inl EType | Some m => inr (qmin q2 (mkq m (r_mem r))) end) with
      | inl e => Some e
      | inr q3 =>
        if qlt q3 (1, 1) then Some EValue else
        if qlt (zlen (nl_nodes nl) * fst q3, snd q3) (n, 1) then Some EValue else None
      end
    end
  end.

(* RankRequirements.__ge__ *)
Definition rr_ge (a b : rreq) : bool :=
  (r_nc a >=? r_nc b) && (r_ng a >=? r_ng b) && (r_lfs a >=? r_lfs b) && (r_mem a >=? r_mem b) &&
  (r_co a >=? r_co b) && (r_go a >=? r_go b).

(* the `while True` loop on one node: (node, slots, `stop` was set here, error) *)
Fixpoint node_loop (fuel : nat) (nd : node) (r : rreq) (n : Z) (slots : list slot)
  : node * list slot * bool * option err :=
  match fuel with
  | O => (nd, slots, false, Some EHang)
  | S fuel' =>
      match find_slot nd r with
      | (nd', FNone) => (nd', slots, false, None)
      | (nd', FErr e) => (nd', slots, false, Some e)
      | (nd', FSlot s) =>
          let slots' := slots ++ [s] in
          if zlen slots' =? n then (nd', slots', true, None)
          else node_loop fuel' nd' r n slots'
      end
  end.

(* the rounds granted to one node: what its cores have free, in units, plus n_slots, plus one -- every
   slot found (n_cores >= 1, core occupation >= one unit) uses up at least one unit of a core that had
   room for it, whatever the occupations are (also outside FREE .. BUSY, e.g. negative after a release
   of something that was not held); with a core occupation of 0 nothing is used up and the loop ends
   when n_slots slots are collected *)
Fixpoint free_pos (cs : list (option Z)) : Z :=
  match cs with
  | [] => 0
  | None :: t => free_pos t
  | Some o :: t => Z.max 0 (BUSY - o) + free_pos t
  end.

Definition node_fuel (nd : node) (n : Z) : nat := S (Z.to_nat (free_pos (nd_cores nd)) + Z.to_nat n).

(* `for i in range(0, len(self.nodes))` *)
Fixpoint nodes_loop (cnt : nat) (i : Z) (start : Z) (ns : list node) (r : rreq) (n : Z)
                    (slots : list slot) (stop : option Z)
  : list node * list slot * option Z * option err :=
  match cnt with
  | O => (ns, slots, stop, None)
  | S cnt' =>
      let idx := (start + i) mod zlen ns in
      match nth_error ns (Z.to_nat idx) with
      | None => (ns, slots, stop, Some EIndex)
      | Some nd =>
          let '(nd', slots', hit, e) := node_loop (node_fuel nd n) nd r n slots in
          let ns' := upd ns (Z.to_nat idx) nd' in
          let stop' := if hit then Some idx else stop in
          match e with
          | Some x => (ns', slots', stop', Some x)
          | None => if zlen slots' =? n then (ns', slots', stop', None)
                    else nodes_loop cnt' (i + 1) start ns' r n slots' stop'
          end
      end
  end.

(* NodeList._get_node(slot): the node whose id (Node.index) is slot.node_index -- the node at that
   list position if it carries that id, else the first node with that id, else ValueError *)
Fixpoint find_idx (ns : list node) (idx : Z) (p : nat) : option nat :=
  match ns with
  | [] => None
  | nd :: t => if nd_index nd =? idx then Some p else find_idx t idx (S p)
  end.

Definition get_node (ns : list node) (idx : Z) : option nat :=
  match (if (0 <=? idx) && (idx <? zlen ns) then nth_error ns (Z.to_nat idx) else None) with
  | Some nd => if nd_index nd =? idx then Some (Z.to_nat idx) else find_idx ns idx O
  | None => find_idx ns idx O
  end.

(* `for slot in slots: node = self._get_node(slot); node.deallocate_slot(slot)` *)
Fixpoint dealloc_all (ns : list node) (sl : list slot) : list node * option err :=
  match sl with
  | [] => (ns, None)
  | s :: sl' =>
      match get_node ns (s_nidx s) with
      | None => (ns, Some EValue)
      | Some k =>
          match nth_error ns k with
          | None => (ns, Some EIndex)
          | Some nd =>
              match deallocate_slot nd s with
              | (nd', Some e) => (upd ns k nd', Some e)
              | (nd', None) => dealloc_all (upd ns k nd') sl'
              end
          end
      end
  end.

Inductive res := RSlots (sl : list slot) | RNone | ROk | RErr (e : err).

Definition find_slots (nl0 : nlist) (r : rreq) (n : Z) : nlist * res :=
  let nl := match nl_ver nl0 with None => verify nl0 | Some _ => nl0 end in
  match assert_rr nl r n with
  | Some e => (nl, RErr e)
  | None =>
    if match nl_failed nl with Some (fr, fn) => rr_ge fr r && (fn >=? n) | None => false end
    then (nl, RNone) else
    let '(ns, slots, stop, e) :=
        nodes_loop (List.length (nl_nodes nl)) 0 (nl_index nl) (nl_nodes nl) r n [] None in
    match e with
    | Some x => (mkNL ns (nl_index nl) (nl_failed nl) (nl_ver nl), RErr x)
    | None =>
      if negb (zlen slots =? n) then
        match dealloc_all ns slots with
        | (ns', Some x) => (mkNL ns' (nl_index nl) (nl_failed nl) (nl_ver nl), RErr x)
        | (ns', None) => (mkNL ns' (nl_index nl) (Some (r, n)) (nl_ver nl), RNone)
        end
      else
        match stop with
        | None => (mkNL ns (nl_index nl) (nl_failed nl) (nl_ver nl), RErr EUnbound)
        | Some st => (mkNL ns st (nl_failed nl) (nl_ver nl), RSlots slots)
        end
    end
  end.

Fixpoint zmin_list (d : Z) (l : list Z) : Z :=
  match l with [] => d | x :: l' => zmin_list (Z.min d x) l' end.

Definition release_slots (nl : nlist) (sl : list slot) : nlist * res :=
  match dealloc_all (nl_nodes nl) sl with
  | (ns, Some x) => (mkNL ns (nl_index nl) (nl_failed nl) (nl_ver nl), RErr x)
  | (ns, None) =>
      match nl_failed nl with
      | Some _ =>
          match sl with
          | [] => (mkNL ns (nl_index nl) (nl_failed nl) (nl_ver nl), RErr EValue)   (* min([]) *)
          | s :: sl' => (mkNL ns (zmin_list (s_nidx s) (map s_nidx sl') - 1) None (nl_ver nl), ROk)
          end
      | None => (mkNL ns (nl_index nl) None (nl_ver nl), ROk)
      end
  end.

(* ------------------------------------------------------- operation sequences *)

Inductive op :=
| OFind (r : rreq) (n : Z)            (* nl.find_slots(rr, n)            *)
| ORelease (sl : list slot)           (* nl.release_slots(slots)         *)
| OVerify                             (* nl.verify()                     *)
| ONFind (k : nat) (r : rreq)         (* nl.nodes[k].find_slot(rr)       *)
| ONAlloc (k : nat) (s : slot)        (* nl.nodes[k].allocate_slot(slot) *)
| ONDealloc (k : nat) (s : slot).     (* nl.nodes[k].deallocate_slot(slot) *)

Definition with_nodes (nl : nlist) (ns : list node) : nlist :=
  mkNL ns (nl_index nl) (nl_failed nl) (nl_ver nl).

Definition step (nl : nlist) (o : op) : nlist * res :=
  match o with
  | OFind r n => find_slots nl r n
  | ORelease sl => release_slots nl sl
  | OVerify => (verify nl, ROk)
  | ONFind k r =>
      match nth_error (nl_nodes nl) k with
      | None => (nl, RErr EIndex)
      | Some nd => match find_slot nd r with
                   | (nd', FSlot s) => (with_nodes nl (upd (nl_nodes nl) k nd'), RSlots [s])
                   | (nd', FNone) => (with_nodes nl (upd (nl_nodes nl) k nd'), RNone)
                   | (nd', FErr e) => (with_nodes nl (upd (nl_nodes nl) k nd'), RErr e)
                   end
      end
  | ONAlloc k s =>
      match nth_error (nl_nodes nl) k with
      | None => (nl, RErr EIndex)
      | Some nd => match allocate_slot nd s with
                   | (nd', None) => (with_nodes nl (upd (nl_nodes nl) k nd'), ROk)
                   | (nd', Some e) => (with_nodes nl (upd (nl_nodes nl) k nd'), RErr e)
                   end
      end
  | ONDealloc k s =>
      match nth_error (nl_nodes nl) k with
      | None => (nl, RErr EIndex)
      | Some nd => match deallocate_slot nd s with
                   | (nd', None) => (with_nodes nl (upd (nl_nodes nl) k nd'), ROk)
                   | (nd', Some e) => (with_nodes nl (upd (nl_nodes nl) k nd'), RErr e)
                   end
      end
  end.

(* the state and the answer after every operation *)
Fixpoint run (nl : nlist) (ops : list op) : list (res * nlist) :=
  match ops with
  | [] => []
  | o :: ops' => let '(nl', r) := step nl o in (r, nl') :: run nl' ops'
  end.

Definition init_nl (ns : list node) : nlist := mkNL ns 0 None None.
