(* C09 oracle: the clauses of "launch commands enact the placement they were
   given", as booleans over ONE observation (what can_launch answered, what
   get_launch_cmds produced) -- applied by the harness to the
   implementation's trace and by the theorems to the model's answer. *)
From Coq Require Import ZArith List Bool String.
From RP Require Import Common.Eqb Launch.Model.
Import ListNotations.
Open Scope Z_scope.

(* ------------------------------------------------------------ equality *)
Scheme Equality for lm.
Scheme Equality for err.
Scheme Equality for fext.

Definition zl_eqb := eqb_list Z.eqb.
Definition zz_eqb := eqb_list (eqb_prod Z.eqb Z.eqb).

Definition arg_eqb (a b : arg) : bool :=
  match a, b with
  | A s, A s' => String.eqb s s'
  | F o, F o' => oname_beq o o'
  | OZ o v, OZ o' v' => oname_beq o o' && (v =? v')
  | OH o v, OH o' v' => oname_beq o o' && zl_eqb v v'
  | OHN o v, OHN o' v' => oname_beq o o' && zz_eqb v v'
  | OL o v, OL o' v' => oname_beq o o' && zl_eqb v v'
  | OF o x, OF o' x' => oname_beq o o' && fext_beq x x'
  | OB o g, OB o' g' => oname_beq o o' && eqb_list (eqb_prod Z.eqb (eqb_option Z.eqb)) g g'
  | _, _ => false
  end.

Definition fcontent_eqb (a b : fcontent) : bool :=
  match a, b with
  | FHosts l, FHosts l' => zl_eqb l l'
  | FHostN s l, FHostN s' l' => Bool.eqb s s' && zz_eqb l l'
  | FRank l, FRank l' =>
      eqb_list (eqb_prod (eqb_prod Z.eqb Z.eqb) zl_eqb) l l'
  | FErf l, FErf l' =>
      eqb_list (eqb_prod (eqb_prod (eqb_prod zl_eqb Z.eqb) (eqb_list zl_eqb)) zl_eqb) l l'
  | FNodes l, FNodes l' => zl_eqb l l'
  | FMissing, FMissing => true
  | _, _ => false
  end.

Definition command_eqb (a b : command) : bool :=
  eqb_list arg_eqb (argv a) (argv b) && eqb_option fcontent_eqb (file a) (file b).

Definition outcome_eqb : outcome -> outcome -> bool := eqb_sum err_beq command_eqb.
Definition obs1_eqb : obs1 -> obs1 -> bool :=
  eqb_prod (eqb_sum err_beq Bool.eqb) outcome_eqb.

(* ----------------------------------------------- what the task asks for *)
Definition placed (c : cfg) (t : task) : bool :=
  match c_lm c with
  | JSRUN => match t_rs t with [] => false | _ => true end
  | _ => match t_slots t with [] => false | _ => true end
  end.

Definition want_count (c : cfg) (t : task) : Z :=
  match c_lm c with
  | JSRUN => zsum (map (fun r => zlen (r_cores r)) (t_rs t))
  | _ => match t_slots t with [] => t_ranks t | _ => zlen (t_slots t) end
  end.

Definition want_nodes (c : cfg) (t : task) : list Z :=
  match c_lm c with
  | JSRUN => flat_map (fun r => map (fun _ => r_nidx r) (r_cores r)) (t_rs t)
  | _ => hosts_of t
  end.

Definition want_pins (c : cfg) (t : task) : list (list Z) :=
  match c_lm c with
  | JSRUN => flat_map r_cores (t_rs t)
  | _ => map s_cores (t_slots t)
  end.

(* Fork: 'localhost' (0) and the launcher's own host name are one machine *)
Definition canon (c : cfg) (x : Z) : Z :=
  match c_lm c with FORK => if x =? 0 then c_local c else x | _ => x end.

Definition mseteqb (a b : list Z) : bool :=
  forallb (fun x => Nat.eqb (count_occ Z.eq_dec a x) (count_occ Z.eq_dec b x)) (a ++ b).
Definition subsetb (a b : list Z) : bool := forallb (fun x => existsb (Z.eqb x) b) a.
Definition seteqb (a b : list Z) : bool := subsetb a b && subsetb b a.

(* can the method start this task at all? *)
Definition capable (c : cfg) (t : task) : bool :=
  match c_lm c with
  | FORK => match t_slots t with
            | [s] => (s_node s =? 0) || (s_node s =? c_local c)
            | _ => false end
  | SSH | RSH => match t_slots t with [_] => true | _ => false end
  | MPIRUN => negb (c_dpl_named c && (1 <? t_cpr t))
  | _ => true
  end.

(* -------------------------------------------------------------- clauses *)
Definition accepted (o : obs1) : bool :=
  match fst o with inr true => true | _ => false end.

Definition ok_count (c : cfg) (t : task) (o : obs1) : bool :=
  if accepted o then
    match snd o with
    | inl _ => true
    | inr cmd =>
        match den c cmd with
        | None => false
        | Some p => (p_count p =? want_count c t)
                    && match p_nodes p with NList l => zlen l =? p_count p | _ => true end
        end
    end
  else true.

Definition ok_nodes (c : cfg) (t : task) (o : obs1) : bool :=
  if accepted o && placed c t then
    match snd o with
    | inl _ => true
    | inr cmd =>
        match den c cmd with
        | None => true                         (* reported by ok_count *)
        | Some p =>
            match p_nodes p with
            | NList l => mseteqb (map (canon c) l) (map (canon c) (want_nodes c t))
            | NSet l => seteqb l (want_nodes c t)
            | NNone => match c_lm c with IBRUN => true | _ => false end
            end
        end
    end
  else true.

Definition ok_pins (c : cfg) (t : task) (o : obs1) : bool :=
  if accepted o && placed c t then
    match snd o with
    | inl _ => true
    | inr cmd =>
        match den c cmd with
        | Some {| p_pins := Some ps |} => eqb_list seteqb ps (want_pins c t)
        | _ => true
        end
    end
  else true.

Definition ok_refuses (c : cfg) (t : task) (o : obs1) : bool :=
  if capable c t then true
  else negb (accepted o) || match snd o with inl _ => true | inr _ => false end.

Definition ok_nocrash (o : obs1) : bool :=
  match fst o with inl ECrash => false | _ => true end
  && match snd o with inl ECrash => false | _ => true end.

Fixpoint all2 {A B} (f : A -> B -> bool) (a : list A) (b : list B) : bool :=
  match a, b with
  | [], [] => true
  | x :: a', y :: b' => f x y && all2 f a' b'
  | _, _ => false
  end.

(* obs: per task of the sequence (can_launch, outcome on the shared launcher
   object), and the outcome of the same task on a fresh launcher object *)
Definition can_eqb : (err + bool) -> (err + bool) -> bool := eqb_sum err_beq Bool.eqb.

(* obs: per task of the sequence what find_launcher/can_launch answered and
   what get_launch_cmds produced on the SHARED resource manager / launcher
   object, and the same for the same task on FRESH objects *)
Definition c09_row (c : cfg) (ts : list task) (obs : list (obs1 * obs1)) : list bool :=
  let o1 := map fst obs in
  [ eqb_list obs1_eqb (run c [] ts) o1
    && all2 (fun t o => obs1_eqb (can_launch c t, snd (get_launch_cmds c [] t)) (snd o)) ts obs;
    all2 (ok_count c) ts o1;
    all2 (ok_nodes c) ts o1;
    all2 (ok_pins c) ts o1;
    forallb (fun o => outcome_eqb (snd (fst o)) (snd (snd o))) obs;
    all2 (ok_refuses c) ts o1;
    forallb ok_nocrash o1; true; true;
    (* launcher_independent_of_earlier_tasks *)
    forallb (fun o => can_eqb (fst (fst o)) (fst (snd o))) obs ].

(* ---- launcher selection (find_launcher over a launch order) ----
   obs: per task which launcher of the order was selected (or the exception,
   or none) and the command of the selected launcher.  The clauses judge the
   SELECTED launcher's command against the placement. *)
Definition sel_eqb : (err + option nat) -> (err + option nat) -> bool :=
  eqb_sum err_beq (eqb_option Nat.eqb).

Definition sel_clause (f : cfg -> task -> obs1 -> bool) (cs : list cfg) (t : task)
  (o : (err + option nat) * option outcome) : bool :=
  match fst o, snd o with
  | inr (Some i), Some oc =>
      match nth_error cs i with
      | Some c => f c t (inr true, oc)
      | None => false
      end
  | _, _ => true
  end.

Definition c09_select_row (cs : list cfg) (ts : list task)
  (obs : list ((err + option nat) * option outcome)) (fresh_sel : list (err + option nat)) : list bool :=
  [ all2 (fun t o => let m := select_obs cs t in
                     sel_eqb (fst m) (fst o) && eqb_option outcome_eqb (snd m) (snd o)) ts obs
    && all2 (fun t f => sel_eqb (fst (select_obs cs t)) f) ts fresh_sel;
    all2 (sel_clause ok_count cs) ts obs;
    all2 (sel_clause ok_nodes cs) ts obs;
    all2 (sel_clause ok_pins cs) ts obs;
    true;
    all2 (sel_clause ok_refuses cs) ts obs;
    forallb (fun o => match fst o with inl ECrash => false | _ => true end
                      && match snd o with Some (inl ECrash) => false | _ => true end) obs; true; true;
    (* launcher_independent_of_earlier_tasks: the selection on the shared resource
       manager, after the earlier tasks, is the selection of a fresh one *)
    all2 (fun o f => sel_eqb (fst o) f) obs fresh_sel ].

(* ---- bulks handled by Popen.work ----
   obs: per task of the bulk, FAILED or launched with launcher i of the launch
   order and the command read back from the launch script.  Every task is
   judged by what the model says for that task ALONE. *)
Definition handled_eqb (a b : handled) : bool :=
  match a, b with
  | HFailed, HFailed => true
  | HLaunched i c, HLaunched j d => Nat.eqb i j && command_eqb c d
  | _, _ => false
  end.

(* the launcher used for the task is the task's own choice: the first of the
   launch order whose can_launch accepts it; a task is FAILED iff it has none
   (or its own launcher raises) *)
Definition bulk_launcher_is_own (cs : list cfg) (t : task) (o : handled) : bool :=
  match o, handle cs t with
  | HLaunched i _, HLaunched j _ => Nat.eqb i j
  | HFailed, HFailed => true
  | _, _ => false
  end.

Definition bulk_clause (f : cfg -> task -> obs1 -> bool) (cs : list cfg) (t : task) (o : handled) : bool :=
  match o with
  | HFailed => true
  | HLaunched i cmd =>
      match nth_error cs i with
      | Some c => f c t (inr true, inr cmd)
      | None => false
      end
  end.

(* the command in the launch script names exactly the task's own placement *)
Definition bulk_cmd_matches_placement (cs : list cfg) (t : task) (o : handled) : bool :=
  bulk_clause ok_count cs t o && bulk_clause ok_nodes cs t o && bulk_clause ok_pins cs t o.

Definition launched_by (o : handled) (f : err + option nat) : bool :=
  match o with
  | HFailed => true
  | HLaunched i _ => sel_eqb (inr (Some i)) f
  end.

(* bulk: the tasks of all bulks of the sequence in order (one executor and one
   resource manager for the whole sequence); fresh_sel: what a fresh resource
   manager selects for each task alone *)
Definition c09_bulk_row (cs : list cfg) (bulk : list task) (obs : list handled)
  (fresh_sel : list (err + option nat)) : list bool :=
  [ eqb_list handled_eqb (map (handle cs) bulk) obs
    && all2 (fun t f => sel_eqb (fst (select_obs cs t)) f) bulk fresh_sel;
    all2 (bulk_clause ok_count cs) bulk obs;
    all2 (bulk_clause ok_nodes cs) bulk obs;
    all2 (bulk_clause ok_pins cs) bulk obs;
    true;
    all2 (bulk_clause ok_refuses cs) bulk obs;
    true;
    all2 (bulk_launcher_is_own cs) bulk obs;
    all2 (bulk_cmd_matches_placement cs) bulk obs;
    all2 launched_by obs fresh_sel ].
