(* Executable model of radical.pilot's launch methods
     src/radical/pilot/agent/launch_method/{fork,ssh,rsh,mpirun,mpiexec,srun,
                                            aprun,ccmrun,ibrun,jsrun,prte}.py
   can_launch / get_launch_cmds, branch by branch, including the branches
   that raise.  The command line is a STRUCTURED record: the argv tokens
   (option names are an enumeration, host names are integers n<k>, the
   harness parser maps the real string to this record) plus the content of
   the host / rank / node / ERF file the method writes.

   Second part: the DENOTATION of such a command, written from each
   launcher's documented CLI semantics (trusted): how many processes it
   starts, on which nodes, pinned to which cores.

   Definitions only (no proofs). *)
From Coq Require Import ZArith List Bool String.
Import ListNotations.
Open Scope Z_scope.

(* ------------------------------------------------------------------ data *)
Inductive lm := FORK | SSH | RSH | MPIRUN | MPIEXEC | SRUN | APRUN | CCMRUN
              | IBRUN | JSRUN | PRTE.
Inductive flavor := OMPI | HYDRA | SPECTRUM | PALS | UNKNOWN.
(* EOs: OSError while writing the host / rank / node / ERF file *)
Inductive err := EValue | ERuntime | EAssert | EOs | ECrash.

(* new-style slot: one per rank *)
Record slot := { s_node : Z; s_nidx : Z; s_cores : list Z; s_gpus : list Z }.
(* old-style slot as produced by the jsrun scheduler: one per resource set *)
Record rset := { r_nidx : Z; r_cores : list (list Z); r_gpus : list (list Z) }.

Record task := {
  t_slots : list slot;
  t_rs    : list rset;      (* JSRUN only *)
  t_ranks : Z;              (* description.ranks *)
  t_cpr   : Z;              (* description.cores_per_rank *)
  t_gpr   : Z;              (* description.gpus_per_rank *)
  t_mpi   : bool;           (* description.use_mpi *)
  t_exe   : bool;           (* description.executable non-empty *)
  t_mem   : Z;              (* description.mem_per_rank *)
  t_skipgpu : bool;         (* description.metadata.lm_skip_gpus *)
  t_omp   : bool;           (* threading_type == OpenMP *)
  t_cuda  : bool;           (* gpu_type == CUDA *)
  t_wfail : bool            (* fault injection: files cannot be written into the task sandbox *)
}.

Record cfg := {
  c_lm : lm;
  c_mpt : bool; c_ccmrun : bool; c_dplace : bool; c_dpl_named : bool;
  c_omplace : bool; c_flavor : flavor;
  c_rf : bool; c_hf : bool; c_can_os : bool; c_oversub : bool;
  c_vmajor : Z; c_traverse : bool; c_exact : bool; c_tpc : Z;
  c_reqgpus : bool; c_cpn : Z; c_gpn : Z;
  c_local : Z;              (* Fork.node_name / CCMRun.node_name *)
  c_tpn : Z;                (* lm_cfg.options.tasks_per_node (0 = unset) *)
  c_nodes : list Z;         (* rm_info.node_list indexes, in order *)
  c_erf : bool;
  c_dvm : bool              (* PRTE: details.dvm_list set *)
}.

Inductive oname :=
| O_pos | O_np | O_host | O_hostfile | O_file | O_gpu | O_c | O_rf | O_ppn
| O_cpubind | O_f | O_oversub | O_K0 | O_K1 | O_quit | O_exact | O_ntasks
| O_cpt | O_nodes | O_tpc | O_mem | O_gpt | O_nodefile | O_nodelist | O_n
| O_d | O_o | O_tpn | O_pe | O_msgsize | O_erf | O_a | O_g | O_r
| O_bpacked | O_brs | O_smpigpu | O_smpioff.

Inductive fext := Xhosts | Xrf | Xhf | Xrs | Xnodes.

Inductive arg :=
| A   (s : string)                               (* literal token *)
| F   (o : oname)                                (* flag *)
| OZ  (o : oname) (v : Z)                        (* option with an integer *)
| OH  (o : oname) (hs : list Z)                  (* comma separated hosts *)
| OHN (o : oname) (hs : list (Z * Z))            (* host:count,... *)
| OL  (o : oname) (l : list Z)                   (* comma separated integers *)
| OF  (o : oname) (x : fext)                     (* names the written file <sandbox>/<uid>.<x> *)
| OB  (o : oname) (g : list (Z * option Z)).     (* list:a-b:c:... *)

Inductive fcontent :=
| FHosts (l : list Z)                            (* one host per line *)
| FHostN (colon : bool) (l : list (Z * Z))       (* "h slots=n" | "h:n" *)
| FRank  (l : list (Z * Z * list Z))             (* rank i=h slots=c,.. *)
| FErf   (l : list (list Z * Z * list (list Z) * list Z))
                                                 (* rank: ids : { host: i; cpu: {..},..; gpu: {..} } *)
| FNodes (l : list Z)                            (* h,h,h on one line *)
| FMissing.                                      (* observation only: the named file does not exist *)

Record command := { argv : list arg; file : option fcontent }.

Definition lm_state := list (list Z).            (* `-c` lists held in self._dplace *)
Definition outcome := (err + command)%type.

Definition MIN_NNODES_IN_LIST := 42.             (* srun.py; literal 42 in mpirun.py *)
Definition MIN_VSLURM_IN_LIST := 18.

(* ------------------------------------------------------------ helpers *)
Definition zlen {A} (l : list A) : Z := Z.of_nat (List.length l).
Definition hosts_of (t : task) : list Z := map s_node (t_slots t).

(* defaultdict(int) counting, keys in first-seen order *)
Fixpoint bump (h : Z) (acc : list (Z * Z)) : list (Z * Z) :=
  match acc with
  | [] => [(h, 1)]
  | (k, n) :: r => if k =? h then (k, n + 1) :: r else (k, n) :: bump h r
  end.
Definition host_counts (l : list Z) : list (Z * Z) :=
  fold_left (fun acc h => bump h acc) l [].
Definition zsum (l : list Z) : Z := fold_right Z.add 0 l.
Definition zmax (l : list Z) : Z := fold_right Z.max 0 l.

(* set(...) of host names: the harness sorts what it reads back *)
Fixpoint insert (x : Z) (l : list Z) : list Z :=
  match l with
  | [] => [x]
  | y :: r => if x <? y then x :: l else if x =? y then l else y :: insert x r
  end.
Definition nodeset (l : list Z) : list Z := fold_right insert [] l.

Definition opt {A} (b : bool) (x : list A) : list A := if b then x else [].

Fixpoint index_from {A} (i : Z) (l : list A) : list (Z * A) :=
  match l with [] => [] | x :: r => (i, x) :: index_from (i + 1) r end.

Definition head_core (s : slot) : option Z := hd_error (s_cores s).
Definition has_cores (s : slot) : bool := match s_cores s with [] => false | _ => true end.

(* ------------------------------------------------------------ can_launch *)
Definition can_launch (c : cfg) (t : task) : err + bool :=
  match c_lm c with
  | FORK =>
      if 1 <? zlen (t_slots t) then inr false
      else match t_slots t with
           | [] => inl ECrash                          (* task['slots'][0] *)
           | s :: _ =>
               if negb ((s_node s =? 0) || (s_node s =? c_local c)) then inr false
               else if t_mpi t then inr false
               else if 1 <? t_ranks t then inr false
               else if negb (t_exe t) then inr false
               else inr true
           end
  | SSH =>
      if 1 <? zlen (t_slots t) then inr false
      else if t_mpi t then inr false
      else if negb (t_exe t) then inr false
      else inr true
  | RSH =>
      if 1 <? zlen (t_slots t) then inr false
      else if t_mpi t then inr false
      else inr true
  | _ => inr (t_exe t)
  end.

(* ------------------------------------------------------- get_launch_cmds *)
Definition EXEC := A "EXEC".

Definition cmd_fork (t : task) : outcome := inr {| argv := [EXEC]; file := None |}.

Definition cmd_ssh (name : string) (t : task) : outcome :=
  match t_slots t with
  | [s] => inr {| argv := [A name; OH O_pos [s_node s]; EXEC]; file := None |}
  | _ => inl ERuntime
  end.

(* mpirun.py (after fixes C09-1, C09-2: the dplace option is built from the
   core indexes and is local to the call) *)
Definition cmd_mpirun (c : cfg) (st : lm_state) (t : task) : lm_state * outcome :=
  if c_dpl_named c && (1 <? t_cpr t) then (st, inl EValue)
  else if negb (forallb has_cores (t_slots t)) then (st, inl ECrash)   (* slot['cores'][0] *)
  else
    let hosts := hosts_of t in
    let cores := flat_map (fun s => match s_cores s with x :: _ => [x] | [] => [] end) (t_slots t) in
    let dpl   := opt (c_dplace c) [A "dplace"] ++ map (OL O_c) st
                 ++ opt (c_dpl_named c) [OL O_c cores] in
    let big   := MIN_NNODES_IN_LIST <? zlen hosts in
    let np    := if c_mpt c then 1 else zlen hosts in
    let gpu   := negb (t_gpr t =? 0) && match c_flavor c with SPECTRUM => true | _ => false end in
    if big && t_wfail t then (st, inl EOs)             (* ru.create_hostfile raises: the task is refused *)
    else
    (st,
     inr {| argv := opt (c_ccmrun c) [A "ccmrun"] ++ [A "mpirun"]
                    ++ opt (negb big && c_mpt c) [OH O_pos hosts]
                    ++ opt gpu [F O_gpu] ++ [OZ O_np np]
                    ++ dpl
                    ++ opt (c_omplace c) [A "omplace"]
                    ++ (if big then [OF (if c_mpt c then O_file else O_hostfile) Xhosts]
                        else opt (negb (c_mpt c)) [OH O_host hosts])
                    ++ [EXEC];
            file := if big then Some (FHosts hosts) else None |}).

(* mpiexec.py *)
Definition bind_of (s : slot) : Z * option Z :=
  match s_cores s with
  | [] => (0, None)
  | [x] => (x, None)
  | x :: r => (x, Some (last r x))
  end.

Definition cmd_mpiexec (c : cfg) (t : task) : outcome :=
  match t_slots t with
  | [] => inl EAssert
  | _ =>
    if t_wfail t then inl EOs                          (* every branch writes its file first *)
    else
    let counts := host_counts (hosts_of t) in
    let np := zsum (map snd counts) in
    let tail := opt (negb (c_rf c) && negb (c_hf c) && c_oversub c && c_can_os c) [F O_oversub]
                ++ opt (c_omplace c) [A "omplace"] ++ [EXEC] in
    if c_rf c then
      inr {| argv := [A "mpiexec"; OZ O_np np; OF O_rf Xrf] ++ tail;
             file := Some (FRank (map (fun p => (fst p, s_node (snd p), s_cores (snd p)))
                                      (index_from 0 (t_slots t)))) |}
    else match c_flavor c with
    | PALS =>
      if negb (forallb has_cores (t_slots t)) then inl ECrash
      else
      inr {| argv := [A "mpiexec"; OZ O_np np; OZ O_ppn (zmax (map snd counts));
                      OB O_cpubind (map bind_of (t_slots t)); OF O_hostfile Xhf] ++ tail;
             file := Some (FHosts (map fst counts)) |}
    | _ =>
      if c_hf c then
        inr {| argv := [A "mpiexec"; OZ O_np np; OF O_f Xhf] ++ tail;
               file := Some (FHostN true counts) |}
      else
        inr {| argv := [A "mpiexec"; OZ O_np np; OF O_hostfile Xhf] ++ tail;
               file := Some (FHostN false counts) |}
    end
  end.

(* srun.py *)
Definition ceil_div (a b : Z) : Z := (a + b - 1) / b.

Definition cmd_srun (c : cfg) (t : task) : outcome :=
  let slots := t_slots t in
  let nodelist := match slots with [] => [] | _ => nodeset (hosts_of t) end in
  let n_tasks := match slots with [] => t_ranks t | _ => zlen slots end in
  let n_nodes := match slots with
                 | [] => ceil_div n_tasks (c_cpn c)
                 | _ => zlen nodelist end in
  let nodefile := match slots with
                  | [] => false
                  | _ => (MIN_VSLURM_IN_LIST <? c_vmajor c) && (MIN_NNODES_IN_LIST <? n_nodes) end in
  let gpt := match slots with
             | s :: _ => match s_gpus s with [] => t_gpr t | g => zlen g end
             | [] => t_gpr t end in
  let kill := if 1 <? n_tasks
              then (if t_mpi t then [F O_K1; F O_quit] else [F O_K0]) else [] in
  let map_ := if c_traverse c
              then [OZ O_ntasks n_tasks; OZ O_cpt (t_cpr t); A "--ntasks-per-core=1";
                    A "--distribution=arbitrary"]
              else [OZ O_nodes n_nodes; OZ O_ntasks n_tasks]
                   ++ opt (negb (t_cpr t =? 0)) [OZ O_cpt (t_cpr t)] in
  let gpus := if negb (t_skipgpu t) && c_reqgpus c && negb (gpt =? 0)
              then (if c_traverse c then [OZ O_gpt gpt]
                    else [OZ O_gpt gpt; A "--gpu-bind"; A "closest"]) else [] in
  if nodefile && t_wfail t then inl EOs else
  inr {| argv := [A "srun"; A "--export=ALL"] ++ kill ++ opt (c_exact c) [F O_exact]
                 ++ map_ ++ opt (1 <? c_tpc c) [OZ O_tpc (c_tpc c)]
                 ++ [OZ O_mem (t_mem t)] ++ gpus
                 ++ (if nodefile then [OF O_nodefile Xnodes]
                     else match nodelist with [] => [] | _ => [OH O_nodelist nodelist] end)
                 ++ [EXEC];
         file := if nodefile then Some (FNodes nodelist) else None |}.

(* aprun.py / ccmrun.py *)
Definition cmd_aprun (t : task) : outcome :=
  inr {| argv := [A "aprun"; OZ O_n (t_ranks t); OZ O_d (t_cpr t); EXEC]; file := None |}.
Definition cmd_ccmrun (t : task) : outcome :=
  inr {| argv := [A "ccmrun"; OZ O_n (t_ranks t); EXEC]; file := None |}.

(* ibrun.py *)
Fixpoint zmin_list (d : Z) (l : list Z) : Z :=
  match l with [] => d | x :: r => Z.min x (zmin_list x r) end.

Fixpoint ibrun_offset (c : cfg) (t : task) (tpn : Z) (nodes : list Z) (off : Z) : Z :=
  match nodes with
  | [] => 0
  | n :: r =>
      if existsb (fun s => s_nidx s =? n) (t_slots t) then
        let firsts := flat_map (fun s => if s_nidx s =? n
                                         then match s_cores s with x :: _ => [x] | [] => [] end
                                         else []) (t_slots t) in
        off + zmin_list 0 firsts / t_cpr t
      else ibrun_offset c t tpn r (off + tpn)
  end.

Definition cmd_ibrun (c : cfg) (t : task) : outcome :=
  match t_slots t with
  | [] => inl EAssert
  | _ =>
    if (t_ranks t * t_cpr t =? 0) && (c_tpn c =? 0) then inl ECrash     (* ZeroDivisionError *)
    else if negb (forallb has_cores (t_slots t)) then inl ECrash
    else
    let tpn := if negb (c_tpn c =? 0) then c_tpn c
               else let q := c_cpn c / (t_ranks t * t_cpr t) in if q =? 0 then 1 else q in
    inr {| argv := [OZ O_tpn tpn; A "ibrun"; OZ O_n (t_ranks t);
                    OZ O_o (ibrun_offset c t tpn (c_nodes c) 0); EXEC];
           file := None |}
  end.

(* prte.py *)
Definition cmd_prte (c : cfg) (t : task) : outcome :=
  if negb (c_dvm c) then inl ERuntime
  else
    inr {| argv := [A "prun"; A "--dvm-uri"; A "dvm://uri"; OZ O_np (t_ranks t); OZ O_pe (t_cpr t);
                    A "--bind-to"; A "hwthread:overload-allowed"]
                   ++ match t_slots t with
                      | [] => []
                      | _ => [OHN O_host (host_counts (hosts_of t))] end
                   ++ [OZ O_msgsize 1073741824; A "--verbose"; EXEC];
           file := None |}.

(* jsrun.py (production path: old-style slots, _in_pytest = False) *)
Fixpoint count_eq (x : list Z) (l : list (list Z)) : Z :=
  match l with
  | [] => 0
  | y :: r => (if list_eq_dec Z.eq_dec x y then 1 else 0) + count_eq x r
  end.

Fixpoint seqZ (from : Z) (n : nat) : list Z :=
  match n with O => [] | S k => from :: seqZ (from + 1) k end.

Definition gpus_ok (r : rset) : bool :=
  match r_gpus r with
  | [] => true
  | [] :: _ => true
  | g :: _ => count_eq g (r_gpus r) =? zlen (r_cores r)
  end.

Fixpoint erf_lines (base : Z) (l : list rset) : list (list Z * Z * list (list Z) * list Z) :=
  match l with
  | [] => []
  | r :: rest =>
      (seqZ base (List.length (r_cores r)), r_nidx r, r_cores r,
       match r_gpus r with g :: _ => g | [] => [] end)
      :: erf_lines (base + zlen (r_cores r)) rest
  end.

(* first resource set whose gpu assertion fails decides (the file is not
   written then) *)
Definition cmd_jsrun (c : cfg) (t : task) : outcome :=
  match t_rs t with
  | [] => inl EAssert
  | r0 :: _ =>
    let smpi := if negb (t_gpr t =? 0) && t_cuda t
                then (if 1 <? t_ranks t then [F O_smpigpu] else [F O_smpioff]) else [] in
    if c_erf c then
      if negb (forallb gpus_ok (t_rs t)) then inl EAssert
      else if t_wfail t then inl EOs
      else inr {| argv := [A "jsrun"; OF O_erf Xrs] ++ smpi ++ [EXEC];
                  file := Some (FErf (erf_lines 0 (t_rs t))) |}
    else
      match r_cores r0 with
      | [] => inl ECrash
      | c0 :: _ =>
        if c_tpc c =? 0 then inl ECrash else
        let cores_per_rank := ceil_div (zlen c0) (c_tpc c) in
        let ranks_per_rs := zlen (r_cores r0) in
        let rs := zlen (t_rs t) in
        match r_gpus r0 with
        | [] =>
          inr {| argv := [A "jsrun"; OZ O_n rs; OZ O_a ranks_per_rs;
                          OZ O_c (cores_per_rank * ranks_per_rs); OZ O_g 0]
                         ++ (if 1 <? ranks_per_rs
                             then opt (t_omp t) [OZ O_bpacked cores_per_rank]
                             else [F O_brs])
                         ++ smpi ++ [EXEC];
                 file := None |}
        | g0 :: _ =>
          if negb (count_eq g0 (r_gpus r0) =? ranks_per_rs) then inl EAssert else
          let gpr := zlen g0 in
          let rarg := if gpr =? 0 then [] else
                        let m := c_gpn c / gpr in
                        [OZ O_r (if m <? rs then Z.gcd rs m else Z.min rs m)] in
          inr {| argv := [A "jsrun"; OZ O_n rs; OZ O_a ranks_per_rs;
                          OZ O_c (cores_per_rank * ranks_per_rs); OZ O_g gpr]
                         ++ rarg
                         ++ (if 1 <? ranks_per_rs
                             then opt (t_omp t) [OZ O_bpacked cores_per_rank]
                             else [F O_brs])
                         ++ smpi ++ [EXEC];
                 file := None |}
        end
      end
  end.

(* does the method write a host / rank / node / ERF file for this task? *)
Definition writes_file (c : cfg) (t : task) : bool :=
  match c_lm c with
  | MPIRUN => MIN_NNODES_IN_LIST <? zlen (hosts_of t)
  | MPIEXEC => true
  | SRUN => match t_slots t with
            | [] => false
            | _ => (MIN_VSLURM_IN_LIST <? c_vmajor c)
                   && (MIN_NNODES_IN_LIST <? zlen (nodeset (hosts_of t))) end
  | JSRUN => c_erf c
  | _ => false
  end.

Definition get_launch_cmds (c : cfg) (st : lm_state) (t : task) : lm_state * outcome :=
  match c_lm c with
  | FORK    => (st, cmd_fork t)
  | SSH     => (st, cmd_ssh "ssh" t)
  | RSH     => (st, cmd_ssh "rsh" t)
  | MPIRUN  => cmd_mpirun c st t
  | MPIEXEC => (st, cmd_mpiexec c t)
  | SRUN    => (st, cmd_srun c t)
  | APRUN   => (st, cmd_aprun t)
  | CCMRUN  => (st, cmd_ccmrun t)
  | IBRUN   => (st, cmd_ibrun c t)
  | JSRUN   => (st, cmd_jsrun c t)
  | PRTE    => (st, cmd_prte c t)
  end.

(* one launcher object, a sequence of tasks: what find_launcher + the
   executor observe per task *)
Definition obs1 := ((err + bool) * outcome)%type.

Fixpoint run (c : cfg) (st : lm_state) (ts : list task) : list obs1 :=
  match ts with
  | [] => []
  | t :: r =>
      let '(st', o) := get_launch_cmds c st t in
      (can_launch c t, o) :: run c st' r
  end.

Fixpoint final_state (c : cfg) (st : lm_state) (ts : list task) : lm_state :=
  match ts with
  | [] => st
  | t :: r => final_state c (fst (get_launch_cmds c st t)) r
  end.

(* ResourceManager.find_launcher: the launchers are asked in launch order,
   the first whose can_launch answers True is taken (an exception raised by a
   can_launch propagates); then the executor asks that launcher for the
   command.  Node identifiers stand for node NAMES: two identifiers are equal
   iff the names are the same strings (the harness uses injective name tables
   that contain names which are prefixes of one another, short and fully
   qualified names, and 'localhost' = 0). *)
Fixpoint find_from (i : nat) (cs : list cfg) (t : task) : err + option (nat * cfg) :=
  match cs with
  | [] => inr None
  | c :: r =>
      match can_launch c t with
      | inl e => inl e
      | inr true => inr (Some (i, c))
      | inr false => find_from (S i) r t
      end
  end.
Definition find_launcher (cs : list cfg) (t : task) : err + option (nat * cfg) := find_from 0 cs t.

Definition select_obs (cs : list cfg) (t : task) : (err + option nat) * option outcome :=
  match find_launcher cs t with
  | inl e => (inl e, None)
  | inr None => (inr None, None)
  | inr (Some (i, c)) => (inr (Some i), Some (snd (get_launch_cmds c [] t)))
  end.

(* Popen.work(bulk): every task of the bulk is handled on its own
   (_handle_task): find_launcher, then the selected launcher's command goes
   into the launch script and the script is spawned; a task without launcher,
   or whose can_launch / get_launch_cmds raises, is FAILED.  The launcher
   objects are shared by the tasks of the bulk: their states are threaded
   through (sts: one state per launcher of the launch order). *)
Inductive handled := HFailed | HLaunched (i : nat) (cmd : command).

Fixpoint upd {A} (i : nat) (x : A) (l : list A) : list A :=
  match l, i with
  | [], _ => []
  | _ :: r, O => x :: r
  | y :: r, S k => y :: upd k x r
  end.

Definition handle_st (cs : list cfg) (sts : list lm_state) (t : task) : list lm_state * handled :=
  match find_launcher cs t with
  | inr (Some (i, c)) =>
      let '(st', o) := get_launch_cmds c (nth i sts []) t in
      (upd i st' sts, match o with inr cmd => HLaunched i cmd | inl _ => HFailed end)
  | _ => (sts, HFailed)
  end.

Fixpoint work_st (cs : list cfg) (sts : list lm_state) (bulk : list task) : list handled :=
  match bulk with
  | [] => []
  | t :: r => let '(sts', h) := handle_st cs sts t in h :: work_st cs sts' r
  end.

(* a sequence of bulks on one executor / resource manager *)
Fixpoint after_bulk (cs : list cfg) (sts : list lm_state) (bulk : list task) : list lm_state :=
  match bulk with
  | [] => sts
  | t :: r => after_bulk cs (fst (handle_st cs sts t)) r
  end.

Fixpoint work_seq (cs : list cfg) (sts : list lm_state) (bulks : list (list task)) : list (list handled) :=
  match bulks with
  | [] => []
  | b :: r => work_st cs sts b :: work_seq cs (after_bulk cs sts b) r
  end.

(* fresh launcher objects *)
Definition fresh (cs : list cfg) : list lm_state := map (fun _ => []) cs.
Definition handle (cs : list cfg) (t : task) : handled := snd (handle_st cs (fresh cs) t).
Definition work (cs : list cfg) (bulk : list task) : list handled := work_st cs (fresh cs) bulk.

(* ================================================================== *)
(* Denotation of a command (trusted: launcher CLI semantics)           *)
(* ================================================================== *)
Scheme Equality for oname.

Inductive nodespec :=
| NList (l : list Z)      (* process i runs on node (nth i l) *)
| NSet  (l : list Z)      (* processes are spread over exactly these nodes *)
| NNone.                  (* the command names no node *)

Record placement := { p_count : Z; p_nodes : nodespec; p_pins : option (list (list Z)) }.

Fixpoint getZ (o : oname) (a : list arg) : option Z :=
  match a with
  | [] => None
  | OZ o' v :: r => if oname_beq o o' then Some v else getZ o r
  | _ :: r => getZ o r
  end.
Fixpoint getH (o : oname) (a : list arg) : option (list Z) :=
  match a with
  | [] => None
  | OH o' v :: r => if oname_beq o o' then Some v else getH o r
  | _ :: r => getH o r
  end.
Fixpoint getHN (o : oname) (a : list arg) : option (list (Z * Z)) :=
  match a with
  | [] => None
  | OHN o' v :: r => if oname_beq o o' then Some v else getHN o r
  | _ :: r => getHN o r
  end.
Fixpoint getB (o : oname) (a : list arg) : option (list (Z * option Z)) :=
  match a with
  | [] => None
  | OB o' v :: r => if oname_beq o o' then Some v else getB o r
  | _ :: r => getB o r
  end.
Fixpoint hasOF (o : oname) (a : list arg) : bool :=
  match a with
  | [] => false
  | OF o' _ :: r => oname_beq o o' || hasOF o r
  | _ :: r => hasOF o r
  end.

Definition rep (h n : Z) : list Z := repeat h (Z.to_nat n).
Definition expand (l : list (Z * Z)) : list Z := flat_map (fun p => rep (fst p) (snd p)) l.

(* a-b  ->  a, a+1, .., b *)
Definition range_cores (g : Z * option Z) : list Z :=
  match snd g with
  | None => [fst g]
  | Some b => seqZ (fst g) (Z.to_nat (b - fst g + 1))
  end.

Definition nth_or {A} (d : A) (l : list A) (i : Z) : A := nth (Z.to_nat i) l d.

(* Open MPI / Hydra: every host entry provides its slots; -np processes
   fill them in order; more processes than slots is refused *)
Definition fill (np : Z) (slots : list Z) : option placement :=
  if (0 <=? np) && (np <=? zlen slots)
  then Some {| p_count := np; p_nodes := NList (firstn (Z.to_nat np) slots); p_pins := None |}
  else None.

Fixpoint ranks_consecutive (i : Z) (l : list (Z * Z * list Z)) : bool :=
  match l with
  | [] => true
  | (r, _, _) :: rest => (r =? i) && ranks_consecutive (i + 1) rest
  end.

Fixpoint consecutive (i : Z) (l : list Z) : bool :=
  match l with [] => true | x :: r => (x =? i) && consecutive (i + 1) r end.

Definition den (c : cfg) (cmd : command) : option placement :=
  let a := argv cmd in
  match c_lm c with
  | FORK => Some {| p_count := 1; p_nodes := NList [c_local c]; p_pins := None |}
  | SSH | RSH =>
      match getH O_pos a with
      | Some [h] => Some {| p_count := 1; p_nodes := NList [h]; p_pins := None |}
      | _ => None
      end
  | MPIRUN =>
      match getZ O_np a with
      | None => None
      | Some np =>
        (* Open MPI / Hydra: -host list or -hostfile; SGI MPT: positional host
           list or -file.  The options of the other flavour are not understood
           by this mpirun: such a command has no denotation. *)
        let hosts :=
          if c_mpt c then
            match getH O_host a, hasOF O_hostfile a with
            | None, false =>
                match getH O_pos a, file cmd with
                | Some l, _ => Some l
                | None, Some (FHosts l) => if hasOF O_file a then Some l else None
                | _, _ => None
                end
            | _, _ => None
            end
          else
            match getH O_pos a, hasOF O_file a with
            | None, false =>
                match getH O_host a, file cmd with
                | Some l, _ => Some l
                | None, Some (FHosts l) => if hasOF O_hostfile a then Some l else None
                | _, _ => None
                end
            | _, _ => None
            end in
        match hosts with
        | None => None
        | Some l =>
          if c_mpt c
          then (* SGI MPT: `mpirun hosts -np N`: N processes on EACH listed host *)
            if 0 <=? np
            then Some {| p_count := np * zlen l;
                         p_nodes := NList (flat_map (fun h => rep h np) l); p_pins := None |}
            else None
          else fill np l
        end
      end
  | MPIEXEC =>
      match getZ O_np a with
      | None => None
      | Some np =>
        if hasOF O_rf a then
          match file cmd with
          | Some (FRank l) =>
              if ranks_consecutive 0 l && (np =? zlen l)
              then Some {| p_count := np; p_nodes := NList (map (fun e => snd (fst e)) l);
                           p_pins := Some (map snd l) |}
              else None
          | _ => None
          end
        else match getZ O_ppn a with
        | Some ppn =>
          (* PALS: rank i runs on host (i / ppn) of the host file; its local
             rank (i mod ppn) selects the cpu list of --cpu-bind list: *)
          match file cmd, getB O_cpubind a with
          | Some (FHosts hs), Some b =>
              if (0 <? ppn) && (0 <=? np) && (np <=? ppn * zlen hs) then
                Some {| p_count := np;
                        p_nodes := NList (firstn (Z.to_nat np) (flat_map (fun h => rep h ppn) hs));
                        p_pins := Some (map (fun i => range_cores (nth_or (0, None) b (i mod ppn)))
                                            (seqZ 0 (Z.to_nat np))) |}
              else None
          | _, _ => None
          end
        | None =>
          match file cmd with
          | Some (FHostN _ l) =>
              if hasOF O_f a || hasOF O_hostfile a then fill np (expand l) else None
          | _ => None
          end
        end
      end
  | SRUN =>
      match getZ O_ntasks a with
      | None => None
      | Some n =>
        let nl := match getH O_nodelist a, file cmd with
                  | Some l, _ => Some l
                  | None, Some (FNodes l) => if hasOF O_nodefile a then Some l else None
                  | _, _ => None end in
        match nl with
        | None => Some {| p_count := n; p_nodes := NNone; p_pins := None |}
        | Some l =>
            (* --nodes must agree with the list, and every listed node must
               get a task *)
            if match getZ O_nodes a with Some k => k =? zlen l | None => true end
               && (zlen l <=? n)
            then Some {| p_count := n; p_nodes := NSet l; p_pins := None |}
            else None
        end
      end
  | APRUN | CCMRUN | IBRUN =>
      match getZ O_n a with
      | Some n => Some {| p_count := n; p_nodes := NNone; p_pins := None |}
      | None => None
      end
  | PRTE =>
      match getZ O_np a with
      | None => None
      | Some np =>
        match getHN O_host a with
        | None => Some {| p_count := np; p_nodes := NNone; p_pins := None |}
        | Some l =>
            (* --map-by node with exactly as many slots as processes: every
               host receives its slot count *)
            if np =? zlen (expand l)
            then Some {| p_count := np; p_nodes := NList (expand l); p_pins := None |}
            else None
        end
      end
  | JSRUN =>
      if hasOF O_erf a then
        match file cmd with
        | Some (FErf l) =>
            let ids := flat_map (fun e => fst (fst (fst e))) l in
            if consecutive 0 ids
               && forallb (fun e => zlen (fst (fst (fst e))) =? zlen (snd (fst e))) l
            then Some {| p_count := zlen ids;
                         p_nodes := NList (flat_map (fun e => map (fun _ => snd (fst (fst e)))
                                                               (fst (fst (fst e)))) l);
                         p_pins := Some (flat_map (fun e => snd (fst e)) l) |}
            else None
        | _ => None
        end
      else
        match getZ O_n a, getZ O_a a with
        | Some n, Some k => Some {| p_count := n * k; p_nodes := NNone; p_pins := None |}
        | _, _ => None
        end
  end.
