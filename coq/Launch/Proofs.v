(* C09 proofs. *)
From Coq Require Import ZArith List Bool Lia Permutation.
From RP Require Import Common.Eqb Launch.Model Launch.Oracle.
Import ListNotations.
Open Scope Z_scope.

(* ---------------------------------------------------------------- state *)
Lemma step_state : forall c st t, fst (get_launch_cmds c st t) = st.
Proof.
  intros c st t. unfold get_launch_cmds.
  destruct (c_lm c); try reflexivity.
  unfold cmd_mpirun.
  destruct (c_dpl_named c && (1 <? t_cpr t)); [reflexivity|].
  destruct (negb (forallb has_cores (t_slots t))); [reflexivity|].
  destruct ((MIN_NNODES_IN_LIST <? zlen (hosts_of t)) && t_wfail t); reflexivity.
Qed.

Lemma final_state_id : forall c ts st, final_state c st ts = st.
Proof.
  intros c ts; induction ts as [|t ts IH]; intro st; simpl; [reflexivity|].
  rewrite step_state. apply IH.
Qed.

(* the observation of task t after any history equals the one on a fresh launcher *)
Lemma run_app : forall c a b st, run c st (a ++ b) = run c st a ++ run c (final_state c st a) b.
Proof.
  intros c a; induction a as [|t a IH]; intros b st; simpl; [reflexivity|].
  destruct (get_launch_cmds c st t) as [st' o] eqn:E. simpl.
  replace (fst (get_launch_cmds c st t)) with st' by (rewrite E; reflexivity).
  rewrite IH. reflexivity.
Qed.

Lemma stateless_history : forall c hist t,
  run c [] (hist ++ [t]) = run c [] hist ++ run c [] [t].
Proof.
  intros c hist t. rewrite run_app. rewrite final_state_id. reflexivity.
Qed.

(* ------------------------------------------------------------ counting *)
Lemma zlen_cons {A} (x : A) l : zlen (x :: l) = 1 + zlen l.
Proof. unfold zlen. simpl length. lia. Qed.
Lemma zlen_nonneg {A} (l : list A) : 0 <= zlen l.
Proof. unfold zlen. lia. Qed.
Lemma zlen_app {A} (a b : list A) : zlen (a ++ b) = zlen a + zlen b.
Proof. unfold zlen. rewrite app_length. lia. Qed.
Lemma zlen_map {A B} (f : A -> B) l : zlen (map f l) = zlen l.
Proof. unfold zlen. rewrite map_length. reflexivity. Qed.

Lemma rep_succ h n : 0 <= n -> rep h (n + 1) = h :: rep h n.
Proof.
  intro H. unfold rep. replace (Z.to_nat (n + 1)) with (S (Z.to_nat n)) by lia. reflexivity.
Qed.
Lemma zlen_rep h n : 0 <= n -> zlen (rep h n) = n.
Proof. intro H. unfold zlen, rep. rewrite repeat_length. lia. Qed.

Definition nonneg (acc : list (Z * Z)) : Prop := Forall (fun p => 0 <= snd p) acc.

Lemma bump_nonneg h acc : nonneg acc -> nonneg (bump h acc).
Proof.
  induction acc as [|[k n] r IH]; intro H; simpl.
  - constructor; [simpl; lia | constructor].
  - inversion H as [|? ? Hn Hr]; subst. simpl in Hn.
    destruct (k =? h).
    + constructor; [simpl; lia | assumption].
    + constructor; [simpl; lia | apply IH; assumption].
Qed.

Lemma bump_perm h acc : nonneg acc -> Permutation (expand (bump h acc)) (h :: expand acc).
Proof.
  induction acc as [|[k n] r IH]; intro H; simpl.
  - unfold expand, rep. cbn. apply Permutation_refl.
  - inversion H as [|? ? Hn Hr]; subst. simpl in Hn.
    destruct (k =? h) eqn:E; simpl.
    + apply Z.eqb_eq in E; subst. rewrite rep_succ by lia. apply Permutation_refl.
    + eapply Permutation_trans.
      * apply Permutation_app_head. apply IH; assumption.
      * apply Permutation_sym. apply Permutation_middle.
Qed.

Lemma fold_bump_nonneg l : forall acc, nonneg acc -> nonneg (fold_left (fun a h => bump h a) l acc).
Proof. induction l as [|h l IH]; intros acc H; simpl; [assumption|]. apply IH, bump_nonneg, H. Qed.

Lemma fold_bump_perm l : forall acc, nonneg acc ->
  Permutation (expand (fold_left (fun a h => bump h a) l acc)) (l ++ expand acc).
Proof.
  induction l as [|h l IH]; intros acc H; simpl; [apply Permutation_refl|].
  eapply Permutation_trans; [apply IH, bump_nonneg, H|].
  eapply Permutation_trans; [apply Permutation_app_head, bump_perm, H|].
  apply Permutation_sym, Permutation_middle.
Qed.

(* the per-host counts (defaultdict) expand back to the host list *)
Lemma host_counts_perm l : Permutation (expand (host_counts l)) l.
Proof.
  unfold host_counts. eapply Permutation_trans; [apply fold_bump_perm; constructor|].
  simpl. rewrite app_nil_r. apply Permutation_refl.
Qed.
Lemma host_counts_nonneg l : nonneg (host_counts l).
Proof. apply fold_bump_nonneg. constructor. Qed.

Lemma zlen_expand acc : nonneg acc -> zlen (expand acc) = zsum (map snd acc).
Proof.
  induction acc as [|[k n] r IH]; intro H; simpl; [reflexivity|].
  inversion H as [|? ? Hn Hr]; subst. simpl in Hn.
  rewrite zlen_app, zlen_rep by lia. rewrite IH by assumption. reflexivity.
Qed.

Lemma perm_zlen {A} (a b : list A) : Permutation a b -> zlen a = zlen b.
Proof. intro H. unfold zlen. rewrite (Permutation_length H). reflexivity. Qed.

(* sum(host_slots.values()) is the number of slots *)
Lemma host_counts_sum l : zsum (map snd (host_counts l)) = zlen l.
Proof.
  rewrite <- zlen_expand by apply host_counts_nonneg. apply perm_zlen, host_counts_perm.
Qed.

(* ------------------------------------------------- multiset comparison *)
Lemma perm_count (a b : list Z) : Permutation a b -> forall x, count_occ Z.eq_dec a x = count_occ Z.eq_dec b x.
Proof.
  intro H; induction H as [|y a b H IH|y z a|a b c H1 IH1 H2 IH2]; intro x; simpl.
  - reflexivity.
  - rewrite IH. reflexivity.
  - destruct (Z.eq_dec y x), (Z.eq_dec z x); reflexivity.
  - rewrite IH1. apply IH2.
Qed.

Lemma mseteqb_count a b : mseteqb a b = true <-> forall x, count_occ Z.eq_dec a x = count_occ Z.eq_dec b x.
Proof.
  unfold mseteqb. rewrite forallb_forall. split.
  - intros H x. destruct (in_dec Z.eq_dec x (a ++ b)) as [Hi|Hn].
    + apply Nat.eqb_eq, H, Hi.
    + assert (~ In x a /\ ~ In x b) as [Ha Hb] by (split; intro; apply Hn, in_or_app; auto).
      apply (count_occ_not_In Z.eq_dec) in Ha. apply (count_occ_not_In Z.eq_dec) in Hb. congruence.
  - intros H x _. apply Nat.eqb_eq, H.
Qed.

Lemma mseteqb_perm a b : Permutation a b -> mseteqb a b = true.
Proof. intro H. apply mseteqb_count, perm_count, H. Qed.

Lemma subsetb_spec a b : subsetb a b = true <-> (forall x, In x a -> In x b).
Proof.
  unfold subsetb. rewrite forallb_forall. split; intros H x Hx.
  - apply H in Hx. apply existsb_exists in Hx as [y [Hy E]]. apply Z.eqb_eq in E. subst. assumption.
  - apply existsb_exists. exists x. split; [apply H, Hx | apply Z.eqb_refl].
Qed.
Lemma seteqb_spec a b : seteqb a b = true <-> (forall x, In x a <-> In x b).
Proof.
  unfold seteqb. rewrite andb_true_iff, !subsetb_spec. split.
  - intros [H1 H2] x. split; auto.
  - intro H. split; intros x; apply H.
Qed.

(* nodeset = sorted set(...) *)
Lemma insert_in x y l : In y (insert x l) <-> y = x \/ In y l.
Proof.
  induction l as [|z l IH]; simpl.
  - intuition.
  - destruct (x <? z) eqn:E1; simpl; [intuition|].
    destruct (x =? z) eqn:E2; simpl.
    + apply Z.eqb_eq in E2. subst. intuition.
    + rewrite IH. intuition.
Qed.
Lemma nodeset_in l y : In y (nodeset l) <-> In y l.
Proof.
  induction l as [|x l IH]; simpl; [reflexivity|]. rewrite insert_in, IH. intuition.
Qed.
Lemma insert_len x l : zlen (insert x l) <= 1 + zlen l.
Proof.
  induction l as [|z l IH]; cbn [insert].
  - rewrite zlen_cons. lia.
  - destruct (x <? z); [rewrite !zlen_cons; lia|].
    destruct (x =? z); rewrite !zlen_cons; pose proof (zlen_nonneg l); lia.
Qed.
Lemma nodeset_len l : zlen (nodeset l) <= zlen l.
Proof.
  induction l as [|x l IH]; cbn [nodeset fold_right]; [lia|]. rewrite zlen_cons.
  pose proof (insert_len x (nodeset l)) as H. unfold nodeset in *. lia.
Qed.

(* =============================================================== *)
(* per-method theorems                                              *)
(* =============================================================== *)
Definition valid (t : task) : Prop :=
  t_slots t <> [] /\ t_ranks t = zlen (t_slots t) /\ forallb has_cores (t_slots t) = true.

Definition mobs (c : cfg) (st : lm_state) (t : task) : obs1 :=
  (can_launch c t, snd (get_launch_cmds c st t)).

Lemma getZ_OL o st r : getZ o (map (OL O_c) st ++ r) = getZ o r.
Proof. induction st; simpl; auto. Qed.
Lemma getH_OL o st r : getH o (map (OL O_c) st ++ r) = getH o r.
Proof. induction st; simpl; auto. Qed.
Lemma hasOF_OL o st r : hasOF o (map (OL O_c) st ++ r) = hasOF o r.
Proof. induction st; simpl; auto. Qed.

Lemma firstn_zlen {A} (l : list A) : firstn (Z.to_nat (zlen l)) l = l.
Proof. unfold zlen. rewrite Nat2Z.id. apply firstn_all. Qed.
Lemma flat_rep1 l : flat_map (fun h => rep h 1) l = l.
Proof. induction l as [|x l IH]; simpl; [reflexivity|]. rewrite IH. reflexivity. Qed.

Lemma fill_all l : fill (zlen l) l = Some {| p_count := zlen l; p_nodes := NList l; p_pins := None |}.
Proof.
  unfold fill. pose proof (zlen_nonneg l).
  replace (0 <=? zlen l) with true by (symmetry; apply Z.leb_le; lia).
  replace (zlen l <=? zlen l) with true by (symmetry; apply Z.leb_le; lia).
  simpl. rewrite firstn_zlen. reflexivity.
Qed.

Definition exact_placement (hosts : list Z) : placement :=
  {| p_count := zlen hosts; p_nodes := NList hosts; p_pins := None |}.

(* ---- mpirun (all variants) ---- *)
Lemma mpirun_den : forall c st t,
  c_lm c = MPIRUN -> forallb has_cores (t_slots t) = true ->
  c_dpl_named c && (1 <? t_cpr t) = false ->
  (MIN_NNODES_IN_LIST <? zlen (hosts_of t)) && t_wfail t = false ->
  exists cmd, snd (get_launch_cmds c st t) = inr cmd /\
              den c cmd = Some (exact_placement (hosts_of t)).
Proof.
  intros c st t Hlm Hcores Hd Hw. unfold get_launch_cmds, den. rewrite Hlm.
  unfold cmd_mpirun. rewrite Hd, Hcores, Hw. cbn [negb snd].
  destruct (MIN_NNODES_IN_LIST <? zlen (hosts_of t)) eqn:Ebig;
  destruct (c_mpt c) eqn:Empt; destruct (c_ccmrun c); destruct (c_dplace c);
  destruct (c_dpl_named c); destruct (c_omplace c);
  destruct (negb (t_gpr t =? 0) && match c_flavor c with SPECTRUM => true | _ => false end);
  (eexists; split; [reflexivity|]); unfold EXEC;
  cbn [argv file opt app negb andb getZ getH hasOF oname_beq orb];
  rewrite <- ?app_assoc;
  rewrite ?getZ_OL, ?getH_OL, ?hasOF_OL;
  cbn [argv file opt app negb andb getZ getH hasOF oname_beq orb];
  rewrite ?getZ_OL, ?getH_OL, ?hasOF_OL;
  cbn [argv file opt app negb andb getZ getH hasOF oname_beq orb];
  try (rewrite fill_all; reflexivity);
  try (cbn [Z.leb Z.compare]; rewrite flat_rep1, Z.mul_1_l; reflexivity).
Qed.

(* ---- from a denotation to the oracle clauses ---- *)
Lemma want_nodes_slots c t : c_lm c <> JSRUN -> want_nodes c t = hosts_of t.
Proof. unfold want_nodes. destruct (c_lm c); congruence. Qed.
Lemma want_count_slots c t : c_lm c <> JSRUN -> t_slots t <> [] -> want_count c t = zlen (t_slots t).
Proof. unfold want_count. intros H1 H2. destruct (c_lm c); try congruence; destruct (t_slots t); congruence. Qed.
Lemma want_pins_slots c t : c_lm c <> JSRUN -> want_pins c t = map s_cores (t_slots t).
Proof. unfold want_pins. destruct (c_lm c); congruence. Qed.
Lemma zlen_hosts t : zlen (hosts_of t) = zlen (t_slots t).
Proof. apply zlen_map. Qed.

Lemma seteqb_refl l : seteqb l l = true.
Proof. apply seteqb_spec. intro; reflexivity. Qed.
Lemma pins_refl l : eqb_list seteqb l l = true.
Proof. induction l as [|x l IH]; simpl; [reflexivity|]. rewrite seteqb_refl, IH. reflexivity. Qed.

(* a command whose denotation is "process i on node l[i]" with l a
   permutation of the slots' nodes satisfies count, nodes (and pins, if the
   pinned core lists are those of the slots) *)
Lemma perm_ok : forall c t (o : obs1) cmd l pins,
  snd o = inr cmd -> c_lm c <> JSRUN -> t_slots t <> [] ->
  den c cmd = Some {| p_count := zlen l; p_nodes := NList l; p_pins := pins |} ->
  Permutation l (hosts_of t) ->
  (pins = None \/ pins = Some (map s_cores (t_slots t))) ->
  ok_count c t o = true /\ ok_nodes c t o = true /\ ok_pins c t o = true.
Proof.
  intros c t o cmd l pins Ho Hj Hs Hd Hp Hpins.
  unfold ok_count, ok_nodes, ok_pins. rewrite Ho, Hd. cbn [p_count p_nodes p_pins].
  rewrite want_count_slots, want_nodes_slots, want_pins_slots by assumption.
  repeat split.
  - destruct (accepted o); [|reflexivity].
    rewrite (perm_zlen _ _ Hp), zlen_hosts, !Z.eqb_refl. reflexivity.
  - destruct (accepted o && placed c t); [|reflexivity].
    apply mseteqb_perm, Permutation_map, Hp.
  - destruct (accepted o && placed c t); [|reflexivity].
    destruct Hpins as [-> | ->]; [reflexivity | apply pins_refl].
Qed.

Lemma set_ok : forall c t (o : obs1) cmd l,
  snd o = inr cmd -> c_lm c <> JSRUN -> t_slots t <> [] ->
  den c cmd = Some {| p_count := zlen (t_slots t); p_nodes := NSet l; p_pins := None |} ->
  (forall x, In x l <-> In x (hosts_of t)) ->
  ok_count c t o = true /\ ok_nodes c t o = true /\ ok_pins c t o = true.
Proof.
  intros c t o cmd l Ho Hj Hs Hd Hp.
  unfold ok_count, ok_nodes, ok_pins. rewrite Ho, Hd. cbn [p_count p_nodes p_pins].
  rewrite want_count_slots, want_nodes_slots by assumption.
  repeat split.
  - destruct (accepted o); [|reflexivity]. rewrite Z.eqb_refl. reflexivity.
  - destruct (accepted o && placed c t); [|reflexivity]. apply seteqb_spec, Hp.
  - destruct (accepted o && placed c t); reflexivity.
Qed.

Lemma err_ok : forall c t (o : obs1) e, snd o = inl e ->
  ok_count c t o = true /\ ok_nodes c t o = true /\ ok_pins c t o = true.
Proof.
  intros c t o e Ho. unfold ok_count, ok_nodes, ok_pins. rewrite Ho.
  destruct (accepted o); destruct (placed c t); auto.
Qed.

(* ---- MPIRUN, MPIRUN_MPT, MPIRUN_RSH, MPIRUN_CCMRUN, MPIRUN_DPLACE ---- *)
Lemma mpirun_enacts : forall c st t, c_lm c = MPIRUN -> valid t ->
  ok_count c t (mobs c st t) = true /\ ok_nodes c t (mobs c st t) = true /\
  ok_pins c t (mobs c st t) = true.
Proof.
  intros c st t Hlm [Hs [Hr Hc]].
  destruct (c_dpl_named c && (1 <? t_cpr t)) eqn:Hd.
  - apply err_ok with (e := EValue). unfold mobs, get_launch_cmds. rewrite Hlm. unfold cmd_mpirun.
    rewrite Hd. reflexivity.
  - destruct ((MIN_NNODES_IN_LIST <? zlen (hosts_of t)) && t_wfail t) eqn:Hw.
    + apply err_ok with (e := EOs). unfold mobs, get_launch_cmds. rewrite Hlm. unfold cmd_mpirun.
      rewrite Hd, Hc, Hw. reflexivity.
    + destruct (mpirun_den c st t Hlm Hc Hd Hw) as [cmd [Hcmd Hden]].
      apply perm_ok with (cmd := cmd) (l := hosts_of t) (pins := None); auto.
      congruence.
Qed.

Lemma mpirun_refuses : forall c st t, c_lm c = MPIRUN ->
  ok_refuses c t (mobs c st t) = true /\ (forallb has_cores (t_slots t) = true -> ok_nocrash (mobs c st t) = true).
Proof.
  intros c st t Hlm. unfold ok_refuses, ok_nocrash, capable, mobs, can_launch, get_launch_cmds.
  rewrite Hlm. unfold cmd_mpirun. cbn [fst snd].
  split.
  - destruct (c_dpl_named c && (1 <? t_cpr t)); cbn [negb snd]; [|reflexivity].
    rewrite orb_true_r. reflexivity.
  - intro Hc. rewrite Hc. cbn [negb].
    destruct (c_dpl_named c && (1 <? t_cpr t)); [reflexivity|].
    destruct ((MIN_NNODES_IN_LIST <? zlen (hosts_of t)) && t_wfail t); reflexivity.
Qed.

(* ---- MPIEXEC / MPIEXEC_MPT: rank file, host file (h:n), host file (h slots=n) ---- *)
Lemma index_from_rc (l : list slot) : forall i,
  ranks_consecutive i (map (fun p => (fst p, s_node (snd p), s_cores (snd p))) (index_from i l)) = true.
Proof. induction l as [|s l IH]; intro i; simpl; [reflexivity|]. rewrite Z.eqb_refl, IH. reflexivity. Qed.
Lemma index_from_nodes (l : list slot) : forall i,
  map (fun e : Z * Z * list Z => snd (fst e))
      (map (fun p => (fst p, s_node (snd p), s_cores (snd p))) (index_from i l)) = map s_node l.
Proof. induction l as [|s l IH]; intro i; simpl; [reflexivity|]. rewrite IH. reflexivity. Qed.
Lemma index_from_cores (l : list slot) : forall i,
  map (fun e : Z * Z * list Z => snd e)
      (map (fun p => (fst p, s_node (snd p), s_cores (snd p))) (index_from i l)) = map s_cores l.
Proof. induction l as [|s l IH]; intro i; simpl; [reflexivity|]. rewrite IH. reflexivity. Qed.
Lemma index_from_len {A} (l : list A) : forall i, zlen (index_from i l) = zlen l.
Proof. induction l as [|s l IH]; intro i; simpl; [reflexivity|]. rewrite !zlen_cons, IH. reflexivity. Qed.

Lemma mpiexec_rf_den : forall c st t, c_lm c = MPIEXEC -> c_rf c = true -> t_slots t <> [] ->
  t_wfail t = false ->
  exists cmd, snd (get_launch_cmds c st t) = inr cmd /\
    den c cmd = Some {| p_count := zlen (hosts_of t); p_nodes := NList (hosts_of t);
                        p_pins := Some (map s_cores (t_slots t)) |}.
Proof.
  intros c st t Hlm Hrf Hs Hw. unfold get_launch_cmds, den. rewrite Hlm. unfold cmd_mpiexec. rewrite Hrf, Hw.
  destruct (t_slots t) as [|s0 rest] eqn:Es; [congruence|]. rewrite <- Es. clear Hs.
  cbn [negb andb opt app snd].
  destruct (c_omplace c); (eexists; split; [reflexivity|]); unfold EXEC;
  cbn [argv file opt app getZ hasOF oname_beq orb];
  rewrite index_from_rc, host_counts_sum, zlen_map, index_from_len, zlen_hosts, Z.eqb_refl;
  cbn [andb]; rewrite index_from_nodes, index_from_cores; reflexivity.
Qed.

Lemma mpiexec_hf_den : forall c st t, c_lm c = MPIEXEC -> c_rf c = false ->
  c_flavor c <> PALS -> t_slots t <> [] -> t_wfail t = false ->
  exists cmd, snd (get_launch_cmds c st t) = inr cmd /\
    den c cmd = Some (exact_placement (expand (host_counts (hosts_of t)))).
Proof.
  intros c st t Hlm Hrf Hfl Hs Hw. unfold get_launch_cmds, den. rewrite Hlm. unfold cmd_mpiexec. rewrite Hrf, Hw.
  destruct (t_slots t) as [|s0 rest] eqn:Es; [congruence|]. rewrite <- Es. clear Hs.
  rewrite <- (zlen_expand _ (host_counts_nonneg (hosts_of t))).
  destruct (c_flavor c); try congruence;
  destruct (c_hf c); destruct (c_oversub c); destruct (c_can_os c); destruct (c_omplace c);
  cbn [negb andb opt app snd]; (eexists; split; [reflexivity|]); unfold EXEC;
  cbn [argv file opt app getZ hasOF oname_beq orb]; rewrite fill_all; reflexivity.
Qed.

Lemma mpiexec_enacts : forall c st t, c_lm c = MPIEXEC -> valid t ->
  (c_rf c = true \/ c_flavor c <> PALS) ->
  ok_count c t (mobs c st t) = true /\ ok_nodes c t (mobs c st t) = true /\
  ok_pins c t (mobs c st t) = true.
Proof.
  intros c st t Hlm [Hs [Hr Hc]] Hv.
  destruct (t_wfail t) eqn:Hw.
  { apply err_ok with (e := EOs). unfold mobs, get_launch_cmds. rewrite Hlm. unfold cmd_mpiexec. rewrite Hw.
    destruct (t_slots t); [congruence|reflexivity]. }
  destruct (c_rf c) eqn:Hrf.
  - destruct (mpiexec_rf_den c st t Hlm Hrf Hs Hw) as [cmd [Hcmd Hden]].
    eapply perm_ok with (cmd := cmd) (l := hosts_of t); eauto; congruence.
  - destruct Hv as [Hv|Hv]; [discriminate|].
    destruct (mpiexec_hf_den c st t Hlm Hrf Hv Hs Hw) as [cmd [Hcmd Hden]].
    eapply perm_ok with (cmd := cmd) (l := expand (host_counts (hosts_of t))) (pins := None); eauto;
      try congruence. apply host_counts_perm.
Qed.

(* ---- PRTE ---- *)
Lemma prte_den : forall c st t, c_lm c = PRTE -> c_dvm c = true -> valid t ->
  exists cmd, snd (get_launch_cmds c st t) = inr cmd /\
    den c cmd = Some (exact_placement (expand (host_counts (hosts_of t)))).
Proof.
  intros c st t Hlm Hdvm [Hs [Hr Hc]].
  assert (Hn : t_ranks t = zlen (expand (host_counts (hosts_of t)))).
  { rewrite Hr, <- zlen_hosts. symmetry. apply perm_zlen, host_counts_perm. }
  clear Hr Hc.
  unfold get_launch_cmds, den. rewrite Hlm. unfold cmd_prte. rewrite Hdvm.
  destruct (t_slots t) as [|s0 rest] eqn:Es; [congruence|].
  cbn [negb snd]. eexists; split; [reflexivity|]. unfold EXEC.
  cbn [argv app getZ getHN oname_beq].
  rewrite Hn, Z.eqb_refl. reflexivity.
Qed.

Lemma prte_enacts : forall c st t, c_lm c = PRTE -> valid t ->
  ok_count c t (mobs c st t) = true /\ ok_nodes c t (mobs c st t) = true /\
  ok_pins c t (mobs c st t) = true.
Proof.
  intros c st t Hlm Hv. destruct (c_dvm c) eqn:Hdvm.
  - destruct (prte_den c st t Hlm Hdvm Hv) as [cmd [Hcmd Hden]]. destruct Hv as [Hs [Hr Hc]].
    eapply perm_ok with (cmd := cmd) (l := expand (host_counts (hosts_of t))) (pins := None); eauto;
      try congruence. apply host_counts_perm.
  - apply err_ok with (e := ERuntime). unfold mobs, get_launch_cmds. rewrite Hlm. unfold cmd_prte.
    rewrite Hdvm. reflexivity.
Qed.

(* ---- SSH / RSH / FORK: exactly one process, on the slot's node ---- *)
Lemma single_enacts : forall c st t, (c_lm c = SSH \/ c_lm c = RSH) -> valid t ->
  ok_count c t (mobs c st t) = true /\ ok_nodes c t (mobs c st t) = true /\
  ok_pins c t (mobs c st t) = true.
Proof.
  intros c st t Hlm [Hs [Hr Hc]].
  assert (Hj : c_lm c <> JSRUN) by (destruct Hlm; congruence).
  destruct (t_slots t) as [|s0 [|s1 rest]] eqn:Es; [congruence| |].
  - destruct Hlm as [Hlm|Hlm];
    (eapply perm_ok with (l := [s_node s0]) (pins := None);
     [ unfold mobs, get_launch_cmds; rewrite Hlm; unfold cmd_ssh; rewrite Es; cbn [snd]; reflexivity
     | assumption
     | congruence
     | unfold den; rewrite Hlm; reflexivity
     | unfold hosts_of; rewrite Es; apply Permutation_refl
     | auto ]).
  - apply err_ok with (e := ERuntime). unfold mobs, get_launch_cmds.
    destruct Hlm as [-> | ->]; unfold cmd_ssh; rewrite Es; reflexivity.
Qed.

Lemma single_refuses : forall c st t, (c_lm c = SSH \/ c_lm c = RSH) ->
  ok_refuses c t (mobs c st t) = true /\ ok_nocrash (mobs c st t) = true.
Proof.
  intros c st t Hlm. unfold ok_refuses, ok_nocrash, capable, mobs, get_launch_cmds, can_launch, accepted.
  destruct Hlm as [-> | ->]; unfold cmd_ssh; cbn [fst snd];
  destruct (t_slots t) as [|s0 [|s1 rest]]; cbn;
  repeat match goal with |- context [if ?b then _ else _] => destruct b end; auto.
Qed.

Lemma fork_accepts : forall c t, c_lm c = FORK -> can_launch c t = inr true ->
  exists s0, t_slots t = [s0] /\ (s_node s0 = 0 \/ s_node s0 = c_local c).
Proof.
  intros c t Hlm. unfold can_launch. rewrite Hlm.
  destruct (t_slots t) as [|s0 [|s1 rest]].
  - cbn. discriminate.
  - cbn [zlen length Z.of_nat Z.ltb Z.compare].
    destruct (s_node s0 =? 0) eqn:E0; destruct (s_node s0 =? c_local c) eqn:E1; cbn [orb negb];
      try discriminate; intros _; exists s0; split; auto.
    + left. apply Z.eqb_eq, E0.
    + left. apply Z.eqb_eq, E0.
    + right. apply Z.eqb_eq, E1.
  - rewrite !zlen_cons. pose proof (zlen_nonneg rest).
    replace (1 <? 1 + (1 + zlen rest)) with true by (symmetry; apply Z.ltb_lt; lia). discriminate.
Qed.

Lemma not_accepted_ok : forall c t (o : obs1), accepted o = false ->
  ok_count c t o = true /\ ok_nodes c t o = true /\ ok_pins c t o = true.
Proof. intros c t o H. unfold ok_count, ok_nodes, ok_pins. rewrite H. auto. Qed.

Lemma fork_enacts : forall c st t, c_lm c = FORK ->
  ok_count c t (mobs c st t) = true /\ ok_nodes c t (mobs c st t) = true /\
  ok_pins c t (mobs c st t) = true.
Proof.
  intros c st t Hlm.
  destruct (accepted (mobs c st t)) eqn:Ha; [|apply not_accepted_ok, Ha].
  assert (Hcan : can_launch c t = inr true).
  { unfold accepted, mobs in Ha. cbn [fst] in Ha. destruct (can_launch c t) as [e|[|]]; congruence. }
  destruct (fork_accepts c t Hlm Hcan) as [s0 [Es Hn]].
  unfold ok_count, ok_nodes, ok_pins. rewrite Ha.
  unfold mobs, get_launch_cmds, den, placed, want_count, want_nodes, hosts_of. rewrite Hlm, Es.
  cbn [fst snd cmd_fork p_count p_nodes p_pins andb map].
  repeat split.
  apply mseteqb_perm. unfold canon. rewrite Hlm.
  destruct Hn as [Hn|Hn]; rewrite Hn.
  - rewrite Z.eqb_refl. destruct (c_local c =? 0); apply Permutation_refl.
  - apply Permutation_refl.
Qed.

Lemma fork_refuses : forall c st t, c_lm c = FORK ->
  ok_refuses c t (mobs c st t) = true.
Proof.
  intros c st t Hlm. unfold ok_refuses.
  destruct (capable c t) eqn:Hcap; [reflexivity|].
  destruct (accepted (mobs c st t)) eqn:Ha; [|reflexivity].
  assert (Hcan : can_launch c t = inr true).
  { unfold accepted, mobs in Ha. cbn [fst] in Ha. destruct (can_launch c t) as [e|[|]]; congruence. }
  destruct (fork_accepts c t Hlm Hcan) as [s0 [Es Hn]].
  unfold capable in Hcap. rewrite Hlm, Es in Hcap.
  destruct Hn as [Hn|Hn]; rewrite Hn in Hcap; rewrite Z.eqb_refl in Hcap;
    [discriminate | rewrite orb_true_r in Hcap; discriminate].
Qed.

(* ---- APRUN / CCMRUN / IBRUN: the process count ---- *)
Lemma count_only : forall c st t, (c_lm c = APRUN \/ c_lm c = CCMRUN \/ c_lm c = IBRUN) -> valid t ->
  ok_count c t (mobs c st t) = true /\ ok_pins c t (mobs c st t) = true.
Proof.
  intros c st t Hlm [Hs [Hr Hc]].
  assert (Hj : c_lm c <> JSRUN) by (destruct Hlm as [H|[H|H]]; congruence).
  unfold ok_count, ok_pins.
  destruct (accepted (mobs c st t)); destruct (placed c t); cbn [andb]; auto;
  rewrite ?(want_count_slots c t Hj Hs);
  unfold mobs, get_launch_cmds, den; cbn [snd];
  (destruct Hlm as [H|[H|H]]; rewrite H; cbn [fst snd cmd_aprun cmd_ccmrun];
   [ cbn; rewrite Hr, Z.eqb_refl; auto
   | cbn; rewrite Hr, Z.eqb_refl; auto
   | unfold cmd_ibrun; rewrite Hc; destruct (t_slots t) as [|s0 rest] eqn:Es; [congruence|];
     cbn [negb];
     destruct ((t_ranks t * t_cpr t =? 0) && (c_tpn c =? 0)); [auto|];
     cbn; rewrite Hr, Z.eqb_refl; auto ]).
Qed.

(* ---- SRUN: count and node set ---- *)
Lemma nodeset_nonempty x l : nodeset (x :: l) <> [].
Proof.
  intro H. assert (Hi : In x (nodeset (x :: l))) by (apply nodeset_in; left; reflexivity).
  rewrite H in Hi. destruct Hi.
Qed.

Lemma srun_den : forall c st t, c_lm c = SRUN -> t_slots t <> [] ->
  (MIN_VSLURM_IN_LIST <? c_vmajor c) && (MIN_NNODES_IN_LIST <? zlen (nodeset (hosts_of t))) && t_wfail t = false ->
  exists cmd, snd (get_launch_cmds c st t) = inr cmd /\
    den c cmd = Some {| p_count := zlen (t_slots t); p_nodes := NSet (nodeset (hosts_of t)); p_pins := None |}.
Proof.
  intros c st t Hlm Hs Hw.
  assert (Hle : (zlen (nodeset (hosts_of t)) <=? zlen (t_slots t)) = true).
  { apply Z.leb_le. rewrite <- zlen_hosts. apply nodeset_len. }
  assert (Hne : nodeset (hosts_of t) <> []).
  { unfold hosts_of. destruct (t_slots t) as [|s0 rest]; [congruence|]. apply nodeset_nonempty. }
  unfold get_launch_cmds, den. rewrite Hlm. unfold cmd_srun.
  destruct (t_slots t) as [|s0 rest] eqn:Es; [congruence|]. clear Hs.
  destruct (nodeset (hosts_of t)) as [|n0 nl] eqn:En; [congruence|].
  destruct ((MIN_VSLURM_IN_LIST <? c_vmajor c) && (MIN_NNODES_IN_LIST <? zlen (n0 :: nl))) eqn:Ecnd;
  cbn [andb] in Hw; try rewrite Hw;
  destruct (1 <? zlen (s0 :: rest)); destruct (t_mpi t); destruct (c_exact c); destruct (c_traverse c);
  destruct (negb (t_cpr t =? 0)); destruct (1 <? c_tpc c);
  match goal with |- context [if ?b then (if c_traverse c then _ else _) else []] => destruct b
                | |- context [if ?b then [OZ O_gpt _] else []] => destruct b
                | |- context [if ?b then [OZ O_gpt _; _; _] else []] => destruct b end;
  cbn [snd]; (eexists; split; [reflexivity|]); unfold EXEC;
  cbn [argv file opt app getZ getH hasOF oname_beq orb];
  rewrite ?Z.eqb_refl, Hle; reflexivity.
Qed.

Lemma srun_enacts : forall c st t, c_lm c = SRUN -> valid t ->
  ok_count c t (mobs c st t) = true /\ ok_nodes c t (mobs c st t) = true /\
  ok_pins c t (mobs c st t) = true.
Proof.
  intros c st t Hlm [Hs [Hr Hc]].
  destruct ((MIN_VSLURM_IN_LIST <? c_vmajor c) && (MIN_NNODES_IN_LIST <? zlen (nodeset (hosts_of t)))
            && t_wfail t) eqn:Hw.
  { apply err_ok with (e := EOs). unfold mobs, get_launch_cmds. rewrite Hlm. unfold cmd_srun.
    destruct (t_slots t) as [|s0 rest]; [congruence|]. cbn [snd]. rewrite Hw. reflexivity. }
  destruct (srun_den c st t Hlm Hs Hw) as [cmd [Hcmd Hden]].
  eapply set_ok with (cmd := cmd); eauto; try congruence.
  intro x. apply nodeset_in.
Qed.

(* ---- refutations (witnesses replayed on the implementation: corpus/C09) ---- *)
Definition cfg0 (l : lm) (f : flavor) : cfg :=
  Build_cfg l false false false false false f false false false false 20 false false 1 false 64 4 7 0 [] false true.
Definition task0 (sl : list slot) (rs : list rset) (n : Z) : task :=
  Build_task sl rs n 1 0 true true 0 false false false false.
Definition sl (n c : Z) : slot := Build_slot n n [c] [].

Lemma valid_intro t : t_slots t <> [] -> t_ranks t = zlen (t_slots t) ->
  forallb has_cores (t_slots t) = true -> valid t.
Proof. intros; repeat split; assumption. Qed.

Lemma pals_nodes_refuted : exists c t, c_lm c = MPIEXEC /\ c_flavor c = PALS /\ valid t /\
  ok_count c t (mobs c [] t) = true /\ ok_nodes c t (mobs c [] t) = false.
Proof.
  exists (cfg0 MPIEXEC PALS), (task0 [sl 1 0; sl 2 0; sl 2 1] [] 3).
  repeat split; try discriminate; vm_compute; reflexivity.
Qed.

Lemma pals_pins_refuted : exists c t, c_lm c = MPIEXEC /\ c_flavor c = PALS /\ valid t /\
  ok_nodes c t (mobs c [] t) = true /\ ok_pins c t (mobs c [] t) = false.
Proof.
  exists (cfg0 MPIEXEC PALS), (task0 [sl 2 0; sl 1 4] [] 2).
  repeat split; try discriminate; vm_compute; reflexivity.
Qed.

Lemma aprun_nodes_refuted : exists c t, c_lm c = APRUN /\ valid t /\ ok_nodes c t (mobs c [] t) = false.
Proof.
  exists (cfg0 APRUN OMPI), (task0 [sl 1 0] [] 1). repeat split; try discriminate; vm_compute; reflexivity.
Qed.
Lemma ccmrun_nodes_refuted : exists c t, c_lm c = CCMRUN /\ valid t /\ ok_nodes c t (mobs c [] t) = false.
Proof.
  exists (cfg0 CCMRUN OMPI), (task0 [sl 1 0] [] 1). repeat split; try discriminate; vm_compute; reflexivity.
Qed.
Lemma jsrun_plain_refuted : exists c t, c_lm c = JSRUN /\ c_erf c = false /\
  ok_count c t (mobs c [] t) = false /\ ok_nodes c t (mobs c [] t) = false.
Proof.
  exists (cfg0 JSRUN OMPI), (task0 [] [Build_rset 1 [[12]] []; Build_rset 44 [[60]; [50]] []] 3).
  repeat split; vm_compute; reflexivity.
Qed.

(* =============================================================== *)
(* launcher selection: whatever launcher find_launcher selects,     *)
(* its command starts the ranks on the placement's nodes            *)
(* =============================================================== *)
Lemma find_from_sound : forall cs t i j c, find_from i cs t = inr (Some (j, c)) ->
  can_launch c t = inr true /\ (i <= j)%nat /\ nth_error cs (j - i) = Some c.
Proof.
  intros cs t; induction cs as [|c0 r IH]; intros i j c H; simpl in H; [discriminate|].
  destruct (can_launch c0 t) as [e|[|]] eqn:E; [discriminate| |].
  - injection H as <- <-. rewrite Nat.sub_diag. auto.
  - apply IH in H as [Hc [Hle Hn]]. repeat split; [assumption|lia|].
    replace (j - i)%nat with (S (j - S i)) by lia. exact Hn.
Qed.

(* the launch methods (and flavours) for which count, nodes and pins are proved *)
Definition proven (c : cfg) : Prop :=
  c_lm c = FORK \/ c_lm c = SSH \/ c_lm c = RSH \/ c_lm c = MPIRUN \/ c_lm c = SRUN \/
  c_lm c = PRTE \/ (c_lm c = MPIEXEC /\ (c_rf c = true \/ c_flavor c <> PALS)).

Lemma proven_enacts : forall c st t, proven c -> valid t ->
  ok_count c t (mobs c st t) = true /\ ok_nodes c t (mobs c st t) = true /\
  ok_pins c t (mobs c st t) = true.
Proof.
  intros c st t Hp Hv. destruct Hp as [H|[H|[H|[H|[H|[H|[H Hf]]]]]]].
  - apply fork_enacts, H.
  - apply single_enacts; auto.
  - apply single_enacts; auto.
  - apply mpirun_enacts; auto.
  - apply srun_enacts; auto.
  - apply prte_enacts; auto.
  - apply mpiexec_enacts; auto.
Qed.

Lemma selected_enacts : forall cs t j c st,
  find_launcher cs t = inr (Some (j, c)) -> valid t -> proven c ->
  let o := (inr true, snd (get_launch_cmds c st t)) : obs1 in
  ok_count c t o = true /\ ok_nodes c t o = true /\ ok_pins c t o = true.
Proof.
  intros cs t j c st Hf Hv Hp. apply find_from_sound in Hf as [Hcan _].
  pose proof (proven_enacts c st t Hp Hv) as H. unfold mobs in H. rewrite Hcan in H. exact H.
Qed.

(* FORK is selected only for a task whose single slot is on the agent's own
   node: the node NAME equals the agent's node name, or is 'localhost' *)
Lemma fork_selected_own_node : forall cs t j c,
  find_launcher cs t = inr (Some (j, c)) -> c_lm c = FORK ->
  exists s, t_slots t = [s] /\ (s_node s = 0 \/ s_node s = c_local c).
Proof.
  intros cs t j c Hf Hlm. apply find_from_sound in Hf as [Hcan _]. apply fork_accepts; assumption.
Qed.

(* the oracle clauses of the selection rows hold on the model *)
Lemma select_obs_ok : forall cs t, valid t -> (forall c, In c cs -> proven c) ->
  sel_clause ok_count cs t (select_obs cs t) = true /\
  sel_clause ok_nodes cs t (select_obs cs t) = true /\
  sel_clause ok_pins cs t (select_obs cs t) = true.
Proof.
  intros cs t Hv Hall. unfold select_obs.
  destruct (find_launcher cs t) as [e|[[j c]|]] eqn:Hf; unfold sel_clause; cbn [fst snd]; auto.
  pose proof Hf as Hs. unfold find_launcher in Hs. apply find_from_sound in Hs as [Hcan [_ Hn]].
  rewrite Nat.sub_0_r in Hn. rewrite Hn.
  apply (selected_enacts cs t j c [] Hf Hv). apply Hall. eapply nth_error_In, Hn.
Qed.

Lemma find_launcher_sound : forall cs t j c, find_launcher cs t = inr (Some (j, c)) ->
  can_launch c t = inr true /\ nth_error cs j = Some c.
Proof.
  intros cs t j c H. unfold find_launcher in H. apply find_from_sound in H as [Hc [_ Hn]].
  rewrite Nat.sub_0_r in Hn. auto.
Qed.

(* =============================================================== *)
(* error path: the host / rank / node / ERF file cannot be written  *)
(* =============================================================== *)
Ltac top H := repeat (match type of H with
   | snd (if ?b then _ else _) = _ => destruct b eqn:?
   | snd (_, _) = _ => cbn [snd] in H
   | (if ?b then _ else _) = _ => destruct b eqn:?
   | (match ?x with _ => _ end) = _ => destruct x eqn:?
   | inl _ = inr _ => discriminate H
   end).

(* a method that has to write a file refuses the task when the write fails *)
Lemma wfail_refuses : forall c st t, t_wfail t = true -> writes_file c t = true ->
  exists e, snd (get_launch_cmds c st t) = inl e.
Proof.
  intros c st t Hw Hf. unfold writes_file in Hf. unfold get_launch_cmds.
  destruct (c_lm c); try discriminate; cbn [snd].
  - unfold cmd_mpirun. rewrite Hw, Hf. cbn [andb].
    destruct (c_dpl_named c && (1 <? t_cpr t)); [eexists; reflexivity|].
    destruct (negb (forallb has_cores (t_slots t))); eexists; reflexivity.
  - unfold cmd_mpiexec. rewrite Hw. destruct (t_slots t); eexists; reflexivity.
  - unfold cmd_srun. destruct (t_slots t) as [|s0 rest]; [discriminate|]. rewrite Hf, Hw.
    eexists; reflexivity.
  - unfold cmd_jsrun. rewrite Hf, Hw. destruct (t_rs t); [eexists; reflexivity|].
    destruct (negb (forallb gpus_ok (r :: l))); eexists; reflexivity.
Qed.

(* whatever IS emitted while the sandbox cannot be written names no file, i.e.
   no command is produced on a path whose file write failed *)
Lemma wfail_no_file : forall c st t cmd, t_wfail t = true ->
  snd (get_launch_cmds c st t) = inr cmd -> file cmd = None.
Proof.
  intros c st t cmd Hw H. unfold get_launch_cmds in H.
  destruct (c_lm c); cbn [snd] in H.
  - unfold cmd_fork in H. injection H as <-. reflexivity.
  - unfold cmd_ssh in H. top H; injection H as <-; reflexivity.
  - unfold cmd_ssh in H. top H; injection H as <-; reflexivity.
  - unfold cmd_mpirun in H. rewrite Hw, andb_true_r in H. top H. injection H as <-. reflexivity.
  - unfold cmd_mpiexec in H. rewrite Hw in H. top H.
  - unfold cmd_srun in H. rewrite Hw in H. destruct (t_slots t) as [|s0 rest].
    + cbn [andb] in H. injection H as <-. reflexivity.
    + rewrite andb_true_r in H. top H. injection H as <-. reflexivity.
  - unfold cmd_aprun in H. injection H as <-. reflexivity.
  - unfold cmd_ccmrun in H. injection H as <-. reflexivity.
  - unfold cmd_ibrun in H. top H; injection H as <-; reflexivity.
  - unfold cmd_jsrun in H. rewrite Hw in H. top H; injection H as <-; reflexivity.
  - unfold cmd_prte in H. top H; injection H as <-; reflexivity.
Qed.

(* =============================================================== *)
(* bulks: Popen.work handles every task of a bulk on its own        *)
(* =============================================================== *)
Lemma upd_nth_same {A} (d : A) : forall (l : list A) i, upd i (nth i l d) l = l.
Proof.
  induction l as [|y r IH]; intros [|k]; simpl; try reflexivity. rewrite IH. reflexivity.
Qed.

Lemma handle_st_state : forall cs sts t, fst (handle_st cs sts t) = sts.
Proof.
  intros cs sts t. unfold handle_st.
  destruct (find_launcher cs t) as [e|[[i c]|]]; try reflexivity.
  pose proof (step_state c (nth i sts []) t) as Hs.
  destruct (get_launch_cmds c (nth i sts []) t) as [st' o]. simpl in Hs. subst st'.
  simpl. apply upd_nth_same.
Qed.

(* work bulk = map handle bulk, whatever the launchers' states *)
Lemma work_st_map : forall cs bulk sts,
  work_st cs sts bulk = map (fun t => snd (handle_st cs sts t)) bulk.
Proof.
  intros cs bulk; induction bulk as [|t r IH]; intro sts; simpl; [reflexivity|].
  pose proof (handle_st_state cs sts t) as Hs.
  destruct (handle_st cs sts t) as [sts' h]. simpl in Hs. subst sts'. simpl. rewrite IH. reflexivity.
Qed.

Lemma work_map : forall cs bulk, work cs bulk = map (handle cs) bulk.
Proof. intros. unfold work, handle. apply work_st_map. Qed.

(* the outcome of task t in any bulk is its outcome alone *)
Lemma bulk_task_alone : forall cs a t b,
  nth_error (work cs (a ++ t :: b)) (length a) = Some (handle cs t).
Proof.
  intros. rewrite work_map, map_app. simpl.
  rewrite nth_error_app2 by (rewrite map_length; apply le_n).
  rewrite map_length, Nat.sub_diag. reflexivity.
Qed.

Lemma work_app : forall cs a b, work cs (a ++ b) = work cs a ++ work cs b.
Proof. intros. rewrite !work_map. apply map_app. Qed.

(* a refused task changes nothing for the other tasks of the bulk *)
Lemma bulk_refused_neutral : forall cs a r b, handle cs r = HFailed ->
  work cs (a ++ r :: b) = work cs a ++ HFailed :: work cs b /\
  work cs (a ++ b) = work cs a ++ work cs b.
Proof.
  intros cs a r b Hr. split; [|apply work_app].
  rewrite work_app. f_equal. rewrite !work_map. simpl. rewrite Hr. reflexivity.
Qed.

Lemma nth_fresh : forall cs i, nth i (fresh cs) [] = [].
Proof. unfold fresh. induction cs as [|c r IH]; intros [|k]; simpl; auto. Qed.

(* a launched task was launched by the first launcher of the order that
   accepts it, with that launcher's command for this task *)
Lemma handle_launched : forall cs t i cmd, handle cs t = HLaunched i cmd ->
  exists c, find_launcher cs t = inr (Some (i, c)) /\ nth_error cs i = Some c /\
            can_launch c t = inr true /\ snd (get_launch_cmds c [] t) = inr cmd.
Proof.
  intros cs t i cmd H. unfold handle, handle_st in H.
  destruct (find_launcher cs t) as [e|[[j c]|]] eqn:Hf; try discriminate.
  rewrite nth_fresh in H.
  destruct (get_launch_cmds c [] t) as [st' o] eqn:Hg. simpl in H.
  destruct o as [e|cmd']; [discriminate|]. injection H as <- <-.
  exists c. destruct (find_launcher_sound cs t j c Hf) as [Hc Hn].
  repeat split; auto. rewrite Hg. reflexivity.
Qed.

Lemma bulk_own_refl : forall cs t, bulk_launcher_is_own cs t (handle cs t) = true.
Proof.
  intros. unfold bulk_launcher_is_own. destruct (handle cs t); [reflexivity|apply Nat.eqb_refl].
Qed.

Lemma bulk_task_enacts : forall cs t, valid t -> (forall c, In c cs -> proven c) ->
  bulk_cmd_matches_placement cs t (handle cs t) = true.
Proof.
  intros cs t Hv Hall. unfold bulk_cmd_matches_placement, bulk_clause.
  destruct (handle cs t) as [|i cmd] eqn:Hh; [reflexivity|].
  destruct (handle_launched cs t i cmd Hh) as [c [Hf [Hn [Hcan Hg]]]]. cbv beta iota. rewrite Hn.
  assert (Hp : proven c) by (apply Hall; eapply nth_error_In, Hn).
  pose proof (selected_enacts cs t i c [] Hf Hv Hp) as H. cbv zeta in H. rewrite Hg in H.
  destruct H as [H1 [H2 H3]]. apply andb_true_iff; split; [apply andb_true_iff; split|]; assumption.
Qed.

Lemma all2_map {A B} (f : A -> B -> bool) (g : A -> B) (l : list A) :
  (forall x, In x l -> f x (g x) = true) -> all2 f l (map g l) = true.
Proof.
  induction l as [|x l IH]; intro H; simpl; [reflexivity|].
  rewrite H by (left; reflexivity). apply IH. intros y Hy. apply H. right. exact Hy.
Qed.

(* the two bulk clauses hold on the model for every bulk *)
Lemma bulk_rows_hold : forall cs bulk, (forall t, In t bulk -> valid t) -> (forall c, In c cs -> proven c) ->
  all2 (bulk_launcher_is_own cs) bulk (work cs bulk) = true /\
  all2 (bulk_cmd_matches_placement cs) bulk (work cs bulk) = true.
Proof.
  intros cs bulk Hv Hall. rewrite work_map. split; apply all2_map.
  - intros t _. apply bulk_own_refl.
  - intros t Ht. apply bulk_task_enacts; auto.
Qed.

(* =============================================================== *)
(* sequences of bulks on one executor / resource manager            *)
(* =============================================================== *)
Lemma after_bulk_id : forall cs bulk sts, after_bulk cs sts bulk = sts.
Proof.
  intros cs bulk; induction bulk as [|t r IH]; intro sts; simpl; [reflexivity|].
  rewrite handle_st_state. apply IH.
Qed.

(* every bulk of the sequence is handled task by task, each task alone *)
Lemma work_seq_map : forall cs bulks sts,
  work_seq cs sts bulks = map (map (fun t => snd (handle_st cs sts t))) bulks.
Proof.
  intros cs bulks; induction bulks as [|b r IH]; intro sts; simpl; [reflexivity|].
  rewrite after_bulk_id, work_st_map, IH. reflexivity.
Qed.

Lemma work_seq_concat : forall cs bulks,
  concat (work_seq cs (fresh cs) bulks) = work cs (concat bulks).
Proof.
  intros. rewrite work_seq_map, work_map. unfold handle.
  induction bulks as [|b r IH]; simpl; [reflexivity|]. rewrite IH, map_app. reflexivity.
Qed.

(* find_launcher is free of history: whatever bulks were handled before (and
   whatever comes after), the launcher and the command of task t are those of
   t alone on a fresh resource manager *)
Lemma find_launcher_history_free : forall cs before a t b after,
  nth_error (concat (work_seq cs (fresh cs) (before ++ (a ++ t :: b) :: after)))
            (length (concat before ++ a)) = Some (handle cs t).
Proof.
  intros. rewrite work_seq_concat, concat_app. simpl.
  replace (concat before ++ (a ++ t :: b) ++ concat after)
    with ((concat before ++ a) ++ t :: (b ++ concat after))
    by (rewrite <- !app_assoc; reflexivity).
  apply bulk_task_alone.
Qed.
