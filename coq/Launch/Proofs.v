(* C09 proofs. *)
From Coq Require Import ZArith List Bool String Lia Permutation.
From RP Require Import Common.Eqb Launch.Model Launch.Oracle.
Import ListNotations.
Open Scope Z_scope.

(* ---------------------------------------------------------------- state *)
Lemma step_state : forall c st t, fst (get_launch_cmds c st t) = st.
Proof.
  intros c st t. unfold get_launch_cmds.
  destruct (c_lm c); try reflexivity.
  unfold cmd_mpirun.
  destruct (c_dpl_named c && (1 <? t_cpr t)); [reflexivity|].
  destruct (negb (forallb has_cores (t_slots t))); reflexivity.
Qed.
