From Coq Require Import ZArith List Bool Lia.
From RP Require Import PilotLaunch.Model.
Import ListNotations.
Open Scope Z_scope.

Lemma zmem_In x l : zmem x l = true <-> In x l.
Proof.
  induction l as [|y r IH]; simpl; [split; [discriminate|tauto]|].
  rewrite orb_true_iff, Z.eqb_eq, IH. tauto.
Qed.

Lemma zmem_app x l1 l2 : zmem x (l1 ++ l2) = zmem x l1 || zmem x l2.
Proof. induction l1 as [|y r IH]; simpl; [reflexivity|]. rewrite IH, orb_assoc. reflexivity. Qed.

Definition uids (ps : list lp) : list Z := map lp_uid ps.

(* pilot u sits in no bucket *)
Definition absent_s (u : Z) (ss : list (Z * list lp)) : bool :=
  forallb (fun sb : Z * list lp => negb (zmem u (uids (snd sb)))) ss.
Definition absent (u : Z) (b : list (Z * list (Z * list lp))) : bool :=
  forallb (fun rb : Z * list (Z * list lp) => absent_s u (snd rb)) b.

Definition sts_s (fails : Z -> Z -> bool) (u r : Z) (ss : list (Z * list lp)) : list lst :=
  flat_map (fun sb : Z * list lp => if zmem u (uids (snd sb)) then [bucket_state fails r (fst sb)] else []) ss.
Definition sts (fails : Z -> Z -> bool) (u : Z) (b : list (Z * list (Z * list lp))) : list lst :=
  flat_map (fun rb : Z * list (Z * list lp) => sts_s fails u (fst rb) (snd rb)) b.

Lemma proj_app u a b : proj u (a ++ b) = proj u a ++ proj u b.
Proof. unfold proj. apply flat_map_app. Qed.

Lemma proj_map_bucket fails u r ss :
  proj u (map (fun sb : Z * list lp => (map lp_uid (snd sb), bucket_state fails r (fst sb))) ss) = sts_s fails u r ss.
Proof.
  unfold proj, sts_s, uids. induction ss as [|[s l] t IH]; [reflexivity|].
  cbn [map flat_map fst snd]. rewrite IH. reflexivity.
Qed.

Lemma proj_launch_all fails u b : proj u (launch_all fails b) = sts fails u b.
Proof.
  unfold launch_all, sts. induction b as [|[r ss] rest IH]; [reflexivity|].
  cbn [flat_map fst snd]. rewrite proj_app, proj_map_bucket, IH. reflexivity.
Qed.

Lemma absent_s_sts_s fails u r ss : absent_s u ss = true -> sts_s fails u r ss = [].
Proof.
  unfold absent_s, sts_s. induction ss as [|[s l] t IH]; [reflexivity|].
  cbn [forallb flat_map fst snd]. intro H. apply andb_true_iff in H. destruct H as [H1 H2].
  apply negb_true_iff in H1. rewrite H1. cbn [app]. apply IH. exact H2.
Qed.

Lemma absent_sts fails u b : absent u b = true -> sts fails u b = [].
Proof.
  unfold absent, sts. induction b as [|[r ss] rest IH]; [reflexivity|].
  cbn [forallb flat_map fst snd]. intro H. apply andb_true_iff in H. destruct H as [Hs Hr].
  rewrite (absent_s_sts_s fails _ _ _ Hs), (IH Hr). reflexivity.
Qed.

(* -- another pilot -- *)
Lemma zmem_uids_snoc' u l p : lp_uid p <> u -> zmem u (uids (l ++ [p])) = zmem u (uids l).
Proof.
  intro Hne. unfold uids. rewrite map_app, zmem_app. cbn [map zmem].
  assert (H : (lp_uid p =? u) = false) by (apply Z.eqb_neq; exact Hne). rewrite H. rewrite !orb_false_r. reflexivity.
Qed.

Lemma sts_s_add_other fails u r p ss : lp_uid p <> u -> sts_s fails u r (add_schema p ss) = sts_s fails u r ss.
Proof.
  intro Hne. assert (H : (lp_uid p =? u) = false) by (apply Z.eqb_neq; exact Hne).
  unfold sts_s. induction ss as [|[s l] t IH].
  - cbn [add_schema flat_map fst snd uids map zmem]. rewrite H. reflexivity.
  - cbn [add_schema]. destruct (s =? lp_sch p); cbn [flat_map fst snd].
    + rewrite zmem_uids_snoc' by exact Hne. reflexivity.
    + rewrite IH. reflexivity.
Qed.

Lemma sts_add_other fails u p b : lp_uid p <> u -> sts fails u (add_bucket p b) = sts fails u b.
Proof.
  intro Hne. assert (H : (lp_uid p =? u) = false) by (apply Z.eqb_neq; exact Hne).
  unfold sts. induction b as [|[r ss] rest IH].
  - unfold sts_s. cbn [add_bucket flat_map fst snd uids map zmem]. rewrite H. reflexivity.
  - cbn [add_bucket]. destruct (r =? lp_res p); cbn [flat_map fst snd].
    + rewrite sts_s_add_other by exact Hne. reflexivity.
    + rewrite IH. reflexivity.
Qed.

Lemma absent_s_add_other u p ss : lp_uid p <> u -> absent_s u (add_schema p ss) = absent_s u ss.
Proof.
  intro Hne. assert (H : (lp_uid p =? u) = false) by (apply Z.eqb_neq; exact Hne).
  unfold absent_s. induction ss as [|[s l] t IH].
  - cbn [add_schema forallb fst snd uids map zmem]. rewrite H. reflexivity.
  - cbn [add_schema]. destruct (s =? lp_sch p); cbn [forallb fst snd].
    + rewrite zmem_uids_snoc' by exact Hne. reflexivity.
    + rewrite IH. reflexivity.
Qed.

Lemma absent_add_other u p b : lp_uid p <> u -> absent u (add_bucket p b) = absent u b.
Proof.
  intro Hne. assert (H : (lp_uid p =? u) = false) by (apply Z.eqb_neq; exact Hne).
  unfold absent. induction b as [|[r ss] rest IH].
  - unfold absent_s. cbn [add_bucket forallb fst snd uids map zmem]. rewrite H. reflexivity.
  - cbn [add_bucket]. destruct (r =? lp_res p); cbn [forallb fst snd].
    + rewrite absent_s_add_other by exact Hne. reflexivity.
    + rewrite IH. reflexivity.
Qed.

(* -- the pilot itself -- *)
Lemma zmem_uids_snoc u l p : zmem u (uids (l ++ [p])) = zmem u (uids l) || (lp_uid p =? u).
Proof. unfold uids. rewrite map_app, zmem_app. cbn [map zmem]. rewrite orb_false_r. reflexivity. Qed.

Lemma sts_s_add_self fails r p ss :
  absent_s (lp_uid p) ss = true ->
  sts_s fails (lp_uid p) r (add_schema p ss) = [bucket_state fails r (lp_sch p)].
Proof.
  induction ss as [|[s l] t IH]; intro H.
  - unfold sts_s. cbn [add_schema flat_map fst snd uids map zmem]. rewrite Z.eqb_refl. reflexivity.
  - unfold absent_s in H. cbn [forallb fst snd] in H. apply andb_true_iff in H. destruct H as [H1 H2].
    apply negb_true_iff in H1. fold (absent_s (lp_uid p) t) in H2.
    cbn [add_schema]. destruct (s =? lp_sch p) eqn:Es.
    + apply Z.eqb_eq in Es. subst s. unfold sts_s. cbn [flat_map fst snd].
      rewrite zmem_uids_snoc, Z.eqb_refl, orb_true_r.
      fold (sts_s fails (lp_uid p) r t). rewrite (absent_s_sts_s fails _ _ _ H2). reflexivity.
    + unfold sts_s. cbn [flat_map fst snd]. rewrite H1. cbn [app].
      fold (sts_s fails (lp_uid p) r (add_schema p t)). apply IH. exact H2.
Qed.

Lemma sts_add_self fails p b :
  absent (lp_uid p) b = true ->
  sts fails (lp_uid p) (add_bucket p b) = [bucket_state fails (lp_res p) (lp_sch p)].
Proof.
  induction b as [|[r ss] rest IH]; intro H.
  - unfold sts, sts_s. cbn [add_bucket flat_map fst snd uids map zmem app]. rewrite Z.eqb_refl. reflexivity.
  - unfold absent in H. cbn [forallb fst snd] in H. apply andb_true_iff in H. destruct H as [H1 H2].
    fold (absent (lp_uid p) rest) in H2.
    cbn [add_bucket]. destruct (r =? lp_res p) eqn:Er.
    + apply Z.eqb_eq in Er. subst r. unfold sts. cbn [flat_map fst snd].
      rewrite sts_s_add_self by exact H1.
      fold (sts fails (lp_uid p) rest). rewrite (absent_sts fails _ _ H2). reflexivity.
    + unfold sts. cbn [flat_map fst snd]. rewrite (absent_s_sts_s fails _ _ _ H1). cbn [app].
      fold (sts fails (lp_uid p) (add_bucket p rest)). apply IH. exact H2.
Qed.

Definition own_state (fails : Z -> Z -> bool) (u : Z) (ps : list lp) : list lst :=
  match find (fun p => lp_uid p =? u) ps with
  | Some p => [bucket_state fails (lp_res p) (lp_sch p)]
  | None => []
  end.

Lemma sts_fold fails u : forall ps b,
  NoDup (uids ps) -> (forall p, In p ps -> absent (lp_uid p) b = true) ->
  sts fails u (fold_left (fun b p => add_bucket p b) ps b) = sts fails u b ++ own_state fails u ps.
Proof.
  induction ps as [|p r IH]; intros b Hnd Hab; simpl.
  - unfold own_state. simpl. rewrite app_nil_r. reflexivity.
  - inversion Hnd as [|x l Hni Hnd']; subst.
    rewrite IH.
    + unfold own_state. simpl. destruct (lp_uid p =? u) eqn:E.
      * apply Z.eqb_eq in E. subst u. rewrite sts_add_self by (apply Hab; left; reflexivity).
        rewrite (absent_sts fails _ _ (Hab p (or_introl eq_refl))). simpl.
        destruct (find (fun p0 => lp_uid p0 =? lp_uid p) r) eqn:F; [|reflexivity].
        apply find_some in F. destruct F as [Hin He]. apply Z.eqb_eq in He.
        exfalso. apply Hni. unfold uids. rewrite <- He. apply in_map. exact Hin.
      * apply Z.eqb_neq in E. rewrite sts_add_other by exact E. reflexivity.
    + exact Hnd'.
    + intros q Hq. rewrite absent_add_other; [apply Hab; right; exact Hq|].
      intro E. apply Hni. unfold uids. rewrite E. apply in_map. exact Hq.
Qed.

Lemma sts_buckets fails u ps : NoDup (uids ps) -> sts fails u (buckets ps) = own_state fails u ps.
Proof. intro H. unfold buckets. rewrite sts_fold; [reflexivity|exact H|reflexivity]. Qed.

Lemma NoDup_filter_uids f ps : NoDup (uids ps) -> NoDup (uids (filter f ps)).
Proof.
  unfold uids. induction ps as [|p r IH]; simpl; intro H; [constructor|].
  inversion H as [|x l Hni Hnd]; subst. destruct (f p); simpl; [|auto].
  constructor; [|auto]. intro Hin. apply Hni. apply in_map_iff in Hin. destruct Hin as [q [E Hq]].
  apply filter_In in Hq. rewrite <- E. apply in_map. tauto.
Qed.

Lemma find_filter_true (f : lp -> bool) u ps p :
  find (fun p => lp_uid p =? u) ps = Some p -> f p = true ->
  NoDup (uids ps) -> find (fun p => lp_uid p =? u) (filter f ps) = Some p.
Proof.
  induction ps as [|q r IH]; simpl; [discriminate|]. intros Hf Hp Hnd.
  inversion Hnd as [|x l Hni Hnd']; subst.
  destruct (lp_uid q =? u) eqn:E.
  - injection Hf as ->. rewrite Hp. simpl. rewrite E. reflexivity.
  - destruct (f q); simpl; [rewrite E|]; apply IH; assumption.
Qed.

Lemma find_filter_false (f : lp -> bool) u ps :
  (forall p, lp_uid p = u -> f p = false) -> find (fun p => lp_uid p =? u) (filter f ps) = None.
Proof.
  intro H. induction ps as [|q r IH]; simpl; [reflexivity|].
  destruct (f q) eqn:F; [|exact IH]. simpl. destruct (lp_uid q =? u) eqn:E; [|exact IH].
  apply Z.eqb_eq in E. rewrite (H q E) in F. discriminate.
Qed.

Lemma zmem_uids_filter (f : lp -> bool) u ps :
  zmem u (uids (filter f ps)) = existsb (fun p => (lp_uid p =? u) && f p) ps.
Proof.
  unfold uids. induction ps as [|q r IH]; simpl; [reflexivity|].
  destruct (f q); simpl; rewrite IH; [rewrite andb_true_r|rewrite andb_false_r]; reflexivity.
Qed.

(* -- the statement: what every pilot of the bulk is told, irrespective of the others -- *)
Theorem work_per_pilot cancelled fails ps p :
  NoDup (uids ps) -> In p ps ->
  proj (lp_uid p) (work cancelled fails ps) =
    if zmem (lp_uid p) cancelled then [LCanceled]
    else [LLaunching; bucket_state fails (lp_res p) (lp_sch p)].
Proof.
  intros Hnd Hin. unfold work, proj. cbn [flat_map fst snd].
  fold (proj (lp_uid p) (launch_all fails (buckets (filter (fun p0 => negb (zmem (lp_uid p0) cancelled)) ps)))).
  rewrite proj_launch_all, sts_buckets by (apply NoDup_filter_uids; exact Hnd).
  fold (uids (filter (fun p0 => zmem (lp_uid p0) cancelled) ps)).
  fold (uids (filter (fun p0 => negb (zmem (lp_uid p0) cancelled)) ps)).
  rewrite !zmem_uids_filter.
  assert (Hfind : find (fun q => lp_uid q =? lp_uid p) ps = Some p).
  { clear -Hnd Hin. induction ps as [|q r IH]; [contradiction|]. simpl.
    inversion Hnd as [|x l Hni Hnd']; subst. destruct Hin as [->|Hin]; [rewrite Z.eqb_refl; reflexivity|].
    destruct (lp_uid q =? lp_uid p) eqn:E; [|auto].
    apply Z.eqb_eq in E. exfalso. apply Hni. unfold uids. rewrite E. apply in_map. exact Hin. }
  destruct (zmem (lp_uid p) cancelled) eqn:Ec.
  - assert (E1 : existsb (fun q => (lp_uid q =? lp_uid p) && zmem (lp_uid q) cancelled) ps = true).
    { apply existsb_exists. exists p. rewrite Z.eqb_refl, Ec. auto. }
    assert (E2 : existsb (fun q => (lp_uid q =? lp_uid p) && negb (zmem (lp_uid q) cancelled)) ps = false).
    { apply not_true_iff_false. intro H. apply existsb_exists in H. destruct H as [q [_ Hq]].
      apply andb_true_iff in Hq. destruct Hq as [Hq1 Hq2]. apply Z.eqb_eq in Hq1. rewrite Hq1, Ec in Hq2. discriminate. }
    rewrite E1, E2. unfold own_state.
    rewrite find_filter_false; [reflexivity|]. intros q Hq. rewrite Hq, Ec. reflexivity.
  - assert (E1 : existsb (fun q => (lp_uid q =? lp_uid p) && zmem (lp_uid q) cancelled) ps = false).
    { apply not_true_iff_false. intro H. apply existsb_exists in H. destruct H as [q [_ Hq]].
      apply andb_true_iff in Hq. destruct Hq as [Hq1 Hq2]. apply Z.eqb_eq in Hq1. rewrite Hq1, Ec in Hq2. discriminate. }
    assert (E2 : existsb (fun q => (lp_uid q =? lp_uid p) && negb (zmem (lp_uid q) cancelled)) ps = true).
    { apply existsb_exists. exists p. rewrite Z.eqb_refl, Ec. auto. }
    rewrite E1, E2. unfold own_state.
    rewrite (find_filter_true _ _ _ p Hfind); [reflexivity| rewrite Ec; reflexivity | exact Hnd].
Qed.

(* a pilot is told FAILED by the launcher iff the launch of ITS bucket failed *)
Corollary failed_iff_own_bucket cancelled fails ps p :
  NoDup (uids ps) -> In p ps ->
  (In LFailed (proj (lp_uid p) (work cancelled fails ps)) <->
   zmem (lp_uid p) cancelled = false /\ fails (lp_res p) (lp_sch p) = true).
Proof.
  intros Hnd Hin. rewrite (work_per_pilot _ _ _ _ Hnd Hin). unfold bucket_state.
  destruct (zmem (lp_uid p) cancelled); destruct (fails (lp_res p) (lp_sch p)); simpl; split;
    intros H; try tauto; try (destruct H as [H|[H|H]]; try discriminate; tauto);
    try (destruct H as [H|H]; try discriminate; tauto); try (destruct H; discriminate).
Qed.

(* what a pilot is told does not depend on whether other buckets fail *)
Corollary independent_of_other_buckets cancelled f1 f2 ps p :
  NoDup (uids ps) -> In p ps -> f1 (lp_res p) (lp_sch p) = f2 (lp_res p) (lp_sch p) ->
  proj (lp_uid p) (work cancelled f1 ps) = proj (lp_uid p) (work cancelled f2 ps).
Proof.
  intros Hnd Hin E. rewrite !(work_per_pilot _ _ _ _ Hnd Hin). unfold bucket_state. rewrite E. reflexivity.
Qed.
