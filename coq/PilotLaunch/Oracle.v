From Coq Require Import ZArith List Bool.
From RP Require Import PilotLaunch.Model.
Import ListNotations.
Open Scope Z_scope.

Definition lst_eqb (a b : lst) : bool :=
  match a, b with
  | LCanceled, LCanceled | LLaunching, LLaunching | LActivePending, LActivePending | LFailed, LFailed => true
  | _, _ => false
  end.

Fixpoint zlist_eqb (a b : list Z) : bool :=
  match a, b with
  | [], [] => true
  | x :: r, y :: s => (x =? y) && zlist_eqb r s
  | _, _ => false
  end.

Fixpoint advs_eqb (a b : list adv) : bool :=
  match a, b with
  | [], [] => true
  | (u, s) :: r, (v, t) :: q => zlist_eqb u v && lst_eqb s t && advs_eqb r q
  | _, _ => false
  end.

(* an advance call with an empty list is not seen by anybody *)
Definition nonempty (l : list adv) : list adv :=
  filter (fun a : adv => match fst a with [] => false | _ => true end) l.

Fixpoint lsts_eqb (a b : list lst) : bool :=
  match a, b with
  | [], [] => true
  | x :: r, y :: s => lst_eqb x y && lsts_eqb r s
  | _, _ => false
  end.

(* `failed r s` as a table of the buckets whose launch raises *)
Definition fails_of (tab : list (Z * Z)) (r s : Z) : bool :=
  existsb (fun rs : Z * Z => (fst rs =? r) && (snd rs =? s)) tab.

(* row: [correspondence; every pilot is told a chain of its own; FAILED iff its own bucket failed] *)
Definition launch_row (cancelled : list Z) (tab : list (Z * Z)) (ps : list lp) (obs : list adv) : list bool :=
  let f := fails_of tab in
  [ advs_eqb (nonempty (work cancelled f ps)) (nonempty obs);
    forallb (fun p => let seen := proj (lp_uid p) obs in
                      lsts_eqb seen [LCanceled] || lsts_eqb seen [LLaunching; LActivePending]
                      || lsts_eqb seen [LLaunching; LFailed]) ps;
    forallb (fun p => Bool.eqb (existsb (lst_eqb LFailed) (proj (lp_uid p) obs))
                               (negb (zmem (lp_uid p) cancelled) && f (lp_res p) (lp_sch p))) ps ].
