(* PMGRLaunchingComponent.work(pilots) -- pmgr/launching/base.py: pilots for
   which a cancel request was already seen are advanced CANCELED, the others
   PMGR_LAUNCHING; these are sorted into buckets by (resource, access_schema)
   -- two nested defaultdicts, insertion ordered -- and every bucket is
   launched on its own: PMGR_ACTIVE_PENDING when `_start_pilot_bulk` returns,
   FAILED for THAT bucket when it raises.

   Modelled: which pilots are advanced to which state, in which calls and in
   which order.  `fails r s` says whether `_start_pilot_bulk` raises for the
   bucket (r, s) (an oracle of the environment: unknown resource, staging or
   job submission refused).  Not modelled here: what `_start_pilot_bulk`
   does (C17 models the preparation of a bulk). *)
From Coq Require Import ZArith List Bool.
Import ListNotations.
Open Scope Z_scope.

Record lp := mkLP { lp_uid : Z; lp_res : Z; lp_sch : Z }.
Inductive lst := LCanceled | LLaunching | LActivePending | LFailed.
Definition adv := (list Z * lst)%type.       (* one advance call: uids, state *)

Fixpoint zmem (x : Z) (l : list Z) : bool :=
  match l with [] => false | y :: r => (y =? x) || zmem x r end.

(* buckets[resource][schema].append(pilot) *)
Fixpoint add_schema (p : lp) (l : list (Z * list lp)) : list (Z * list lp) :=
  match l with
  | [] => [(lp_sch p, [p])]
  | (s, ps) :: r => if s =? lp_sch p then (s, ps ++ [p]) :: r else (s, ps) :: add_schema p r
  end.

Fixpoint add_bucket (p : lp) (b : list (Z * list (Z * list lp))) : list (Z * list (Z * list lp)) :=
  match b with
  | [] => [(lp_res p, [(lp_sch p, [p])])]
  | (r, ss) :: rest => if r =? lp_res p then (r, add_schema p ss) :: rest else (r, ss) :: add_bucket p rest
  end.

Definition buckets (ps : list lp) : list (Z * list (Z * list lp)) :=
  fold_left (fun b p => add_bucket p b) ps [].

Definition bucket_state (fails : Z -> Z -> bool) (r s : Z) : lst :=
  if fails r s then LFailed else LActivePending.

(* `for resource in buckets: for schema in buckets[resource]: try ... except` *)
Definition launch_all (fails : Z -> Z -> bool) (b : list (Z * list (Z * list lp))) : list adv :=
  flat_map (fun rb => map (fun sb => (map lp_uid (snd sb), bucket_state fails (fst rb) (fst sb))) (snd rb)) b.

Definition work (cancelled : list Z) (fails : Z -> Z -> bool) (ps : list lp) : list adv :=
  let to_cancel := filter (fun p => zmem (lp_uid p) cancelled) ps in
  let to_start := filter (fun p => negb (zmem (lp_uid p) cancelled)) ps in
  (map lp_uid to_cancel, LCanceled) :: (map lp_uid to_start, LLaunching) :: launch_all fails (buckets to_start).

(* the states pilot u is advanced to, in order *)
Definition proj (u : Z) (l : list adv) : list lst :=
  flat_map (fun a : adv => if zmem u (fst a) then [snd a] else []) l.
