From Coq Require Import ZArith List Bool.
From RP Require Import TmgrSched.Model TmgrSched.Oracle.
Theorem C12_placeholder : True.
Proof. exact I. Qed.
Print Assumptions C12_placeholder.
