(* C12 -- each task is bound to exactly one eligible pilot.
   Statements only; every proof is `exact <lemma>`.  The model is
   RP.TmgrSched.Model (base + RoundRobin + Backfilling of tmgr/scheduler/*.py,
   with the _early fix fixes/C12-1-early-not-cleared.patch); `run c st0 ops`
   is what the harness observes message by message, `ops` ranges over ALL
   message histories (submissions, add/remove commands incl. rejected ones,
   pilot and task state notifications), `c` over both schedulers and all
   backfilling constants.  The ok-functions are the oracle clauses of
   RP.TmgrSched.Oracle that the harness applies to the implementation's trace. *)
From Coq Require Import ZArith List Bool.
From RP Require Import Gen.StatesTables States.Model States.Inst
  TmgrSched.Model TmgrSched.Oracle TmgrSched.Proofs TmgrSched.Proofs2 TmgrSched.Balance TmgrSched.Proofs3 TmgrSched.Proofs4 TmgrSched.Lin TmgrSched.Proofs5.
Import ListNotations.
Open Scope Z_scope.

(* Nothing is lost, nothing is duplicated: after any history every submitted
   task is -- with multiplicity -- either still held back by the scheduler
   (wait pool / early-bound list) or has been forwarded. *)
Theorem C12_conservation :
  forall (c : cfg) (ops : list op) (u : Z),
    countz u (uids (submitted ops)) =
    countz u (waiting (fst (run_st c st0 ops))) + countz u (fwd_uids (snd (run_st c st0 ops))).
Proof. exact conservation. Qed.
Print Assumptions C12_conservation.

(* bound once: with unique task uids, no task is forwarded twice *)
Theorem C12_bound_once :
  forall (c : cfg) (ops : list op),
    NoDup (uids (submitted ops)) -> NoDup (fwd_uids (events_of (run c st0 ops))).
Proof. exact bound_once. Qed.
Print Assumptions C12_bound_once.

(* the same, as the oracle clause *)
Theorem C12_bound_once_oracle :
  forall (c : cfg) (ops : list op),
    nodupb (map t_uid (submitted ops)) = true ->
    nodupb (map fst (fwd_of (events_of (run c st0 ops)))) = true.
Proof. exact bound_once_oracle. Qed.
Print Assumptions C12_bound_once_oracle.

(* a task that names a pilot is bound to that pilot (by work() or when the
   pilot is added), the scheduling algorithm only ever binds tasks that name
   no pilot: no task is ever re-bound to another pilot *)
Theorem C12_named_goes_to_named :
  forall (c : cfg) (ops : list op),
    forallb named_asg (asgs_of (events_of (run c st0 ops))) = true.
Proof. exact named_goes_to_named. Qed.
Print Assumptions C12_named_goes_to_named.

(* backfilling: every placement goes to a pilot whose role is ADDED (never a
   removed one) and whose state is inside [BF_START, BF_STOP] at that moment *)
Theorem C12_bf_window_only_added :
  forall (c : cfg) (ops : list op), c_kind c = BF ->
    forallb (fun a => window_asg c a && added_asg a) (asgs_of (events_of (run c st0 ops))) = true.
Proof. exact bf_window_added. Qed.
Print Assumptions C12_bf_window_only_added.

(* tasks wait while there is no pilot: a message other than add_pilots that
   finds no pilot registered places nothing and fails nothing; by
   C12_conservation the tasks stay in the wait pool *)
Theorem C12_waits_without_pilot :
  forall (c : cfg) (s : st) (o : op) (s' : st) (ev : list event) (e : option serr),
    s_pids s = [] -> (forall t ps, o <> OAdd t ps) -> step c s o = (s', ev, e) ->
    existsb sched_asg (asgs_of ev) = false /\ bad_adv ev = false /\ s_pids s' = [].
Proof. exact waits_without_pilot. Qed.
Print Assumptions C12_waits_without_pilot.

(* round robin: one _schedule_tasks call over k > 0 pilots, from whatever
   start index, gives its tasks to the list positions rr_pos (cyclic walk),
   and the numbers of tasks given to any two positions differ by at most one *)
Theorem C12_rr_balance :
  forall (pl : list (Z * pil)) (pids : list Z) (idx : Z) (ts : list task) idx' ok ev,
    pids <> [] -> 0 <= idx -> rr_loop pl pids idx ts = (idx', ok, ev) ->
    let k := Z.of_nat (length pids) in
    let pos := rr_pos (length ts) k idx in
    map a_pid (asgs_of ev) = map (fun i => nth (Z.to_nat i) pids 0) pos /\
    forall p q, 0 <= p < k -> 0 <= q < k -> Z.abs (countz p pos - countz q pos) <= 1.
Proof. exact rr_balance. Qed.
Print Assumptions C12_rr_balance.

(* round robin, never to a removed pilot -- PARTIAL: stated for one
   _schedule_tasks call under the registration invariant (every entry of
   self._pids has role ADDED), which add_pilots/remove_pilots maintain for
   commands that are not rejected; the preservation of that invariant along
   histories is not proved here (checked by the only_added oracle clause and
   by the correspondence on every run) *)
Theorem C12_rr_only_added_partial :
  forall (pl : list (Z * pil)) (pids : list Z),
    pids <> [] -> (forall pid, In pid pids -> p_role (getp pid pl) = RAdded) ->
    forall ts idx idx' ok ev, 0 <= idx ->
      rr_loop pl pids idx ts = (idx', ok, ev) ->
      forallb (fun a => role_eqb (a_role a) RAdded && memz (a_pid a) pids) (asgs_of ev) = true.
Proof. exact rr_loop_only_added. Qed.
Print Assumptions C12_rr_only_added_partial.

(* the pilot state the scheduler has recorded never regresses (in the pilot
   state order), whatever messages arrive -- in particular not when a pilot
   is added again with an older pilot document *)
Theorem C12_pilot_state_monotone :
  forall (c : cfg) (ops : list op) (s : st) (q : Z),
    pval (stq q (s_pilots s)) <= pval (stq q (s_pilots (fst (run_st c s ops)))).
Proof. exact run_mono. Qed.
Print Assumptions C12_pilot_state_monotone.

(* every report is absorbed: after any message, the recorded state of a pilot
   is at least as advanced as every state the message reported for it (state
   notification -- also one carrying a contradicting final state, which is
   skipped without dropping the rest of the batch -- or document of an
   accepted add_pilots command); all _assign_pilot calls of the message see
   that recorded state *)
Theorem C12_reports_absorbed :
  forall (c : cfg) (s : st) (o : op) (s' : st) (ev : list event) (e : option serr),
    step c s o = (s', ev, e) ->
    QA (s_pilots s') ev /\
    forall x, In x (reports_of o e) -> snd x <= pval (stq (fst x) (s_pilots s')).
Proof. exact (fun c s o s' ev e H => proj2 (step_QA c s o s' ev e H)). Qed.
Print Assumptions C12_reports_absorbed.

(* a pilot state notification never leaves the component with an exception
   (repository fix be30d79: the contradicting report is skipped) *)
Theorem C12_pilot_notifications_never_raise :
  forall (c : cfg) (s : st) ps (s' : st) (ev : list event) (e : option serr),
    step c s (OPStates ps) = (s', ev, e) -> e = None.
Proof. exact pstates_never_raise. Qed.
Print Assumptions C12_pilot_notifications_never_raise.

(* bound only to eligible pilots, w.r.t. the most advanced report: over any
   history, no task is placed by Backfilling on a pilot for which some report
   so far (ANY state notification, or the document of an accepted add_pilots
   command) lies beyond BF_STOP -- a pilot once reported final never gets work
   again.  This is the oracle clause bound_only_to_eligible, unconditionally. *)
Theorem C12_bound_only_to_eligible :
  forall (c : cfg) (ops : list op), ok_bf_eligible c ops (run c st0 ops) = true.
Proof. exact bf_eligible. Qed.
Print Assumptions C12_bound_only_to_eligible.

(* regression (witness of the former refutation, before be30d79): the
   contradicting final notification for pilot 1 no longer drops "pilot 2 is
   DONE"; task 1 is NOT bound to pilot 2, it waits *)
Example C12_batch_not_dropped :
  let c := mkCfg BF 200 4 4 in
  let ops := [OAdd TMine [(2, P_PMGR_ACTIVE, 4)]; OPStates [(1, P_DONE)];
              OPStates [(1, P_CANCELED); (2, P_DONE)]; OSubmit [mkTask 1 None 1]] in
  fwd_of (events_of (run c st0 ops)) = []
  /\ waiting (fst (run_st c st0 ops)) = [1]
  /\ stq 2 (s_pilots (fst (run_st c st0 ops))) = Some P_DONE
  /\ stq 1 (s_pilots (fst (run_st c st0 ops))) = Some P_DONE.
Proof. vm_compute. repeat split. Qed.

(* backfilling usage accounting, full statement (repository fixes ec949f9 and
   ac9bb76 modelled).  Over ANY history -- submissions with and without named
   pilots, add/remove/re-add, rejected commands, arbitrary pilot and task state
   notifications incl. overridden pilot fields and unknown uids -- with unique
   task uids and non-negative core counts, for the Backfilling scheduler:
   no task state notification batch raises (in particular `used < 0` is
   unreachable), and for every pilot info['used'] equals the cores of the tasks
   placed on it (since it was last added) that are not yet credited, is never
   negative, and is 0 as soon as every placed task has been credited. *)
Theorem C12_bf_used_accounting :
  forall (c : cfg) (ops : list op), c_kind c = BF -> UniqueTasks ops ->
    let s := fst (run_st c st0 ops) in
    tst_ok ops (run c st0 ops) = true /\
    forall p i, info_of p (s_pilots s) = Some i ->
      i_used i = outstanding (s_tk s) i /\ 0 <= i_used i /\
      ((forall u, In u (i_tasks i) -> In u (i_done i)) -> i_used i = 0).
Proof. exact bf_used_accounting. Qed.
Print Assumptions C12_bf_used_accounting.

(* ... and every placed task that a batch reports beyond AGENT_EXECUTING is
   credited by Backfilling.update_tasks, whatever else the batch contains
   (early-bound tasks, tasks placed before a re-add, tasks of pilots known only
   by state, duplicates, unknown uids): the batch is processed to its end *)
Theorem C12_bf_batch_credited :
  forall (c : cfg) (ops : list op) (ns : list (Z * tstate * Z)),
    c_kind c = BF -> UniqueTasks ops ->
    let s := fst (run_st c st0 ops) in
    let rs := map (resolve (s_tk s)) ns in
    exists pl' b, ut_loop rs (s_pilots s) false = (pl', b, None) /\ Cred rs pl'.
Proof. exact bf_batch_credited. Qed.
Print Assumptions C12_bf_batch_credited.

(* one accepted finished-notification credits exactly that task's cores, once *)
Theorem C12_bf_credit_once :
  forall (pl : list (Z * pil)) (uid pid cores : Z) (st : tstate) (p : pil) (i : info),
    aget pid pl = Some p -> p_info p = Some i ->
    memz uid (i_tasks i) = true -> memz uid (i_done i) = false ->
    tvalue T_AGENT_EXECUTING < tvalue st -> 0 <= i_used i - cores ->
    exists pl', ut_loop [(uid, Some pid, st, cores)] pl false = (pl', true, None) /\
      used_of (getp pid pl') = i_used i - cores /\
      ut_loop [(uid, Some pid, st, cores)] pl' false = (pl', false, None).
Proof. exact bf_credit_once. Qed.
Print Assumptions C12_bf_credit_once.

(* regressions: the witnesses of the two former refutations.  (1) the finished
   early-bound task 1 no longer aborts the batch (was RuntimeError, ac9bb76):
   task 2 is credited, used = 0.  (2) the notification of task 1, which names
   pilot 2 known only from a state notification, is ignored (was
   KeyError('done'), ec949f9): task 2 is credited, used = 0. *)
Example C12_early_bound_batch_not_aborted :
  let c := mkCfg BF 200 4 4 in
  let ops := [OAdd TMine [(1, P_PMGR_ACTIVE, 4)];
              OSubmit [mkTask 1 (Some 1) 1; mkTask 2 None 2];
              OTStates [(1, T_DONE, -1); (2, T_DONE, -1)]] in
  map (fun r => snd (fst r)) (run c st0 ops) = [None; None; None]
  /\ info_of 1 (s_pilots (fst (run_st c st0 ops))) = Some (mkInfo 8 0 [2] [2])
  /\ ok_bf_used_zero c ops (run c st0 ops) = true.
Proof. vm_compute. repeat split. Qed.

Example C12_state_only_pilot_batch_not_aborted :
  let c := mkCfg BF 200 4 4 in
  let ops := [OPStates [(2, P_PMGR_ACTIVE)]; OAdd TMine [(1, P_PMGR_ACTIVE, 4)];
              OSubmit [mkTask 1 (Some 2) 1; mkTask 2 None 2];
              OTStates [(1, T_TMGR_SCHEDULING, -1); (2, T_DONE, -1)]] in
  map (fun r => snd (fst r)) (run c st0 ops) = [None; None; None; None]
  /\ info_of 1 (s_pilots (fst (run_st c st0 ops))) = Some (mkInfo 8 0 [2] [2])
  /\ ok_bf_used_zero c ops (run c st0 ops) = true.
Proof. vm_compute. repeat split. Qed.

(* the remaining `raise RuntimeError` of update_tasks (used < 0) needs an input
   outside UniqueTasks: here the uid 1 is submitted twice with different core
   counts and a notification with a foreign pilot field credits the 5 cores of
   the second dict against the 1 core placed for the first *)
Example C12_used_negative_needs_duplicate_uid :
  let c := mkCfg BF 200 4 4 in
  let ops := [OAdd TMine [(1, P_PMGR_ACTIVE, 4)]; OSubmit [mkTask 1 None 1];
              OSubmit [mkTask 1 (Some 9) 5]; OTStates [(1, T_DONE, 1)]] in
  map (fun r => snd (fst r)) (run c st0 ops) = [None; None; None; Some ERuntime].
Proof. vm_compute. reflexivity. Qed.

(* concurrency: the entry points of the scheduler are called from three
   threads (work, control, state subscriber).  The specification the harness
   checks every interleaving against is this model's step function applied to
   the two messages one after the other, in either order (TmgrSched.Lin.seq2;
   the task dicts of a notification are those of the state before the pair).
   Whatever the order, the sequential outcome is "exactly once": every
   submitted task is, with multiplicity, either held back or handed on -- the
   clause lin_exactly_once which the harness evaluates on the implementation's
   interleaved outcomes *)
Theorem C12_lin_spec_exactly_once :
  forall (c : cfg) (prefix : list op) (a b : op) (u : Z) s1 ev1 e1 s2 ev2 e2,
    let s0 := fst (run_st c st0 prefix) in
    let ev0 := snd (run_st c st0 prefix) in
    step_at c s0 s0 a = (s1, ev1, e1) -> step_at c s0 s1 b = (s2, ev2, e2) ->
    countz u (uids (submitted (prefix ++ [a; b]))) =
    countz u (waiting s2) + countz u (fwd_uids (ev0 ++ ev1 ++ ev2)).
Proof. exact lin_spec_exactly_once. Qed.
Print Assumptions C12_lin_spec_exactly_once.

(* non-vacuity: a concrete backfilling history with an early-bound task, a
   pilot that fills up to its high-water mark, a removal and a re-add *)
Example C12_nonvacuous :
  let c := mkCfg BF 200 4 4 in
  let ops := [OSubmit [mkTask 1 (Some 1) 1; mkTask 2 None 2; mkTask 3 None 1];
              OAdd TMine [(1, P_PMGR_ACTIVE, 1)];
              ORemove TMine [1];
              OAdd TMine [(2, P_PMGR_ACTIVE, 4); (1, P_PMGR_ACTIVE, 1)]] in
  fwd_of (events_of (run c st0 ops)) = [(1, Some 1); (2, Some 1); (3, Some 2)]
  /\ waiting (fst (run_st c st0 ops)) = []
  /\ length (filter sched_asg (asgs_of (events_of (run c st0 ops)))) = 2%nat.
Proof. vm_compute. repeat split. Qed.
