(* C01 -- pilot resources are never oversubscribed.
   Statements only.  Model: RP.Sched.Model (the loop of
   AgentSchedulingComponent._schedule_tasks on a Continuous scheduler).
   GPU shares are counted in 1/64 of a GPU.  The ghost component `heldg` of a
   state is the list of placements granted and not yet released. *)
From Coq Require Import ZArith List Bool.
From RP Require Import Sched.Model Sched.NodeMap Sched.Inv Sched.SchedProofs Sched.RunProofs.
Import ListNotations.
Open Scope Z_scope.

(* In EVERY state reachable from the initial node list by ANY sequence of
   arrivals (scheduler-placed, well-formed requests), cancel messages, named
   environment registrations, unschedule messages (release discipline) and loop
   iterations, with ANY lazy_bisect strategy:
     - no core is held by two tasks (or twice by one),
     - the shares held on any GPU sum to at most one GPU (64/64),
     - lfs and mem held on a node do not exceed what the node has,
     - every held core/GPU was usable (Free, hence not blocked) in the initial
       node list -- in particular it lies on a node of that list. *)
Theorem C01_no_oversubscription :
  forall (ns0 : list node) (c : cfg) (ops : list op) (w' : world),
    NoDup (map n_idx ns0) -> (forall nd, In nd ns0 -> 0 <= n_lfs nd /\ 0 <= n_mem nd) ->
    Forall op_good ops -> run_disciplined c (init_world ns0) ops ->
    run c (init_world ns0) ops = Some w' ->
    no_oversubscription ns0 (heldg (st w')).
Proof. exact reachable_no_oversubscription. Qed.
Print Assumptions C01_no_oversubscription.

(* the invariant behind it *)
Theorem C01_invariant_reachable :
  forall (ns0 : list node) (c : cfg) (ops : list op) (w w' : world),
    WInv ns0 w -> Forall op_good ops -> run_disciplined c w ops -> run c w ops = Some w' -> WInv ns0 w'.
Proof. exact run_ok. Qed.
Print Assumptions C01_invariant_reachable.

(* what the scheduler chooses is fresh: only Free cores/GPUs of the node it
   names, no core twice, GPU shares of the placement <= 1 per GPU, lfs/mem
   within what the node has left *)
Theorem C01_scheduler_choice_is_fresh :
  forall (c : cfg) (s : sstate) (t : req) off co tg (sl : list slot),
    NoDup (map n_idx (nodes s)) -> nodes_nonneg (nodes s) -> wf_req t ->
    schedule_task c s t = inr (off, co, tg, Some sl) -> fresh (nodes s) sl.
Proof. exact schedule_task_fresh. Qed.
Print Assumptions C01_scheduler_choice_is_fresh.

(* ANY fresh placement -- chosen by the scheduler or supplied by the
   application -- keeps the invariant when it is marked as used *)
Theorem C01_fresh_grant_preserves :
  forall (ns0 ns : list node) (h : held) (u : Z) (sl : list slot),
    Inv ns0 ns h -> fresh ns sl -> Inv ns0 (change_slot_states true sl ns) (h ++ [(u, sl)]).
Proof. exact inv_grant. Qed.
Print Assumptions C01_fresh_grant_preserves.

Theorem C01_invariant_implies_clauses :
  forall (ns0 ns : list node) (h : held), Inv ns0 ns h -> no_oversubscription ns0 h.
Proof. exact inv_no_oversubscription. Qed.
Print Assumptions C01_invariant_implies_clauses.

(* PARTIAL with respect to the property text: application-supplied slots are
   covered only when they are fresh at the moment the task arrives
   (C01_fresh_grant_preserves); the code grants them unchecked -- see the
   recorded finding `app_supplied:*` -- and requests are assumed to have
   non-negative gpu/lfs/mem figures (wf_req). *)

(* non-vacuity: two tasks share a 2-core node, one is released, a third runs *)
Example C01_nonvacuous :
  let ns0 := [mkNode 0 [Free; Free; Down] [Free] 100 100] in
  let c := mkCfg 3 1 100 100 true in
  let t u g := mkReq u 1 1 g 60 0 0 0 None false None None in
  let ops := [Arrive [t 1 32; t 2 0; t 3 32]; Iterate [];
              Unsched [(1, [mkSlot 0 [0%nat] [(0%nat, 32)] 60 0])]; Iterate [[(2, true); (3, true)]]; Iterate [[(2, true); (3, true)]]] in
  match run c (init_world ns0) ops with
  | Some w => map fst (heldg (st w)) = [2] /\ n_cores (hd (mkNode 0 [] [] 0 0) (nodes (st w))) = [Busy; Free; Down]
  | None => False
  end.
Proof. vm_compute. auto. Qed.
