(* C01 -- pilot resources are never oversubscribed.
   Statements only.  Model: RP.Sched.Model (the loop of
   AgentSchedulingComponent._schedule_tasks on a Continuous scheduler).
   GPU shares are counted in 1/64 of a GPU.  The ghost component `heldg` of a
   state is the list of placements granted and not yet released. *)
From Coq Require Import ZArith List Bool.
From RP Require Import Sched.Model Sched.NodeMap Sched.Inv Sched.SchedProofs Sched.RunProofs.
From Coq Require String.
From RP Require AppSlots.Model AppSlots.Oracle AppSlots.NodeProofs AppSlots.Hang AppSlots.InvProofs AppSlots.Proofs AppSlots.Lists AppSlots.AllocProofs.
Import ListNotations.
Open Scope Z_scope.

(* In EVERY state reachable from the initial node list by ANY sequence of
   arrivals (scheduler-placed, well-formed requests), cancel messages, named
   environment registrations, unschedule messages (release discipline) and loop
   iterations, with ANY lazy_bisect strategy:
     - no core is held by two tasks (or twice by one),
     - the shares held on any GPU sum to at most one GPU (64/64),
     - lfs and mem held on a node do not exceed what the node has,
     - every held core/GPU was usable (Free, hence not blocked) in the initial
       node list -- in particular it lies on a node of that list. *)
Theorem C01_no_oversubscription :
  forall (ns0 : list node) (c : cfg) (ops : list op) (w' : world),
    NoDup (map n_idx ns0) -> (forall nd, In nd ns0 -> 0 <= n_lfs nd /\ 0 <= n_mem nd) ->
    Forall op_good ops -> run_disciplined c (init_world ns0) ops ->
    run c (init_world ns0) ops = Some w' ->
    no_oversubscription ns0 (heldg (st w')).
Proof. exact reachable_no_oversubscription. Qed.
Print Assumptions C01_no_oversubscription.

(* the invariant behind it *)
Theorem C01_invariant_reachable :
  forall (ns0 : list node) (c : cfg) (ops : list op) (w w' : world),
    WInv ns0 w -> Forall op_good ops -> run_disciplined c w ops -> run c w ops = Some w' -> WInv ns0 w'.
Proof. exact run_ok. Qed.
Print Assumptions C01_invariant_reachable.

(* what the scheduler chooses is fresh: only Free cores/GPUs of the node it
   names, no core twice, GPU shares of the placement <= 1 per GPU, lfs/mem
   within what the node has left *)
Theorem C01_scheduler_choice_is_fresh :
  forall (c : cfg) (s : sstate) (t : req) off co tg (sl : list slot),
    NoDup (map n_idx (nodes s)) -> nodes_nonneg (nodes s) -> wf_req t ->
    schedule_task c s t = inr (off, co, tg, Some sl) -> fresh (nodes s) sl.
Proof. exact schedule_task_fresh. Qed.
Print Assumptions C01_scheduler_choice_is_fresh.

(* ANY fresh placement -- chosen by the scheduler or supplied by the
   application -- keeps the invariant when it is marked as used *)
Theorem C01_fresh_grant_preserves :
  forall (ns0 ns : list node) (h : held) (u : Z) (sl : list slot),
    Inv ns0 ns h -> fresh ns sl -> Inv ns0 (change_slot_states true sl ns) (h ++ [(u, sl)]).
Proof. exact inv_grant. Qed.
Print Assumptions C01_fresh_grant_preserves.

Theorem C01_invariant_implies_clauses :
  forall (ns0 ns : list node) (h : held), Inv ns0 ns h -> no_oversubscription ns0 h.
Proof. exact inv_no_oversubscription. Qed.
Print Assumptions C01_invariant_implies_clauses.

(* PARTIAL with respect to the property text: application-supplied slots are
   covered only when they are fresh at the moment the task arrives
   (C01_fresh_grant_preserves); the code grants them unchecked -- see the
   recorded finding `app_supplied:*` -- and requests are assumed to have
   non-negative gpu/lfs/mem figures (wf_req). *)

(* non-vacuity: two tasks share a 2-core node, one is released, a third runs *)
Example C01_nonvacuous :
  let ns0 := [mkNode 0 [Free; Free; Down] [Free] 100 100] in
  let c := mkCfg 3 1 100 100 true in
  let t u g := mkReq u 1 1 g 60 0 0 0 None false None None in
  let ops := [Arrive [t 1 32; t 2 0; t 3 32]; Iterate [];
              Unsched [(1, [mkSlot 0 [0%nat] [(0%nat, 32)] 60 0])]; Iterate [[(2, true); (3, true)]]; Iterate [[(2, true); (3, true)]]] in
  match run c (init_world ns0) ops with
  | Some w => map fst (heldg (st w)) = [2] /\ n_cores (hd (mkNode 0 [] [] 0 0) (nodes (st w))) = [Busy; Free; Down]
  | None => False
  end.
Proof. vm_compute. auto. Qed.

Module AppSide.
Import Coq.Strings.String.
Import RP.AppSlots.Model RP.AppSlots.Oracle RP.AppSlots.NodeProofs RP.AppSlots.Hang RP.AppSlots.InvProofs RP.AppSlots.Proofs RP.AppSlots.Lists RP.AppSlots.AllocProofs.
Open Scope string_scope.
Open Scope Z_scope.

(* Application side: `Pilot.nodelist` (resource_config.NodeList / Node), the helper with which an
   application chooses the placements it supplies in TaskDescription.slots.  Model: RP.AppSlots.Model;
   occupations in 1/64 of a core / GPU (BUSY = 64).

   wf_nodes ns0     : node ids (Node.index) pairwise distinct -- not necessarily the list positions --,
                      lfs / mem a number >= 0 or not reported (None), every core / GPU DOWN or
                      occupied between FREE and BUSY; node names arbitrary (possibly all equal);
   op_ok            : the calls are find_slots / release_slots / verify / Node.find_slot with
                      non-negative sizes and occupations (find_slots: core occupation > 0), and
                      Node.allocate_slot(slot, _check=True) with an application-made slot (non-negative indices,
                      occupations, lfs, mem; a core or GPU may be named more than once);
   all_disciplined  : release_slots is given slots the application holds (got from find_slots and
                      not yet given back), counting repetitions;
   run .. ops       : the answer and the node list after every call (any number of calls);
   judge            : the clauses the check evaluates on the real objects' trace. *)

(* After EVERY call of ANY sequence: no core / GPU occupation is above BUSY or below FREE, lfs / mem
   of a node stay between 0 and what the node has, and the slots handed out and not yet released are
   compatible: per core / GPU their occupations plus the initial occupation do not exceed BUSY, a
   DOWN resource is in no slot, their lfs / mem sums fit the node *)
Theorem C01_app_no_oversubscription :
  forall (ns0 : list node) (verified : bool) (ops : list op),
    wf_nodes ns0 -> Forall op_ok ops ->
    all_disciplined [] ops (run (start_nl ns0 verified) ops) = true ->
    v_nover (judge ns0 ns0 [] ops (run (start_nl ns0 verified) ops)) = true.
Proof. exact app_no_oversubscription. Qed.
Print Assumptions C01_app_no_oversubscription.

(* the same, state by state: the relation "reached with the slots h outstanding" holds initially, is
   kept by every call, and implies the clause *)
Theorem C01_app_reached_start :
  forall (ns0 : list node) (verified : bool), wf_nodes ns0 -> Reached ns0 (start_nl ns0 verified) [].
Proof. exact reached_start. Qed.
Print Assumptions C01_app_reached_start.

Theorem C01_app_reached_step :
  forall (ns0 : list node) (nl : nlist) (h : list slot) (o : op) (nl' : nlist) (res : res),
    Reached ns0 nl h -> op_ok o -> op_disciplined h o = true -> step nl o = (nl', res) ->
    Reached ns0 nl' (held_after h o res).
Proof. exact reached_step. Qed.
Print Assumptions C01_app_reached_step.

Theorem C01_app_reached_no_oversubscription :
  forall (ns0 : list node) (nl : nlist) (h : list slot),
    Reached ns0 nl h -> ok_nover ns0 (nl_nodes nl) h = true.
Proof. exact reached_no_oversubscription. Qed.
Print Assumptions C01_app_reached_no_oversubscription.

(* the unbounded `while True` of find_slots ends (the model's EHang answer never occurs) -- in ANY
   state of the node list, also one left by releases of slots that were not held (occupations
   outside FREE .. BUSY), for requests with non-negative sizes and a core occupation of at least
   one unit *)
Theorem C01_app_find_slots_terminates :
  forall (nl : nlist) (r : rreq) (n : Z) (nl' : nlist) (res : res),
    0 <= r_nc r -> 0 <= r_ng r -> 0 < r_co r -> find_slots nl r n = (nl', res) -> res <> RErr EHang.
Proof. exact find_slots_never_hangs. Qed.
Print Assumptions C01_app_find_slots_terminates.

(* Node.allocate_slot(slot, _check=True) with a slot MADE BY THE APPLICATION: for any node within its bounds
   and any slot with non-negative indices and occupations -- also one that names a core or GPU more than once --
   the call either raises and leaves the node exactly as it was, or adds exactly the slot and every core / GPU
   occupation stays within FREE .. BUSY, lfs / mem stay >= 0 (repository fix: the check counts what the slot
   itself already asked of a core / GPU; before, core 0 named twice with 40/64 ended at 80/64) *)
Theorem C01_app_allocate_checked_sound :
  forall (nd : node) (s : slot) (nd' : node),
    node_bounded nd -> slot_wf s -> allocate_slot nd s = (nd', None) ->
    node_bounded nd' /\
    nd_index nd' = nd_index nd /\ nd_name nd' = nd_name nd /\
    shifted (fun j => sum_at j (s_cores s)) (nd_cores nd) (nd_cores nd') /\
    shifted (fun j => sum_at j (s_gpus s)) (nd_gpus nd) (nd_gpus nd') /\
    nd_lfs nd' = match nd_lfs nd with Some l => Some (l - s_lfs s) | None => None end /\
    nd_mem nd' = match nd_mem nd with Some m => Some (m - s_mem s) | None => None end.
Proof. exact allocate_checked_sound. Qed.
Print Assumptions C01_app_allocate_checked_sound.

Theorem C01_app_allocate_checked_refusal_leaves_unchanged :
  forall (nd : node) (s : slot) (nd' : node) (e : err),
    node_bounded nd -> slot_wf s -> allocate_slot nd s = (nd', Some e) -> nd' = nd.
Proof. exact allocate_checked_refusal_unchanged. Qed.
Print Assumptions C01_app_allocate_checked_refusal_leaves_unchanged.

(* the input that showed the defect is refused now, and meets the hypotheses of the two theorems *)
Theorem C01_app_allocate_checked_duplicate_refused :
  node_bounded dup_node /\ slot_wf dup_slot /\ allocate_slot dup_node dup_slot = (dup_node, Some EAssert).
Proof. exact allocate_checked_duplicate_refused. Qed.
Print Assumptions C01_app_allocate_checked_duplicate_refused.

Example C01_app_nonvacuous :
  let ns0 := [mkNode 0 "localhost" [Some 0; Some 0] [Some 0] (Some 100) (Some 0);
              mkNode 1 "localhost" [Some 0; None] [Some 0] (Some 100) (Some 0)] in
  let r := mkRR 1 32 1 32 10 0 false in
  match run (start_nl ns0 true) [OFind r 2; OFind r 2; OFind r 2] with
  | [(RSlots a, _); (RSlots b, _); (RNone, nl)] =>
      List.length a = 2%nat /\ List.length b = 2%nat /\
      nl_nodes nl = [mkNode 0 "localhost" [Some 64; Some 0] [Some 64] (Some 80) (Some 0);
                     mkNode 1 "localhost" [Some 64; None] [Some 64] (Some 80) (Some 0)]
  | _ => False
  end.
Proof. vm_compute. auto. Qed.

End AppSide.
