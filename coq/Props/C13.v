(* C13 -- a dying pilot fails its own tasks and only those.
   Statements only; every proof is `exact <lemma>`.  The model is
   RP.PilotDeath.Model (TaskManager._pilot_state_cb with the part of
   Task._update it reaches), over the state tables generated from states.py.

   closed_form ps t = if own ps t then failed t else t, where
     own ps t  : t is not final and is bound to a pilot that `ps` reports final,
     failed t  : t with state FAILED and an exception detail naming t's pilot. *)
From Coq Require Import ZArith List Bool.
From RP Require Import Gen.StatesTables PilotDeath.Model PilotDeath.Oracle PilotDeath.Proofs.
From RP Require States.Model States.Inst States.PilotEnd States.DeathRace.
Import ListNotations.
Open Scope Z_scope.

(* One invocation on an active manager treats every task on its own: the
   tasks afterwards are the tasks before, each replaced by its closed form. *)
Theorem C13_one_invocation :
  forall (ps : list (Z * pstate)) (ts : list task),
    m_tasks (fst (fst (pilot_state_cb (mkM false false ts) ps))) = map (closed_form ps) ts.
Proof. exact cb_closed_form. Qed.
Print Assumptions C13_one_invocation.

(* When a pilot reaches a final state, every task bound to that pilot that is
   not yet final is FAILED with an explanation naming the pilot. *)
Theorem C13_own_tasks_failed :
  forall (ps : list (Z * pstate)) (t : task) (pid : Z) (st : pstate),
    t_pilot t = Some pid -> In (pid, st) ps -> p_final st = true -> t_final (t_state t) = false ->
    closed_form ps t = mkT (t_uid t) T_FAILED (Some pid) (Some pid).
Proof. exact own_tasks_failed. Qed.
Print Assumptions C13_own_tasks_failed.

(* Tasks not yet bound to any pilot, tasks already final, and tasks bound to
   pilots that are not reported final keep their state (and everything else). *)
Theorem C13_others_untouched :
  forall (ps : list (Z * pstate)) (t : task),
    t_pilot t = None \/ t_final (t_state t) = true \/
    (forall pid st, t_pilot t = Some pid -> In (pid, st) ps -> p_final st = false) ->
    closed_form ps t = t.
Proof. exact others_untouched. Qed.
Print Assumptions C13_others_untouched.

(* A manager that is closed or terminating ignores the callback. *)
Theorem C13_inactive_manager_ignores :
  forall (m : tmgr) (ps : list (Z * pstate)),
    m_terminating m = true \/ m_closed m = true ->
    fst (fst (pilot_state_cb m ps)) = m /\ snd (pilot_state_cb m ps) = [].
Proof. exact inactive_ignores. Qed.
Print Assumptions C13_inactive_manager_ignores.

(* Every order in which pilots end: after any sequence of invocations (one
   pilot at a time, several at once, repeated reports) the tasks are the closed
   form for the pilots reported final anywhere in the sequence ... *)
Theorem C13_any_history :
  forall (calls : list (list (Z * pstate))) (ts : list task),
    m_tasks (run_end (mkM false false ts) (map OCb calls)) = map (closed_form (concat calls)) ts.
Proof. exact history_closed_form. Qed.
Print Assumptions C13_any_history.

(* ... so two histories that report the same pilots final end in the same tasks. *)
Theorem C13_order_irrelevant :
  forall (calls calls' : list (list (Z * pstate))) (ts : list task),
    (forall q, dies (concat calls) q = dies (concat calls') q) ->
    m_tasks (run_end (mkM false false ts) (map OCb calls)) =
    m_tasks (run_end (mkM false false ts) (map OCb calls')).
Proof. exact order_irrelevant. Qed.
Print Assumptions C13_order_irrelevant.

(* The oracle clauses own_failed and others_untouched, as evaluated by the
   harness on the traces of the real code, hold for the model on every
   history -- with tasks moving on or being re-bound, the manager being closed
   or terminating between invocations -- from every initial manager. *)
Theorem C13_oracle_on_every_history :
  forall (ops : list op) (m : tmgr),
    nth 0 (ok_history m ops (run m ops)) false = true /\
    nth 1 (ok_history m ops (run m ops)) false = true.
Proof. exact history_own_and_others. Qed.
Print Assumptions C13_oracle_on_every_history.

(* "is reported FAILED": on every history, every own task is handed to
   advance(publish=True) as FAILED, and whatever is handed to advance() is a
   task of the table with exactly that state (oracle clause `reported`). *)
Theorem C13_reported_on_every_history :
  forall (ops : list op) (m : tmgr), nth 2 (ok_history m ops (run m ops)) false = true.
Proof. exact history_reported. Qed.
Print Assumptions C13_reported_on_every_history.

(* non-vacuity: three pilots, five tasks; pilot 2 fails, later pilot 1 is
   canceled; task 4 (CANCELED, pilot 2) and task 5 (unbound) are untouched,
   task 3 (pilot 3) survives both *)
Example C13_nonvacuous :
  run (mkM false false [mkT 1 T_AGENT_EXECUTING (Some 1) None; mkT 2 T_NEW (Some 2) None;
                        mkT 3 T_AGENT_EXECUTING (Some 3) None; mkT 4 T_CANCELED (Some 2) None;
                        mkT 5 T_TMGR_SCHEDULING None None])
      [OCb [(2, P_FAILED)]; OCb [(1, P_CANCELED); (3, P_PMGR_ACTIVE)]]
  = [ (true, [[(2, T_FAILED)]],
       [mkT 1 T_AGENT_EXECUTING (Some 1) None; mkT 2 T_FAILED (Some 2) (Some 2);
        mkT 3 T_AGENT_EXECUTING (Some 3) None; mkT 4 T_CANCELED (Some 2) None;
        mkT 5 T_TMGR_SCHEDULING None None]);
      (true, [[(1, T_FAILED)]],
       [mkT 1 T_FAILED (Some 1) (Some 1); mkT 2 T_FAILED (Some 2) (Some 2);
        mkT 3 T_AGENT_EXECUTING (Some 3) None; mkT 4 T_CANCELED (Some 2) None;
        mkT 5 T_TMGR_SCHEDULING None None]) ].
Proof. vm_compute. reflexivity. Qed.

(* ---- the pilot's end reaches the task manager ----
   The task manager's callback (above) runs when the PILOT OBJECT changes
   state: the chain is pmgr notification -> PilotManager._update_pilot ->
   Pilot._update -> pilot callbacks -> TaskManager._pilot_state_cb.  Model of
   the first three links: RP.States (subject of C14).  What C13 needs from it:
   a final notification for a pilot that is not final yet makes Pilot.state that
   final state, raises nothing and ends the callback sequence with it --
   whatever state the client still had the pilot in (a very short pilot, a
   missed activation notice). *)
Module PilotSide.
Import RP.States.Model RP.States.Inst RP.States.PilotEnd.
Theorem C13_pilot_end_is_observed :
  forall cur tgt : pstate,
    p_is_final cur = false -> p_is_final tgt = true ->
    exists cbs, p_notify cur tgt = (tgt, cbs ++ [tgt], None).
Proof. exact pilot_end_is_observed. Qed.
Print Assumptions C13_pilot_end_is_observed.
End PilotSide.

(* a state notification for a task and the death of its pilot are handled by
   two threads; both run under the tasks lock, so one comes first.  In either
   order at most one final state is announced and it is the state the task
   ends in -- for every pair (current state, notified state) *)
Module RaceSide.
Import RP.States.Model RP.States.Inst RP.States.DeathRace.
Theorem C13_death_race_one_final :
  forall cur tgt : tstate,
    one_final (order_ud cur tgt) = true /\ one_final (order_du cur tgt) = true.
Proof. exact death_race_one_final. Qed.
Print Assumptions C13_death_race_one_final.
End RaceSide.
