From Coq Require Import List Bool Arith.
From RP Require Import Fwd.Model Fwd.Oracle Fwd.Proofs.
Theorem C16_stub : True.
Proof. exact stub. Qed.
Print Assumptions C16_stub.
