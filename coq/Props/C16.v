(* C16 -- client and agents exchange each forwarded message exactly once.
   Statements only; every proof is `exact <lemma>` (RP.Fwd.Proofs).

   Setting (RP.Fwd.Model): one client (side 0) and n pilots (sides 1..n), each
   running Session._crosswire_proxy against one shared proxy; `posts` is any
   batch of application-level publications (side, channel, source), message i
   being the i-th of them; `sched` is any transport schedule of the network;
   `count_at s c i log` is the number of times message i was handed to the
   subscribers of side s on channel c. *)
From Coq Require Import List Bool Arith PeanoNat FinFun.
From RP Require Import Fwd.Model Fwd.Oracle Fwd.Proofs Fwd.Life Fwd.LifeOracle Fwd.LifeProofs Fwd.Fault Fwd.FaultOracle Fwd.FaultProofs Fwd.NamesProofs.
Import ListNotations.

(* exact delivery counts: for every number of pilots, every batch of posts
   (every originating side, every forward flag / origin marker), every
   schedule, every receiving side and channel *)
Theorem C16_delivery_counts :
  forall (n : nat) (posts : list post) (sched : list nat) (i s0 : nat) (c0 : chan) (src : source)
         (s : nat) (c : chan),
    nth_error posts i = Some (s0, c0, src) -> s0 <= n -> s <= n ->
    count_at s c i (log (network n posts sched)) =
      if chan_eqb c c0
      then if Nat.eqb s s0 then 1 else if post_crosses i (s0, c0, src) then 1 else 0
      else 0.
Proof. exact network_counts. Qed.
Print Assumptions C16_delivery_counts.

(* which messages cross: a true forward flag and no foreign origin marker *)
Theorem C16_crossing_rule :
  forall (i s0 : nat) (c : chan) (o : option nat) (f : option bool),
    post_crosses i (s0, c, Raw o f) =
      match f with Some true => true | _ => false end
      && match o with None => true | Some o' => Nat.eqb o' s0 end.
Proof. exact raw_crosses. Qed.
Print Assumptions C16_crossing_rule.

(* a message published with the forward flag is delivered exactly once on
   every connected side -- the other sides, and (never a second time) its own *)
Theorem C16_forwarded_exactly_once :
  forall (n : nat) (posts : list post) (sched : list nat) (i s0 : nat) (c0 : chan) (src : source),
    nth_error posts i = Some (s0, c0, src) -> s0 <= n ->
    post_crosses i (s0, c0, src) = true ->
    forall s, s <= n -> count_at s c0 i (log (network n posts sched)) = 1.
Proof. exact forwarded_exactly_once. Qed.
Print Assumptions C16_forwarded_exactly_once.

(* whatever the flags: the publishing side sees its message exactly once *)
Theorem C16_never_back_to_origin_twice :
  forall (n : nat) (posts : list post) (sched : list nat) (i s0 : nat) (c0 : chan) (src : source),
    nth_error posts i = Some (s0, c0, src) -> s0 <= n ->
    count_at s0 c0 i (log (network n posts sched)) = 1.
Proof. exact once_at_origin. Qed.
Print Assumptions C16_never_back_to_origin_twice.

(* messages without the forward flag (or with a foreign origin marker) stay
   on the side where they were published *)
Theorem C16_unforwarded_stays_local :
  forall (n : nat) (posts : list post) (sched : list nat) (i s0 : nat) (c0 : chan) (src : source),
    nth_error posts i = Some (s0, c0, src) -> s0 <= n ->
    post_crosses i (s0, c0, src) = false ->
    forall s, s <= n ->
      count_at s c0 i (log (network n posts sched)) = if Nat.eqb s s0 then 1 else 0.
Proof. exact unforwarded_stays_local. Qed.
Print Assumptions C16_unforwarded_stays_local.

(* no circulation: within the bound of n + 3 publications per post the
   network falls silent, after at most n + 2 publications per post *)
Theorem C16_no_circulation :
  forall (n : nat) (posts : list post) (sched : list nat),
    pending (network n posts sched) = [] /\
    npub (network n posts sched) <= length posts * (n + 2).
Proof. exact no_circulation. Qed.
Print Assumptions C16_no_circulation.

(* ... from ANY network state: whatever publications are pending on whatever
   bridge (local or proxy) with whatever markers, under any schedule *)
Theorem C16_no_circulation_any_state :
  forall (n fuel : nat) (sched : list nat) (st : net),
    length (pending st) * (n + 2) <= fuel ->
    pending (run (sides_of n) fuel sched st) = [] /\
    npub (run (sides_of n) fuel sched st) <= npub st + length (pending st) * (n + 2).
Proof. exact any_state_quiescent. Qed.
Print Assumptions C16_no_circulation_any_state.

(* the two forwarders of a side: what leaves towards the proxy was flagged,
   carries no foreign marker, and goes out stamped with the side's own name and
   a cleared flag (so it is forwarded only once) ... *)
Theorem C16_outgoing_marked :
  forall (me : nat) (m m' : msg),
    pubsub_fwd me false m = Some m' ->
    m_origin m' = Some me /\ m_fwd m' = Some false /\ m_id m' = m_id m /\ crosses me m = true.
Proof. exact fwd_out_spec. Qed.
Print Assumptions C16_outgoing_marked.

(* ... and what is taken from the proxy is unchanged and came from elsewhere *)
Theorem C16_incoming_foreign_only :
  forall (me : nat) (m m' : msg),
    pubsub_fwd me true m = Some m' -> exists o, m_origin m = Some o /\ o <> me /\ m' = m.
Proof. exact fwd_in_spec. Qed.
Print Assumptions C16_incoming_foreign_only.

(* no publication has great-grandchildren: local -> proxy -> remote local -> nothing *)
Theorem C16_three_hops_at_most :
  forall (sides : list nat) (p q r : pub),
    In q (children sides p) -> In r (children sides q) -> children sides r = [].
Proof. exact grandchildren_childless. Qed.
Print Assumptions C16_three_hops_at_most.

(* every delivery is either the local one on the publishing side (message as
   posted) or a remote copy that carries the publisher's name and a cleared
   forward flag -- nothing else is ever handed to a subscriber *)
Theorem C16_delivered_copies_marked :
  forall (n : nat) (posts : list post) (sched : list nat) (e : event),
    In e (log (network n posts sched)) ->
    exists s0 c0 src, nth_error posts (e_id e) = Some (s0, c0, src) /\ e_chan e = c0 /\
      ((e_side e = s0 /\ e_origin e = m_origin (source_msg s0 (e_id e) src)
                      /\ e_fwd e = m_fwd (source_msg s0 (e_id e) src))
       \/ (e_side e <> s0 /\ e_origin e = Some s0 /\ e_fwd e = Some false)).
Proof. exact delivered_copies_marked. Qed.
Print Assumptions C16_delivered_copies_marked.

(* agent-side state advances are forwarded by default ... *)
Theorem C16_agent_advance_forwarded :
  forall (n : nat) (posts : list post) (sched : list nat) (i s0 : nat),
    nth_error posts i = Some (s0, State, Advance None) -> 1 <= s0 <= n ->
    forall s, s <= n -> count_at s State i (log (network n posts sched)) = 1.
Proof. exact agent_advance_forwarded. Qed.
Print Assumptions C16_agent_advance_forwarded.

(* ... client-side ones are not *)
Theorem C16_client_advance_local :
  forall (n : nat) (posts : list post) (sched : list nat) (i : nat),
    nth_error posts i = Some (0, State, Advance None) ->
    forall s, s <= n ->
      count_at s State i (log (network n posts sched)) = if Nat.eqb s 0 then 1 else 0.
Proof. exact client_advance_local. Qed.
Print Assumptions C16_client_advance_local.

(* the boolean oracle clauses evaluated on implementation traces mean what
   their names say ... *)
Theorem C16_oracle_exactly_once_sound :
  forall (n : nat) (posts : list post) (l : list event),
    ok_exactly_once n posts l = true <->
    (forall i s0 c0 src s, nth_error posts i = Some (s0, c0, src) -> s0 <= n ->
       post_crosses i (s0, c0, src) = true -> s <= n -> s <> s0 -> count_at s c0 i l = 1).
Proof. exact ok_exactly_once_spec. Qed.
Print Assumptions C16_oracle_exactly_once_sound.

Theorem C16_oracle_not_back_sound :
  forall (n : nat) (posts : list post) (l : list event),
    ok_not_back n posts l = true <->
    (forall i s0 c0 src, nth_error posts i = Some (s0, c0, src) -> s0 <= n -> count_at s0 c0 i l = 1).
Proof. exact ok_not_back_spec. Qed.
Print Assumptions C16_oracle_not_back_sound.

Theorem C16_oracle_stays_local_sound :
  forall (n : nat) (posts : list post) (l : list event),
    ok_stays_local n posts l = true <->
    (forall i s0 c0 src s, nth_error posts i = Some (s0, c0, src) -> s0 <= n ->
       post_crosses i (s0, c0, src) = false -> s <= n -> s <> s0 -> count_at s c0 i l = 0).
Proof. exact ok_stays_local_spec. Qed.
Print Assumptions C16_oracle_stays_local_sound.

(* ... and the model satisfies all of them *)
Theorem C16_model_satisfies_oracle :
  forall (n : nat) (posts : list post) (sched : list nat),
    let st := network n posts sched in
    ok_exactly_once n posts (log st) = true /\ ok_not_back n posts (log st) = true /\
    ok_stays_local n posts (log st) = true /\ ok_no_stray n posts (log st) = true /\
    ok_no_circulation n (length posts) (npub st) (quiescent st) = true.
Proof. exact model_all_clauses. Qed.
Print Assumptions C16_model_satisfies_oracle.

(* non-vacuity: 1 client + 2 pilots; pilot 1 advances a task (forwarded by
   default), the client sends a flagged control message, pilot 2 re-publishes a
   flagged message that carries the client's marker (must not leave again) *)
Example C16_nonvacuous :
  model_obs 2 [ (1, State, Advance None); (0, Control, Raw None (Some true));
                (2, Control, Raw (Some 0) (Some true)) ] [2; 0; 1; 3]
  = ([ mkev 2 Control 2 (Some 0) (Some true);
       mkev 1 State   0 None     (Some true);
       mkev 0 Control 1 None     (Some true);
       mkev 0 State   0 (Some 1) (Some false);
       mkev 2 State   0 (Some 1) (Some false);
       mkev 1 Control 1 (Some 0) (Some false);
       mkev 2 Control 1 (Some 0) (Some false) ], 9, true, 0).
Proof. vm_compute. reflexivity. Qed.

(* ==== the life cycle of the forwarding fabric (RP.Fwd.Life) ====================
   A history `ops` is any sequence of  Connect s  (side s builds its session:
   the client registers the session id at the proxy, a pilot looks it up; both
   crosswire),  Close s  (Session.close() and the end of that side's process)
   and  Round posts sched  (live sides publish, the network runs until silent).
   `rounds_from world0 ops` lists the rounds with the situation they were
   played in: (live sides, registered, id of the first post, posts). *)

(* In whatever order sides have connected and closed before and after: a
   message published on a live side in a round played while the client session
   is up has exactly the prescribed number of deliveries on every side that is
   live in that round (1 on its own side; on every other live side 1 if it is
   forward-flagged without a foreign marker, else 0; 0 on the other channel) --
   counted in the final log of the whole history *)
Theorem C16_life_delivery_counts :
  forall (ops : list lop) (live : list nat) (reg : bool) (k : nat) (posts : list post),
    In (live, reg, k, posts) (rounds_from world0 ops) ->
    forall (j s0 : nat) (c0 : chan) (src : source), nth_error posts j = Some (s0, c0, src) ->
    mem 0 live = true -> mem s0 live = true ->
    forall (s : nat) (c : chan), mem s live = true ->
      count_at s c (k + j) (log (w_net (life_run ops world0))) = expected (k + j) (s0, c0, src) s c.
Proof. exact life_counts0. Qed.
Print Assumptions C16_life_delivery_counts.

(* the closing of a pilot's session changes nothing for the others: after any
   history `pre`, pilot k closes; the messages of the next round still have the
   prescribed counts on all remaining sides *)
Theorem C16_pilot_close_changes_nothing :
  forall (pre : list lop) (k : nat) (posts : list post) (sched : list nat) (rest : list lop)
         (j s0 : nat) (c0 : chan) (src : source) (s : nat) (c : chan),
    k <> 0 ->
    let w := life_run pre world0 in
    nth_error posts j = Some (s0, c0, src) ->
    mem 0 (w_live w) = true -> mem s0 (w_live w) = true -> s0 <> k ->
    mem s (w_live w) = true -> s <> k ->
    count_at s c (w_next w + j)
      (log (w_net (life_run (pre ++ Close k :: Round posts sched :: rest) world0)))
    = expected (w_next w + j) (s0, c0, src) s c.
Proof. exact pilot_close_changes_nothing. Qed.
Print Assumptions C16_pilot_close_changes_nothing.

(* once the client session is gone (or before it exists) nothing crosses: a
   message is delivered on its own side only, once *)
Theorem C16_life_without_client_local :
  forall (ops : list lop) (live : list nat) (reg : bool) (k : nat) (posts : list post),
    In (live, reg, k, posts) (rounds_from world0 ops) ->
    forall (j s0 : nat) (c0 : chan) (src : source), nth_error posts j = Some (s0, c0, src) ->
    mem 0 live = false -> mem s0 live = true ->
    forall (s : nat) (c : chan),
      count_at s c (k + j) (log (w_net (life_run ops world0)))
      = if Nat.eqb s0 s && chan_eqb c0 c then 1 else 0.
Proof. exact life_counts_down0. Qed.
Print Assumptions C16_life_without_client_local.

(* every history ends silent, within n_live + 1 publications per post *)
Theorem C16_life_no_circulation :
  forall (ops : list lop),
    pending (w_net (life_run ops world0)) = [] /\
    npub (w_net (life_run ops world0)) <= pub_budget (rounds_from world0 ops).
Proof. exact life_quiet0. Qed.
Print Assumptions C16_life_no_circulation.

(* only the owner of the session id (the client) ever asks the proxy to
   unregister it *)
Theorem C16_only_owner_unregisters :
  forall (ops : list lop), ok_only_owner_unregisters (w_reqs (life_run ops world0)) = true.
Proof. exact model_only_owner_unregisters. Qed.
Print Assumptions C16_only_owner_unregisters.

(* the model satisfies the life-cycle oracle clauses evaluated on implementation traces *)
Theorem C16_life_model_satisfies_oracle :
  forall (ops : list lop),
    let w := life_run ops world0 in
    ok_life_exactly_once ops (log (w_net w)) = true /\ ok_life_not_back ops (log (w_net w)) = true /\
    ok_life_stays_local ops (log (w_net w)) = true /\
    ok_life_no_circulation ops (npub (w_net w)) (quiescent (w_net w)) = true /\
    ok_only_owner_unregisters (w_reqs w) = true.
Proof. exact model_life_all_clauses. Qed.
Print Assumptions C16_life_model_satisfies_oracle.

(* non-vacuity: client and two pilots connect, pilot 1 finishes and closes, the
   client and pilot 2 go on talking, then the client closes *)
Example C16_life_nonvacuous :
  life_obs [ Connect 0; Connect 1; Connect 2;
             Round [(0, Control, Raw None (Some true))] [];
             Close 1;
             Round [(0, Control, Raw None (Some true)); (2, State, Advance None)] [1];
             Close 0;
             Round [(2, State, Advance None)] [] ]
  = ([ mkev 0 Control 0 None (Some true); mkev 1 Control 0 (Some 0) (Some false);
       mkev 2 Control 0 (Some 0) (Some false);
       mkev 2 State 2 None (Some true); mkev 0 Control 1 None (Some true);
       mkev 0 State 2 (Some 2) (Some false); mkev 2 Control 1 (Some 0) (Some false);
       mkev 2 State 3 None (Some true) ],
     11, true, 0, [(0, Register); (1, Lookup); (2, Lookup); (0, Unregister)], 0).
Proof. vm_compute. reflexivity. Qed.

(* ==== failing hand-overs (RP.Fwd.Fault) ==========================================
   A fault schedule F names, per crosswire (side, direction, channel), the
   hand-over attempts (calls of publisher.put on that crosswire) that raise.
   As in the code, a raising put ends the callback: that copy is lost, nothing
   is kept and nothing is sent again.  `network_f F n posts sched` is the
   network of 1 client + n pilots under F; `f_lost` lists the copies whose
   hand-over failed. *)

(* the books balance for EVERY fault schedule, batch of posts and transport
   schedule: deliveries + what the lost copies would still have delivered =
   what the property prescribes *)
Theorem C16_fault_conservation :
  forall (F : faultsched) (n : nat) (posts : list post) (sched : list nat)
         (i s0 : nat) (c0 : chan) (src : source) (s : nat) (c : chan),
    nth_error posts i = Some (s0, c0, src) -> s0 <= n -> s <= n ->
    count_at s c i (log (f_net (network_f F n posts sched)))
    + sum_map (tot2 (sides_of n) (cnt (sides_of n) s c i)) (f_lost (network_f F n posts sched))
    = expected i (s0, c0, src) s c.
Proof. exact fault_conservation. Qed.
Print Assumptions C16_fault_conservation.

(* AT MOST ONCE under faults: no side receives a message more than once,
   whatever fails, whatever is sent, in whatever order it is transported *)
Theorem C16_fault_never_twice :
  forall (F : faultsched) (n : nat) (posts : list post) (sched : list nat)
         (i s0 : nat) (c0 : chan) (src : source) (s : nat) (c : chan),
    nth_error posts i = Some (s0, c0, src) -> s0 <= n -> s <= n ->
    count_at s c i (log (f_net (network_f F n posts sched))) <= 1.
Proof. exact fault_never_twice. Qed.
Print Assumptions C16_fault_never_twice.

(* ... and never more often than prescribed (nothing on the other channel,
   nothing off-side for unflagged messages) *)
Theorem C16_fault_at_most_prescribed :
  forall (F : faultsched) (n : nat) (posts : list post) (sched : list nat)
         (i s0 : nat) (c0 : chan) (src : source) (s : nat) (c : chan),
    nth_error posts i = Some (s0, c0, src) -> s0 <= n -> s <= n ->
    count_at s c i (log (f_net (network_f F n posts sched))) <= expected i (s0, c0, src) s c.
Proof. exact fault_at_most. Qed.
Print Assumptions C16_fault_at_most_prescribed.

(* EXACTLY ONCE for a message whose hand-overs all succeeded *)
Theorem C16_fault_exactly_once_if_handed_over :
  forall (F : faultsched) (n : nat) (posts : list post) (sched : list nat)
         (i s0 : nat) (c0 : chan) (src : source) (s : nat) (c : chan),
    nth_error posts i = Some (s0, c0, src) -> s0 <= n -> s <= n ->
    (forall q, In q (f_lost (network_f F n posts sched)) -> m_id (p_msg q) <> i) ->
    count_at s c i (log (f_net (network_f F n posts sched))) = expected i (s0, c0, src) s c.
Proof. exact fault_exact_if_handed_over. Qed.
Print Assumptions C16_fault_exactly_once_if_handed_over.

(* per receiving side: only the hand-over out of the publishing side and the
   hand-over into that side matter -- failures towards other sides do not *)
Theorem C16_fault_exactly_once_per_receiver :
  forall (F : faultsched) (n : nat) (posts : list post) (sched : list nat)
         (i s0 : nat) (c0 : chan) (src : source) (s : nat),
    nth_error posts i = Some (s0, c0, src) -> s0 <= n -> s <= n -> s <> s0 ->
    post_crosses i (s0, c0, src) = true ->
    let fl := map (lost_failure tt) (f_lost (network_f F n posts sched)) in
    failed_at fl (s0, false, c0) i = false -> failed_at fl (s, true, c0) i = false ->
    count_at s c0 i (log (f_net (network_f F n posts sched))) = 1.
Proof. exact fault_exact_receiver. Qed.
Print Assumptions C16_fault_exactly_once_per_receiver.

(* without faults this is the fault-free statement *)
Theorem C16_fault_free_exact :
  forall (n : nat) (posts : list post) (sched : list nat)
         (i s0 : nat) (c0 : chan) (src : source) (s : nat) (c : chan),
    nth_error posts i = Some (s0, c0, src) -> s0 <= n -> s <= n ->
    count_at s c i (log (f_net (network_f [] n posts sched))) = expected i (s0, c0, src) s c.
Proof. exact nofault_exact. Qed.
Print Assumptions C16_fault_free_exact.

Theorem C16_fault_no_circulation :
  forall (F : faultsched) (n : nat) (posts : list post) (sched : list nat),
    pending (f_net (network_f F n posts sched)) = [] /\
    npub (f_net (network_f F n posts sched)) <= length posts * (n + 2).
Proof. exact fault_no_circulation. Qed.
Print Assumptions C16_fault_no_circulation.

(* the model satisfies the two fault clauses evaluated on implementation traces *)
Theorem C16_fault_model_at_most :
  forall (F : faultsched) (n : nat) (posts : list post) (sched : list nat),
    ok_at_most n posts (log (f_net (network_f F n posts sched))) = true.
Proof. exact model_at_most. Qed.
Print Assumptions C16_fault_model_at_most.

Theorem C16_fault_model_exactly_once :
  forall (F : faultsched) (n : nat) (posts : list post) (sched : list nat),
    let st := network_f F n posts sched in
    ok_exactly_once_f n posts (map (lost_failure tt) (f_lost st)) (log (f_net st)) = true.
Proof. exact model_exactly_once_f. Qed.
Print Assumptions C16_fault_model_exactly_once.

(* non-vacuity: three flagged messages of the client, the 1st and 3rd hand-over
   towards the proxy fail: messages 0 and 2 are lost for the pilot, message 1
   arrives once, nothing arrives twice *)
Example C16_fault_nonvacuous :
  model_fobs [((0, false, Control), [1; 3])] 1
             [(0, Control, Raw None (Some true)); (0, Control, Raw None (Some true));
              (0, Control, Raw None (Some true))] []
  = ([ mkev 0 Control 0 None (Some true); mkev 0 Control 1 None (Some true);
       mkev 0 Control 2 None (Some true); mkev 1 Control 1 (Some 0) (Some false) ],
     5, true, 2, [((0, false, Control), 0); ((0, false, Control), 2)]).
Proof. vm_compute. reflexivity. Qed.

(* ==== the ids of the sides (RP.Fwd.NamesProofs) ====================================
   Origin markers are compared for EQUALITY of side ids -- `msg['origin'] ==
   self._module` in the code, Nat.eqb on abstract side ids in pubsub_fwd.  The
   model never looks into an id; which strings the ids are (generated
   'pilot.0007', user-chosen 'p1' / 'p10', ids that contain one another) is
   carried by the correspondence, which names the sides differently per case. *)

(* exact delivery counts over ANY duplicate-free list of side ids *)
Theorem C16_any_side_ids :
  forall (sides : list nat) (posts : list post) (sched : list nat)
         (i s0 : nat) (c0 : chan) (src : source) (s : nat) (c : chan),
    NoDup sides -> nth_error posts i = Some (s0, c0, src) -> In s0 sides -> In s sides ->
    count_at s c i (log (network_on sides posts sched)) = expected i (s0, c0, src) s c.
Proof. exact any_ids_counts. Qed.
Print Assumptions C16_any_side_ids.

(* delivery counts are invariant under every injective renaming of the sides
   (that keeps the client the client), and under the transport schedule *)
Theorem C16_renaming_invariant :
  forall (f : nat -> nat) (sides : list nat) (posts : list post) (sched sched' : list nat)
         (i s0 : nat) (c0 : chan) (src : source) (s : nat) (c : chan),
    Injective f -> f 0 = 0 -> NoDup sides ->
    nth_error posts i = Some (s0, c0, src) -> In s0 sides -> In s sides ->
    count_at (f s) c i (log (network_on (map f sides) (map (rename_post f) posts) sched'))
    = count_at s c i (log (network_on sides posts sched)).
Proof. exact renaming_invariant. Qed.
Print Assumptions C16_renaming_invariant.

(* the network of 1 client + n pilots is the instance sides = 0..n *)
Theorem C16_network_on_standard :
  forall (n : nat) (posts : list post) (sched : list nat),
    network_on (sides_of n) posts sched = network n posts sched.
Proof. exact network_on_sides_of. Qed.
Print Assumptions C16_network_on_standard.
