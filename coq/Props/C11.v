From Coq Require Import ZArith List Bool String.
From RP Require Import Staging.Model Staging.Oracle.
Import ListNotations.
