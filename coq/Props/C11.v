(* C11 -- staging directives move the named data to the named place.
   Statements only; every proof is `exact <lemma>` (RP.Staging.Proofs).  The
   model is RP.Staging.Model (expand_description, complete_url, the Local
   staging backend and the four stager components). *)
From Coq Require Import ZArith List Bool String Ascii Permutation.
From RP Require Import Staging.Model Staging.Proofs.
Import ListNotations.
Open Scope string_scope.
Open Scope list_scope.

(* ---- expansion of directives (Task.__init__ -> expand_description) ---- *)

(* expanding an already expanded list changes nothing (sources being non-empty;
   a short form such as "> b" expands to an empty source, which the dict branch
   of the code rejects on the second call) *)
Theorem C11_expand_idempotent :
  forall (l : list sdin) (l' : list sd),
    expand l = inr l' -> forallb (fun d => nonempty (s_src d)) l' = true ->
    expand (map as_dict l') = inr l'.
Proof. exact (fun l l' _ H => expand_as_dict l' H). Qed.
Print Assumptions C11_expand_idempotent.

(* meaning of the short forms, for any texts a, b free of '<' and '>':
   "a > b", "a >> b", "b < a", "b << a" all mean: transfer a to b *)
Theorem C11_short_form_gt :
  forall a b, plain a = true -> plain b = true ->
    expand1 (SStr (a +++ ">" +++ b)) = inr {| s_src := strip a; s_tgt := strip b; s_act := Transfer |}.
Proof. exact short_gt. Qed.
Print Assumptions C11_short_form_gt.

Theorem C11_short_form_gtgt :
  forall a b, plain a = true -> plain b = true ->
    expand1 (SStr (a +++ ">>" +++ b)) = inr {| s_src := strip a; s_tgt := strip b; s_act := Transfer |}.
Proof. exact short_gtgt. Qed.
Print Assumptions C11_short_form_gtgt.

Theorem C11_short_form_lt :
  forall a b, plain a = true -> plain b = true ->
    expand1 (SStr (b +++ "<" +++ a)) = inr {| s_src := strip a; s_tgt := strip b; s_act := Transfer |}.
Proof. exact short_lt. Qed.
Print Assumptions C11_short_form_lt.

Theorem C11_short_form_ltlt :
  forall a b, plain a = true -> plain b = true ->
    expand1 (SStr (b +++ "<<" +++ a)) = inr {| s_src := strip a; s_tgt := strip b; s_act := Transfer |}.
Proof. exact short_ltlt. Qed.
Print Assumptions C11_short_form_ltlt.

(* no operator: the target is the base name of the source's URL path *)
Theorem C11_short_form_plain :
  forall a, plain a = true ->
    expand1 (SStr a) = inr {| s_src := strip a; s_tgt := strip (url_basename a); s_act := Transfer |}.
Proof. exact short_none. Qed.
Print Assumptions C11_short_form_plain.

(* ---- URL resolution (complete_url) ---- *)

(* schema:///path, schema known to the context: context[schema] ++ "/" ++ path *)
Theorem C11_url_sandbox :
  forall ctx sch base p,
    nochar ":"%char sch = true -> nonempty sch = true -> String.eqb sch "file" = false ->
    assoc sch ctx = Some base ->
    exists r, complete_url ctx (sch +++ ":///" +++ p) = inr r /\
              r_comps r = p_comps (u_path base) ++ comps_of p /\ r_schema r = u_schema base /\ r_empty r = false.
Proof. exact resolve_sandbox. Qed.
Print Assumptions C11_url_sandbox.

(* relative path: the stager's `pwd` entry ++ "/" ++ path *)
Theorem C11_url_relative :
  forall ctx raw base,
    contains "://" raw = false -> pre "/" raw = false -> nonempty raw = true ->
    assoc "pwd" ctx = Some base ->
    exists r, complete_url ctx raw = inr r /\
              r_comps r = p_comps (u_path base) ++ comps_of raw /\ r_schema r = u_schema base /\ r_empty r = false.
Proof. exact resolve_relative. Qed.
Print Assumptions C11_url_relative.

(* absolute path: left as it is *)
Theorem C11_url_absolute :
  forall ctx raw,
    contains "://" raw = false -> pre "/" raw = true -> assoc "file" ctx = None ->
    exists r, complete_url ctx raw = inr r /\ r_comps r = comps_of raw /\ r_schema r = "file".
Proof. exact resolve_absolute. Qed.
Print Assumptions C11_url_absolute.

(* a host part in an expanded schema is an error (ValueError) *)
Theorem C11_url_host_rejected :
  forall ctx sch base h p,
    nochar ":"%char sch = true -> nonempty sch = true -> nochar "/"%char h = true -> nonempty h = true ->
    assoc sch ctx = Some base ->
    complete_url ctx (sch +++ "://" +++ h +++ "/" +++ p) = inl EValue.
Proof. exact resolve_host. Qed.
Print Assumptions C11_url_host_rejected.

(* which sandbox each schema and each stager's `pwd` stands for: client-side
   input: sources relative to the client sandbox, targets to the task sandbox;
   client-side output the other way round; agent side: always the task sandbox,
   and no client:// there *)
Theorem C11_relative_defaults :
  forall sb,
    assoc "pwd" (tmgr_in_src sb) = Some (parse_url (sb_client sb)) /\
    assoc "pwd" (tmgr_in_tgt sb) = Some (parse_url (sb_task sb)) /\
    assoc "pwd" (tmgr_out_src sb) = Some (parse_url (sb_task sb)) /\
    assoc "pwd" (tmgr_out_tgt sb) = Some (parse_url (sb_client sb)) /\
    assoc "pwd" (agent_ctx sb) = Some (as_file (sb_task sb)) /\
    assoc "client" (agent_ctx sb) = None.
Proof. exact relative_defaults. Qed.
Print Assumptions C11_relative_defaults.

Theorem C11_sandbox_schemas :
  forall sb pwd,
    assoc "client" (tmgr_ctx sb pwd) = Some (parse_url (sb_client sb)) /\
    assoc "task" (tmgr_ctx sb pwd) = Some (parse_url (sb_task sb)) /\
    assoc "pilot" (tmgr_ctx sb pwd) = Some (parse_url (sb_pilot sb)) /\
    assoc "session" (tmgr_ctx sb pwd) = Some (parse_url (sb_session sb)) /\
    assoc "resource" (tmgr_ctx sb pwd) = Some (parse_url (sb_resource sb)) /\
    assoc "endpoint" (tmgr_ctx sb pwd) = Some (parse_url (sb_endpoint sb)) /\
    assoc "task" (agent_ctx sb) = Some (as_file (sb_task sb)) /\
    assoc "pilot" (agent_ctx sb) = Some (as_file (sb_pilot sb)) /\
    assoc "session" (agent_ctx sb) = Some (as_file (sb_session sb)) /\
    assoc "resource" (agent_ctx sb) = Some (as_file (sb_resource sb)) /\
    assoc "endpoint" (agent_ctx sb) = Some (as_file (sb_endpoint sb)) /\
    assoc "file" (tmgr_ctx sb pwd) = None /\ assoc "file" (agent_ctx sb) = None.
Proof. exact sandbox_entries. Qed.
Print Assumptions C11_sandbox_schemas.

(* ---- one directive: every action of the Local backend ---- *)

(* transfer / copy / link / move that succeeds: the written path is the target
   (or target/basename(source) if the target is a directory), it holds the
   content the source had when the directive ran, no other file changed --
   except the source of a move *)
Theorem C11_action_staged :
  forall a s g fs fs' e,
    handle_sd a s g fs = Ok fs' e ->
    exists c, file_at (r_comps s) fs = Some c /\ file_at e fs' = Some c /\
              (e = r_comps g \/ e = r_comps g ++ [last (r_comps s) EmptyString]) /\
              (forall q, q <> e -> (is_move a = true -> q <> r_comps s) -> file_at q fs' = file_at q fs).
Proof. exact handle_sd_spec. Qed.
Print Assumptions C11_action_staged.

(* a directive that cannot be carried out destroys nothing *)
Theorem C11_failed_action_keeps_files :
  forall a s g fs fs', handle_sd a s g fs = Fail fs' -> forall q, file_at q fs' = file_at q fs.
Proof. exact handle_sd_fail. Qed.
Print Assumptions C11_failed_action_keeps_files.

(* the agent stagers resolve source and target in the agent context and then
   do exactly that *)
Theorem C11_agent_input_directive :
  forall t d fs fs' e,
    agent_in_step t d fs = Ok fs' e -> action_eqb (s_act d) Tarball = false ->
    exists s g, complete_url (agent_ctx (t_sb t)) (s_src d) = inr s /\
                complete_url (agent_ctx (t_sb t)) (agent_fix_tgt (s_src d) (s_tgt d) fs) = inr g /\
                op_spec (is_move (s_act d)) s g fs fs' e.
Proof. exact agent_in_step_spec. Qed.
Print Assumptions C11_agent_input_directive.

Theorem C11_agent_output_directive :
  forall t d fs fs' e,
    agent_out_step t d fs = Ok fs' e ->
    exists s g, complete_url (agent_ctx (t_sb t)) (s_src d) = inr s /\
                complete_url (agent_ctx (t_sb t)) (agent_fix_tgt (s_src d) (s_tgt d) fs) = inr g /\
                op_spec (is_move (s_act d)) s g fs fs' e.
Proof. exact agent_out_step_spec. Qed.
Print Assumptions C11_agent_output_directive.

(* ---- directive lists of any length ---- *)

(* input_staged (agent side; copy and link directives -- moves and tarballs are
   covered per directive above and by the correspondence): when the stager
   succeeds on a list with pairwise different targets (special case of the
   last-writer theorems below, which need no such hypothesis), every directive was
   carried out and every target still holds what was written to it *)
Theorem C11_input_staged_partial :
  forall t l fs,
    forallb keeps l = true -> files_only (agent_in_step t) l fs = true ->
    h_ok (agent_si_steps t l fs []) = true ->
    NoDup (map fst (h_log (agent_si_steps t l fs []))) ->
    List.length (h_log (agent_si_steps t l fs [])) = List.length l /\
    Forall (fun ec => file_at (fst ec) (h_fs (agent_si_steps t l fs [])) = Some (snd ec))
           (h_log (agent_si_steps t l fs [])).
Proof. exact agent_input_persist. Qed.
Print Assumptions C11_input_staged_partial.

Theorem C11_output_staged_partial :
  forall t l fs,
    forallb keeps l = true -> files_only (agent_out_step t) l fs = true ->
    h_ok (agent_so_steps t l fs []) = true ->
    NoDup (map fst (h_log (agent_so_steps t l fs []))) ->
    List.length (h_log (agent_so_steps t l fs [])) = List.length l /\
    Forall (fun ec => file_at (fst ec) (h_fs (agent_so_steps t l fs [])) = Some (snd ec))
           (h_log (agent_so_steps t l fs [])).
Proof. exact agent_output_persist. Qed.
Print Assumptions C11_output_staged_partial.

(* the same for the client-side TRANSFER loop (input and output), lists
   without a tarball *)
Theorem C11_transfer_staged_partial :
  forall tar l fs,
    no_tar l = true -> files_only_rs l fs = true -> h_ok (copy_all tar l fs []) = true ->
    NoDup (map fst (h_log (copy_all tar l fs []))) ->
    List.length (h_log (copy_all tar l fs [])) = List.length l /\
    Forall (fun ec => file_at (fst ec) (h_fs (copy_all tar l fs [])) = Some (snd ec)) (h_log (copy_all tar l fs [])).
Proof. exact copy_all_persist. Qed.
Print Assumptions C11_transfer_staged_partial.

(* ---- overwrites: the last writer of a path determines its content ----
   No hypothesis on the targets (they may collide, the path may hold a file
   before): when the stager succeeds on a list of copy/link/transfer directives,
   every directive was carried out and every path holds what the LAST directive
   writing it put there (the content its source had when it ran, by
   C11_action_staged / C11_agent_*_directive); paths nobody wrote keep their
   content. *)
Theorem C11_input_last_writer :
  forall t l fs,
    forallb keeps l = true -> files_only (agent_in_step t) l fs = true ->
    h_ok (agent_si_steps t l fs []) = true ->
    List.length (h_log (agent_si_steps t l fs [])) = List.length l /\
    forall q, file_at q (h_fs (agent_si_steps t l fs [])) =
              match last_write q (h_log (agent_si_steps t l fs [])) with Some c => Some c | None => file_at q fs end.
Proof. exact agent_input_last_writer. Qed.
Print Assumptions C11_input_last_writer.

Theorem C11_output_last_writer :
  forall t l fs,
    forallb keeps l = true -> files_only (agent_out_step t) l fs = true ->
    h_ok (agent_so_steps t l fs []) = true ->
    List.length (h_log (agent_so_steps t l fs [])) = List.length l /\
    forall q, file_at q (h_fs (agent_so_steps t l fs [])) =
              match last_write q (h_log (agent_so_steps t l fs [])) with Some c => Some c | None => file_at q fs end.
Proof. exact agent_output_last_writer. Qed.
Print Assumptions C11_output_last_writer.

Theorem C11_transfer_last_writer :
  forall tar l fs,
    no_tar l = true -> files_only_rs l fs = true -> h_ok (copy_all tar l fs []) = true ->
    List.length (h_log (copy_all tar l fs [])) = List.length l /\
    forall q, file_at q (h_fs (copy_all tar l fs [])) =
              match last_write q (h_log (copy_all tar l fs [])) with Some c => Some c | None => file_at q fs end.
Proof. exact copy_all_last_writer. Qed.
Print Assumptions C11_transfer_last_writer.

(* non-vacuity of the above: two tasks, one after the other, copy different
   data to the same pilot:///shared/params.dat, a third directive replaces a
   file that existed before *)
Example C11_overwrite_nonvacuous :
  let '(_, fs', fin) := run_bulks
    [ [ {| ti_uid := "t0"; ti_sb := ex_sb "t0";
           ti_in := [ SDict (Some "client:///a.dat") (Some "pilot:///shared/params.dat") (Some Transfer) false ];
           ti_out := []; ti_soe := false; ti_outcome := DONE; ti_exec := []; ti_ops := [] |} ];
      [ {| ti_uid := "t1"; ti_sb := ex_sb "t1";
           ti_in := [ SDict (Some "client:///b.dat") (Some "pilot:///shared/params.dat") (Some Transfer) false;
                      SStr "a.dat > pilot:///sh.dat" ];
           ti_out := []; ti_soe := false; ti_outcome := DONE; ti_exec := []; ti_ops := [] |} ] ] ex_fs in
  ( file_at ["R"; "rsb"; "s1"; "p0"; "shared"; "params.dat"] fs',
    file_at ["R"; "rsb"; "s1"; "p0"; "sh.dat"] fs',
    map (fun t => (t_uid t, last (t_pub t) DONE)) fin )
  = ( Some (Plain 2), Some (Plain 1), [ ("t0", DONE); ("t1", DONE) ] ).
Proof. vm_compute. reflexivity. Qed.

(* ---- every directive creates the missing parents of its target when it runs ----
   The state the directive finds is arbitrary: whatever earlier directives or
   the payload moved away, removed or never created.  If the source is a file,
   nothing but directories -- present or MISSING -- lies on the way to the
   target and the target is free, then transfer, copy, link and move are carried
   out and the target holds the content of the source. *)
Theorem C11_staged_on_demand :
  forall a s g c fs,
    In a [Transfer; Copy; Link; Move] -> ready_file s g c fs ->
    exists fs', handle_sd a s g fs = Ok fs' (r_comps g) /\ file_at (r_comps g) fs' = Some c.
Proof. exact stage_on_demand. Qed.
Print Assumptions C11_staged_on_demand.

(* the same for a directory source (transfer / copy: cp -r, move: shutil.move):
   every file below the source is below the target afterwards, with its content *)
Theorem C11_directory_staged_on_demand :
  forall a s g fs,
    In a [Transfer; Copy; Move] -> ready_dir s g fs ->
    exists fs', handle_sd a s g fs = OkDir fs' (r_comps g) /\
                forall rel c, file_at (r_comps s ++ rel) fs = Some c -> file_at (r_comps g ++ rel) fs' = Some c.
Proof. exact dir_on_demand. Qed.
Print Assumptions C11_directory_staged_on_demand.

(* whenever a directive reports a directory result, the source was a directory
   when it ran and the whole tree is at the target (or in it, for a directory target) *)
Theorem C11_directory_action_staged :
  forall a s g fs fs' e,
    handle_sd a s g fs = OkDir fs' e ->
    exists fs1, mkdir_p (dirname_of g) fs = Some fs1 /\ is_dir (r_comps s) fs1 = true /\
                (e = r_comps g \/ e = r_comps g ++ [last (r_comps s) EmptyString]) /\
                forall rel c, file_at (r_comps s ++ rel) fs1 = Some c -> file_at (e ++ rel) fs' = Some c.
Proof. exact handle_sd_dir_spec. Qed.
Print Assumptions C11_directory_action_staged.

(* sequences of any length through one stager: if every directive finds its
   source (with content c_i) and a free target when ITS turn comes, the whole
   sequence succeeds and each target holds the content of its source right after
   its directive -- no assumption on what the earlier directives did to the
   directories *)
Theorem C11_sequence_staged_on_demand :
  forall tar (l : list (rsd * content)) fs,
    ready_seq l fs -> h_ok (copy_all tar (map fst l) fs []) = true /\ staged_seq l fs.
Proof. exact seq_on_demand. Qed.
Print Assumptions C11_sequence_staged_on_demand.

Theorem C11_agent_output_on_demand :
  forall t d s g c fs,
    complete_url (agent_ctx (t_sb t)) (s_src d) = inr s ->
    complete_url (agent_ctx (t_sb t)) (agent_fix_tgt (s_src d) (s_tgt d) fs) = inr g ->
    r_schema s = "file" -> r_schema g = "file" -> In (s_act d) staged_actions -> ready_file s g c fs ->
    exists fs', agent_out_step t d fs = Ok fs' (r_comps g) /\ file_at (r_comps g) fs' = Some c.
Proof. exact agent_out_on_demand. Qed.
Print Assumptions C11_agent_output_on_demand.

Theorem C11_agent_input_on_demand :
  forall t d s g c fs,
    complete_url (agent_ctx (t_sb t)) (s_src d) = inr s ->
    complete_url (agent_ctx (t_sb t)) (agent_fix_tgt (s_src d) (s_tgt d) fs) = inr g ->
    r_schema g = "file" -> In (s_act d) staged_actions -> ready_file s g c fs ->
    exists fs', agent_in_step t d fs = Ok fs' (r_comps g) /\ file_at (r_comps g) fs' = Some c.
Proof. exact agent_in_on_demand. Qed.
Print Assumptions C11_agent_input_on_demand.

(* non-vacuity: two tasks, one after the other, through the same stagers:
   the first stages into pilot:///collect; the second moves that directory into
   its sandbox, stages into pilot:///collect again, its payload then removes
   the directory, and a third task stages into it once more *)
Example C11_on_demand_nonvacuous :
  let '(_, fs', fin) := run_bulks
    [ [ {| ti_uid := "t0"; ti_sb := ex_sb "t0"; ti_in := [];
           ti_out := [ SDict (Some "o.dat") (Some "pilot:///collect/o0.dat") (Some Copy) false ];
           ti_soe := false; ti_outcome := DONE; ti_exec := [ (["o.dat"], 5%Z) ]; ti_ops := [] |} ];
      [ {| ti_uid := "t1"; ti_sb := ex_sb "t1"; ti_in := [];
           ti_out := [ SDict (Some "pilot:///collect") (Some "task:///collected") (Some Move) false;
                       SDict (Some "o.dat") (Some "pilot:///collect/o1.dat") (Some Copy) false ];
           ti_soe := false; ti_outcome := DONE; ti_exec := [ (["o.dat"], 6%Z) ]; ti_ops := [] |} ];
      [ {| ti_uid := "t2"; ti_sb := ex_sb "t2"; ti_in := [];
           ti_out := [ SStr "o.dat > pilot:///collect/o2.dat" ];
           ti_soe := false; ti_outcome := DONE; ti_exec := [ (["o.dat"], 7%Z) ];
           ti_ops := [ XRm ["R"; "rsb"; "s1"; "p0"; "collect"] ] |} ] ] ex_fs in
  ( file_at ["R"; "rsb"; "s1"; "p0"; "t1"; "collected"; "o0.dat"] fs',
    file_at ["R"; "rsb"; "s1"; "p0"; "collect"; "o0.dat"] fs',
    file_at ["R"; "rsb"; "s1"; "p0"; "collect"; "o1.dat"] fs',
    file_at ["R"; "rsb"; "s1"; "p0"; "collect"; "o2.dat"] fs',
    map (fun t => (t_uid t, last (t_pub t) DONE)) fin )
  = ( Some (Plain 5), None, None, Some (Plain 7), [ ("t0", DONE); ("t1", DONE); ("t2", DONE) ] ).
Proof. vm_compute. reflexivity. Qed.

(* ---- the order given ----
   a list of directives is carried out in the order given: running l1 ++ l2 is
   running l1 and then l2 in the state l1 left, so a directive sees the effects
   of ALL earlier directives of its list *)
Theorem C11_order_given :
  forall step l1 l2 fs lg,
    steps step (l1 ++ l2) fs lg =
    if h_ok (steps step l1 fs lg)
    then steps step l2 (h_fs (steps step l1 fs lg)) (h_log (steps step l1 fs lg))
    else steps step l1 fs lg.
Proof. exact steps_app. Qed.
Print Assumptions C11_order_given.

(* TARBALL included: the directive unpacks the task's tarball where it stands
   in the list; right after it every member holds its content *)
Theorem C11_tarball_unpacked_in_place :
  forall t d fs fs' e,
    agent_in_step t d fs = Ok fs' e -> action_eqb (s_act d) Tarball = true ->
    exists m, file_at (sandbox_path t ++ [tar_name t]) fs = Some (Tar m) /\
              (NoDup (map fst m) -> forall p z, In (p, z) m -> file_at p fs' = Some (Plain z)).
Proof. exact tarball_in_place. Qed.
Print Assumptions C11_tarball_unpacked_in_place.

(* ... so that a later transfer / copy / link / move of a member, ready in the
   state the TARBALL directive left, is carried out: the two-directive list
   succeeds and the follower's target holds the member's content *)
Theorem C11_tarball_then_use :
  forall t d d2 s g z fs fs1 e m,
    agent_in_step t d fs = Ok fs1 e -> action_eqb (s_act d) Tarball = true ->
    file_at (sandbox_path t ++ [tar_name t]) fs = Some (Tar m) -> NoDup (map fst m) -> In (r_comps s, z) m ->
    complete_url (agent_ctx (t_sb t)) (s_src d2) = inr s ->
    complete_url (agent_ctx (t_sb t)) (agent_fix_tgt (s_src d2) (s_tgt d2) fs1) = inr g ->
    r_schema g = "file" -> In (s_act d2) staged_actions ->
    (file_at (r_comps s) fs1 = Some (Plain z) -> ready_file s g (Plain z) fs1) ->
    exists fs2, h_ok (steps (agent_in_step t) [d; d2] fs []) = true /\
                h_fs (steps (agent_in_step t) [d; d2] fs []) = fs2 /\
                file_at (r_comps g) fs2 = Some (Plain z).
Proof. exact tarball_then_use. Qed.
Print Assumptions C11_tarball_then_use.

(* non-vacuity: TARBALL a client file into the sandbox, LINK it, COPY it to the
   pilot sandbox, MOVE the link on -- one input list, in that order *)
Example C11_chain_nonvacuous :
  let '(_, fs', fin) := run_case
    [ {| ti_uid := "t0"; ti_sb := ex_sb "t0";
         ti_in := [ SDict (Some "client:///a.dat") (Some "task:///in/cfg.dat") (Some Tarball) false;
                    SDict (Some "task:///in/cfg.dat") (Some "task:///cfg.lnk") (Some Link) false;
                    SDict (Some "task:///in/cfg.dat") (Some "pilot:///shared/cfg.dat") (Some Copy) false;
                    SDict (Some "cfg.lnk") (Some "session:///kept.dat") (Some Move) false ];
         ti_out := []; ti_soe := false; ti_outcome := DONE; ti_exec := []; ti_ops := [] |} ] ex_fs in
  ( file_at ["R"; "rsb"; "s1"; "p0"; "t0"; "in"; "cfg.dat"] fs',
    file_at ["R"; "rsb"; "s1"; "p0"; "shared"; "cfg.dat"] fs',
    file_at ["R"; "rsb"; "s1"; "kept.dat"] fs',
    file_at ["R"; "rsb"; "s1"; "p0"; "t0"; "cfg.lnk"] fs',
    map (fun t => last (t_pub t) DONE) fin )
  = ( Some (Plain 1), Some (Plain 1), Some (Plain 1), None, [ DONE ] ).
Proof. vm_compute. reflexivity. Qed.

(* ---- content: staging preserves it ----
   A file is its content (the harness identifies a content id with the exact
   bytes: size and every byte).  Every task the agent input stager hands on
   (AGENT_SCHEDULING_PENDING) was staged successfully in some state fsx, and in
   the state its staging left every path holds what the LAST directive writing
   it put there -- the content its source had when that directive ran
   (C11_action_staged) -- and every other file is untouched.  Lists of
   copy/link directives on files, of any length; MOVE, TARBALL and directory
   trees are covered per directive (C11_action_staged,
   C11_tarball_unpacked_in_place + C11_tarball_members, C11_directory_action_staged)
   and in sequence by C11_order_given / C11_sequence_staged_on_demand. *)
Theorem C11_passed_input_has_content :
  forall l fs,
    let '(_, pushed, _) := handle_loop agent_si_handle (fun _ => [AGENT_SCHEDULING_PENDING]) l fs in
    Forall (fun t' => exists t0 fsx,
              In t0 l /\ t' = advance t0 AGENT_SCHEDULING_PENDING /\ h_ok (agent_si_handle t0 fsx) = true /\
              let ds := filter (has_action [Link; Copy; Move; Tarball]) (t_in t0) in
              (forallb keeps ds = true -> files_only (agent_in_step t0) ds fsx = true ->
               List.length (h_log (agent_si_handle t0 fsx)) = List.length ds /\
               forall q, file_at q (h_fs (agent_si_handle t0 fsx)) =
                         match last_write q (h_log (agent_si_handle t0 fsx)) with
                         | Some c => Some c
                         | None => file_at q fsx
                         end)) pushed.
Proof. exact passed_input_content. Qed.
Print Assumptions C11_passed_input_has_content.

(* the client packs the sources of ALL TARBALL directives of the task: each has
   its member in the tarball, named by its resolved target and carrying the
   content of its resolved source (the agent then unpacks every member:
   C11_tarball_unpacked_in_place) *)
Theorem C11_tarball_members :
  forall sctx tctx l have fs na m,
    tar_filter sctx tctx l have fs = Some (na, m) ->
    forall d, In d l -> action_eqb (s_act d) Tarball = true ->
    exists s g z, complete_url sctx (s_src d) = inr s /\ complete_url tctx (s_tgt d) = inr g /\
                  file_at (r_comps s) fs = Some (Plain z) /\ In (r_comps g, z) m.
Proof. exact tar_filter_members. Qed.
Print Assumptions C11_tarball_members.

(* ---- failed tasks ---- *)

(* output directives of tasks that did not end DONE and did not ask for
   stage_on_error are not carried out: the agent output stager leaves the file
   system alone and hands every such task on *)
Theorem C11_failed_task_no_output_agent :
  forall l fs, forallb not_staged_out l = true ->
    w_fs (aso_work l fs) = fs /\ w_final (aso_work l fs) = [] /\
    List.length (w_pushed (aso_work l fs)) = List.length l.
Proof. exact aso_skips. Qed.
Print Assumptions C11_failed_task_no_output_agent.

(* ... and the client output stager transfers nothing and makes each of them
   final in its target state *)
Theorem C11_failed_task_no_output_client :
  forall l fs, forallb (fun t => negb (is_done (t_target t))) l = true ->
    w_fs (tso_work l fs) = fs /\
    map (fun t => last (t_pub t) DONE) (w_final (tso_work l fs)) = map t_target l.
Proof. exact tso_skips. Qed.
Print Assumptions C11_failed_task_no_output_client.

(* a directive that cannot be carried out fails that task only: in the
   per-task loop shared by the stagers every task of the bulk is handled exactly
   once; the ones whose staging failed are published FAILED and handed on to
   nobody, all others are advanced normally *)
Theorem C11_bad_directive_fails_that_task_only :
  forall handle okst l fs,
    let '(_, pushed, failed) := handle_loop handle okst l fs in
    Permutation (map t_uid l) (map t_uid (pushed ++ failed)) /\
    Forall (fun t => last (t_pub t) DONE = FAILED /\ t_target t = FAILED) failed /\
    Forall (fun t => exists t0, In t0 l /\ t = fold_left advance (okst t0) t0) pushed.
Proof. exact handle_loop_total. Qed.
Print Assumptions C11_bad_directive_fails_that_task_only.

(* ---- non-vacuity: a bulk of two tasks through all four stagers ---- *)
Definition ex_case : list task_in :=
  [ {| ti_uid := "t0"; ti_sb := ex_sb "t0";
       ti_in := [ SStr "a.dat > in/a.dat";
                  SDict (Some "pilot:///sh.dat") (Some "sh.lnk") (Some Link) false;
                  SDict (Some "client:///b.dat") (Some "task:///deep/b.dat") (Some Tarball) false ];
       ti_out := [ SStr "client:///res/o.dat < o.dat";
                   SDict (Some "o.dat") (Some "pilot:///keep/") (Some Copy) false ];
       ti_soe := false; ti_outcome := DONE; ti_exec := [ (["o.dat"], 7%Z) ]; ti_ops := [] |};
    {| ti_uid := "t1"; ti_sb := ex_sb "t1";
       ti_in := [ SStr "nope.dat" ]; ti_out := []; ti_soe := false; ti_outcome := DONE; ti_exec := []; ti_ops := [] |};
    {| ti_uid := "t2"; ti_sb := ex_sb "t2";
       ti_in := []; ti_out := [ SStr "o.dat" ]; ti_soe := false; ti_outcome := FAILED; ti_exec := [ (["o.dat"], 8%Z) ]; ti_ops := [] |} ].

Example C11_nonvacuous :
  let '(_, fs', fin) := run_case ex_case ex_fs in
  ( file_at ["R"; "rsb"; "s1"; "p0"; "t0"; "in"; "a.dat"] fs',
    file_at ["R"; "rsb"; "s1"; "p0"; "t0"; "sh.lnk"] fs',
    file_at ["R"; "rsb"; "s1"; "p0"; "t0"; "deep"; "b.dat"] fs',
    file_at ["R"; "client"; "res"; "o.dat"] fs',
    file_at ["R"; "rsb"; "s1"; "p0"; "keep"; "o.dat"] fs',
    file_at ["R"; "client"; "o.dat"] fs',
    map (fun t => (t_uid t, last (t_pub t) DONE)) fin )
  = ( Some (Plain 1), Some (Plain 3), Some (Plain 2), Some (Plain 7), Some (Plain 7), None,
      [ ("t1", FAILED); ("t2", FAILED); ("t0", DONE) ] ).
Proof. vm_compute. reflexivity. Qed.

(* ---- recorded finding: a TARBALL directive with an explicitly empty target.
   Every other action stages an empty target as <task sandbox>/<basename>; the
   tarball path packs the file under the sandbox directory's own name and the
   task fails in the agent although its source exists. *)
Definition ex_tar_empty : list task_in :=
  [ {| ti_uid := "t0"; ti_sb := ex_sb "t0";
       ti_in := [ SDict (Some "a.dat") (Some "") (Some Tarball) false ];
       ti_out := []; ti_soe := false; ti_outcome := DONE; ti_exec := []; ti_ops := [] |} ].

Theorem C11_tarball_empty_target_refuted :
  exists tis fs0, file_at ["R"; "client"; "a.dat"] fs0 = Some (Plain 1) /\
    let '(_, fs', fin) := run_case tis fs0 in
    map (fun t => last (t_pub t) DONE) fin = [FAILED] /\
    file_at ["R"; "rsb"; "s1"; "p0"; "t0"; "a.dat"] fs' = None.
Proof. exists ex_tar_empty, ex_fs. vm_compute. repeat split; reflexivity. Qed.
Print Assumptions C11_tarball_empty_target_refuted.

(* the same directive with any other action is staged *)
Theorem C11_empty_target_staged_partial :
  forall a, In a [Transfer; Copy; Link; Move] ->
    let '(_, fs', fin) := run_case
      [ {| ti_uid := "t0"; ti_sb := ex_sb "t0";
           ti_in := [ SDict (Some (if client_side_b a then "a.dat" else "pilot:///sh.dat")) (Some "") (Some a) false ];
           ti_out := []; ti_soe := false; ti_outcome := DONE; ti_exec := []; ti_ops := [] |} ] ex_fs in
    map (fun t => last (t_pub t) DONE) fin = [DONE] /\
    file_at (["R"; "rsb"; "s1"; "p0"; "t0"] ++ [if client_side_b a then "a.dat" else "sh.dat"]) fs'
      = Some (Plain (if client_side_b a then 1 else 3)).
Proof. exact empty_target_staged. Qed.
Print Assumptions C11_empty_target_staged_partial.
