(* C05 -- every submitted task ends in one final state that tells the truth.
   Statements only; every proof is `exact <lemma>`.  Model: RP.Pipeline.Model
   (nine stations under BaseComponent.work_cb, FIFO queues, cancel lists),
   the client is the C06 model (RP.States).  P = mkP true thr: one pilot,
   added and known.  `calm`: no bulk-level exception at the tmgr scheduler
   (that case is C05_one_truthful_final_refuted, a recorded finding). *)
From Coq Require Import ZArith List Bool Permutation.
From RP Require Import Gen.StatesTables Pipeline.Model Pipeline.Stage Pipeline.Oracle Pipeline.Proofs Pipeline.StageProofs.
From RP Require Exec.Model Exec.Oracle Exec.CancelProofs Exec.ReleaseProofs.
From RP Require Relay.Model Relay.Oracle Relay.Proofs Relay.History Relay.OracleProofs.
Import ListNotations.
Open Scope Z_scope.

(* ---- fault isolation, per station ----
   What station c lets the outside see about task u (publications, pushes)
   when it handles ANY bulk B with ANY cancel list is a function of u's own
   token, of whether u is on the cancel list, and of whether an exception
   escaped the work routine for that bulk (`raises`) -- nothing else.  *)
Theorem C05_station_view_is_local :
  forall c P cl B bf u, NoDup (map t_uid B) ->
    proj u (snd (work_cb c P cl B bf))
    = seen c P (zmem u cl) (raises c P bf (kept cl B)) (only u B).
Proof. exact work_cb_proj. Qed.
Print Assumptions C05_station_view_is_local.

(* agent_0 proxy in/out, agent stage-in, agent scheduler, executor and agent
   stage-out catch per task: no exception escapes, whatever the faults of the
   other tasks of the bulk (tmgr scheduler: the scheduler's _work; tmgr
   stage-in: the bulk mkdir; tmgr stage-out: a task without target_state --
   these three fail the whole bulk) *)
Theorem C05_fault_isolation_station :
  forall c P cl B bf u, NoDup (map t_uid B) -> catches_per_task c = true ->
    proj u (snd (work_cb c P cl B bf)) = seen c P (zmem u cl) false (only u B).
Proof. exact station_isolation. Qed.
Print Assumptions C05_fault_isolation_station.

(* nothing is emitted about tasks that are not in the bulk *)
Theorem C05_station_silent_about_others :
  forall c P cl B bf u, NoDup (map t_uid B) -> only u B = [] ->
    proj u (snd (work_cb c P cl B bf)) = [].
Proof. exact work_cb_silent. Qed.
Print Assumptions C05_station_silent_about_others.

(* ---- one station, one task: handed on intact, or one truthful final state ---- *)
Theorem C05_single_step :
  forall c thr u d f canceled raised creq bulkf,
    let t0 := fresh u d f in
    reach c t0 = true ->
    (canceled = true -> creq = true) ->
    (raised = true -> bulkf = true /\ c = CTIn) ->
    let es := seen c (mkP true thr) canceled raised [canon c t0] in
    handed_on c t0 es \/ finished t0 creq bulkf es.
Proof. exact single_step. Qed.
Print Assumptions C05_single_step.

(* ---- the network: every workload, fault placement, delivery schedule ---- *)
(* no task is ever lost or duplicated *)
Theorem C05_never_lost :
  forall thr W evs t0, wf_workload W -> forallb calm evs = true -> In t0 W ->
    let g := run (mkP true thr) (init W) evs in
    (exists c, queued (t_uid t0) g = [(c, canon c t0)] /\ final_pubs (t_uid t0) (tr g) = [])
    \/ (queued (t_uid t0) g = [] /\ final_pubs (t_uid t0) (tr g) <> []).
Proof. exact never_lost. Qed.
Print Assumptions C05_never_lost.

(* a task that is no longer queued has a final state s: every final state
   published for it is s, s tells the truth (Oracle.truthful: DONE -> exit 0
   and no fault on its path; FAILED -> a fault of its own, a failed execution
   or a bulk-level fault; CANCELED -> cancel requested or timeout), and the
   client ends in s for EVERY delivery order of the notifications.
   _partial: liveness (queues are eventually served) is the hypothesis
   `queued u g = []`; bulk-level faults at the tmgr scheduler are excluded. *)
Theorem C05_one_truthful_final_partial :
  forall thr W evs t0, wf_workload W -> forallb calm evs = true -> In t0 W ->
    let g := run (mkP true thr) (init W) evs in
    let u := t_uid t0 in
    queued u g = [] ->
    exists s,
      fin_sts u (tr g) <> [] /\ (forall x, In x (fin_sts u (tr g)) -> x = s) /\
      truthful t0 (ev_cancels u evs) (ev_bulkf evs) s = true /\
      forall ns, Permutation (notifications u (tr g)) ns -> client_state ns = s.
Proof. exact one_truthful_final_partial. Qed.
Print Assumptions C05_one_truthful_final_partial.

Theorem C05_one_truthful_final_refuted :
  exists W evs, wf_workload W /\
    let g := run (mkP true 1000) (init W) evs in
    toks g = [] /\ fin_sts 1 (tr g) = [T_FAILED; T_DONE].
Proof. exact one_truthful_final_refuted. Qed.
Print Assumptions C05_one_truthful_final_refuted.

(* a task with no fault of its own, exit code 0 and no cancel request ends
   DONE, whatever the other tasks, their faults, the bulks and the schedule *)
Theorem C05_fault_isolation :
  forall thr W evs t0, wf_workload W -> forallb calm evs = true -> In t0 W ->
    let g := run (mkP true thr) (init W) evs in
    let u := t_uid t0 in
    queued u g = [] ->
    any_fault t0 = false -> f_exec (t_f t0) = XExit 0 ->
    ev_cancels u evs = false -> ev_bulkf evs = false ->
    forall x, In x (fin_sts u (tr g)) -> x = T_DONE.
Proof. exact fault_isolation. Qed.
Print Assumptions C05_fault_isolation.

(* the executor station releases the slots of every task it receives exactly
   once (AGENT_UNSCHEDULE_PUBSUB), whatever the outcome -- including a task
   removed by the cancel filter at the intake, which is published CANCELED and
   then released *)
Theorem C05_aexec_intake_cancel_releases :
  forall P cl B bf t, NoDup (map t_uid B) -> In t B -> zmem (t_uid t) cl = true ->
    proj (t_uid t) (snd (work_cb CAExec P cl B bf)) = [pubf (cancel t); Unsched (t_uid t)].
Proof. exact aexec_intake_cancel_releases. Qed.
Print Assumptions C05_aexec_intake_cancel_releases.

Theorem C05_aexec_releases_once :
  forall P cl B bf t, NoDup (map t_uid B) -> In t B ->
    releases_of (proj (t_uid t) (snd (work_cb CAExec P cl B bf))) = 1%nat.
Proof. exact aexec_releases_once. Qed.
Print Assumptions C05_aexec_releases_once.

(* ---- staging: when does a directive succeed (Pipeline.Stage: the local
   backend over an abstract file tree), and what DONE says about it ---- *)
(* a directive that succeeds found its source and leaves its target *)
Theorem C05_directive_sound :
  forall tr d tr', sd_src d <> sd_tgt d -> apply_sd tr d = Some tr' ->
    present (get (sd_src d) tr) = true /\
    (is_tar d = false -> present (get (sd_tgt d) tr') = true).
Proof. exact apply_sd_sound. Qed.
Print Assumptions C05_directive_sound.

(* every directive of a list that succeeds, at the moment it is enacted *)
Theorem C05_directive_list_sound :
  forall l tr tr', distinct_ends l -> run_sds tr l = Some tr' ->
    forall a d b, l = a ++ d :: b ->
      exists ta tb, run_sds tr a = Some ta /\ apply_sd ta d = Some tb /\
        present (get (sd_src d) ta) = true /\ (is_tar d = false -> present (get (sd_tgt d) tb) = true).
Proof. exact run_sds_sound. Qed.
Print Assumptions C05_directive_list_sound.

(* a stager that hands the task on ran all the directives it enacts, and
   (tmgr stage-in) found every source it packs *)
Theorem C05_stage_ok_enacted :
  forall c tr l, stage_ok c tr l = true ->
    (exists tr', run_sds tr (enacted c l) = Some tr') /\
    forall d, In d (packed c l) -> present (get (sd_src d) tr) = true.
Proof. exact stage_ok_enacted. Qed.
Print Assumptions C05_stage_ok_enacted.

(* a truthful DONE means: the staging of all four stagers succeeded *)
Theorem C05_done_implies_staged :
  forall u b soe fa fo fs fx tin ain aout tout creq bulkf,
    truthful (staged_task u b soe fa fo fs fx tin ain aout tout) creq bulkf T_DONE = true ->
    stage_ok CTIn (sp_tr tin) (sp_l tin) = true /\ stage_ok CAIn (sp_tr ain) (sp_l ain) = true /\
    stage_ok CAOut (sp_tr aout) (sp_l aout) = true /\ stage_ok CTOut (sp_tr tout) (sp_l tout) = true.
Proof. exact done_implies_staged. Qed.
Print Assumptions C05_done_implies_staged.

(* for every workload, fault placement and delivery schedule: a task whose
   final state is DONE had all its staging succeed *)
Theorem C05_done_means_staging_succeeded :
  forall thr W evs u b soe fa fo fs fx tin ain aout tout,
    let t0 := staged_task u b soe fa fo fs fx tin ain aout tout in
    wf_workload W -> forallb calm evs = true -> In t0 W ->
    let g := run (mkP true thr) (init W) evs in
    queued u g = [] ->
    (forall x, In x (fin_sts u (tr g)) -> x = T_DONE) ->
    stage_ok CTIn (sp_tr tin) (sp_l tin) = true /\ stage_ok CAIn (sp_tr ain) (sp_l ain) = true /\
    stage_ok CAOut (sp_tr aout) (sp_l aout) = true /\ stage_ok CTOut (sp_tr tout) (sp_l tout) = true.
Proof. exact done_means_staging_succeeded. Qed.
Print Assumptions C05_done_means_staging_succeeded.

(* non-vacuity of the staging model: link of a missing source fails, link of
   a file onto a free name succeeds, a second move of the same source fails *)
Example C05_staging_nonvacuous :
  stage_ok CAOut [] [mkSD ALink 1 51] = false /\
  stage_ok CAOut [(1, KFile)] [mkSD ALink 1 51] = true /\
  stage_ok CAIn [(1, KFile); (12, KDir [])] [mkSD AMove 1 12; mkSD AMove 1 12] = false /\
  run_stage CAIn [(1, KFile); (12, KDir [])] [mkSD ACopy 1 12; mkSD AMove 1 51]
  = Some [(1, KAbsent); (51, KFile); (12, KDir [1]); (1, KFile); (12, KDir [])].
Proof. vm_compute. repeat split; reflexivity. Qed.

(* the client, any delivery order *)
Theorem C05_client_any_order :
  forall u es s ns,
    fin_sts u es <> [] -> forallb (tstate_beq s) (fin_sts u es) = true ->
    Permutation (notifications u es) ns -> client_state ns = s.
Proof. exact client_any_order. Qed.
Print Assumptions C05_client_any_order.

(* non-vacuity: three tasks (clean; tmgr input staging error; non-zero exit
   with stage_on_error), a cancel request for a fourth at the executor,
   bulks of two, drained: DONE, FAILED, FAILED, CANCELED *)
Example C05_nonvacuous :
  let D := mkD PNone true true true true true in
  let W := [ fresh 1 D (mkF false false false SStart (XExit 0) false false false);
             fresh 2 D (mkF false true false SStart (XExit 0) false false false);
             fresh 3 D (mkF false false false SStart (XExit 2) false false false);
             fresh 4 (mkD PKnown false false false false false)
                     (mkF false false false SStart (XExit 0) false false false) ] in
  let evs := ECancel CAExec 4
             :: flat_map (fun c => [EDeliver c 2 false; EDeliver c 2 false])
                  [CTSched; CTIn; CA0In; CAIn; CASched; CAExec; CAOut; CA0Out; CTOut] in
  let g := run (mkP true 1000) (init W) evs in
  forallb calm evs = true /\ toks g = [] /\
  map (fun u => fin_sts u (tr g)) [1; 2; 3; 4]
  = [[T_DONE; T_DONE]; [T_FAILED]; [T_FAILED]; [T_CANCELED]].
Proof. vm_compute. repeat split; reflexivity. Qed.

(* ---- executor side: the thread interleavings which the pipeline model
   abstracts (station CAExec as one step) ----
   RP.Exec.Model: the Popen executor as four interleaved threads.  For every
   scenario and EVERY schedule, at quiescence every received task has been
   handed on exactly once (staged with its outcome, FAILED or CANCELED), never
   both collected and canceled; it is CANCELED only if a cancel request named
   it or it has a run-time limit; otherwise FAILED exactly when its launch
   fails and collected with its process' exit code exactly once if not. *)
Module ExecSide.
Import RP.Exec.Model RP.Exec.Oracle RP.Exec.CancelProofs RP.Exec.ReleaseProofs.
Theorem C05_executor_one_truthful_handover :
  forall (sc : scenario) (sched : list choice) (s : state) (tr : list stepobs) (u : Z),
    NoDup (delivered sc) -> In u (delivered sc) -> run (init sc) sched = (s, tr) -> quiescent s = true ->
    let ems := emissions tr in
    n_hand u ems = 1%nat /\
    ~ (0 < n_collected u ems /\ 0 < n_canceled u ems)%nat /\
    (mem u (named sc) = false -> has_limit sc u = false ->
     n_canceled u ems = 0%nat /\
     match fault_of sc u with
     | FNone => n_collected u ems = 1%nat /\ n_adv SFailed u ems = 0%nat
     | _ => n_adv SFailed u ems = 1%nat /\ n_collected u ems = 0%nat
     end).
Proof. exact one_truthful_handover. Qed.
Print Assumptions C05_executor_one_truthful_handover.
End ExecSide.

(* ---- raptor relay of the agent scheduler: tasks with a raptor_id are not
   scheduled but forwarded to raptor masters, or kept in a backlog until a
   master registers (station CASched of the pipeline model handles them as any
   other task; this is what really happens to them) ----
   RP.Relay.Model: work / _schedule_incoming / control_cb(register_raptor_queue,
   unregister_raptor_queue, cancel_tasks; for a cancel request preceded by
   BaseComponent._control_cb, which registers the uids on the cancel list) as a
   state machine over the scheduler queue, the registered queues, the backlog,
   the cancel list and the set of unregistered names.  All statements are about
   EVERY history of operations. *)
Module RelaySide.
Import RP.Relay.Model RP.Relay.Oracle RP.Relay.Proofs RP.Relay.History RP.Relay.OracleProofs.
Open Scope Z_scope.

(* handed on exactly once: at every moment the raptor tasks called u that have
   arrived are, with multiplicity, on the scheduler queue, in a backlog,
   forwarded, failed or canceled -- none lost, none doubled *)
Theorem C05_relay_conservation :
  forall ops u s e, run init ops = (s, e) ->
    n_arr u ops = (n_inq u s + tot u (backlog s) + n_fwd u e + n_fail u e + n_cancel u e)%nat.
Proof. exact conservation. Qed.
Print Assumptions C05_relay_conservation.

(* for a uid that arrived once: exactly one of the five counts is 1, the others are 0 *)
Theorem C05_relay_exactly_one_place :
  forall ops u s e, run init ops = (s, e) -> n_arr u ops = 1%nat ->
    exists a b, [n_inq u s; tot u (backlog s); n_fwd u e; n_fail u e; n_cancel u e] = a ++ 1%nat :: b
                /\ Forall (fun x => x = 0%nat) (a ++ b).
Proof. exact exactly_one_place. Qed.
Print Assumptions C05_relay_exactly_one_place.

(* never forwarded more often than it arrived: at most once, to one queue *)
Theorem C05_relay_never_forwarded_twice :
  forall ops u s e, run init ops = (s, e) -> (n_fwd u e <= n_arr u ops)%nat.
Proof. exact never_forwarded_twice. Qed.
Print Assumptions C05_relay_never_forwarded_twice.

(* one final state: a task that was failed or canceled has not been forwarded
   and is not forwarded, failed or canceled again in any continuation *)
Theorem C05_relay_no_forward_after_final :
  forall ops1 ops2 u s1 e1 s2 e2,
    run init ops1 = (s1, e1) -> run s1 ops2 = (s2, e2) ->
    (n_arr u (ops1 ++ ops2) <= 1)%nat -> (0 < n_fail u e1 + n_cancel u e1)%nat ->
    n_fwd u (e1 ++ e2) = 0%nat /\ (n_fail u (e1 ++ e2) + n_cancel u (e1 ++ e2) = 1)%nat.
Proof. exact no_forward_after_final. Qed.
Print Assumptions C05_relay_no_forward_after_final.

(* in every reachable state the keys of both dicts are unique, a registered
   name has no backlog, no wildcard backlog exists while a queue is
   registered, and a name that has unregistered has neither backlog nor queue:
   nobody waits for a master that is there, nobody for one that has gone *)
Theorem C05_relay_nobody_waits_for_a_registered_master :
  forall ops s e, run init ops = (s, e) ->
    NoDup (map fst (backlog s)) /\ NoDup (map fst (queues s)) /\
    (forall n, alook n (queues s) <> None -> alook n (backlog s) = None) /\
    (queues s <> [] -> alook star (backlog s) = None) /\
    (forall n, In n (gone s) -> alook n (backlog s) = None /\ alook n (queues s) = None).
Proof. exact reachable_spec. Qed.
Print Assumptions C05_relay_nobody_waits_for_a_registered_master.

(* Register: the complete backlog of the name, then that of the wildcard, go
   to the new queue; nothing of them is left behind; the rest is untouched; the
   name is no longer gone *)
Theorem C05_relay_register_relays_all :
  forall ops s0 e0 n q, run init ops = (s0, e0) ->
    let '(s', e) := step s0 (Register n q) in
    e = (match alook n (backlog s0) with Some l => [OPut q l] | None => [] end)
        ++ (if n =? star then [] else match alook star (backlog s0) with Some l => [OPut q l] | None => [] end)
    /\ backlog s' = without [n; star] (backlog s0)
    /\ alook n (backlog s') = None /\ alook star (backlog s') = None
    /\ (forall k, k <> n -> k <> star -> alook k (backlog s') = alook k (backlog s0))
    /\ inq s' = inq s0 /\ alook n (queues s') = Some q
    /\ gone s' = gdel n (gone s0) /\ clist s' = clist s0.
Proof. exact register_relays_all_hist. Qed.
Print Assumptions C05_relay_register_relays_all.

(* Unregister: exactly the backlog of that name fails (FAILED, 'raptor gone'),
   in order; name and backlog are forgotten and the name is remembered as gone;
   an unknown name adds a warning *)
Theorem C05_relay_unregister_fails_exactly :
  forall ops s0 e0 n, run init ops = (s0, e0) ->
    let '(s', e) := step s0 (Unregister n) in
    e = (match alook n (queues s0) with None => [OWarn n] | Some _ => [] end) ++ map OFail (key_list n (backlog s0))
    /\ backlog s' = without [n] (backlog s0) /\ queues s' = without [n] (queues s0)
    /\ alook n (backlog s') = None /\ alook n (queues s') = None
    /\ (forall k, k <> n -> alook k (backlog s') = alook k (backlog s0))
    /\ inq s' = inq s0 /\ gone s' = gadd n (gone s0) /\ clist s' = clist s0.
Proof. exact unregister_fails_exactly_hist. Qed.
Print Assumptions C05_relay_unregister_fails_exactly.

(* "reaches a final state while its pilot is alive", masters that have gone:
   for every history, if the last registration event of name n is an
   unregistration, nothing waits for n (and n is not registered) ... *)
Theorem C05_relay_no_wait_for_gone_master :
  forall ops n s e, run init ops = (s, e) -> gone_hist n ops false = true ->
    alook n (backlog s) = None /\ alook n (queues s) = None.
Proof. exact no_wait_for_gone_master. Qed.
Print Assumptions C05_relay_no_wait_for_gone_master.

(* ... because the next drain fails what arrives for it: a drain handles under
   name n exactly the raptor tasks for n on the scheduler queue, in order
   (C05_relay_drain_sorts_by_name), and what it has collected for a name that
   has unregistered (the wildcard: while no queue is registered) is failed
   ('raptor gone') -- tasks named by a cancel request are canceled instead --
   and nothing is kept for it (C05_relay_gone_group_fails) *)
Theorem C05_relay_drain_sorts_by_name :
  forall n ts, alook n (collect ts) = match for_name n ts with [] => None | l => Some l end.
Proof. exact drain_sorts_by_name. Qed.
Print Assumptions C05_relay_drain_sorts_by_name.

Theorem C05_relay_gone_group_fails :
  forall qs gn bl cl n us,
    alook n qs = None -> zmem n gn = true -> (is_nil qs || negb (n =? star)) = true ->
    fwd_group qs gn bl cl n us = let '(k, cl', o0) := sift cl us in (bl, cl', o0 ++ map OFail k).
Proof. exact gone_group_fails. Qed.
Print Assumptions C05_relay_gone_group_fails.

(* what still waits waits for a master that has never registered nor
   unregistered (the wildcard: for any master, while none is registered) ... *)
Theorem C05_relay_waits_only_for_unknown_master :
  forall ops n s e, run init ops = (s, e) -> alook n (backlog s) <> None -> touched n ops = false.
Proof. exact waits_only_for_unknown_master. Qed.
Print Assumptions C05_relay_waits_only_for_unknown_master.

(* ... and for those the statement stays PARTIAL: such a task keeps waiting,
   whatever else arrives, is drained, registers or unregisters, until that very
   name registers (it is relayed) or unregisters (it is failed) or a request
   names it (it is canceled).  That the master named by the application comes
   is the application's part. *)
Theorem C05_relay_waits_until_registered_partial :
  forall ops s s' e n l,
    run s ops = (s', e) -> forallb (leaves_alone n) ops = true -> n <> star ->
    alook n (backlog s) = Some l -> exists l', alook n (backlog s') = Some (l ++ l').
Proof. exact waits_until_registered_again. Qed.
Print Assumptions C05_relay_waits_until_registered_partial.

(* the clauses evaluated on the traces of the real code hold of the model's
   trace of every history *)
Theorem C05_relay_clauses_hold_in_model :
  forall ops, forallb (fun b => b) (relay_row ops (trace init ops)) = true.
Proof. exact clauses_hold_in_model. Qed.
Print Assumptions C05_relay_clauses_hold_in_model.

(* non-vacuity: wildcard tasks wait, the first master gets them, a second
   master and a re-registration get nothing; a named task for a master that
   never comes waits; seen tasks and workers are scheduled here; after master 2
   unregistered a task for it is failed by the next drain *)
Example C05_relay_nonvacuous :
  let t u n := mkT u (Some n) false false in
  run init [Arrive [t 1 0; t 2 0; t 3 5; mkT 4 (Some 1) true false; mkT 5 (Some 1) false true]; Drain;
            Register 1 1; Register 2 2; Register 1 3; Arrive [t 6 0; t 7 0; t 8 0]; Drain; Unregister 5;
            Unregister 2; Arrive [t 9 2; t 10 1]; Drain]
  = (mkS [] [(1, 3)] [] [] [5; 2],
     [OSched [4; 5]; OPut 1 [1; 2]; OPut1 3 6; OPut1 2 7; OPut1 3 8; OWarn 5; OFail 3; OFail 9; OPut 3 [10]]).
Proof. vm_compute. reflexivity. Qed.
End RelaySide.
