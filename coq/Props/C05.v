From Coq Require Import ZArith List Bool.
From RP Require Import Gen.StatesTables Pipeline.Model Pipeline.Oracle Pipeline.Proofs.
Import ListNotations.
Open Scope Z_scope.

Theorem C05_run_app : forall P g a b, run P g (a ++ b) = run P (run P g a) b.
Proof. exact run_app. Qed.
Print Assumptions C05_run_app.
