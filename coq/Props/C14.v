(* C14 -- pilot states move forward (part a: client side) and end for the
   right reason (part b: Agent_0's termination cause).  Statements only. *)
From Coq Require Import ZArith List Bool.
From RP Require Import Gen.StatesTables States.Model States.Proofs States.Inst.
From RP Require Import AgentCause.Model AgentCause.Proofs.
From RP Require PilotLaunch.Model PilotLaunch.Proofs PilotLaunch.Oracle.
Import ListNotations.
Open Scope Z_scope.

Notation ppchain := (pchain pstate_beq P_DONE P_FAILED P_CANCELED pvalue).

Theorem C14_tables_wf : wf pstate_beq P_DONE P_FAILED P_CANCELED pvalue pinv ptop.
Proof. exact p_wf. Qed.
Print Assumptions C14_tables_wf.

(* For every sequence of notifications and every known pilot: the states
   its callbacks see form a chain in which every step either repeats the
   current state or leaves a non-final state for the next state of the model
   or FAILED/CANCELED; Pilot.state is the end of that chain. *)
Theorem C14_observed_progression :
  forall (ns : list (Z * pstate)) (t : tasks) (p : Z) (cur : pstate),
    lookup p t = Some cur ->
    ppchain cur (proj p (snd (fst (p_run t ns)))) /\
    lookup p (fst (fst (p_run t ns))) =
      Some (last_of cur (proj p (snd (fst (p_run t ns))))).
Proof. exact (pilot_history_chain _ _ _ _ _ _ _ p_wf). Qed.
Print Assumptions C14_observed_progression.

(* a step never goes back, and never leaves a final state *)
Theorem C14_never_back :
  forall p s : pstate,
    pstep_ok pstate_beq P_DONE P_FAILED P_CANCELED pvalue p s -> pvalue p <= pvalue s.
Proof. exact (pstep_le _ _ _ _ _ _ _ p_wf). Qed.
Print Assumptions C14_never_back.

Theorem C14_final_never_left :
  forall p s : pstate,
    pstep_ok pstate_beq P_DONE P_FAILED P_CANCELED pvalue p s -> p_is_final p = true -> s = p.
Proof. exact (pstep_final _ _ _ _ _). Qed.
Print Assumptions C14_final_never_left.

Theorem C14_unknown_ignored :
  forall (ns : list (Z * pstate)) (t : tasks) (p : Z),
    lookup p t = None ->
    proj p (snd (fst (p_run t ns))) = [] /\ lookup p (fst (fst (p_run t ns))) = None.
Proof. exact (pilot_unknown_ignored _ _ _ _ _ _ _ p_wf). Qed.
Print Assumptions C14_unknown_ignored.

Theorem C14_oracle_sound :
  forall (ns : list pstate) (p : pstate),
    pchainb pstate_beq P_DONE P_FAILED P_CANCELED pvalue p ns = true <-> ppchain p ns.
Proof. exact (pchainb_spec _ _ _ _ _ _ _ p_wf). Qed.
Print Assumptions C14_oracle_sound.

Example C14_nonvacuous :
  p_run [(1, P_NEW)] [(1, P_PMGR_ACTIVE_PENDING); (7, P_DONE); (1, P_PMGR_ACTIVE_PENDING);
                      (1, P_DONE); (1, P_PMGR_ACTIVE); (1, P_FAILED)]
  = ([(1, P_DONE)],
     [(1, P_PMGR_LAUNCHING_PENDING); (1, P_PMGR_LAUNCHING); (1, P_PMGR_ACTIVE_PENDING);
      (1, P_PMGR_ACTIVE_PENDING); (1, P_PMGR_ACTIVE); (1, P_DONE)],
     [ValueError]).
Proof. vm_compute. reflexivity. Qed.

(* ---------------- part b: the final state tells why the pilot ended ---------------- *)

(* For every sequence of lifetime checks, cancel requests and terminate
   commands handled by the agent, the state written at shutdown is the
   declarative reading `spec_final` (AgentCause/Model.v). *)
Theorem C14_final_state_spec : forall es : list aev, agent_final es = spec_final es.
Proof. exact agent_final_spec. Qed.
Print Assumptions C14_final_state_spec.

(* ran until its requested run time (then stop()/terminate in any number): DONE *)
Theorem C14_timeout_done : forall a b : list aev,
  forallb (fun e => match e with Lifetime true true | CancelPilots true => false | _ => true end) b = true ->
  agent_final (a ++ Lifetime true true :: b) = F_DONE.
Proof. exact timeout_then_stops_done. Qed.
Print Assumptions C14_timeout_done.

Theorem C14_cancel_canceled : forall a b : list aev,
  forallb (fun e => match e with Lifetime true true | CancelPilots true => false | _ => true end) b = true ->
  agent_final (a ++ CancelPilots true :: b) = F_CANCELED.
Proof. exact cancel_then_stops_canceled. Qed.
Print Assumptions C14_cancel_canceled.

Theorem C14_otherwise_failed : forall es : list aev,
  forallb (fun e => negb (is_terminating e)) es = true -> agent_final es = F_FAILED.
Proof. exact no_cause_failed. Qed.
Print Assumptions C14_otherwise_failed.

Example C14_cause_nonvacuous :
  agent_final [Lifetime true false; CancelPilots false; Lifetime true true; Terminate] = F_DONE /\
  agent_final [CancelPilots true; Terminate] = F_CANCELED /\
  agent_final [Lifetime false true; CancelPilots false] = F_FAILED.
Proof. vm_compute. auto. Qed.

(* part c: the launching component of the pilot manager.  A bulk of pilots is
   sorted into buckets by (resource, access schema) and every bucket is launched
   on its own; the pilots of a bucket whose launch raises are advanced FAILED. *)
Module LaunchSide.
Import PilotLaunch.Model PilotLaunch.Proofs PilotLaunch.Oracle.

(* For every bulk (pilot uids distinct), every set of cancel requests seen
   before and every choice of buckets whose launch fails: a pilot of the bulk
   is told exactly CANCELED (a cancel request was seen), or PMGR_LAUNCHING and
   then PMGR_ACTIVE_PENDING or FAILED -- decided by ITS OWN bucket alone. *)
Theorem C14_launch_per_pilot :
  forall (cancelled : list Z) (fails : Z -> Z -> bool) (ps : list lp) (p : lp),
    NoDup (uids ps) -> In p ps ->
    proj (lp_uid p) (work cancelled fails ps) =
      if zmem (lp_uid p) cancelled then [LCanceled]
      else [LLaunching; bucket_state fails (lp_res p) (lp_sch p)].
Proof. exact work_per_pilot. Qed.
Print Assumptions C14_launch_per_pilot.

Theorem C14_launch_failed_iff_own_bucket :
  forall (cancelled : list Z) (fails : Z -> Z -> bool) (ps : list lp) (p : lp),
    NoDup (uids ps) -> In p ps ->
    (In LFailed (proj (lp_uid p) (work cancelled fails ps)) <->
     zmem (lp_uid p) cancelled = false /\ fails (lp_res p) (lp_sch p) = true).
Proof. exact failed_iff_own_bucket. Qed.
Print Assumptions C14_launch_failed_iff_own_bucket.

(* the failure of another bucket of the bulk changes nothing for a pilot *)
Theorem C14_launch_independent_of_other_buckets :
  forall (cancelled : list Z) (f1 f2 : Z -> Z -> bool) (ps : list lp) (p : lp),
    NoDup (uids ps) -> In p ps -> f1 (lp_res p) (lp_sch p) = f2 (lp_res p) (lp_sch p) ->
    proj (lp_uid p) (work cancelled f1 ps) = proj (lp_uid p) (work cancelled f2 ps).
Proof. exact independent_of_other_buckets. Qed.
Print Assumptions C14_launch_independent_of_other_buckets.

Example C14_launch_nonvacuous :
  let ps := [mkLP 1 10 0; mkLP 2 11 0; mkLP 3 10 1; mkLP 4 10 0; mkLP 5 11 0] in
  work [4] (fails_of [(11, 0)]) ps =
    [([4], LCanceled); ([1; 2; 3; 5], LLaunching);
     ([1], LActivePending); ([3], LActivePending); ([2; 5], LFailed)]
  /\ NoDup (uids ps).
Proof. split; [vm_compute; reflexivity|]. repeat constructor; simpl; intuition discriminate. Qed.
End LaunchSide.

