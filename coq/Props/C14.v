(* C14 (part a) -- pilot states move forward.  Statements only. *)
From Coq Require Import ZArith List Bool.
From RP Require Import Gen.StatesTables States.Model States.Proofs States.Inst.
Import ListNotations.
Open Scope Z_scope.

Notation ppchain := (pchain pstate_beq P_DONE P_FAILED P_CANCELED pvalue).

Theorem C14_tables_wf : wf pstate_beq P_DONE P_FAILED P_CANCELED pvalue pinv ptop.
Proof. exact p_wf. Qed.
Print Assumptions C14_tables_wf.

(* For every sequence of notifications and every known pilot: the states
   its callbacks see form a chain in which every step either repeats the
   current state or leaves a non-final state for the next state of the model
   or FAILED/CANCELED; Pilot.state is the end of that chain. *)
Theorem C14_observed_progression :
  forall (ns : list (Z * pstate)) (t : tasks) (p : Z) (cur : pstate),
    lookup p t = Some cur ->
    ppchain cur (proj p (snd (fst (p_run t ns)))) /\
    lookup p (fst (fst (p_run t ns))) =
      Some (last_of cur (proj p (snd (fst (p_run t ns))))).
Proof. exact (pilot_history_chain _ _ _ _ _ _ _ p_wf). Qed.
Print Assumptions C14_observed_progression.

(* a step never goes back, and never leaves a final state *)
Theorem C14_never_back :
  forall p s : pstate,
    pstep_ok pstate_beq P_DONE P_FAILED P_CANCELED pvalue p s -> pvalue p <= pvalue s.
Proof. exact (pstep_le _ _ _ _ _ _ _ p_wf). Qed.
Print Assumptions C14_never_back.

Theorem C14_final_never_left :
  forall p s : pstate,
    pstep_ok pstate_beq P_DONE P_FAILED P_CANCELED pvalue p s -> p_is_final p = true -> s = p.
Proof. exact (pstep_final _ _ _ _ _). Qed.
Print Assumptions C14_final_never_left.

Theorem C14_unknown_ignored :
  forall (ns : list (Z * pstate)) (t : tasks) (p : Z),
    lookup p t = None ->
    proj p (snd (fst (p_run t ns))) = [] /\ lookup p (fst (fst (p_run t ns))) = None.
Proof. exact (pilot_unknown_ignored _ _ _ _ _ _ _ p_wf). Qed.
Print Assumptions C14_unknown_ignored.

Theorem C14_oracle_sound :
  forall (ns : list pstate) (p : pstate),
    pchainb pstate_beq P_DONE P_FAILED P_CANCELED pvalue p ns = true <-> ppchain p ns.
Proof. exact (pchainb_spec _ _ _ _ _ _ _ p_wf). Qed.
Print Assumptions C14_oracle_sound.

Example C14_nonvacuous :
  p_run [(1, P_NEW)] [(1, P_PMGR_ACTIVE_PENDING); (7, P_DONE); (1, P_PMGR_ACTIVE_PENDING);
                      (1, P_DONE); (1, P_PMGR_ACTIVE); (1, P_FAILED)]
  = ([(1, P_DONE)],
     [(1, P_PMGR_LAUNCHING_PENDING); (1, P_PMGR_LAUNCHING); (1, P_PMGR_ACTIVE_PENDING);
      (1, P_PMGR_ACTIVE_PENDING); (1, P_PMGR_ACTIVE); (1, P_DONE)],
     [ValueError]).
Proof. vm_compute. reflexivity. Qed.
