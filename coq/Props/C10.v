(* C10 -- the generated task scripts run what the user described.
   Statements only; every proof is `exact <lemma>`.

   Quote.Model : radical.utils.sh_quote as used by LaunchMethod.get_exec, and
                 bash's word parsing for the emitted fragment (bash_words).
   Script.Model: the exec / launch scripts as abstract programs generated from a
                 task description (exec_prog, launch_prog) and their semantics
                 (step, run); Script.Oracle: the clauses okr_* that the harness
                 evaluates on what real bash did with the real scripts.

   A rank's run: `run rc ep s0` where ep = exec_prog c l t, started in a state
   s0 that has not exited, has an empty trace, and is `ready` (Fork: rank 0;
   stand-in MPI launcher: VERIF_RANK = the rank).  wfb = the inputs the quoting
   promises to handle: plain command word, arguments without $ ` NUL, no
   RP_RANK among the exported names; disjoint_ids = pre and post commands are
   distinguishable in a trace. *)
From Coq Require Import ZArith List Bool String.
From Coq Require Import Permutation.
From RP Require Import Common.ZRange Quote.Model Quote.Proofs Script.Model Script.Oracle Script.Proofs Script.Barrier.
Import ListNotations.
Open Scope Z_scope.

(* ---- quoting ------------------------------------------------------------------------------- *)
(* Every argument list whose members contain no `$`, backtick, NUL byte -- blanks, both
   quote kinds, globs, backslashes, newlines, empty strings, any other byte incl. UTF-8 --
   comes back from bash exactly, as separate words, after the command word.
   Excluded set = exactly what sh_quote leaves to the shell ($ and backtick) and NUL. *)
Theorem C10_argv_roundtrip :
  forall (e : envmap) (exe : bytes) (args : list bytes),
    plain_word exe = true -> forallb safe args = true ->
    bash_words e (get_exec exe args) = Some (exe :: args).
Proof. exact argv_roundtrip_lemma. Qed.
Print Assumptions C10_argv_roundtrip.

(* the excluded bytes are really not preserved: $HOME is expanded by the shell *)
Theorem C10_argv_roundtrip_dollar_refuted :
  exists a, bash_words [] (get_exec (B "x") [a]) <> Some [B "x"; a].
Proof. exact argv_dollar_refuted. Qed.
Print Assumptions C10_argv_roundtrip_dollar_refuted.

(* `export K=<sh_quote v>` (the fixed _get_task_env) is the words `export` and `K=v` *)
Theorem C10_env_roundtrip :
  forall (e : envmap) (k v : bytes),
    plain_word k = true -> safe v = true ->
    bash_words e (B "export" ++ [c_sp] ++ k ++ [61] ++ sh_quote v) = Some [B "export"; k ++ [61] ++ v].
Proof. exact env_roundtrip_lemma. Qed.
Print Assumptions C10_env_roundtrip.

(* a quoted value / redirection target is one word, unchanged *)
Theorem C10_quoted_word_roundtrip :
  forall (e : envmap) (v : bytes), safe v = true -> bash_word e (sh_quote v) = Some v.
Proof. exact quoted_word_roundtrip. Qed.
Print Assumptions C10_quoted_word_roundtrip.

(* ---- one rank's run of the exec script ---------------------------------------------------------- *)
(* The trace of external commands is: profiler/control calls, then the pre_exec commands that
   apply to this rank in the described order up to the first failure; only if none failed: the
   executable, then the post_exec commands of this rank up to the first failure.  The exit status
   is the executable's unless a pre/post command failed (then 1).  The executable gets the
   described command word and arguments and runs in the directory the script was started in. *)
Theorem C10_rank_run :
  forall c l t rc r s0 ep,
    wfb c t = true -> exec_prog c l t = inr ep ->
    s_exit s0 = None -> s_tr s0 = [] -> s_probe s0 = None -> ready l r s0 -> 0 <= r < t_ranks t ->
    let pre := stubs (per_rank_cmds (ext_pre c t) r) in
    let post := stubs (per_rank_cmds (t_post t) r) in
    let s' := run rc ep s0 in
    exists qA, forallb quiet_ev qA = true /\
      s_tr s' = qA ++ map ECmd (until_fail pre)
                ++ (if all_ok pre
                    then ev_exec ++ map ECmd (until_fail post)
                         ++ (if all_ok post then [EProf (B "exec_stop")] else [])
                    else []) /\
      s_exit s' = Some (if all_ok pre then if all_ok post then rc else 1 else 1) /\
      (if all_ok pre
       then exists e, s_probe s' = Some (t_exe t :: t_args t, s_cwd s0, e)
       else s_probe s' = None).
Proof. exact rank_spec. Qed.
Print Assumptions C10_rank_run.

(* the same facts as the oracle clauses the harness evaluates on implementation traces *)
Theorem C10_pre_before_post_after :
  forall c l t rcs r s0 ep,
    wfb c t = true -> disjoint_ids c t = true -> exec_prog c l t = inr ep ->
    s_exit s0 = None -> s_tr s0 = [] -> s_probe s0 = None -> ready l r s0 -> 0 <= r < t_ranks t ->
    okr_order c t r (robs_of (run (nth_rc rcs r) ep s0)) = true.
Proof. exact rank_okr_order. Qed.
Print Assumptions C10_pre_before_post_after.

Theorem C10_per_rank_only_on_rank :
  forall c l t rcs r s0 ep,
    wfb c t = true -> disjoint_ids c t = true -> exec_prog c l t = inr ep ->
    s_exit s0 = None -> s_tr s0 = [] -> s_probe s0 = None -> ready l r s0 -> 0 <= r < t_ranks t ->
    okr_per_rank c t r (robs_of (run (nth_rc rcs r) ep s0)) = true.
Proof. exact rank_okr_per_rank. Qed.
Print Assumptions C10_per_rank_only_on_rank.

Theorem C10_failing_pre_blocks_exec :
  forall c l t rcs r s0 ep,
    wfb c t = true -> exec_prog c l t = inr ep ->
    s_exit s0 = None -> s_tr s0 = [] -> s_probe s0 = None -> ready l r s0 -> 0 <= r < t_ranks t ->
    launched t = true ->
    okr_pre_blocks c t r (robs_of (run (nth_rc rcs r) ep s0)) = true.
Proof. exact rank_okr_pre_blocks. Qed.
Print Assumptions C10_failing_pre_blocks_exec.

Theorem C10_exit_code_rule :
  forall c l t rcs r s0 ep,
    wfb c t = true -> exec_prog c l t = inr ep ->
    s_exit s0 = None -> s_tr s0 = [] -> s_probe s0 = None -> ready l r s0 -> 0 <= r < t_ranks t ->
    exit_code (run (nth_rc rcs r) ep s0) = want_rank_rc c t rcs r /\
    okr_rc c t rcs r (robs_of (run (nth_rc rcs r) ep s0)) = true.
Proof. exact exit_code_rule_lemma. Qed.
Print Assumptions C10_exit_code_rule.

Theorem C10_argv_exact :
  forall c l t rcs r s0 ep,
    wfb c t = true -> exec_prog c l t = inr ep ->
    s_exit s0 = None -> s_tr s0 = [] -> s_probe s0 = None -> ready l r s0 -> 0 <= r < t_ranks t ->
    okr_argv t r (robs_of (run (nth_rc rcs r) ep s0)) = true.
Proof. exact rank_okr_argv. Qed.
Print Assumptions C10_argv_exact.

Theorem C10_executable_runs :
  forall c l t rcs r s0 ep,
    wfb c t = true -> exec_prog c l t = inr ep ->
    s_exit s0 = None -> s_tr s0 = [] -> s_probe s0 = None -> ready l r s0 -> 0 <= r < t_ranks t ->
    okr_runs c t r (robs_of (run (nth_rc rcs r) ep s0)) = true.
Proof. exact rank_okr_runs. Qed.
Print Assumptions C10_executable_runs.

(* ---- RP_* variables (PARTIAL) --------------------------------------------------------------------- *)
(* Proved: both scripts contain, for every identity variable, the statement
   export NAME=''<value>'' with the task's / pilot's value, the count, address and
   task-sandbox exports; and such a literal is read back unchanged by bash when it has no
   double quote, backslash, $, backtick, NUL.  NOT proved (checked only by the correspondence
   and by the oracle clause rp_env_complete on every generated case): that no later statement
   of the script overrides them, the values of the sandbox variables after expansion, RP_RANK /
   RP_RANKS in the executable's environment. *)
Theorem C10_rp_env_complete_partial :
  forall c l t ep, exec_prog c l t = inr ep ->
    (forall kv, In kv (rp_ids c t) ->
       In (SExportQ (fst kv) (dq (snd kv))) ep /\ In (SExportQ (fst kv) (dq (snd kv))) (launch_prog c l t)) /\
    (forall e v, literal v = true -> bash_word e (dq v) = Some v) /\
    In (SExportQ (B "RP_CORES_PER_RANK") (dec (t_cpr t))) ep /\
    In (SExportQ (B "RP_GPUS_PER_RANK") (fmt_gpr (t_gpr_q t))) ep /\
    In (SExportQ (B "RP_CONTROL_PUB_ADDRESS") (c_pub c)) ep /\
    In (SExportQ (B "RP_CONTROL_SUB_ADDRESS") (c_sub c)) ep /\
    In (SExportQ (B "RP_TASK_SANDBOX") (dq (tsbox_text t))) ep.
Proof. exact rp_env_complete_partial_lemma. Qed.
Print Assumptions C10_rp_env_complete_partial.

(* ---- the rank synchronisation (pre_exec_sync): every script terminates ------------------------------- *)
(* rp_sync_ranks as written: the marker file gets one line per arriving rank (Arrive r), an arrived rank
   polls until the file has RP_RANKS = n lines (Poll r), nobody removes the file.  A schedule is ANY
   sequence of these events of the concurrently running ranks; brun n sched b0 is the state after it. *)

(* the marker file is exactly the sequence of arrivals: it never shrinks *)
Theorem C10_barrier_file_only_grows :
  forall (n : nat) sched s, b_file (brun n sched s) = b_file s ++ arrivals sched.
Proof. exact barrier_file_lemma. Qed.
Print Assumptions C10_barrier_file_only_grows.

(* none passes before all have arrived: at every moment, a rank that has left the synchronisation has
   arrived and n lines are in the file ... *)
Theorem C10_barrier_none_passes_early :
  forall (n : nat) sched r,
    In r (b_passed (brun n sched b0)) ->
    In r (arrivals sched) /\ (n <= List.length (arrivals sched))%nat.
Proof. exact barrier_none_early_lemma. Qed.
Print Assumptions C10_barrier_none_passes_early.

(* ... so, when each of the ranks 0..n-1 arrives at most once, every rank has arrived by then *)
Theorem C10_barrier_all_arrived_before_any_passes :
  forall (n : nat) sched r,
    NoDup (arrivals sched) -> (forall x, In x (arrivals sched) -> In x (zrange n)) ->
    In r (b_passed (brun n sched b0)) ->
    forall k, In k (zrange n) -> In k (arrivals sched).
Proof. exact barrier_all_arrived_lemma. Qed.
Print Assumptions C10_barrier_all_arrived_before_any_passes.

(* no rank waits for ever: once n lines are there, after anything else that may happen (later), the next
   poll of an arrived rank lets it pass *)
Theorem C10_barrier_no_rank_waits_for_ever :
  forall (n : nat) sched later r,
    (n <= List.length (arrivals sched))%nat -> In r (arrivals sched) ->
    In r (b_passed (brun n (sched ++ later ++ [Poll r]) b0)).
Proof. exact barrier_next_poll_passes_lemma. Qed.
Print Assumptions C10_barrier_no_rank_waits_for_ever.

(* for EVERY arrival order (any permutation of the ranks) and any interleaving of polls: one more poll
   of each rank and all n ranks have passed *)
Theorem C10_barrier_every_arrival_order :
  forall (n : nat) order sched,
    Permutation order (zrange n) -> arrivals sched = order ->
    forall r, In r (zrange n) -> In r (b_passed (brun n (sched ++ map Poll (zrange n)) b0)).
Proof. exact barrier_every_order_lemma. Qed.
Print Assumptions C10_barrier_every_arrival_order.

(* the theorems depend on "nobody removes the marker": in the variant where rank 0 removes it when it
   leaves, rank 1 (arrived first) never passes, however often it polls *)
Theorem C10_barrier_with_removal_refuted :
  forall k, ~ In 1 (b_passed (brun_rm 2 ([Arrive 1; Poll 1; Arrive 0; Poll 0] ++ repeat (Poll 1) k) b0)).
Proof. exact barrier_with_removal_blocks_lemma. Qed.
Print Assumptions C10_barrier_with_removal_refuted.

(* ---- non-vacuity: a concrete two-rank task with hostile arguments, a per-rank pre_exec entry,
   a failing post_exec on rank 1; the whole model run (launch + both ranks) satisfies every clause *)
Definition nv_cfg : cfg :=
  mkCfg (B "pilot.0000") (B "sess.c10") (B "local.verif") (B "/R/rs")
        (B "$RP_RESOURCE_SANDBOX/$RP_SESSION_ID/") (B "$RP_SESSION_SANDBOX/pilot.0000")
        (B "tcp://10.0.0.1:10001") (B "tcp://10.0.0.1:10002") (B "tcp://10.0.0.1:10003")
        (B "/R/bin/radical-pilot-control") false [] [(B "VERIF_LM_ENV", B "fork")]
        (B "/R/rs/sess.c10/pilot.0000").
Definition nv_task : task :=
  mkTask (B "task.000000") None (B "probe") [B "a b"; []; [120; 34; 121]; [92]; [42]; [10]]
         [(B "FOO", [34; 104; 105; 34])] 2 2 4 true true false [[0]; [1]]
         [EAll (CStub 1 0); EPer [(1, [CStub 2 0])]] [EPer [(1, [CStub 3 7])]; EAll (CStub 4 0)] true
         [CStub 5 0] [] (Some (B "my out.txt")) None true.

Example C10_nonvacuous :
  wfb nv_cfg nv_task = true /\ disjoint_ids nv_cfg nv_task = true /\
  match model_run nv_cfg nv_task [0; 3] with
  | inr L => unmodelled L = false
             /\ forallb (fun b => b) (clauses nv_cfg nv_task [0; 3] (mobs_of nv_cfg nv_task L)) = true
             /\ map (fun s => s_tr s) (l_ranks L)
                = [ [ECtrl; EProf (B "exec_start"); EProf (B "exec_pre"); ECmd 1;
                     EProf (B "rank_start"); EExec; EProf (B "rank_stop"); EProf (B "exec_post"); ECmd 4;
                     EProf (B "exec_stop")];
                    [EProf (B "exec_start"); EProf (B "exec_pre"); ECmd 1; ECmd 2;
                     EProf (B "rank_start"); EExec; EProf (B "rank_stop"); EProf (B "exec_post"); ECmd 3] ]
             /\ map exit_code (l_ranks L) = [0; 1]
  | inl _ => False
  end.
Proof. vm_compute. repeat split; reflexivity. Qed.
