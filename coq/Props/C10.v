(* C10 -- the generated task scripts run what the user described. *)
From Coq Require Import ZArith List Bool.
From RP Require Import Quote.Model Quote.Proofs.
Import ListNotations.
Open Scope Z_scope.

Theorem C10_placeholder : forall a, bytes_eqb a a = true.
Proof. exact bytes_eqb_refl. Qed.
Print Assumptions C10_placeholder.
