(* C07 -- the executor finishes each task exactly once.
   Statements only; every proof is `exact <lemma>`.

   Model: RP.Exec.Model -- the Popen executor as four interleaved thread
   programs (intake I, control/cancel handler C, process watcher W, timeout
   watcher T) plus the environment step X "a process exits"; one step = one
   lock-protected region or one statement touching self._tasks / task['proc'] /
   the process table / the cancel list / the queues, or one advance()/publish().
   `run (init sc) sched` executes ANY schedule (list of thread choices) on ANY
   scenario (batches of task descriptions with a launch-fault point, a
   run-time limit and a `d_stub` flag each, and cancel messages).  A process
   with d_stub outlives the kill: the thread that runs cancel_task then has no
   step (it sits in proc.wait()) until the process exits by itself (step X).  `emissions tr` is the sequence
   of advance()/publish(AGENT_UNSCHEDULE_PUBSUB) calls; n_adv st u counts the
   advance calls to state st that list uid u, n_uns u the unschedule
   publications listing u, n_hand u = staged + FAILED + CANCELED advances.

   Proof method: every global step, seen from one uid, is invisible or a move
   of a finite local transition system (Exec.ProjProofs: induction over the
   schedule, any number of tasks, under the invariant Exec.Proj.wf); the
   reachable set of that system (113k states) is computed and checked closed
   and safe by the kernel (Exec.LocalProofs, vm_compute over a genuinely
   finite domain: Local.lstate with counters saturating at 2). *)
From Coq Require Import ZArith List Bool.
From RP Require Import Exec.Model Exec.Oracle Exec.Local Exec.LocalProofs Exec.Proj Exec.Proofs Exec.ExamProofs Exec.PollProofs Exec.HandlerProofs Exec.KillProofs.
Import ListNotations.
Open Scope Z_scope.

(* Under fair completion (the run has reached quiescence: intake and control
   thread done, no pending timeouts, the watcher's list and queue empty --
   which requires every spawned process to have exited) and for pairwise
   distinct delivered uids, for EVERY schedule and EVERY delivered uid:
   the task was announced AGENT_EXECUTING exactly once (or, canceled by the
   intake filter, advanced CANCELED exactly once and never announced), handed
   on exactly once (pushed to output staging, or advanced FAILED/CANCELED),
   its resources were released exactly once, and it is not left behind in
   self._tasks. *)
Theorem C07_exactly_once :
  forall (sc : scenario) (sched : list choice) (s : state) (tr : list stepobs) (u : Z),
    NoDup (delivered sc) -> In u (delivered sc) -> run (init sc) sched = (s, tr) -> quiescent s = true ->
    let ems := emissions tr in
    (n_adv SExecuting u ems = 1 /\ n_adv SCanceled u ems = 0 \/ n_adv SExecuting u ems = 0 /\ n_adv SCanceled u ems = 1)%nat /\
    n_hand u ems = 1%nat /\ n_uns u ems = 1%nat /\ tasks s u = false.
Proof. exact exactly_once. Qed.
Print Assumptions C07_exactly_once.

(* At ANY point of ANY schedule (no fairness needed): nothing has happened
   twice, a task is never both collected (staged with an exit code) and
   canceled, and nothing is handed on that was not announced before. *)
Theorem C07_never_twice :
  forall (sc : scenario) (sched : list choice) (s : state) (tr : list stepobs) (u : Z),
    NoDup (delivered sc) -> In u (delivered sc) -> run (init sc) sched = (s, tr) ->
    let ems := emissions tr in
    (n_adv SExecuting u ems <= 1)%nat /\ (n_hand u ems <= 1)%nat /\ (n_uns u ems <= 1)%nat /\
    ~ (0 < n_collected u ems /\ 0 < n_canceled u ems)%nat /\
    ((0 < n_adv SStaging u ems + n_adv SFailed u ems)%nat -> n_adv SExecuting u ems = 1%nat).
Proof. exact at_most_once. Qed.
Print Assumptions C07_never_twice.

(* the same, as the boolean oracle clauses which the harness evaluates on the
   traces of the real code *)
Theorem C07_oracle_clauses_hold_in_model :
  forall (sc : scenario) (sched : list choice) (s : state) (tr : list stepobs),
    NoDup (delivered sc) -> run (init sc) sched = (s, tr) ->
    let dl := delivered sc in let q := quiescent s in let ems := emissions tr in
    ok_announced dl q ems = true /\ ok_handed_on dl q ems = true /\ ok_unscheduled dl q ems = true /\
    ok_not_both dl ems = true.
Proof. exact model_clauses. Qed.
Print Assumptions C07_oracle_clauses_hold_in_model.

(* a named task that was launched has been examined for cancellation after it
   entered self._tasks (clause named_examined_after_launch; see Props/C08.v) *)
Theorem C07_named_examined_clause_holds_in_model :
  forall (sc : scenario) (sched : list choice) (s : state) (tr : list stepobs),
    NoDup (delivered sc) -> run (init sc) sched = (s, tr) -> ok_named_examined sc tr (quiescent s) = true.
Proof. exact model_named_examined. Qed.
Print Assumptions C07_named_examined_clause_holds_in_model.

(* a task is handed on as CANCELED only by a cancel_task whose poll saw the
   process running (clause canceled_only_if_running_when_polled; see Props/C08.v) *)
Theorem C07_cancel_polled_clause_holds_in_model :
  forall (sc : scenario) (sched : list choice) (s : state) (tr : list stepobs),
    run (init sc) sched = (s, tr) -> ok_cancel_polled (delivered sc) tr = true.
Proof. exact model_cancel_polled. Qed.
Print Assumptions C07_cancel_polled_clause_holds_in_model.

(* the cancel handler looks up every uid of every request (clause
   handler_examines_every_named_uid; see Props/C08.v) *)
Theorem C07_handler_covers_clause_holds_in_model :
  forall (sc : scenario) (sched : list choice) (s : state) (tr : list stepobs),
    run (init sc) sched = (s, tr) -> ok_handler_covers sc tr (quiescent s) = true.
Proof. exact model_handler_covers. Qed.
Print Assumptions C07_handler_covers_clause_holds_in_model.

(* the kill reaches the running process, cancel_task does not wait for a natural
   end, bystanders and the executor's own process group are not signalled
   (clauses kill_reaches_running_process, cancel_does_not_wait_for_natural_end,
   bystanders_not_signalled; see Props/C08.v) *)
Theorem C07_kill_clauses_hold_in_model :
  forall (sc : scenario) (sched : list choice) (s : state) (tr : list stepobs),
    run (init sc) sched = (s, tr) ->
    ok_kill_reaches (delivered sc) tr = true /\ ok_no_natural_wait (delivered sc) tr = true.
Proof. exact model_kill_reaches. Qed.
Print Assumptions C07_kill_clauses_hold_in_model.

Theorem C07_not_signalled_clause_holds_in_model :
  forall (sc : scenario) (sched : list choice) (s : state) (tr : list stepobs),
    NoDup (delivered sc) -> run (init sc) sched = (s, tr) -> ok_not_signalled sc tr = true.
Proof. exact model_not_signalled. Qed.
Print Assumptions C07_not_signalled_clause_holds_in_model.

(* the ownership argument: every run stays, for every delivered uid, inside the
   kernel-checked set of local states on which `Local.safe` holds (whoever
   removes the uid from self._tasks -- watcher, a cancel_task, or the error
   path of work() -- is the only one to finish it) *)
Theorem C07_ownership_invariant :
  forall (sc : scenario) (sched : list choice) (s : state) (tr : list stepobs) (u : Z),
    NoDup (delivered sc) -> In u (delivered sc) -> run (init sc) sched = (s, tr) ->
    safe (view (kof sc u) u s tr) = true.
Proof. exact run_safe. Qed.
Print Assumptions C07_ownership_invariant.

(* the finite part: the local transition system never leaves the safe states *)
Theorem C07_local_system_safe :
  forall (k : lconst) (v : lstate), lreach k v -> safe v = true.
Proof. exact lreach_safe. Qed.
Print Assumptions C07_local_system_safe.

(* non-vacuity: two tasks (one with a run-time limit, one whose launch fails
   after the spawn), a cancel request naming both, timeout and cancel racing
   with the intake and with the exit of process 1; the run reaches quiescence, task 1 is staged as
   CANCELED once, task 2 is FAILED once, each released once *)
Example C07_nonvacuous :
  let sc := mkSc [[mkTd 1 FNone true false; mkTd 2 FAfterSpawn false false]] [[2; 1]] in
  let sched := [CI; CI; CI; CI; CC; CI; CI; CI; CT; CC; CC; CT; CT; CC; CX 1 3; CW; CW; CW; CT; CW; CC; CT; CW; CW; CC; CC;
                CI; CI; CI; CI; CI; CI; CI; CI; CI; CT; CT; CT; CT; CT; CT; CX 2 0; CW; CW; CW] in
  let '(s, tr) := run (init sc) sched in
  quiescent s = true /\
  filter (fun e => match e with EUns [] => false | _ => true end) (emissions tr) =
    [EAdv SExecuting [(1, None, TgNone); (2, None, TgNone)] false;
     EUns [2]; EAdv SFailed [(2, None, TgNone)] false;
     EUns [1]; EAdv SStaging [(1, None, TgCanceled)] true] /\
  world s 1 = PExited 3.   (* it exited just before the kill: the kill was a lost race *)
Proof. vm_compute. repeat split. Qed.
