(* C07 -- placeholder while the harness is brought up *)
From Coq Require Import ZArith List Bool.
From RP Require Import Exec.Model Exec.Oracle.
Import ListNotations.
