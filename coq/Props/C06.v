(* C06 -- applications observe the linear task state model.
   Statements only; every proof is `exact <lemma>`.  The model is
   RP.States.Model instantiated (RP.States.Inst) with the tables generated
   from states.py. *)
From Coq Require Import ZArith List Bool.
From RP Require Import Gen.StatesTables States.Model States.Proofs States.Inst.
From RP Require States.DeathRace.
Import ListNotations.
Open Scope Z_scope.

Notation tchain := (chain tstate_beq T_DONE T_FAILED T_CANCELED tvalue).

(* the generated tables are well-formed (re-checked whenever states.py changes) *)
Theorem C06_tables_wf : wf tstate_beq T_DONE T_FAILED T_CANCELED tvalue tinv ttop.
Proof. exact t_wf. Qed.
Print Assumptions C06_tables_wf.

(* For every history of notification batches and every known task: the
   states delivered to callbacks form a chain from the task's initial state
   (each step leaves a non-final state and is either the next state of the
   model or FAILED/CANCELED), and Task.state is the end of that chain. *)
Theorem C06_observed_progression :
  forall (bs : list (list (Z * tstate))) (t : tasks) (u : Z) (cur : tstate),
    lookup u t = Some cur ->
    tchain cur (proj u (snd (t_run_cbs t bs))) /\
    lookup u (fst (t_run_cbs t bs)) = Some (last_of cur (proj u (snd (t_run_cbs t bs)))).
Proof. exact (history_chain _ _ _ _ _ _ _ t_wf). Qed.
Print Assumptions C06_observed_progression.

(* a chain announces every state at most once (and never the starting one) *)
Theorem C06_each_state_once :
  forall (ns : list tstate) (p : tstate), tchain p ns -> NoDup (p :: ns).
Proof. exact (chain_NoDup _ _ _ _ _ _ _ t_wf). Qed.
Print Assumptions C06_each_state_once.

(* nothing is observed after a final state: final states are sticky *)
Theorem C06_final_sticky :
  forall (p : tstate) (a ns b : list tstate),
    tchain p ns -> ns = a ++ b -> t_is_final (last_of p a) = true -> b = [].
Proof. exact (chain_after_final _ _ _ _ _). Qed.
Print Assumptions C06_final_sticky.

(* no batch ever raises, whatever it contains *)
Theorem C06_no_exception :
  forall (t : tasks) (b : list (Z * tstate)), snd (t_update_batch t b) = None.
Proof. exact (history_no_exception _ _ _ _ _ _ _ t_wf). Qed.
Print Assumptions C06_no_exception.

(* isolation: what is observed for task u is what would be observed if all
   notifications for other tasks were removed from every batch *)
Theorem C06_isolation :
  forall (bs : list (list (Z * tstate))) (t : tasks) (u : Z) (cur : tstate),
    lookup u t = Some cur ->
    proj u (snd (t_run_cbs t bs)) =
    proj u (snd (t_run_cbs [(u, cur)] (map (only u) bs))).
Proof. exact (history_isolation _ _ _ _ _ _ _ t_wf). Qed.
Print Assumptions C06_isolation.

(* the boolean oracle applied to implementation traces is this proposition *)
Theorem C06_oracle_sound :
  forall (ns : list tstate) (p : tstate),
    chainb tstate_beq T_DONE T_FAILED T_CANCELED tvalue p ns = true <-> tchain p ns.
Proof. exact (chainb_spec _ _ _ _ _). Qed.
Print Assumptions C06_oracle_sound.

(* non-vacuity: a concrete history with a gap, a duplicate, a contradictory
   final state and an unknown uid *)
Example C06_nonvacuous :
  t_run_cbs [(1, T_NEW); (2, T_AGENT_EXECUTING)]
            [[(1, T_TMGR_SCHEDULING); (2, T_DONE); (9, T_DONE)];
             [(2, T_FAILED); (1, T_TMGR_SCHEDULING); (1, T_CANCELED)]]
  = ([(1, T_CANCELED); (2, T_DONE)],
     [(1, T_TMGR_SCHEDULING_PENDING); (1, T_TMGR_SCHEDULING);
      (2, T_AGENT_STAGING_OUTPUT_PENDING); (2, T_AGENT_STAGING_OUTPUT);
      (2, T_TMGR_STAGING_OUTPUT_PENDING); (2, T_TMGR_STAGING_OUTPUT); (2, T_DONE);
      (1, T_CANCELED)]).
Proof. vm_compute. reflexivity. Qed.

(* the other thread that changes task states on the client: when a pilot dies,
   the pilot manager's callback thread fails its tasks (TaskManager._pilot_state_cb)
   while the state subscriber may be handling a notification for the same task.
   Both run under the tasks lock; in either order at most one final state is
   announced and it is the state the Task object ends in (every pair of task
   states) -- the application never sees DONE and FAILED for one task. *)
Module RaceSide.
Import RP.States.DeathRace.
Theorem C06_one_final_state_under_pilot_death :
  forall cur tgt : tstate,
    one_final (order_ud cur tgt) = true /\ one_final (order_du cur tgt) = true.
Proof. exact death_race_one_final. Qed.
Print Assumptions C06_one_final_state_under_pilot_death.
End RaceSide.
