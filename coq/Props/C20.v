(* C20 -- raptor workers and masters account for every request.
   Statements only; every proof is `exact <lemma>`.  Model: RP.Raptor.Model
   (DefaultWorker._alloc/_dealloc/_request_cb/_result_cb, Master._result_cb/
   _request_cb/_submit_tasks, Worker._dispatch_func etc.), oracle: RP.Raptor.Oracle. *)
From Coq Require Import ZArith List Bool Permutation.
From RP Require Import Raptor.Model Raptor.Oracle Raptor.Proofs Raptor.Race Raptor.RaceOracle Raptor.RaceProofs Raptor.Lin Raptor.LinProofs Raptor.Endings Raptor.EndingsOracle Raptor.EndingsProofs.
Import ListNotations.
Open Scope Z_scope.

(* A request stream: any list of operations -- batches of requests handed to
   _request_cb (with any choice of completions arriving while a request waits
   for resources, and process starts that may fail), completions / failures /
   time-outs of running requests in any order, and stale results -- in which
   every request asks for 1..nc cores and 0..ng GPUs (`op_in_bound`). *)

(* cores (GPUs) held by the requests that are running at the end of the stream *)
Notation cores_held st := (hc (w_pool st)).
Notation gpus_held st := (hg (w_pool st)).

(* No core and no GPU is held twice -- neither by two concurrently running
   requests nor twice by one -- and everything held is an index of the
   worker's own allotment.  (Every prefix of a stream is a stream, so this
   holds at every point of every history.) *)
Theorem C20_worker_disjoint :
  forall (nc ng : nat) (ops : list wop) (st : wst) (evs : list wev),
    Forall (op_in_bound nc ng) ops -> wrun (winit nc ng) ops = (st, evs) ->
    NoDup (cores_held st) /\ NoDup (gpus_held st) /\
    (forall k, In k (cores_held st) -> 0 <= k < Z.of_nat nc) /\
    (forall k, In k (gpus_held st) -> 0 <= k < Z.of_nat ng).
Proof. exact worker_disjoint. Qed.
Print Assumptions C20_worker_disjoint.

(* The worker's occupancy maps mark exactly what the running requests hold:
   whatever finished, failed, timed out or failed to start has given
   everything back, and nothing else is marked. *)
Theorem C20_worker_occupancy_exact :
  forall (nc ng : nat) (ops : list wop) (st : wst) (evs : list wev),
    Forall (op_in_bound nc ng) ops -> wrun (winit nc ng) ops = (st, evs) ->
    w_cb st = bm_of nc (cores_held st) /\ w_gb st = bm_of ng (gpus_held st).
Proof. exact worker_exact. Qed.
Print Assumptions C20_worker_occupancy_exact.

(* _dealloc undoes _alloc: releasing what was just taken restores the bitmap *)
Theorem C20_release_restores_bitmap :
  forall (bm : bitmap) (held : list Z) (want : Z) (bm' : bitmap) (l : list Z),
    binv bm held -> take want bm = (bm', l) -> release l bm' = (bm, None).
Proof. exact take_release. Qed.
Print Assumptions C20_release_restores_bitmap.

(* quiescent => all free *)
Theorem C20_quiescent_all_free :
  forall (nc ng : nat) (ops : list wop) (st : wst) (evs : list wev),
    Forall (op_in_bound nc ng) ops -> wrun (winit nc ng) ops = (st, evs) ->
    w_pool st = [] -> w_cb st = repeat false nc /\ w_gb st = repeat false ng.
Proof. exact worker_quiescent. Qed.
Print Assumptions C20_quiescent_all_free.

(* Within the demand bound no request thread raises or spins forever, and the
   result callback only ever rejects stale results (before freeing anything). *)
Theorem C20_worker_no_failure :
  forall (nc ng : nat) (ops : list wop) (st : wst) (evs : list wev),
    Forall (op_in_bound nc ng) ops -> wrun (winit nc ng) ops = (st, evs) ->
    Forall clean evs.
Proof. exact worker_no_failure. Qed.
Print Assumptions C20_worker_no_failure.

(* Every request handed to the worker is accounted for exactly once: the uids
   of the results put on the result queue together with the uids of the
   requests still running are a permutation of the uids requested. *)
Theorem C20_worker_each_request_once :
  forall (nc ng : nat) (ops : list wop) (st : wst) (evs : list wev),
    Forall (op_in_bound nc ng) ops -> wrun (winit nc ng) ops = (st, evs) ->
    Permutation (res_uids evs ++ map u_uid (w_pool st)) (map q_uid (requests_of ops)).
Proof. exact worker_each_once. Qed.
Print Assumptions C20_worker_each_request_once.

(* Master._result_cb: the target state is DONE iff the reported exit code is 0
   (absent / None counts as failure), FAILED otherwise; every task of the
   batch is advanced exactly once (one advance call over the whole batch). *)
Theorem C20_master_target_done_iff_exit_0 :
  forall (u : Z) (code : option Z), target_of (u, None, code) = TDone <-> code = Some 0.
Proof. exact target_done_iff. Qed.
Print Assumptions C20_master_target_done_iff_exit_0.

Theorem C20_master_target_failed_otherwise :
  forall (u : Z) (code : option Z), code <> Some 0 -> target_of (u, None, code) = TFailed.
Proof. exact target_failed_otherwise. Qed.
Print Assumptions C20_master_target_failed_otherwise.

Theorem C20_master_advances_batch_once :
  forall (sd : sdata) (ts : list rtask),
    snd (master_result sd ts) =
      [MAdvance (map (fun t => fst (fst t)) ts) S_STAGING_OUTPUT_PENDING true true] /\
    snd (fst (master_result sd ts)) = map (fun t => (fst (fst t), target_of t)) ts.
Proof. exact master_advances. Qed.
Print Assumptions C20_master_advances_batch_once.

(* Routing by mode: of a submitted batch (every task has a description) the
   executable tasks, and only they, go to the agent's execution path, all
   others, and only they, to the workers' request queue; together they are
   the batch. *)
Theorem C20_routing_by_mode :
  forall (ts : list itask) (evs : list mev),
    submit_tasks ts = inr evs ->
    agent_path evs = map i_uid (filter is_exec_task ts) /\
    worker_path evs = map i_uid (filter (fun t => negb (is_exec_task t)) ts) /\
    Permutation (agent_path evs ++ worker_path evs) (map i_uid ts).
Proof. exact routing_by_mode. Qed.
Print Assumptions C20_routing_by_mode.

(* ... and executable tasks arriving through _request_cb are flagged
   raptor_seen (so that the scheduler does not send them back), no others *)
Theorem C20_routing_marks_executables_seen :
  forall (ts : list itask),
    forallb (fun t : itask => snd (fst t) && match snd t with Some _ => true | None => false end) ts = true ->
    fst (master_request ts) = map i_uid (filter is_exec_task ts).
Proof. exact routing_seen. Qed.
Print Assumptions C20_routing_marks_executables_seen.

(* Dispatch truthfulness and isolation: for every sequence of requests and
   every payload (any list of prints, environment edits and look-ups, ending
   in a return or a raise), each request is answered exactly as specified by
   `expected` on the worker's ORIGINAL environment ... *)
Theorem C20_dispatch_truthful_and_isolated :
  forall (tenv : env) (rs : list dreq) (w0 : world),
    sync w0 -> map fst (drun tenv w0 rs) = map (expected tenv w0) rs.
Proof. exact dispatch_seq_truthful. Qed.
Print Assumptions C20_dispatch_truthful_and_isolated.

(* ... where `expected` reports exit code 0 exactly when the call succeeded,
   with the return value, the captured output, and the exception otherwise *)
Theorem C20_expected_is_truthful :
  forall (tenv : env) (w0 : world) (r : dreq),
    (d_ret (expected tenv w0 r) =? 0) = succeeded r /\
    (forall m denv acts v, r = (m, denv, mkPayload acts (FReturn v)) ->
       py_mode m ->
       d_val (expected tenv w0 r) = Some v /\ d_exc (expected tenv w0 r) = false
       /\ d_fail (expected tenv w0 r) = None) /\
    (forall m denv acts x, r = (m, denv, mkPayload acts (FRaise x)) ->
       py_mode m ->
       d_ret (expected tenv w0 r) = 1 /\ d_val (expected tenv w0 r) = None
       /\ d_exc (expected tenv w0 r) = true /\ d_fail (expected tenv w0 r) = Some x).
Proof. exact expected_truthful. Qed.
Print Assumptions C20_expected_is_truthful.

(* Dispatch restores: after every request of every sequence, os.environ, the
   process-level environment and the write-through binding are what they were
   before the first request. *)
Theorem C20_dispatch_restores_environment :
  forall (tenv : env) (rs : list dreq) (w0 : world),
    sync w0 -> Forall (fun x : dres * world => weq (snd x) w0) (drun tenv w0 rs).
Proof. exact dispatch_seq_restores. Qed.
Print Assumptions C20_dispatch_restores_environment.

(* The process wrapper DefaultWorker._dispatch reports exactly one result
   however the payload's process ends (return, raise, sys.exit/os._exit with
   any code, killed by a signal, time-out), with exit code 0 iff the payload
   returned, and an exception otherwise -- so that _result_cb runs, and the
   cores and GPUs are released, for every accepted request. *)
Theorem C20_process_end_reported_once :
  forall (e : pend),
    exists ret exc, proc_results e = [(ret, exc)] /\
                    (ret = 0 <-> e = PReturn) /\ exc = negb (ret =? 0).
Proof. exact proc_results_once. Qed.
Print Assumptions C20_process_end_reported_once.

(* The dispatcher / task-process protocol of DefaultWorker._dispatch around
   the request's timeout (Raptor.Race: the dispatcher's steps start, join,
   lock, read res_done, is_alive, terminate, join(grace), is_alive, kill,
   join, put, unlock and the task process's steps call-ends, lock, put, set
   res_done, unlock, exit, as two interleaved parties; the lock makes the
   dispatcher's check+act atomic).  For EVERY schedule -- every interleaving
   of these steps, every moment at which the request's timeout and the grace
   period expire -- every way the call ends (returns, raises, leaves the
   process, never ends; the last only with a timeout) and every reaction of the
   task process to SIGTERM (dies at once, dies later -- before or after the
   grace period --, never; SIGKILL always works): both
   parties finish, exactly one result is queued, and it is truthful: the
   call's own result iff the task process queued it (exit code 0 iff the call
   returned), a time-out only if the process was killed before it reported,
   'process died' only if it ended by itself without reporting. *)
Theorem C20_dispatch_protocol_one_truthful_result :
  forall (p : pay) (timed : bool) (sg : sigr) (s : list choice),
    allowed p timed = true ->
    finished (fst (race p timed sg s)) = true /\
    ok_one (c_q (fst (race p timed sg s))) = true /\
    forallb (truthful_rk p (snd (race p timed sg s))) (c_q (fst (race p timed sg s))) = true.
Proof. exact race_ok. Qed.
Print Assumptions C20_dispatch_protocol_one_truthful_result.

(* ... and therefore the worker's result watcher (which dies on a second
   result for one request) survives: it hands back the raced request and a
   LATER request, and all cores are free again. *)
Theorem C20_dispatch_protocol_watcher_survives :
  forall (p : pay) (timed : bool) (sg : sigr) (s : list choice),
    allowed p timed = true ->
    let '(st, evs, alive) := watcher wst2 (feed (c_q (fst (race p timed sg s)))) in
    alive = true /\ returned_uids evs = [1; 2] /\ w_cb st = [false; false] /\ w_pool st = [].
Proof. exact race_then_watcher. Qed.
Print Assumptions C20_dispatch_protocol_watcher_survives.

(* Resources of a request are free only after its process is gone: at no point
   of any schedule (`srun_race` = an arbitrary prefix, `race` = run to the end)
   has the dispatcher queued a result -- on which _result_cb gives the request's
   cores and GPUs back -- while the request's task process still existed
   (`c_bad` records exactly that), whatever the payload does and however it
   reacts to SIGTERM.  The task process's own report is queued by that process
   after the call has ended.  Hence a later request is never started on a core
   or GPU of a live task process: no two live task processes on one core. *)
Theorem C20_reported_only_after_process_gone :
  forall (p : pay) (timed : bool) (sg : sigr) (s : list choice),
    c_bad (fst (srun_race p timed sg cinit s)) = false /\ c_bad (fst (race p timed sg s)) = false.
Proof. exact race_never_reported_while_alive. Qed.
Print Assumptions C20_reported_only_after_process_gone.

(* Two-thread cases (request intake / _alloc against _result_cb / _dealloc,
   against another intake, against the completion of the request being
   started) are judged against the sequential model: the observed outcome must
   be `outcome_of` the model run in one of the two orders.  For EVERY operation
   sequence within the demand bound that sequential outcome satisfies the
   clauses used on the observation: nothing held twice and all within the
   worker, the maps mark exactly what is held, idle means all free. *)
Theorem C20_sequential_outcome_satisfies_clauses :
  forall (nc ng : nat) (ops : list wop),
    Forall (op_in_bound nc ng) ops ->
    let o := outcome_of (wrun (winit nc ng) ops) in
    lin_disjoint nc ng o = true /\ lin_accounting nc ng o = true /\ lin_quiescent o = true.
Proof. exact sequential_outcome_ok. Qed.
Print Assumptions C20_sequential_outcome_satisfies_clauses.

(* However a request ENDS.  `dispatch_x` (Raptor.Endings) is the table of
   request kinds (function/method, eval, exec, proc, shell) x endings: normal
   return / raise, empty or missing function / code, callable that cannot be
   resolved or deserialized, PythonTask with extra args, communicator that
   cannot be injected, environment entry the OS refuses, syntax error, failing
   pre_exec, missing executable / command, bad arguments, payload that closes
   the captured stdout, leaves the interpreter, or changes the directory.
   One task on a persistent rank (MPIWorkerRank.run): whatever the kind and
   the ending, os.environ, the process environment, the write-through binding,
   the working directory, Worker._task_env and the stdio streams afterwards are
   what they were before. *)
Theorem C20_any_ending_restores_rank_state :
  forall (r : xreq) (s : rstate),
    sync (r_w s) -> r_cwd s = 0 ->
    weq (r_w (snd (rank_request r s))) (r_w s) /\ sync (r_w (snd (rank_request r s))) /\
    r_cwd (snd (rank_request r s)) = 0 /\ r_tenv (snd (rank_request r s)) = r_tenv s /\
    r_stdio (snd (rank_request r s)) = r_stdio s.
Proof. exact rank_request_restores. Qed.
Print Assumptions C20_any_ending_restores_rank_state.

(* ... hence, for every sequence of requests with arbitrary endings, each one
   (in particular a probe that follows a refused request) is answered as on the
   rank's original state, and that state is found again after each of them *)
Theorem C20_any_ending_sequence_isolated :
  forall (rs : list xreq) (s0 : rstate),
    sync (r_w s0) -> r_cwd s0 = 0 ->
    map fst (xrun true s0 rs) = map (expected_x (r_tenv s0) (r_w s0)) rs /\
    Forall (fun x : dres * rstate => rs_eq (snd x) s0) (xrun true s0 rs).
Proof. exact xrun_rank_isolated0. Qed.
Print Assumptions C20_any_ending_sequence_isolated.

(* exit code 0 exactly for the endings in which the call itself succeeded *)
Theorem C20_any_ending_truthful :
  forall (tenv : env) (w0 : world) (r : xreq),
    (d_ret (expected_x tenv w0 r) =? 0) = succeeded_x r.
Proof. exact expected_x_truthful. Qed.
Print Assumptions C20_any_ending_truthful.

(* The agent scheduler's raptor forwarding loses and duplicates nothing: for
   every history of incoming batches, queue registrations / unregistrations
   and cancel requests, the uids handed to the local scheduler, put on raptor
   queues, failed ("raptor gone") or canceled, together with the uids waiting
   in the backlog, are a permutation of the uids that came in. *)
Theorem C20_scheduler_forwarding_conserves_tasks :
  forall (ops : list sop) (st : sst),
    Permutation (evs_uids (snd (srun st ops)) ++ backlog_uids (s_backlog (fst (srun st ops))))
                (concat (map sop_uids ops) ++ backlog_uids (s_backlog st)).
Proof. exact srun_conservation. Qed.
Print Assumptions C20_scheduler_forwarding_conserves_tasks.

(* a task is scheduled by the agent itself iff it names no raptor, is a
   raptor worker, or was already seen by its raptor (executable tasks coming
   back from the master); otherwise it is grouped under the raptor it names *)
Theorem C20_scheduler_routing_decision :
  forall (u : Z) (rid : option Z) (w seen : bool),
    classify [(u, rid, w, seen)] =
    match rid with
    | Some name => if negb w && negb seen then ([], [(name, [u])]) else ([u], [])
    | None => ([u], [])
    end.
Proof. exact classify_one. Qed.
Print Assumptions C20_scheduler_routing_decision.

(* non-vacuity: a 3-core x 2-GPU worker; three requests, the third has to wait
   until the first completes (a failure); a fourth request waits for the
   second and then its process start fails; a stale result is rejected; the
   last completion leaves the worker idle and all free *)
Example C20_nonvacuous :
  let ops := [OReq [mkReq 1 (Some 2) (Some 1) false; mkReq 2 None None false;
                    mkReq 3 (Some 2) (Some 2) false] [(0, 1, true)];
              OReq [mkReq 4 (Some 1) None true] [];
              OStale 1000; OFin (0, 0, false)] in
  Forall (op_in_bound 3 2) ops /\
  wrun (winit 3 2) ops =
    (mkW [false; false; false] [false; false] [] 1003,
     [EvStart 1 1000 [0; 1] [0] [true; true; false] [true; false];
      EvStart 2 1001 [2] [] [true; true; true] [true; false];
      EvResult 1 (Some 1) true [false; false; true] [false; false];
      EvStart 3 1002 [0; 1] [0; 1] [true; true; true] [true; true];
      EvResult 2 (Some 0) false [true; true; false] [true; true];
      EvResult 4 None true [true; true; false] [true; true];
      EvRaise 1 KeyError;
      EvResult 3 (Some 0) false [false; false; false] [false; false]]).
Proof. cbv zeta. split; [repeat (first [constructor | progress simpl]) | vm_compute; reflexivity]. Qed.

Example C20_dispatch_nonvacuous :
  let w0 := mkWorld [(0, 1)] [(0, 1)] true in
  sync w0 /\
  map (fun x : dres * world => (fst x, view (py_env (snd x)), view (pr_env (snd x)), bound (snd x)))
      (drun [] w0 [(DEval, Some [(1, 7)], mkPayload [ASet 2 5; ADel 0; AEcho 1; AEcho 0] (FReturn 3));
                   (DExec, None, mkPayload [AEcho 1; AEcho 2; APrint 9] (FRaise 4))])
  = [(mkRes (Some [7; -1]) [] None 0 (Some 3) false,
      [Some 1; None; None; None; None; None], [Some 1; None; None; None; None; None], true);
     (mkRes (Some [-1; -1; 9]) [] (Some 4) 1 None true,
      [Some 1; None; None; None; None; None], [Some 1; None; None; None; None; None], true)].
Proof. split; [intros _ k; reflexivity | vm_compute; reflexivity]. Qed.

(* non-vacuity of the protocol theorems: the call returns and reports while
   the timeout expires; the dispatcher finds res_done set although the task
   process has not exited yet, and adds nothing (the interleaving at which the
   code before /repo a0d9f2d queued a second, time-out, result) *)
Example C20_protocol_nonvacuous :
  race_show PayReturn true SigNow [CD; CT; CT; CX] =
  ([(PD, RoStart); (PT, RoFn); (PT, RoAcquire); (PD, RoExpire); (PD, RoJoin);
    (PT, RoPut RReal0); (PT, RoSet); (PT, RoRelease); (PD, RoAcquire);
    (PD, RoIsSet true); (PD, RoRelease); (PT, RoExit)],
   [RReal0], true, [1; 2], true, [false; false], false).
Proof. vm_compute. reflexivity. Qed.

(* ... and a payload that handles SIGTERM and then returns: the call ends after
   the kill attempt, the task process waits for the result lock the dispatcher
   holds, the grace period expires, SIGKILL, and only then the time-out is
   reported (before /repo's grace-join + kill this schedule never ended) *)
Example C20_protocol_sigterm_ignored_nonvacuous :
  race_show PayReturn true SigNever [CD; CX] =
  ([(PD, RoStart); (PD, RoExpire); (PD, RoJoin); (PD, RoAcquire); (PD, RoIsSet false);
    (PD, RoIsAlive true); (PD, RoTerminate); (PT, RoFn); (PD, RoExpire2); (PD, RoJoin);
    (PD, RoIsAlive true); (PD, RoKill); (PD, RoJoin); (PD, RoPut RTimeout); (PD, RoRelease)],
   [RTimeout], true, [1; 2], true, [false; false], false).
Proof. vm_compute. reflexivity. Qed.

(* non-vacuity of the ending theorems: on a rank, a function request with an
   environment whose callable cannot be resolved is reported as failed, a probe
   then finds the original environment (key 1 unset), directory and streams *)
Example C20_endings_nonvacuous :
  map (fun m : dres * rstate => (fst m, view (py_env (r_w (snd m))), r_cwd (snd m)))
      (xrun true (mkR (mkWorld [(0, 1)] [(0, 1)] true) 0 [] true)
            [((DFunc, Some [(1, 7)], mkPayload [] (FReturn 3)), EUnresolvable);
             ((DEval, Some [], mkPayload [AEcho 0; AEcho 1] (FReturn 1)), ENormal)])
  = [(reported None, [Some 1; None; None; None; None; None], 0);
     (mkRes (Some [1; -1]) [] None 0 (Some 1) false, [Some 1; None; None; None; None; None], 0)].
Proof. vm_compute. reflexivity. Qed.
