From Coq Require Import ZArith List Bool.
From RP Require Import Raptor.Model Raptor.Oracle Raptor.Proofs.
Import ListNotations.
Open Scope Z_scope.

Theorem C20_master_target_done_iff_exit_0 : forall u code,
  target_of (u, None, code) = TDone <-> code = Some 0.
Proof. exact target_done_iff. Qed.
Print Assumptions C20_master_target_done_iff_exit_0.
