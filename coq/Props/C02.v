(* C02 -- a granted placement has exactly the requested shape.  Statements only. *)
From Coq Require Import ZArith List Bool.
From RP Require Import Sched.Model Sched.NodeMap Sched.FindProofs Sched.Inv Sched.SchedProofs Sched.ShapeProofs Sched.ExclProofs Sched.TagMono.
From Coq Require String.
From RP Require Sched.Oracle Sched.ClauseProofs.
From RP Require AppSlots.Model AppSlots.Oracle AppSlots.NodeProofs AppSlots.InvProofs AppSlots.Proofs.
Import ListNotations.
Open Scope Z_scope.

(* Whatever the occupancy state (any node map with unique node indices, any
   search offset, any colocation history): if the scheduler grants a placement
   it has exactly `ranks` slots; every slot lies on one existing node, holds
   exactly max(1, cores_per_rank) distinct, existing cores, GPU entries on
   distinct GPUs whose shares add up to gpus_per_rank, and the requested lfs and
   mem; a colocate tag seen before confines every slot to the nodes recorded
   for that tag; and no node carries more than ranks_per_node slots. *)
Theorem C02_granted_shape :
  forall (c : cfg) (s : sstate) (t : req) off co tg (sl : list slot),
    NoDup (map n_idx (nodes s)) -> wf_req t -> 0 <= r_ranks t ->
    schedule_task c s t = inr (off, co, tg, Some sl) ->
    Z.of_nat (length sl) = r_ranks t /\
    (forall x, In x sl ->
       shape_ok (nodes s) (Z.to_nat (cps_of t)) (r_gpr t) (r_lfs t) (r_mem t) (hist_of s t) x) /\
    (0 < r_rpn t -> forall n, count_on n sl <= r_rpn t).
Proof. exact schedule_task_shape. Qed.
Print Assumptions C02_granted_shape.

(* a request whose per-rank needs exceed what a single node offers is rejected
   (AssertionError -> FAILED), never granted a smaller placement *)
Theorem C02_oversize_rejected :
  forall (c : cfg) (s : sstate) (t : req) (s' : sstate) (res : tres),
    cpn c < cps_of t \/ 64 * gpn c < r_gpr t \/ lfs_pn c < r_lfs t \/ mem_pn c < r_mem t ->
    try_allocation c s t = (s', res) -> res = TFail EAssert.
Proof. exact oversize_never_started. Qed.
Print Assumptions C02_oversize_rejected.

(* the cores and GPUs of a granted placement are Free in the map that was searched *)
Theorem C02_granted_is_free :
  forall (c : cfg) (s : sstate) (t : req) off co tg (sl : list slot),
    NoDup (map n_idx (nodes s)) -> nodes_nonneg (nodes s) -> wf_req t ->
    schedule_task c s t = inr (off, co, tg, Some sl) -> fresh (nodes s) sl.
Proof. exact schedule_task_fresh. Qed.
Print Assumptions C02_granted_is_free.

(* per node: what _find_resources returns, slot by slot *)
Theorem C02_find_resources_slots :
  forall nd cps g lfs mem n ci gi lu mu gused sl,
    0 <= lfs -> 0 <= mem ->
    find_loop nd n cps g lfs mem ci gi lu mu gused = inr sl ->
    (length sl <= n)%nat /\ Forall (slot_local_ok nd cps g lfs mem) sl.
Proof.
  intros nd cps g lfs mem n ci gi lu mu gused sl Hl Hm H.
  exact (conj (proj1 (find_loop_basic nd cps g lfs mem n ci gi lu mu gused sl Hl Hm H))
              (proj1 (proj2 (find_loop_basic nd cps g lfs mem n ci gi lu mu gused sl Hl Hm H)))).
Qed.
Print Assumptions C02_find_resources_slots.

(* the `exclusive` rule of colocation tags: a task with a colocate tag not seen before and exclusive=True is,
   as long as the pilot has more nodes than tagged ones, granted no slot on a node that an earlier tag uses --
   in any state, for any offset, request shape and occupancy *)
Theorem C02_exclusive_tag_avoids_tagged_nodes :
  forall (c : cfg) (s : sstate) (t : req) off co tg (sl : list slot),
    schedule_task c s t = inr (off, co, tg, Some sl) ->
    forall tag, r_colo t = Some tag -> zlookup tag (colo s) = None -> r_excl t = true ->
    (length (tagged s) < length (nodes s))%nat ->
    forall x, In x sl -> zmem (s_node x) (tagged s) = false.
Proof. exact exclusive_avoids_tagged. Qed.
Print Assumptions C02_exclusive_tag_avoids_tagged_nodes.

(* what a grant records: exactly its nodes under its tag, every other tag's record untouched, the tagged set
   grown by exactly these nodes; a grant without a tag and a search that grants nothing record nothing *)
Theorem C02_tag_recorded :
  forall (c : cfg) (s : sstate) (t : req) off co tg (sl : list slot),
    schedule_task c s t = inr (off, co, tg, Some sl) ->
    forall tag, r_colo t = Some tag ->
    zlookup tag co = Some (map s_node sl) /\
    (forall tag', tag' <> tag -> zlookup tag' co = zlookup tag' (colo s)) /\
    (forall i, zmem i tg = true <-> zmem i (tagged s) = true \/ In i (map s_node sl)).
Proof. exact tag_recorded. Qed.
Print Assumptions C02_tag_recorded.

Theorem C02_untagged_or_failed_search_records_nothing :
  forall (c : cfg) (s : sstate) (t : req) off co tg,
    (forall sl, schedule_task c s t = inr (off, co, tg, Some sl) -> r_colo t = None -> co = colo s /\ tg = tagged s) /\
    (schedule_task c s t = inr (off, co, tg, None) -> co = colo s /\ tg = tagged s).
Proof.
  intros c s t off co tg. split.
  - intros sl H. exact (untagged_grant_keeps_history c s t off co tg sl H).
  - exact (no_grant_keeps_history c s t off co tg).
Qed.
Print Assumptions C02_untagged_or_failed_search_records_nothing.

(* two tags, the later one new and exclusive: whatever happened in between, as long as the nodes tagged by the
   first grant are still in the tagged set and an untagged node exists, the two placements share no node *)
Theorem C02_exclusive_tags_on_disjoint_nodes :
  forall c s1 t1 off1 co1 tg1 sl1 s2 t2 off2 co2 tg2 sl2 a b,
    schedule_task c s1 t1 = inr (off1, co1, tg1, Some sl1) -> r_colo t1 = Some a ->
    (forall i, zmem i tg1 = true -> zmem i (tagged s2) = true) ->
    schedule_task c s2 t2 = inr (off2, co2, tg2, Some sl2) -> r_colo t2 = Some b ->
    zlookup b (colo s2) = None -> r_excl t2 = true ->
    (length (tagged s2) < length (nodes s2))%nat ->
    forall x y, In x sl1 -> In y sl2 -> s_node x <> s_node y.
Proof. exact exclusive_tags_disjoint. Qed.
Print Assumptions C02_exclusive_tags_on_disjoint_nodes.

(* along EVERY history of arrivals, cancels, releases, named environments and iterations (any bisect strategy):
   the set of tagged nodes only grows, and in every reachable state it contains the nodes recorded for every tag *)
Theorem C02_tagged_nodes_only_grow :
  forall c ops w w', run c w ops = Some w' ->
    forall i, zmem i (tagged (st w)) = true -> zmem i (tagged (st w')) = true.
Proof. exact tagged_only_grows. Qed.
Print Assumptions C02_tagged_nodes_only_grow.

Theorem C02_reachable_tag_nodes_are_tagged :
  forall c ns ops w', run c (init_world ns) ops = Some w' ->
    forall tag h, zlookup tag (colo (st w')) = Some h -> forall i, In i h -> zmem i (tagged (st w')) = true.
Proof. exact reachable_tag_nodes_tagged. Qed.
Print Assumptions C02_reachable_tag_nodes_are_tagged.

(* hence, in every reachable state: a task with a new exclusive tag is (while an untagged node exists) granted no
   slot on a node recorded for ANY tag of the history *)
Theorem C02_reachable_exclusive_avoids_all_tags :
  forall c ns ops w' t off co tg sl tag,
    run c (init_world ns) ops = Some w' ->
    schedule_task c (st w') t = inr (off, co, tg, Some sl) ->
    r_colo t = Some tag -> zlookup tag (colo (st w')) = None -> r_excl t = true ->
    (length (tagged (st w')) < length (nodes (st w')))%nat ->
    forall tag' h, zlookup tag' (colo (st w')) = Some h -> forall x, In x sl -> ~ In (s_node x) h.
Proof. exact reachable_exclusive_avoids_all_tags. Qed.
Print Assumptions C02_reachable_exclusive_avoids_all_tags.

(* the oracle clause exclusive_tag_nodes (Sched/Oracle.c02_excl_bit, the function the check evaluates on every
   grant of the implementation), fed with the model's own tag records and tagged set, is true on every grant of
   the model: the clause demands nothing the code's model does not guarantee *)
Theorem C02_exclusive_clause_holds_in_model :
  forall (c : cfg) (s : sstate) (t : req) off co tg (sl : list slot),
    schedule_task c s t = inr (off, co, tg, Some sl) ->
    RP.Sched.Oracle.c02_excl_bit (colo s) (tagged s) (length (nodes s)) t sl = true.
Proof. exact excl_clause_holds_on_model_grant. Qed.
Print Assumptions C02_exclusive_clause_holds_in_model.

Theorem C02_colocate_clause_holds_in_model :
  forall (c : cfg) (s : sstate) (t : req) off co tg (sl : list slot),
    schedule_task c s t = inr (off, co, tg, Some sl) ->
    RP.Sched.Oracle.c02_colo_bit (colo s) t sl = true.
Proof. exact colo_clause_holds_on_model_grant. Qed.
Print Assumptions C02_colocate_clause_holds_in_model.

Theorem C02_count_clauses_hold_in_model :
  forall (c : cfg) (s : sstate) (t : req) off co tg (sl : list slot),
    NoDup (map n_idx (nodes s)) -> wf_req t -> 0 <= r_ranks t -> 0 <= r_rpn t ->
    schedule_task c s t = inr (off, co, tg, Some sl) ->
    RP.Sched.Oracle.c02_ranks_bit t sl = true /\ RP.Sched.Oracle.c02_rpn_bit t sl = true.
Proof. exact RP.Sched.ClauseProofs.count_clauses_hold_on_model_grant. Qed.
Print Assumptions C02_count_clauses_hold_in_model.

(* PARTIAL: placements supplied by the application are passed through as they
   are (their shape is the application's). *)

Example C02_nonvacuous :
  let s := init_state [mkNode 0 [Free; Busy; Free; Free] [Free; Free] 100 100;
                       mkNode 1 [Free; Free; Free; Free] [Down; Free] 100 100] in
  schedule_task (mkCfg 4 2 100 100 false) s (mkReq 1 3 2 32 10 0 2 0 None false None None)
  = inr (1%nat, [], [],
         Some [mkSlot 0 [0%nat; 2%nat] [(0%nat, 32)] 10 0;
               mkSlot 1 [0%nat; 1%nat] [(1%nat, 32)] 10 0;
               mkSlot 1 [2%nat; 3%nat] [(1%nat, 32)] 10 0]).
Proof. vm_compute. reflexivity. Qed.

Module AppSide.
Import Coq.Strings.String.
Import RP.AppSlots.Model RP.AppSlots.Oracle RP.AppSlots.NodeProofs RP.AppSlots.InvProofs RP.AppSlots.Proofs.
Open Scope string_scope.
Open Scope Z_scope.

(* Application side: `Pilot.nodelist` (resource_config.NodeList / Node), the helper with which an
   application chooses the placements it supplies in TaskDescription.slots.  Model: RP.AppSlots.Model;
   occupations in 1/64 of a core / GPU (BUSY = 64).

   wf_nodes ns0     : node ids (Node.index) pairwise distinct -- not necessarily the list positions --,
                      lfs / mem a number >= 0 or not reported (None), every core / GPU DOWN or
                      occupied between FREE and BUSY; node names arbitrary (possibly all equal);
   op_ok            : the calls are find_slots / release_slots / verify / Node.find_slot with
                      non-negative sizes and occupations (find_slots: core occupation > 0), and
                      Node.allocate_slot(slot, _check=True) with an application-made slot (non-negative indices,
                      occupations, lfs, mem; a core or GPU may be named more than once);
   all_disciplined  : release_slots is given slots the application holds (got from find_slots and
                      not yet given back), counting repetitions;
   run .. ops       : the answer and the node list after every call (any number of calls);
   judge            : the clauses the check evaluates on the real objects' trace. *)

(* Every answer of find_slots(rr, n) that is not None / an error is a list of exactly n slots, each on
   ONE node of the list and carrying that node's id and name, with exactly rr.n_cores distinct existing
   cores at occupation rr.core_occupation, exactly rr.n_gpus distinct existing GPUs at
   rr.gpu_occupation, lfs = rr.lfs and mem = rr.mem -- after ANY sequence of calls *)
Theorem C02_app_slots_have_requested_shape :
  forall (ns0 : list node) (verified : bool) (ops : list op),
    wf_nodes ns0 -> Forall op_ok ops ->
    all_disciplined [] ops (run (start_nl ns0 verified) ops) = true ->
    v_shape (judge ns0 ns0 [] ops (run (start_nl ns0 verified) ops)) = true.
Proof. exact app_shape. Qed.
Print Assumptions C02_app_slots_have_requested_shape.

(* the same for one call in any reached state *)
Theorem C02_app_found_slots_shape :
  forall (ns0 : list node) (nl : nlist) (h : list slot) (r : rreq) (n : Z) (nl' : nlist) (sl : list slot),
    Reached ns0 nl h -> rr_ok r -> 0 < r_co r -> find_slots nl r n = (nl', RSlots sl) ->
    ok_shape ns0 r n sl = true.
Proof. exact found_slots_shape. Qed.
Print Assumptions C02_app_found_slots_shape.

Example C02_app_nonvacuous :
  let ns0 := [mkNode 0 "a" [Some 64; Some 0; None; Some 32] [Some 0; Some 0] (Some 100) (Some 50);
              mkNode 1 "b" [Some 64; Some 0; None; Some 32] [Some 0; Some 0] (Some 100) (Some 50)] in
  snd (find_slots (start_nl ns0 true) (mkRR 2 32 1 64 40 5 false) 2)
  = RSlots [mkSlot [(1, 32); (3, 32)] [(0, 64)] 40 5 0 "a"; mkSlot [(1, 32); (3, 32)] [(0, 64)] 40 5 1 "b"].
Proof. vm_compute. reflexivity. Qed.

End AppSide.
