(* C15 -- waiting on tasks and pilots returns when it should.
   Statements only; every proof is `exact <lemma>`.  The model is
   RP.Wait.Model instantiated (RP.Wait.Inst) with the state tables generated
   from states.py.  Time is counted in polling ticks (time.sleep(0.1));
   `at_ tr k` is the state an entity shows at tick k; `fuel` bounds the number
   of polls the model may make (the theorems say how much is enough).

   `mem s (norm FINAL r)` = s is one of the requested states (default: the
   final states); `clauses p0` = the oracle [truthful; timely; timeout;
   justified; no_exception] (p0 = first tick at which the call looks at the
   entities; `timely` = all at once for a polling interval, per entity, and -- for
   wait_tasks only -- per entity in the `reached` (state value) reading) that the harness evaluates on the traces of the
   real code. *)
From Coq Require Import ZArith List Bool Arith.
From RP Require Import Gen.StatesTables Wait.Model Wait.Inst Wait.Oracle Wait.Proofs Wait.InstProofs.
From RP Require States.Model States.Proofs States.Inst States.PilotEnd.
Import ListNotations.

Notation tmem := (mem tstate_beq).
Notation pmem := (mem pstate_beq).
Notation tfin := (is_final tstate_beq tfinal).
Notation pfin := (is_final pstate_beq pfinal).
Notation ttraj := (@traj tstate).
Notation ptraj := (@traj pstate).
Notation ttable := (@table tstate).
Notation ptable := (@table pstate).
Notation all_true := [true; true; true; true; true].

(* the table facts the proofs rest on (regenerated from states.py on every run) *)
Theorem C15_final_states_are_top :
  (forall f s, In f tfinal -> (tvalue f <= tvalue s)%Z -> tfin s = true) /\
  (forall f s, In f pfinal -> (pvalue f <= pvalue s)%Z -> pfin s = true) /\
  (forall s, tfin s = true <-> s = T_DONE \/ s = T_FAILED \/ s = T_CANCELED) /\
  (forall s, pfin s = true <-> s = P_DONE \/ s = P_FAILED \/ s = P_CANCELED).
Proof. exact (conj t_final_top (conj p_final_top (conj t_final_is p_final_is))). Qed.
Print Assumptions C15_final_states_are_top.

(* ---- Task.wait ---------------------------------------------------------- *)
(* If the task shows a requested state -- or any final state, whatever was
   requested -- at tick k, Task.wait has returned by tick k, and it returns
   the state the task shows at the tick of the return. *)
Theorem C15_task_wait_returns_on_requested_or_final :
  forall (r : req) (T : tmo) (term : option nat) (fuel : nat) (tr : ttraj) (k : nat),
    k <= fuel ->
    tmem (at_ tr k) (norm tfinal r) || tfin (at_ tr k) = true ->
    exists t, t <= k /\ m_task_wait r T term fuel tr = Returned (VOne (at_ tr t)) t.
Proof. exact (entity_returns_by tstate_beq tfinal). Qed.
Print Assumptions C15_task_wait_returns_on_requested_or_final.

(* Timeouts (T : tmo = no timeout | a negative number | n ticks).  `deadline T`
   is the first tick d at which the code's test `timeout and timeout <= elapsed`
   holds: d = n for n > 0 ticks, d = 0 for a NEGATIVE timeout (the remainder of
   a used-up time budget), none for None and 0.  Task.wait tests the timeout
   after each sleep: it has returned by tick max d 1 -- by tick T for a
   positive timeout, at its first check (tick 1) for a negative one. *)
Theorem C15_task_wait_returns_on_timeout :
  forall (r : req) (T : tmo) (term : option nat) (fuel : nat) (tr : ttraj) (d : nat),
    deadline T = Some d -> Nat.max d 1 <= fuel ->
    exists t, t <= Nat.max d 1 /\ m_task_wait r T term fuel tr = Returned (VOne (at_ tr t)) t.
Proof. exact (entity_timeout tstate_beq tfinal). Qed.
Print Assumptions C15_task_wait_returns_on_timeout.

(* Task.wait never returns early: a return at tick t is caused by the
   timeout, by the manager terminating, or by the task showing a requested or
   final state at tick t; and it never returns anything but the actual state. *)
Theorem C15_task_wait_justified_and_truthful :
  forall (r : req) (T : tmo) (term : option nat) (fuel : nat) (tr : ttraj),
    (forall v t, m_task_wait r T term fuel tr = Returned v t ->
       timed_out T t = true \/ term_set term t = true \/
       tmem (at_ tr t) (norm tfinal r) || tfin (at_ tr t) = true) /\
    (m_task_wait r T term fuel tr = Spins \/
     exists t, m_task_wait r T term fuel tr = Returned (VOne (at_ tr t)) t).
Proof.
  exact (fun r T term fuel tr =>
           conj (entity_justified tstate_beq tfinal r T term fuel tr)
                (entity_shape tstate_beq tfinal r T term fuel tr)).
Qed.
Print Assumptions C15_task_wait_justified_and_truthful.

(* `Spins` (what the harness reports when the real call polls past the end
   of the trajectory, the timeout and the termination tick) means that the
   call never returns: more fuel does not help. *)
Theorem C15_task_wait_spins_is_forever :
  forall (r : req) (T : tmo) (term : option nat) (fuel : nat) (tr : ttraj),
    length (snd tr) + 1 <= fuel ->
    (forall d, deadline T = Some d -> d + 1 <= fuel) ->
    (forall k, term = Some k -> k + 1 <= fuel) ->
    m_task_wait r T term fuel tr = Spins ->
    forall fuel', m_task_wait r T term fuel' tr = Spins.
Proof. exact (entity_spins_forever tstate_beq tfinal). Qed.
Print Assumptions C15_task_wait_spins_is_forever.

(* all oracle clauses hold for Task.wait on every input *)
Theorem C15_task_wait_oracle :
  forall (r : req) (T : tmo) (term : option nat) (fuel : nat) (tr : ttraj),
    horizon [tr] + 2 <= fuel -> (forall d, deadline T = Some d -> d + 2 <= fuel) ->
    clauses tstate_beq tfinal tvalue 0 false false (norm tfinal r) T term (Some [tr])
            (m_task_wait r T term fuel tr) = all_true.
Proof. exact (entity_clauses tstate_beq tfinal tvalue t_beq_spec). Qed.
Print Assumptions C15_task_wait_oracle.

(* ---- Pilot.wait --------------------------------------------------------- *)
Theorem C15_pilot_wait_returns_on_requested_or_final :
  forall (r : req) (T : tmo) (term : option nat) (fuel : nat) (tr : ptraj) (k : nat),
    k <= fuel ->
    pmem (at_ tr k) (norm pfinal r) || pfin (at_ tr k) = true ->
    exists t, t <= k /\ m_pilot_wait r T term fuel tr = Returned (VOne (at_ tr t)) t.
Proof. exact (entity_returns_by pstate_beq pfinal). Qed.
Print Assumptions C15_pilot_wait_returns_on_requested_or_final.

Theorem C15_pilot_wait_returns_on_timeout :
  forall (r : req) (T : tmo) (term : option nat) (fuel : nat) (tr : ptraj) (d : nat),
    deadline T = Some d -> Nat.max d 1 <= fuel ->
    exists t, t <= Nat.max d 1 /\ m_pilot_wait r T term fuel tr = Returned (VOne (at_ tr t)) t.
Proof. exact (entity_timeout pstate_beq pfinal). Qed.
Print Assumptions C15_pilot_wait_returns_on_timeout.

Theorem C15_pilot_wait_justified_and_truthful :
  forall (r : req) (T : tmo) (term : option nat) (fuel : nat) (tr : ptraj),
    (forall v t, m_pilot_wait r T term fuel tr = Returned v t ->
       timed_out T t = true \/ term_set term t = true \/
       pmem (at_ tr t) (norm pfinal r) || pfin (at_ tr t) = true) /\
    (m_pilot_wait r T term fuel tr = Spins \/
     exists t, m_pilot_wait r T term fuel tr = Returned (VOne (at_ tr t)) t).
Proof.
  exact (fun r T term fuel tr =>
           conj (entity_justified pstate_beq pfinal r T term fuel tr)
                (entity_shape pstate_beq pfinal r T term fuel tr)).
Qed.
Print Assumptions C15_pilot_wait_justified_and_truthful.

Theorem C15_pilot_wait_spins_is_forever :
  forall (r : req) (T : tmo) (term : option nat) (fuel : nat) (tr : ptraj),
    length (snd tr) + 1 <= fuel ->
    (forall d, deadline T = Some d -> d + 1 <= fuel) ->
    (forall k, term = Some k -> k + 1 <= fuel) ->
    m_pilot_wait r T term fuel tr = Spins ->
    forall fuel', m_pilot_wait r T term fuel' tr = Spins.
Proof. exact (entity_spins_forever pstate_beq pfinal). Qed.
Print Assumptions C15_pilot_wait_spins_is_forever.

Theorem C15_pilot_wait_oracle :
  forall (r : req) (T : tmo) (term : option nat) (fuel : nat) (tr : ptraj),
    horizon [tr] + 2 <= fuel -> (forall d, deadline T = Some d -> d + 2 <= fuel) ->
    clauses pstate_beq pfinal pvalue 0 false false (norm pfinal r) T term (Some [tr])
            (m_pilot_wait r T term fuel tr) = all_true.
Proof. exact (entity_clauses pstate_beq pfinal pvalue p_beq_spec). Qed.
Print Assumptions C15_pilot_wait_oracle.

(* ---- TaskManager.wait_tasks ---------------------------------------------- *)
(* Per entity: if every awaited task (the uids named, or all tasks) HAS shown
   a requested or a final state at some tick 1 <= j <= k -- each at its own
   tick, it may have moved on to a later state since -- wait_tasks has returned
   by tick k, and what it returns are the states the tasks show at the tick of
   the return (a list in the order asked for, or the one state for a single
   uid).  (wait_tasks first looks at the tasks at tick 1.) *)
Theorem C15_wait_tasks_returns_on_requested_or_final :
  forall (r : req) (T : tmo) (term : option nat) (fuel : nat) (tab : ttable) (u : uidsel)
         (aw : list ttraj) (k : nat),
    awaited_tasks tab u = Some aw -> 1 <= k <= fuel ->
    (forall tr, In tr aw -> exists j, 1 <= j <= k /\
        tmem (at_ tr j) (norm tfinal r) || tfin (at_ tr j) = true) ->
    exists v t, t <= k /\ m_wait_tasks r T term fuel tab u = Returned v t /\
                ok_truthful tstate_beq (as_list u) aw (Returned v t) = true.
Proof. exact (wait_tasks_returns_by tstate_beq tfinal tvalue t_beq_spec t_final_ne). Qed.
Print Assumptions C15_wait_tasks_returns_on_requested_or_final.

(* "Reached": in the linear task state model a task has reached a requested
   state S once it shows S, a state LATER than S (state value >= value S: its
   callbacks have announced S), or a final state.  If every awaited task has
   reached a requested state at some tick 1 <= j <= k -- it may already have
   been past it when the call began, or have jumped over it between two ticks
   and linger in a later non-final state -- wait_tasks has returned by tick k
   with the tasks' actual states.  (Task.wait, Pilot.wait and wait_pilots are
   membership based; this reading is not claimed for them.) *)
Theorem C15_wait_tasks_returns_when_reached :
  forall (r : req) (T : tmo) (term : option nat) (fuel : nat) (tab : ttable) (u : uidsel)
         (aw : list ttraj) (k : nat),
    awaited_tasks tab u = Some aw -> 1 <= k <= fuel ->
    (forall tr, In tr aw -> exists j, 1 <= j <= k /\
        passed tstate_beq tfinal tvalue (norm tfinal r) (at_ tr j) = true) ->
    exists v t, t <= k /\ m_wait_tasks r T term fuel tab u = Returned v t /\
                ok_truthful tstate_beq (as_list u) aw (Returned v t) = true.
Proof. exact (wait_tasks_returns_when_reached tstate_beq tfinal tvalue t_beq_spec t_final_ne). Qed.
Print Assumptions C15_wait_tasks_returns_when_reached.

(* wait_tasks tests the timeout BEFORE its first sleep: with deadline d it has
   returned by tick d with the tasks' actual states -- for a negative timeout
   (d = 0) at once, without polling, whatever the tasks do. *)
Theorem C15_wait_tasks_returns_on_timeout :
  forall (r : req) (T : tmo) (term : option nat) (fuel : nat) (tab : ttable) (u : uidsel)
         (aw : list ttraj) (d : nat),
    awaited_tasks tab u = Some aw -> deadline T = Some d -> d <= fuel ->
    exists v t, t <= d /\ m_wait_tasks r T term fuel tab u = Returned v t /\
                ok_truthful tstate_beq (as_list u) aw (Returned v t) = true.
Proof. exact (wait_tasks_timeout tstate_beq tfinal tvalue t_beq_spec t_final_ne). Qed.
Print Assumptions C15_wait_tasks_returns_on_timeout.

(* all oracle clauses (truthful; timely; timeout: returned by deadline+1; justified:
   no early return; no exception) hold for wait_tasks on every input with
   known uids; an unknown uid raises KeyError *)
Theorem C15_wait_tasks_oracle :
  forall (r : req) (T : tmo) (term : option nat) (fuel : nat) (tab : ttable) (u : uidsel) (aw : list ttraj),
    awaited_tasks tab u = Some aw ->
    horizon aw + 2 <= fuel -> (forall d, deadline T = Some d -> d + 2 <= fuel) ->
    clauses tstate_beq tfinal tvalue 1 true (as_list u) (norm tfinal r) T term (Some aw)
            (m_wait_tasks r T term fuel tab u) = all_true.
Proof. exact (wait_tasks_clauses tstate_beq tfinal tvalue t_beq_spec t_final_top t_final_ne). Qed.
Print Assumptions C15_wait_tasks_oracle.

Theorem C15_wait_tasks_unknown_uid :
  forall (r : req) (T : tmo) (term : option nat) (fuel : nat) (tab : ttable) (u : uidsel),
    awaited_tasks tab u = None -> m_wait_tasks r T term fuel tab u = Raised KeyError.
Proof. exact (wait_tasks_unknown_uid tstate_beq tfinal tvalue t_final_ne). Qed.
Print Assumptions C15_wait_tasks_unknown_uid.

(* ---- PilotManager.wait_pilots -------------------------------------------- *)
(* Per entity: if every awaited pilot (the uids named, or all pilots not
   final at the time of the call) HAS shown a requested or a final state at some
   tick j <= k -- each at its own tick; a pilot seen in a requested transient
   state stays accounted for when it moves on -- wait_pilots has returned by
   tick k+1 with the pilots' actual states. *)
Theorem C15_wait_pilots_returns_on_requested_or_final :
  forall (r : req) (T : tmo) (term : option nat) (fuel : nat) (tab : ptable) (u : uidsel)
         (aw : list ptraj) (k : nat),
    awaited_pilots pstate_beq pfinal tab u = Some aw -> S k <= fuel ->
    (forall tr, In tr aw -> exists j, j <= k /\
        pmem (at_ tr j) (norm pfinal r) || pfin (at_ tr j) = true) ->
    exists v t, t <= S k /\ m_wait_pilots r T term fuel tab u = Returned v t /\
                ok_truthful pstate_beq (as_list u) aw (Returned v t) = true.
Proof. exact (wait_pilots_returns_by pstate_beq pfinal p_beq_spec). Qed.
Print Assumptions C15_wait_pilots_returns_on_requested_or_final.

(* wait_pilots tests the timeout at every poll while pilots are pending: with
   deadline d it has returned by tick d+1 (by tick 1 for a negative timeout). *)
Theorem C15_wait_pilots_returns_on_timeout :
  forall (r : req) (T : tmo) (term : option nat) (fuel : nat) (tab : ptable) (u : uidsel)
         (aw : list ptraj) (d : nat),
    awaited_pilots pstate_beq pfinal tab u = Some aw -> deadline T = Some d -> S d <= fuel ->
    exists v t, t <= S d /\ m_wait_pilots r T term fuel tab u = Returned v t /\
                ok_truthful pstate_beq (as_list u) aw (Returned v t) = true.
Proof. exact (wait_pilots_timeout pstate_beq pfinal p_beq_spec). Qed.
Print Assumptions C15_wait_pilots_returns_on_timeout.

Theorem C15_wait_pilots_oracle :
  forall (r : req) (T : tmo) (term : option nat) (fuel : nat) (tab : ptable) (u : uidsel) (aw : list ptraj),
    awaited_pilots pstate_beq pfinal tab u = Some aw ->
    horizon aw + 2 <= fuel -> (forall d, deadline T = Some d -> d + 2 <= fuel) ->
    clauses pstate_beq pfinal pvalue 0 false (as_list u) (norm pfinal r) T term (Some aw)
            (m_wait_pilots r T term fuel tab u) = all_true.
Proof. exact (wait_pilots_clauses pstate_beq pfinal pvalue p_beq_spec). Qed.
Print Assumptions C15_wait_pilots_oracle.

Theorem C15_wait_pilots_unknown_uid :
  forall (r : req) (T : tmo) (term : option nat) (fuel : nat) (tab : ptable) (u : uidsel),
    awaited_pilots pstate_beq pfinal tab u = None -> m_wait_pilots r T term fuel tab u = Raised ValueError.
Proof. exact (wait_pilots_unknown_uid pstate_beq pfinal). Qed.
Print Assumptions C15_wait_pilots_unknown_uid.

(* non-vacuity: waiting for DONE on a task that fails at tick 2 returns FAILED
   at tick 2; the default request returns at the first final state; a timeout
   of 3 ticks on a stalled pilot returns at tick 3; a task that never becomes
   final makes an untimed wait poll for ever; two tasks, the later final at
   tick 3, wait_tasks returns both states at tick 3 *)
Example C15_nonvacuous :
  m_task_wait (ROne T_DONE) TNone None 10 (T_NEW, [T_AGENT_EXECUTING; T_FAILED]) = Returned (VOne T_FAILED) 2 /\
  m_task_wait RNone TNone None 10 (T_NEW, [T_AGENT_EXECUTING; T_CANCELED; T_DONE]) = Returned (VOne T_CANCELED) 2 /\
  m_pilot_wait (ROne P_DONE) (TTicks 3) None 10 (P_NEW, [P_PMGR_ACTIVE]) = Returned (VOne P_PMGR_ACTIVE) 3 /\
  m_task_wait RNone TNone None 10 (T_NEW, [T_AGENT_EXECUTING]) = Spins /\
  m_wait_tasks RNone TNone None 10 [(1%Z, (T_NEW, [T_DONE])); (2%Z, (T_NEW, [T_NEW; T_NEW; T_FAILED]))] UAll
    = Returned (VList [T_DONE; T_FAILED]) 3 /\
  m_wait_pilots (ROne P_PMGR_ACTIVE) TNone None 10
    [(1%Z, (P_NEW, [P_PMGR_ACTIVE])); (2%Z, (P_DONE, []))] UAll = Returned (VList [P_PMGR_ACTIVE]) 2 /\
  (* pilot 1 passes through the requested state at tick 1 and has moved on
     when pilot 2 shows it at tick 3: the wait returns at tick 4 *)
  m_wait_pilots (ROne P_PMGR_ACTIVE_PENDING) TNone None 12
    [(1%Z, (P_NEW, [P_PMGR_ACTIVE_PENDING; P_PMGR_ACTIVE]));
     (2%Z, (P_NEW, [P_NEW; P_NEW; P_PMGR_ACTIVE_PENDING]))] UAll
    = Returned (VList [P_PMGR_ACTIVE; P_PMGR_ACTIVE_PENDING]) 4 /\
  (* task 1 is already past the awaited state, task 2 jumps over it at tick 2
     and both linger in later non-final states: wait_tasks returns at tick 2 *)
  m_wait_tasks (ROne T_AGENT_EXECUTING_PENDING) TNone None 12
    [(1%Z, (T_AGENT_EXECUTING, [])); (2%Z, (T_AGENT_SCHEDULING, [T_AGENT_SCHEDULING; T_AGENT_EXECUTING]))] UAll
    = Returned (VList [T_AGENT_EXECUTING; T_AGENT_EXECUTING]) 2 /\
  (* a negative timeout (used-up budget): wait_tasks returns at once with the
     actual states, Task.wait and wait_pilots at their first check (tick 1);
     a timeout of 0 is no timeout *)
  m_wait_tasks RNone TNeg None 10 [(1%Z, (T_NEW, [T_AGENT_EXECUTING]))] UAll = Returned (VList [T_NEW]) 0 /\
  m_task_wait RNone TNeg None 10 (T_NEW, [T_AGENT_EXECUTING]) = Returned (VOne T_AGENT_EXECUTING) 1 /\
  m_wait_pilots RNone TNeg None 10 [(1%Z, (P_NEW, [P_PMGR_ACTIVE]))] UAll = Returned (VList [P_NEW]) 0 /\
  m_wait_tasks RNone (TTicks 0) None 10 [(1%Z, (T_NEW, [T_AGENT_EXECUTING]))] UAll = Spins.
Proof. vm_compute. repeat split. Qed.

(* ---- the client's end: what wait() looks at ----
   wait() polls Task.state; the trajectories quantified over above are the
   states the client's Task objects go through.  They are produced from the
   notification batches by TaskManager._update_tasks (model: RP.States, the
   subject of C06).  What C15 needs from it: no batch is ever dropped by an
   exception (a dropped batch loses the final state of every task in it, and
   wait() hangs although the awaited state was reached), and Task.state is the
   end of the chain of states announced so far -- for every history of batches,
   duplicates, reordering, gaps and contradictory finals included. *)
Module ClientSide.
Import RP.States.Model RP.States.Proofs RP.States.Inst.
Notation tchain := (chain tstate_beq T_DONE T_FAILED T_CANCELED tvalue).

Theorem C15_client_never_drops_a_batch :
  forall (t : tasks) (b : list (Z * tstate)), snd (t_update_batch t b) = None.
Proof. exact (history_no_exception _ _ _ _ _ _ _ t_wf). Qed.
Print Assumptions C15_client_never_drops_a_batch.

Theorem C15_client_state_is_end_of_announced_chain :
  forall (bs : list (list (Z * tstate))) (t : tasks) (u : Z) (cur : tstate),
    lookup u t = Some cur ->
    tchain cur (proj u (snd (t_run_cbs t bs))) /\
    lookup u (fst (t_run_cbs t bs)) = Some (last_of cur (proj u (snd (t_run_cbs t bs)))).
Proof. exact (history_chain _ _ _ _ _ _ _ t_wf). Qed.
Print Assumptions C15_client_state_is_end_of_announced_chain.

End ClientSide.

(* ---- the pilot's end reaches the task manager ----
   The task manager's callback (above) runs when the PILOT OBJECT changes
   state: the chain is pmgr notification -> PilotManager._update_pilot ->
   Pilot._update -> pilot callbacks -> TaskManager._pilot_state_cb.  Model of
   the first three links: RP.States (subject of C14).  What C15 needs from it:
   a final notification for a pilot that is not final yet makes Pilot.state that
   final state, raises nothing and ends the callback sequence with it --
   whatever state the client still had the pilot in (a very short pilot, a
   missed activation notice). *)
Module PilotSide.
Import RP.States.Model RP.States.Inst RP.States.PilotEnd.
Theorem C15_pilot_end_is_observed :
  forall cur tgt : pstate,
    p_is_final cur = false -> p_is_final tgt = true ->
    exists cbs, p_notify cur tgt = (tgt, cbs ++ [tgt], None).
Proof. exact pilot_end_is_observed. Qed.
Print Assumptions C15_pilot_end_is_observed.
End PilotSide.
