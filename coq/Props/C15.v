From Coq Require Import ZArith List Bool.
From RP Require Import Gen.StatesTables Wait.Model Wait.Inst Wait.Oracle.
Import ListNotations.
Theorem C15_stub : True.
Proof. exact I. Qed.
Print Assumptions C15_stub.
