(* C18 -- placeholder while the proofs are developed *)
From Coq Require Import ZArith List Bool.
From RP Require Import NodeList.Model NodeList.Oracle.
Theorem C18_placeholder : True. Proof. exact I. Qed.
Print Assumptions C18_placeholder.
