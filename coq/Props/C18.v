(* C18 -- the pilot offers exactly the nodes it was allocated.
   Statements only; every proof is `exact <lemma>` (RP.NodeList.Proofs).

   rm_construct c e acc  is the model of ResourceManager.__init__ (registry
   empty) of the Slurm / PBSPro / LSF / Fork / Cobalt / Torque / CCM
   subclasses: configuration c, batch-system environment e, ssh-probe
   outcomes acc  |->  inl <exception> or inr <RMInfo>.  all_nodes r is
   node_list ++ agent_node_list ++ service_node_list.  The theorems hold for
   EVERY configuration, environment and probe outcome (no bound on the number
   of nodes, lines, agents, blocked indices). *)
From Coq Require Import ZArith List Bool String.
From RP Require Import Gen.RMInfoTables NodeList.Model NodeList.Oracle NodeList.Proofs NodeList.Tables.
Import ListNotations.
Open Scope Z_scope.

(* 0. The tables regenerated from base.py on every run (RMInfo._defaults,
   RMInfo._schema, the get_manager factory) are the ones the model assumes. *)
Theorem C18_tables_wf : tables_wf = true.
Proof. exact tables_wf_ok. Qed.
Print Assumptions C18_tables_wf.

(* 1. One entry per allocated node: no node is named twice among the offered
   and reserved nodes, every name is one the environment mentions, and under
   LSF no login/batch pseudo node is left.  (Fork's virtual nodes share the
   name localhost and are told apart by index, theorem 2.  input_distinct:
   a Slurm hostlist / Cobalt partition range names each node once.) *)
Theorem C18_one_entry_per_node :
  forall c e acc r, rm_construct c e acc = inr r ->
    is_fork e = false -> input_distinct e = true ->
    NoDup (map n_name (all_nodes r))
    /\ incl (map n_name (all_nodes r)) (env_names e)
    /\ (is_lsf e = true -> forall n, In n (map n_name (all_nodes r)) ->
          contains "login" n = false /\ contains "batch" n = false).
Proof. exact (fun c e acc r H => one_entry_per_node c e acc r (construct_scratch c e acc r H)). Qed.
Print Assumptions C18_one_entry_per_node.

(* 2. Unique indices, over offered and reserved nodes together. *)
Theorem C18_indices_unique :
  forall c e acc r, rm_construct c e acc = inr r -> NoDup (map n_index (all_nodes r)).
Proof. exact (fun c e acc r H => indices_unique c e acc r (construct_scratch c e acc r H)). Qed.
Print Assumptions C18_indices_unique.

(* 3. Configured size: every node has gpus_per_node (+ blocked) GPU slots and
   cores_per_node (+ blocked) core slots as RMInfo itself reports them; the
   blocked indices are Down and every other slot is Free.  For Torque/CCM with
   a configured cores_per_node the node file's line count is the node size
   (size_from_file) and only the Down/Free pattern is claimed. *)
Theorem C18_sizes_configured :
  forall c e acc r n, rm_construct c e acc = inr r ->
    (forall i, In i (c_bcores c) -> 0 <= i) -> (forall i, In i (c_bgpus c) -> 0 <= i) ->
    In n (all_nodes r) ->
    pattern_ok (c_bcores c) (n_cores n) = true /\ pattern_ok (c_bgpus c) (n_gpus n) = true
    /\ zlen (n_gpus n) = Z.max 0 (r_gpn r + zlen (c_bgpus c))
    /\ (size_from_file c e = false -> zlen (n_cores n) = Z.max 0 (r_cpn r + zlen (c_bcores c))).
Proof. exact (fun c e acc r n H => sizes_configured c e acc r n (construct_scratch c e acc r H)). Qed.
Print Assumptions C18_sizes_configured.

(* pattern_ok says: slot k is Down iff k is a blocked index, else Free *)
Theorem C18_pattern_meaning :
  forall blocked l, pattern_ok blocked l = true <->
    (forall k x, nth_error l k = Some x ->
       slot_eqb x (if memZ (0 + Z.of_nat k) blocked then Down else Free) = true).
Proof. exact (fun blocked l => enum_forallb _ l 0). Qed.
Print Assumptions C18_pattern_meaning.

(* 4. Nodes set aside for sub-agents and services: as many as the layout asks
   for, and none of them is offered (nor serves both purposes). *)
Theorem C18_agents_excluded :
  forall c e acc r, rm_construct c e acc = inr r ->
    List.length (r_agents r) = count_agents (c_agents c)
    /\ List.length (r_services r) = (if c_services c then 1 else 0)%nat
    /\ (forall n, In n (r_nodes r) -> ~ In (n_index n) (map n_index (r_agents r ++ r_services r)))
    /\ (forall n, In n (r_agents r) -> ~ In (n_index n) (map n_index (r_services r))).
Proof. exact (fun c e acc r H => agents_excluded c e acc r (construct_scratch c e acc r H)). Qed.
Print Assumptions C18_agents_excluded.

(* 5. Never empty: the constructor either raises or offers at least one node. *)
Theorem C18_not_empty_or_error :
  forall c e acc r, rm_construct c e acc = inr r -> r_nodes r <> [].
Proof. exact (fun c e acc r H => not_empty c e acc r (construct_scratch c e acc r H)). Qed.
Print Assumptions C18_not_empty_or_error.

(* 6. Never longer than requested: offered + reserved nodes together do not
   exceed requested_nodes (a negative requested_nodes can only come from
   negative sizes in the configuration) ... *)
Theorem C18_not_longer_than_requested :
  forall c e acc r, rm_construct c e acc = inr r -> 0 <= r_req_nodes r ->
    zlen (r_nodes r) + zlen (r_agents r) + zlen (r_services r) <= r_req_nodes r.
Proof. exact (fun c e acc r H => not_longer_than_requested c e acc r (construct_scratch c e acc r H)). Qed.
Print Assumptions C18_not_longer_than_requested.

(* ... and requested_nodes is the number the pilot asked for whenever it did. *)
Theorem C18_requested_as_configured :
  forall c e acc r, rm_construct c e acc = inr r -> is_fork e = false -> c_nodes c <> 0 ->
    r_req_nodes r = c_nodes c.
Proof. exact (fun c e acc r H => requested_as_configured c e acc r (construct_scratch c e acc r H)). Qed.
Print Assumptions C18_requested_as_configured.

(* 7. The same list is seen by every component: what is put into the registry
   reads back as the same RMInfo, and passes the same verification. *)
Theorem C18_registry_round_trip : forall r, from_dict (as_dict r) = Some r.
Proof. exact from_dict_as_dict. Qed.
Print Assumptions C18_registry_round_trip.

Theorem C18_same_for_all_components :
  forall c e acc r, rm_construct c e acc = inr r -> rm_from_registry (as_dict r) = inr r.
Proof. exact registry_round_trip. Qed.
Print Assumptions C18_same_for_all_components.

(* 8. The usable nodes -- all allocated ones, or with backup nodes those that
   answer the probe (accessible) -- are what the pilot works with.
   (a) _filter_nodes itself, on ANY node list (names arbitrary, also all equal
   as under Fork; any probe outcome per position): offered + reserved nodes
   are, up to order, a sub-sequence of the usable nodes (so each node at most
   once, no unusable and no foreign node) of exactly min(requested, usable)
   length. *)
Theorem C18_filter_nodes_offers_usable :
  forall c acc r0 r, filter_nodes c acc r0 = inr r ->
    exists L, Permutation.Permutation (all_nodes r) L
      /\ subl L (accessible (r_backup r0) acc (r_nodes r0))
      /\ (0 <= r_req_nodes r0 ->
          zlen L = Z.min (r_req_nodes r0) (zlen (accessible (r_backup r0) acc (r_nodes r0)))).
Proof. exact filter_nodes_offers. Qed.
Print Assumptions C18_filter_nodes_offers_usable.

(* (b) it does not fail while enough usable nodes exist: one per node-bound
   sub-agent, one for services, one to offer (needed c) *)
Theorem C18_filter_nodes_succeeds_when_enough :
  forall c acc r0, 0 <= r_req_nodes r0 ->
    needed c <= Z.min (r_req_nodes r0) (zlen (accessible (r_backup r0) acc (r_nodes r0))) ->
    exists r, filter_nodes c acc r0 = inr r.
Proof. exact filter_nodes_enough. Qed.
Print Assumptions C18_filter_nodes_succeeds_when_enough.

(* (c) the same for the whole constructor, r0 being the allocation as the
   resource manager read it (pre_filter) *)
Theorem C18_offers_requested_accessible_nodes :
  forall c e acc r0 r, pre_filter c e = inr r0 -> rm_construct c e acc = inr r ->
    (forall n, In n (all_nodes r) -> In n (accessible (r_backup r0) acc (r_nodes r0)))
    /\ (0 <= r_req_nodes r ->
        zlen (all_nodes r) = Z.min (r_req_nodes r) (zlen (accessible (r_backup r0) acc (r_nodes r0)))).
Proof. exact (fun c e acc r0 r Hp H => offers_accessible c e acc r0 r Hp (construct_scratch c e acc r H)). Qed.
Print Assumptions C18_offers_requested_accessible_nodes.

Theorem C18_startup_fails_only_if_short :
  forall c e acc r0, pre_filter c e = inr r0 -> scalars_ok r0 = true -> 0 <= r_req_nodes r0 ->
    needed c <= Z.min (r_req_nodes r0) (zlen (accessible (r_backup r0) acc (r_nodes r0))) ->
    exists r, rm_construct c e acc = inr r.
Proof. exact startup_fails_only_if_short. Qed.
Print Assumptions C18_startup_fails_only_if_short.

(* the clause the harness evaluates on the implementation's outcome (success
   or exception) is true of the model's outcome, whatever it is *)
Theorem C18_oracle_accessible_on_model :
  forall c e acc, ok_accessible c e acc (rm_construct c e acc) = true.
Proof. exact oracle_ok_accessible. Qed.
Print Assumptions C18_oracle_accessible_on_model.

(* 9. Several initialisations in one process (fresh objects, any resource
   managers, configurations, SMT values; the user may set, unset or keep
   $RADICAL_SMT before each): an initialisation reads its configuration and the
   environment as given and leaves the environment as it was, so every
   result is the result of that initialisation alone ... *)
Theorem C18_initialisations_independent :
  forall l pe,
    run_seq pe l =
    map (fun ps => rm_construct (with_smt_env (fst ps) (st_cfg (snd ps))) (st_env (snd ps)) (st_acc (snd ps)))
        (combine (given_envs pe l) (map snd l)).
Proof. exact seq_independent. Qed.
Print Assumptions C18_initialisations_independent.

(* ... and does not depend on what was initialised before it in the process *)
Theorem C18_earlier_initialisations_irrelevant :
  forall l1 l2 pe1 pe2 u s,
    apply_user u (last (given_envs pe1 l1) pe1) = apply_user u (last (given_envs pe2 l2) pe2) ->
    nth (List.length l1) (run_seq pe1 (l1 ++ [(u, s)])) (inl OtherError) =
    nth (List.length l2) (run_seq pe2 (l2 ++ [(u, s)])) (inl OtherError).
Proof. exact seq_prefix_irrelevant. Qed.
Print Assumptions C18_earlier_initialisations_irrelevant.

(* The boolean clauses the harness evaluates on the implementation's RMInfo
   are true of everything the model returns ... *)
Theorem C18_oracle_holds_on_model :
  forall c e acc r, rm_construct c e acc = inr r ->
    ok_names e r = true /\ ok_indices r = true /\ ok_sizes c e r = true
    /\ ok_reserved c r = true /\ ok_nonempty r = true
    /\ (r_req_nodes r <? 0) || ok_bound r = true
    /\ ok_same r (Some (rm_from_registry (as_dict r))) = true.
Proof.
  exact (fun c e acc r H =>
    conj (oracle_ok_names c e acc r H) (conj (oracle_ok_indices c e acc r H)
    (conj (oracle_ok_sizes c e acc r H) (conj (oracle_ok_reserved c e acc r H)
    (conj (oracle_ok_nonempty c e acc r H) (conj (oracle_ok_bound c e acc r H)
          (oracle_ok_same c e acc r H))))))).
Qed.
Print Assumptions C18_oracle_holds_on_model.

(* ... and the duplicate checks mean what they say. *)
Theorem C18_oracle_indices_sound :
  forall r, ok_indices r = true <-> NoDup (map n_index (all_nodes r)).
Proof. exact (fun r => nodupZ_NoDup _). Qed.
Print Assumptions C18_oracle_indices_sound.

Theorem C18_oracle_names_sound :
  forall l, nodupS l = true <-> NoDup l.
Proof. exact nodupS_NoDup. Qed.
Print Assumptions C18_oracle_names_sound.

(* non-vacuity: an LSF allocation of six 2-core nodes (SMT 2) plus batch and
   login lines, core 0 blocked, one sub-agent on a node, a service node, one
   backup node, node 2 not reachable, 12 cores requested: 4 nodes requested,
   two offered, one each reserved *)
Example C18_nonvacuous :
  let c := mkCfg 0 12 0 0 1 1 0 0 1 None (Some 2) [0] [] [true; false] true false in
  let e := ELSF (NFLines ["batch1"; "h1"; "h1"; "h2"; "h2"; "h3"; "h3"; "h4"; "h4";
                          "h5"; "h5"; "h6"; "h6"; "login2"]%string) in
  match rm_construct c e [AccOk; AccFail; AccOk; AccOk; AccOk; AccOk] with
  | inr r => (map n_name (r_nodes r), map n_name (r_agents r), map n_name (r_services r),
              r_req_nodes r, r_cpn r, map n_cores (r_nodes r), map n_index (all_nodes r))
             = (["h1"; "h3"]%string, ["h5"%string], ["h4"%string], 4, 3,
                [[Down; Free; Free; Free]; [Down; Free; Free; Free]], [0; 2; 4; 3])
  | inl _ => False
  end.
Proof. vm_compute. reflexivity. Qed.

(* non-vacuity of 8: Fork (every node is localhost), 2 nodes requested, 1 backup
   node, one sub-agent on a node, node 1 does not answer: nodes 0 and 2 are
   used, node 2 goes to the sub-agent, node 0 is offered *)
Example C18_nonvacuous_repeated_names :
  let c := mkCfg 2 8 0 4 0 1 0 0 1 None None [] [] [true] false true in
  match rm_construct c (EFork 8) [AccOk; AccFail; AccOk] with
  | inr r => (map n_name (all_nodes r), map n_index (r_nodes r), map n_index (r_agents r))
             = (["localhost"; "localhost"]%string, [0], [2])
  | inl _ => False
  end.
Proof. vm_compute. reflexivity. Qed.

(* non-vacuity of 9: LSF with SMT 1 after an LSF initialisation with SMT 4
   (both from the resource config, $RADICAL_SMT never set): 2 core slots per
   node, not 8 *)
Example C18_nonvacuous_sequence :
  let nf := NFLines ["h1"; "h1"; "h2"; "h2"]%string in
  let c4 := mkCfg 2 16 0 0 0 0 0 0 1 None (Some 4) [] [] [] false false in
  let c1 := mkCfg 2 4 0 0 0 0 0 0 1 None (Some 1) [] [] [] false false in
  map (fun r => match r with inr i => map (fun n => zlen (n_cores n)) (r_nodes i) | inl _ => [] end)
      (run_seq None [(Keep, mkStep c4 (ELSF nf) []); (Keep, mkStep c1 (ELSF nf) [])])
  = [[8; 8]; [2; 2]].
Proof. vm_compute. reflexivity. Qed.
