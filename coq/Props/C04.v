(* C04 -- the pilot scheduler neither loses nor starves tasks.  Statements only. *)
From Coq Require Import ZArith List Bool Sorted.
From RP Require Import Sched.Model Sched.NodeMap Sched.Inv Sched.SchedProofs Sched.RunProofs Sched.LiveProofs
                       Sched.CancelProofs Sched.ConsProofs Sched.PrioProofs.
Import ListNotations.
Open Scope Z_scope.

(* wait pools (and incoming buckets) are served in descending priority, every
   priority that has a pool is served: when a release lets only one of two
   waiting tasks run, the higher priority one is tried first on the full map *)
Theorem C04_priorities_descending :
  forall wp : list (Z * list req),
    StronglySorted (fun a b => b <= a) (prios_desc wp) /\
    (forall p, In p (prios_desc wp) <-> In p (map fst wp)).
Proof. exact (fun wp => conj (prios_desc_sorted wp) (prios_desc_complete wp)). Qed.
Print Assumptions C04_priorities_descending.

(* a cancel request takes only the named tasks out of the wait pool, and the
   only events it causes are CANCELED for named uids *)
Theorem C04_cancel_only_named :
  forall us wp evs wp' evs' t,
    cancel_uids us wp evs = (wp', evs') -> ~ In (r_uid t) us ->
    (In t (pool_reqs wp) <-> In t (pool_reqs wp')).
Proof. exact cancel_only_named. Qed.
Print Assumptions C04_cancel_only_named.

Theorem C04_cancel_events_named :
  forall us wp evs wp' evs' e,
    cancel_uids us wp evs = (wp', evs') -> In e evs' ->
    In e evs \/ exists u, In u us /\ e = Canceled u.
Proof. exact cancel_events_named. Qed.
Print Assumptions C04_cancel_events_named.

(* a task is failed for lack of resources ("can never be scheduled") only in a
   state where nothing is held -- the map is then pointwise the initial one --
   and the search on that idle map finds nothing: a task that fits the idle
   pilot (from the current search offset) is never failed for lack of resources *)
Theorem C04_failed_only_if_idle_pilot_cannot_fit :
  forall ns0 c s t s',
    SInv ns0 s -> try_allocation c s t = (s', TFail ERuntime) ->
    heldg s = [] /\
    (exists off co tg, schedule_task c s t = inr (off, co, tg, None)) /\
    (forall n j, core_at (nodes s) n j = core_at ns0 n j) /\
    (forall n j, gpu_at (nodes s) n j = gpu_at ns0 n j) /\
    (forall n, lfs_at (nodes s) n = lfs_at ns0 n) /\ (forall n, mem_at (nodes s) n = mem_at ns0 n).
Proof. exact never_rule_only_when_idle. Qed.
Print Assumptions C04_failed_only_if_idle_pilot_cannot_fit.

(* on an idle pilot an allocation attempt is decided at once: started if the
   search finds a placement, failed if not -- never left waiting *)
Theorem C04_idle_pilot_decides :
  forall ns0 c s t s' res,
    SInv ns0 s -> heldg s = [] -> try_allocation c s t = (s', res) -> res <> TWait.
Proof. exact idle_pilot_decides. Qed.
Print Assumptions C04_idle_pilot_decides.

(* the only exceptions the placement search raises are the documented ones *)
Theorem C04_search_exceptions :
  forall c s t e off, schedule_task c s t = inl (e, off) -> e = EValue \/ e = EAssert.
Proof. exact schedule_task_err. Qed.
Print Assumptions C04_search_exceptions.

(* Nothing is lost and nothing is duplicated, for EVERY history of arrivals,
   cancel requests, releases, named-environment registrations and iterations,
   with every bisect strategy:  for every uid u, the number of terminal events
   (started / failed / canceled) for u, plus its entries in the wait pools,
   plus its entries in the scheduler's queue never exceeds the number of times
   u arrived, and a uid that arrived is in at least one of these places. *)
Theorem C04_no_loss_no_duplication :
  forall c ns0 ops w' u,
    run c (init_world ns0) ops = Some w' ->
    total u w' <= cz u (arrivals ops) /\ (In u (arrivals ops) -> present u w').
Proof. exact no_loss_no_duplication. Qed.
Print Assumptions C04_no_loss_no_duplication.

(* hence, with unique task uids: every task handed to the scheduler is at any
   time in EXACTLY one of: started, failed, canceled (reported exactly once
   there), waiting, or queued for the next iteration *)
Theorem C04_exactly_one_place :
  forall c ns0 ops w' u,
    run c (init_world ns0) ops = Some w' -> NoDup (arrivals ops) -> In u (arrivals ops) ->
    total u w' = 1.
Proof. exact exactly_one_place. Qed.
Print Assumptions C04_exactly_one_place.

(* PARTIAL: "a task waiting alone is started as soon as enough resources are
   released" and "an idle pilot starts a fitting waiter" are decided on every
   implementation trace by the oracle clause idle_pilot_starts_a_fitting_waiter
   of harness/c04.py and through the model correspondence; they are not stated
   as theorems over all histories (wall-clock "as soon as" is counted in loop
   iterations). *)

Example C04_nonvacuous :
  let ns0 := [mkNode 0 [Free; Free] [] 0 0] in
  let c := mkCfg 2 0 0 0 true in
  let t u p := mkReq u 1 2 0 0 0 0 p None false None None in
  match run c (init_world ns0)
          [Arrive [t 1 0; t 2 0; t 3 5]; Iterate []; CancelMsg [2]; Iterate [[(1, true); (2, true)]];
           Unsched [(3, [mkSlot 0 [0%nat; 1%nat] [] 0 0])]; Iterate [[(1, true)]]; Iterate [[(1, true)]]] with
  | Some w => log w = [Started 3 [mkSlot 0 [0%nat; 1%nat] [] 0 0]; Canceled 2;
                        Started 1 [mkSlot 0 [0%nat; 1%nat] [] 0 0]]
  | None => False
  end.
Proof. vm_compute. reflexivity. Qed.

(* "when a release lets only one of two waiting tasks run, the one with the
   higher priority is started".
   _partial: proved for two waiting tasks in two priority pools (the property's
   literal case): the higher-priority task is tried first, on the state exactly
   as the release left it, and is started in this pass if it fits there. *)
Theorem C04_higher_priority_first_partial :
  forall c s H L pH pL,
    pL < pH ->
    (waitpool s = [(pH, [H]); (pL, [L])] \/ waitpool s = [(pL, [L]); (pH, [H])]) ->
    r_env H = None ->
    forall s' rest res act evs,
      schedule_waitpool c s [[(r_uid H, true)]; [(r_uid L, true)]] = Some (s', rest, res, act, evs) ->
      match snd (try_allocation c s H) with
      | TStarted slH => In (Started (r_uid H) slH) evs
      | _ => True
      end.
Proof. exact higher_priority_tried_first. Qed.
Print Assumptions C04_higher_priority_first_partial.

(* _refuted in general (recorded finding): with more tasks in the higher
   priority pool ru.lazy_bisect leaves tasks unchecked when tasks near them in
   the size-sorted pool failed; such a task that fits the idle pilot keeps
   waiting while a lower-priority task is started.  The witness is the history
   the harness found on the real scheduler, strategy as recorded from the real
   ru.lazy_bisect. *)
Theorem C04_higher_priority_first_refuted :
  exists s' rest res act evs slL slH,
    schedule_waitpool wit_cfg wit_state wit_strat = Some (s', rest, res, act, evs) /\
    r_prio wit_L < r_prio wit_H /\
    In (Started (r_uid wit_L) slL) evs /\
    (forall sl, ~ In (Started (r_uid wit_H) sl) evs) /\
    In wit_H (concat (map snd (waitpool s'))) /\
    snd (try_allocation wit_cfg wit_state wit_H) = TStarted slH.
Proof. exact higher_priority_first_refuted. Qed.
Print Assumptions C04_higher_priority_first_refuted.
